import Sop.Lemmas.OccSerial
import Sop.Model.OccFresh
import Sop.Props.C02
/-!
# C05 — a unique-key store never ends up with two items under the same key (Model L)

Model L (`Sop/Model/Occ.lean`) keeps a key in every entry; `add` / `AddIfNotExist` / `Upsert` go through the duplicate
check against the transaction's view in the work phase (`wAdd`), and `refetchAndMergeClosure` replays adds through
the same check against the refetched state (`refetchStep`).
* `Statement_C05` — full strength (every schedule, unique store, equal keys on one page): stated, not proved.
* `C05_unique_partial` — proved: under C02's hypotheses and `GoodU` (at each install the added keys are new to the
  committed data and items are written once), the committed keys stay pairwise different after every schedule.
  The core is `nodup_applyW`: an install whose updates/removes meet exactly what they read (C02's invariant) and
  whose adds are fresh preserves `NoDupKeys`.
* `dup_without_same_page` / `same_page_one_wins` — the model with the same two racing adds on two pages vs one page.
-/
namespace Sop.C05
open Sop.Occ Sop.C02

def NoDupKeys (db : Nat → Option Entry) : Prop :=
  ∀ i j e e', db i = some e → db j = some e' → e.key = e'.key → i = j

/-- what a write leaves under its item -/
def eff (w : Tr) : Option Entry :=
  match w.act with
  | .remove => none
  | _ => some ⟨w.ent.key, w.nval, w.nver⟩

theorem applyW_notin (ws : List Tr) : ∀ (db : Nat → Option Entry) (it : Nat),
    (∀ w ∈ ws, w.item ≠ it) → (∀ w ∈ ws, w.phys = 0) → applyW db ws it = db it := by
  induction ws with
  | nil => intro db it _ _; rfl
  | cons a ws ih =>
    intro db it h1 h2
    rw [applyW_cons, ih _ _ (fun w hw => h1 w (List.mem_cons_of_mem _ hw)) (fun w hw => h2 w (List.mem_cons_of_mem _ hw))]
    have ha := h1 a List.mem_cons_self
    have hp := h2 a List.mem_cons_self
    rcases applyOne_cases db a it with h | ⟨_, hi, _⟩ | ⟨_, hi, _⟩
    · exact h
    · exact absurd hi ha
    · rw [hp] at hi; exact absurd (by simpa using hi) ha

theorem applyOne_self (db : Nat → Option Entry) (a : Tr) (hp : a.phys = 0) (hg : a.act ≠ .get) : applyOne db a a.item = eff a := by
  unfold applyOne eff
  cases h : a.act with
  | get => exact absurd h hg
  | add => simp
  | update => simp
  | remove => simp [hp]

theorem applyW_mem (ws : List Tr) : ∀ (db : Nat → Option Entry), (ws.map (·.item)).Nodup → (∀ w ∈ ws, w.phys = 0 ∧ w.act ≠ .get) →
    ∀ w ∈ ws, applyW db ws w.item = eff w := by
  induction ws with
  | nil => intro db _ _ w hw; cases hw
  | cons a ws ih =>
    intro db hnd hp w hw
    rw [applyW_cons]
    simp only [List.map_cons, List.nodup_cons] at hnd
    rcases List.mem_cons.mp hw with rfl | hw'
    · rw [applyW_notin ws _ _ (fun w' hw' heq => hnd.1 (List.mem_map.mpr ⟨w', hw', heq⟩)) (fun w' hw' => (hp w' (List.mem_cons_of_mem _ hw')).1)]
      exact applyOne_self db w (hp w List.mem_cons_self).1 (hp w List.mem_cons_self).2
    · exact ih _ hnd.2 (fun w' hw'' => hp w' (List.mem_cons_of_mem _ hw'')) w hw'

theorem eq_of_item_eq : ∀ (ws : List Tr), (ws.map (·.item)).Nodup → ∀ w ∈ ws, ∀ w' ∈ ws, w.item = w'.item → w = w' := by
  intro ws
  induction ws with
  | nil => intro _ w hw; cases hw
  | cons a ws ih =>
    intro hnd w hw w' hw' heq
    simp only [List.map_cons, List.nodup_cons] at hnd
    rcases List.mem_cons.mp hw with rfl | h1 <;> rcases List.mem_cons.mp hw' with rfl | h2
    · rfl
    · exact absurd (List.mem_map.mpr ⟨w', h2, heq.symm⟩) hnd.1
    · exact absurd (List.mem_map.mpr ⟨w, h1, heq⟩) hnd.1
    · exact ih hnd.2 w h1 w' h2 heq

/-- the write set of an install and the committed data it meets -/
structure WsFresh (db : Nat → Option Entry) (ws : List Tr) : Prop where
  nodup : (ws.map (·.item)).Nodup
  shape : ∀ w ∈ ws, w.phys = 0 ∧ w.act ≠ .get
  /-- updates and removes meet the entry they read (C02's invariant) -/
  old : ∀ w ∈ ws, w.act ≠ .add → db w.item = some w.ent
  /-- an add brings a new item; whoever holds its key now is removed by the same write set; no two adds of one key -/
  addNew : ∀ w ∈ ws, w.act = .add → db w.item = none
  addKey : ∀ w ∈ ws, w.act = .add → ∀ j e, db j = some e → e.key = w.ent.key → ∃ w' ∈ ws, w'.act = .remove ∧ w'.item = j
  addAdd : ∀ w ∈ ws, w.act = .add → ∀ w' ∈ ws, w'.act = .add → w'.ent.key = w.ent.key → w'.item = w.item

theorem eff_some {w : Tr} {e : Entry} (h : eff w = some e) : w.act ≠ .remove ∧ e.key = w.ent.key := by
  unfold eff at h
  cases ha : w.act <;> simp [ha] at h <;> exact ⟨by simp, by rw [← h]⟩

theorem nodup_applyW {db : Nat → Option Entry} {ws : List Tr} (hn : NoDupKeys db) (hw : WsFresh db ws) : NoDupKeys (applyW db ws) := by
  intro i j e e' hi hj hk
  have written : ∀ it, (∃ w ∈ ws, w.item = it) ∨ (∀ w ∈ ws, w.item ≠ it) := fun it => by
    by_cases h : ∃ w ∈ ws, w.item = it
    · exact Or.inl h
    · exact Or.inr (fun w hw heq => h ⟨w, hw, heq⟩)
  have unw : ∀ it, (∀ w ∈ ws, w.item ≠ it) → applyW db ws it = db it := fun it h =>
    applyW_notin ws db it h (fun w hw' => (hw.shape w hw').1)
  have wr : ∀ w ∈ ws, applyW db ws w.item = eff w := applyW_mem ws db hw.nodup hw.shape
  -- an item written with a surviving entry of key k: either an update of an item that held k, or an add of k
  have key_of_written : ∀ w ∈ ws, ∀ en, eff w = some en → (w.act = .add ∧ en.key = w.ent.key) ∨ (db w.item = some w.ent ∧ en.key = w.ent.key ∧ w.act ≠ .remove) := by
    intro w hw' en hen
    obtain ⟨hnr, hkey⟩ := eff_some hen
    by_cases ha : w.act = .add
    · exact Or.inl ⟨ha, hkey⟩
    · exact Or.inr ⟨hw.old w hw' ha, hkey, hnr⟩
  rcases written i with ⟨w1, hw1, rfl⟩ | hi'
  · rw [wr w1 hw1] at hi
    rcases written j with ⟨w2, hw2, rfl⟩ | hj'
    · rw [wr w2 hw2] at hj
      rcases key_of_written w1 hw1 e hi with ⟨ha1, hk1⟩ | ⟨ho1, hk1, _⟩ <;>
      rcases key_of_written w2 hw2 e' hj with ⟨ha2, hk2⟩ | ⟨ho2, hk2, hnr2⟩
      · exact (hw.addAdd w2 hw2 ha2 w1 hw1 ha1 (by rw [← hk1, ← hk2, hk])).symm ▸ rfl
      · obtain ⟨w', hw', hr, hit⟩ := hw.addKey w1 hw1 ha1 w2.item w2.ent ho2 (by rw [← hk2, ← hk, hk1])
        have := eq_of_item_eq ws hw.nodup w' hw' w2 hw2 hit
        rw [this] at hr; exact absurd hr hnr2
      · obtain ⟨w', hw', hr, hit⟩ := hw.addKey w2 hw2 ha2 w1.item w1.ent ho1 (by rw [← hk1, hk, hk2])
        have := eq_of_item_eq ws hw.nodup w' hw' w1 hw1 hit
        obtain ⟨hnr1, _⟩ := eff_some hi
        rw [this] at hr; exact absurd hr hnr1
      · exact hn _ _ _ _ ho1 ho2 (by rw [← hk1, ← hk2, hk])
    · rw [unw j hj'] at hj
      rcases key_of_written w1 hw1 e hi with ⟨ha1, hk1⟩ | ⟨ho1, hk1, _⟩
      · obtain ⟨w', hw', _, hit⟩ := hw.addKey w1 hw1 ha1 j e' hj (by rw [← hk, hk1])
        exact absurd hit (hj' w' hw')
      · exact hn _ _ _ _ ho1 hj (by rw [← hk1, hk])
  · rw [unw i hi'] at hi
    rcases written j with ⟨w2, hw2, rfl⟩ | hj'
    · rw [wr w2 hw2] at hj
      rcases key_of_written w2 hw2 e' hj with ⟨ha2, hk2⟩ | ⟨ho2, hk2, _⟩
      · obtain ⟨w', hw', _, hit⟩ := hw.addKey w2 hw2 ha2 i e hi (by rw [hk, hk2])
        exact absurd hit (hi' w' hw')
      · exact hn _ _ _ _ hi ho2 (by rw [hk, hk2])
    · rw [unw j hj'] at hj
      exact hn _ _ _ _ hi hj hk


/-- HYPOTHESIS at an install (what the duplicate check of the work phase and of the merge replay, the node locks
    and the node validation are there to establish): one write per item; an added item is new; whoever holds an
    added key in the committed data is removed by the same transaction; no two adds of one key. -/
def InstallFresh (g : G) (i : Nat) : Prop :=
  (g.txns i).pc = .install →
    let ws := (g.txns i).tracked.filter (·.writes)
    (ws.map (·.item)).Nodup ∧
    (∀ w ∈ ws, w.act = .add → g.db w.item = none) ∧
    (∀ w ∈ ws, w.act = .add → ∀ j e, g.db j = some e → e.key = w.ent.key → ∃ w' ∈ ws, w'.act = .remove ∧ w'.item = j) ∧
    (∀ w ∈ ws, w.act = .add → ∀ w' ∈ ws, w'.act = .add → w'.ent.key = w.ent.key → w'.item = w.item)

def GoodU : G → List (Nat × List Nat) → Prop
  | _, [] => True
  | g, s :: rest => InstallFresh g s.1 ∧ GoodU (step g s.1 s.2) rest

theorem nodup_step {db0 : Nat → Option Entry} {g : G} (i : Nat) (hint : List Nat) (inv : Inv db0 g) (hshape : Shape g)
    (hck : ChecksAll g) (hf : InstallFresh g i) (hn : NoDupKeys g.db) : NoDupKeys (step g i hint).db := by
  rcases step_spec g hck i hint with ⟨_, h⟩ | ⟨_, h⟩ | ⟨hpc, h⟩ | ⟨_, _, _, h⟩
  · rw [h]; exact hn
  · rw [h.db]; exact hn
  · rw [h.db]
    obtain ⟨f1, f2, f3, f4⟩ := hf hpc
    have hmem : ∀ w ∈ (g.txns i).tracked.filter (·.writes), w ∈ (g.txns i).tracked ∧ w.act ≠ .get := by
      intro w hw
      have := List.mem_filter.mp hw
      exact ⟨this.1, by simpa [Tr.writes] using this.2⟩
    refine nodup_applyW hn ⟨f1, fun w hw => ⟨(hshape i w (hmem w hw).1).1, (hmem w hw).2⟩, ?_, f2, f3, f4⟩
    intro w hw hna
    exact inv.c i (w.item, w.ent) (Or.inr hpc) (mem_reads.mpr ⟨w, (hmem w hw).1, hna, rfl⟩)
  · rw [h.db]; exact hn

theorem nodup_run {db0 : Nat → Option Entry} : ∀ (sched : List (Nat × List Nat)) (g : G), Inv db0 g → Good g sched → GoodU g sched →
    NoDupKeys g.db → NoDupKeys (run g sched).db := by
  intro sched
  induction sched with
  | nil => intro g _ _ _ hn; exact hn
  | cons s rest ih =>
    intro g inv hg hu hn
    obtain ⟨hc, hs, hk, hb, hrest⟩ := hg
    exact ih _ (inv_step s.1 s.2 inv hc hs hk hb) hrest hu.2 (nodup_step s.1 s.2 inv hs hk hu.1 hn)

/-! ## `GoodU` as a decidable check over a finite item universe -/

def GoodUN (items : List Nat) : G → List (Nat × List Nat) → Prop
  | _, [] => True
  | g, s :: rest => InstallFreshN items g s.1 ∧ GoodUN items (step g s.1 s.2) rest

instance (items : List Nat) : ∀ (sched : List (Nat × List Nat)) (g : G), Decidable (GoodUN items g sched)
  | [], _ => inferInstanceAs (Decidable True)
  | s :: rest, g =>
    have := instDecidableGoodUN items rest (step g s.1 s.2)
    inferInstanceAs (Decidable (InstallFreshN items g s.1 ∧ GoodUN items (step g s.1 s.2) rest))

/-- the committed data lives inside `items` -/
def DbIn (items : List Nat) (g : G) : Prop := ∀ j, j ∉ items → g.db j = none

theorem dbIn_step {items : List Nat} {g : G} (hck : ChecksAll g) (hshape : Shape g) (i : Nat) (hint : List Nat) (hd : DbIn items g)
    (hf : InstallFreshN items g i) : DbIn items (step g i hint) := by
  rcases step_spec g hck i hint with ⟨_, h⟩ | ⟨_, h⟩ | ⟨hpc, h⟩ | ⟨_, _, _, h⟩
  · rw [h]; exact hd
  · intro j hj; rw [h.db]; exact hd j hj
  · intro j hj
    rw [h.db, applyW_notin]
    · exact hd j hj
    · intro w hw heq
      exact hj (heq ▸ (hf hpc).2.2.2.2 w hw)
    · intro w hw
      exact (hshape i w (List.mem_filter.mp hw).1).1
  · intro j hj; rw [h.db]; exact hd j hj

theorem installFresh_of {items : List Nat} {g : G} {i : Nat} (hd : DbIn items g) (hf : InstallFreshN items g i) :
    InstallFresh g i := by
  intro hpc
  obtain ⟨f1, f2, f3, f4, _⟩ := hf hpc
  refine ⟨f1, f2, ?_, f4⟩
  intro w hw ha j e hj hk
  by_cases hji : j ∈ items
  · exact f3 w hw ha j hji e hj hk
  · rw [hd j hji] at hj; cases hj

/-- the check is also complete: it rejects nothing `InstallFresh` accepts, as long as the writes land in `items` -/
theorem installFreshN_of {items : List Nat} {g : G} {i : Nat} (hf : InstallFresh g i)
    (hw : ∀ w ∈ (g.txns i).tracked.filter (·.writes), w.item ∈ items) : InstallFreshN items g i := by
  intro hpc
  obtain ⟨f1, f2, f3, f4⟩ := hf hpc
  exact ⟨f1, f2, fun w hw' ha j _ e hj hk => f3 w hw' ha j e (Option.mem_def.mp hj) hk, f4, hw⟩

/-- the checker is sound: on a run that is `Good`, `GoodUN` over an item universe holding the committed data gives `GoodU` -/
theorem goodU_of {items : List Nat} : ∀ (sched : List (Nat × List Nat)) (g : G), DbIn items g → Good g sched → GoodUN items g sched →
    GoodU g sched
  | [], _, _, _, _ => trivial
  | s :: rest, _, hd, hg, hu =>
    ⟨installFresh_of hd hu.1, goodU_of rest _ (dbIn_step hg.2.2.1 hg.2.1 s.1 s.2 hd hu.1) hg.2.2.2.2 hu.2⟩

/-- equal keys live on the same page, for every committed item and every item some transaction adds -/
def KeysOnOnePage (g : G) : Prop :=
  ∃ kp : Int → Nat, (∀ i e, g.db i = some e → g.pageOf i = kp e.key) ∧
    ∀ i tr, tr ∈ (g.txns i).tracked → tr.act = .add → g.pageOf tr.item = kp tr.ent.key

/-- C05 at full strength over Model L: for a unique store whose equal keys share a page (as in any B-tree), every
    schedule keeps the committed keys pairwise different. NOT proved here (see `C05_unique_partial`). -/
def Statement_C05 : Prop :=
  ∀ (g0 : G) (sched : List (Nat × List Nat)), Init g0 → g0.unique = true → NoDupKeys g0.db →
    (∀ k, k ≤ sched.length → KeysOnOnePage (run g0 (sched.take k))) → NoDupKeys (run g0 sched).db

/-- C05, partial: under C02's hypotheses (`Good`: lock records behave like compare-and-set records, tracker sound)
    and `GoodU` (at every install the added keys are new to the committed data), no schedule creates a duplicate key. -/
theorem C05_unique_partial (g0 : G) (sched : List (Nat × List Nat)) (h0 : Init g0) (hg : Good g0 sched) (hu : GoodU g0 sched)
    (hn : NoDupKeys g0.db) : NoDupKeys (run g0 sched).db :=
  nodup_run sched g0 (inv_init h0) hg hu hn

/-- C05 partial with `GoodU` replaced by its decidable check over an item universe that holds the committed data
    (`Good` itself has the decidable check `Sop.C02.GoodN`, sound by `Sop.C02.good_of`). -/
theorem C05_unique_checked (items : List Nat) (g0 : G) (sched : List (Nat × List Nat)) (h0 : Init g0) (hg : Good g0 sched)
    (hd : DbIn items g0) (hu : GoodUN items g0 sched) (hn : NoDupKeys g0.db) : NoDupKeys (run g0 sched).db :=
  C05_unique_partial g0 sched h0 hg (goodU_of sched g0 hd hg hu) hn

/-! ## witnesses -/

/-- two writers add the SAME key 20 as different items placed on DIFFERENT pages (1 and 2): both install — the page
    protocol only serialises writers of the same page. This is why `KeysOnOnePage` is part of the statement (in the
    real B-tree the two adds land in the same leaf and the second one's merge replay hits the duplicate check). -/
def absent : Txn := { pc := .done, res := .abort }

def twoPages : G :=
  { ids := [], pageOf := fun i => if i = 1000 then 1 else 2,
    txns := fun i => if i = 0 then { prog := [.add 1000 20 1] } else if i = 1 then { prog := [.add 2000 20 2] } else absent }

def rr : List (Nat × List Nat) := [0, 1, 0, 1, 0, 1, 0, 1, 0, 1].map fun i => (i, [])

theorem dup_without_same_page :
    (run twoPages rr).db 1000 = some ⟨20, 1, 0⟩ ∧ (run twoPages rr).db 2000 = some ⟨20, 2, 0⟩ := by decide

/-- the same two adds on the SAME page: the second writer's validation fails, its merge replay finds the key and the
    commit fails — one item -/
def onePage : G := { twoPages with pageOf := fun _ => 1 }

theorem same_page_one_wins :
    (run onePage rr).db 1000 = some ⟨20, 1, 0⟩ ∧ (run onePage rr).db 2000 = none ∧ ((run onePage rr).txns 1).res = .err := by decide

/-- non-vacuity of `GoodU`: the same-page run above meets the decidable check (items 1000 and 2000), so it meets
    `GoodU` once it is `Good`; the two-page run does NOT (its second install adds key 20 while item 1000 holds it). -/
theorem goodUN_onePage : GoodUN [1000, 2000] onePage rr := by decide

theorem not_goodUN_twoPages : ¬ GoodUN [1000, 2000] twoPages rr := by decide

/-- the whole of `C05_unique_checked` applied to a concrete racing run: every hypothesis is discharged (the two
    decidable checks by evaluation), so the theorem — not an evaluation of the final state — gives uniqueness there -/
theorem onePage_init : Init onePage :=
  ⟨rfl, fun i => by
    by_cases h0 : i = 0
    · subst h0; exact Or.inl rfl
    · by_cases h1 : i = 1
      · subst h1; exact Or.inl rfl
      · exact Or.inr (by simp [onePage, twoPages, h0, h1, absent])⟩

theorem onePage_quiet : Quiet 2 onePage := fun i hi => by
  have h0 : i ≠ 0 := by omega
  have h1 : i ≠ 1 := by omega
  simp [onePage, twoPages, h0, h1, absent]

theorem onePage_goodN : GoodN 2 onePage rr := by decide

theorem onePage_unique : NoDupKeys (run onePage rr).db :=
  C05_unique_checked [1000, 2000] onePage rr onePage_init (good_of rr onePage onePage_quiet onePage_goodN)
    (fun _ _ => rfl) goodUN_onePage (fun i j e e' h => by cases h)

/-- non-vacuity of `WsFresh`: replace the holder of key 20 (item 7) by a new item and update item 8 -/
example : WsFresh (fun i => if i = 7 then some ⟨20, 1, 0⟩ else if i = 8 then some ⟨30, 1, 0⟩ else none)
    [{ item := 7, act := .remove, ent := ⟨20, 1, 0⟩, nval := 1, nver := 0 },
     { item := 9, act := .add, ent := ⟨20, 0, 0⟩, nval := 5, nver := 0 },
     { item := 8, act := .update, ent := ⟨30, 1, 0⟩, nval := 6, nver := 1 }] := by
  refine ⟨by decide, by decide, by decide, by decide, ?_, by decide⟩
  intro w hw ha j e hj hk
  simp only [List.mem_cons, List.not_mem_nil, or_false] at hw
  rcases hw with rfl | rfl | rfl
  · cases ha
  · refine ⟨_, List.mem_cons_self, rfl, ?_⟩
    by_cases h7 : j = 7
    · exact h7.symm
    · by_cases h8 : j = 8
      · subst h8; simp at hj; subst hj; simp at hk
      · simp [h7, h8] at hj
  · cases ha

end Sop.C05
