import Sop.Lemmas.Merge
/-!
# C06 — a store's item count always equals the number of items it contains

Composition over the commit-loop model `Sop.Merge` (see `DESIGN.md` §6 C06):

* `delta_eq`: a transaction's count delta `Count − count-at-fetch` equals |adds| − |removes| of the
  changes in its local tree, at `Commit` and after every refetch-and-merge (both counters are reset to
  the stored count before the replay) — `delta_begin`, `delta_refetch`, kept as an invariant;
* installing valid changes moves the number of items by exactly that delta (`applyAll_length`);
* a failed commit leaves count and items alone, a failure after `beforeFinalize` applies the delta and
  its exact reverse (`late`); the only exception is the `count` fault (`StoreRepository.Update`
  reports an error after applying the delta), which is `C06_counterexample_count_kept`.

`C06` : after ANY history of `begin`/`step` events of any number of writers (committed, conflicted,
merged, failed, aborted), for both the pinned and the repaired merge (`fixed`), the stored count is
the number of items — provided every install writes changes that are valid for the store at that
moment (`InstallsValid`; this is what page validation plus the B-tree give, C02/C17) and no `count`
fault is injected.
-/
namespace Sop.C06
open Sop.Merge

inductive Ev where
  | begin (i : Nat) (trs : List Tr) (adv : List (Nat × PAct)) (fault : Fault) (abort : Bool)
  | step (i : Nat) (adv : List (Nat × PAct))

def applyEv (fixed : Bool) (s : State) : Ev → State
  | .begin i trs adv f ab => Merge.begin s i trs adv f ab
  | .step i adv => Merge.step fixed s i adv

def runEv (fixed : Bool) : State → List Ev → State
  | s, [] => s
  | s, e :: rest => runEv fixed (applyEv fixed s e) rest

/-- the changes are on pairwise different keys and each is valid for `db` -/
def InstallOK (db : DB) (ts : List Tr) : Prop :=
  (ts.map (·.key)).Nodup ∧ ∀ t ∈ ts, valid db t = true

/-- this step of writer `i` validates and writes the writer's changes -/
def willInstall (s : State) (i : Nat) : Bool :=
  let w := s.ws i
  match w.pc with
  | .atHold => !w.needsRefetch && validate s w.pages && effectiveFault w == .none
  | .atDual => canLock s.pageLocks i w.nodeKeys && validate s w.pages && effectiveFault w == .none
  | _ => false

def evOK (s : State) : Ev → Prop
  | .begin _ _ _ f _ => f ≠ .count
  | .step i _ => willInstall s i = true → InstallOK s.db (s.ws i).pending

/-- every install of the history writes valid changes; no `count` fault is injected -/
def InstallsValid (fixed : Bool) : State → List Ev → Prop
  | _, [] => True
  | s, e :: rest => evOK s e ∧ InstallsValid fixed (applyEv fixed s e) rest

instance (db : DB) (ts : List Tr) : Decidable (InstallOK db ts) := by unfold InstallOK; exact inferInstance

instance (s : State) (e : Ev) : Decidable (evOK s e) := by
  cases e <;> simp only [evOK] <;> exact inferInstance

instance decInstallsValid (fixed : Bool) : (s : State) → (es : List Ev) → Decidable (InstallsValid fixed s es)
  | _, [] => isTrue trivial
  | s, e :: rest =>
    have := decInstallsValid fixed (applyEv fixed s e) rest
    by unfold InstallsValid; exact inferInstance

structure Inv' (db : DB) (count : Int) (ws : Nat → Writer) : Prop where
  count_eq : count = db.length
  delta : ∀ i, (ws i).count - (ws i).count0 = net (ws i).pending
  nofault : ∀ i, (ws i).fault ≠ .count

def Inv (s : State) : Prop := Inv' s.db s.count s.ws

theorem inv_update {db : DB} {c : Int} {ws : Nat → Writer} (h : Inv' db c ws) (i : Nat) (w : Writer)
    (hd : w.count - w.count0 = net w.pending) (hf : w.fault ≠ .count) :
    Inv' db c (fun j => if j = i then w else ws j) := by
  refine ⟨h.count_eq, ?_, ?_⟩
  · intro j; by_cases hj : j = i <;> simp [hj, hd, h.delta j]
  · intro j; by_cases hj : j = i <;> simp [hj, hf, h.nofault j]

theorem net_lockSet : ∀ (ts : List Tr) (ls : List LockRec), net (lockSet ls ts).2 = net ts := by
  intro ts
  induction ts with
  | nil => intro ls; rfl
  | cons t r ih =>
    intro ls
    unfold lockSet
    split
    · simp [net, ih]
    · split
      · simp [net, ih]
      · simp [net, ih, net1]

theorem net_lockTracked {ls ls' : List LockRec} {ts ts' : List Tr} (h : lockTracked ls ts = some (ls', ts')) :
    net ts' = net ts := by
  unfold lockTracked at h
  split at h
  · simp at h
  · simp at h
    have := net_lockSet ts ls
    rw [h] at this
    exact this

/-- `delta_eq` at `Commit` -/
theorem begin_inv {s : State} (h : Inv s) (i : Nat) (trs : List Tr) (adv : List (Nat × PAct)) (f : Fault) (ab : Bool)
    (hf : f ≠ .count) : Inv (Merge.begin s i trs adv f ab) := by
  unfold Inv at *
  unfold Merge.begin
  simp only
  split
  · exact inv_update h i _ (by simp; omega) (by simpa using hf)
  · split
    · exact inv_update h i _ (by simp; omega) (by simpa using hf)
    · split
      · exact inv_update h i _ (by simp; omega) (by simpa using hf)
      · rename_i ls trs' heq
        have := net_lockTracked heq
        exact inv_update h i _ (by simp [this]; omega) (by simpa using hf)

theorem finish_inv {s : State} {i : Nat} {w : Writer} {r : Res} (h : Inv' s.db s.count s.ws)
    (hd : w.count - w.count0 = net w.pending) (hf : w.fault ≠ .count) : Inv (finish s i w r) := by
  unfold Inv finish State.setW
  exact inv_update h i _ (by simpa using hd) (by simpa using hf)

theorem effectiveFault_count {w : Writer} (h : w.fault ≠ .count) : effectiveFault w ≠ .count := by
  unfold effectiveFault
  cases hfa : w.fault <;> simp_all
  all_goals (split <;> simp)

theorem commitPhase_inv {s : State} {i : Nat} {w : Writer} (h : Inv' s.db s.count s.ws)
    (hd : w.count - w.count0 = net w.pending) (hf : w.fault ≠ .count)
    (hok : validate s w.pages = true → effectiveFault w = .none → InstallOK s.db w.pending) :
    Inv (commitPhase s i w) := by
  unfold commitPhase
  simp only
  have hef : effectiveFault { w with passes := w.passes + 1 } = effectiveFault w := rfl
  split
  · rename_i hval
    rw [hef]
    cases hfa : effectiveFault w with
    | none =>
      have ok := hok hval hfa
      have hlen := applyAll_length ok.1 ok.2
      unfold Inv finish State.setW
      refine ⟨?_, ?_, ?_⟩
      · simp only; rw [hlen, hd, h.count_eq]
      · intro j; by_cases hj : j = i <;> simp [hj, hd, h.delta j]
      · intro j; by_cases hj : j = i <;> simp [hj, hf, h.nofault j]
    | clean => exact finish_inv h (by simpa using hd) (by simpa using hf)
    | count => exact absurd hfa (effectiveFault_count hf)
    | late =>
      unfold Inv finish State.setW
      refine ⟨?_, ?_, ?_⟩
      · simp only; rw [h.count_eq]; omega
      · intro j; by_cases hj : j = i <;> simp [hj, hd, h.delta j]
      · intro j; by_cases hj : j = i <;> simp [hj, hf, h.nofault j]
  · split
    · exact finish_inv h (by simpa using hd) (by simpa using hf)
    · unfold Inv State.setW
      exact inv_update h i _ (by simpa using hd) (by simpa using hf)

/-- `delta_eq` through refetch-and-merge, for the pinned and the repaired replay alike -/
theorem refetch_inv {fixed : Bool} {s : State} {i : Nat} {w : Writer} {adv : List (Nat × PAct)}
    (h : Inv' s.db s.count s.ws) (hd : w.count - w.count0 = net w.pending) (hf : w.fault ≠ .count) :
    Inv (refetch fixed s i w adv) := by
  unfold refetch
  split
  · exact finish_inv h hd hf
  · rename_i r hr
    simp only
    split
    · exact finish_inv (s := { s with nextLock := r.nextLock }) h (by simp; omega) (by simpa using hf)
    · unfold Inv State.setW
      exact inv_update h i _ (by simp; omega) (by simpa using hf)

theorem step_inv {fixed : Bool} {s : State} (h : Inv s) (i : Nat) (adv : List (Nat × PAct))
    (hok : willInstall s i = true → InstallOK s.db (s.ws i).pending) : Inv (Merge.step fixed s i adv) := by
  have hd := h.delta i
  have hf := h.nofault i
  unfold Merge.step
  simp only
  unfold willInstall at hok
  simp only at hok
  cases hpc : (s.ws i).pc with
  | done r => simpa [hpc] using h
  | atLock =>
    simp only [hpc]
    split
    · unfold Inv State.setW; exact inv_update h i _ (by simpa using hd) (by simpa using hf)
    · unfold Inv State.setW; exact inv_update h i _ (by simpa using hd) (by simpa using hf)
  | atHold =>
    simp only [hpc] at hok ⊢
    split
    · exact refetch_inv h hd hf
    · rename_i hnr
      apply commitPhase_inv h hd hf
      intro hv he
      apply hok
      simp [hnr, hv, he]
  | atDual =>
    simp only [hpc] at hok ⊢
    split
    · rename_i hcl
      apply commitPhase_inv (s := { s with pageLocks := acquire s.pageLocks i (s.ws i).nodeKeys }) h hd hf
      intro hv he
      apply hok
      have hv' : validate s (s.ws i).pages = true := hv
      simp [hcl, hv', he]
    · unfold Inv State.setW; exact inv_update h i _ (by simpa using hd) (by simpa using hf)

theorem applyEv_inv {fixed : Bool} {s : State} (h : Inv s) (e : Ev) (hok : evOK s e) : Inv (applyEv fixed s e) := by
  cases e with
  | begin i trs adv f ab => exact begin_inv h i trs adv f ab hok
  | step i adv => exact step_inv h i adv hok

theorem runEv_inv {fixed : Bool} : ∀ (es : List Ev) {s : State}, Inv s → InstallsValid fixed s es → Inv (runEv fixed s es) := by
  intro es
  induction es with
  | nil => intro s h _; exact h
  | cons e rest ih =>
    intro s h hv
    exact ih (applyEv_inv h e hv.1) hv.2

/-- a store whose stored count is its number of items, no writer active yet -/
def initial (db : DB) : State := { db := db, count := db.length }

theorem initial_inv (db : DB) : Inv (initial db) :=
  ⟨rfl, fun _ => by simp [initial, net], fun _ => by simp [initial]⟩

/-- **C06.** After any history (any number of writers beginning at any time, any interleaving of their
commit steps, conflicts, refetch-and-merge rounds, item-lock failures, retry exhaustion, aborts,
injected `clean`/`late` failures), with the pinned or the repaired merge, the count a new transaction
reads from the store repository equals the number of items in the store. -/
theorem C06 (fixed : Bool) (db : DB) (es : List Ev) (hv : InstallsValid fixed (initial db) es) :
    (runEv fixed (initial db) es).count = ((runEv fixed (initial db) es).db.length : Int) :=
  (runEv_inv es (initial_inv db) hv).count_eq

/-- `delta_eq` as a statement of its own: in every reachable state every writer's
`Count − count-at-fetch` is |adds| − |removes| of the changes in its local tree -/
theorem delta_eq (fixed : Bool) (db : DB) (es : List Ev) (hv : InstallsValid fixed (initial db) es) (i : Nat) :
    let w := (runEv fixed (initial db) es).ws i
    w.count - w.count0 = net w.pending :=
  (runEv_inv es (initial_inv db) hv).delta i

/-! ### the hypotheses are satisfiable by a non-trivial history, and needed -/

def it (k v : Nat) : Item := ⟨k, v, 0, k⟩
def db0 : DB := [it 10 10, it 20 20]
def addTr (k : Nat) : Tr := { key := k, act := .add, val := k, id := 100 + k }
def rmTr (k : Nat) : Tr := { key := k, act := .rm, id := k }

/-- writer 0 adds 1 and removes 10, writer 1 adds 2 on the same page; 1 installs first, 0 conflicts,
refetches, merges and installs -/
def hist : List Ev :=
  [.begin 0 [addTr 1, rmTr 10] [(1, .upd)] .none false, .begin 1 [addTr 2] [(1, .upd)] .none false,
   .step 1 [], .step 1 [], .step 0 [], .step 0 [], .step 0 [], .step 0 [(1, .upd)], .step 0 []]

example : InstallsValid true (initial db0) hist := by decide
example : ((runEv true (initial db0) hist).ws 0).pc = .done .ok ∧ ((runEv true (initial db0) hist).ws 0).passes = 2
    ∧ (runEv true (initial db0) hist).count = 3 ∧ (runEv true (initial db0) hist).db.length = 3 := by decide

/-- like `InstallsValid`, but any fault may be injected -/
def InstallsValidAnyFault (fixed : Bool) : State → List Ev → Prop
  | _, [] => True
  | s, e :: rest =>
    (match e with
      | .begin .. => True
      | .step i _ => willInstall s i = true → InstallOK s.db (s.ws i).pending) ∧
    InstallsValidAnyFault fixed (applyEv fixed s e) rest

instance decAnyFault (fixed : Bool) : (s : State) → (es : List Ev) → Decidable (InstallsValidAnyFault fixed s es)
  | _, [] => isTrue trivial
  | s, e :: rest =>
    have := decAnyFault fixed (applyEv fixed s e) rest
    by
      unfold InstallsValidAnyFault
      cases e <;> exact inferInstance

/-- the full-strength statement: no restriction on the injected failures -/
def Statement_C06 : Prop :=
  ∀ (fixed : Bool) (db : DB) (es : List Ev), InstallsValidAnyFault fixed (initial db) es →
    (runEv fixed (initial db) es).count = ((runEv fixed (initial db) es).db.length : Int)

/-- `StoreRepository.Update` applies the delta and then reports an error: the commit fails, `rollback`
(log still at `commitStoreInfo`) restores the nodes but not the count -/
def histCount : List Ev := [.begin 0 [addTr 1, addTr 2] [(1, .upd)] .count false, .step 0 [], .step 0 []]

theorem C06_counterexample_count_kept :
    ((runEv true (initial db0) histCount).ws 0).pc = .done .errInjected ∧
    (runEv true (initial db0) histCount).count = 4 ∧ (runEv true (initial db0) histCount).db.length = 2 := by decide

/-- the full-strength statement is false for the code as it is (and the repair of the merge does not
change that): the `count` fault is a history after which count ≠ number of items -/
theorem C06_counterexample : ¬ Statement_C06 := by
  intro h
  have := h true db0 histCount (by decide)
  revert this
  decide

/-- the same fault on an EMPTIED store: count 2 and no item at all. (On the real code this is the state in
which a new transaction's `Find` indexes the empty root node's slot array at -1 and panics:
finding C06-F3; the directed case `count-kept-empty-root` replays it.) -/
theorem C06_counterexample_count_kept_empty_root :
    ((runEv true (initial []) histCount).ws 0).pc = .done .errInjected ∧
    (runEv true (initial []) histCount).count = 2 ∧ (runEv true (initial []) histCount).db = [] := by decide

/-- first-root race: the store ends with the winner's count and the loser's uncommitted item -/
theorem C06_counterexample_first_root :
    let s0 : State := initial []
    let s1 := Merge.begin s0 0 [addTr 1, addTr 2] [(1, .root)] .none false
    let s2 := Merge.begin s1 1 [addTr 7] [(1, .root)] .none false
    let s3 := rootFinish s2 0
    let s4 := rootFinish s3 1
    (s4.ws 0).pc = .done .ok ∧ (s4.ws 1).pc = .done .errTimeout ∧ s4.count = 2 ∧ s4.db.map (·.key) = [7] := by decide

end Sop.C06
