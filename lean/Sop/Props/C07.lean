import Sop.Lemmas.Commit
import Sop.Lemmas.CommitWitness
import Sop.Lemmas.CommitClean8
/-!
# C07 — a commit that fails on an I/O or lock error leaves no trace and no blockage

Stated on Model P. The full statement is false for the code as it is; three independent witnesses are proved
here and replayed on the implementation by the harness (findings C07-F1..F3, F5). What holds in general is the
per-handle algebra: an undone reservation is exactly the pre-reservation image with an empty inactive slot
(`undo_restores_handle`), i.e. the undo routine is right whenever `rollback` decides to run it.

Whole runs (`C07_failed_*`): for every write set and start state satisfying `Pre`/`Pre2`, every transaction id and
every fault OUTSIDE the finding positions, a commit that returns an error ends with every updated node's registry
handle restored (inactive id empty and work-in-progress timestamp 0, or the entry untouched) and with no node-key
lock of the transaction left. Covered: every fault position of phase 2 (`C07_failed_phase2_no_blockage`); phase-1
failures by the injected fault at committed state `commitRemovedNodes` … `beforeFinalize`
(`C07_failed_phase1_late_no_blockage`) and at committed state ≤ `commitNewRootNodes`, or `areFetchedItemsIntact`
with a `tlog.Add` / `reg.Get` / `reg.UpdateNoLocks:failBefore` fault (`C07_failed_phase1_early_untouched`).
Not covered (= C07-F1): `blob.Add` and `reg.UpdateNoLocks:failAfter` at committed state `areFetchedItemsIntact`,
anything at committed state `commitUpdatedNodes`; and errors the code detects by itself while the injected fault is
still pending (the fault may then hit the rollback's own calls). The theorems speak of the UPDATED nodes' handles and
the node-key locks only: removal marks (C07-F5), new roots (F4), counts (F3) and item lock records (F2) are not claimed.
-/
namespace Sop.C07
open Sop.Commit

/-- no trace and no blockage: after a failed commit the same changes, committed by a later transaction with no
faults and no waiting, go through, and meanwhile nothing a reader sees has changed -/
def Statement_C07 : Prop :=
  ∀ (s : State) (w : WS) (fresh fresh2 : List (UUID × UUID)) (f : Fault),
    let r := commit w 30 { s := s, tid := 1, fault := some f, fresh := fresh }
    r.1 = .err →
      (∀ lid, r.2.s.view lid = s.view lid) ∧ (∀ st, r.2.s.cnt st = s.cnt st) ∧
      (commit w 30 { s := r.2.s, tid := 2, fault := none, fresh := fresh2 }).1 = .ok

/-- the undo of a reservation gives the handle back as it was, with the inactive slot and the timestamp cleared -/
theorem undo_restores_handle (now hour : Int) (f : UUID) (h h' : Handle) (v : Int)
    (e : reserveOne now hour f h v = some h') :
    h'.clearInactive.lid = h.lid ∧ h'.clearInactive.active = h.active ∧ h'.clearInactive.version = h.version
      ∧ h'.clearInactive.inactive = 0 ∧ h'.clearInactive.wip = 0 := undo_reserve now hour f h h' v e

/-- and such a handle can be reserved again at once (no expiry needed) by the next transaction -/
theorem cleared_handle_reservable (now hour : Int) (f : UUID) (h : Handle) (hd : h.deleted = false) :
    ∃ h', reserveOne now hour f h.clearInactive h.version = some h' := by
  obtain ⟨_, _, c3, c4, _, c6⟩ := Handle.clearInactive_spec h
  unfold reserveOne
  have hdel : h.clearInactive.deleted = false := by rw [c6, hd]
  simp only [hdel, Bool.false_and, Bool.false_or, c4, bne_self_eq_false, Bool.false_eq_true, ↓reduceIte]
  have hall : ∃ g, h.clearInactive.allocate f now = some g := by
    unfold Handle.allocate Handle.bothInUse
    unfold Handle.inactive at c3
    cases hb : h.clearInactive.activeB <;> simp [hb] at c3 ⊢ <;> simp [c3]
  obtain ⟨g, hg⟩ := hall
  exact ⟨g, by simp [hg]⟩

/-- the failed first commit of the witnesses below -/
abbrev rFail (w : WS) (f : Fault) (fresh : List (UUID × UUID)) : Outcome × Run :=
  commit w 30 { s := Witness.s0, tid := 1, fault := some f, fresh := fresh }

/-- a handle whose two physical ids are both in use and whose timestamp has not expired cannot be reserved:
this is what makes a leftover reservation block every later writer of that node for an hour -/
theorem leftover_reservation_blocks (now hour : Int) (f : UUID) (h : Handle) (v : Int)
    (hA : h.idA ≠ 0) (hB : h.idB ≠ 0) (hne : h.expiredInactive now hour = false) :
    reserveOne now hour f h v = none := by
  unfold reserveOne
  split
  · rfl
  · have hb : h.bothInUse = true := by unfold Handle.bothInUse; simp [hA, hB]
    by_cases hd : h.deleted = true
    · simp_all
    · have hd' : h.deleted = false := by simpa using hd
      simp [hd', Handle.allocate, hb, hne]

/-- **F1 (reservation stays)**: the staged-blob write inside `commitUpdatedNodes` fails; `committedState` is still
`areFetchedItemsIntact`, so `rollback` skips `rollbackUpdatedNodes`: handle 1 keeps both ids in use with a live
timestamp — by `leftover_reservation_blocks` no later transaction can reserve it before the one-hour expiry. -/
theorem C07_counterexample_reservation :
    (rFail Witness.wSplit ⟨.blobAdd, 1, .failBefore⟩ [(1, 9)]).1 = .err ∧
    ((rFail Witness.wSplit ⟨.blobAdd, 1, .failBefore⟩ [(1, 9)]).2.s.reg 1).map
        (fun h => (h.idA, h.idB, h.expiredInactive Witness.s0.now Witness.s0.hour)) = some (1, 9, false) := by
  refine ⟨?_, ?_⟩ <;> decide +kernel

/-- **F2 (lock records stay)**: the lock-record write succeeds but reports an error; the records are there under
the failed transaction's id, its owner flag is not set, so `unlock` deletes nothing; `lockItems` of any other
transaction then reports a conflict (first branch of `lockItems`). -/
theorem C07_counterexample_item_locks :
    (rFail Witness.wUpd ⟨.l2SetStructs, 1, .failAfter⟩ [(1, 9)]).1 = .err ∧
    (rFail Witness.wUpd ⟨.l2SetStructs, 1, .failAfter⟩ [(1, 9)]).2.s.itemLock 0 = some 1 := by
  refine ⟨?_, ?_⟩ <;> decide +kernel

/-- **F3 (count stays)**: see `Sop.C01.C01_counterexample`; here as the C07 statement's second conjunct -/
theorem C07_counterexample_count :
    (rFail Witness.wUpd ⟨.srUpdate, 1, .failAfter⟩ [(1, 9)]).1 = .err ∧
    (rFail Witness.wUpd ⟨.srUpdate, 1, .failAfter⟩ [(1, 9)]).2.s.cnt 0 ≠ Witness.s0.cnt 0 := by
  refine ⟨?_, ?_⟩ <;> decide +kernel

/-- **F5 (removal marks stay)**: the registry write of `commitRemovedNodes` takes effect and reports an error;
`committedState` is `commitRemovedNodes`, so `rollback` (which runs `rollbackRemovedNodes` only when
`committedState > commitRemovedNodes`) leaves the node marked deleted with a live timestamp: the next transaction
that updates or removes that node is refused until the mark expires. -/
theorem C07_counterexample_removed_marks :
    (rFail Witness.wRem ⟨.regUpdateNoLocks, 1, .failAfter⟩ []).1 = .err ∧
    ((rFail Witness.wRem ⟨.regUpdateNoLocks, 1, .failAfter⟩ []).2.s.reg 1).map
        (fun h => (h.deleted, h.expiredInactive Witness.s0.now Witness.s0.hour)) = some (true, false) := by
  refine ⟨?_, ?_⟩ <;> decide +kernel

theorem C07_counterexample : ¬ Statement_C07 := by
  intro h
  have h1 := h Witness.s0 Witness.wUpd [(1, 9)] [(1, 10)] ⟨.srUpdate, 1, .failAfter⟩
  have e1 : (commit Witness.wUpd 30 { s := Witness.s0, tid := 1, fault := some ⟨.srUpdate, 1, .failAfter⟩, fresh := [(1, 9)] }).1 = .err := by
    decide +kernel
  have e2 : (commit Witness.wUpd 30 { s := Witness.s0, tid := 1, fault := some ⟨.srUpdate, 1, .failAfter⟩, fresh := [(1, 9)] }).2.s.cnt 0 = 6 := by
    decide +kernel
  have e3 : Witness.s0.cnt 0 = 5 := by decide +kernel
  have := (h1 e1).2.1 0
  rw [e2, e3] at this
  exact absurd this (by decide)

/-- what does work: with no fault the witness transactions commit (the premises above are not vacuous) -/
example : (commit Witness.wSplit 30 { s := Witness.s0, tid := 1, fault := none, fresh := [(1, 9)] }).1 = .ok := by
  decide +kernel

/-! ## Whole runs: a failed commit outside the finding positions leaves no reservation and no node lock -/

/-- a handle with an empty inactive slot that is not marked deleted can be reserved at once, at its own version -/
theorem C07_clean_handle_reservable (now hour : Int) (f : UUID) (g : Handle) (hi : g.inactive = 0) (hd : g.deleted = false) :
    ∃ h', reserveOne now hour f g g.version = some h' := by
  unfold reserveOne
  simp only [hd, Bool.false_and, Bool.false_or, bne_self_eq_false, Bool.false_eq_true, ↓reduceIte]
  have hall : ∃ h', g.allocate f now = some h' := by
    unfold Handle.allocate Handle.bothInUse
    unfold Handle.inactive at hi
    cases hb : g.activeB <;> simp [hb] at hi ⊢ <;> simp [hi]
  obtain ⟨h', hg⟩ := hall
  exact ⟨h', by simp [hg]⟩

/-- **Phase 2 fails, at ANY fault position** (its first log write, the flip write failing before or after its effect):
every updated node's handle is back with an empty inactive slot and timestamp 0, same active id and version as before
the commit, and the transaction holds no node lock. -/
theorem C07_failed_phase2_no_blockage (s0 : State) (w : WS) (fresh0 : List (UUID × UUID))
    (pre : Pre s0 w fresh0) (pre2 : Pre2 s0 w fresh0) (fault : Option Fault) {cs0 : Step} (tid : Tid) (n : Nat) (r1 r2 : Run)
    (hl : ∀ k, s0.nodeLock k ≠ some tid)
    (h1 : phase1 w n { s := s0, tid := tid, fault := fault, fresh := fresh0, cs := cs0 } = .ok ((), r1))
    (h2 : phase2 w r1 = .error r2) :
    HandlesCleared s0 w (commit w n { s := s0, tid := tid, fault := fault, fresh := fresh0, cs := cs0 }).2.s ∧
    NoNodeLocks tid (commit w n { s := s0, tid := tid, fault := fault, fresh := fresh0, cs := cs0 }).2.s :=
  commit_phase2_failure_no_blockage pre pre2 fault tid n r1 r2 hl h1 h2

/-- **Phase 1 fails by the injected fault after `commitUpdatedNodes` was logged as done** (committed state
`commitRemovedNodes`, `commitAddedNodes`, `commitStoreInfo` or `beforeFinalize`: any call of `commitRemovedNodes`,
`commitAddedNodes`, the store-count update, the priority log, the lock re-checks, and the log writes of those steps):
`rollback` runs `rollbackUpdatedNodes` and `unlockNodesKeys`, and with the fault spent neither can fail. -/
theorem C07_failed_phase1_late_no_blockage (s0 : State) (w : WS) (fresh0 : List (UUID × UUID))
    (pre : Pre s0 w fresh0) (fault : Option Fault) {cs0 : Step} (tid : Tid) (n : Nat) (r1 : Run)
    (hl : ∀ k, s0.nodeLock k ≠ some tid)
    (h1 : phase1 w n { s := s0, tid := tid, fault := fault, fresh := fresh0, cs := cs0 } = .error r1)
    (hc : r1.conflicted = false) (hsp : spentB r1 = true) (hcs : pastUpdated r1.cs = true) :
    HandlesCleared s0 w (commit w n { s := s0, tid := tid, fault := fault, fresh := fresh0, cs := cs0 }).2.s ∧
    NoNodeLocks tid (commit w n { s := s0, tid := tid, fault := fault, fresh := fresh0, cs := cs0 }).2.s :=
  commit_phase1_late_failure_no_blockage pre fault tid n r1 hl h1 hc hsp hcs

/-- **Phase 1 fails by the injected fault before the reservation write took effect** (`earlyB`): the updated nodes'
registry entries are exactly the ones before the commit, and no node lock is left. -/
theorem C07_failed_phase1_early_untouched (s0 : State) (w : WS) (fresh0 : List (UUID × UUID))
    (pre : Pre s0 w fresh0) (pre2 : Pre2 s0 w fresh0) (fault : Option Fault) {cs0 : Step} (tid : Tid) (n : Nat) (r1 : Run)
    (hl : ∀ k, s0.nodeLock k ≠ some tid)
    (h1 : phase1 w n { s := s0, tid := tid, fault := fault, fresh := fresh0, cs := cs0 } = .error r1)
    (hc : r1.conflicted = false) (hsp : spentB r1 = true) (he : earlyB r1 = true) :
    HandlesUntouched s0 w (commit w n { s := s0, tid := tid, fault := fault, fresh := fresh0, cs := cs0 }).2.s ∧
    NoNodeLocks tid (commit w n { s := s0, tid := tid, fault := fault, fresh := fresh0, cs := cs0 }).2.s :=
  commit_phase1_early_failure_no_blockage pre pre2 fault tid n r1 hl h1 hc hsp he

/-- **…the registry part of the early case needs no assumption on the fault**: phase 1 stops early by the injected
fault OR by an error the code detects itself (an item-lock conflict, a version conflict with the retry budget used up),
with the fault then free to hit any call of the live rollback — the updated nodes' registry entries are still exactly
the ones before the commit. -/
theorem C07_failed_phase1_early_untouched_any_fault (s0 : State) (w : WS) (fresh0 : List (UUID × UUID))
    (pre : Pre s0 w fresh0) (pre2 : Pre2 s0 w fresh0) (fault : Option Fault) {cs0 : Step} (tid : Tid) (n : Nat) (r1 : Run)
    (h1 : phase1 w n { s := s0, tid := tid, fault := fault, fresh := fresh0, cs := cs0 } = .error r1)
    (hc : r1.conflicted = false) (he : earlyB r1 = true) :
    HandlesUntouched s0 w (commit w n { s := s0, tid := tid, fault := fault, fresh := fresh0, cs := cs0 }).2.s :=
  commit_phase1_early_failure_untouched pre pre2 fault tid n r1 h1 hc he

/-- **C07, whole run, restricted to the non-finding fault positions** (`coveredFailure`, a Boolean computed on the
model from the write set, the start state and the fault): whenever `Commit` returns an error, every updated node's
handle is restored and no node-key lock of the transaction is left — so, by `C07_clean_handle_reservable`, the next
transaction can reserve those nodes at once. -/
theorem C07_failed_commit_no_blockage (s0 : State) (w : WS) (fresh0 : List (UUID × UUID))
    (pre : Pre s0 w fresh0) (pre2 : Pre2 s0 w fresh0) (fault : Option Fault) {cs0 : Step} (tid : Tid) (n : Nat)
    (hl : ∀ k, s0.nodeLock k ≠ some tid)
    (herr : (commit w n { s := s0, tid := tid, fault := fault, fresh := fresh0, cs := cs0 }).1 = .err)
    (hcov : coveredFailure w n { s := s0, tid := tid, fault := fault, fresh := fresh0, cs := cs0 } = true) :
    HandlesRestored s0 w (commit w n { s := s0, tid := tid, fault := fault, fresh := fresh0, cs := cs0 }).2.s ∧
    NoNodeLocks tid (commit w n { s := s0, tid := tid, fault := fault, fresh := fresh0, cs := cs0 }).2.s :=
  commit_failure_no_blockage pre pre2 fault tid n hl herr hcov

/-- the hypotheses are satisfiable by non-trivial runs, one per covered class: the flip write of the split transaction
fails after its effect (phase 2); the registration of the added node fails after its effect (phase 1, committed
state `commitAddedNodes`); the node-lock call fails (phase 1, early) -/
example : (rFail Witness.wSplit ⟨.regUpdateNoLocks, 2, .failAfter⟩ [(1, 9)]).1 = .err ∧
    coveredFailure Witness.wSplit 30 { s := Witness.s0, tid := 1, fault := some ⟨.regUpdateNoLocks, 2, .failAfter⟩, fresh := [(1, 9)] } = true := by
  refine ⟨?_, ?_⟩ <;> decide +kernel
example : (rFail Witness.wSplit ⟨.regAdd, 1, .failAfter⟩ [(1, 9)]).1 = .err ∧
    coveredFailure Witness.wSplit 30 { s := Witness.s0, tid := 1, fault := some ⟨.regAdd, 1, .failAfter⟩, fresh := [(1, 9)] } = true := by
  refine ⟨?_, ?_⟩ <;> decide +kernel
example : (rFail Witness.wSplit ⟨.l2Lock, 1, .failAfter⟩ [(1, 9)]).1 = .err ∧
    coveredFailure Witness.wSplit 30 { s := Witness.s0, tid := 1, fault := some ⟨.l2Lock, 1, .failAfter⟩, fresh := [(1, 9)] } = true := by
  refine ⟨?_, ?_⟩ <;> decide +kernel

/-- …and the finding position is outside the class: the staged-blob write inside `commitUpdatedNodes` -/
example : coveredFailure Witness.wSplit 30 { s := Witness.s0, tid := 1, fault := some ⟨.blobAdd, 1, .failBefore⟩, fresh := [(1, 9)] } = false := by
  decide +kernel

/-- the theorem applied to the flip-failure witness: node 1's handle is restored, no node lock of transaction 1 is left -/
example :
    HandlesRestored Witness.s0 Witness.wSplit (commit Witness.wSplit 30 { s := Witness.s0, tid := 1, fault := some ⟨.regUpdateNoLocks, 2, .failAfter⟩, fresh := [(1, 9)], cs := .unknown }).2.s ∧
    NoNodeLocks 1 (commit Witness.wSplit 30 { s := Witness.s0, tid := 1, fault := some ⟨.regUpdateNoLocks, 2, .failAfter⟩, fresh := [(1, 9)], cs := .unknown }).2.s :=
  C07_failed_commit_no_blockage (cs0 := .unknown) Witness.s0 Witness.wSplit [(1, 9)] Witness.pre_wSplit Witness.pre2_wSplit
    (some ⟨.regUpdateNoLocks, 2, .failAfter⟩) 1 30 (Witness.s0_no_locks 1) (by decide +kernel) (by decide +kernel)

end Sop.C07
