import Sop.Lemmas.Commit
import Sop.Lemmas.CommitWitness
/-!
# C07 — a commit that fails on an I/O or lock error leaves no trace and no blockage

Stated on Model P. The full statement is false for the code as it is; three independent witnesses are proved
here and replayed on the implementation by the harness (findings C07-F1..F3, F5). What holds in general is the
per-handle algebra: an undone reservation is exactly the pre-reservation image with an empty inactive slot
(`undo_restores_handle`), i.e. the undo routine is right whenever `rollback` decides to run it.
-/
namespace Sop.C07
open Sop.Commit

/-- no trace and no blockage: after a failed commit the same changes, committed by a later transaction with no
faults and no waiting, go through, and meanwhile nothing a reader sees has changed -/
def Statement_C07 : Prop :=
  ∀ (s : State) (w : WS) (fresh fresh2 : List (UUID × UUID)) (f : Fault),
    let r := commit w 30 { s := s, tid := 1, fault := some f, fresh := fresh }
    r.1 = .err →
      (∀ lid, r.2.s.view lid = s.view lid) ∧ (∀ st, r.2.s.cnt st = s.cnt st) ∧
      (commit w 30 { s := r.2.s, tid := 2, fault := none, fresh := fresh2 }).1 = .ok

/-- the undo of a reservation gives the handle back as it was, with the inactive slot and the timestamp cleared -/
theorem undo_restores_handle (now hour : Int) (f : UUID) (h h' : Handle) (v : Int)
    (e : reserveOne now hour f h v = some h') :
    h'.clearInactive.lid = h.lid ∧ h'.clearInactive.active = h.active ∧ h'.clearInactive.version = h.version
      ∧ h'.clearInactive.inactive = 0 ∧ h'.clearInactive.wip = 0 := undo_reserve now hour f h h' v e

/-- and such a handle can be reserved again at once (no expiry needed) by the next transaction -/
theorem cleared_handle_reservable (now hour : Int) (f : UUID) (h : Handle) (hd : h.deleted = false) :
    ∃ h', reserveOne now hour f h.clearInactive h.version = some h' := by
  obtain ⟨_, _, c3, c4, _, c6⟩ := Handle.clearInactive_spec h
  unfold reserveOne
  have hdel : h.clearInactive.deleted = false := by rw [c6, hd]
  simp only [hdel, Bool.false_and, Bool.false_or, c4, bne_self_eq_false, Bool.false_eq_true, ↓reduceIte]
  have hall : ∃ g, h.clearInactive.allocate f now = some g := by
    unfold Handle.allocate Handle.bothInUse
    unfold Handle.inactive at c3
    cases hb : h.clearInactive.activeB <;> simp [hb] at c3 ⊢ <;> simp [c3]
  obtain ⟨g, hg⟩ := hall
  exact ⟨g, by simp [hg]⟩

/-- the failed first commit of the witnesses below -/
abbrev rFail (w : WS) (f : Fault) (fresh : List (UUID × UUID)) : Outcome × Run :=
  commit w 30 { s := Witness.s0, tid := 1, fault := some f, fresh := fresh }

/-- a handle whose two physical ids are both in use and whose timestamp has not expired cannot be reserved:
this is what makes a leftover reservation block every later writer of that node for an hour -/
theorem leftover_reservation_blocks (now hour : Int) (f : UUID) (h : Handle) (v : Int)
    (hA : h.idA ≠ 0) (hB : h.idB ≠ 0) (hne : h.expiredInactive now hour = false) :
    reserveOne now hour f h v = none := by
  unfold reserveOne
  split
  · rfl
  · have hb : h.bothInUse = true := by unfold Handle.bothInUse; simp [hA, hB]
    by_cases hd : h.deleted = true
    · simp_all
    · have hd' : h.deleted = false := by simpa using hd
      simp [hd', Handle.allocate, hb, hne]

/-- **F1 (reservation stays)**: the staged-blob write inside `commitUpdatedNodes` fails; `committedState` is still
`areFetchedItemsIntact`, so `rollback` skips `rollbackUpdatedNodes`: handle 1 keeps both ids in use with a live
timestamp — by `leftover_reservation_blocks` no later transaction can reserve it before the one-hour expiry. -/
theorem C07_counterexample_reservation :
    (rFail Witness.wSplit ⟨.blobAdd, 1, .failBefore⟩ [(1, 9)]).1 = .err ∧
    ((rFail Witness.wSplit ⟨.blobAdd, 1, .failBefore⟩ [(1, 9)]).2.s.reg 1).map
        (fun h => (h.idA, h.idB, h.expiredInactive Witness.s0.now Witness.s0.hour)) = some (1, 9, false) := by
  refine ⟨?_, ?_⟩ <;> decide +kernel

/-- **F2 (lock records stay)**: the lock-record write succeeds but reports an error; the records are there under
the failed transaction's id, its owner flag is not set, so `unlock` deletes nothing; `lockItems` of any other
transaction then reports a conflict (first branch of `lockItems`). -/
theorem C07_counterexample_item_locks :
    (rFail Witness.wUpd ⟨.l2SetStructs, 1, .failAfter⟩ [(1, 9)]).1 = .err ∧
    (rFail Witness.wUpd ⟨.l2SetStructs, 1, .failAfter⟩ [(1, 9)]).2.s.itemLock 0 = some 1 := by
  refine ⟨?_, ?_⟩ <;> decide +kernel

/-- **F3 (count stays)**: see `Sop.C01.C01_counterexample`; here as the C07 statement's second conjunct -/
theorem C07_counterexample_count :
    (rFail Witness.wUpd ⟨.srUpdate, 1, .failAfter⟩ [(1, 9)]).1 = .err ∧
    (rFail Witness.wUpd ⟨.srUpdate, 1, .failAfter⟩ [(1, 9)]).2.s.cnt 0 ≠ Witness.s0.cnt 0 := by
  refine ⟨?_, ?_⟩ <;> decide +kernel

/-- **F5 (removal marks stay)**: the registry write of `commitRemovedNodes` takes effect and reports an error;
`committedState` is `commitRemovedNodes`, so `rollback` (which runs `rollbackRemovedNodes` only when
`committedState > commitRemovedNodes`) leaves the node marked deleted with a live timestamp: the next transaction
that updates or removes that node is refused until the mark expires. -/
theorem C07_counterexample_removed_marks :
    (rFail Witness.wRem ⟨.regUpdateNoLocks, 1, .failAfter⟩ []).1 = .err ∧
    ((rFail Witness.wRem ⟨.regUpdateNoLocks, 1, .failAfter⟩ []).2.s.reg 1).map
        (fun h => (h.deleted, h.expiredInactive Witness.s0.now Witness.s0.hour)) = some (true, false) := by
  refine ⟨?_, ?_⟩ <;> decide +kernel

theorem C07_counterexample : ¬ Statement_C07 := by
  intro h
  have h1 := h Witness.s0 Witness.wUpd [(1, 9)] [(1, 10)] ⟨.srUpdate, 1, .failAfter⟩
  have e1 : (commit Witness.wUpd 30 { s := Witness.s0, tid := 1, fault := some ⟨.srUpdate, 1, .failAfter⟩, fresh := [(1, 9)] }).1 = .err := by
    decide +kernel
  have e2 : (commit Witness.wUpd 30 { s := Witness.s0, tid := 1, fault := some ⟨.srUpdate, 1, .failAfter⟩, fresh := [(1, 9)] }).2.s.cnt 0 = 6 := by
    decide +kernel
  have e3 : Witness.s0.cnt 0 = 5 := by decide +kernel
  have := (h1 e1).2.1 0
  rw [e2, e3] at this
  exact absurd this (by decide)

/-- what does work: with no fault the witness transactions commit (the premises above are not vacuous) -/
example : (commit Witness.wSplit 30 { s := Witness.s0, tid := 1, fault := none, fresh := [(1, 9)] }).1 = .ok := by
  decide +kernel

end Sop.C07
