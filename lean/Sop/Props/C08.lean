import Sop.Lemmas.RecoveryWitness
/-!
# C08 — a crash during commit leaves all-or-nothing, with earlier commits intact

Model: `Sop.Recovery` (crash = Model P's fault-free commit truncated between two durable calls; recovery =
`doPriorityRollbacks` + `processExpiredTransactionLogs → transactionLog.rollback`, transcribed with their defects).

The code does NOT have the property: `Statement_C08` is refuted by three independent mechanisms, each with a
concrete witness that the harness replays on the real code (directed programs 0, 3 of `crashx.Directed`):

* `C08_counterexample_flip`  — crash after the phase-2 flip and the priority-log removal, before cleanup logs
  `deleteObsoleteEntries`: the log's last line is `finalizeCommit`, the rollback treats the transaction as
  uncommitted and deletes the staged blob — the ACTIVE blob of the committed handle;
* `C08_counterexample_count` — crash after `StoreRepository.Update`, before the flip: the nodes are rolled back,
  the count is not (the reverse delta is not in the log: `CountDelta` is `json:"-"`; not even attempted at `last = 9`);
* `C08_counterexample_root`  — crash after the first root of an empty store was registered: recovery deletes the
  root blob and leaves the handle (`rollbackNewRootNodes` looks at the recovering transaction's `committedState`).

A fourth mechanism concerned later WRITERS, not readers (C08-F4, repaired by 212dd4ca): recovery's
`rollbackRemovedNodes` zeroed the timestamp of a removed node's handle that has both physical ids in use, so that no
later transaction could ever update that node (`stuck_never_reservable`, `legacy_undo_image_stuck`); the repaired
image is never stuck (`undo_image_not_stuck`, `undoOf_not_stuck`, `C08_F4_repaired_on_witness`).

What does hold (proved for every state / write set / crash point, not for samples):
* `C08_atomic_outside_windows` — for every start state, write set (`WF`) and crash point OUTSIDE the three finding
  windows (`crashWindow`, a decidable predicate on the calls made before the crash): after priority rollback +
  expired-log rollback every node loadable before reads as before with the old counts, or — only after cleanup's
  first log line, hence after the flip — every updated node shows the staged blob at the next version, every
  removed node is gone, every untouched node reads as before, the new roots / added nodes are visible, with the new
  counts; a registered new root is
  loadable; both log files are gone. `C08_views_and_counts_outside_F1_F2`, `C08_roots_outside_F3` say which window
  breaks which half; `C08_window_F1_fails`, `C08_window_F2_fails`, `C08_window_F3_fails` show the statement fails
  inside each window; `C08_windows_exact_on_witness` that on the witness the windows are exactly the bad points;
* `C08_recovery_removes_log`, `C08_recovery_removes_plog_partial` — recovery always removes the dead transaction's
  log, and its priority log when the version check passes;
* `C08_cleanup_only_finishes_partial` — once cleanup has logged `deleteObsoleteEntries` the recovery does exactly
  the rest of the cleanup;
* `reserve_keeps_view`, `activate_shows_staged`, `restore_image_keeps_view` — handle-level facts.
-/
namespace Sop.C08
open Sop.Commit Sop.Recovery

/-- the write set can be committed from `s` without a conflict (what a single writer's Commit needs) -/
def Ready (s : State) (fresh : List (UUID × UUID)) (w : WS) : Bool :=
  w.hasTracked
  && w.updated.all (fun (id, v) => match s.reg id with
      | some h => h.version == v && !h.deleted && !h.bothInUse && s.blob h.active
      | none => false)
  && w.removed.all (fun (id, v) => match s.reg id with
      | some h => h.version == v && !h.deleted && s.blob h.active
      | none => false)
  && w.rootIds.all (fun i => (s.reg i).isNone && !s.blob i)
  && w.addedIds.all (fun i => (s.reg i).isNone && !s.blob i)
  && (reservedOf s fresh w).length == w.updated.length
  && (reservedOf s fresh w).all (fun h => h.inactive != 0 && !s.blob h.inactive)
  && w.stores.all (fun st => st.created || s.storeExists st.store)

/-- a later writer (clock past the one-hour window) can reserve every node the dead transaction touched -/
def usable (a : State) (w : WS) : Bool :=
  (upLids w).all (fun i => match a.reg i with
    | some h => (reserveOne (a.now + 3 * a.hour) a.hour 1000000 h h.version).isSome
    | none => true)

/-- The property, at full strength: for every state, write set and crash point (every prefix of the commit's
durable calls, phase 2 and cleanup included), after recovery with the ages past their thresholds a cold reader
sees the state before or the state after, nothing reachable dangles, both logs are gone and the nodes are usable. -/
def Statement_C08 : Prop :=
  ∀ (s : State) (fresh : List (UUID × UUID)) (w : WS) (m : Nat), Ready s fresh w = true →
    let d := (recover (crashAt s 1 fresh w m)).1
    let fin := (committed s 1 fresh w).s
    (isBefore d.s s w = true ∨ isAfter d.s fin w = true)
    ∧ reachableOk d.s fin w = true
    ∧ d.s.tlog 1 = false ∧ d.plg = none
    ∧ usable d.s w = true

/-! ## Witnesses -/

/-- one existing node (lid 1, blob 1, version 0) in store 0 (2 items); the transaction rewrites it, count +1 -/
def s1 : State :=
  let s0 : State := (({} : State).setReg ⟨1, 1, 0, false, 0, 0, false⟩).setBlob 1 true
  { s0 with cnt := fun k => if k = 0 then 2 else 0, storeExists := fun k => k == 0 }
def w1 : WS := { stores := [{ store := 0, updated := [(1, 0)], delta := 1 }] }
def f1 : List (UUID × UUID) := [(1, 2)]

/-- empty store 0; the transaction adds its first root (lid 3) -/
def s3 : State := { ({} : State) with storeExists := fun k => k == 0 }
def w3 : WS := { stores := [{ store := 0, root := [3], delta := 1 }] }

theorem ready1 : Ready s1 f1 w1 = true := by decide
theorem ready3 : Ready s3 [] w3 = true := by decide

/-- crash point 16 of witness 1 = after `reg.UpdateNoLocks aon` (flip) and `plog.Remove`, before `tlog.Add 12`:
recovery leaves handle 1 pointing at blob 2, which it has deleted. -/
theorem flip_window_dangles :
    let d := (recover (crashAt s1 1 f1 w1 16)).1
    d.s.reg 1 = some ⟨1, 1, 2, true, 1, 1, false⟩ ∧ d.s.blob 2 = false ∧ d.s.view 1 = none
    ∧ s1.view 1 = some (1, 0) ∧ (committed s1 1 f1 w1).s.view 1 = some (2, 1) := by decide

theorem C08_counterexample_flip : ¬ Statement_C08 := by
  intro h
  have := h s1 f1 w1 16 ready1
  revert this
  decide

/-- crash point 11 of witness 1 = right after `sr.Update`: nodes as before, count as after -/
theorem count_not_undone :
    let d := (recover (crashAt s1 1 f1 w1 11)).1
    d.s.view 1 = s1.view 1 ∧ d.s.cnt 0 = 3 ∧ s1.cnt 0 = 2 := by decide

theorem C08_counterexample_count : ¬ Statement_C08 := by
  intro h
  have := h s1 f1 w1 11 ready1
  revert this
  decide

/-- crash point 6 of witness 3 = after the root's `blob.Add`, `reg.Add` and `tlog.Add 5`: the blob is deleted, the handle stays -/
theorem root_handle_left :
    let d := (recover (crashAt s3 1 [] w3 6)).1
    d.s.reg 3 = some (Handle.new 3) ∧ d.s.blob 3 = false := by decide

theorem C08_counterexample_root : ¬ Statement_C08 := by
  intro h
  have := h s3 [] w3 6 ready3
  revert this
  decide

/-- outside the three windows the same witness does satisfy the statement's body (so the refutations are not an
artefact of `Ready` or of the observation functions): every crash point before `sr.Update` and every one from
`tlog.Add 12` on. -/
theorem witness1_good_points :
    ∀ m ∈ [0, 1, 2, 3, 4, 5, 6, 7, 8, 9, 10, 17, 18, 19, 20, 21],
      let d := (recover (crashAt s1 1 f1 w1 m)).1
      let fin := (committed s1 1 f1 w1).s
      (isBefore d.s s1 w1 = true ∨ isAfter d.s fin w1 = true) ∧ reachableOk d.s fin w1 = true
      ∧ d.s.tlog 1 = false ∧ d.plg = none ∧ usable d.s w1 = true := by decide

/-! ## What holds in general -/

/-- **Recovery always removes the dead transaction's log** — for every crashed state whatsoever. -/
theorem C08_recovery_removes_log (d : DState) : (recover d).1.s.tlog d.tid = false ∧ (recover d).1.tid = d.tid := by
  unfold recover
  have hp := priorityRollback_spec (d, [])
  have he := expiredRollback_spec (priorityRollback (d, []))
  simp only [] at hp he ⊢
  rw [hp.1] at he
  exact ⟨he.2.1, he.1⟩

/-- … and its priority log, when the logged pre-flip images fit the registry versions (always the case for a
crashed commit: the images were taken from the registry by the dead transaction itself under its node locks). -/
theorem C08_recovery_removes_plog_partial (d : DState) (h : plogFits d = true) : (recover d).1.plg = none := by
  unfold recover
  have he := expiredRollback_spec (priorityRollback (d, []))
  simp only [] at he ⊢
  rw [he.2.2]
  exact priorityRollback_plg (d, []) h

example : plogFits (crashAt s1 1 f1 w1 14) = true ∧ (crashAt s1 1 f1 w1 14).plg.isSome = true := by decide

/-! ### The cleanup window: once `deleteObsoleteEntries` is logged, recovery only finishes the cleanup -/

/-- If the log reads `… finalizeCommit(dead, unused, vals); deleteObsoleteEntries [; deleteTrackedItemsValues]`
the expired-log rollback deletes the obsolete value blobs (only at `last = 13`), the unused blobs and the removed
handles, removes the log, and touches nothing else. (`cleanupLine`, `expired_finishes_cleanup`: `Sop.Lemmas.RecoveryCleanup`.) -/
theorem C08_cleanup_only_finishes_partial (d : DState) (pre post : List Entry) (dead unused vals : List UUID) (l : Entry)
    (hlog : d.log = pre ++ ⟨.finalizeCommit, .obsolete dead unused vals⟩ :: post)
    (hpost : ∀ e ∈ post, cleanupLine e = true) (hne : post.getLast? = some l) (htl : d.s.tlog d.tid = true) :
    (expiredRollback (d, [])).1 =
      (removeLog (deleteObsolete dead unused
        (if l.step.ord == Step.deleteTrackedItemsValues.ord && !vals.isEmpty then blobRemove vals (d, []) else (d, [])))).1 := by
  rw [expired_finishes_cleanup (d, []) pre post dead unused vals l hlog hpost hne htl]

/-- non-vacuity: crash point 18 of witness 1 (right after `tlog.Add 12`) has that shape -/
example : (crashAt s1 1 f1 w1 18).log = ((crashAt s1 1 f1 w1 18).log.take 9) ++ ⟨.finalizeCommit, .obsolete [] [1] []⟩ :: [⟨.deleteObsoleteEntries, .none⟩]
    ∧ (∀ e ∈ [(⟨.deleteObsoleteEntries, .none⟩ : Entry)], cleanupLine e = true) ∧ (crashAt s1 1 f1 w1 18).s.tlog 1 = true := by decide

/-! ### Handle-level facts the protocol rests on (for every handle) -/

theorem allocate_view (h g : Handle) (f : UUID) (now : Int) (ha : h.allocate f now = some g) :
    g.lid = h.lid ∧ g.active = h.active ∧ g.version = h.version := by
  unfold Handle.allocate at ha
  by_cases hb : h.bothInUse = true
  · simp [hb] at ha
  · by_cases hab : h.activeB = true
    · simp [hb, hab] at ha; subst ha; simp [Handle.active, hab]
    · simp [hb, hab] at ha; subst ha; simp [Handle.active, hab]

theorem clearInactive_view (h : Handle) :
    h.clearInactive.lid = h.lid ∧ h.clearInactive.active = h.active ∧ h.clearInactive.version = h.version := by
  unfold Handle.clearInactive
  by_cases hab : h.activeB = true <;> simp [Handle.active, hab]

/-- a reservation (`commitUpdatedNodes`) shows readers the same node: same logical id, active id and version -/
theorem reserve_keeps_view (now hour : Int) (f : UUID) (h h' : Handle) (v : Int)
    (hr : reserveOne now hour f h v = some h') : h'.lid = h.lid ∧ h'.active = h.active ∧ h'.version = h.version := by
  unfold reserveOne at hr
  split at hr
  · cases hr
  · simp only [] at hr
    generalize hg : (if (h.deleted && h.expiredInactive now hour) = true then { h with deleted := false } else h) = g at hr
    have hgv : g.lid = h.lid ∧ g.active = h.active ∧ g.version = h.version := by
      subst hg; split <;> simp [Handle.active]
    cases hal : g.allocate f now with
    | some g' =>
      rw [hal] at hr
      simp at hr
      subst hr
      have := allocate_view g g' f now hal
      exact ⟨this.1.trans hgv.1, this.2.1.trans hgv.2.1, this.2.2.trans hgv.2.2⟩
    | none =>
      rw [hal] at hr
      simp only [] at hr
      split at hr
      · have := allocate_view _ _ f now hr
        have hc := clearInactive_view g
        exact ⟨(this.1.trans hc.1).trans hgv.1, (this.2.1.trans hc.2.1).trans hgv.2.1, (this.2.2.trans hc.2.2).trans hgv.2.2⟩
      · cases hr

/-- the phase-2 flip (`activateInactiveNodes`) shows readers the staged blob under the next version -/
theorem activate_shows_staged (h : Handle) :
    (activate h).lid = h.lid ∧ (activate h).active = h.inactive ∧ (activate h).inactive = h.active
    ∧ (activate h).version = h.version + 1 := by
  cases hb : h.activeB <;> simp [activate, Handle.flip, Handle.active, Handle.inactive, hb]

/-- writing a logged pre-flip image back over its flipped image (`doPriorityRollbacks`) restores what readers saw -/
theorem restore_image_keeps_view (s : State) (h : Handle) :
    (s.setReg h).reg h.lid = some h ∧ ((s.setReg (activate h)).setReg h).reg h.lid = some h := by
  simp [State.setReg, activate, Handle.flip]


/-! ## The general theorem: all-or-nothing outside the three windows

`Sop.Lemmas.RecoveryOps … RecoveryAtomicAll` prove, over the crash/recovery model, for EVERY start state, write set
(under `WF`) and crash point: after the recovery the code performs (priority rollback, then expired-log rollback)
either every node loadable before reads as before and the counts are the old ones, or — only when the crash fell
after cleanup's first log line, hence after the flip — every updated node shows its staged blob at the next
version, every removed node is gone, every untouched node reads as before and the counts are the new ones; a
registered new root is loadable; both log files are gone — EXCEPT inside the three windows of the open findings,
given as decidable predicates on the calls made before the crash (`inF1`, `inF2`, `inF3`). Inside each window the
statement fails (witnesses below). -/

/-- the crash point `m` (number of durable calls of `Commit` made before the process died) lies in one of the three
finding windows — a decidable predicate on the crash point -/
def crashWindow (s : State) (fresh : List (UUID × UUID)) (w : WS) (m : Nat) : Bool :=
  inWindow w ((commitOps s fresh w).take m)

/-- when every updated node could be reserved and every removed node was registered, `NewOutcome` speaks about
every node of the write set -/
theorem C08_new_covers_write_set {s0 : State} {w : WS} {fresh : List (UUID × UUID)} (wf : WF s0 w fresh) {a : State}
    (hN : NewOutcome s0 fresh w a)
    (hlen : (reservedOf s0 fresh w).length = w.updated.length)
    (hreg : ∀ i ∈ w.removed.map (·.1), (s0.reg i).isSome = true) :
    (∀ i ∈ w.updated.map (·.1), ∃ h ∈ reservedOf s0 fresh w, h.lid = i ∧ a.view i = some (h.inactive, h.version + 1))
    ∧ ∀ i ∈ w.removed.map (·.1), a.view i = none := by
  obtain ⟨_, _, _, r4⟩ := reservedOf_facts wf.pre
  have heq : (reservedOf s0 fresh w).map (·.lid) = w.updated.map (·.1) :=
    r4.eq_of_length (by simp [hlen])
  refine ⟨?_, ?_⟩
  · intro i hi
    rw [← heq] at hi
    obtain ⟨h, hh, rfl⟩ := List.mem_map.mp hi
    exact ⟨h, hh, rfl, hN.upd h hh⟩
  · intro i hi
    have hs := hreg i hi
    cases hr : s0.reg i with
    | none => rw [hr] at hs; cases hs
    | some h =>
      obtain ⟨x, hx, rfl⟩ := List.mem_map.mp hi
      have hm : ({ h with deleted := true, wip := s0.now } : Handle) ∈ markedOf s0 w := by
        unfold markedOf
        exact List.mem_map_of_mem (List.mem_filterMap.mpr ⟨x, hx, hr⟩)
      have := hN.rem _ hm
      have hl : h.lid = x.1 := wf.pre.regwf _ _ hr
      simpa [hl] using this

/-! ### Witnesses (`wU`, `wf_upd`, `wf_root`: `Sop.Lemmas.RecoveryWitness`): inside each window the statement fails -/


/-- **C08 outside the three finding windows** (see `Sop.Recovery.atomic_outside_windows`). -/
theorem C08_atomic_outside_windows {s0 : State} {w : WS} {fresh : List (UUID × UUID)} (wf : WF s0 w fresh) (tid : Tid)
    (m : Nat) (hw : crashWindow s0 fresh w m = false) :
    (OldOutcome s0 (recover (crashAt s0 tid fresh w m)).1.s ∨
      (hasLog .deleteObsoleteEntries ((commitOps s0 fresh w).take m) = true ∧
        NewOutcome s0 fresh w (recover (crashAt s0 tid fresh w m)).1.s))
    ∧ RootsOK w (recover (crashAt s0 tid fresh w m)).1.s
    ∧ (recover (crashAt s0 tid fresh w m)).1.plg = none
    ∧ (recover (crashAt s0 tid fresh w m)).1.s.tlog tid = false :=
  atomic_outside_windows wf tid m hw

/-- the node/count half needs only the flip window and the count window to be excluded -/
theorem C08_views_and_counts_outside_F1_F2 {s0 : State} {w : WS} {fresh : List (UUID × UUID)} (wf : WF s0 w fresh)
    (tid : Tid) (m : Nat)
    (h1 : inF1 ((commitOps s0 fresh w).take m) = false) (h2 : inF2 ((commitOps s0 fresh w).take m) = false) :
    (OldOutcome s0 (recover (crashAt s0 tid fresh w m)).1.s ∨
      (hasLog .deleteObsoleteEntries ((commitOps s0 fresh w).take m) = true ∧
        NewOutcome s0 fresh w (recover (crashAt s0 tid fresh w m)).1.s))
    ∧ (recover (crashAt s0 tid fresh w m)).1.plg = none
    ∧ (recover (crashAt s0 tid fresh w m)).1.s.tlog tid = false :=
  atomic_outside_F1_F2 wf tid m h1 h2

/-- the new-root half needs only the root window to be excluded -/
theorem C08_roots_outside_F3 {s0 : State} {w : WS} {fresh : List (UUID × UUID)} (wf : WF s0 w fresh) (tid : Tid) (m : Nat)
    (h3 : inF3 w ((commitOps s0 fresh w).take m) = false) : RootsOK w (recover (crashAt s0 tid fresh w m)).1.s :=
  roots_outside_F3 wf tid m h3

/-- non-vacuity: the premises hold of the witnesses, and crash points outside the windows exist before the flip,
between the flip and the priority-log removal, and in cleanup -/
example : WF Witness.s0 (wU 1) [(1, 9)] ∧ crashWindow Witness.s0 [(1, 9)] (wU 1) 7 = false
    ∧ crashWindow Witness.s0 [(1, 9)] (wU 0) 14 = false ∧ crashWindow Witness.s0 [(1, 9)] (wU 1) 18 = false :=
  ⟨wf_upd 1, by decide +kernel, by decide +kernel, by decide +kernel⟩

/-- **inside the flip window (C08-F1, alone) the statement fails**: `WF` holds, the crash point (after `plog.Remove`,
before `tlog.Add 12`) is in `inF1` only, and the recovered state is neither old nor new — node 1 cannot be loaded -/
theorem C08_window_F1_fails :
    WF Witness.s0 (wU 0) [(1, 9)]
    ∧ inF1 ((commitOps Witness.s0 [(1, 9)] (wU 0)).take 15) = true
    ∧ inF2 ((commitOps Witness.s0 [(1, 9)] (wU 0)).take 15) = false
    ∧ inF3 (wU 0) ((commitOps Witness.s0 [(1, 9)] (wU 0)).take 15) = false
    ∧ ¬ (OldOutcome Witness.s0 (recover (crashAt Witness.s0 1 [(1, 9)] (wU 0) 15)).1.s ∨
        (hasLog .deleteObsoleteEntries ((commitOps Witness.s0 [(1, 9)] (wU 0)).take 15) = true ∧
          NewOutcome Witness.s0 [(1, 9)] (wU 0) (recover (crashAt Witness.s0 1 [(1, 9)] (wU 0) 15)).1.s)) := by
  refine ⟨wf_upd 0, by decide +kernel, by decide +kernel, by decide +kernel, ?_⟩
  rintro (h | ⟨h, _⟩)
  · have := h.views 1 (by decide +kernel)
    revert this; decide +kernel
  · revert h; decide +kernel

/-- **inside the count window (C08-F2, alone) the statement fails**: right after `sr.Update` the recovered state has
the old node with the new count -/
theorem C08_window_F2_fails :
    WF Witness.s0 (wU 1) [(1, 9)]
    ∧ inF2 ((commitOps Witness.s0 [(1, 9)] (wU 1)).take 11) = true
    ∧ inF1 ((commitOps Witness.s0 [(1, 9)] (wU 1)).take 11) = false
    ∧ inF3 (wU 1) ((commitOps Witness.s0 [(1, 9)] (wU 1)).take 11) = false
    ∧ ¬ (OldOutcome Witness.s0 (recover (crashAt Witness.s0 1 [(1, 9)] (wU 1) 11)).1.s ∨
        (hasLog .deleteObsoleteEntries ((commitOps Witness.s0 [(1, 9)] (wU 1)).take 11) = true ∧
          NewOutcome Witness.s0 [(1, 9)] (wU 1) (recover (crashAt Witness.s0 1 [(1, 9)] (wU 1) 11)).1.s)) := by
  refine ⟨wf_upd 1, by decide +kernel, by decide +kernel, by decide +kernel, ?_⟩
  rintro (h | ⟨h, _⟩)
  · have := congrFun h.cnt 0
    revert this; decide +kernel
  · revert h; decide +kernel

/-- **inside the root window (C08-F3, alone) the statement fails**: the new root's handle is registered, its blob is gone -/
theorem C08_window_F3_fails :
    WF Witness.sEmpty Witness.wRoot []
    ∧ inF3 Witness.wRoot ((commitOps Witness.sEmpty [] Witness.wRoot).take 6) = true
    ∧ inF1 ((commitOps Witness.sEmpty [] Witness.wRoot).take 6) = false
    ∧ inF2 ((commitOps Witness.sEmpty [] Witness.wRoot).take 6) = false
    ∧ ¬ RootsOK Witness.wRoot (recover (crashAt Witness.sEmpty 1 [] Witness.wRoot 6)).1.s := by
  refine ⟨wf_root, by decide +kernel, by decide +kernel, by decide +kernel, ?_⟩
  intro h
  have := h 3 (by decide)
  revert this; decide +kernel

/-- on the witness (node 1 rewritten, count +1) the windows are EXACTLY the crash points where the recovered state
is neither (old node, old count) nor (new node, new count): all 22 crash points -/
theorem C08_windows_exact_on_witness :
    ∀ m ∈ List.range 22,
      crashWindow Witness.s0 [(1, 9)] (wU 1) m =
        !(((recover (crashAt Witness.s0 1 [(1, 9)] (wU 1) m)).1.s.view 1 == some (1, 1)
              && (recover (crashAt Witness.s0 1 [(1, 9)] (wU 1) m)).1.s.cnt 0 == 5)
          || ((recover (crashAt Witness.s0 1 [(1, 9)] (wU 1) m)).1.s.view 1 == some (9, 2)
              && (recover (crashAt Witness.s0 1 [(1, 9)] (wU 1) m)).1.s.cnt 0 == 6)) := by
  decide +kernel


/-! ## C08-F4 (repaired by 212dd4ca): a removed node must stay reservable after the removal is undone

Not a view defect — every reader sees the old state — but the last conjunct of `Statement_C08` (`usable`). Before the
repair recovery's `rollbackRemovedNodes` cleared the deleted mark and ZEROED `WorkInProgressTimestamp`; on a handle that
an earlier commit had updated (both physical ids in use, timestamp 1 = "the inactive id may be reused") this removed the
only thing that lets a later `commitUpdatedNodes` reuse the slot: `AllocateID` returns nil and `IsExpiredInactive()` is
false for ever (`stuck_never_reservable`, `legacy_undo_image_stuck`). The repaired code puts the marker 1 back when the
handle still carries two ids; the model follows it, and the image it writes is never `stuck` (`undo_image_not_stuck`,
for every handle); on the witness no crash point leaves the removed node stuck or unusable (`C08_F4_repaired_on_witness`). -/

/-- a `stuck` handle is refused by `commitUpdatedNodes` whatever the clock, the generated id and the version read -/
theorem stuck_never_reservable (h : Handle) (hs : stuck h = true) (now hour : Int) (f : UUID) (v : Int) :
    reserveOne now hour f h v = none := by
  unfold stuck at hs
  simp only [Bool.and_eq_true, Bool.or_eq_true, decide_eq_true_eq] at hs
  obtain ⟨hdb, hw⟩ := hs
  have hexp : h.expiredInactive now hour = false := by
    unfold Handle.expiredInactive
    have : ¬ (h.wip > 0) := by omega
    simp [this]
  unfold reserveOne
  rcases hdb with hd | hb
  · simp [hd, hexp]
  · by_cases hd : h.deleted = true
    · simp [hd, hexp]
    · have hd' : h.deleted = false := by simpa using hd
      simp only [hd', hexp, Bool.false_and, Bool.not_false, Bool.and_true, Bool.false_or, Bool.false_eq_true, ↓reduceIte]
      split
      · rfl
      · simp [Handle.allocate, hb]

/-- **the image the repaired `rollbackRemovedNodes` writes is never `stuck`** — for every handle -/
theorem undo_image_not_stuck (h : Handle) :
    stuck { h with deleted := false, wip := if h.bothInUse then 1 else 0 } = false := by
  unfold stuck
  by_cases hb : h.bothInUse = true
  · simp [hb]
  · have hb' : h.bothInUse = false := by simpa using hb
    have : ({ h with deleted := false, wip := if h.bothInUse then 1 else 0 } : Handle).bothInUse = false := by
      simpa [Handle.bothInUse] using hb'
    simp [this]

/-- every handle the recovery's undo of removal marks writes (`undoOf`, the walk's `commitRemovedNodes` line) is not stuck -/
theorem undoOf_not_stuck (s : State) (lids : List UUID) : ∀ h' ∈ undoOf s lids, stuck h' = false := by
  intro h' hm
  unfold undoOf at hm
  obtain ⟨h, _, rfl⟩ := List.mem_map.mp hm
  exact undo_image_not_stuck h

/-- the legacy image (timestamp zeroed unconditionally) of a marked two-id handle IS stuck: what C08-F4 was -/
theorem legacy_undo_image_stuck :
    stuck { (⟨1, 1, 2, true, 2, 1000000000, true⟩ : Handle) with deleted := false, wip := 0 } = true := by decide

/-- node 1 was updated by an earlier commit: both physical ids in use, B active, version 2, timestamp 1 -/
def sB : State :=
  { ((({} : State).setReg ⟨1, 1, 2, true, 2, 1, false⟩).setBlob 2 true) with
      cnt := fun k => if k = 0 then 5 else 0, storeExists := fun k => k = 0 }
/-- the transaction removes node 1 -/
def wB : WS := { stores := [{ store := 0, removed := [(1, 2)], items := 1, delta := -1 }] }

theorem readyB : Ready sB [] wB = true := by decide

/-- the former C08-F4 window: a removed node's handle has both physical ids in use, `commitAddedNodes` is logged (so the
recovery undoes the removal marks), cleanup has not logged its first line -/
def inF4 (s : State) (w : WS) (p : List DOp) : Bool :=
  w.removed.any (fun x => match s.reg x.1 with
    | some h => h.bothInUse
    | none => false)
  && hasLog .commitAddedNodes p && !hasLog .deleteObsoleteEntries p

/-- crash point 8 (right after `tlog.Add 8`, inside the former F4 window, outside F1–F3): readers see node 1 as before
and its handle is back to exactly what it was — both ids, timestamp 1 — reservable by a later writer -/
theorem removed_node_restored_after_recovery :
    let a := (recover (crashAt sB 1 [] wB 8)).1.s
    crashWindow sB [] wB 8 = false ∧ inF4 sB wB ((commitOps sB [] wB).take 8) = true
    ∧ a.view 1 = sB.view 1 ∧ a.cnt 0 = sB.cnt 0
    ∧ a.reg 1 = sB.reg 1 ∧ stuckLids a wB = []
    ∧ usable sB wB = true ∧ usable a wB = true := by decide +kernel

/-- **C08-F4 repaired, on the witness**: at all 20 crash points (the former window 8..15 included) the recovery leaves
no node of the write set stuck, and a later writer can reserve it -/
theorem C08_F4_repaired_on_witness :
    ∀ m ∈ List.range 20,
      stuckLids (recover (crashAt sB 1 [] wB m)).1.s wB = [] ∧ usable (recover (crashAt sB 1 [] wB m)).1.s wB = true := by
  decide +kernel

end Sop.C08
