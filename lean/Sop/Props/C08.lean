import Sop.Lemmas.Recovery
/-!
# C08 — a crash during commit leaves all-or-nothing, with earlier commits intact

Model: `Sop.Recovery` (crash = Model P's fault-free commit truncated between two durable calls; recovery =
`doPriorityRollbacks` + `processExpiredTransactionLogs → transactionLog.rollback`, transcribed with their defects).

The code does NOT have the property: `Statement_C08` is refuted by three independent mechanisms, each with a
concrete witness that the harness replays on the real code (directed programs 0, 3 of `crashx.Directed`):

* `C08_counterexample_flip`  — crash after the phase-2 flip and the priority-log removal, before cleanup logs
  `deleteObsoleteEntries`: the log's last line is `finalizeCommit`, the rollback treats the transaction as
  uncommitted and deletes the staged blob — the ACTIVE blob of the committed handle;
* `C08_counterexample_count` — crash after `StoreRepository.Update`, before the flip: the nodes are rolled back,
  the count is not (the reverse delta is not in the log: `CountDelta` is `json:"-"`; not even attempted at `last = 9`);
* `C08_counterexample_root`  — crash after the first root of an empty store was registered: recovery deletes the
  root blob and leaves the handle (`rollbackNewRootNodes` looks at the recovering transaction's `committedState`).

What does hold (proved for every state / log / handle, not for samples):
* `C08_recovery_removes_log`, `C08_recovery_removes_plog_partial` — recovery always removes the dead transaction's
  log, and its priority log when the version check passes;
* `C08_cleanup_only_finishes_partial` — once cleanup has logged `deleteObsoleteEntries` the recovery does exactly
  the rest of the cleanup (delete the obsolete blobs and the removed nodes' handles, remove the log): the committed
  state is kept;
* `reserve_keeps_view`, `activate_shows_staged`, `restore_image_keeps_view` — the handle-level facts the protocol
  rests on: a reservation and a restored pre-flip image show readers the old node, the flip shows the staged one.
-/
namespace Sop.C08
open Sop.Commit Sop.Recovery

/-- the write set can be committed from `s` without a conflict (what a single writer's Commit needs) -/
def Ready (s : State) (fresh : List (UUID × UUID)) (w : WS) : Bool :=
  w.hasTracked
  && w.updated.all (fun (id, v) => match s.reg id with
      | some h => h.version == v && !h.deleted && !h.bothInUse && s.blob h.active
      | none => false)
  && w.removed.all (fun (id, v) => match s.reg id with
      | some h => h.version == v && !h.deleted && s.blob h.active
      | none => false)
  && w.rootIds.all (fun i => (s.reg i).isNone && !s.blob i)
  && w.addedIds.all (fun i => (s.reg i).isNone && !s.blob i)
  && (reservedOf s fresh w).length == w.updated.length
  && (reservedOf s fresh w).all (fun h => h.inactive != 0 && !s.blob h.inactive)
  && w.stores.all (fun st => st.created || s.storeExists st.store)

/-- a later writer (clock past the one-hour window) can reserve every node the dead transaction touched -/
def usable (a : State) (w : WS) : Bool :=
  (upLids w).all (fun i => match a.reg i with
    | some h => (reserveOne (a.now + 3 * a.hour) a.hour 1000000 h h.version).isSome
    | none => true)

/-- The property, at full strength: for every state, write set and crash point (every prefix of the commit's
durable calls, phase 2 and cleanup included), after recovery with the ages past their thresholds a cold reader
sees the state before or the state after, nothing reachable dangles, both logs are gone and the nodes are usable. -/
def Statement_C08 : Prop :=
  ∀ (s : State) (fresh : List (UUID × UUID)) (w : WS) (m : Nat), Ready s fresh w = true →
    let d := (recover (crashAt s 1 fresh w m)).1
    let fin := (committed s 1 fresh w).s
    (isBefore d.s s w = true ∨ isAfter d.s fin w = true)
    ∧ reachableOk d.s fin w = true
    ∧ d.s.tlog 1 = false ∧ d.plg = none
    ∧ usable d.s w = true

/-! ## Witnesses -/

/-- one existing node (lid 1, blob 1, version 0) in store 0 (2 items); the transaction rewrites it, count +1 -/
def s1 : State :=
  let s0 : State := (({} : State).setReg ⟨1, 1, 0, false, 0, 0, false⟩).setBlob 1 true
  { s0 with cnt := fun k => if k = 0 then 2 else 0, storeExists := fun k => k == 0 }
def w1 : WS := { stores := [{ store := 0, updated := [(1, 0)], delta := 1 }] }
def f1 : List (UUID × UUID) := [(1, 2)]

/-- empty store 0; the transaction adds its first root (lid 3) -/
def s3 : State := { ({} : State) with storeExists := fun k => k == 0 }
def w3 : WS := { stores := [{ store := 0, root := [3], delta := 1 }] }

theorem ready1 : Ready s1 f1 w1 = true := by decide
theorem ready3 : Ready s3 [] w3 = true := by decide

/-- crash point 16 of witness 1 = after `reg.UpdateNoLocks aon` (flip) and `plog.Remove`, before `tlog.Add 12`:
recovery leaves handle 1 pointing at blob 2, which it has deleted. -/
theorem flip_window_dangles :
    let d := (recover (crashAt s1 1 f1 w1 16)).1
    d.s.reg 1 = some ⟨1, 1, 2, true, 1, 1, false⟩ ∧ d.s.blob 2 = false ∧ d.s.view 1 = none
    ∧ s1.view 1 = some (1, 0) ∧ (committed s1 1 f1 w1).s.view 1 = some (2, 1) := by decide

theorem C08_counterexample_flip : ¬ Statement_C08 := by
  intro h
  have := h s1 f1 w1 16 ready1
  revert this
  decide

/-- crash point 11 of witness 1 = right after `sr.Update`: nodes as before, count as after -/
theorem count_not_undone :
    let d := (recover (crashAt s1 1 f1 w1 11)).1
    d.s.view 1 = s1.view 1 ∧ d.s.cnt 0 = 3 ∧ s1.cnt 0 = 2 := by decide

theorem C08_counterexample_count : ¬ Statement_C08 := by
  intro h
  have := h s1 f1 w1 11 ready1
  revert this
  decide

/-- crash point 6 of witness 3 = after the root's `blob.Add`, `reg.Add` and `tlog.Add 5`: the blob is deleted, the handle stays -/
theorem root_handle_left :
    let d := (recover (crashAt s3 1 [] w3 6)).1
    d.s.reg 3 = some (Handle.new 3) ∧ d.s.blob 3 = false := by decide

theorem C08_counterexample_root : ¬ Statement_C08 := by
  intro h
  have := h s3 [] w3 6 ready3
  revert this
  decide

/-- outside the three windows the same witness does satisfy the statement's body (so the refutations are not an
artefact of `Ready` or of the observation functions): every crash point before `sr.Update` and every one from
`tlog.Add 12` on. -/
theorem witness1_good_points :
    ∀ m ∈ [0, 1, 2, 3, 4, 5, 6, 7, 8, 9, 10, 17, 18, 19, 20, 21],
      let d := (recover (crashAt s1 1 f1 w1 m)).1
      let fin := (committed s1 1 f1 w1).s
      (isBefore d.s s1 w1 = true ∨ isAfter d.s fin w1 = true) ∧ reachableOk d.s fin w1 = true
      ∧ d.s.tlog 1 = false ∧ d.plg = none ∧ usable d.s w1 = true := by decide

/-! ## What holds in general -/

/-- **Recovery always removes the dead transaction's log** — for every crashed state whatsoever. -/
theorem C08_recovery_removes_log (d : DState) : (recover d).1.s.tlog d.tid = false ∧ (recover d).1.tid = d.tid := by
  unfold recover
  have hp := priorityRollback_spec (d, [])
  have he := expiredRollback_spec (priorityRollback (d, []))
  simp only [] at hp he ⊢
  rw [hp.1] at he
  exact ⟨he.2.1, he.1⟩

/-- … and its priority log, when the logged pre-flip images fit the registry versions (always the case for a
crashed commit: the images were taken from the registry by the dead transaction itself under its node locks). -/
theorem C08_recovery_removes_plog_partial (d : DState) (h : plogFits d = true) : (recover d).1.plg = none := by
  unfold recover
  have he := expiredRollback_spec (priorityRollback (d, []))
  simp only [] at he ⊢
  rw [he.2.2]
  exact priorityRollback_plg (d, []) h

example : plogFits (crashAt s1 1 f1 w1 14) = true ∧ (crashAt s1 1 f1 w1 14).plg.isSome = true := by decide

/-! ### The cleanup window: once `deleteObsoleteEntries` is logged, recovery only finishes the cleanup -/

/-- log lines cleanup itself appends: steps 12 and 13, no payload -/
def cleanupLine (e : Entry) : Bool :=
  (e.step == .deleteObsoleteEntries || e.step == .deleteTrackedItemsValues) && e.p == .none

theorem walk_skips_cleanup_lines (last : Nat) (post : List Entry) (hpost : ∀ e ∈ post, cleanupLine e = true)
    (rest : List Entry) (x : DState × List Ev) : walk last (post ++ rest) x = walk last rest x := by
  induction post with
  | nil => rfl
  | cons e t ih =>
    have he := hpost e (by simp)
    have ht : ∀ e ∈ t, cleanupLine e = true := fun e' h' => hpost e' (by simp [h'])
    obtain ⟨st, p⟩ := e
    simp [cleanupLine] at he
    obtain ⟨hst, hp⟩ := he
    subst hp
    rcases hst with h | h <;> subst h <;> simp [walk, walkEntry, ih ht]

/-- If the log reads `… finalizeCommit(dead, unused, vals); deleteObsoleteEntries [; deleteTrackedItemsValues]`
the expired-log rollback deletes the obsolete value blobs (only at `last = 13`), the unused blobs and the removed
handles, removes the log, and touches nothing else. -/
theorem C08_cleanup_only_finishes_partial (d : DState) (pre post : List Entry) (dead unused vals : List UUID) (l : Entry)
    (hlog : d.log = pre ++ ⟨.finalizeCommit, .obsolete dead unused vals⟩ :: post)
    (hpost : ∀ e ∈ post, cleanupLine e = true) (hne : post.getLast? = some l) (htl : d.s.tlog d.tid = true) :
    (expiredRollback (d, [])).1 =
      (removeLog (deleteObsolete dead unused
        (if l.step.ord == Step.deleteTrackedItemsValues.ord && !vals.isEmpty then blobRemove vals (d, []) else (d, [])))).1 := by
  have hl : d.log.getLast? = some l := by
    rw [hlog]
    cases post with
    | nil => simp at hne
    | cons a t => simp [List.getLast?_append, List.getLast?_cons_cons] at hne ⊢; simpa [List.getLast?_cons] using hne
  have hge : l.step.ord ≥ Step.deleteObsoleteEntries.ord := by
    have := hpost l (List.mem_of_getLast? hne)
    obtain ⟨st, p⟩ := l
    simp [cleanupLine] at this
    rcases this.1 with h | h <;> subst h <;> simp [Step.ord]
  unfold expiredRollback
  simp only [htl, hl]
  simp only [Bool.not_true, Bool.false_eq_true, ↓reduceIte]
  rw [hlog]
  simp only [List.reverse_append, List.reverse_cons, List.append_assoc]
  rw [walk_skips_cleanup_lines _ post.reverse (fun e he => hpost e (by simpa using he))]
  simp [walk, walkEntry, hge]

/-- non-vacuity: crash point 18 of witness 1 (right after `tlog.Add 12`) has that shape -/
example : (crashAt s1 1 f1 w1 18).log = ((crashAt s1 1 f1 w1 18).log.take 9) ++ ⟨.finalizeCommit, .obsolete [] [1] []⟩ :: [⟨.deleteObsoleteEntries, .none⟩]
    ∧ (∀ e ∈ [(⟨.deleteObsoleteEntries, .none⟩ : Entry)], cleanupLine e = true) ∧ (crashAt s1 1 f1 w1 18).s.tlog 1 = true := by decide

/-! ### Handle-level facts the protocol rests on (for every handle) -/

theorem allocate_view (h g : Handle) (f : UUID) (now : Int) (ha : h.allocate f now = some g) :
    g.lid = h.lid ∧ g.active = h.active ∧ g.version = h.version := by
  unfold Handle.allocate at ha
  by_cases hb : h.bothInUse = true
  · simp [hb] at ha
  · by_cases hab : h.activeB = true
    · simp [hb, hab] at ha; subst ha; simp [Handle.active, hab]
    · simp [hb, hab] at ha; subst ha; simp [Handle.active, hab]

theorem clearInactive_view (h : Handle) :
    h.clearInactive.lid = h.lid ∧ h.clearInactive.active = h.active ∧ h.clearInactive.version = h.version := by
  unfold Handle.clearInactive
  by_cases hab : h.activeB = true <;> simp [Handle.active, hab]

/-- a reservation (`commitUpdatedNodes`) shows readers the same node: same logical id, active id and version -/
theorem reserve_keeps_view (now hour : Int) (f : UUID) (h h' : Handle) (v : Int)
    (hr : reserveOne now hour f h v = some h') : h'.lid = h.lid ∧ h'.active = h.active ∧ h'.version = h.version := by
  unfold reserveOne at hr
  split at hr
  · cases hr
  · simp only [] at hr
    generalize hg : (if (h.deleted && h.expiredInactive now hour) = true then { h with deleted := false } else h) = g at hr
    have hgv : g.lid = h.lid ∧ g.active = h.active ∧ g.version = h.version := by
      subst hg; split <;> simp [Handle.active]
    cases hal : g.allocate f now with
    | some g' =>
      rw [hal] at hr
      simp at hr
      subst hr
      have := allocate_view g g' f now hal
      exact ⟨this.1.trans hgv.1, this.2.1.trans hgv.2.1, this.2.2.trans hgv.2.2⟩
    | none =>
      rw [hal] at hr
      simp only [] at hr
      split at hr
      · have := allocate_view _ _ f now hr
        have hc := clearInactive_view g
        exact ⟨(this.1.trans hc.1).trans hgv.1, (this.2.1.trans hc.2.1).trans hgv.2.1, (this.2.2.trans hc.2.2).trans hgv.2.2⟩
      · cases hr

/-- the phase-2 flip (`activateInactiveNodes`) shows readers the staged blob under the next version -/
theorem activate_shows_staged (h : Handle) :
    (activate h).lid = h.lid ∧ (activate h).active = h.inactive ∧ (activate h).inactive = h.active
    ∧ (activate h).version = h.version + 1 := by
  cases hb : h.activeB <;> simp [activate, Handle.flip, Handle.active, Handle.inactive, hb]

/-- writing a logged pre-flip image back over its flipped image (`doPriorityRollbacks`) restores what readers saw -/
theorem restore_image_keeps_view (s : State) (h : Handle) :
    (s.setReg h).reg h.lid = some h ∧ ((s.setReg (activate h)).setReg h).reg h.lid = some h := by
  simp [State.setReg, activate, Handle.flip]

end Sop.C08
