import Sop.Lemmas.RecoveryWitness
/-!
# C09 — work left by a crashed transaction is recovered by later transactions

Model: `Sop.Recovery` — the maintenance scheduling of `common/twophasecommittransaction2.go` (`onIdle`,
`processPriorityRollbackOnRestart`, `processScheduledPriorityRollback`, `processExpiredLogs` with the package
globals `lastPriorityOnIdleTime`, `lastOnIdleRunTime`, `hourBeingProcessed`, `priorityLogFound`, `onStartUpFlag`)
and `Transaction.Begin → onIdle`.

The code does NOT have the property. `onIdle` starts with `if len(t.btreesBackend) == 0 { return }`; its only
caller is `Begin`; a store can be attached only after `Begin`. So on the public path the guard always fires:
`C09_public_path_inert` — any number of public transactions leaves the dead transaction's files, the registry
and the scheduling globals exactly as they were — and `C09_counterexample` refutes `Statement_C09`.

What does hold: `C09_recovered_if_idle_runs_partial` — the maintenance itself, once invoked with a store
attached in a freshly started process with the ages past their thresholds, removes the dead transaction's log on
its first run, and the priority log when the logged versions fit. What it does to the DATA is C08's subject:
`onIdle_first_is_recover` shows that this first run is exactly C08's recovery (priority rollback, then expired-log
rollback), so `C09_idle_recovers_atomically_partial` — for every start state, write set and crash point outside
the three C08 finding windows the crashed commit is recovered all-or-nothing — and inside the windows it is not
(C08-F1..F3), which is why wiring `onIdle` to the first attached store is not proposed as a repair.
-/
namespace Sop.C09
open Sop.Commit Sop.Recovery

/-- milliseconds in four hours: a freshly started process (`lastOnIdleRunTime = 0`) is past every interval
as soon as its clock reads more than this (Unix milliseconds always do) -/
def fourHours : Int := 4 * 60 * 60000

/-- The property: in a new process (globals at their initial values) with the dead transaction's files aged past
the thresholds, after n ≥ 1 public transactions (Begin, open a store, Commit) no priority log and no
transaction log of the dead transaction remain. -/
def Statement_C09 : Prop :=
  ∀ (d : DState) (ts : List Int), ts ≠ [] → (∀ t ∈ ts, t > fourHours) → plogFits d = true →
    let i := publicTxns ts { x := (d, []) }
    i.x.1.plg = none ∧ i.x.1.s.tlog d.tid = false

theorem begin_inert (now : Int) (i : Idle) : (begin now i).x = i.x ∧ (begin now i).g = i.g := by
  simp [begin, onIdle]

/-- **Public transactions never run the maintenance**: whatever the clock, however many of them. -/
theorem C09_public_path_inert (ts : List Int) : ∀ i : Idle, (publicTxns ts i).x = i.x ∧ (publicTxns ts i).g = i.g := by
  induction ts with
  | nil => intro i; simp [publicTxns]
  | cons t rest ih =>
    intro i
    have h1 := begin_inert t i
    have h2 := ih (publicTxn t i)
    show (publicTxns rest (publicTxn t i)).x = i.x ∧ (publicTxns rest (publicTxn t i)).g = i.g
    exact ⟨h2.1.trans h1.1, h2.2.trans h1.2⟩

/-- the crashed state of C08's witness 1 at crash point 14 (after `tlog.Add 11`): both files exist -/
def s1 : State :=
  let s0 : State := (({} : State).setReg ⟨1, 1, 0, false, 0, 0, false⟩).setBlob 1 true
  { s0 with cnt := fun k => if k = 0 then 2 else 0, storeExists := fun k => k == 0 }
def w1 : WS := { stores := [{ store := 0, updated := [(1, 0)], delta := 1 }] }
def dead : DState := crashAt s1 1 [(1, 2)] w1 14

theorem dead_has_files : dead.plg.isSome = true ∧ dead.s.tlog dead.tid = true ∧ plogFits dead = true := by decide

theorem C09_counterexample : ¬ Statement_C09 := by
  intro h
  have h1 := h dead [fourHours + 1, fourHours + 180001] (by simp) (by simp [fourHours]) dead_has_files.2.2
  have h2 := C09_public_path_inert [fourHours + 1, fourHours + 180001] { x := (dead, []) }
  have h3 : (publicTxns [fourHours + 1, fourHours + 180001] { x := (dead, []) }).x.1.plg = none := h1.1
  rw [h2.1] at h3
  have := dead_has_files.1
  rw [h3] at this; exact absurd this (by decide)

/-- The maintenance, when it does run (a store attached, first call in a new process, ages past the thresholds):
the dead transaction's log is removed, and its priority log when the logged versions fit the registry. -/
theorem C09_recovered_if_idle_runs_partial (d : DState) (stores : Nat) (now : Int) (hnow : now > fourHours) :
    let i := onIdle (stores + 1) now { x := (d, []) }
    i.x.1.s.tlog d.tid = false ∧ (plogFits d = true → i.x.1.plg = none) ∧ i.ranExpired = true ∧ i.ranPriority = true := by
  have hp := priorityRollback_spec (d, [])
  have he := expiredRollback_spec (priorityRollback (d, []))
  have he0 := expiredRollback_spec (d, [])
  have h1 : ¬ (now < now - 300000) := by omega
  have h2 : (14400000 : Int) < now := by unfold fourHours at hnow; omega
  unfold onIdle doPriorityRollbacks processExpired
  by_cases hplg : d.plg.isSome = true
  · by_cases htl : d.s.tlog d.tid = true
    · simp [hplg, htl, h1, h2, hp.1, hp.2]
      refine ⟨?_, ?_⟩
      · have := he.2.1; rw [hp.1] at this; exact this
      · intro hf; rw [he.2.2]; exact priorityRollback_plg (d, []) hf
    · simp at htl
      simp [hplg, htl, h1, h2, hp.1, hp.2]
      intro hf; exact priorityRollback_plg (d, []) hf
  · simp at hplg
    by_cases htl : d.s.tlog d.tid = true
    · simp [hplg, htl, h1, h2]
      refine ⟨he0.2.1, ?_⟩
      intro _; rw [he0.2.2]; simpa using hplg
    · simp at htl
      simp [hplg, htl, h1, h2]


/-! ## What the maintenance does to the data when it does run

The first `onIdle` of a freshly started process with a store attached and the ages past their thresholds performs
exactly the recovery C08 reasons about: priority rollback, then expired-log rollback. So C08's general theorem
applies to it: the crashed work is recovered all-or-nothing outside the three C08 finding windows. -/

/-- the first maintenance run of a new process = `doPriorityRollbacks` then `processExpiredTransactionLogs` on the
dead transaction's files -/
theorem onIdle_first_is_recover (d : DState) (stores : Nat) (now : Int) (hnow : now > fourHours) :
    (onIdle (stores + 1) now { x := (d, []) }).x = expiredRollback (priorityRollback (d, [])) := by
  have hp := priorityRollback_spec (d, [])
  have h1 : ¬ (now < now - 300000) := by omega
  have h2 : (14400000 : Int) < now := by unfold fourHours at hnow; omega
  have hnone : d.plg = none → priorityRollback (d, []) = (d, []) := fun h => priorityRollback_none (d, []) h
  have hskip : ∀ x : DState × List Ev, x.1.s.tlog x.1.tid = false → expiredRollback x = x := by
    intro x hx; unfold expiredRollback; simp [hx]
  unfold onIdle doPriorityRollbacks processExpired
  by_cases hplg : d.plg.isSome = true
  · by_cases htl : d.s.tlog d.tid = true
    · simp [hplg, htl, h1, h2, hp.1, hp.2]
    · simp at htl
      simp [hplg, htl, h1, h2, hp.1, hp.2]
      rw [hskip _ (by rw [hp.1, hp.2]; exact htl)]
  · simp at hplg
    rw [hnone hplg]
    by_cases htl : d.s.tlog d.tid = true
    · simp [hplg, htl, h1, h2]
    · simp at htl
      simp [hplg, htl, h1, h2]
      rw [hskip _ htl]

/-- **When the maintenance does run, the crashed commit is recovered all-or-nothing** — for every start state,
write set (`WF`) and crash point outside the three C08 finding windows: every node loadable before reads as before
with the old counts, or (only after cleanup's first log line) the transaction's result is in place with the new
counts; a registered new root is loadable; both files of the dead transaction are gone. -/
theorem C09_idle_recovers_atomically_partial {s0 : State} {w : WS} {fresh : List (UUID × UUID)} (wf : WF s0 w fresh)
    (tid : Tid) (m : Nat) (hw : inWindow w ((commitOps s0 fresh w).take m) = false)
    (stores : Nat) (now : Int) (hnow : now > fourHours) :
    let a := (onIdle (stores + 1) now { x := (crashAt s0 tid fresh w m, []) }).x.1
    (OldOutcome s0 a.s ∨
      (hasLog .deleteObsoleteEntries ((commitOps s0 fresh w).take m) = true ∧ NewOutcome s0 fresh w a.s))
    ∧ RootsOK w a.s ∧ a.plg = none ∧ a.s.tlog tid = false := by
  simp only
  rw [onIdle_first_is_recover _ _ _ hnow, ← recover_fst]
  exact atomic_outside_windows wf tid m hw

/-- non-vacuity of `C09_idle_recovers_atomically_partial`: premises, a crash point outside the windows that left both files -/
example : WF Witness.s0 (wU 1) [(1, 9)] ∧ inWindow (wU 1) ((commitOps Witness.s0 [(1, 9)] (wU 1)).take 7) = false
    ∧ (crashAt Witness.s0 1 [(1, 9)] (wU 1) 7).s.tlog 1 = true ∧ fourHours + 1 > fourHours :=
  ⟨wf_upd 1, by decide +kernel, by decide +kernel, by decide⟩

/-- non-vacuity: on the witness the maintenance does remove both files -/
example : let i := onIdle 1 (fourHours + 1) { x := (dead, []) }
    i.x.1.s.tlog 1 = false ∧ i.x.1.plg = none ∧ i.g.hourBeingProcessed = true ∧ i.g.onStartUpFlag = false := by decide

end Sop.C09
