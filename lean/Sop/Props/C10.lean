import Sop.Lemmas.Commit
import Sop.Lemmas.CommitWitness
import Sop.Lemmas.CommitPhase1
import Sop.Lemmas.CommitSuccess
import Sop.Lemmas.CommitPhase2After
/-!
# C10 — no live item or node ever refers to deleted or partially written data

On Model P a node is *loadable* when its registry handle exists and the blob under the handle's ACTIVE id exists
(`State.view`). Every deletion the commit code performs targets (a) staged blobs = inactive ids it allocated,
(b) after the flip, the previous active ids = inactive ids of the flipped handles, (c) the active ids of handles it
has marked removed (unreachable after the flip). The lemmas below are the algebraic content: such deletions never
remove a loadable node's data, for any batch.
-/
namespace Sop.C10
open Sop.Commit

/-- deleting ids that are no registered handle's active id keeps every node loadable exactly as before -/
theorem delete_nonactive_keeps_all (s : State) (ids : List UUID)
    (h : ∀ lid hd, s.reg lid = some hd → hd.active ∉ ids) (lid : UUID) :
    (s.delBlobs ids).view lid = s.view lid :=
  view_delBlobs_of_inactive s ids lid (fun hd e => h lid hd e)

/-- after the flip, the id cleanup deletes for an updated node (the flipped handle's inactive id) is the OLD active
id, never the new one, as long as the two physical ids of the handle differ -/
theorem cleanup_target_is_old (h : Handle) (hne : h.active ≠ h.inactive) :
    (activate h).inactive = h.active ∧ (activate h).inactive ≠ (activate h).active := by
  obtain ⟨_, a2, a3, _, _⟩ := activate_spec h
  exact ⟨a3, by rw [a2, a3]; exact hne⟩

/-- undoing a reservation deletes the staged id only: the reserved image's inactive id is the fresh id, and the
active id is the one readers use -/
theorem rollback_target_is_staged (now hour : Int) (f : UUID) (h h' : Handle) (v : Int)
    (e : reserveOne now hour f h v = some h') (hf : f ≠ h.active) : h'.inactive = f ∧ h'.inactive ≠ h'.active := by
  obtain ⟨_, r2, _, r4, _, _, _⟩ := reserveOne_spec now hour f h h' v e
  exact ⟨r4, by rw [r4, r2]; exact hf⟩

/-- **Nothing the commit code deletes or overwrites before its commit point is live data**: for every write set,
every start state satisfying `Pre` and every fault, when phase 1 ends (normally, or by raising at the failing
call) every node that was loadable at the start still loads, under the same blob id. The proof goes through every
deletion of phase 1 and of the live rollback (`SInv.delBlobs_static`, `SInv.delRegs`): their targets are ids with
inactive provenance, new-node ids or value-blob ids, never a pre-existing node's active id. -/
theorem C10_phase1_keeps_loadable (s0 : State) (w : WS) (fresh0 : List (UUID × UUID)) (pre : Pre s0 w fresh0)
    (fault : Option Fault) {cs0 : Step} (tid : Tid) (n : Nat) :
    match phase1 w n { s := s0, tid := tid, fault := fault, fresh := fresh0, cs := cs0 } with
    | .ok (_, r) => ∀ lid, (s0.view lid).isSome → r.s.view lid = s0.view lid
    | .error r => ∀ lid, (s0.view lid).isSome → r.s.view lid = s0.view lid :=
  phase1_keeps_views pre fault tid n

/-- and the same after the live rollback of a failed phase 1 -/
theorem C10_failed_commit_keeps_loadable (s0 : State) (w : WS) (fresh0 : List (UUID × UUID)) (pre : Pre s0 w fresh0)
    (fault : Option Fault) {cs0 : Step} (tid : Tid) (n : Nat) (r1 : Run)
    (hf : phase1 w n { s := s0, tid := tid, fault := fault, fresh := fresh0, cs := cs0 } = .error r1) :
    ∀ lid, (s0.view lid).isSome →
      (commit w n { s := s0, tid := tid, fault := fault, fresh := fresh0, cs := cs0 }).2.s.view lid = s0.view lid :=
  commit_phase1_failure_keeps_views pre fault tid n r1 hf

/-- **A successful commit's cleanup never deletes data a committed state references**: after `Commit` returned ok
(whatever cleanup call failed or not), every node the transaction updated loads under its new blob id, and every
other node that was loadable before and was not removed by this transaction still loads under the same blob id. The
cleanup's targets (old active ids of flipped nodes, active ids of removed nodes, obsolete value blobs) are shown
disjoint from both (`Flipped.delBlobs`, `Flipped.delRegs`). -/
theorem C10_committed_nodes_load (s0 : State) (w : WS) (fresh0 : List (UUID × UUID)) (pre : Pre s0 w fresh0)
    (pre2 : Pre2 s0 w fresh0) (fault : Option Fault) {cs0 : Step} (tid : Tid) (n : Nat) (r2 : Run)
    (hok : commit w n { s := s0, tid := tid, fault := fault, fresh := fresh0, cs := cs0 } = (.ok, r2)) :
    ∃ r1, phase1 w n { s := s0, tid := tid, fault := fault, fresh := fresh0, cs := cs0 } = .ok ((), r1) ∧
      (∀ h ∈ r1.reserved, h.inactive ≠ 0 → (r2.s.view h.lid).isSome) ∧
      (∀ lid, (s0.view lid).isSome → (∀ h ∈ r1.reserved, h.lid ≠ lid) → (∀ g ∈ r1.removedH, g.lid ≠ lid) →
        r2.s.view lid = s0.view lid) := by
  obtain ⟨r1, a, _, c, d⟩ := commit_ok_installs pre pre2 fault tid n r2 hok
  exact ⟨r1, a, fun h hm hz => by rw [c h hm hz]; rfl, d⟩

/-- **A commit that returns an error — wherever it failed, under every fault — leaves every node loadable as
before**: phase 1, live rollback, phase 2's log write, the flip failing with or without effect (then the priority
rollback puts the logged images back before the undo routines delete the staged blobs). -/
theorem C10_any_failed_commit_keeps_loadable (s0 : State) (w : WS) (fresh0 : List (UUID × UUID)) (pre : Pre s0 w fresh0)
    (pre2 : Pre2 s0 w fresh0) (fault : Option Fault) {cs0 : Step} (tid : Tid) (n : Nat)
    (herr : (commit w n { s := s0, tid := tid, fault := fault, fresh := fresh0, cs := cs0 }).1 = .err) :
    ∀ lid, (s0.view lid).isSome →
      (commit w n { s := s0, tid := tid, fault := fault, fresh := fresh0, cs := cs0 }).2.s.view lid = s0.view lid := by
  cases h1 : phase1 w n { s := s0, tid := tid, fault := fault, fresh := fresh0, cs := cs0 } with
  | error r1 => exact commit_phase1_failure_keeps_views pre fault tid n r1 h1
  | ok p =>
    obtain ⟨u, r1⟩ := p
    cases h2 : phase2 w r1 with
    | ok q =>
      obtain ⟨u', r2⟩ := q
      unfold commit at herr
      simp only [h1, h2] at herr
      cases herr
    | error r2 => exact commit_phase2_failure_keeps_views_all pre pre2 fault tid n r1 r2 h1 h2

theorem C10_premises_satisfiable : Pre Witness.s0 Witness.wSplit [(1, 9)] := Witness.pre_wSplit

/-- a successful commit of the witness transaction leaves node 1 loadable under its new id, the old blob deleted -/
theorem commit_keeps_loadable :
    let r := commit Witness.wSplit 30 { s := Witness.s0, tid := 1, fault := none, fresh := [(1, 9)] }
    r.1 = .ok ∧ r.2.s.view 1 = some (9, 2) ∧ r.2.s.view 2 = some (2, 1) ∧ r.2.s.blob 1 = false := by
  refine ⟨?_, ?_, ?_, ?_⟩ <;> decide +kernel

end Sop.C10
