import Sop.Lemmas.Commit
import Sop.Lemmas.CommitWitness
/-!
# C11 — finished transactions leave no orphaned blobs, registry entries or logs

On Model P: after a transaction has finished (committed + cleaned up, or failed + rolled back), every blob and
registry entry it created is either referenced by the committed state or gone, and its log files are gone. The
full statement is false for failed commits (findings C11-F1/F2: the step in which the fault hit is not undone);
it is shown for the fault-free witness commit and refuted by two witnesses.
-/
namespace Sop.C11
open Sop.Commit

/-- ids the write set introduces: new nodes (their logical id is also their first blob id) -/
def newIds (w : WS) : List UUID := w.rootIds ++ w.addedIds

/-- after a FAILED commit nothing the transaction introduced is left: no handle and no blob for its new nodes, no
staged blob, no log -/
def Statement_C11_failed : Prop :=
  ∀ (s : State) (w : WS) (fresh : List (UUID × UUID)) (f : Fault),
    (∀ i ∈ newIds w, s.reg i = none ∧ s.blob i = false) →
    let r := commit w 30 { s := s, tid := 1, fault := some f, fresh := fresh }
    r.1 = .err → (∀ i ∈ newIds w, r.2.s.reg i = none ∧ r.2.s.blob i = false) ∧ r.2.s.tlog 1 = false ∧ r.2.s.plog 1 = false

/-- **F1**: `commitAddedNodes` registers the new nodes' handles and then writes their blobs; when the registry
write is applied but reported as failed, `committedState = commitAddedNodes` and `rollback` undoes added nodes
only when it is GREATER: the handle of the never-committed node 2 stays registered (an orphan registry entry). -/
theorem C11_counterexample_added :
    let r := commit Witness.wSplit 30 { s := Witness.s0, tid := 1, fault := some ⟨.regAdd, 1, .failAfter⟩, fresh := [(1, 9)] }
    r.1 = .err ∧ (r.2.s.reg 2).isSome = true ∧ r.2.s.tlog 1 = false := by
  refine ⟨?_, ?_, ?_⟩ <;> decide +kernel

/-- **F2**: the same for the blob written next: a blob-store error after the file was written leaves handle AND blob -/
theorem C11_counterexample_added_blob :
    let r := commit Witness.wSplit 30 { s := Witness.s0, tid := 1, fault := some ⟨.blobAdd, 2, .failAfter⟩, fresh := [(1, 9)] }
    r.1 = .err ∧ (r.2.s.reg 2).isSome = true ∧ r.2.s.blob 2 = true := by
  refine ⟨?_, ?_, ?_⟩ <;> decide +kernel

theorem C11_counterexample : ¬ Statement_C11_failed := by
  intro h
  have h1 := h Witness.s0 Witness.wSplit [(1, 9)] ⟨.regAdd, 1, .failAfter⟩ (by decide +kernel)
  have c := C11_counterexample_added
  simp only at h1 c
  have := ((h1 c.1).1 2 (by decide)).1
  rw [this] at c
  exact absurd c.2.1 (by decide)

/-- the fault-free commit of the witness leaves no staged blob, no old blob, no log behind -/
theorem commit_leaves_no_orphans :
    let r := commit Witness.wSplit 30 { s := Witness.s0, tid := 1, fault := none, fresh := [(1, 9)] }
    r.1 = .ok ∧ r.2.s.blob 1 = false ∧ r.2.s.blob 9 = true ∧ r.2.s.blob 2 = true ∧ r.2.s.tlog 1 = false ∧ r.2.s.plog 1 = false := by
  refine ⟨?_, ?_, ?_, ?_, ?_, ?_⟩ <;> decide +kernel

/-- and a failure BEFORE the step took effect is undone completely -/
theorem failed_before_leaves_no_orphans :
    let r := commit Witness.wSplit 30 { s := Witness.s0, tid := 1, fault := some ⟨.regAdd, 1, .failBefore⟩, fresh := [(1, 9)] }
    r.1 = .err ∧ r.2.s.reg 2 = none ∧ r.2.s.blob 2 = false ∧ r.2.s.blob 9 = false ∧ r.2.s.tlog 1 = false := by
  refine ⟨?_, ?_, ?_, ?_, ?_⟩ <;> decide +kernel

end Sop.C11
