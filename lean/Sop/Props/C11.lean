import Sop.Lemmas.Commit
import Sop.Lemmas.CommitWitness
import Sop.Lemmas.CommitOrphansPhase2
import Sop.Lemmas.CommitOrphansLogs
/-!
# C11 — finished transactions leave no orphaned blobs, registry entries or logs

On Model P: after a transaction has finished (committed + cleaned up, or failed + rolled back), every blob and
registry entry it created is either referenced by the committed state or gone, and its log files are gone. The
full statement is false for failed commits (findings C11-F1/F2: the step in which the fault hit is not undone);
it is refuted by two witnesses. For SUCCESSFUL FAULT-FREE commits the property is a theorem for every write set and
starting state (`C11_ok_leaves_nothing`; parts: `C11_ok_no_orphans`, `…_values`, `…_gen`, `C11_ok_cleanup_complete`,
`C11_ok_no_logs`): after the cleanup every blob in the store is some registered handle's active blob (or a live value
blob), the removed nodes are unregistered, the obsolete value blobs and both log files are gone. A fault that hits a cleanup call leaves the old blob behind
(`C11_cleanup_fault_leaves_orphan`): the cleanup's errors are swallowed and nothing retries it.
-/
namespace Sop.C11
open Sop.Commit

/-- ids the write set introduces: new nodes (their logical id is also their first blob id) -/
def newIds (w : WS) : List UUID := w.rootIds ++ w.addedIds

/-- after a FAILED commit nothing the transaction introduced is left: no handle and no blob for its new nodes, no
staged blob, no log -/
def Statement_C11_failed : Prop :=
  ∀ (s : State) (w : WS) (fresh : List (UUID × UUID)) (f : Fault),
    (∀ i ∈ newIds w, s.reg i = none ∧ s.blob i = false) →
    let r := commit w 30 { s := s, tid := 1, fault := some f, fresh := fresh }
    r.1 = .err → (∀ i ∈ newIds w, r.2.s.reg i = none ∧ r.2.s.blob i = false) ∧ r.2.s.tlog 1 = false ∧ r.2.s.plog 1 = false

/-- **F1**: `commitAddedNodes` registers the new nodes' handles and then writes their blobs; when the registry
write is applied but reported as failed, `committedState = commitAddedNodes` and `rollback` undoes added nodes
only when it is GREATER: the handle of the never-committed node 2 stays registered (an orphan registry entry). -/
theorem C11_counterexample_added :
    let r := commit Witness.wSplit 30 { s := Witness.s0, tid := 1, fault := some ⟨.regAdd, 1, .failAfter⟩, fresh := [(1, 9)] }
    r.1 = .err ∧ (r.2.s.reg 2).isSome = true ∧ r.2.s.tlog 1 = false := by
  refine ⟨?_, ?_, ?_⟩ <;> decide +kernel

/-- **F2**: the same for the blob written next: a blob-store error after the file was written leaves handle AND blob -/
theorem C11_counterexample_added_blob :
    let r := commit Witness.wSplit 30 { s := Witness.s0, tid := 1, fault := some ⟨.blobAdd, 2, .failAfter⟩, fresh := [(1, 9)] }
    r.1 = .err ∧ (r.2.s.reg 2).isSome = true ∧ r.2.s.blob 2 = true := by
  refine ⟨?_, ?_, ?_⟩ <;> decide +kernel

theorem C11_counterexample : ¬ Statement_C11_failed := by
  intro h
  have h1 := h Witness.s0 Witness.wSplit [(1, 9)] ⟨.regAdd, 1, .failAfter⟩ (by decide +kernel)
  have c := C11_counterexample_added
  simp only at h1 c
  have := ((h1 c.1).1 2 (by decide)).1
  rw [this] at c
  exact absurd c.2.1 (by decide)

/-- the fault-free commit of the witness leaves no staged blob, no old blob, no log behind -/
theorem commit_leaves_no_orphans :
    let r := commit Witness.wSplit 30 { s := Witness.s0, tid := 1, fault := none, fresh := [(1, 9)] }
    r.1 = .ok ∧ r.2.s.blob 1 = false ∧ r.2.s.blob 9 = true ∧ r.2.s.blob 2 = true ∧ r.2.s.tlog 1 = false ∧ r.2.s.plog 1 = false := by
  refine ⟨?_, ?_, ?_, ?_, ?_, ?_⟩ <;> decide +kernel

/-- and a failure BEFORE the step took effect is undone completely -/
theorem failed_before_leaves_no_orphans :
    let r := commit Witness.wSplit 30 { s := Witness.s0, tid := 1, fault := some ⟨.regAdd, 1, .failBefore⟩, fresh := [(1, 9)] }
    r.1 = .err ∧ r.2.s.reg 2 = none ∧ r.2.s.blob 2 = false ∧ r.2.s.blob 9 = false ∧ r.2.s.tlog 1 = false := by
  refine ⟨?_, ?_, ?_, ?_, ?_⟩ <;> decide +kernel

/-! ## The success half: a fault-free commit leaves no orphaned blob (general theorems) -/

/-- **C11 (success, blobs).** Start: every blob is the active blob of a registered handle (`NoOrphan s0`). Write set
without separate-segment value blobs, `Pre` / `Pre2` (well-formed registry and write set, physical ids not shared, the
generated ids are new). If `Commit` returns ok in a run with no injected fault and no observer, then in the final
state — after the cleanup — every blob is again the active blob of a registered handle: the staged blobs became
active, the old blobs of updated nodes and the blobs of removed nodes were deleted, the removed nodes' handles
were unregistered only after their blobs were gone. For every write set, state, transaction id, retry cap. -/
theorem C11_ok_no_orphans {s0 : State} {w : WS} {fresh0 : List (UUID × UUID)}
    (pre : Pre s0 w fresh0) (pre2 : Pre2 s0 w fresh0) (hv : w.values = []) (h0 : NoOrphan s0)
    {cs0 : Step} (tid : Tid) (n : Nat) (r2 : Run)
    (hok : commit w n { s := s0, tid := tid, fault := none, fresh := fresh0, cs := cs0 } = (.ok, r2)) :
    NoOrphan r2.s :=
  commit_ok_no_orphans pre pre2 hv h0 tid n r2 hok

/-- **… with separate-segment value blobs**: relative to a set `V` of live value blobs, the live set after the
commit is `V` plus the value blobs written, minus the ones the write set made obsolete (those are deleted). -/
theorem C11_ok_no_orphans_values {s0 : State} {w : WS} {fresh0 : List (UUID × UUID)}
    (pre : Pre s0 w fresh0) (pre2 : Pre2 s0 w fresh0) (V : List UUID) (h0 : NoOrphanV V s0)
    {cs0 : Step} (tid : Tid) (n : Nat) (r2 : Run)
    (hok : commit w n { s := s0, tid := tid, fault := none, fresh := fresh0, cs := cs0 } = (.ok, r2)) :
    NoOrphanV ((V ++ w.values).filter (fun b => !w.obsoleteValues.contains b)) r2.s :=
  commit_ok_no_orphans_values pre pre2 V h0 tid n r2 hok

/-- the two facts behind it: exceptions only grow by the written value blobs, and every obsolete blob is gone -/
theorem C11_ok_no_orphans_gen {s0 : State} {w : WS} {fresh0 : List (UUID × UUID)}
    (pre : Pre s0 w fresh0) (pre2 : Pre2 s0 w fresh0) (X0 : List UUID) (h0 : BI X0 s0)
    {cs0 : Step} (tid : Tid) (n : Nat) (r2 : Run)
    (hok : commit w n { s := s0, tid := tid, fault := none, fresh := fresh0, cs := cs0 } = (.ok, r2)) :
    BI (X0 ++ w.values) r2.s ∧ ∀ b ∈ w.obsoleteValues, r2.s.blob b = false :=
  commit_ok_no_orphans_gen pre pre2 X0 h0 tid n r2 hok

/-- **… and the registry half of the cleanup**: besides the two blob facts, no node the write set removed is
registered any more (their handles are unregistered after their blobs were deleted). -/
theorem C11_ok_cleanup_complete {s0 : State} {w : WS} {fresh0 : List (UUID × UUID)}
    (pre : Pre s0 w fresh0) (pre2 : Pre2 s0 w fresh0) (X0 : List UUID) (h0 : BI X0 s0)
    {cs0 : Step} (tid : Tid) (n : Nat) (r2 : Run)
    (hok : commit w n { s := s0, tid := tid, fault := none, fresh := fresh0, cs := cs0 } = (.ok, r2)) :
    BI (X0 ++ w.values) r2.s ∧ (∀ b ∈ w.obsoleteValues, r2.s.blob b = false) ∧
      (w.hasTracked = true → ∀ i ∈ w.removed.map (·.1), r2.s.reg i = none) :=
  commit_ok_cleanup_complete pre pre2 X0 h0 tid n r2 hok

/-- **C11 (success, logs).** A commit that returns ok in a fault-free run leaves neither its transaction-log file
(the cleanup's last call removes it) nor its priority-log file (written only when there is something to flip, removed
right after the flip) — for every write set and state in which the transaction had no priority log to begin with. -/
theorem C11_ok_no_logs {s0 : State} {w : WS} {fresh0 : List (UUID × UUID)} {cs0 : Step} (tid : Tid) (n : Nat) (r2 : Run)
    (hp0 : s0.plog tid = false)
    (hok : commit w n { s := s0, tid := tid, fault := none, fresh := fresh0, cs := cs0 } = (.ok, r2)) :
    r2.s.tlog tid = false ∧ r2.s.plog tid = false :=
  commit_ok_no_logs tid n r2 hp0 hok

/-- **C11 for successful fault-free commits, all parts together** (write sets without separate-segment values):
no orphaned blob, no registry entry of a removed node, no obsolete blob, no log file. -/
theorem C11_ok_leaves_nothing {s0 : State} {w : WS} {fresh0 : List (UUID × UUID)}
    (pre : Pre s0 w fresh0) (pre2 : Pre2 s0 w fresh0) (hv : w.values = []) (h0 : NoOrphan s0)
    {cs0 : Step} (tid : Tid) (n : Nat) (r2 : Run) (hp0 : s0.plog tid = false)
    (hok : commit w n { s := s0, tid := tid, fault := none, fresh := fresh0, cs := cs0 } = (.ok, r2)) :
    NoOrphan r2.s ∧ (w.hasTracked = true → ∀ i ∈ w.removed.map (·.1), r2.s.reg i = none) ∧
      (∀ b ∈ w.obsoleteValues, r2.s.blob b = false) ∧ r2.s.tlog tid = false ∧ r2.s.plog tid = false := by
  obtain ⟨_, b, c⟩ := C11_ok_cleanup_complete pre pre2 [] (BI.nil.mpr h0) tid n r2 hok
  exact ⟨C11_ok_no_orphans pre pre2 hv h0 tid n r2 hok, c, b, C11_ok_no_logs tid n r2 hp0 hok⟩

example : Witness.s0.plog 1 = false := rfl

/-! ### non-vacuity: the split witness (node 1 updated → staged id 9, node 2 added) -/

theorem noOrphan_witness : NoOrphan Witness.s0 := by
  intro b hb
  have hb1 : b = 1 := by
    simp only [Witness.s0, State.setReg, State.setBlob] at hb
    split at hb
    · assumption
    · cases hb
  subst hb1
  exact ⟨1, { lid := 1, idA := 1, version := 1 }, by simp [Witness.s0, State.setReg, State.setBlob], rfl⟩

theorem pre2_witness : Pre2 Witness.s0 Witness.wSplit [(1, 9)] := by
  have hreg : ∀ i h, Witness.s0.reg i = some h → i = 1 := by
    intro i h e
    simp only [Witness.s0, State.setReg, State.setBlob] at e
    split at e
    · rename_i hi; exact hi
    · cases e
  refine ⟨by decide, ?_, by decide, ?_, ?_, ?_, ?_⟩
  · intro i _ hm; simp [WS.removed, Witness.wSplit] at hm
  · intro i hm; simp [WS.removed, Witness.wSplit] at hm
  · intro i j h h' e e' hne; exact absurd ((hreg i h e).trans (hreg j h' e').symm) hne
  · intro i h _ hm; simp [WS.obsoleteValues, Witness.wSplit] at hm
  · intro p _ hm; simp [WS.obsoleteValues, Witness.wSplit] at hm

/-- the same theorem with the run written out (no pair equation to check on a concrete run) -/
theorem C11_ok_no_orphans_run {s0 : State} {w : WS} {fresh0 : List (UUID × UUID)}
    (pre : Pre s0 w fresh0) (pre2 : Pre2 s0 w fresh0) (hv : w.values = []) (h0 : NoOrphan s0) {cs0 : Step} (tid : Tid) (n : Nat)
    (hok : (commit w n { s := s0, tid := tid, fault := none, fresh := fresh0, cs := cs0 }).1 = .ok) :
    NoOrphan (commit w n { s := s0, tid := tid, fault := none, fresh := fresh0, cs := cs0 }).2.s :=
  C11_ok_no_orphans pre pre2 hv h0 tid n _ (Prod.ext hok rfl)

theorem witness_commit_ok :
    (commit Witness.wSplit 30 { s := Witness.s0, tid := 1, fault := none, fresh := [(1, 9)] }).1 = .ok := by
  decide +kernel

/-- all hypotheses of `C11_ok_no_orphans` hold of the witness, its commit returns ok, and the run is not trivial:
the staged blob 9 and the added node's blob 2 are in the store, the old blob 1 is gone -/
theorem C11_ok_no_orphans_witness :
    NoOrphan (commit Witness.wSplit 30 { s := Witness.s0, tid := 1, fault := none, fresh := [(1, 9)] }).2.s :=
  C11_ok_no_orphans_run Witness.pre_wSplit pre2_witness (by decide) noOrphan_witness 1 30 witness_commit_ok

theorem C11_ok_no_orphans_witness_nontrivial :
    let r := commit Witness.wSplit 30 { s := Witness.s0, tid := 1, fault := none, fresh := [(1, 9)] }
    r.2.s.blob 9 = true ∧ r.2.s.blob 2 = true ∧ r.2.s.blob 1 = false ∧ (r.2.s.reg 1).map (·.active) = some 9 := by
  refine ⟨?_, ?_, ?_, ?_⟩ <;> decide +kernel

/-- second witness: the transaction removes node 1 (`wRem`): premises hold, the commit returns ok, and the theorem
gives: no orphan blob, node 1 unregistered -/
theorem pre_wRem : Pre Witness.s0 Witness.wRem [] ∧ Pre2 Witness.s0 Witness.wRem [] := by
  have hreg : ∀ i h, Witness.s0.reg i = some h → i = 1 ∧ h = { lid := 1, idA := 1, version := 1 } := by
    intro i h e
    simp only [Witness.s0, State.setReg, State.setBlob] at e
    split at e
    · rename_i hi; cases e; exact ⟨hi, rfl⟩
    · cases e
  refine ⟨⟨?_, ?_, ?_, ?_, ?_, ?_, ?_, ?_⟩, ⟨by decide, ?_, ?_, by decide, ?_, ?_, ?_⟩⟩
  · intro i h e; obtain ⟨rfl, rfl⟩ := hreg i h e; rfl
  · intro i hi; simp [WS.newIds, WS.rootIds, WS.addedIds, Witness.wRem] at hi
  · intro i h _ hm; simp [WS.newIds, WS.rootIds, WS.addedIds, Witness.wRem] at hm
  · intro i h _ p hp; cases hp
  · intro i j h h' e e' hne; obtain ⟨rfl, rfl⟩ := hreg i h e; exact absurd rfl hne
  · intro i h e hne; obtain ⟨rfl, rfl⟩ := hreg i h e; exact absurd rfl hne
  · intro p hp; cases hp
  · intro i h _ hm; simp [WS.values, Witness.wRem] at hm
  · intro i hm; simp [WS.updated, Witness.wRem] at hm
  · intro i hm; simp [WS.updated, Witness.wRem] at hm
  · intro i j h h' e e' hne; exact absurd ((hreg i h e).1.trans (hreg j h' e').1.symm) hne
  · intro i h _ hm; simp [WS.obsoleteValues, Witness.wRem] at hm
  · intro p hp; cases hp

theorem C11_ok_cleanup_complete_run {s0 : State} {w : WS} {fresh0 : List (UUID × UUID)}
    (pre : Pre s0 w fresh0) (pre2 : Pre2 s0 w fresh0) (X0 : List UUID) (h0 : BI X0 s0) {cs0 : Step} (tid : Tid) (n : Nat)
    (hok : (commit w n { s := s0, tid := tid, fault := none, fresh := fresh0, cs := cs0 }).1 = .ok) :
    BI (X0 ++ w.values) (commit w n { s := s0, tid := tid, fault := none, fresh := fresh0, cs := cs0 }).2.s ∧
      (∀ b ∈ w.obsoleteValues, (commit w n { s := s0, tid := tid, fault := none, fresh := fresh0, cs := cs0 }).2.s.blob b = false) ∧
      (w.hasTracked = true → ∀ i ∈ w.removed.map (·.1),
        (commit w n { s := s0, tid := tid, fault := none, fresh := fresh0, cs := cs0 }).2.s.reg i = none) :=
  C11_ok_cleanup_complete pre pre2 X0 h0 tid n _ (Prod.ext hok rfl)

theorem witness_rem_commit_ok :
    (commit Witness.wRem 30 { s := Witness.s0, tid := 1, fault := none, fresh := [] }).1 = .ok := by
  decide +kernel

theorem C11_ok_removed_witness :
    NoOrphan (commit Witness.wRem 30 { s := Witness.s0, tid := 1, fault := none, fresh := [] }).2.s ∧
      (commit Witness.wRem 30 { s := Witness.s0, tid := 1, fault := none, fresh := [] }).2.s.reg 1 = none := by
  have h := C11_ok_cleanup_complete_run pre_wRem.1 pre_wRem.2 [] (BI.nil.mpr noOrphan_witness) 1 30 witness_rem_commit_ok
  exact ⟨BI.nil.mp (h.1.mono (fun b hb => by simp [WS.values, Witness.wRem] at hb)), h.2.2 (by decide) 1 (by decide)⟩

/-- **The fault-freeness hypothesis is needed.** When the cleanup's `blob.Remove` fails (fail-before fault on its
first call) `Commit` still returns ok — `cleanup` only logs the error and nothing retries it — and the updated node's
OLD blob 1 stays in the store although node 1's handle now points at blob 9 and node 2's at blob 2: blob 1 is the
active blob of no handle (checked for every logical id below 16; the witness uses ids 1, 2 and 9 only). -/
theorem C11_cleanup_fault_leaves_orphan :
    let r := commit Witness.wSplit 30 { s := Witness.s0, tid := 1, fault := some ⟨.blobRemove, 1, .failBefore⟩, fresh := [(1, 9)] }
    r.1 = .ok ∧ r.2.s.blob 1 = true ∧ (r.2.s.reg 1).map (·.active) = some 9 ∧ (r.2.s.reg 2).map (·.active) = some 2 ∧
      (List.range 16).all (fun lid => (r.2.s.reg lid).map (·.active) != some 1) = true := by
  refine ⟨?_, ?_, ?_, ?_, ?_⟩ <;> decide +kernel

end Sop.C11
