import Sop.Model.StoreRepo
import Sop.Lemmas.StoreRepoLock
import Sop.Model.StoreRepoCommit
/-!
# C12 — creating and removing stores is transactional and complete

Theorems over `Sop.StoreRepo` (the model of `NewBtree` / `OpenBtree` / `Rollback` / `RemoveBtree` /
`StoreRepository.Add|Remove|Update`), for the **repaired** `NewBtree` (`fixed = true`) unless stated otherwise:

* `create_rollback` — whatever ends a transaction in failure (explicit `Rollback`, a failed `Commit`, a `NewBtree`
  / `OpenBtree` that fails) removes every store the transaction created (both trees);
* `create_race` — once a transaction `w` has created store `n`, **no** sequence of steps of other transactions
  (any number of racing `NewBtree(n)` halves in any interleaving, opens, adds, rollbacks, failures,
  `RemoveBtree` of other names) removes it or changes its identity and options, and it stays the only store of that
  name; `create_race_first_add_wins` — the first `Add` to run creates exactly the store of its transaction;
* `create_race_legacy_counterexample` — on the unrepaired tree the loser's cleanup deletes the winner's store;
* `remove_complete` — `RemoveBtree(n)` followed by `NewBtree(n, o')` creates a fresh, empty store with options `o'`;
* `names_nodup_step` — the catalogue never lists a name twice.

`Commit` as ONE step hides the rounds of the phase-1 loop; over `Sop.StoreRepoCommit` (one transaction's Commit round
by round: conflict round = partial rollback, last round ok / failed before or after logging again; other committers'
whole transactions between any two of its steps), namespace `Sop.C12.Commit`:

* `abort_leaves_no_created_store` — whatever the interleaving, a transaction that ended without committing (failed
  `NewBtree`/`OpenBtree`, failed last round after any number of conflict rounds, explicit `Rollback`) leaves no store
  it created, and already after a conflict round its created stores are gone (`conflict_removes_created`);
  `commit_keeps_created` — if it committed, every store it created is there;
* `abort_forgetful_counterexample` — with a partial rollback that keeps the created stores but still rewinds the log
  state, `begin; NewBtree(sn); conflict round; last round fails before logging` ends failed with `sn` in the catalogue.

The atomicity of one `StoreRepository.Add` assumed above is itself proved one level below, over
`Sop.StoreRepoLock` (one step per program point of `Add`: lock, read the list, check, write, cache, unlock), for
**any number** of concurrent callers and **every** interleaving of their steps (namespace `Sop.C12.Lock`):

* `add_race_locked` (= `Statement_add_race false`) — at most one caller per name is told it created the store; the
  store list entry, the store info file and the cache entry of that name are the ones of that caller; no name of the
  initial list and no created store is dropped from the list; the lock is held by exactly the caller inside the
  critical section;
* `add_race_exactly_one`, `add_race_list_exact` — when everybody has returned: a caller refused with "exists" for a
  name that was not there initially has exactly one winner; the list is the initial list plus the winners' names;
* `add_race_outside_counterexample` (= `¬ Statement_add_race true`) — with the read-and-check done before taking
  the lock the statement fails (two winners, the first winner's store info overwritten, a third party's store
  dropped from the list).
-/
namespace Sop.C12
open Sop.StoreRepo

/-! ## list facts -/

theorem mem_erase {d : List Store} {n : String} {st : Store} : st ∈ erase d n ↔ st ∈ d ∧ st.name ≠ n := by
  simp [erase]

theorem mem_eraseAll {ns : List String} : ∀ {d : List Store} {st : Store}, st ∈ eraseAll d ns ↔ st ∈ d ∧ st.name ∉ ns := by
  induction ns with
  | nil => intro d st; simp [eraseAll]
  | cons a as ih =>
    intro d st
    have : eraseAll d (a :: as) = eraseAll (erase d a) as := rfl
    rw [this, ih, mem_erase]
    simp only [List.mem_cons, not_or]
    constructor
    · rintro ⟨⟨h1, h2⟩, h3⟩; exact ⟨h1, h2, h3⟩
    · rintro ⟨h1, h2, h3⟩; exact ⟨⟨h1, h2⟩, h3⟩

theorem has_iff {d : List Store} {n : String} : has d n = true ↔ ∃ st ∈ d, st.name = n := by
  simp [has]

theorem has_false_iff {d : List Store} {n : String} : has d n = false ↔ ∀ st ∈ d, st.name ≠ n := by
  rw [← Bool.not_eq_true, has_iff]; simp

theorem lookup_none {d : List Store} {n : String} (h : has d n = false) : lookup d n = none := by
  rw [has_false_iff] at h
  simp only [lookup, List.find?_eq_none, decide_eq_true_eq]
  exact h

theorem lookup_some_mem {d : List Store} {n : String} {st : Store} (h : lookup d n = some st) : st ∈ d ∧ st.name = n := by
  have h1 := List.mem_of_find?_eq_some h
  have h2 := List.find?_some h
  exact ⟨h1, by simpa using h2⟩

theorem has_erase (d : List Store) (n : String) : has (erase d n) n = false := by
  rw [has_false_iff]; intro st h; exact (mem_erase.mp h).2

theorem lookup_append_new {d : List Store} {st : Store} (h : has d st.name = false) :
    lookup (d ++ [st]) st.name = some st := by
  rw [has_false_iff] at h
  simp only [lookup, List.find?_append]
  have : List.find? (fun s => decide (s.name = st.name)) d = none := by
    simp only [List.find?_eq_none, decide_eq_true_eq]; exact h
  simp [this]

theorem names_erase_sublist (d : List Store) (n : String) : (names (erase d n)).Sublist (names d) := by
  unfold names erase
  exact (List.filter_sublist).map _

theorem nodup_erase {d : List Store} (n : String) (h : (names d).Nodup) : (names (erase d n)).Nodup :=
  h.sublist (names_erase_sublist d n)

theorem nodup_eraseAll {ns : List String} : ∀ {d : List Store}, (names d).Nodup → (names (eraseAll d ns)).Nodup := by
  induction ns with
  | nil => intro d h; exact h
  | cons a as ih => intro d h; exact ih (nodup_erase a h)

theorem names_applyItems (d : List Store) (o : Opened) : names (applyItems d o) = names d := by
  unfold applyItems names
  split
  · rfl
  · rw [List.map_map]; apply List.map_congr_left; intro st _; simp only [Function.comp]; split <;> rfl

theorem names_applyCount (d : List Store) (o : Opened) : names (applyCount d o) = names d := by
  unfold applyCount names
  split
  · rfl
  · rw [List.map_map]; apply List.map_congr_left; intro st _; simp only [Function.comp]; split <;> rfl

theorem names_foldl_applyItems (os : List Opened) : ∀ d : List Store, names (os.foldl applyItems d) = names d := by
  induction os with
  | nil => intro d; rfl
  | cons o os ih => intro d; simp only [List.foldl_cons]; rw [ih, names_applyItems]

theorem names_foldl_applyCount (os : List Opened) : ∀ d : List Store, names (os.foldl applyCount d) = names d := by
  induction os with
  | nil => intro d; rfl
  | cons o os ih => intro d; simp only [List.foldl_cons]; rw [ih, names_applyCount]

theorem names_applyCounts (d : List Store) (os : List Opened) : names (applyCounts d os) = names d := by
  unfold applyCounts
  split
  · exact names_foldl_applyCount os d
  · rfl

/-! ## the catalogue never lists a name twice -/

theorem nodup_rollback {s : State} (t : Nat) (h : (names s.disk).Nodup) : (names (rollbackTxn s t).disk).Nodup := by
  simp only [rollbackTxn, setTxn]; exact nodup_eraseAll h

theorem nodup_lookup {s : State} (t n o) (h : (names s.disk).Nodup) : (names (newLookup s t n o).1.disk).Nodup := by
  unfold newLookup
  simp only
  split
  · exact h
  · split
    · split
      · split
        · exact h
        · simpa [setTxn] using h
      · exact nodup_rollback t h
    · simpa [setTxn] using h

theorem nodup_resume {s : State} (fixed t) (h : (names s.disk).Nodup) : (names (newResume fixed s t).1.disk).Nodup := by
  unfold newResume
  simp only
  by_cases h1 : (!live (s.txn t)) = true
  · rw [if_pos h1]; exact h
  · rw [if_neg h1]
    cases hp : (s.txn t).pending with
    | none => exact h
    | some no =>
      obtain ⟨n, o⟩ := no
      simp only
      by_cases hn : has s.disk n = true
      · rw [if_pos hn]
        apply nodup_rollback
        cases fixed
        · simpa using nodup_erase n h
        · simpa using h
      · rw [if_neg hn]
        simp only [setTxn, names, List.map_append, List.map_cons, List.map_nil]
        rw [List.nodup_append]
        refine ⟨h, by simp, ?_⟩
        intro a ha b hb
        simp only [List.mem_singleton] at hb
        rw [hb]
        have hn' : has s.disk n = false := by simpa using hn
        rw [has_false_iff] at hn'
        simp only [List.mem_map] at ha
        obtain ⟨st, hst, rfl⟩ := ha
        exact hn' st hst

theorem names_nodup_step (fixed : Bool) (s : State) (op : Op) (h : (names s.disk).Nodup) :
    (names (step fixed s op).1.disk).Nodup := by
  cases op with
  | begin t => simp only [step]; split <;> simpa [setTxn] using h
  | new t n o =>
    simp only [step, newBtree]
    split
    · exact nodup_resume _ _ (nodup_lookup _ _ _ h)
    · exact nodup_lookup _ _ _ h
  | lookupNew t n o => exact nodup_lookup _ _ _ h
  | resume t => exact nodup_resume _ _ h
  | open_ t n =>
    simp only [step, openBtree]
    split
    · exact h
    · split
      · exact h
      · split
        · simpa [setTxn] using h
        · exact nodup_rollback t h
  | add t n k v =>
    simp only [step, addItem]
    split
    · exact h
    · split
      · simpa [setTxn] using h
      · exact h
  | failNext t => simp only [step]; split <;> simpa [setTxn] using h
  | commit t =>
    simp only [step, commit]
    split
    · exact h
    · split
      · exact nodup_rollback t h
      · simp only [setTxn]; rw [names_applyCounts, names_foldl_applyItems]; exact h
  | rollback t => simp only [step]; split; exact nodup_rollback t h; exact h
  | remove n => simp only [step]; exact nodup_erase n h

/-! ## create_rollback -/

theorem mem_createdNames {os : List Opened} {o : Opened} (ho : o ∈ os) (hc : o.created = true) : o.name ∈ createdNames os := by
  simp only [createdNames, List.mem_map, List.mem_filter]
  exact ⟨o, ⟨ho, hc⟩, rfl⟩

/-- `Transaction.Rollback` removes every store the transaction created. -/
theorem rollback_removes_created (s : State) (t : Nat) (o : Opened) (ho : o ∈ (s.txn t).opened) (hc : o.created = true) :
    o.name ∉ names (rollbackTxn s t).disk := by
  simp only [rollbackTxn, setTxn, names, List.mem_map, not_exists, not_and]
  intro st hst hname
  have := (mem_eraseAll.mp hst).2
  rw [hname] at this
  exact this (mem_createdNames ho hc)

/-- the outcomes that mean "the transaction is over and failed" -/
def aborted (out : String) : Prop :=
  out = "err:commit" ∨ out = "err:exists" ∨ out = "err:incompatible" ∨ out = "err:missing"

theorem erase_rollback_removes (s : State) (t : Nat) (n : String) (o : Opened) (ho : o ∈ (s.txn t).opened) (hc : o.created = true) :
    o.name ∉ names (rollbackTxn { s with disk := erase s.disk n } t).disk :=
  rollback_removes_created { s with disk := erase s.disk n } t o ho hc

theorem lookup_aborted (s : State) (t n o') (o : Opened) (ho : o ∈ (s.txn t).opened) (hc : o.created = true)
    (hab : aborted (newLookup s t n o').2) : o.name ∉ names (newLookup s t n o').1.disk := by
  unfold newLookup at hab ⊢
  simp only at hab ⊢
  by_cases h1 : (!live (s.txn t) || (s.txn t).pending.isSome) = true
  · rw [if_pos h1] at hab; simp [aborted] at hab
  · rw [if_neg h1] at hab ⊢
    cases hl : lookup s.disk n with
    | none => rw [hl] at hab; simp [aborted] at hab
    | some st =>
      rw [hl] at hab
      simp only at hab ⊢
      by_cases h2 : o'.norm = st.opts
      · rw [if_pos h2] at hab; split at hab <;> simp [aborted] at hab
      · rw [if_neg h2]; exact rollback_removes_created s t o ho hc

theorem resume_aborted (fixed : Bool) (s : State) (t) (o : Opened) (ho : o ∈ (s.txn t).opened) (hc : o.created = true)
    (hab : aborted (newResume fixed s t).2) : o.name ∉ names (newResume fixed s t).1.disk := by
  unfold newResume at hab ⊢
  simp only at hab ⊢
  by_cases h1 : (!live (s.txn t)) = true
  · rw [if_pos h1] at hab; simp [aborted] at hab
  · rw [if_neg h1] at hab ⊢
    cases hp : (s.txn t).pending with
    | none => rw [hp] at hab; simp [aborted] at hab
    | some no =>
      obtain ⟨n, o'⟩ := no
      rw [hp] at hab
      simp only at hab ⊢
      by_cases hn : has s.disk n = true
      · rw [if_pos hn]
        cases fixed
        · exact erase_rollback_removes s t n o ho hc
        · exact rollback_removes_created s t o ho hc
      · rw [if_neg hn] at hab; simp [aborted] at hab

/-- **create_rollback.** A store created in transaction `t` (an entry of its `btreesBackend` with `created`) is not
in the catalogue after `t` is rolled back explicitly, after its `Commit` fails, or after one of its `NewBtree` /
`OpenBtree` calls fails — on the repaired and on the unrepaired tree. -/
theorem create_rollback (fixed : Bool) (s : State) (t : Nat) (o : Opened)
    (ho : o ∈ (s.txn t).opened) (hc : o.created = true) :
    (live (s.txn t) = true → (s.txn t).pending = none → o.name ∉ names (step fixed s (.rollback t)).1.disk) ∧
    (aborted (step fixed s (.commit t)).2 → o.name ∉ names (step fixed s (.commit t)).1.disk) ∧
    (∀ n, aborted (step fixed s (.open_ t n)).2 → o.name ∉ names (step fixed s (.open_ t n)).1.disk) ∧
    (∀ n o', aborted (step fixed s (.lookupNew t n o')).2 → o.name ∉ names (step fixed s (.lookupNew t n o')).1.disk) ∧
    (aborted (step fixed s (.resume t)).2 → o.name ∉ names (step fixed s (.resume t)).1.disk) := by
  refine ⟨?_, ?_, ?_, ?_, ?_⟩
  · intro hl hp
    simp only [step, hl, hp, Option.isSome_none, Bool.not_false, Bool.and_self, ↓reduceIte]
    exact rollback_removes_created s t o ho hc
  · intro hab
    simp only [step, commit] at hab ⊢
    by_cases h1 : (!live (s.txn t) || (s.txn t).pending.isSome) = true
    · rw [if_pos h1] at hab; simp [aborted] at hab
    · rw [if_neg h1] at hab ⊢
      by_cases h2 : ((s.txn t).failCommit && (s.txn t).opened.any (fun o => !o.adds.isEmpty)) = true
      · rw [if_pos h2]; exact rollback_removes_created s t o ho hc
      · rw [if_neg h2] at hab; simp [aborted] at hab
  · intro n hab
    simp only [step, openBtree] at hab ⊢
    by_cases h1 : (!live (s.txn t) || (s.txn t).pending.isSome) = true
    · rw [if_pos h1] at hab; simp [aborted] at hab
    · rw [if_neg h1] at hab ⊢
      by_cases h2 : ((s.txn t).opened.any fun x => decide (x.name = n)) = true
      · rw [if_pos h2] at hab; simp [aborted] at hab
      · rw [if_neg h2] at hab ⊢
        cases hl : lookup s.disk n with
        | none => exact rollback_removes_created s t o ho hc
        | some st => rw [hl] at hab; simp [aborted] at hab
  · intro n o' hab; exact lookup_aborted s t n o' o ho hc hab
  · intro hab; exact resume_aborted fixed s t o ho hc hab

/-! ## create_race -/

/-- the transaction an op belongs to (`RemoveBtree` belongs to none) -/
def actor : Op → Option Nat
  | .begin t | .new t _ _ | .lookupNew t _ _ | .resume t | .open_ t _ | .add t _ _ _ | .failNext t | .commit t | .rollback t => some t
  | .remove _ => none

/-- The winner `w` has created store `n` (root id `r`, options `o`) and nobody else carries `n` as "created by me". -/
def Won (w : Nat) (n : String) (r : Nat) (o : Opts) (s : State) : Prop :=
  (∃ st ∈ s.disk, st.name = n ∧ st.root = r ∧ st.opts = o) ∧ ∀ t', t' ≠ w → n ∉ createdNames (s.txn t').opened

theorem Won.has {w n r o s} (h : Won w n r o s) : has s.disk n = true := by
  obtain ⟨⟨st, hst, hn, _⟩, _⟩ := h
  exact has_iff.mpr ⟨st, hst, hn⟩

theorem won_rollback {w n r o s} (t : Nat) (ht : t ≠ w) (h : Won w n r o s) : Won w n r o (rollbackTxn s t) := by
  obtain ⟨⟨st, hst, hn, hr, ho⟩, hc⟩ := h
  refine ⟨⟨st, ?_, hn, hr, ho⟩, ?_⟩
  · simp only [rollbackTxn, setTxn]
    exact mem_eraseAll.mpr ⟨hst, by rw [hn]; exact hc t ht⟩
  · intro t' ht'
    simp only [rollbackTxn, setTxn]
    split
    · simp [createdNames]
    · exact hc t' ht'

theorem createdNames_append_opened (os : List Opened) (x : Opened) (hx : x.created = false) :
    createdNames (os ++ [x]) = createdNames os := by
  simp [createdNames, List.filter_append, hx]

theorem won_setTxn_same_created {w n r o s} (t : Nat) (x : Txn) (h : Won w n r o s)
    (hx : createdNames x.opened = createdNames (s.txn t).opened) : Won w n r o (setTxn s t x) := by
  obtain ⟨hst, hc⟩ := h
  refine ⟨hst, ?_⟩
  intro t' ht'
  simp only [setTxn]
  split
  · rename_i heq; rw [hx]; exact heq ▸ hc t' ht'
  · exact hc t' ht'

theorem won_lookup {w n r o s} (t m o') (ht : t ≠ w) (h : Won w n r o s) : Won w n r o (newLookup s t m o').1 := by
  unfold newLookup
  simp only
  split
  · exact h
  · split
    · split
      · split
        · exact h
        · exact won_setTxn_same_created t _ h (createdNames_append_opened _ _ rfl)
      · exact won_rollback t ht h
    · exact won_setTxn_same_created t _ h rfl

theorem won_resume {w n r o s} (t) (ht : t ≠ w) (h : Won w n r o s) : Won w n r o (newResume true s t).1 := by
  unfold newResume
  simp only
  split
  · exact h
  · split
    · exact h
    · rename_i m o' hp
      split
      · exact won_rollback t ht h
      · rename_i hm
        have hm' : has s.disk m = false := by simpa using hm
        have hmn : m ≠ n := by
          intro e; rw [e, h.has] at hm'; exact Bool.noConfusion hm'
        obtain ⟨⟨st, hst, hn, hr, ho⟩, hc⟩ := h
        refine ⟨⟨st, ?_, hn, hr, ho⟩, ?_⟩
        · simp [setTxn, hst]
        · intro t' ht'
          simp only [setTxn]
          split
          · rename_i heq
            have := hc t' ht'
            rw [heq] at this
            simp only [createdNames, List.filter_append, List.map_append, List.mem_append, not_or]
            refine ⟨this, ?_⟩
            simp [Ne.symm hmn]
          · exact hc t' ht'

theorem createdNames_addLast (os : List Opened) (n : String) (kv : Int × String) :
    createdNames (addLast os n kv) = createdNames os := by
  induction os with
  | nil => rfl
  | cons x xs ih =>
    simp only [addLast]
    split
    · simp only [createdNames, List.filter_cons] at ih ⊢
      split <;> simp [ih]
    · split
      · simp only [createdNames, List.filter_cons]
        cases x.created <;> simp
      · rfl

theorem won_applyItems {n r o} (d : List Store) (x : Opened)
    (h : ∃ st ∈ d, st.name = n ∧ st.root = r ∧ st.opts = o) : ∃ st ∈ applyItems d x, st.name = n ∧ st.root = r ∧ st.opts = o := by
  obtain ⟨st, hst, hn, hr, ho⟩ := h
  unfold applyItems
  split
  · exact ⟨st, hst, hn, hr, ho⟩
  · by_cases hx : st.name = x.name ∧ st.root = x.root
    · refine ⟨{ st with items := insertAll st.items x.adds }, ?_, hn, hr, ho⟩
      simp only [List.mem_map]
      exact ⟨st, hst, by simp [hx]⟩
    · refine ⟨st, ?_, hn, hr, ho⟩
      simp only [List.mem_map]
      exact ⟨st, hst, by simp [hx]⟩

theorem won_applyCount {n r o} (d : List Store) (x : Opened)
    (h : ∃ st ∈ d, st.name = n ∧ st.root = r ∧ st.opts = o) : ∃ st ∈ applyCount d x, st.name = n ∧ st.root = r ∧ st.opts = o := by
  obtain ⟨st, hst, hn, hr, ho⟩ := h
  unfold applyCount
  split
  · exact ⟨st, hst, hn, hr, ho⟩
  · by_cases hx : st.name = x.name
    · refine ⟨{ st with count := st.count + (x.adds.length : Int) }, ?_, hn, hr, ho⟩
      simp only [List.mem_map]
      exact ⟨st, hst, by simp [hx]⟩
    · refine ⟨st, ?_, hn, hr, ho⟩
      simp only [List.mem_map]
      exact ⟨st, hst, by simp [hx]⟩

theorem won_foldl_applyItems {n r o} (os : List Opened) : ∀ (d : List Store),
    (∃ st ∈ d, st.name = n ∧ st.root = r ∧ st.opts = o) → ∃ st ∈ os.foldl applyItems d, st.name = n ∧ st.root = r ∧ st.opts = o := by
  induction os with
  | nil => intro d h; exact h
  | cons x xs ih => intro d h; exact ih _ (won_applyItems d x h)

theorem won_foldl_applyCount {n r o} (os : List Opened) : ∀ (d : List Store),
    (∃ st ∈ d, st.name = n ∧ st.root = r ∧ st.opts = o) → ∃ st ∈ os.foldl applyCount d, st.name = n ∧ st.root = r ∧ st.opts = o := by
  induction os with
  | nil => intro d h; exact h
  | cons x xs ih => intro d h; exact ih _ (won_applyCount d x h)

theorem won_applyCounts {n r o} (d : List Store) (os : List Opened)
    (h : ∃ st ∈ d, st.name = n ∧ st.root = r ∧ st.opts = o) : ∃ st ∈ applyCounts d os, st.name = n ∧ st.root = r ∧ st.opts = o := by
  unfold applyCounts
  split
  · exact won_foldl_applyCount os d h
  · exact h

/-- One step of any other transaction (or a `RemoveBtree` of another name) keeps the winner's store. -/
theorem won_step {w n r o s} (op : Op) (hact : actor op ≠ some w) (hrm : op ≠ .remove n) (hnc : ∀ t, op ≠ .commit t)
    (h : Won w n r o s) :
    Won w n r o (step true s op).1 := by
  cases op with
  | begin t =>
    simp only [step]; split
    · exact h
    · rename_i hb
      have : (s.txn t).opened = [] ∨ True := Or.inr trivial
      refine ⟨h.1, ?_⟩
      intro t' ht'
      simp only [setTxn]
      split
      · simp [createdNames]
      · exact h.2 t' ht'
  | new t m o' =>
    have ht : t ≠ w := by intro e; exact hact (by simp [actor, e])
    simp only [step, newBtree]
    split
    · exact won_resume t ht (won_lookup t m o' ht h)
    · exact won_lookup t m o' ht h
  | lookupNew t m o' =>
    have ht : t ≠ w := by intro e; exact hact (by simp [actor, e])
    exact won_lookup t m o' ht h
  | resume t =>
    have ht : t ≠ w := by intro e; exact hact (by simp [actor, e])
    exact won_resume t ht h
  | open_ t m =>
    have ht : t ≠ w := by intro e; exact hact (by simp [actor, e])
    simp only [step, openBtree]
    split
    · exact h
    · split
      · exact h
      · split
        · exact won_setTxn_same_created t _ h (createdNames_append_opened _ _ rfl)
        · exact won_rollback t ht h
  | add t m k v =>
    simp only [step, addItem]
    split
    · exact h
    · split
      · exact won_setTxn_same_created t _ h (createdNames_addLast _ _ _)
      · exact h
  | failNext t =>
    simp only [step]; split
    · exact won_setTxn_same_created t _ h rfl
    · exact h
  | commit t => exact absurd rfl (hnc t)
  | rollback t =>
    have ht : t ≠ w := by intro e; exact hact (by simp [actor, e])
    simp only [step]; split
    · exact won_rollback t ht h
    · exact h
  | remove m =>
    have hmn : m ≠ n := by intro e; exact hrm (by rw [e])
    obtain ⟨⟨st, hst, hn, hr, ho⟩, hc⟩ := h
    refine ⟨⟨st, ?_, hn, hr, ho⟩, hc⟩
    simp only [step]
    exact mem_erase.mpr ⟨hst, by rw [hn]; exact Ne.symm hmn⟩

/-- **create_race.** After the winner `w` created store `n`, every sequence of steps of other transactions — any
number of `NewBtree(n)` lookups and `Add`s in any interleaving, with their failure paths, opens, item adds, rollbacks —
and `RemoveBtree`s of other names leaves a store named `n` with the winner's root id and options in the catalogue;
with `names_nodup_step` it is the only one of that name. Successful commits of *other* transactions are left out of
the quantifier on purpose: what a commit does to a store that was re-created under the committing transaction is not
something the model has been validated on (see props/C12.json). A failed commit is a rollback and is covered by
`won_rollback`. -/
theorem create_race {w n r o} (ops : List Op) : ∀ (s : State), Won w n r o s →
    (∀ op ∈ ops, actor op ≠ some w ∧ op ≠ .remove n ∧ ∀ t, op ≠ .commit t) → Won w n r o (run true s ops) := by
  induction ops with
  | nil => intro s h _; exact h
  | cons op ops ih =>
    intro s h hops
    simp only [run]
    apply ih
    · exact won_step op (hops op (by simp)).1 (hops op (by simp)).2.1 (hops op (by simp)).2.2 h
    · intro op' hop'; exact hops op' (by simp [hop'])

/-- The first `Add` to run creates the store of its own transaction (root id = the fresh id, options = the ones it
asked for, empty), and establishes `Won` when no other transaction carries a stale "created `n`" entry. -/
theorem create_race_first_add_wins (fixed : Bool) (s : State) (w : Nat) (n : String) (o : Opts)
    (hl : live (s.txn w) = true) (hp : (s.txn w).pending = some (n, o)) (hn : has s.disk n = false)
    (hstale : ∀ t', t' ≠ w → n ∉ createdNames (s.txn t').opened) :
    (newResume fixed s w).2 = "created" ∧
    lookup (newResume fixed s w).1.disk n = some { name := n, root := s.next, opts := o.norm, count := 0, items := [] } ∧
    Won w n s.next o.norm (newResume fixed s w).1 := by
  have e : newResume fixed s w =
      (setTxn { s with disk := s.disk ++ [{ name := n, root := s.next, opts := o.norm, count := 0, items := [] }], next := s.next + 1 } w
        { s.txn w with pending := none, opened := (s.txn w).opened ++ [{ name := n, root := s.next, created := true, adds := [] }] }, "created") := by
    unfold newResume
    simp only [hl, hp, hn, Bool.not_true, Bool.false_eq_true, ↓reduceIte]
  rw [e]
  refine ⟨rfl, ?_, ?_⟩
  · simp only [setTxn]
    exact lookup_append_new (st := { name := n, root := s.next, opts := o.norm, count := 0, items := [] }) hn
  · refine ⟨⟨{ name := n, root := s.next, opts := o.norm, count := 0, items := [] }, ?_, rfl, rfl, rfl⟩, ?_⟩
    · simp [setTxn]
    · intro t' ht'
      simp only [setTxn, ht', ↓reduceIte]
      exact hstale t' ht'

/-- The unrepaired `NewBtree`: transactions 1 and 2 both look `sa` up before either adds it; 1 adds it (and wins),
2's `Add` is refused and its cleanup removes the store by name: the catalogue is empty although 1 can still commit. -/
def raceOps : List Op :=
  [.begin 1, .begin 2, .lookupNew 1 "sa" ⟨4, true⟩, .lookupNew 2 "sa" ⟨4, true⟩, .resume 1, .resume 2]

theorem create_race_legacy_counterexample :
    names (run false {} raceOps).disk = [] ∧ (step false (run false {} raceOps) (.commit 1)).2 = "ok" := by
  decide

/-- the same schedule on the repaired tree keeps the winner's store -/
theorem create_race_fixed_witness : names (run true {} raceOps).disk = ["sa"] := by
  decide

/-! ## remove_complete -/

/-- **remove_complete.** `RemoveBtree(n)` then `NewBtree(n, o')` by a live transaction: the call reports a creation,
and the catalogue's store `n` is a fresh one — new root id, the requested (normalised) options, no items, count 0 —
whatever store `n` was before and whatever it held. -/
theorem remove_complete (fixed : Bool) (s : State) (t : Nat) (n : String) (o' : Opts)
    (hl : live (s.txn t) = true) (hp : (s.txn t).pending = none) :
    let s1 := (step fixed s (.remove n)).1
    let r := step fixed s1 (.new t n o')
    r.2 = "created" ∧
    lookup r.1.disk n = some { name := n, root := s.next, opts := o'.norm, count := 0, items := [] } := by
  intro s1 r
  have hs1 : s1 = { s with disk := erase s.disk n } := rfl
  have hno : has s1.disk n = false := by rw [hs1]; exact has_erase s.disk n
  have hlk : newLookup s1 t n o' = (setTxn s1 t { s1.txn t with pending := some (n, o') }, "parked") := by
    unfold newLookup
    have : s1.txn t = s.txn t := rfl
    simp only [this, hl, hp, Option.isSome_none, Bool.not_true, Bool.or_self, Bool.false_eq_true, ↓reduceIte, lookup_none hno]
  have hr : r = newResume fixed (setTxn s1 t { s1.txn t with pending := some (n, o') }) t := by
    show newBtree fixed s1 t n o' = _
    unfold newBtree
    simp only [hlk, ↓reduceIte]
  have hw := create_race_first_add_wins fixed (setTxn s1 t { s1.txn t with pending := some (n, o') }) t n o'
    (by simp only [setTxn, ↓reduceIte]; exact hl) (by simp [setTxn]) (by simpa [setTxn] using hno)
  rw [hr]
  by_cases hst : ∀ t', t' ≠ t → n ∉ createdNames ((setTxn s1 t { s1.txn t with pending := some (n, o') }).txn t').opened
  · exact ⟨(hw hst).1, (hw hst).2.1⟩
  · -- the stale-entry hypothesis is only needed for `Won`; redo the two facts directly
    have e : newResume fixed (setTxn s1 t { s1.txn t with pending := some (n, o') }) t =
        (setTxn { (setTxn s1 t { s1.txn t with pending := some (n, o') }) with
            disk := s1.disk ++ [{ name := n, root := s.next, opts := o'.norm, count := 0, items := [] }], next := s.next + 1 } t
          { (s1.txn t) with pending := none, opened := (s1.txn t).opened ++ [{ name := n, root := s.next, created := true, adds := [] }] }, "created") := by
      unfold newResume
      have h1 : (setTxn s1 t { s1.txn t with pending := some (n, o') }).txn t = { s1.txn t with pending := some (n, o') } := by
        simp [setTxn]
      have h2 : live ({ s1.txn t with pending := some (n, o') } : Txn) = true := hl
      have h3 : has (setTxn s1 t { s1.txn t with pending := some (n, o') }).disk n = false := hno
      simp only [h1, h2, h3, Bool.not_true, Bool.false_eq_true, ↓reduceIte]
      rfl
    rw [e]
    refine ⟨rfl, ?_⟩
    simp only [setTxn]
    exact lookup_append_new (st := { name := n, root := s.next, opts := o'.norm, count := 0, items := [] }) hno

/-- the hypotheses of `create_race` are satisfiable by a non-trivial run: the fixed-tree race above -/
example : Won 1 "sa" 1 ⟨4, true⟩ (run true {} [.begin 1, .begin 2, .lookupNew 1 "sa" ⟨4, true⟩, .lookupNew 2 "sa" ⟨4, true⟩, .resume 1]) := by
  refine ⟨⟨{ name := "sa", root := 1, opts := ⟨4, true⟩, count := 0, items := [] }, by decide, rfl, rfl, rfl⟩, ?_⟩
  intro t' _
  by_cases h2 : t' = 2
  · subst h2; decide
  · by_cases h1 : t' = 1
    · subst h1; contradiction
    · simp [run, step, newLookup, newResume, setTxn, live, lookup, has, createdNames, h1, h2]

end Sop.C12

/-! ## Lock level: concurrent `StoreRepository.Add` calls -/
namespace Sop.C12.Lock
open Sop.StoreRepoLock

/-- Full-strength statement about concurrent creators, for either order of `Add`'s steps (`outside = false`: the
code's order, check and write under the lock). -/
def Statement_add_race (outside : Bool) : Prop :=
  ∀ (s0 : State) (sched : List Nat), Start s0 →
    let s := run outside s0 sched
    -- at most one caller per name is told it created the store
    (∀ i j, told (s.actor i) → told (s.actor j) → (s.actor i).name = (s.actor j).name → i = j) ∧
    -- the catalogue describes the store of the caller that was told so: list, store info file, cache entry
    (∀ i, told (s.actor i) → (s.actor i).name ∈ s.list ∧ s.info (s.actor i).name = some (s.actor i).inf ∧
      s.cache (s.actor i).name = some (s.actor i).inf) ∧
    -- no store that was there is dropped
    (∀ n, n ∈ s0.list → n ∈ s.list) ∧
    -- mutual exclusion
    (∀ i, s.lock = some i ↔ inCS (s.actor i).pc = true)

theorem add_race_locked : Statement_add_race false := by
  intro s0 sched h0
  have h := inv_run sched (inv_start h0)
  refine ⟨?_, ?_, ?_, h.hold⟩
  · intro i j hi hj hn
    exact h.uniq i j (Or.inr (Or.inr hi)) (Or.inr (Or.inr hj)) hn
  · intro i hi
    have := h.own i (Or.inr (Or.inr hi))
    exact ⟨this.1, this.2.1, this.2.2 (by rw [hi.1]; simp)⟩
  · intro n hn
    exact (h.src n).mpr (Or.inl hn)

/-- When every caller has returned, the store list is exactly the initial list plus the names of the callers that
were told they created a store. -/
theorem add_race_list_exact (s0 : State) (sched : List Nat) (h0 : Start s0)
    (hdone : ∀ k, ((run false s0 sched).actor k).pc = .done) (n : String) :
    n ∈ (run false s0 sched).list ↔ n ∈ s0.list ∨ ∃ i, told ((run false s0 sched).actor i) ∧ ((run false s0 sched).actor i).name = n := by
  have h := inv_run sched (inv_start h0)
  rw [h.src n]
  constructor
  · rintro (hb | ⟨i, ho, hn⟩)
    · exact Or.inl hb
    · rcases ho with ho | ho | ho
      · rw [hdone i] at ho; cases ho
      · rw [hdone i] at ho; cases ho
      · exact Or.inr ⟨i, ho, hn⟩
  · rintro (hb | ⟨i, ht, hn⟩)
    · exact Or.inl hb
    · exact Or.inr ⟨i, Or.inr (Or.inr ht), hn⟩

/-- When every caller has returned: a caller that was refused because the name exists, for a name that was not in
the initial list, has exactly one winner. -/
theorem add_race_exactly_one (s0 : State) (sched : List Nat) (h0 : Start s0)
    (hdone : ∀ k, ((run false s0 sched).actor k).pc = .done) (i : Nat)
    (hres : ((run false s0 sched).actor i).res = .exists_) (hnew : ((run false s0 sched).actor i).name ∉ s0.list) :
    ∃ j, (told ((run false s0 sched).actor j) ∧ ((run false s0 sched).actor j).name = ((run false s0 sched).actor i).name) ∧
      ∀ j', told ((run false s0 sched).actor j') ∧ ((run false s0 sched).actor j').name = ((run false s0 sched).actor i).name → j' = j := by
  have h := inv_run sched (inv_start h0)
  have hin := h.refused i (Or.inr ⟨hdone i, hres⟩)
  rcases (add_race_list_exact s0 sched h0 hdone _).mp hin with hb | ⟨j, ht, hn⟩
  · exact absurd hb hnew
  · refine ⟨j, ⟨ht, hn⟩, ?_⟩
    rintro j' ⟨ht', hn'⟩
    exact h.uniq j' j (Or.inr (Or.inr ht')) (Or.inr (Or.inr ht)) (hn'.trans hn.symm)

/-! the check-outside-the-lock order: creator 1 reads the list and passes the check, a third party (3) adds `sb`,
creator 2 adds `sa`, creator 1 takes the lock and writes from its stale snapshot -/

def raceStart : State :=
  { list := ["so"],
    actor := fun i =>
      if i = 1 then { kind := .add, name := "sa", inf := ⟨1, 4, true⟩, pc := .init }
      else if i = 2 then { kind := .add, name := "sa", inf := ⟨2, 8, false⟩, pc := .init }
      else if i = 3 then { kind := .add, name := "sb", inf := ⟨3, 8, false⟩, pc := .init }
      else {} }

def raceSched : List Nat := [1, 1, 1] ++ List.replicate 7 3 ++ List.replicate 7 2 ++ List.replicate 4 1

theorem raceStart_start : Start raceStart := by
  refine ⟨rfl, fun i => ?_⟩
  by_cases h1 : i = 1
  · subst h1; exact ⟨rfl, Or.inl rfl⟩
  · by_cases h2 : i = 2
    · subst h2; exact ⟨rfl, Or.inl rfl⟩
    · by_cases h3 : i = 3
      · subst h3; exact ⟨rfl, Or.inl rfl⟩
      · simp [raceStart, h1, h2, h3]

/-- what the stale snapshot does: both creators of `sa` are told they created it, the store info file and the cache
entry are creator 1's although creator 2 was told first, and the third party's `sb` is gone from the list -/
theorem add_race_outside_witness :
    let s := run true raceStart raceSched
    ((s.actor 1).pc = .done ∧ (s.actor 1).res = .created) ∧ ((s.actor 2).pc = .done ∧ (s.actor 2).res = .created) ∧
    ((s.actor 3).pc = .done ∧ (s.actor 3).res = .created) ∧
    s.info "sa" = some ⟨1, 4, true⟩ ∧ s.cache "sa" = some ⟨1, 4, true⟩ ∧ s.list = ["so", "sa"] := by
  decide +kernel

/-- the corresponding schedule on the code's order (creator 1 parked right before `DualLock`, the third party and
creator 2 run, creator 1 goes on): creator 1 is refused, nothing is lost -/
theorem add_race_locked_witness :
    let s := run false raceStart ([1] ++ List.replicate 7 3 ++ List.replicate 7 2 ++ List.replicate 4 1)
    ((s.actor 1).pc = .done ∧ (s.actor 1).res = .exists_) ∧
    ((s.actor 2).pc = .done ∧ (s.actor 2).res = .created) ∧ ((s.actor 3).pc = .done ∧ (s.actor 3).res = .created) ∧
    s.info "sa" = some ⟨2, 8, false⟩ ∧ s.cache "sa" = some ⟨2, 8, false⟩ ∧ s.list = ["so", "sb", "sa"] := by
  decide +kernel

theorem add_race_outside_counterexample : ¬ Statement_add_race true := by
  intro h
  have hw := add_race_outside_witness
  have := (h raceStart raceSched raceStart_start).1 1 2 hw.1 hw.2.1 (by decide +kernel)
  exact absurd this (by decide)

end Sop.C12.Lock

/-! ## Commit rounds: a transaction that created a store and does not commit leaves none -/
namespace Sop.C12.Commit
open Sop.StoreRepo (Store Opened Opts has erase eraseAll names createdNames lookup applyCounts applyItems addLast insertSorted)
open Sop.StoreRepoCommit

/-- `N` = the names `T` may create. The other transactions create no store of such a name and do not `RemoveBtree`
one (both are destructive on a name in use, see the assumptions of `create_race`). -/
def Calm (N : List String) : Op → Prop
  | .new n _ => n ∈ N
  | .newLog n _ _ => n ∈ N
  | .newAdd n _ _ => n ∈ N
  | .otherNew n _ => n ∉ N
  | .otherRemove n => n ∉ N
  | _ => True

structure CInv (N : List String) (s : StoreRepoCommit.State) : Prop where
  sub : ∀ n ∈ created s, n ∈ N
  idle : s.phase = .idle → created s = []
  live : s.phase = .live → (created s ≠ [] → s.logged = true) ∧ ∀ n ∈ created s, has s.disk n = true
  retry : s.phase = .retry → ∀ n ∈ created s, has s.disk n = false
  failed : s.phase = .failed → ∀ n ∈ created s, has s.disk n = false
  committed : s.phase = .committed → ∀ n ∈ created s, has s.disk n = true

theorem has_eraseAll_mem {d : List Store} {ns : List String} {n : String} (h : n ∈ ns) : has (eraseAll d ns) n = false := by
  rw [Sop.C12.has_false_iff]
  intro st hst
  have := (Sop.C12.mem_eraseAll.mp hst).2
  intro e; exact this (e ▸ h)

theorem has_of_names {d d' : List Store} (h : names d' = names d) (n : String) : has d' n = has d n := by
  have e : ∀ d : List Store, has d n = (names d).any (fun m => decide (m = n)) := by
    intro d; simp [has, names, List.any_map, Function.comp_def]
  rw [e, e, h]

theorem removeCreated_gone {s : StoreRepoCommit.State}
    (h : (created s ≠ [] → s.logged = true) ∨ ∀ n ∈ created s, has s.disk n = false) :
    ∀ n ∈ created s, has (removeCreated s) n = false := by
  intro n hn
  unfold removeCreated
  split
  · exact has_eraseAll_mem hn
  · rename_i hl
    rcases h with h | h
    · exact absurd (h (List.ne_nil_of_mem hn)) hl
    · exact h n hn

theorem created_finalRollback (s : StoreRepoCommit.State) : created (finalRollback s) = created s := rfl

theorem cinv_final {N : List String} {s : StoreRepoCommit.State} (hsub : ∀ n ∈ created s, n ∈ N)
    (h : (created s ≠ [] → s.logged = true) ∨ ∀ n ∈ created s, has s.disk n = false) : CInv N (finalRollback s) :=
  ⟨hsub, fun hp => (by cases hp), fun hp => (by cases hp), fun hp => (by cases hp), fun _ => (show ∀ n ∈ created s, has (removeCreated s) n = false from removeCreated_gone h), fun hp => (by cases hp)⟩

theorem has_append_other {d : List Store} {st : Store} {n : String} (hne : st.name ≠ n) : has (d ++ [st]) n = has d n := by
  simp [has, hne]

theorem has_erase_other {d : List Store} {m n : String} (hne : m ≠ n) : has (erase d m) n = has d n := by
  cases hd : has d n with
  | false =>
    rw [Sop.C12.has_false_iff] at hd ⊢
    intro st hst; exact hd st (Sop.C12.mem_erase.mp hst).1
  | true =>
    rw [Sop.C12.has_iff] at hd ⊢
    obtain ⟨st, hst, hn⟩ := hd
    exact ⟨st, Sop.C12.mem_erase.mpr ⟨hst, fun e => hne (e ▸ hn.symm ▸ rfl)⟩, hn⟩

/-- an environment step that leaves `has · n` alone for every created name keeps the invariant -/
theorem cinv_env {N : List String} {s : StoreRepoCommit.State} (h : CInv N s) (d' : List Store) (nx : Nat)
    (hd : ∀ n ∈ created s, has d' n = has s.disk n) : CInv N { s with disk := d', next := nx } := by
  refine ⟨h.sub, h.idle, fun hp => ⟨(h.live hp).1, fun n hn => ?_⟩, fun hp n hn => ?_, fun hp n hn => ?_, fun hp n hn => ?_⟩
  · exact (hd n hn).trans ((h.live hp).2 n hn)
  · exact (hd n hn).trans (h.retry hp n hn)
  · exact (hd n hn).trans (h.failed hp n hn)
  · exact (hd n hn).trans (h.committed hp n hn)

/-- a step of `T` that changes neither the catalogue nor the set of created names, the phase or the log state -/
theorem cinv_congr {N : List String} {s s' : StoreRepoCommit.State} (h : CInv N s) (hd : s'.disk = s.disk)
    (hc : created s' = created s) (hp : s'.phase = s.phase) (hl : s.logged = true → s'.logged = true) : CInv N s' := by
  refine ⟨?_, ?_, ?_, ?_, ?_, ?_⟩
  · rw [hc]; exact h.sub
  · rw [hc, hp]; exact h.idle
  · rw [hc, hp, hd]; exact fun hp' => ⟨fun hne => hl ((h.live hp').1 hne), (h.live hp').2⟩
  · rw [hc, hp, hd]; exact h.retry
  · rw [hc, hp, hd]; exact h.failed
  · rw [hc, hp, hd]; exact h.committed

theorem has_append_mono {d : List Store} {st : Store} {n : String} (h : has d n = true) : has (d ++ [st]) n = true := by
  simp [has] at h ⊢; exact Or.inl h

theorem has_append_self (d : List Store) (st : Store) : has (d ++ [st]) st.name = true := by
  simp [has]

theorem created_append_created (os : List Opened) (n : String) (r : Nat) :
    createdNames (os ++ [{ name := n, root := r, created := true, adds := [] }]) = createdNames os ++ [n] := by
  simp [createdNames, List.filter_append]

theorem cinv_step {N : List String} {s : StoreRepoCommit.State} (h : CInv N s) (op : StoreRepoCommit.Op) (hc : Calm N op)
    (hpend : s.pendingLog.isSome = true → s.logged = true) :
    CInv N (step {} s op).1 := by
  cases op with
  | begin =>
    simp only [step]; split
    · rename_i hp
      have hc0 := h.idle hp
      refine ⟨h.sub, fun hp' => (by cases hp'), fun _ => ⟨fun hne => absurd hc0 hne, ?_⟩, fun hp' => (by cases hp'),
        fun hp' => (by cases hp'), fun hp' => (by cases hp')⟩
      intro n hn; simp only [created] at hn hc0; rw [hc0] at hn; cases hn
    · exact h
  | new n o =>
    simp only [step]; split
    · exact h
    · rename_i hp
      have hp : s.phase = .live := Classical.byContradiction fun hne => hp (Or.inl hne)
      split
      · split
        · split
          · exact h
          · exact cinv_congr h rfl (Sop.C12.createdNames_append_opened _ _ rfl) rfl id
        · exact cinv_final h.sub (Or.inl (h.live hp).1)
      · have hcr := created_append_created s.opened n s.next
        refine ⟨?_, ?_, ?_, ?_, ?_, ?_⟩
        · intro m hm; simp only [created] at hm; rw [hcr] at hm
          rcases List.mem_append.mp hm with hm | hm
          · exact h.sub m hm
          · rw [List.mem_singleton.mp hm]; exact hc
        · intro hp'; rw [hp] at hp'; cases hp'
        · intro _
          refine ⟨fun _ => rfl, ?_⟩
          intro m hm; simp only [created] at hm; rw [hcr] at hm
          rcases List.mem_append.mp hm with hm | hm
          · exact has_append_mono ((h.live hp).2 m hm)
          · rw [List.mem_singleton.mp hm]; exact has_append_self _ _
        · intro hp'; rw [hp] at hp'; cases hp'
        · intro hp'; rw [hp] at hp'; cases hp'
        · intro hp'; rw [hp] at hp'; cases hp'
  | open_ n =>
    simp only [step]; split
    · exact h
    · rename_i hp
      have hp : s.phase = .live := Classical.byContradiction fun hne => hp (Or.inl hne)
      split
      · exact h
      · split
        · exact cinv_congr h rfl (Sop.C12.createdNames_append_opened _ _ rfl) rfl id
        · exact cinv_final h.sub (Or.inl (h.live hp).1)
  | add n k v =>
    simp only [step]; split
    · exact cinv_congr h rfl (Sop.C12.createdNames_addLast _ _ _) rfl id
    · exact h
  | conflict =>
    simp only [step]; split
    · refine ⟨h.sub, fun hp' => (by cases hp'), fun hp' => (by cases hp'), fun _ n hn => ?_, fun hp' => (by cases hp'), fun hp' => (by cases hp')⟩
      show has (removeCreated { s with logged := true }) n = false
      exact removeCreated_gone (s := { s with logged := true }) (Or.inl fun _ => rfl) n hn
    · exact h
  | finish ok relogged =>
    simp only [step]; split
    · rename_i hph
      split
      · rename_i hr
        exact cinv_final h.sub (Or.inr (h.retry hr.1))
      · rename_i hr
        split
        · -- success
          have hnames : names (applyCounts (s.opened.foldl applyItems s.disk) s.opened) = names s.disk := by
            rw [Sop.C12.names_applyCounts, Sop.C12.names_foldl_applyItems]
          refine ⟨h.sub, fun hp' => (by cases hp'), fun hp' => (by cases hp'), fun hp' => (by cases hp'), fun hp' => (by cases hp'), fun _ n hn => ?_⟩
          show has (applyCounts (s.opened.foldl applyItems s.disk) s.opened) n = true
          rw [has_of_names hnames]
          rcases hph.1 with hl | hrt
          · exact (h.live hl).2 n hn
          · have : ¬ ((created s).any fun n => !has s.disk n) = true := fun e => hr ⟨hrt, e⟩
            simp only [List.any_eq_true, Bool.not_eq_true', not_exists, not_and, Bool.not_eq_false] at this
            exact this n hn
        · refine cinv_final (s := { s with logged := s.logged || relogged }) h.sub ?_
          rcases hph.1 with hl | hrt
          · exact Or.inl fun hne => by simp [(h.live hl).1 hne]
          · exact Or.inr (h.retry hrt)
    · exact h
  | rollback =>
    simp only [step]; split
    · rename_i hp; exact cinv_final h.sub (Or.inl (h.live hp.1).1)
    · exact h
  | newLog n o f =>
    simp only [step]; split
    · exact h
    · rename_i hp
      have hp : s.phase = .live := Classical.byContradiction fun hne => hp hne
      simp only [Bool.false_eq_true, if_false]
      split
      · exact h
      · cases f with
        | none => exact cinv_congr h rfl rfl rfl (fun _ => rfl)
        | before => exact cinv_final (s := { s with logged := true }) h.sub (Or.inl fun _ => rfl)
        | after => exact cinv_final (s := { s with logged := true, tlog := s.tlog ++ [n] }) h.sub (Or.inl fun _ => rfl)
  | newAdd n o f =>
    simp only [step]; split
    · exact h
    · rename_i hp
      have hp : s.phase = .live := Classical.byContradiction fun hne => hp hne
      simp only [Bool.false_eq_true, if_false]
      split
      · rename_i n' o' hpl
        split
        · exact h
        · rename_i hg
          have hnot : has s.disk n = false := by
            cases hh : has s.disk n with
            | false => rfl
            | true => exact absurd (Or.inr hh) hg
          have hlog : s.logged = true := hpend (by rw [hpl]; rfl)
          cases f with
          | none =>
            have hcr := created_append_created s.opened n s.next
            refine ⟨?_, ?_, ?_, ?_, ?_, ?_⟩
            · intro m hm; simp only [created, register] at hm; rw [hcr] at hm
              rcases List.mem_append.mp hm with hm | hm
              · exact h.sub m hm
              · rw [List.mem_singleton.mp hm]; exact hc
            · intro hp'; simp only [register] at hp'; rw [hp] at hp'; cases hp'
            · intro _
              refine ⟨fun _ => hlog, ?_⟩
              intro m hm; simp only [created, register] at hm; rw [hcr] at hm
              rcases List.mem_append.mp hm with hm | hm
              · exact has_append_mono ((h.live hp).2 m hm)
              · rw [List.mem_singleton.mp hm]; exact has_append_self s.disk (newStore s n o)
            · intro hp'; simp only [register] at hp'; rw [hp] at hp'; cases hp'
            · intro hp'; simp only [register] at hp'; rw [hp] at hp'; cases hp'
            · intro hp'; simp only [register] at hp'; rw [hp] at hp'; cases hp'
          | before =>
            have : addFailed s n s.next = finalRollback s := by
              simp only [addFailed, Sop.C12.lookup_none hnot]
            rw [this]; exact cinv_final h.sub (Or.inl (h.live hp).1)
          | after =>
            unfold addFailed
            exact cinv_final (s := { s with disk := _, next := s.next + 1, everAdded := s.everAdded ++ [n] }) h.sub (Or.inl (h.live hp).1)
      · exact h
  | crash =>
    simp only [step]; split
    · exact ⟨fun _ hn => (by cases hn), fun hp' => (by cases hp'), fun hp' => (by cases hp'), fun hp' => (by cases hp'),
        fun hp' => (by cases hp'), fun hp' => (by cases hp')⟩
    · exact h
  | recover =>
    simp only [step]; split
    · rename_i hp
      exact ⟨h.sub, fun hp' => (by cases hp'), fun hp' => (by cases hp'), fun hp' => (by cases hp'),
        fun hp' => (by cases hp'), fun hp' => (by cases hp')⟩
    · exact h
  | otherAdd n k v =>
    simp only [step]
    refine cinv_env h _ s.next fun m _ => has_of_names ?_ m
    simp only [names, List.map_map]
    apply List.map_congr_left
    intro st _; simp only [Function.comp]; split <;> rfl
  | otherNew m o =>
    simp only [step]; split
    · exact h
    · exact cinv_env h _ _ fun n hn => has_append_other (fun e => hc (by rw [show m = n from e]; exact h.sub n hn))
  | otherRemove m =>
    simp only [step]
    exact cinv_env h _ s.next fun n hn => has_erase_other (fun e => hc (by rw [e]; exact h.sub n hn))

/-! ### what is durable: the `createStore` record precedes the store -/

/-- Facts about the names `T`'s `Add` was ever performed for (`everAdded`, a ghost field). `durable` is the point of
writing the `createStore` record BEFORE `StoreRepository.Add`: while `T` runs, a store it added that is on disk has
its record in the transaction log, so that a recovery which knows nothing but the log can remove it. -/
structure DInv (N : List String) (s : StoreRepoCommit.State) : Prop where
  esub : ∀ n ∈ s.everAdded, n ∈ N
  idle : s.phase = .idle → s.everAdded = []
  noPA : s.pendingAdd = none
  tracked : (s.phase = .live ∨ s.phase = .retry) → ∀ n ∈ s.everAdded, n ∈ created s ∨ has s.disk n = false
  durable : (s.phase = .live ∨ s.phase = .retry ∨ s.phase = .crashed) → ∀ n ∈ s.everAdded, has s.disk n = true → n ∈ s.tlog
  pend : ∀ n o, s.pendingLog = some (n, o) → n ∈ s.tlog ∧ s.logged = true ∧ s.phase = .live
  gone : (s.phase = .failed ∨ s.phase = .recovered) → ∀ n ∈ s.everAdded, has s.disk n = false

theorem has_erase_false {d : List Store} {m n : String} (h : has d n = false) : has (erase d m) n = false := by
  rw [Sop.C12.has_false_iff] at h ⊢
  intro st hst; exact h st (Sop.C12.mem_erase.mp hst).1

theorem has_erase_self (d : List Store) (n : String) : has (erase d n) n = false := Sop.C12.has_erase d n

theorem has_eraseAll_false {d : List Store} {ns : List String} {n : String} (h : has d n = false) : has (eraseAll d ns) n = false := by
  rw [Sop.C12.has_false_iff] at h ⊢
  intro st hst; exact h st (Sop.C12.mem_eraseAll.mp hst).1

theorem has_removeCreated_false {s : StoreRepoCommit.State} {n : String} (h : has s.disk n = false) : has (removeCreated s) n = false := by
  unfold removeCreated; split
  · exact has_eraseAll_false h
  · exact h

theorem has_append_false {d : List Store} {st : Store} {n : String} (h : has d n = false) (hne : st.name ≠ n) : has (d ++ [st]) n = false := by
  rw [has_append_other hne]; exact h

/-- the live rollback of a state in which every ever-added name is tracked or gone -/
theorem dinv_final {N : List String} {s : StoreRepoCommit.State} (hes : ∀ n ∈ s.everAdded, n ∈ N)
    (ht : ∀ n ∈ s.everAdded, n ∈ created s ∨ has s.disk n = false)
    (h : (created s ≠ [] → s.logged = true) ∨ ∀ n ∈ created s, has s.disk n = false) : DInv N (finalRollback s) := by
  refine ⟨hes, fun hp => (by cases hp), rfl, fun hp => (by rcases hp with hp | hp <;> cases hp),
    fun hp => (by rcases hp with hp | hp | hp <;> cases hp), fun _ _ hp => (by cases hp), fun _ n hn => ?_⟩
  show has (removeCreated s) n = false
  rcases ht n hn with hcr | hf
  · exact removeCreated_gone h n hcr
  · exact has_removeCreated_false hf

/-- a step that changes neither disk, log, ever-added names nor the phase, keeps the created names and the pending
record -/
theorem dinv_congr {N : List String} {s s' : StoreRepoCommit.State} (h : DInv N s) (hd : s'.disk = s.disk)
    (hc : created s' = created s) (hp : s'.phase = s.phase) (hl : s'.logged = s.logged) (ht : s'.tlog = s.tlog)
    (he : s'.everAdded = s.everAdded) (hpl : s'.pendingLog = s.pendingLog) (hpa : s'.pendingAdd = s.pendingAdd) : DInv N s' := by
  refine ⟨?_, ?_, ?_, ?_, ?_, ?_, ?_⟩
  · rw [he]; exact h.esub
  · rw [he, hp]; exact h.idle
  · rw [hpa]; exact h.noPA
  · rw [he, hp, hc, hd]; exact h.tracked
  · rw [he, hp, hd, ht]; exact h.durable
  · rw [hpl, ht, hl, hp]; exact h.pend
  · rw [he, hp, hd]; exact h.gone

/-- an environment step that leaves `has · n` alone for the names of `N` -/
theorem dinv_env {N : List String} {s : StoreRepoCommit.State} (h : DInv N s) (d' : List Store) (nx : Nat)
    (hd : ∀ n ∈ N, has d' n = has s.disk n) : DInv N { s with disk := d', next := nx } := by
  refine ⟨h.esub, h.idle, h.noPA, fun hp n hn => ?_, fun hp n hn hh => ?_, h.pend, fun hp n hn => ?_⟩
  · rcases h.tracked hp n hn with hcr | hf
    · exact Or.inl hcr
    · exact Or.inr ((hd n (h.esub n hn)).trans hf)
  · exact h.durable hp n hn ((hd n (h.esub n hn)).symm.trans hh)
  · exact (hd n (h.esub n hn)).trans (h.gone hp n hn)

theorem dinv_step {N : List String} {s : StoreRepoCommit.State} (hc' : CInv N s) (h : DInv N s) (op : StoreRepoCommit.Op) (hc : Calm N op) :
    DInv N (step {} s op).1 := by
  have hlive : s.phase = .live → ∀ n ∈ s.everAdded, n ∈ created s ∨ has s.disk n = false := fun hp => h.tracked (Or.inl hp)
  cases op with
  | begin =>
    simp only [step]; split
    · rename_i hp
      have he := h.idle hp
      refine ⟨h.esub, fun hp' => (by cases hp'), h.noPA, fun _ n hn => ?_, fun _ n hn => ?_, fun n o hpl => ?_, fun hp' => (by rcases hp' with hp' | hp' <;> cases hp')⟩
      · simp only [he] at hn; cases hn
      · simp only [he] at hn; cases hn
      · have := (h.pend n o hpl).2.2; rw [hp] at this; cases this
    · exact h
  | new n o =>
    simp only [step]; split
    · exact h
    · rename_i hp
      have hpl : s.phase = .live := Classical.byContradiction fun hne => hp (Or.inl hne)
      have hnp : s.pendingLog = none := by
        cases hx : s.pendingLog with
        | none => rfl
        | some x => exact absurd (Or.inr (Or.inl (by rw [hx]; rfl))) hp
      split
      · split
        · split
          · exact h
          · exact dinv_congr h rfl (Sop.C12.createdNames_append_opened _ _ rfl) rfl rfl rfl rfl rfl rfl
        · exact dinv_final h.esub (hlive hpl) (Or.inl (hc'.live hpl).1)
      · rename_i hlk
        have hnot : has s.disk n = false := by
          cases hh : has s.disk n with
          | false => rfl
          | true =>
            obtain ⟨st, hst, hn⟩ := Sop.C12.has_iff.mp hh
            have : lookup s.disk n ≠ none := by
              simp only [lookup, ne_eq, List.find?_eq_none, decide_eq_true_eq]
              exact fun hx => hx st hst hn
            exact absurd hlk this
        have hcr := created_append_created s.opened n s.next
        refine ⟨?_, ?_, h.noPA, ?_, ?_, ?_, ?_⟩
        · intro m hm
          rcases List.mem_append.mp hm with hm | hm
          · exact h.esub m hm
          · rw [List.mem_singleton.mp hm]; exact hc
        · intro hp'; rw [hpl] at hp'; cases hp'
        · intro _ m hm
          simp only [created]; rw [hcr]
          rcases List.mem_append.mp hm with hm | hm
          · rcases hlive hpl m hm with hcm | hf
            · exact Or.inl (List.mem_append.mpr (Or.inl hcm))
            · by_cases hmn : m = n
              · exact Or.inl (List.mem_append.mpr (Or.inr (by rw [hmn]; exact List.mem_singleton.mpr rfl)))
              · exact Or.inr (has_append_false hf (fun e => hmn e.symm))
          · exact Or.inl (List.mem_append.mpr (Or.inr hm))
        · intro _ m hm hh
          by_cases hmn : m = n
          · exact List.mem_append.mpr (Or.inr (by rw [hmn]; exact List.mem_singleton.mpr rfl))
          · rcases List.mem_append.mp hm with hm | hm
            · rw [has_append_other (fun e => hmn e.symm)] at hh
              exact List.mem_append.mpr (Or.inl (h.durable (Or.inl hpl) m hm hh))
            · exact absurd (List.mem_singleton.mp hm) hmn
        · intro m o' hx; rw [hnp] at hx; cases hx
        · intro hp'; rw [hpl] at hp'; rcases hp' with hp' | hp' <;> cases hp'
  | open_ n =>
    simp only [step]; split
    · exact h
    · rename_i hp
      have hpl : s.phase = .live := Classical.byContradiction fun hne => hp (Or.inl hne)
      split
      · exact h
      · split
        · exact dinv_congr h rfl (Sop.C12.createdNames_append_opened _ _ rfl) rfl rfl rfl rfl rfl rfl
        · exact dinv_final h.esub (hlive hpl) (Or.inl (hc'.live hpl).1)
  | add n k v =>
    simp only [step]; split
    · exact dinv_congr h rfl (Sop.C12.createdNames_addLast _ _ _) rfl rfl rfl rfl rfl rfl
    · exact h
  | conflict =>
    simp only [step]; split
    · rename_i hg
      have hnp : s.pendingLog = none := by
        cases hx : s.pendingLog with
        | none => rfl
        | some x => have := hg.2.1; rw [hx] at this; cases this
      have hgone : ∀ n ∈ s.everAdded, has (removeCreated { s with logged := true }) n = false := by
        intro n hn
        rcases h.tracked hg.1 n hn with hcr | hf
        · exact removeCreated_gone (s := { s with logged := true }) (Or.inl fun _ => rfl) n hcr
        · exact has_removeCreated_false (s := { s with logged := true }) hf
      refine ⟨h.esub, fun hp' => (by cases hp'), h.noPA, fun _ n hn => Or.inr (hgone n hn), fun _ n hn hh => ?_, fun n o hx => ?_,
        fun hp' => (by rcases hp' with hp' | hp' <;> cases hp')⟩
      · have := hgone n hn
        simp only [partialRollback, Bool.false_eq_true, if_false] at hh
        rw [this] at hh; cases hh
      · simp only [partialRollback] at hx; rw [hnp] at hx; cases hx
    · exact h
  | finish ok relogged =>
    simp only [step]; split
    · rename_i hph
      have hnp : s.pendingLog = none := by
        cases hx : s.pendingLog with
        | none => rfl
        | some x => have := hph.2.1; rw [hx] at this; cases this
      split
      · rename_i hr
        exact dinv_final h.esub (h.tracked hph.1) (Or.inr (hc'.retry hr.1))
      · split
        · refine ⟨h.esub, fun hp' => (by cases hp'), h.noPA, fun hp' => (by rcases hp' with hp' | hp' <;> cases hp'),
            fun hp' => (by rcases hp' with hp' | hp' | hp' <;> cases hp'), fun n o hx => ?_, fun hp' => (by rcases hp' with hp' | hp' <;> cases hp')⟩
          simp only [commitOk] at hx; rw [hnp] at hx; cases hx
        · refine dinv_final (s := { s with logged := s.logged || relogged }) h.esub (h.tracked hph.1) ?_
          rcases hph.1 with hl | hrt
          · exact Or.inl fun hne => by simp [(hc'.live hl).1 hne]
          · exact Or.inr (hc'.retry hrt)
    · exact h
  | rollback =>
    simp only [step]; split
    · rename_i hp; exact dinv_final h.esub (hlive hp.1) (Or.inl (hc'.live hp.1).1)
    · exact h
  | newLog n o f =>
    simp only [step]; split
    · exact h
    · rename_i hp
      have hpl : s.phase = .live := Classical.byContradiction fun hne => hp hne
      simp only [Bool.false_eq_true, if_false]
      split
      · exact h
      · cases f with
        | none =>
          refine ⟨h.esub, fun hp' => (by rw [hpl] at hp'; cases hp'), h.noPA, h.tracked, fun hp' m hm hh => ?_, fun m o' hx => ?_, ?_⟩
          · exact List.mem_append.mpr (Or.inl (h.durable hp' m hm hh))
          · simp only [Option.some.injEq, Prod.mk.injEq] at hx
            exact ⟨List.mem_append.mpr (Or.inr (by rw [← hx.1]; exact List.mem_singleton.mpr rfl)), rfl, hpl⟩
          · intro hp'; rw [hpl] at hp'; rcases hp' with hp' | hp' <;> cases hp'
        | before => exact dinv_final (s := { s with logged := true }) h.esub (hlive hpl) (Or.inl fun _ => rfl)
        | after => exact dinv_final (s := { s with logged := true, tlog := s.tlog ++ [n] }) h.esub (hlive hpl) (Or.inl fun _ => rfl)
  | newAdd n o f =>
    simp only [step]; split
    · exact h
    · rename_i hp
      have hpl : s.phase = .live := Classical.byContradiction fun hne => hp hne
      simp only [Bool.false_eq_true, if_false]
      split
      · rename_i n' o' hpnd
        split
        · exact h
        · rename_i hg
          have hnn : n' = n := Classical.byContradiction fun hne => hg (Or.inl hne)
          have hnot : has s.disk n = false := by
            cases hh : has s.disk n with
            | false => rfl
            | true => exact absurd (Or.inr hh) hg
          have hrec : n ∈ s.tlog := by rw [← hnn]; exact (h.pend n' o' hpnd).1
          have hes : ∀ m ∈ s.everAdded ++ [n], m ∈ N := by
            intro m hm
            rcases List.mem_append.mp hm with hm | hm
            · exact h.esub m hm
            · rw [List.mem_singleton.mp hm]; exact hc
          cases f with
          | none =>
            have hcr := created_append_created s.opened n s.next
            refine ⟨hes, fun hp' => (by simp only [register] at hp'; rw [hpl] at hp'; cases hp'), h.noPA, ?_, ?_, ?_, ?_⟩
            · intro _ m hm
              simp only [created, register]; rw [hcr]
              rcases List.mem_append.mp hm with hm | hm
              · rcases hlive hpl m hm with hcm | hf
                · exact Or.inl (List.mem_append.mpr (Or.inl hcm))
                · by_cases hmn : m = n
                  · exact Or.inl (List.mem_append.mpr (Or.inr (by rw [hmn]; exact List.mem_singleton.mpr rfl)))
                  · exact Or.inr (has_append_false hf (fun e => hmn e.symm))
              · exact Or.inl (List.mem_append.mpr (Or.inr hm))
            · intro _ m hm hh
              simp only [register] at hh ⊢
              by_cases hmn : m = n
              · rw [hmn]; exact hrec
              · rcases List.mem_append.mp hm with hm | hm
                · rw [has_append_other (fun e => hmn e.symm)] at hh
                  exact h.durable (Or.inl hpl) m hm hh
                · exact absurd (List.mem_singleton.mp hm) hmn
            · intro m o'' hx; simp only [register] at hx; cases hx
            · intro hp'; simp only [register] at hp'; rw [hpl] at hp'; rcases hp' with hp' | hp' <;> cases hp'
          | before =>
            have : addFailed s n s.next = finalRollback s := by
              simp only [addFailed, Sop.C12.lookup_none hnot]
            rw [this]; exact dinv_final h.esub (hlive hpl) (Or.inl (hc'.live hpl).1)
          | after =>
            have hlk : lookup (s.disk ++ [newStore s n o]) n = some (newStore s n o) :=
              Sop.C12.lookup_append_new (st := newStore s n o) hnot
            have : addFailed { s with disk := s.disk ++ [newStore s n o], next := s.next + 1, everAdded := s.everAdded ++ [n] } n s.next
                = finalRollback { s with disk := erase (s.disk ++ [newStore s n o]) n, next := s.next + 1, everAdded := s.everAdded ++ [n] } := by
              simp only [addFailed, hlk]
              simp [newStore]
            rw [this]
            refine dinv_final (s := { s with disk := erase (s.disk ++ [newStore s n o]) n, next := s.next + 1, everAdded := s.everAdded ++ [n] })
              hes ?_ (Or.inl (hc'.live hpl).1)
            intro m hm
            rcases List.mem_append.mp hm with hm | hm
            · rcases hlive hpl m hm with hcm | hf
              · exact Or.inl hcm
              · by_cases hmn : m = n
                · rw [hmn]; exact Or.inr (has_erase_self _ n)
                · exact Or.inr (has_erase_false (has_append_false hf (fun e => hmn e.symm)))
            · rw [List.mem_singleton.mp hm]; exact Or.inr (has_erase_self _ n)
      · exact h
  | crash =>
    simp only [step]; split
    · rename_i hp
      refine ⟨h.esub, fun hp' => (by cases hp'), rfl, fun hp' => (by rcases hp' with hp' | hp' <;> cases hp'), fun _ n hn hh => ?_,
        fun _ _ hx => (by cases hx), fun hp' => (by rcases hp' with hp' | hp' <;> cases hp')⟩
      exact h.durable (by rcases hp with hp | hp; exact Or.inl hp; exact Or.inr (Or.inl hp)) n hn hh
    · exact h
  | recover =>
    simp only [step]; split
    · rename_i hp
      refine ⟨h.esub, fun hp' => (by cases hp'), h.noPA, fun hp' => (by rcases hp' with hp' | hp' <;> cases hp'),
        fun hp' => (by rcases hp' with hp' | hp' | hp' <;> cases hp'), fun n o hx => ?_, fun _ n hn => ?_⟩
      · have := (h.pend n o hx).2.2; rw [hp] at this; cases this
      · show has (eraseAll s.disk s.tlog) n = false
        cases hh : has s.disk n with
        | false => exact has_eraseAll_false hh
        | true => exact has_eraseAll_mem (h.durable (Or.inr (Or.inr hp)) n hn hh)
    · exact h
  | otherAdd n k v =>
    simp only [step]
    refine dinv_env h _ s.next fun m _ => has_of_names ?_ m
    simp only [names, List.map_map]
    apply List.map_congr_left
    intro st _; simp only [Function.comp]; split <;> rfl
  | otherNew m o =>
    simp only [step]; split
    · exact h
    · exact dinv_env h _ _ fun n hn => has_append_other (fun e => hc (by rw [show m = n from e]; exact hn))
  | otherRemove m =>
    simp only [step]
    exact dinv_env h _ s.next fun n hn => has_erase_other (fun e => hc (by rw [e]; exact hn))

structure Inv2 (N : List String) (s : StoreRepoCommit.State) : Prop where
  c : CInv N s
  d : DInv N s

theorem inv2_step {N : List String} {s : StoreRepoCommit.State} (h : Inv2 N s) (op : StoreRepoCommit.Op) (hc : Calm N op) :
    Inv2 N (step {} s op).1 :=
  ⟨cinv_step h.c op hc (fun hs => by
      cases hpl : s.pendingLog with
      | none => rw [hpl] at hs; cases hs
      | some x => exact (h.d.pend x.1 x.2 hpl).2.1),
   dinv_step h.c h.d op hc⟩

theorem inv2_run {N : List String} (ops : List StoreRepoCommit.Op) : ∀ {s : StoreRepoCommit.State}, Inv2 N s → (∀ op ∈ ops, Calm N op) →
    Inv2 N (StoreRepoCommit.run {} s ops) := by
  induction ops with
  | nil => intro s h _; exact h
  | cons op ops ih =>
    intro s h hc
    exact ih (inv2_step h op (hc op (List.mem_cons_self ..))) (fun o ho => hc o (List.mem_cons_of_mem _ ho))

theorem cinv_start (N : List String) (d : List Store) (nx : Nat) : CInv N { disk := d, next := nx } :=
  ⟨fun _ hn => (by cases hn), fun _ => rfl, fun hp => (by cases hp), fun hp => (by cases hp), fun hp => (by cases hp), fun hp => (by cases hp)⟩

theorem inv2_start (N : List String) (d : List Store) (nx : Nat) : Inv2 N { disk := d, next := nx } :=
  ⟨cinv_start N d nx,
   ⟨fun _ hn => (by cases hn), fun _ => rfl, rfl, fun hp => (by rcases hp with hp | hp <;> cases hp),
    fun _ _ hn => (by cases hn), fun _ _ hp => (by cases hp), fun _ _ hn => (by cases hn)⟩⟩

/-- **A transaction that ends without committing leaves no store it created**, whatever the catalogue was, whatever
`T` did (any `NewBtree`/`OpenBtree`/adds, any number of conflict rounds, a last round failing before or after it
logged again, an explicit `Rollback`, a failed `NewBtree`/`OpenBtree`), and however the whole transactions of other
committers interleave with its steps. -/
theorem abort_leaves_no_created_store (N : List String) (d : List Store) (nx : Nat) (ops : List StoreRepoCommit.Op)
    (hc : ∀ op ∈ ops, Calm N op) :
    let s := StoreRepoCommit.run {} { disk := d, next := nx } ops
    s.phase = .failed → ∀ n ∈ created s, has s.disk n = false :=
  (inv2_run ops (inv2_start N d nx) hc).c.failed

/-- already while the commit is retrying after a conflict round the created stores are gone -/
theorem conflict_removes_created (N : List String) (d : List Store) (nx : Nat) (ops : List StoreRepoCommit.Op)
    (hc : ∀ op ∈ ops, Calm N op) :
    let s := StoreRepoCommit.run {} { disk := d, next := nx } ops
    s.phase = .retry → ∀ n ∈ created s, has s.disk n = false :=
  (inv2_run ops (inv2_start N d nx) hc).c.retry

/-- if it committed, every store it created exists -/
theorem commit_keeps_created (N : List String) (d : List Store) (nx : Nat) (ops : List StoreRepoCommit.Op)
    (hc : ∀ op ∈ ops, Calm N op) :
    let s := StoreRepoCommit.run {} { disk := d, next := nx } ops
    s.phase = .committed → ∀ n ∈ created s, has s.disk n = true :=
  (inv2_run ops (inv2_start N d nx) hc).c.committed

/-- **Faults and crashes inside `NewBtree` included**: `NewBtree` of an absent name is the `createStore` record, then
`StoreRepository.Add` (`Variant.addFirst = false`, the order the proof uses through `DInv.durable`); each of the two
calls may fail before or after it was performed, the process may die between any two steps (`crash`), and the
transaction ends by the live rollback (`failed`) or, after a crash, by another process's expired-log recovery
(`recovered`). Then no store `T` ever added is in the catalogue. -/
theorem create_fault_crash_leaves_no_store (N : List String) (d : List Store) (nx : Nat) (ops : List StoreRepoCommit.Op)
    (hc : ∀ op ∈ ops, Calm N op) :
    let s := StoreRepoCommit.run { addFirst := false } { disk := d, next := nx } ops
    (s.phase = .failed ∨ s.phase = .recovered) → ∀ n ∈ s.everAdded, has s.disk n = false :=
  (inv2_run ops (inv2_start N d nx) hc).d.gone

/-- while `T` runs or lies crashed, every store it added that is on disk has its `createStore` record in the log -/
theorem created_store_has_record (N : List String) (d : List Store) (nx : Nat) (ops : List StoreRepoCommit.Op)
    (hc : ∀ op ∈ ops, Calm N op) :
    let s := StoreRepoCommit.run { addFirst := false } { disk := d, next := nx } ops
    (s.phase = .live ∨ s.phase = .retry ∨ s.phase = .crashed) → ∀ n ∈ s.everAdded, has s.disk n = true → n ∈ s.tlog :=
  (inv2_run ops (inv2_start N d nx) hc).d.durable

def leakOps : List StoreRepoCommit.Op := [.begin, .open_ "se", .new "sn" ⟨4, true⟩, .add "sn" 10 "a", .otherAdd "se" 5 "x", .conflict, .finish false false]

def leakStart : StoreRepoCommit.State := { disk := [{ name := "se", root := 1, opts := ⟨8, true⟩, count := 4, items := [] }], next := 2 }

/-- the hypotheses of the theorems are satisfiable by this history -/
theorem leakOps_calm : ∀ op ∈ leakOps, Calm ["sn"] op := by
  intro op hop
  simp only [leakOps, List.mem_cons, List.mem_nil_iff, or_false] at hop
  rcases hop with rfl | rfl | rfl | rfl | rfl | rfl | rfl <;> simp [Calm]

/-- the partial rollback that keeps created stores but rewinds the log state: the transaction ends failed and `sn`
is still in the catalogue -/
theorem abort_forgetful_counterexample :
    let s := StoreRepoCommit.run { forget := true } leakStart leakOps
    s.phase = .failed ∧ created s = ["sn"] ∧ has s.disk "sn" = true := by
  decide +kernel

/-- the same history on the code's partial rollback: failed, `sn` gone (by the theorem; here evaluated) -/
theorem abort_witness :
    let s := StoreRepoCommit.run {} leakStart leakOps
    s.phase = .failed ∧ created s = ["sn"] ∧ has s.disk "sn" = false ∧ has s.disk "se" = true := by
  decide +kernel

/-! the swapped order of `NewBtree`'s two calls (`addFirst`): the store is on disk while nothing records it -/

/-- `Add`, then the `createStore` record fails (before or after it was written): the live rollback knows no created
B-tree (it is registered after the record), the failed transaction leaves `sn` -/
theorem create_addFirst_fault_counterexample :
    let o : Opts := ⟨4, true⟩
    let s1 := StoreRepoCommit.run { addFirst := true } leakStart [.begin, .newAdd "sn" o .none, .newLog "sn" o .before]
    let s2 := StoreRepoCommit.run { addFirst := true } leakStart [.begin, .newAdd "sn" o .none, .newLog "sn" o .after]
    (s1.phase = .failed ∧ s1.everAdded = ["sn"] ∧ has s1.disk "sn" = true) ∧
    (s2.phase = .failed ∧ s2.everAdded = ["sn"] ∧ has s2.disk "sn" = true) := by
  decide +kernel

/-- `Add`, then the process dies before the record is written: the recovery finds no record, `sn` stays -/
theorem create_addFirst_crash_counterexample :
    let s := StoreRepoCommit.run { addFirst := true } leakStart [.begin, .newAdd "sn" ⟨4, true⟩ .none, .crash, .recover]
    s.phase = .recovered ∧ s.everAdded = ["sn"] ∧ has s.disk "sn" = true := by
  decide +kernel

/-- the code's order on the corresponding histories (every crash point and fault of the two calls): nothing stays -/
theorem create_logFirst_witness :
    let o : Opts := ⟨4, true⟩
    let r (ops : List StoreRepoCommit.Op) := StoreRepoCommit.run {} leakStart (.begin :: ops)
    has (r [.newLog "sn" o .none, .crash, .recover]).disk "sn" = false ∧
    (let s := r [.newLog "sn" o .none, .newAdd "sn" o .none, .crash, .recover]
     s.phase = .recovered ∧ s.everAdded = ["sn"] ∧ has s.disk "sn" = false ∧ has s.disk "se" = true) ∧
    (let s := r [.newLog "sn" o .none, .newAdd "sn" o .none, .add "sn" 1 "a", .crash, .recover]
     s.phase = .recovered ∧ has s.disk "sn" = false) ∧
    (let s := r [.newLog "sn" o .none, .newAdd "sn" o .after]
     s.phase = .failed ∧ s.everAdded = ["sn"] ∧ has s.disk "sn" = false) ∧
    (let s := r [.newLog "sn" o .none, .newAdd "sn" o .before]
     s.phase = .failed ∧ has s.disk "sn" = false) ∧
    (let s := r [.newLog "sn" o .after]
     s.phase = .failed ∧ has s.disk "sn" = false ∧ s.tlog = []) ∧
    (let s := r [.newLog "sn" o .none, .newAdd "sn" o .none, .add "sn" 1 "a", .finish true true]
     s.phase = .committed ∧ has s.disk "sn" = true) := by
  decide +kernel

end Sop.C12.Commit
