import Sop.Lemmas.JsonPatch
import Sop.Model.StoreInfoHistory
import Sop.Model.StoreInfoGet
import Sop.Lemmas.StoreInfoCache
/-!
# C13 — committing changes never alters or corrupts a store's configuration

The theorems are about the REPAIRED `patchJSONNumericField` (`proposed_fixes/C13-anchor-key-token.diff`);
`orig_counterexample*` show on the model of the unrepaired function why the repair is needed.

Second part (end of file): the COUNT half over histories of commits in one process — `C13_count_history` (what a
reopened store reports = initial count + the committed deltas, and its own configuration, after any history of
commits including multi-store `Update`s that fail midway and are undone), on `Sop.Model.StoreInfoHistory` over the
`StoreRepository.Update` model of C20 (`Sop.Model.StoreInfoCache`, lemmas `Sop.Lemmas.StoreInfoCache`);
`C13_recache_unreverted_witness` for the variant whose undo re-caches the unreverted record.
-/
namespace Sop.C13
open Sop.JsonPatch

/-! ## locating the key -/

/-- the file up to and including the closing quote of `root_node_id`, followed by `R` -/
def prefixSI (si : StoreInfo) (R : List Char) : List Char :=
  (chars! "{\"name\":\"") ++ (escape si.name ++
  ((chars! "\",\"slot_length\":") ++ (showInt si.slotLength ++
  ((chars! ",\"is_unique\":") ++ (showBool si.isUnique ++
  ((chars! ",\"description\":\"") ++ (escape si.description ++
  ((chars! "\",\"registry_table\":\"") ++ (escape si.registryTable ++
  ((chars! "\",\"blob_table\":\"") ++ (escape si.blobTable ++
  ((chars! "\",\"root_node_id\":\"") ++ (escape si.rootNodeId ++
  ((chars! "\"") ++ R))))))))))))))

theorem encodeSI_eq (si : StoreInfo) :
    encodeSI si = prefixSI si ((chars! ",\"count\":") ++ (showInt si.count ++
      ((chars! ",\"timestamp\":") ++ (showInt si.timestamp ++ (',' :: si.tail))))) := by
  unfold encodeSI prefixSI; rfl

theorem prefixSI_append (si : StoreInfo) (a X : List Char) : prefixSI si a ++ X = prefixSI si (a ++ X) := by
  simp [prefixSI, List.append_assoc]

theorem litOk_showInt (k0 : Char) (i : Int) : litOk k0 (showInt i) = true :=
  litOk_of_noComma k0 _ (fun c hc => (showInt_chars i c hc).1)

theorem litOk_showBool (k0 : Char) (b : Bool) : litOk k0 (showBool b) = true :=
  litOk_of_noComma k0 _ (by cases b <;> simp [showBool])

/-- no occurrence of `,"c…` / `,"t…` starts anywhere in the part of the file that precedes the `count` key:
the string values are escaped (every `"` in them follows a backslash), and the only `,"` between values
introduce the other keys. This holds for EVERY name, description, table name and root id. -/
theorem skipPrefix (k0 : Char) (hk : k0 = 'c' ∨ k0 = 't') (n : List Char) (si : StoreInfo) (R a b : List Char)
    (hR : [k0].isPrefixOf R = false)
    (h : splitAt (',' :: '"' :: k0 :: n) R = some (a, b)) :
    splitAt (',' :: '"' :: k0 :: n) (prefixSI si R) = some (prefixSI si a, b) := by
  have hq : ∀ X : List Char, ['"', k0].isPrefixOf ('"' :: ',' :: X) = false := by
    intro X; rcases hk with rfl | rfl <;> simp [List.isPrefixOf]
  unfold prefixSI
  have h1 := skipLit k0 n (chars! "\"") _ _ _ (by rcases hk with rfl | rfl <;> decide) h
  have h2 := skipGuarded k0 n (escape si.rootNodeId) _ _ _ false (guarded_escape _ _)
    (by simpa [List.isPrefixOf] using hR) h1
  have h3 := skipLit k0 n (chars! "\",\"root_node_id\":\"") _ _ _ (by rcases hk with rfl | rfl <;> decide) h2
  have h4 := skipGuarded k0 n (escape si.blobTable) _ _ _ false (guarded_escape _ _) (hq _) h3
  have h5 := skipLit k0 n (chars! "\",\"blob_table\":\"") _ _ _ (by rcases hk with rfl | rfl <;> decide) h4
  have h6 := skipGuarded k0 n (escape si.registryTable) _ _ _ false (guarded_escape _ _) (hq _) h5
  have h7 := skipLit k0 n (chars! "\",\"registry_table\":\"") _ _ _ (by rcases hk with rfl | rfl <;> decide) h6
  have h8 := skipGuarded k0 n (escape si.description) _ _ _ false (guarded_escape _ _) (hq _) h7
  have h9 := skipLit k0 n (chars! ",\"description\":\"") _ _ _ (by rcases hk with rfl | rfl <;> decide) h8
  have h10 := skipLit k0 n (showBool si.isUnique) _ _ _ (litOk_showBool _ _) h9
  have h11 := skipLit k0 n (chars! ",\"is_unique\":") _ _ _ (by rcases hk with rfl | rfl <;> decide) h10
  have h12 := skipLit k0 n (showInt si.slotLength) _ _ _ (litOk_showInt _ _) h11
  have h13 := skipLit k0 n (chars! "\",\"slot_length\":") _ _ _ (by rcases hk with rfl | rfl <;> decide) h12
  have h14 := skipGuarded k0 n (escape si.name) _ _ _ false (guarded_escape _ _) (hq _) h13
  exact skipLit k0 n (chars! "{\"name\":\"") _ _ _ (by rcases hk with rfl | rfl <;> decide) h14

/-! ## the patch is exact -/

/-- patching `count` rewrites exactly the count value: the result is byte for byte the encoding of the
record with the new count. -/
theorem patch_count (si : StoreInfo) (c : Int) :
    patch (encodeSI si) kCount c = some (encodeSI { si with count := c }) := by
  have h0 := splitAt_here ',' ('"' :: 'c' :: (chars! "ount\":"))
    (showInt si.count ++ ((chars! ",\"timestamp\":") ++ (showInt si.timestamp ++ (',' :: si.tail))))
  have h := skipPrefix 'c' (Or.inl rfl) (chars! "ount\":") si _ _ _ (by simp [List.isPrefixOf]) h0
  have hv := rewriteValue_int (prefixSI si [] ++ (',' :: '"' :: 'c' :: (chars! "ount\":")))
    ((chars! "\"timestamp\":") ++ (showInt si.timestamp ++ (',' :: si.tail))) si.count c ',' (by decide)
  unfold patch
  rw [encodeSI_eq]
  simp only []
  rw [show (',' :: '"' :: kCount ++ ['"', ':'] : List Char) = ',' :: '"' :: 'c' :: (chars! "ount\":") from rfl]
  rw [show ((chars! ",\"count\":") : List Char) = ',' :: '"' :: 'c' :: (chars! "ount\":") from rfl]
  rw [h]
  simp only []
  rw [show ((chars! ",\"timestamp\":") ++ (showInt si.timestamp ++ (',' :: si.tail)) : List Char)
      = ',' :: ((chars! "\"timestamp\":") ++ (showInt si.timestamp ++ (',' :: si.tail))) from rfl]
  rw [hv, encodeSI_eq]
  simp only [prefixSI_append, List.nil_append, List.cons_append]
  rfl

/-- likewise for `timestamp` -/
theorem patch_timestamp (si : StoreInfo) (ts : Int) :
    patch (encodeSI si) kTimestamp ts = some (encodeSI { si with timestamp := ts }) := by
  have h0 := splitAt_here ',' ('"' :: 't' :: (chars! "imestamp\":")) (showInt si.timestamp ++ (',' :: si.tail))
  have h1 := skipLit 't' (chars! "imestamp\":") (showInt si.count) _ _ _ (litOk_showInt _ _) h0
  have h2 := skipLit 't' (chars! "imestamp\":") (chars! ",\"count\":") _ _ _ (by decide) h1
  have h := skipPrefix 't' (Or.inr rfl) (chars! "imestamp\":") si _ _ _ (by simp [List.isPrefixOf]) h2
  have hv := rewriteValue_int
    (prefixSI si ((chars! ",\"count\":") ++ (showInt si.count ++ [])) ++ (',' :: '"' :: 't' :: (chars! "imestamp\":")))
    si.tail si.timestamp ts ',' (by decide)
  unfold patch
  rw [encodeSI_eq]
  simp only []
  rw [show (',' :: '"' :: kTimestamp ++ ['"', ':'] : List Char) = ',' :: '"' :: 't' :: (chars! "imestamp\":") from rfl]
  rw [show ((chars! ",\"timestamp\":") : List Char) = ',' :: '"' :: 't' :: (chars! "imestamp\":") from rfl]
  rw [h]
  simp only []
  rw [hv, encodeSI_eq]
  simp only [prefixSI_append, List.append_assoc, List.nil_append, List.cons_append, List.append_nil]
  rfl

/-- the fast path of `StoreRepository.Update` (count then timestamp) produces exactly the encoding of the
record with the new count and timestamp — for all names, descriptions, table names and option text. -/
theorem patchBoth_exact (si : StoreInfo) (c ts : Int) :
    patchBoth patch (encodeSI si) c ts = some (encodeSI { si with count := c, timestamp := ts }) := by
  unfold patchBoth
  rw [patch_count]
  simp only []
  rw [patch_timestamp]

/-! ## reading back -/

theorem hexVal_hexDigit (d : Nat) (h : d < 16) : hexVal (hexDigit d) = some d := by
  match d, h with
  | 0, _ | 1, _ | 2, _ | 3, _ | 4, _ | 5, _ | 6, _ | 7, _ | 8, _ | 9, _
  | 10, _ | 11, _ | 12, _ | 13, _ | 14, _ | 15, _ => decide
  | d + 16, h => exact absurd h (by omega)

theorem needsU_lt (c : Char) (h : needsU c = true) : c.toNat < 65536 := by
  unfold needsU at h
  simp only [Bool.or_eq_true, decide_eq_true_eq] at h
  rcases h with ((((h | h) | h) | h) | h) | h
  · omega
  · subst h; decide
  · subst h; decide
  · subst h; decide
  · omega
  · omega

theorem readStr_quote (R : List Char) : readStr ('"' :: R) = some ([], R) := by
  rw [readStr.eq_def]; simp

theorem readStr_bs (x : Char) (X s R : List Char) (ch : Char) (hx : x ≠ 'u') (hu : unescOne x = some ch)
    (h : readStr X = some (s, R)) : readStr ('\\' :: x :: X) = some (ch :: s, R) := by
  rw [readStr.eq_def]; simp [hx, hu, h]

theorem readStr_u (a b c d : Char) (va vb vc vd : Nat) (X s R : List Char)
    (ha : hexVal a = some va) (hb : hexVal b = some vb) (hc : hexVal c = some vc) (hd : hexVal d = some vd)
    (h : readStr X = some (s, R)) :
    readStr ('\\' :: 'u' :: a :: b :: c :: d :: X) = some (Char.ofNat (va * 4096 + vb * 256 + vc * 16 + vd) :: s, R) := by
  rw [readStr.eq_def]; simp [ha, hb, hc, hd, h]

theorem readStr_plain (c : Char) (X s R : List Char) (h1 : c ≠ '"') (h2 : c ≠ '\\')
    (h : readStr X = some (s, R)) : readStr (c :: X) = some (c :: s, R) := by
  rw [readStr.eq_def]; simp [h1, h2, h]

theorem readStr_escChar (c : Char) (X s R : List Char) (h : readStr X = some (s, R)) :
    readStr (escChar c ++ X) = some (c :: s, R) := by
  unfold escChar
  split
  · rename_i hc; subst hc; exact readStr_bs _ _ _ _ _ (by decide) (by decide) h
  split
  · rename_i hc; subst hc; exact readStr_bs _ _ _ _ _ (by decide) (by decide) h
  split
  · rename_i hc; subst hc; exact readStr_bs _ _ _ _ _ (by decide) (by decide) h
  split
  · rename_i hc; subst hc; exact readStr_bs _ _ _ _ _ (by decide) (by decide) h
  split
  · rename_i hc; subst hc; exact readStr_bs _ _ _ _ _ (by decide) (by decide) h
  split
  · rename_i hc
    have : c = Char.ofNat 8 := by rw [← hc, Char.ofNat_toNat]
    subst this; exact readStr_bs _ _ _ _ _ (by decide) (by decide) h
  split
  · rename_i hc
    have : c = Char.ofNat 12 := by rw [← hc, Char.ofNat_toNat]
    subst this; exact readStr_bs _ _ _ _ _ (by decide) (by decide) h
  split
  · rename_i hu
    have hlt := needsU_lt c hu
    have e : c.toNat / 4096 % 16 * 4096 + c.toNat / 256 % 16 * 256 + c.toNat / 16 % 16 * 16 + c.toNat % 16 = c.toNat := by
      omega
    have := readStr_u _ _ _ _ _ _ _ _ X s R
      (hexVal_hexDigit (c.toNat / 4096 % 16) (Nat.mod_lt _ (by decide)))
      (hexVal_hexDigit (c.toNat / 256 % 16) (Nat.mod_lt _ (by decide)))
      (hexVal_hexDigit (c.toNat / 16 % 16) (Nat.mod_lt _ (by decide)))
      (hexVal_hexDigit (c.toNat % 16) (Nat.mod_lt _ (by decide))) h
    rw [e, Char.ofNat_toNat] at this
    exact this
  · rename_i h1 h2 _ _ _ _ _ _
    exact readStr_plain c X s R h1 h2 h

/-- reading an escaped string up to its closing quote gives the original text back, whatever follows -/
theorem readStr_escape (s R : List Char) : readStr (escape s ++ '"' :: R) = some (s, R) := by
  induction s with
  | nil => exact readStr_quote R
  | cons c s ih =>
    rw [escape, List.append_assoc]
    exact readStr_escChar c _ _ _ ih

theorem readInt_comma (i : Int) (R : List Char) : readInt (showInt i ++ ',' :: R) = some (i, ',' :: R) :=
  readInt_showInt i _ (by intro x hx; simp at hx; subst hx; decide)

/-- **round trip**: every metadata record reads back as itself -/
theorem parse_encode (si : StoreInfo) : parseSI (encodeSI si) = some si := by
  unfold parseSI encodeSI
  simp only [List.cons_append, List.nil_append]
  simp [expect, List.isPrefixOf, readStr_escape, readInt_comma, readBool_show]

/-- **C13, one commit**: after the count/timestamp fast path the file reads back as the ORIGINAL
configuration with the new count and timestamp — for every name, description, table name, root id and every
option text. -/
theorem C13_patch_sound (si : StoreInfo) (c ts : Int) :
    (patchBoth patch (encodeSI si) c ts).bind parseSI = some { si with count := c, timestamp := ts } := by
  rw [patchBoth_exact]
  exact parse_encode _

/-- the statement in the exact shape of DESIGN.md §6 C13 -/
theorem C13_patch_sound' (si : StoreInfo) (c ts : Int) :
    ((patch (encodeSI si) kCount c).bind fun d => (patch d kTimestamp ts).bind parseSI)
      = some { si with count := c, timestamp := ts } := by
  rw [patch_count]
  simp only [Option.bind]
  rw [patch_timestamp]
  exact parse_encode _

/-- the last `(count, timestamp)` of a history (the initial pair if there was no update) -/
def lastOr (p : Int × Int) (ups : List (Int × Int)) : Int × Int := ups.foldl (fun _ u => u) p

/-- **C13, any history of commits**: starting from the file `Add` wrote for `cfg`, after any sequence of
updates (fast path, or the re-marshal fallback had the fast path failed) the file is the encoding of `cfg`
with the last count and timestamp … -/
theorem C13_history (cfg : StoreInfo) (ups : List (Int × Int)) (c0 ts0 : Int) :
    history patch cfg (encodeSI { cfg with count := c0, timestamp := ts0 }) ups
      = encodeSI { cfg with count := (lastOr (c0, ts0) ups).1, timestamp := (lastOr (c0, ts0) ups).2 } := by
  induction ups generalizing c0 ts0 with
  | nil => rfl
  | cons u rest ih =>
    obtain ⟨c, ts⟩ := u
    have step : updateFile patch cfg (encodeSI { cfg with count := c0, timestamp := ts0 }) c ts
        = encodeSI { cfg with count := c, timestamp := ts } := by
      unfold updateFile
      rw [patchBoth_exact]
    rw [history, step, ih]
    rfl

/-- … in particular it always reads back as the original configuration with the last count and timestamp. -/
theorem C13_history_reads_back (cfg : StoreInfo) (ups : List (Int × Int)) (c0 ts0 : Int) :
    parseSI (history patch cfg (encodeSI { cfg with count := c0, timestamp := ts0 }) ups)
      = some { cfg with count := (lastOr (c0, ts0) ups).1, timestamp := (lastOr (c0, ts0) ups).2 } := by
  rw [C13_history]; exact parse_encode _

/-! ## the unrepaired function: why the repair is needed -/

def Statement_C13 (patchFn : List Char → List Char → Int → Option (List Char)) : Prop :=
  ∀ (si : StoreInfo) (c ts : Int),
    (patchBoth patchFn (encodeSI si) c ts).bind parseSI = some { si with count := c, timestamp := ts }

theorem Statement_C13_repaired : Statement_C13 patch := C13_patch_sound

def witnessTail : List Char := (chars! "\"is_value_data_in_node_segment\":false}")

/-- a store whose description is `my "count` -/
def witness1 : StoreInfo :=
  { name := (chars! "s1"), slotLength := 8, isUnique := false, description := (chars! "my \"count"),
    registryTable := (chars! "s1_r"), blobTable := (chars! "s1_b"),
    rootNodeId := (chars! "00000000-0000-0000-0000-000000000000"), count := 0, timestamp := 0, tail := witnessTail }

/-- a store named `count` -/
def witness2 : StoreInfo := { witness1 with name := (chars! "count"), description := [] }

set_option maxRecDepth 100000 in
/-- unrepaired code, description `my "count`: the patched file no longer reads back at all (the number lands
where the registry table name was). -/
theorem orig_counterexample_unreadable :
    (patchBoth patchOrig (encodeSI witness1) 5 7).bind parseSI = none := by decide

set_option maxRecDepth 100000 in
/-- unrepaired code, store named `count`: the patch succeeds, the file reads back, but `slot_length` was
silently replaced by the count and the count was not updated. -/
theorem orig_counterexample_silent :
    (patchBoth patchOrig (encodeSI witness2) 5 7).bind parseSI
      = some { witness2 with slotLength := 5, count := 0, timestamp := 7 } := by decide

theorem C13_counterexample : ¬ Statement_C13 patchOrig := by
  intro h
  have := h witness1 5 7
  rw [orig_counterexample_unreadable] at this
  exact absurd this (by simp)

/-- non-vacuity: the same hostile records go through the repaired patch -/
example : (patchBoth patch (encodeSI witness1) 5 7).bind parseSI = some { witness1 with count := 5, timestamp := 7 } :=
  C13_patch_sound _ _ _

end Sop.C13

namespace Sop.C13
open Sop.SICache Sop.SIHist

/-! ## count half: histories of commits in one process -/

theorem sumDelta_insert (u : Upd) (n : String) : ∀ l, sumDelta (insertByName u l) n = sumDelta (u :: l) n
  | [] => rfl
  | v :: r => by
    unfold insertByName
    split
    · simp only [sumDelta, sumDelta_insert u n r]; omega
    · rfl

theorem sumDelta_sort (n : String) : ∀ l, sumDelta (sortByName l) n = sumDelta l n
  | [] => rfl
  | u :: r => by
    simp only [sortByName, sumDelta_insert, sumDelta, sumDelta_sort n r]

/-- a forward loop that returns ok moved every file's count by the deltas the list carries for it -/
theorem loop_ok_count {M} : ∀ (rest : List Upd) (s : St) (done : List (Upd × Rec)), Inv M s →
    (∀ u ∈ rest, u.info = M u.name ∧ u.fwd.clean = true) →
    (loop s done rest).2 = .ok →
    ∀ n, ((loop s done rest).1 n).disk.map (·.count) = ((s n).disk).map (fun d => d.count + sumDelta rest n)
  | [], s, done, _, _, _, n => by
    simp only [loop, sumDelta]
    cases (s n).disk <;> simp
  | u :: rest, s, done, h, hr, hok, n => by
    obtain ⟨hu, hf⟩ := hr u (by simp)
    have hc := fwd_inv u (h u.name) hu hf
    unfold loop at hok ⊢
    split at hok
    · rename_i c o heq
      rw [heq] at hc
      have hd := fwd_done u (h u.name) hu (o := o) (by rw [heq])
      rw [heq] at hd
      simp only at hd
      have ih := loop_ok_count rest (s.set u.name c) (done ++ [(u, o)]) (set_inv _ _ h hc)
        (fun v hv => hr v (by simp [hv])) hok n
      rw [ih]
      by_cases e : n = u.name
      · subst e
        rw [set_same, hd.2, hd.1]
        simp only [Option.map_some, sumDelta, if_true]
        congr 1; omega
      · rw [set_other _ _ e]
        have : ¬ u.name = n := fun x => e x.symm
        simp only [sumDelta, this, if_false, Int.zero_add]
    · simp at hok
    · simp at hok

/-- what the files and the shared cache must satisfy along a history, relative to the state `s0` it started from and
the ghost `g`: every cache entry is absent or equal to its file, every file carries its store's configuration `M n`,
and every file's count is the initial count plus the committed deltas -/
def Acc (M : String → Nat) (s0 : St) (h : H) : Prop :=
  Inv M h.s ∧ ∀ n, ((h.s n).disk).map (·.count) = ((s0 n).disk).map (fun d => d.count + h.committed n)

/-- a commit of the kind C13 quantifies over: one entry per store, carrying that store's own configuration; whatever
fails during the forward pass fails before taking effect (an I/O error: unreadable or unwritable file, full or broken
disk — not a torn write, not a tolerated cache failure: C20-F3's subject); nobody removes a store meanwhile; the undo
pass itself is not disturbed (evictions are fine) -/
def GoodCommit (M : String → Nat) (l : List Upd) : Prop :=
  (l.map (·.name)).Nodup ∧
  ∀ u ∈ l, u.info = M u.name ∧ u.fwd.clean = true ∧ u.fwd.gone = false ∧ u.und.quiet = true

def GoodEv (M : String → Nat) : Ev → Prop
  | .commit l => GoodCommit M l
  | _ => True

theorem read_state (s : St) (n : String) : ∃ c, (s.read n).1 = s.set n c ∧ c = ((s n).get {}).1 := by
  unfold St.read
  split
  · rename_i c r heq; exact ⟨c, rfl, by rw [heq]⟩
  · rename_i c g _ heq; exact ⟨c, rfl, by rw [heq]⟩

theorem acc_step (M : String → Nat) (s0 : St) (h : H) (e : Ev) (ha : Acc M s0 h) (hg : GoodEv M e) :
    Acc M s0 (h.step update e).1 := by
  obtain ⟨hi, hc⟩ := ha
  cases e with
  | read n =>
    obtain ⟨c, e1, e2⟩ := read_state h.s n
    simp only [H.step, e1]
    have hci : Cell.Inv (M n) c := by rw [e2]; exact get_inv {} (hi n)
    refine ⟨set_inv _ _ hi hci, fun m => ?_⟩
    dsimp only
    by_cases em : m = n
    · subst em; rw [set_same, e2, get_disk]; exact hc m
    · rw [set_other _ _ em]; exact hc m
  | evict n =>
    simp only [H.step, St.evict]
    refine ⟨set_inv _ _ hi ⟨Or.inl rfl, (hi n).2⟩, fun m => ?_⟩
    dsimp only
    by_cases em : m = n
    · subst em; rw [set_same]; exact hc m
    · rw [set_other _ _ em]; exact hc m
  | commit l =>
    obtain ⟨hnd, hl⟩ := hg
    have hclean : ∀ u ∈ l, u.info = M u.name ∧ u.fwd.clean = true ∧ u.und.clean = true :=
      fun u hu => ⟨(hl u hu).1, (hl u hu).2.1, Flt.clean_of_quiet (hl u hu).2.2.2⟩
    have hinv : Inv M (update h.s l).1 :=
      loop_inv (sortByName l) h.s [] hi (by simp) (fun u hu => hclean u (mem_sortByName.1 hu))
    simp only [H.step]
    refine ⟨hinv, fun n => ?_⟩
    by_cases hok : (update h.s l).2 = .ok
    · simp only [hok, if_true]
      have := loop_ok_count (M := M) (sortByName l) h.s [] hi
        (fun u hu => ⟨(hl u (mem_sortByName.1 hu)).1, (hl u (mem_sortByName.1 hu)).2.1⟩) hok n
      rw [sumDelta_sort] at this
      unfold update
      rw [this]
      have hcn := hc n
      cases hd : (h.s n).disk with
      | none => rw [hd] at hcn; cases hs : (s0 n).disk <;> simp_all
      | some d =>
        rw [hd] at hcn
        cases hs : (s0 n).disk with
        | none => rw [hs] at hcn; simp at hcn
        | some d0 =>
          rw [hs] at hcn
          simp only [Option.map_some, Option.some.injEq] at hcn ⊢
          omega
    · simp only [hok, if_false]
      have := loop_restore (M := M) (fun n => (h.s n).disk) (sortByName l) h.s [] hi
        (by simpa using nodup_sortByName hnd) (by simp) (by simp)
        (fun u hu => ⟨(hl u (mem_sortByName.1 hu)).1, (hl u (mem_sortByName.1 hu)).2.1, (hl u (mem_sortByName.1 hu)).2.2.2⟩)
        hok n (fun u hu hgone => by
          have := (hl u (mem_sortByName.1 hu)).2.2.1
          rw [this] at hgone; cases hgone)
      unfold update
      rw [this]
      exact hc n

theorem acc_run (M : String → Nat) (s0 : St) : ∀ (es : List Ev) (h : H), Acc M s0 h → (∀ e ∈ es, GoodEv M e) →
    Acc M s0 (h.run update es)
  | [], _, ha, _ => ha
  | e :: es, h, ha, hg => acc_run M s0 es _ (acc_step M s0 h e ha (hg e (by simp))) (fun e' he' => hg e' (by simp [he']))

/-- **C13_count_history**: start from any coherent state (every cache entry absent or equal to its file), run ANY
history of commits on any stores — including multi-store `Update`s that fail at the second, third, … store and are
undone —, cache-first reads and evictions, all in one process with one shared L2 cache. Then for every store that
existed at the start, what a freshly started process reads (`storeinfo.txt`) is: count = initial count + the sum of the
deltas of the commits that returned ok, and the store's own configuration; and a cache-first reader in the same process
is answered with exactly that record. -/
theorem C13_count_history (M : String → Nat) (s0 : St) (es : List Ev) (h0 : Inv M s0)
    (hg : ∀ e ∈ es, GoodEv M e) (n : String) (d0 : Rec) (hd0 : (s0 n).disk = some d0) :
    let h := (H.mk s0 (fun _ => 0)).run update es
    (∃ d, h.cold n = some d ∧ d.count = d0.count + h.committed n ∧ d.info = M n) ∧
    (h.s.read n).2 = h.cold n := by
  intro h
  have ha : Acc M s0 h := acc_run M s0 es _ ⟨h0, fun m => by cases (s0 m).disk <;> simp⟩ hg
  obtain ⟨hi, hc⟩ := ha
  have hcn := hc n
  rw [hd0] at hcn
  refine ⟨?_, ?_⟩
  · cases hd : (h.s n).disk with
    | none => rw [hd] at hcn; simp at hcn
    | some d =>
      rw [hd] at hcn
      simp only [Option.map_some, Option.some.injEq] at hcn
      exact ⟨d, hd, hcn, (hi n).2 d hd⟩
  · -- the cache-first read: the entry is absent or equal to the file
    obtain ⟨hcoh, _⟩ := hi n
    unfold St.read Cell.get H.cold
    cases hcache : (h.s n).cache with
    | some r =>
      rcases hcoh with hcoh | hcoh
      · rw [hcache] at hcoh; cases hcoh
      · simp only [← hcoh, hcache]
    | none =>
      cases hd : (h.s n).disk with
      | none => simp
      | some d => simp

/-! ### the seeded demo as a history: two stores, a two-store commit that fails at the second store and is undone,
then a successful commit on the first store -/

def demoState : St := fun n =>
  if n = "alpha" then ⟨some ⟨0, 111, 1⟩, some ⟨0, 111, 1⟩⟩ else if n = "beta" then ⟨some ⟨0, 111, 2⟩, some ⟨0, 111, 2⟩⟩ else {}
def demoInfo : String → Nat := fun n => if n = "alpha" then 1 else 2
/-- beta's `storeinfo.txt` cannot be read or written during the first commit -/
def demoHistory : List Ev :=
  [.commit [{ name := "alpha", delta := 3, ts := 1000, info := 1 },
            { name := "beta", delta := 5, ts := 1000, info := 2, fwd := { getErr := true, fastRead := true, fullWrite := .before } }],
   .read "alpha",
   .commit [{ name := "alpha", delta := 2, ts := 2000, info := 1 }]]

theorem demoState_inv : SICache.Inv demoInfo demoState := by
  intro n
  unfold demoState demoInfo Cell.Inv Cell.Coh
  split
  · simp
  · split <;> simp

/-- non-vacuity: the demo history satisfies the hypotheses of `C13_count_history` (its first commit fails and is undone) -/
theorem demoHistory_good : ∀ e ∈ demoHistory, GoodEv demoInfo e := by
  intro e he
  simp only [demoHistory, List.mem_cons, List.mem_nil_iff, or_false] at he
  rcases he with rfl | rfl | rfl
  · refine ⟨by decide, ?_⟩
    intro u hu
    simp only [List.mem_cons, List.mem_nil_iff, or_false] at hu
    rcases hu with rfl | rfl <;> decide
  · trivial
  · refine ⟨by decide, ?_⟩
    intro u hu
    simp only [List.mem_cons, List.mem_nil_iff, or_false] at hu
    rcases hu with rfl
    decide

/-- on the code as it is: the failed commit is reported as failed, only the second commit counts, and a cold process
reads count 2 with the second commit's timestamp and alpha's own configuration -/
theorem demo_as_is :
    ((H.mk demoState (fun _ => 0)).step update demoHistory.head!).2 = some .err ∧
    ((H.mk demoState (fun _ => 0)).run update demoHistory).committed "alpha" = 2 ∧
    ((H.mk demoState (fun _ => 0)).run update demoHistory).cold "alpha" = some ⟨2, 2000, 1⟩ ∧
    ((H.mk demoState (fun _ => 0)).run update demoHistory).cold "beta" = some ⟨0, 111, 2⟩ := by
  decide +kernel

/-- **C13_recache_unreverted_witness**: the same history on the variant whose `undo` re-caches the caller's record
`stores[ii]` instead of the reverted record `si` (one expression in `StoreRepository.Update`): right after the undone
commit the file is still right (count 0) but the cache says 3; the next commit (+2) takes its base from the cache, and
what a cold process reads afterwards is count 5 although only 2 items were ever committed — `C13_count_history` fails
for the variant. -/
theorem C13_recache_unreverted_witness :
    ((H.mk demoState (fun _ => 0)).run updateBad (demoHistory.take 1)).cold "alpha" = some ⟨0, 111, 1⟩ ∧
    (((H.mk demoState (fun _ => 0)).run updateBad (demoHistory.take 1)).s "alpha").cache = some ⟨3, 1000, 1⟩ ∧
    ((H.mk demoState (fun _ => 0)).run updateBad demoHistory).committed "alpha" = 2 ∧
    ((H.mk demoState (fun _ => 0)).run updateBad demoHistory).cold "alpha" = some ⟨5, 2000, 1⟩ := by
  decide +kernel

end Sop.C13

namespace Sop.C13
open Sop.SIGet

/-! ## configuration half, across processes: multi-name `Get`, commits, reopen -/

theorem merge_nil (f : List Nat) : merge [] f = f := by simp [merge]

/-- decoding into a FRESH value yields exactly the file's record -/
theorem decodeInto_zero (f : Cfg) : decodeInto Cfg.zero f = f := by
  cases f
  simp [decodeInto, Cfg.zero, keep, merge_nil]
  refine ⟨?_, ?_, ?_, ?_, ?_⟩ <;> (intro h; exact h.symm)

theorem cell_set (s : St) (n m : String) (c : Cell) : (s.set n c).cell m = if m = n then c else s.cell m := by
  unfold St.set St.cell
  by_cases h : m = n
  · subst h; simp [List.lookup]
  · have : (m == n) = false := by simpa using h
    simp [List.lookup, this, h]

/-- loop 2 of the code as it is: files untouched, every reader is still owed the same record, every appended record is
the one its own name is owed -/
structure MInv (s0 : St) (a : SIGet.Acc) : Prop where
  disk : ∀ m, (a.s.cell m).disk = (s0.cell m).disk
  due : ∀ m, SIGet.own a.s m = SIGet.own s0 m
  out : ∀ p ∈ a.out, SIGet.own s0 p.1 = some p.2

theorem missStep_inv (s0 : St) (a : SIGet.Acc) (n : String) (h : MInv s0 a) (hn : (s0.cell n).cache = none) :
    MInv s0 (missStep false a n) := by
  unfold missStep
  cases hd : (a.s.cell n).disk with
  | none => simpa using h
  | some f =>
    have hown0 : own s0 n = some f := by
      unfold own; rw [hn]; simp only; rw [← h.disk n, hd]
    simp only [Bool.false_eq_true, if_false, decodeInto_zero]
    refine ⟨fun m => ?_, fun m => ?_, fun p hp => ?_⟩
    · simp only [cell_set]
      by_cases e : m = n
      · subst e; simp; rw [← h.disk m, hd]
      · simp [e]; exact h.disk m
    · unfold own
      simp only [cell_set]
      by_cases e : m = n
      · subst e; simp; exact hown0.symm
      · simp only [e, if_false]; exact h.due m
    · rcases List.mem_append.1 hp with hp | hp
      · exact h.out p hp
      · simp only [List.mem_singleton] at hp; subst hp; exact hown0

theorem fold_inv (s0 : St) : ∀ (ms : List String) (a : SIGet.Acc), MInv s0 a → (∀ n ∈ ms, (s0.cell n).cache = none) →
    MInv s0 (ms.foldl (missStep false) a)
  | [], a, h, _ => h
  | n :: ms, a, h, hm =>
    fold_inv s0 ms _ (missStep_inv s0 a n h (hm n (by simp))) (fun k hk => hm k (by simp [hk]))

theorem get_inv (s : St) (names : List String) :
    MInv s ((names.filter fun n => (s.cell n).cache.isNone).foldl (missStep false) ⟨s, Cfg.zero, []⟩) :=
  fold_inv s _ _ ⟨fun _ => rfl, fun _ => rfl, by simp⟩ (by
    intro n hn
    simp only [List.mem_filter, Option.isNone_iff_eq_none] at hn
    exact hn.2)

/-- **C13_get_independent**: in `GetWithTTL(names…)` of the code as it is, the record returned for a name is exactly
what THAT name is owed (its own cache entry, else its own file) — whatever other names the call carries, in whatever
order, and whatever their files contain. -/
theorem C13_get_independent (s : St) (names : List String) :
    ∀ p ∈ (getWith false s names).2, own s p.1 = some p.2 := by
  intro p hp
  unfold getWith at hp
  simp only at hp
  rcases List.mem_append.1 hp with hp | hp
  · simp only [List.mem_filterMap] at hp
    obtain ⟨n, _, hn⟩ := hp
    cases hc : (s.cell n).cache with
    | none => simp [hc] at hn
    | some c =>
      simp only [hc, Option.map_some, Option.some.injEq] at hn
      subst hn
      simp [own, hc]
  · exact (get_inv s names).out p hp

/-- … so two calls with different companions / a different order agree on every name they share -/
theorem C13_get_order_independent (s : St) (names names' : List String) (p q : String × Cfg)
    (hp : p ∈ (getWith false s names).2) (hq : q ∈ (getWith false s names').2) (e : p.1 = q.1) : p.2 = q.2 := by
  have a := C13_get_independent s names p hp
  have b := C13_get_independent s names' q hq
  rw [e, b] at a
  exact (Option.some.inj a).symm

/-- the call changes no file and nobody's due (the entries it caches are the files' own records) -/
theorem get_state (s : St) (names : List String) (m : String) :
    ((getWith false s names).1.cell m).disk = (s.cell m).disk ∧ own (getWith false s names).1 m = own s m :=
  ⟨(get_inv s names).disk m, (get_inv s names).due m⟩

/-- every cache entry equals its file -/
def Coh (s : St) : Prop := ∀ m c, (s.cell m).cache = some c → (s.cell m).disk = some c

theorem own_of_coh {s : St} (h : Coh s) (m : String) : own s m = (s.cell m).disk := by
  unfold own
  cases hc : (s.cell m).cache with
  | none => rfl
  | some c => simp only; exact (h m c hc).symm

theorem coh_of_own {s : St} (h : ∀ m, own s m = (s.cell m).disk) : Coh s := by
  intro m c hc
  have := h m
  simp only [own, hc] at this
  exact this.symm

theorem coldStart_cell (names : List String) : ∀ (s : St) (m : String),
    ((s.coldStart names).cell m).disk = (s.cell m).disk ∧
    (((s.coldStart names).cell m).cache = (s.cell m).cache ∨ ((s.coldStart names).cell m).cache = none) := by
  induction names with
  | nil => intro s m; exact ⟨rfl, Or.inl rfl⟩
  | cons n ns ih =>
    intro s m
    unfold St.coldStart
    simp only [List.foldl_cons]
    have := ih (s.set n { s.cell n with cache := none }) m
    unfold St.coldStart at this
    rw [cell_set] at this
    by_cases e : m = n
    · subst e; simp only [if_true] at this
      exact ⟨this.1, Or.inr (by rcases this.2 with h | h <;> simpa using h)⟩
    · simp only [e, if_false] at this; exact this

theorem step_inv (s0 s : St) (e : Ev) (hc : Coh s) (hd : ∀ m, (s.cell m).disk = (s0.cell m).disk) :
    Coh (step false s e) ∧ ∀ m, ((step false s e).cell m).disk = (s0.cell m).disk := by
  cases e with
  | get names =>
    simp only [step]
    refine ⟨coh_of_own fun m => ?_, fun m => by rw [(get_state s names m).1]; exact hd m⟩
    rw [(get_state s names m).2, own_of_coh hc, (get_state s names m).1]
  | commit n full =>
    simp only [step, commitWith]
    have hg : Coh (getWith false s [n]).1 := coh_of_own fun m => by
      rw [(get_state s [n] m).2, own_of_coh hc, (get_state s [n] m).1]
    have hgd : ∀ m, ((getWith false s [n]).1.cell m).disk = (s0.cell m).disk := fun m => by
      rw [(get_state s [n] m).1]; exact hd m
    cases ho : own (getWith false s [n]).1 n with
    | none => exact ⟨hg, hgd⟩
    | some caller =>
      have hcd : ((getWith false s [n]).1.cell n).disk = some caller := by rw [← own_of_coh hg]; exact ho
      simp only
      refine ⟨?_, fun m => ?_⟩
      · intro m c hmc
        rw [cell_set] at hmc ⊢
        by_cases e : m = n
        · subst e
          simp only [if_true] at hmc ⊢
          cases full <;> simp_all
        · simp only [e, if_false] at hmc ⊢; exact hg m c hmc
      · rw [cell_set]
        by_cases e : m = n
        · subst e
          simp only [if_true]
          cases full
          · simp; exact hgd m
          · simp; rw [← hcd]; exact hgd m
        · simp only [e, if_false]; exact hgd m
  | evict n =>
    simp only [step, St.evict]
    refine ⟨?_, fun m => ?_⟩
    · intro m c hmc
      rw [cell_set] at hmc ⊢
      by_cases e : m = n
      · subst e; simp at hmc
      · simp only [e, if_false] at hmc ⊢; exact hc m c hmc
    · rw [cell_set]
      by_cases e : m = n
      · subst e; simp; exact hd m
      · simp only [e, if_false]; exact hd m
  | cold names =>
    simp only [step]
    refine ⟨?_, fun m => by rw [(coldStart_cell names s m).1]; exact hd m⟩
    intro m c hmc
    rcases (coldStart_cell names s m).2 with h | h
    · rw [(coldStart_cell names s m).1]; rw [h] at hmc; exact hc m c hmc
    · rw [h] at hmc; cases hmc

/-- **C13_config_history**: from a state in which every cache entry equals its file, after ANY history of multi-name
`Get`s (any names, any order), commits (patch or full save) by transactions that opened their store with a cache-first
`Get`, evictions and process restarts, every store's `storeinfo.txt` carries exactly the configuration it had — and
every cache entry still equals its file, so every reader in every process gets that configuration. -/
theorem C13_config_history (s : St) (es : List Ev) (hc : Coh s) :
    Coh (run false s es) ∧ ∀ m, ((run false s es).cell m).disk = (s.cell m).disk := by
  suffices h : ∀ (es : List Ev) (t : St), Coh t → (∀ m, (t.cell m).disk = (s.cell m).disk) →
      Coh (run false t es) ∧ ∀ m, ((run false t es).cell m).disk = (s.cell m).disk from h es s hc (fun _ => rfl)
  intro es
  induction es with
  | nil => intro t a b; exact ⟨a, b⟩
  | cons e es ih =>
    intro t a b
    obtain ⟨a', b'⟩ := step_inv s t e a b
    exact ih _ a' b'

/-! ### the seeded demo: `orders` (CEL expression, relations, custom data) and `plain` (nothing optional) -/
def ordersCfg : Cfg := { base := 1, cel := 1, rel := 1, cd := [1] }
def plainCfg : Cfg := { base := 2 }
def demoG : St := St.add (St.add [] "orders" ordersCfg) "plain" plainCfg
/-- a new process reads both stores in one call, opens `plain` and commits its first item (full save); reopen -/
def demoGHistory : List Ev :=
  [.cold ["orders", "plain"], .get ["orders", "plain"], .commit "plain" true, .cold ["orders", "plain"]]

theorem coh_nil : Coh [] := by
  intro m c h; simp [St.cell] at h

theorem coh_add {s : St} (h : Coh s) (n : String) (c : Cfg) : Coh (s.add n c) := by
  intro m x hx
  unfold St.add at *
  rw [cell_set] at hx ⊢
  by_cases e : m = n
  · simp only [e, if_true] at hx ⊢; simpa using hx
  · simp only [e, if_false] at hx ⊢; exact h m x hx

theorem demoG_coh : Coh demoG := coh_add (coh_add coh_nil _ _) _ _

theorem demoG_as_is : ((run false demoG demoGHistory).cell "plain").disk = some plainCfg ∧
    (getWith false (demoG.coldStart ["orders", "plain"]) ["orders", "plain"]).2 = [("orders", ordersCfg), ("plain", plainCfg)] := by
  decide +kernel

/-- **C13_shared_target_witness**: the variant with ONE decode target for all the misses of a call: `plain` comes back
from the two-name `Get` with the CEL expression, relations and custom data of `orders`, the record is cached under
`plain`'s own key, and the full save of `plain`'s first commit writes it to `plain`'s storeinfo.txt: a cold reopen reads
a foreign configuration (`C13_get_independent` / `C13_config_history` fail for the variant). In the other order
(`plain` first) nothing shows. -/
theorem C13_shared_target_witness :
    (getWith true (demoG.coldStart ["orders", "plain"]) ["orders", "plain"]).2 =
      [("orders", ordersCfg), ("plain", { base := 2, cel := 1, rel := 1, cd := [1] })] ∧
    ((run true demoG demoGHistory).cell "plain").disk = some { base := 2, cel := 1, rel := 1, cd := [1] } ∧
    (getWith true (demoG.coldStart ["orders", "plain"]) ["plain", "orders"]).2 = [("plain", plainCfg), ("orders", ordersCfg)] := by
  decide +kernel

end Sop.C13
