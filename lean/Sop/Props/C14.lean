import Sop.Model.Lifecycle
/-!
# C14 — transaction modes and lifecycle are enforced

Theorems about `Sop.Lifecycle` (the transcription of `Begin / Phase1Commit / Phase2Commit / Rollback / Close`,
`SinglePhaseTransaction.Commit`, `NewBtree / OpenBtree` and the `btreeWithTransaction` guards), all over
**every** call sequence (`List Op`, unbounded) and all three modes.

* `ops_only_when_begun`, `committed_cannot_rollback`, `finished_is_final` hold at full strength.
* `readonly_never_writes` is **violated by the code**: `NewBtree` never looks at the mode. The full statement is
  `Statement_readonly_never_writes`; `C14_counterexample` refutes it with the witness the harness replays first;
  `readonly_never_writes_partial` is the strongest true version (excluding exactly the store-creating `NewBtree`).
-/
namespace Sop.C14
open Sop.Lifecycle

/-! ## frame facts -/

theorem hasBegun_done (s : St) (h : s.pd = 2) : s.hasBegun = false := by
  simp [St.hasBegun, h]

theorem rollbackTx_done (s : St) (h : s.pd = 2) : (rollbackTx s).1 = s ∧ (rollbackTx s).2.2 = [] := by
  unfold rollbackTx
  simp only [h, if_true]
  split <;> simp

/-- a finished transaction (`phaseDone = 2`) is frozen: no call changes anything or writes anything -/
theorem stepCore_done (s : St) (op : Op) (h : s.pd = 2) : (stepCore s op).1 = s ∧ (stepCore s op).2.2 = [] := by
  have hb := hasBegun_done s h
  have hr := rollbackTx_done s h
  cases op with
  | begin => simp [stepCore, beginTx, hb, h]
  | phase1 => simp [stepCore, phase1Tx, hb]
  | phase2 => simp [stepCore, phase2Tx, hb]
  | commit =>
    simp only [stepCore, commitTx, phase1Tx, hb, Bool.not_false, if_true, Res.isOk]
    simp [hr]
  | rollback => simpa [stepCore] using hr
  | close => simp [stepCore]
  | newBtree => simp [stepCore, newBtree, hb]
  | openBtree => simp [stepCore, openBtree, hb]
  | store k =>
    simp only [stepCore, storeOp, hb]
    cases s.handle <;> cases k.mutating <;> simp [hr]

theorem step_done (s : St) (op : Op) (h : s.pd = 2) : (step s op).1 = s ∧ (step s op).2.2 = [] := by
  obtain ⟨h1, h2⟩ := stepCore_done s op h
  unfold step
  simp [h1, h2]

theorem run_done (s : St) (ops : List Op) (h : s.pd = 2) : run s ops = s := by
  induction ops with
  | nil => rfl
  | cons op ops ih => simp only [run, (step_done s op h).1, ih]

theorem trace_done (s : St) (ops : List Op) (h : s.pd = 2) :
    ∀ e ∈ trace s ops, e.pre = s ∧ e.post = s ∧ e.w = [] ∧ e.res = (step s e.op).2.1 := by
  induction ops with
  | nil => intro e he; simp [trace] at he
  | cons op ops ih =>
    intro e he
    simp only [trace, List.mem_cons] at he
    rcases he with rfl | he
    · exact ⟨rfl, (step_done s op h).1, (step_done s op h).2, rfl⟩
    · rw [(step_done s op h).1] at he
      exact ih e he

/-! ## 1. store-level calls succeed only while the transaction has begun -/

@[simp] theorem isOk_err (e : Err) : (Res.err e).isOk = false := rfl
@[simp] theorem isOk_noHandle : Res.noHandle.isOk = false := rfl
@[simp] theorem isOk_ok : Res.ok.isOk = true := rfl
@[simp] theorem isOk_okB (b : Bool) : (Res.okB b).isOk = true := rfl
@[simp] theorem isOk_ite_err (c : Prop) [Decidable c] (a b : Err) :
    (if c then Res.err a else Res.err b).isOk = false := by split <;> rfl

def isStoreLevel : Op → Bool
  | .newBtree => true
  | .openBtree => true
  | .store _ => true
  | _ => false

theorem step_ok_begun (s : St) (op : Op) (hop : isStoreLevel op = true) (hok : (step s op).2.1.isOk = true) :
    s.hasBegun = true := by
  cases hb : s.hasBegun with
  | true => rfl
  | false =>
    exfalso
    cases op with
    | newBtree => simp [step, stepCore, newBtree, hb] at hok
    | openBtree => simp [step, stepCore, openBtree, hb] at hok
    | store k =>
      simp only [step, stepCore, storeOp, hb] at hok
      cases hh : s.handle <;> cases hm : k.mutating <;> simp [hh, hm] at hok
    | _ => simp [isStoreLevel] at hop

/-- **ops_only_when_begun**: in every call sequence from every state, `NewBtree`, `OpenBtree` and every B-tree call
through the wrapper (find/get/add/update/remove) return ok only if `HasBegun()` held when they were called -/
theorem ops_only_when_begun (s : St) (ops : List Op) :
    ∀ e ∈ trace s ops, isStoreLevel e.op = true → e.res.isOk = true → e.pre.hasBegun = true := by
  induction ops generalizing s with
  | nil => intro e he; simp [trace] at he
  | cons op ops ih =>
    intro e he
    simp only [trace, List.mem_cons] at he
    rcases he with rfl | he
    · exact step_ok_begun s op
    · exact ih _ e he

/-! ## 2. a non-writer transaction never writes — violated -/

/-- the full-strength statement (what the property asks for) -/
def Statement_readonly_never_writes : Prop :=
  ∀ (m : Mode) (i : Init) (ops : List Op), m ≠ .forWriting → (run (init m i) ops).writes = 0

/-- the witness: a `ForReading` transaction on a folder without the store: Begin, NewBtree, Commit -/
def witness : List Op := [.begin, .newBtree, .commit]

/-- what happens on the witness: every call returns ok, the `NewBtree` call issues `StoreRepository.Add`,
the commit reports success, and a later transaction sees the store -/
theorem witness_behaviour :
    (trace (init .forReading .absent) witness).map (fun e => (e.res, e.w)) =
        [(.ok, []), (.ok, [W.srAdd]), (.ok, [])]
    ∧ (run (init .forReading .absent) witness).committed = true
    ∧ seen (init .forReading .absent) = .absent
    ∧ seen (run (init .forReading .absent) witness) = .present 0
    ∧ (run (init .noCheck .absent) witness).writes = 1 := by
  decide

/-- **C14_counterexample**: the code does not satisfy `readonly_never_writes` -/
theorem C14_counterexample : ¬ Statement_readonly_never_writes := by
  intro h
  have := h .forReading .absent witness (by decide)
  revert this
  decide

/-- the call is a `NewBtree` that takes the create branch: the transaction has begun and the store is not on disk -/
def createsStore (s : St) (op : Op) : Bool := decide (op = .newBtree) && s.hasBegun && !s.dExists

/-- no call of the sequence is a store-creating `NewBtree` (decidable; evaluated along the run) -/
def createFree (s : St) : List Op → Bool
  | [] => true
  | op :: ops => !createsStore s op && createFree (step s op).1 ops

/-- invariant of a non-writer transaction that has created no store -/
structure RO (s : St) : Prop where
  mode : s.mode ≠ .forWriting
  notCreated : ∀ b, s.backend = some b → b.created = false
  log : s.logState ≤ 1

theorem RO.of_eq {s s' : St} (h : RO s) (hm : s'.mode = s.mode) (hb : s'.backend = s.backend) (hl : s'.logState ≤ 1) : RO s' :=
  ⟨hm ▸ h.mode, fun b hb' => h.notCreated b (hb ▸ hb'), hl⟩

theorem rollbackCore_ro (s : St) (h : RO s) : RO (rollbackCore s).1 ∧ (rollbackCore s).2 = [] := by
  unfold rollbackCore
  split
  · exact ⟨h.of_eq rfl rfl (Nat.zero_le _), rfl⟩
  · rename_i b hb
    have hc := h.notCreated b hb
    have hl := h.log
    have h9 : ¬ s.logState > 9 := by omega
    have h6 : ¬ s.logState > 6 := by omega
    have h4 : ¬ s.logState > 4 := by omega
    refine ⟨h.of_eq rfl rfl (Nat.zero_le _), ?_⟩
    simp [hc, h9, h6, h4]

theorem rollbackTx_ro (s : St) (h : RO s) : RO (rollbackTx s).1 ∧ (rollbackTx s).2.2 = [] := by
  unfold rollbackTx
  split
  · split <;> exact ⟨h, rfl⟩
  · split
    · exact ⟨h, rfl⟩
    · have h2 : RO { s with pd := 2 } := h.of_eq rfl rfl h.log
      exact rollbackCore_ro _ h2

theorem beginTx_ro (s : St) (h : RO s) : RO (beginTx s).1 ∧ (beginTx s).2.2 = [] := by
  unfold beginTx
  split
  · exact ⟨h, rfl⟩
  · split
    · exact ⟨h, rfl⟩
    · exact ⟨h.of_eq rfl rfl h.log, rfl⟩

theorem phase1Tx_ro (s : St) (h : RO s) : RO (phase1Tx s).1 ∧ (phase1Tx s).2.2 = [] := by
  unfold phase1Tx
  split
  · exact ⟨h, rfl⟩
  · split
    · exact ⟨h.of_eq rfl rfl h.log, rfl⟩
    · exact ⟨h.of_eq rfl rfl h.log, rfl⟩
    · rename_i hmode
      exact absurd hmode h.mode

theorem phase2Tx_ro (s : St) (h : RO s) : RO (phase2Tx s).1 ∧ (phase2Tx s).2.2 = [] := by
  unfold phase2Tx
  split
  · exact ⟨h, rfl⟩
  · split
    · exact ⟨h, rfl⟩
    · split
      · rename_i hmode
        exact absurd hmode h.mode
      · exact ⟨h.of_eq rfl rfl h.log, rfl⟩

theorem commitTx_ro (s : St) (h : RO s) : RO (commitTx s).1 ∧ (commitTx s).2.2 = [] := by
  unfold commitTx
  obtain ⟨r1, w1⟩ := phase1Tx_ro s h
  obtain ⟨r2, w2⟩ := phase2Tx_ro _ r1
  obtain ⟨r3, w3⟩ := rollbackTx_ro _ r2
  obtain ⟨r4, w4⟩ := rollbackTx_ro _ r1
  simp only
  split
  · split
    · exact ⟨r2, by simp [w1, w2]⟩
    · exact ⟨r3, by simp [w1, w2, w3]⟩
  · exact ⟨r4, by simp [w1, w4]⟩

theorem newBtree_ro (s : St) (h : RO s) (hc : createsStore s .newBtree = false) :
    RO (newBtree s).1 ∧ (newBtree s).2.2 = [] := by
  unfold newBtree
  split
  · exact ⟨h, rfl⟩
  · rename_i hb
    have he : s.dExists = true := by
      simp [createsStore] at hc hb
      cases hd : s.dExists <;> simp_all
    simp only [he, Bool.not_true, Bool.false_eq_true, if_false]
    split
    · exact ⟨h.of_eq rfl rfl h.log, rfl⟩
    · exact ⟨⟨h.mode, by intro b hb'; simp at hb'; rw [← hb'], h.log⟩, rfl⟩

theorem openBtree_ro (s : St) (h : RO s) : RO (openBtree s).1 ∧ (openBtree s).2.2 = [] := by
  unfold openBtree
  split
  · exact ⟨h, rfl⟩
  · split
    · exact ⟨h.of_eq rfl rfl h.log, rfl⟩
    · split
      · exact rollbackTx_ro s h
      · exact ⟨⟨h.mode, by intro b hb'; simp at hb'; rw [← hb'], h.log⟩, rfl⟩

theorem delegate_created (b : Backend) (k : Kind) : (delegate b k).1.created = b.created := by
  cases k <;> simp only [delegate] <;> (try split) <;> (try split) <;> rfl

theorem storeOp_ro (s : St) (k : Kind) (h : RO s) : RO (storeOp s k).1 ∧ (storeOp s k).2.2 = [] := by
  unfold storeOp
  split
  · exact ⟨h, rfl⟩
  · split
    · split
      · exact ⟨h, rfl⟩
      · exact rollbackTx_ro s h
    · split
      · exact rollbackTx_ro s h
      · split
        · exact ⟨h, rfl⟩
        · rename_i b hbk
          refine ⟨⟨h.mode, ?_, h.log⟩, rfl⟩
          intro b' hb'
          simp at hb'
          rw [← hb', delegate_created]
          exact h.notCreated b hbk

theorem stepCore_ro (s : St) (op : Op) (h : RO s) (hc : createsStore s op = false) :
    RO (stepCore s op).1 ∧ (stepCore s op).2.2 = [] := by
  cases op with
  | begin => exact beginTx_ro s h
  | phase1 => exact phase1Tx_ro s h
  | phase2 => exact phase2Tx_ro s h
  | commit => exact commitTx_ro s h
  | rollback => exact rollbackTx_ro s h
  | close => exact ⟨h, rfl⟩
  | newBtree => exact newBtree_ro s h hc
  | openBtree => exact openBtree_ro s h
  | store k => exact storeOp_ro s k h

/-! the ghost counter is advanced by `step` only -/
theorem rollbackCore_writes (s : St) : (rollbackCore s).1.writes = s.writes := by
  unfold rollbackCore; split <;> rfl

theorem rollbackTx_writes (s : St) : (rollbackTx s).1.writes = s.writes := by
  unfold rollbackTx
  split
  · split <;> rfl
  · split
    · rfl
    · exact rollbackCore_writes _

theorem phase1Writer_writes (s : St) : (phase1Writer s).1.writes = s.writes := by
  unfold phase1Writer
  split
  · rfl
  · split
    · rfl
    · split <;> rfl

theorem phase1Tx_writes (s : St) : (phase1Tx s).1.writes = s.writes := by
  unfold phase1Tx
  split
  · rfl
  · split
    · rfl
    · rfl
    · exact phase1Writer_writes _

theorem phase2Tx_writes (s : St) : (phase2Tx s).1.writes = s.writes := by
  unfold phase2Tx
  split
  · rfl
  · split
    · rfl
    · split <;> rfl

theorem stepCore_writes (s : St) (op : Op) : (stepCore s op).1.writes = s.writes := by
  cases op with
  | begin =>
    simp only [stepCore, beginTx]
    split
    · rfl
    · split <;> rfl
  | phase1 => exact phase1Tx_writes s
  | phase2 => exact phase2Tx_writes s
  | commit =>
    simp only [stepCore, commitTx]
    split
    · split
      · rw [phase2Tx_writes, phase1Tx_writes]
      · rw [rollbackTx_writes, phase2Tx_writes, phase1Tx_writes]
    · rw [rollbackTx_writes, phase1Tx_writes]
  | rollback => exact rollbackTx_writes s
  | close => rfl
  | newBtree =>
    simp only [stepCore, newBtree]
    split
    · rfl
    · split
      · rfl
      · split <;> rfl
  | openBtree =>
    simp only [stepCore, openBtree]
    split
    · rfl
    · split
      · rfl
      · split
        · exact rollbackTx_writes s
        · rfl
  | store k =>
    simp only [stepCore, storeOp]
    split
    · rfl
    · split
      · split
        · rfl
        · exact rollbackTx_writes s
      · split
        · exact rollbackTx_writes s
        · split <;> rfl

/-! the mode never changes -/
theorem rollbackCore_mode (s : St) : (rollbackCore s).1.mode = s.mode := by
  unfold rollbackCore; split <;> rfl

theorem rollbackTx_mode (s : St) : (rollbackTx s).1.mode = s.mode := by
  unfold rollbackTx
  split
  · split <;> rfl
  · split
    · rfl
    · exact rollbackCore_mode _

theorem phase1Writer_mode (s : St) : (phase1Writer s).1.mode = s.mode := by
  unfold phase1Writer
  split
  · rfl
  · split
    · rfl
    · split <;> rfl

theorem phase1Tx_mode (s : St) : (phase1Tx s).1.mode = s.mode := by
  unfold phase1Tx
  split
  · rfl
  · split
    · rfl
    · rfl
    · exact phase1Writer_mode _

theorem phase2Tx_mode (s : St) : (phase2Tx s).1.mode = s.mode := by
  unfold phase2Tx
  split
  · rfl
  · split
    · rfl
    · split <;> rfl

theorem stepCore_mode (s : St) (op : Op) : (stepCore s op).1.mode = s.mode := by
  cases op with
  | begin =>
    simp only [stepCore, beginTx]
    split
    · rfl
    · split <;> rfl
  | phase1 => exact phase1Tx_mode s
  | phase2 => exact phase2Tx_mode s
  | commit =>
    simp only [stepCore, commitTx]
    split
    · split
      · rw [phase2Tx_mode, phase1Tx_mode]
      · rw [rollbackTx_mode, phase2Tx_mode, phase1Tx_mode]
    · rw [rollbackTx_mode, phase1Tx_mode]
  | rollback => exact rollbackTx_mode s
  | close => rfl
  | newBtree =>
    simp only [stepCore, newBtree]
    split
    · rfl
    · split
      · rfl
      · split <;> rfl
  | openBtree =>
    simp only [stepCore, openBtree]
    split
    · rfl
    · split
      · rfl
      · split
        · exact rollbackTx_mode s
        · rfl
  | store k =>
    simp only [stepCore, storeOp]
    split
    · rfl
    · split
      · split
        · rfl
        · exact rollbackTx_mode s
      · split
        · exact rollbackTx_mode s
        · split <;> rfl

theorem step_mode (s : St) (op : Op) : (step s op).1.mode = s.mode := by
  unfold step; exact stepCore_mode s op

theorem step_mutation_refused (s : St) (k : Kind) (hm : s.mode ≠ .forWriting) (hk : k.mutating = true) :
    (step s (.store k)).2.1.isOk = false := by
  simp only [step, stepCore, storeOp, hk]
  split
  · rfl
  · split
    · rfl
    · have : (s.mode != Mode.forWriting) = true := by simpa using hm
      simp [this]

/-- **readonly_rejects_mutations**: in every call sequence of a `ForReading` or `NoCheck` transaction, from every
state, add/update/remove through the B-tree wrapper never return ok -/
theorem readonly_rejects_mutations (s : St) (ops : List Op) (hm : s.mode ≠ .forWriting) :
    ∀ e ∈ trace s ops, ∀ k, e.op = .store k → k.mutating = true → e.res.isOk = false := by
  induction ops generalizing s with
  | nil => intro e he; simp [trace] at he
  | cons op ops ih =>
    intro e he k hop hk
    simp only [trace, List.mem_cons] at he
    rcases he with rfl | he
    · simp only at hop
      subst hop
      exact step_mutation_refused s k hm hk
    · exact ih _ (by rw [step_mode]; exact hm) e he k hop hk

theorem step_ro (s : St) (op : Op) (h : RO s) (hw : s.writes = 0) (hc : createsStore s op = false) :
    RO (step s op).1 ∧ (step s op).1.writes = 0 := by
  obtain ⟨r, w⟩ := stepCore_ro s op h hc
  unfold step
  refine ⟨RO.of_eq r rfl rfl r.log, ?_⟩
  simp [w, stepCore_writes, hw]

theorem run_ro (s : St) (ops : List Op) (h : RO s) (hw : s.writes = 0) (hf : createFree s ops = true) :
    (run s ops).writes = 0 := by
  induction ops generalizing s with
  | nil => exact hw
  | cons op ops ih =>
    simp only [createFree, Bool.and_eq_true, Bool.not_eq_true'] at hf
    obtain ⟨r, w⟩ := step_ro s op h hw hf.1
    exact ih _ r w hf.2

theorem init_ro (m : Mode) (i : Init) (hm : m ≠ .forWriting) : RO (init m i) :=
  ⟨hm, by intro b hb; simp [init] at hb, by simp [init]⟩

/-- **readonly_never_writes_partial**: in every call sequence of a `ForReading` or `NoCheck` transaction, from every
initial condition, in which no call is a store-creating `NewBtree` (transaction begun, store not on disk), not a
single data write call is issued. Together with `C14_counterexample` this isolates the defect: the *only* way a
non-writer transaction writes is through `NewBtree`'s create branch (and the removal of that store on rollback). -/
theorem readonly_never_writes_partial (m : Mode) (i : Init) (ops : List Op) (hm : m ≠ .forWriting)
    (hf : createFree (init m i) ops = true) : (run (init m i) ops).writes = 0 :=
  run_ro _ ops (init_ro m i hm) (by simp [init]) hf

/-- the hypothesis is satisfiable by non-trivial sequences: a reader that opens an existing store, reads, tries to
write (refused, rolled back), …; a `NewBtree` on an *existing* store is fine; the witness is (rightly) excluded -/
example : createFree (init .forReading .one)
    [.begin, .openBtree, .store .get, .store .find, .phase1, .store .add, .rollback, .commit, .begin] = true := by decide
example : createFree (init .noCheck .empty) [.begin, .newBtree, .store .find, .commit, .rollback] = true := by decide
example : createFree (init .forReading .absent) [.begin, .openBtree, .newBtree, .commit] = true := by decide
example : createFree (init .forReading .absent) witness = false := by decide

/-! ## 3. once committed, never rolled back -/

/-- `committed` is only ever set together with `phaseDone = 2` -/
def J (s : St) : Prop := s.committed = false ∨ s.pd = 2

theorem hasBegun_pd (s : St) (h : s.hasBegun = true) : s.pd ≠ 2 := by
  simp [St.hasBegun] at h; omega

theorem rollbackCore_J (s : St) : (rollbackCore s).1.committed = s.committed ∧ (rollbackCore s).1.pd = s.pd := by
  unfold rollbackCore; split <;> exact ⟨rfl, rfl⟩

theorem rollbackTx_J (s : St) (h : J s) : J (rollbackTx s).1 := by
  unfold rollbackTx
  split
  · split <;> exact h
  · split
    · exact h
    · right; rw [(rollbackCore_J _).2]

theorem phase1Writer_J (s : St) (h : J s) : J (phase1Writer s).1 := by
  unfold phase1Writer
  split
  · exact h
  · split
    · exact h
    · split
      · right; rfl
      · rcases h with h | h
        · left; exact h
        · right; exact h

theorem phase1Tx_J (s : St) (h : J s) : J (phase1Tx s).1 := by
  unfold phase1Tx
  split
  · exact h
  · rename_i hb
    have hb' : s.hasBegun = true := by simpa using hb
    have hc : s.committed = false := by
      rcases h with h | h
      · exact h
      · exact absurd h (hasBegun_pd s hb')
    split
    · left; exact hc
    · left; exact hc
    · apply phase1Writer_J
      left; exact hc

theorem phase2Tx_J (s : St) (h : J s) : J (phase2Tx s).1 := by
  unfold phase2Tx
  split
  · exact h
  · split
    · exact h
    · split <;> (right; rfl)

theorem stepCore_J (s : St) (op : Op) (h : J s) : J (stepCore s op).1 := by
  cases op with
  | begin =>
    simp only [stepCore, beginTx]
    split
    · exact h
    · split
      · exact h
      · rename_i h2
        rcases h with h | h
        · left; exact h
        · exact absurd h h2
  | phase1 => exact phase1Tx_J s h
  | phase2 => exact phase2Tx_J s h
  | commit =>
    simp only [stepCore, commitTx]
    split
    · split
      · exact phase2Tx_J _ (phase1Tx_J s h)
      · exact rollbackTx_J _ (phase2Tx_J _ (phase1Tx_J s h))
    · exact rollbackTx_J _ (phase1Tx_J s h)
  | rollback => exact rollbackTx_J s h
  | close => exact h
  | newBtree =>
    simp only [stepCore, newBtree]
    split
    · exact h
    · split
      · exact h
      · split <;> exact h
  | openBtree =>
    simp only [stepCore, openBtree]
    split
    · exact h
    · split
      · exact h
      · split
        · exact rollbackTx_J s h
        · exact h
  | store k =>
    simp only [stepCore, storeOp]
    split
    · exact h
    · split
      · split
        · exact h
        · exact rollbackTx_J s h
      · split
        · exact rollbackTx_J s h
        · split <;> exact h

theorem run_J (s : St) (ops : List Op) (h : J s) : J (run s ops) := by
  induction ops generalizing s with
  | nil => exact h
  | cons op ops ih =>
    apply ih
    have := stepCore_J s op h
    unfold step
    exact this

/-- in every reachable state, `committed` implies `phaseDone = 2` -/
theorem committed_implies_done (m : Mode) (i : Init) (ops : List Op)
    (hc : (run (init m i) ops).committed = true) : (run (init m i) ops).pd = 2 := by
  have := run_J (init m i) ops (Or.inl rfl)
  rcases this with h | h
  · rw [h] at hc; cases hc
  · exact h

/-- **committed_cannot_rollback**: after ANY call sequence (any mode, any initial condition) that left the transaction
committed, in ANY continuation every `Rollback` returns the "already committed" error, the transaction stays
committed, and nothing at all changes (state, disk, write counter) -/
theorem committed_cannot_rollback (m : Mode) (i : Init) (ops₁ ops₂ : List Op)
    (hc : (run (init m i) ops₁).committed = true) :
    run (run (init m i) ops₁) ops₂ = run (init m i) ops₁ ∧
    ∀ e ∈ trace (run (init m i) ops₁) ops₂,
      e.post.committed = true ∧ e.w = [] ∧ (e.op = .rollback → e.res = .err .committed) := by
  have hd := committed_implies_done m i ops₁ hc
  refine ⟨run_done _ _ hd, ?_⟩
  intro e he
  obtain ⟨_, h2, h3, h4⟩ := trace_done _ ops₂ hd e he
  refine ⟨by rw [h2]; exact hc, h3, ?_⟩
  intro hop
  rw [h4, hop]
  simp [step, stepCore, rollbackTx, hd, hc]

/-- non-vacuity: committed states are reachable in all three modes -/
example : (run (init .forWriting .absent) [.begin, .newBtree, .store .add, .commit]).committed = true := by decide
example : (run (init .forReading .one) [.begin, .openBtree, .store .get, .phase1, .phase2]).committed = true := by decide
example : (run (init .noCheck .empty) [.begin, .commit]).committed = true := by decide

/-! ## 4. a finished transaction is final -/

/-- **finished_is_final**: from ANY state with `phaseDone = 2` (committed or rolled back), for ANY continuation:
the whole state (lifecycle fields, what is on disk, the write counter) never changes again, no call issues a data
write, `Begin` fails with "transaction is done", `Phase1Commit`/`Phase2Commit` fail, `Commit` fails -/
theorem finished_is_final (s : St) (ops : List Op) (h : s.pd = 2) :
    run s ops = s ∧
    ∀ e ∈ trace s ops, e.post = s ∧ e.w = [] ∧
      (e.op = .begin → e.res = .err .done) ∧
      (e.op = .phase1 → e.res = .err .notBegun) ∧
      (e.op = .phase2 → e.res = .err .notBegun) ∧
      (e.op = .commit → e.res.isOk = false) := by
  refine ⟨run_done s ops h, ?_⟩
  intro e he
  obtain ⟨_, h2, h3, h4⟩ := trace_done s ops h e he
  have hb := hasBegun_done s h
  refine ⟨h2, h3, ?_, ?_, ?_, ?_⟩ <;> intro hop <;> rw [h4, hop]
  · simp [step, stepCore, beginTx, hb, h]
  · simp [step, stepCore, phase1Tx, hb]
  · simp [step, stepCore, phase2Tx, hb]
  · simp [step, stepCore, commitTx, phase1Tx, hb]

/-- non-vacuity: finished states are reachable by rollback, by a refused write, by a failed open, by commit -/
example : (run (init .forWriting .one) [.begin, .openBtree, .store .remove, .rollback]).pd = 2 := by decide
example : (run (init .forReading .one) [.begin, .openBtree, .store .add]).pd = 2 := by decide
example : (run (init .noCheck .absent) [.begin, .openBtree]).pd = 2 := by decide

end Sop.C14
