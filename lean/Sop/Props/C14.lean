import Sop.Model.Lifecycle
/-!
# C14 — transaction modes and lifecycle are enforced

Theorems about `Sop.Lifecycle` (the transcription of `Begin / Phase1Commit / Phase2Commit / Rollback / Close`,
`SinglePhaseTransaction.Commit`, `NewBtree / OpenBtree` and the `btreeWithTransaction` guards), all over
**every** call sequence (`List Op`, unbounded) and all three modes.

* `ops_only_when_begun`, `committed_cannot_rollback`, `finished_is_final` hold at full strength.
* section 5: the same statements with FAILING calls (a failure injected under any call): `ended_is_final`,
  `lifecycle_final_with_failures`, `failed_call_outcome`, `no_call_panics`.
* `readonly_never_writes` is **violated by the code**: `NewBtree` never looks at the mode. The full statement is
  `Statement_readonly_never_writes`; `C14_counterexample` refutes it with the witness the harness replays first;
  `readonly_never_writes_partial` is the strongest true version (excluding exactly the store-creating `NewBtree`).
-/
namespace Sop.C14
open Sop.Lifecycle

/-! ## frame facts -/

theorem hasBegun_done (s : St) (h : s.pd = 2) : s.hasBegun = false := by
  simp [St.hasBegun, h]

theorem rollbackTx_done (s : St) (h : s.pd = 2) : (rollbackTx s).1 = s ∧ (rollbackTx s).2.2 = [] := by
  unfold rollbackTx
  simp only [h, if_true]
  split <;> simp

/-- a finished transaction (`phaseDone = 2`) is frozen: no call changes anything or writes anything -/
theorem stepCore_done (s : St) (op : Op) (h : s.pd = 2) : (stepCore s op).1 = s ∧ (stepCore s op).2.2 = [] := by
  have hb := hasBegun_done s h
  have hr := rollbackTx_done s h
  cases op with
  | begin => simp [stepCore, beginTx, hb, h]
  | phase1 => simp [stepCore, phase1Tx, hb]
  | phase2 => simp [stepCore, phase2Tx, hb]
  | commit =>
    simp only [stepCore, commitTx, phase1Tx, hb, Bool.not_false, if_true, Res.isOk]
    simp [hr]
  | rollback => simpa [stepCore] using hr
  | close => simp [stepCore]
  | newBtree => simp [stepCore, newBtree, hb]
  | openBtree => simp [stepCore, openBtree, hb]
  | store k =>
    simp only [stepCore, storeOp, hb]
    cases s.handle <;> cases k.mutating <;> simp [hr]

theorem step_done (s : St) (op : Op) (h : s.pd = 2) : (step s op).1 = s ∧ (step s op).2.2 = [] := by
  obtain ⟨h1, h2⟩ := stepCore_done s op h
  unfold step
  simp [h1, h2]

theorem run_done (s : St) (ops : List Op) (h : s.pd = 2) : run s ops = s := by
  induction ops with
  | nil => rfl
  | cons op ops ih => simp only [run, (step_done s op h).1, ih]

theorem trace_done (s : St) (ops : List Op) (h : s.pd = 2) :
    ∀ e ∈ trace s ops, e.pre = s ∧ e.post = s ∧ e.w = [] ∧ e.res = (step s e.op).2.1 := by
  induction ops with
  | nil => intro e he; simp [trace] at he
  | cons op ops ih =>
    intro e he
    simp only [trace, List.mem_cons] at he
    rcases he with rfl | he
    · exact ⟨rfl, (step_done s op h).1, (step_done s op h).2, rfl⟩
    · rw [(step_done s op h).1] at he
      exact ih e he

/-! ## 1. store-level calls succeed only while the transaction has begun -/

@[simp] theorem isOk_err (e : Err) : (Res.err e).isOk = false := rfl
@[simp] theorem isOk_noHandle : Res.noHandle.isOk = false := rfl
@[simp] theorem isOk_ok : Res.ok.isOk = true := rfl
@[simp] theorem isOk_okB (b : Bool) : (Res.okB b).isOk = true := rfl
@[simp] theorem isOk_ite_err (c : Prop) [Decidable c] (a b : Err) :
    (if c then Res.err a else Res.err b).isOk = false := by split <;> rfl

def isStoreLevel : Op → Bool
  | .newBtree => true
  | .openBtree => true
  | .store _ => true
  | _ => false

theorem step_ok_begun (s : St) (op : Op) (hop : isStoreLevel op = true) (hok : (step s op).2.1.isOk = true) :
    s.hasBegun = true := by
  cases hb : s.hasBegun with
  | true => rfl
  | false =>
    exfalso
    cases op with
    | newBtree => simp [step, stepCore, newBtree, hb] at hok
    | openBtree => simp [step, stepCore, openBtree, hb] at hok
    | store k =>
      simp only [step, stepCore, storeOp, hb] at hok
      cases hh : s.handle <;> cases hm : k.mutating <;> simp [hh, hm] at hok
    | _ => simp [isStoreLevel] at hop

/-- **ops_only_when_begun**: in every call sequence from every state, `NewBtree`, `OpenBtree` and every B-tree call
through the wrapper (find/get/add/update/remove) return ok only if `HasBegun()` held when they were called -/
theorem ops_only_when_begun (s : St) (ops : List Op) :
    ∀ e ∈ trace s ops, isStoreLevel e.op = true → e.res.isOk = true → e.pre.hasBegun = true := by
  induction ops generalizing s with
  | nil => intro e he; simp [trace] at he
  | cons op ops ih =>
    intro e he
    simp only [trace, List.mem_cons] at he
    rcases he with rfl | he
    · exact step_ok_begun s op
    · exact ih _ e he

/-! ## 2. a non-writer transaction never writes — violated -/

/-- the full-strength statement (what the property asks for) -/
def Statement_readonly_never_writes : Prop :=
  ∀ (m : Mode) (i : Init) (ops : List Op), m ≠ .forWriting → (run (init m i) ops).writes = 0

/-- the witness: a `ForReading` transaction on a folder without the store: Begin, NewBtree, Commit -/
def witness : List Op := [.begin, .newBtree, .commit]

/-- what happens on the witness: every call returns ok, the `NewBtree` call issues `StoreRepository.Add`,
the commit reports success, and a later transaction sees the store -/
theorem witness_behaviour :
    (trace (init .forReading .absent) witness).map (fun e => (e.res, e.w)) =
        [(.ok, []), (.ok, [W.srAdd]), (.ok, [])]
    ∧ (run (init .forReading .absent) witness).committed = true
    ∧ seen (init .forReading .absent) = .absent
    ∧ seen (run (init .forReading .absent) witness) = .present 0
    ∧ (run (init .noCheck .absent) witness).writes = 1 := by
  decide

/-- **C14_counterexample**: the code does not satisfy `readonly_never_writes` -/
theorem C14_counterexample : ¬ Statement_readonly_never_writes := by
  intro h
  have := h .forReading .absent witness (by decide)
  revert this
  decide

/-- the call is a `NewBtree` that takes the create branch: the transaction has begun and the store is not on disk -/
def createsStore (s : St) (op : Op) : Bool := decide (op = .newBtree) && s.hasBegun && !s.dExists

/-- no call of the sequence is a store-creating `NewBtree` (decidable; evaluated along the run) -/
def createFree (s : St) : List Op → Bool
  | [] => true
  | op :: ops => !createsStore s op && createFree (step s op).1 ops

/-- invariant of a non-writer transaction that has created no store -/
structure RO (s : St) : Prop where
  mode : s.mode ≠ .forWriting
  notCreated : ∀ b, s.backend = some b → b.created = false
  log : s.logState ≤ 1

theorem RO.of_eq {s s' : St} (h : RO s) (hm : s'.mode = s.mode) (hb : s'.backend = s.backend) (hl : s'.logState ≤ 1) : RO s' :=
  ⟨hm ▸ h.mode, fun b hb' => h.notCreated b (hb ▸ hb'), hl⟩

theorem rollbackCore_ro (s : St) (h : RO s) : RO (rollbackCore s).1 ∧ (rollbackCore s).2 = [] := by
  unfold rollbackCore
  split
  · exact ⟨h.of_eq rfl rfl (Nat.zero_le _), rfl⟩
  · rename_i b hb
    have hc := h.notCreated b hb
    have hl := h.log
    have h9 : ¬ s.logState > 9 := by omega
    have h6 : ¬ s.logState > 6 := by omega
    have h4 : ¬ s.logState > 4 := by omega
    refine ⟨h.of_eq rfl rfl (Nat.zero_le _), ?_⟩
    simp [hc, h9, h6, h4]

theorem rollbackTx_ro (s : St) (h : RO s) : RO (rollbackTx s).1 ∧ (rollbackTx s).2.2 = [] := by
  unfold rollbackTx
  split
  · split <;> exact ⟨h, rfl⟩
  · split
    · exact ⟨h, rfl⟩
    · have h2 : RO { s with pd := 2 } := h.of_eq rfl rfl h.log
      exact rollbackCore_ro _ h2

theorem beginTx_ro (s : St) (h : RO s) : RO (beginTx s).1 ∧ (beginTx s).2.2 = [] := by
  unfold beginTx
  split
  · exact ⟨h, rfl⟩
  · split
    · exact ⟨h, rfl⟩
    · exact ⟨h.of_eq rfl rfl h.log, rfl⟩

theorem phase1Tx_ro (s : St) (h : RO s) : RO (phase1Tx s).1 ∧ (phase1Tx s).2.2 = [] := by
  unfold phase1Tx
  split
  · exact ⟨h, rfl⟩
  · split
    · exact ⟨h.of_eq rfl rfl h.log, rfl⟩
    · exact ⟨h.of_eq rfl rfl h.log, rfl⟩
    · rename_i hmode
      exact absurd hmode h.mode

theorem phase2Tx_ro (s : St) (h : RO s) : RO (phase2Tx s).1 ∧ (phase2Tx s).2.2 = [] := by
  unfold phase2Tx
  split
  · exact ⟨h, rfl⟩
  · split
    · exact ⟨h, rfl⟩
    · split
      · rename_i hmode
        exact absurd hmode h.mode
      · exact ⟨h.of_eq rfl rfl h.log, rfl⟩

theorem commitTx_ro (s : St) (h : RO s) : RO (commitTx s).1 ∧ (commitTx s).2.2 = [] := by
  unfold commitTx
  obtain ⟨r1, w1⟩ := phase1Tx_ro s h
  obtain ⟨r2, w2⟩ := phase2Tx_ro _ r1
  obtain ⟨r3, w3⟩ := rollbackTx_ro _ r2
  obtain ⟨r4, w4⟩ := rollbackTx_ro _ r1
  simp only
  split
  · split
    · exact ⟨r2, by simp [w1, w2]⟩
    · exact ⟨r3, by simp [w1, w2, w3]⟩
  · exact ⟨r4, by simp [w1, w4]⟩

theorem newBtree_ro (s : St) (h : RO s) (hc : createsStore s .newBtree = false) :
    RO (newBtree s).1 ∧ (newBtree s).2.2 = [] := by
  unfold newBtree
  split
  · exact ⟨h, rfl⟩
  · rename_i hb
    have he : s.dExists = true := by
      simp [createsStore] at hc hb
      cases hd : s.dExists <;> simp_all
    simp only [he, Bool.not_true, Bool.false_eq_true, if_false]
    split
    · exact ⟨h.of_eq rfl rfl h.log, rfl⟩
    · exact ⟨⟨h.mode, by intro b hb'; simp at hb'; rw [← hb'], h.log⟩, rfl⟩

theorem openBtree_ro (s : St) (h : RO s) : RO (openBtree s).1 ∧ (openBtree s).2.2 = [] := by
  unfold openBtree
  split
  · exact ⟨h, rfl⟩
  · split
    · exact ⟨h.of_eq rfl rfl h.log, rfl⟩
    · split
      · exact rollbackTx_ro s h
      · exact ⟨⟨h.mode, by intro b hb'; simp at hb'; rw [← hb'], h.log⟩, rfl⟩

theorem delegate_created (b : Backend) (k : Kind) : (delegate b k).1.created = b.created := by
  cases k <;> simp only [delegate] <;> (try split) <;> (try split) <;> rfl

theorem storeOp_ro (s : St) (k : Kind) (h : RO s) : RO (storeOp s k).1 ∧ (storeOp s k).2.2 = [] := by
  unfold storeOp
  split
  · exact ⟨h, rfl⟩
  · split
    · split
      · exact ⟨h, rfl⟩
      · exact rollbackTx_ro s h
    · split
      · exact rollbackTx_ro s h
      · split
        · exact ⟨h, rfl⟩
        · rename_i b hbk
          refine ⟨⟨h.mode, ?_, h.log⟩, rfl⟩
          intro b' hb'
          simp at hb'
          rw [← hb', delegate_created]
          exact h.notCreated b hbk

theorem stepCore_ro (s : St) (op : Op) (h : RO s) (hc : createsStore s op = false) :
    RO (stepCore s op).1 ∧ (stepCore s op).2.2 = [] := by
  cases op with
  | begin => exact beginTx_ro s h
  | phase1 => exact phase1Tx_ro s h
  | phase2 => exact phase2Tx_ro s h
  | commit => exact commitTx_ro s h
  | rollback => exact rollbackTx_ro s h
  | close => exact ⟨h, rfl⟩
  | newBtree => exact newBtree_ro s h hc
  | openBtree => exact openBtree_ro s h
  | store k => exact storeOp_ro s k h

/-! the ghost counter is advanced by `step` only -/
theorem rollbackCore_writes (s : St) : (rollbackCore s).1.writes = s.writes := by
  unfold rollbackCore; split <;> rfl

theorem rollbackTx_writes (s : St) : (rollbackTx s).1.writes = s.writes := by
  unfold rollbackTx
  split
  · split <;> rfl
  · split
    · rfl
    · exact rollbackCore_writes _

theorem phase1Writer_writes (s : St) : (phase1Writer s).1.writes = s.writes := by
  unfold phase1Writer
  split
  · rfl
  · split
    · rfl
    · split <;> rfl

theorem phase1Tx_writes (s : St) : (phase1Tx s).1.writes = s.writes := by
  unfold phase1Tx
  split
  · rfl
  · split
    · rfl
    · rfl
    · exact phase1Writer_writes _

theorem phase2Tx_writes (s : St) : (phase2Tx s).1.writes = s.writes := by
  unfold phase2Tx
  split
  · rfl
  · split
    · rfl
    · split <;> rfl

theorem stepCore_writes (s : St) (op : Op) : (stepCore s op).1.writes = s.writes := by
  cases op with
  | begin =>
    simp only [stepCore, beginTx]
    split
    · rfl
    · split <;> rfl
  | phase1 => exact phase1Tx_writes s
  | phase2 => exact phase2Tx_writes s
  | commit =>
    simp only [stepCore, commitTx]
    split
    · split
      · rw [phase2Tx_writes, phase1Tx_writes]
      · rw [rollbackTx_writes, phase2Tx_writes, phase1Tx_writes]
    · rw [rollbackTx_writes, phase1Tx_writes]
  | rollback => exact rollbackTx_writes s
  | close => rfl
  | newBtree =>
    simp only [stepCore, newBtree]
    split
    · rfl
    · split
      · rfl
      · split <;> rfl
  | openBtree =>
    simp only [stepCore, openBtree]
    split
    · rfl
    · split
      · rfl
      · split
        · exact rollbackTx_writes s
        · rfl
  | store k =>
    simp only [stepCore, storeOp]
    split
    · rfl
    · split
      · split
        · rfl
        · exact rollbackTx_writes s
      · split
        · exact rollbackTx_writes s
        · split <;> rfl

/-! the mode never changes -/
theorem rollbackCore_mode (s : St) : (rollbackCore s).1.mode = s.mode := by
  unfold rollbackCore; split <;> rfl

theorem rollbackTx_mode (s : St) : (rollbackTx s).1.mode = s.mode := by
  unfold rollbackTx
  split
  · split <;> rfl
  · split
    · rfl
    · exact rollbackCore_mode _

theorem phase1Writer_mode (s : St) : (phase1Writer s).1.mode = s.mode := by
  unfold phase1Writer
  split
  · rfl
  · split
    · rfl
    · split <;> rfl

theorem phase1Tx_mode (s : St) : (phase1Tx s).1.mode = s.mode := by
  unfold phase1Tx
  split
  · rfl
  · split
    · rfl
    · rfl
    · exact phase1Writer_mode _

theorem phase2Tx_mode (s : St) : (phase2Tx s).1.mode = s.mode := by
  unfold phase2Tx
  split
  · rfl
  · split
    · rfl
    · split <;> rfl

theorem stepCore_mode (s : St) (op : Op) : (stepCore s op).1.mode = s.mode := by
  cases op with
  | begin =>
    simp only [stepCore, beginTx]
    split
    · rfl
    · split <;> rfl
  | phase1 => exact phase1Tx_mode s
  | phase2 => exact phase2Tx_mode s
  | commit =>
    simp only [stepCore, commitTx]
    split
    · split
      · rw [phase2Tx_mode, phase1Tx_mode]
      · rw [rollbackTx_mode, phase2Tx_mode, phase1Tx_mode]
    · rw [rollbackTx_mode, phase1Tx_mode]
  | rollback => exact rollbackTx_mode s
  | close => rfl
  | newBtree =>
    simp only [stepCore, newBtree]
    split
    · rfl
    · split
      · rfl
      · split <;> rfl
  | openBtree =>
    simp only [stepCore, openBtree]
    split
    · rfl
    · split
      · rfl
      · split
        · exact rollbackTx_mode s
        · rfl
  | store k =>
    simp only [stepCore, storeOp]
    split
    · rfl
    · split
      · split
        · rfl
        · exact rollbackTx_mode s
      · split
        · exact rollbackTx_mode s
        · split <;> rfl

theorem step_mode (s : St) (op : Op) : (step s op).1.mode = s.mode := by
  unfold step; exact stepCore_mode s op

theorem step_mutation_refused (s : St) (k : Kind) (hm : s.mode ≠ .forWriting) (hk : k.mutating = true) :
    (step s (.store k)).2.1.isOk = false := by
  simp only [step, stepCore, storeOp, hk]
  split
  · rfl
  · split
    · rfl
    · have : (s.mode != Mode.forWriting) = true := by simpa using hm
      simp [this]

/-- **readonly_rejects_mutations**: in every call sequence of a `ForReading` or `NoCheck` transaction, from every
state, add/update/remove through the B-tree wrapper never return ok -/
theorem readonly_rejects_mutations (s : St) (ops : List Op) (hm : s.mode ≠ .forWriting) :
    ∀ e ∈ trace s ops, ∀ k, e.op = .store k → k.mutating = true → e.res.isOk = false := by
  induction ops generalizing s with
  | nil => intro e he; simp [trace] at he
  | cons op ops ih =>
    intro e he k hop hk
    simp only [trace, List.mem_cons] at he
    rcases he with rfl | he
    · simp only at hop
      subst hop
      exact step_mutation_refused s k hm hk
    · exact ih _ (by rw [step_mode]; exact hm) e he k hop hk

theorem step_ro (s : St) (op : Op) (h : RO s) (hw : s.writes = 0) (hc : createsStore s op = false) :
    RO (step s op).1 ∧ (step s op).1.writes = 0 := by
  obtain ⟨r, w⟩ := stepCore_ro s op h hc
  unfold step
  refine ⟨RO.of_eq r rfl rfl r.log, ?_⟩
  simp [w, stepCore_writes, hw]

theorem run_ro (s : St) (ops : List Op) (h : RO s) (hw : s.writes = 0) (hf : createFree s ops = true) :
    (run s ops).writes = 0 := by
  induction ops generalizing s with
  | nil => exact hw
  | cons op ops ih =>
    simp only [createFree, Bool.and_eq_true, Bool.not_eq_true'] at hf
    obtain ⟨r, w⟩ := step_ro s op h hw hf.1
    exact ih _ r w hf.2

theorem init_ro (m : Mode) (i : Init) (hm : m ≠ .forWriting) : RO (init m i) :=
  ⟨hm, by intro b hb; simp [init] at hb, by simp [init]⟩

/-- **readonly_never_writes_partial**: in every call sequence of a `ForReading` or `NoCheck` transaction, from every
initial condition, in which no call is a store-creating `NewBtree` (transaction begun, store not on disk), not a
single data write call is issued. Together with `C14_counterexample` this isolates the defect: the *only* way a
non-writer transaction writes is through `NewBtree`'s create branch (and the removal of that store on rollback). -/
theorem readonly_never_writes_partial (m : Mode) (i : Init) (ops : List Op) (hm : m ≠ .forWriting)
    (hf : createFree (init m i) ops = true) : (run (init m i) ops).writes = 0 :=
  run_ro _ ops (init_ro m i hm) (by simp [init]) hf

/-- the hypothesis is satisfiable by non-trivial sequences: a reader that opens an existing store, reads, tries to
write (refused, rolled back), …; a `NewBtree` on an *existing* store is fine; the witness is (rightly) excluded -/
example : createFree (init .forReading .one)
    [.begin, .openBtree, .store .get, .store .find, .phase1, .store .add, .rollback, .commit, .begin] = true := by decide
example : createFree (init .noCheck .empty) [.begin, .newBtree, .store .find, .commit, .rollback] = true := by decide
example : createFree (init .forReading .absent) [.begin, .openBtree, .newBtree, .commit] = true := by decide
example : createFree (init .forReading .absent) witness = false := by decide

/-! ## 3. once committed, never rolled back -/

/-- `committed` is only ever set together with `phaseDone = 2` -/
def J (s : St) : Prop := s.committed = false ∨ s.pd = 2

theorem hasBegun_pd (s : St) (h : s.hasBegun = true) : s.pd ≠ 2 := by
  simp [St.hasBegun] at h; omega

theorem rollbackCore_J (s : St) : (rollbackCore s).1.committed = s.committed ∧ (rollbackCore s).1.pd = s.pd := by
  unfold rollbackCore; split <;> exact ⟨rfl, rfl⟩

theorem rollbackTx_J (s : St) (h : J s) : J (rollbackTx s).1 := by
  unfold rollbackTx
  split
  · split <;> exact h
  · split
    · exact h
    · right; rw [(rollbackCore_J _).2]

theorem phase1Writer_J (s : St) (h : J s) : J (phase1Writer s).1 := by
  unfold phase1Writer
  split
  · exact h
  · split
    · exact h
    · split
      · right; rfl
      · rcases h with h | h
        · left; exact h
        · right; exact h

theorem phase1Tx_J (s : St) (h : J s) : J (phase1Tx s).1 := by
  unfold phase1Tx
  split
  · exact h
  · rename_i hb
    have hb' : s.hasBegun = true := by simpa using hb
    have hc : s.committed = false := by
      rcases h with h | h
      · exact h
      · exact absurd h (hasBegun_pd s hb')
    split
    · left; exact hc
    · left; exact hc
    · apply phase1Writer_J
      left; exact hc

theorem phase2Tx_J (s : St) (h : J s) : J (phase2Tx s).1 := by
  unfold phase2Tx
  split
  · exact h
  · split
    · exact h
    · split <;> (right; rfl)

theorem stepCore_J (s : St) (op : Op) (h : J s) : J (stepCore s op).1 := by
  cases op with
  | begin =>
    simp only [stepCore, beginTx]
    split
    · exact h
    · split
      · exact h
      · rename_i h2
        rcases h with h | h
        · left; exact h
        · exact absurd h h2
  | phase1 => exact phase1Tx_J s h
  | phase2 => exact phase2Tx_J s h
  | commit =>
    simp only [stepCore, commitTx]
    split
    · split
      · exact phase2Tx_J _ (phase1Tx_J s h)
      · exact rollbackTx_J _ (phase2Tx_J _ (phase1Tx_J s h))
    · exact rollbackTx_J _ (phase1Tx_J s h)
  | rollback => exact rollbackTx_J s h
  | close => exact h
  | newBtree =>
    simp only [stepCore, newBtree]
    split
    · exact h
    · split
      · exact h
      · split <;> exact h
  | openBtree =>
    simp only [stepCore, openBtree]
    split
    · exact h
    · split
      · exact h
      · split
        · exact rollbackTx_J s h
        · exact h
  | store k =>
    simp only [stepCore, storeOp]
    split
    · exact h
    · split
      · split
        · exact h
        · exact rollbackTx_J s h
      · split
        · exact rollbackTx_J s h
        · split <;> exact h

theorem run_J (s : St) (ops : List Op) (h : J s) : J (run s ops) := by
  induction ops generalizing s with
  | nil => exact h
  | cons op ops ih =>
    apply ih
    have := stepCore_J s op h
    unfold step
    exact this

/-- in every reachable state, `committed` implies `phaseDone = 2` -/
theorem committed_implies_done (m : Mode) (i : Init) (ops : List Op)
    (hc : (run (init m i) ops).committed = true) : (run (init m i) ops).pd = 2 := by
  have := run_J (init m i) ops (Or.inl rfl)
  rcases this with h | h
  · rw [h] at hc; cases hc
  · exact h

/-- **committed_cannot_rollback**: after ANY call sequence (any mode, any initial condition) that left the transaction
committed, in ANY continuation every `Rollback` returns the "already committed" error, the transaction stays
committed, and nothing at all changes (state, disk, write counter) -/
theorem committed_cannot_rollback (m : Mode) (i : Init) (ops₁ ops₂ : List Op)
    (hc : (run (init m i) ops₁).committed = true) :
    run (run (init m i) ops₁) ops₂ = run (init m i) ops₁ ∧
    ∀ e ∈ trace (run (init m i) ops₁) ops₂,
      e.post.committed = true ∧ e.w = [] ∧ (e.op = .rollback → e.res = .err .committed) := by
  have hd := committed_implies_done m i ops₁ hc
  refine ⟨run_done _ _ hd, ?_⟩
  intro e he
  obtain ⟨_, h2, h3, h4⟩ := trace_done _ ops₂ hd e he
  refine ⟨by rw [h2]; exact hc, h3, ?_⟩
  intro hop
  rw [h4, hop]
  simp [step, stepCore, rollbackTx, hd, hc]

/-- non-vacuity: committed states are reachable in all three modes -/
example : (run (init .forWriting .absent) [.begin, .newBtree, .store .add, .commit]).committed = true := by decide
example : (run (init .forReading .one) [.begin, .openBtree, .store .get, .phase1, .phase2]).committed = true := by decide
example : (run (init .noCheck .empty) [.begin, .commit]).committed = true := by decide

/-! ## 4. a finished transaction is final -/

/-- **finished_is_final**: from ANY state with `phaseDone = 2` (committed or rolled back), for ANY continuation:
the whole state (lifecycle fields, what is on disk, the write counter) never changes again, no call issues a data
write, `Begin` fails with "transaction is done", `Phase1Commit`/`Phase2Commit` fail, `Commit` fails -/
theorem finished_is_final (s : St) (ops : List Op) (h : s.pd = 2) :
    run s ops = s ∧
    ∀ e ∈ trace s ops, e.post = s ∧ e.w = [] ∧
      (e.op = .begin → e.res = .err .done) ∧
      (e.op = .phase1 → e.res = .err .notBegun) ∧
      (e.op = .phase2 → e.res = .err .notBegun) ∧
      (e.op = .commit → e.res.isOk = false) := by
  refine ⟨run_done s ops h, ?_⟩
  intro e he
  obtain ⟨_, h2, h3, h4⟩ := trace_done s ops h e he
  have hb := hasBegun_done s h
  refine ⟨h2, h3, ?_, ?_, ?_, ?_⟩ <;> intro hop <;> rw [h4, hop]
  · simp [step, stepCore, beginTx, hb, h]
  · simp [step, stepCore, phase1Tx, hb]
  · simp [step, stepCore, phase2Tx, hb]
  · simp [step, stepCore, commitTx, phase1Tx, hb]

/-- non-vacuity: finished states are reachable by rollback, by a refused write, by a failed open, by commit -/
example : (run (init .forWriting .one) [.begin, .openBtree, .store .remove, .rollback]).pd = 2 := by decide
example : (run (init .forReading .one) [.begin, .openBtree, .store .add]).pd = 2 := by decide
example : (run (init .noCheck .absent) [.begin, .openBtree]).pd = 2 := by decide

/-! ## 5. failing calls: every lifecycle call with a failure injected under it

`stepCoreF` / `stepF` (model file, second half) are the calls of sections 1–4 with a failure pattern `Fx`: the call's own
work fails, phase 2 under `Commit` fails, the internal undo fails, an error is dropped. Theorems:
`stepCoreF_nofault` (it is an extension of the model above), `stepCoreF_done` / `ended_is_final` /
`lifecycle_final_with_failures` (after ANY `Rollback` or `Commit` call, successful or failing, the transaction is
finished and frozen), `failed_call_outcome` (what state each failing call leaves), `started_stable`,
`no_call_panics` (every call returns; `legacy_phase2_panicked`: before fix fb2f596d a failing phase 2 without a store
panicked, finding C14-F3). -/

@[simp] theorem isOk_panic : Res.panic.isOk = false := rfl

theorem rollbackTxF_none (s : St) : rollbackTxF s Fx.none = R.ofOut (rollbackTx s) := by
  unfold rollbackTxF rollbackTx R.ofOut
  by_cases h2 : s.pd = 2
  · simp [h2]
  · by_cases hb : s.hasBegun = true
    · simp [h2, hb, Fx.none]
    · simp [h2, hb]

theorem phase1TxF_none (s : St) : phase1TxF s Fx.none = R.ofOut (phase1Tx s) := by
  unfold phase1TxF
  by_cases hb : s.hasBegun = true
  · cases hm : s.mode <;> simp [hb, Fx.none, R.ofOut]
  · simp [hb, phase1Tx, R.ofOut]

theorem phase2TxF_none (s : St) : phase2TxF s false = R.ofOut (phase2Tx s) := by
  unfold phase2TxF
  by_cases hb : s.hasBegun = true
  · by_cases h0 : s.pd = 0
    · simp [hb, h0, phase2Tx, R.ofOut]
    · cases hm : s.mode <;> simp [hb, h0, R.ofOut]
  · simp [hb, phase2Tx, R.ofOut]

theorem commitTxF_none (s : St) : commitTxF s Fx.none = R.ofOut (commitTx s) := by
  unfold commitTxF commitTx
  simp only [phase1TxF_none, show Fx.none.work2 = false from rfl, phase2TxF_none, rollbackTxF_none, R.ofOut]
  split
  · split <;> simp
  · simp

theorem newBtreeF_none (s : St) : newBtreeF s Fx.none = R.ofOut (newBtree s) := by
  unfold newBtreeF
  by_cases hb : s.hasBegun = true
  · simp [hb, Fx.none]
  · simp [hb, newBtree, R.ofOut]

theorem openBtreeF_none (s : St) : openBtreeF s Fx.none = R.ofOut (openBtree s) := by
  unfold openBtreeF
  by_cases hb : s.hasBegun = true
  · cases hk : s.backend with
    | some b => simp [hb]
    | none =>
      by_cases hd : s.dExists = true
      · simp [hb, hd, Fx.none]
      · simp [hb, hd, show Fx.none.work = false from rfl, afterRollback, rollbackTxF_none, R.ofOut, openBtree, hk]
  · simp [hb, openBtree, R.ofOut]

theorem storeOpF_none (s : St) (k : Kind) : storeOpF s k Fx.none = R.ofOut (storeOp s k) := by
  unfold storeOpF
  by_cases hh : s.handle = true
  · by_cases hb : s.hasBegun = true
    · by_cases hm : (k.mutating && s.mode != .forWriting) = true
      · simp [hh, hb, hm, afterRollback, rollbackTxF_none, R.ofOut, storeOp]
      · cases hk : s.backend with
        | none => simp [hh, hb, hm, storeOp, hk, R.ofOut]
        | some b => simp [hh, hb, hm, Fx.none, R.ofOut]
    · simp [hh, hb]
  · simp [hh, storeOp, R.ofOut]

/-- **stepCoreF_nofault**: without a failure the failing-variant model IS the model of sections 1–4 -/
theorem stepCoreF_nofault (s : St) (op : Op) : stepCoreF s op Fx.none = R.ofOut (stepCore s op) := by
  cases op with
  | begin => rfl
  | phase1 => exact phase1TxF_none s
  | phase2 => exact phase2TxF_none s
  | commit => exact commitTxF_none s
  | rollback => exact rollbackTxF_none s
  | close => rfl
  | newBtree => exact newBtreeF_none s
  | openBtree => exact openBtreeF_none s
  | store k => exact storeOpF_none s k


/-! ### a finished transaction is frozen under every failure pattern -/

theorem rollbackTxF_done (s : St) (fx : Fx) (h : s.pd = 2) : rollbackTxF s fx = R.ofOut (rollbackTx s) := by
  unfold rollbackTxF; simp [h]

/-- what a call on a finished transaction answers, whatever fails: nothing changes, no write call, no failure is
even reached (`hit = false`), and only `Rollback` (idempotent, not after a commit) and `Close` can return ok -/
theorem stepCoreF_done (s : St) (op : Op) (fx : Fx) (h : s.pd = 2) :
    (stepCoreF s op fx).st = s ∧ (stepCoreF s op fx).w = [] ∧ (stepCoreF s op fx).hit = false ∧
    (stepCoreF s op fx).res ≠ .panic ∧
    ((stepCoreF s op fx).res.isOk = true → (op = .rollback ∧ s.committed = false) ∨ op = .close) := by
  have hb := hasBegun_done s h
  have hr := rollbackTx_done s h
  have hrF := rollbackTxF_done s fx h
  cases op with
  | begin => simp [stepCoreF, beginTx, hb, h, R.ofOut]
  | phase1 => simp [stepCoreF, phase1TxF, hb]
  | phase2 => simp [stepCoreF, phase2TxF, hb]
  | commit =>
    simp only [stepCoreF, commitTxF, phase1TxF, hb, Bool.not_false, if_true, Res.isOk, hrF, R.ofOut]
    simp [hr]
    split <;> simp
  | rollback =>
    simp only [stepCoreF, hrF, R.ofOut]
    refine ⟨hr.1, hr.2, trivial, ?_, ?_⟩
    · simp [rollbackTx, h]; split <;> simp
    · intro hok
      left
      refine ⟨trivial, ?_⟩
      cases hc : s.committed with
      | false => rfl
      | true => simp [rollbackTx, h, hc] at hok
  | close => simp only [stepCoreF]; split <;> simp
  | newBtree => simp [stepCoreF, newBtreeF, hb]
  | openBtree => simp [stepCoreF, openBtreeF, hb]
  | store k =>
    simp only [stepCoreF, storeOpF, hb]
    cases hh : s.handle
    · simp
    · simp only [Bool.not_true, Bool.false_eq_true, if_false, Bool.not_false, if_true, R.ofOut, storeOp, hh, hb]
      cases hm : k.mutating
      · simp [hr]; split <;> simp
      · simp

/-! ### Rollback and Commit always finish a begun transaction, whatever fails -/

theorem rollbackCore_pd (s : St) : (rollbackCore s).1.pd = s.pd := (rollbackCore_J s).2

theorem hasBegun_cases (s : St) (h : s.hasBegun = true) : s.pd = 0 ∨ s.pd = 1 := by
  simp [St.hasBegun] at h; omega

theorem hasBegun_of_one (s : St) (h : s.pd = 1) : s.hasBegun = true := by simp [St.hasBegun, h]

theorem rollbackTxF_pd (s : St) (fx : Fx) (h : s.hasBegun = true ∨ s.pd = 2) : (rollbackTxF s fx).st.pd = 2 := by
  unfold rollbackTxF
  by_cases h2 : s.pd = 2
  · simp [h2, R.ofOut, (rollbackTx_done s h2).1]
  · have hb : s.hasBegun = true := by rcases h with h | h; exact h; exact absurd h h2
    simp only [h2, if_false, hb, Bool.not_true, Bool.false_eq_true]
    split <;> simp [rollbackCore_pd]

theorem phase1Writer_pd (s : St) (h : s.pd = 1) : (phase1Writer s).1.pd = 1 ∨ (phase1Writer s).1.pd = 2 := by
  unfold phase1Writer
  split
  · left; exact h
  · split
    · left; exact h
    · split
      · right; rfl
      · left; exact h

theorem phase1Tx_pd (s : St) (h : s.hasBegun = true) : (phase1Tx s).1.pd = 1 ∨ (phase1Tx s).1.pd = 2 := by
  unfold phase1Tx
  simp only [h, Bool.not_true, Bool.false_eq_true, if_false]
  split
  · left; rfl
  · left; rfl
  · exact phase1Writer_pd _ rfl

theorem phase1TxF_pd (s : St) (fx : Fx) (h : s.hasBegun = true) : (phase1TxF s fx).st.pd = 1 ∨ (phase1TxF s fx).st.pd = 2 := by
  unfold phase1TxF
  simp only [h, Bool.not_true, Bool.false_eq_true, if_false]
  have := phase1Tx_pd s h
  split
  · exact this
  · split
    · left; rfl
    · exact this
  · split
    · right; simp [rollbackCore_pd]
    · exact this

theorem phase2TxF_pd (s : St) (work : Bool) (h : s.pd = 1 ∨ s.pd = 2) : (phase2TxF s work).st.pd = 2 := by
  unfold phase2TxF
  rcases h with h | h
  · have hb := hasBegun_of_one s h
    have h0 : ¬ s.pd = 0 := by omega
    simp only [hb, Bool.not_true, Bool.false_eq_true, if_false, h0]
    unfold phase2Tx
    simp only [hb, Bool.not_true, Bool.false_eq_true, if_false, h0]
    split
    · split
      · simp [rollbackCore_pd]
      · simp [R.ofOut]
    · simp [R.ofOut]
  · simp [hasBegun_done s h, h]

theorem commitTxF_pd (s : St) (fx : Fx) (h : s.hasBegun = true ∨ s.pd = 2) : (commitTxF s fx).st.pd = 2 := by
  have h1 : (phase1TxF s fx).st.pd = 1 ∨ (phase1TxF s fx).st.pd = 2 := by
    rcases h with h | h
    · exact phase1TxF_pd s fx h
    · right; simp [phase1TxF, hasBegun_done s h, h]
  unfold commitTxF
  simp only
  have h2 := phase2TxF_pd (phase1TxF s fx).st fx.work2 h1
  split
  · split
    · exact h2
    · exact rollbackTxF_pd _ fx (Or.inr h2)
  · apply rollbackTxF_pd
    rcases h1 with h1 | h1
    · left; exact hasBegun_of_one _ h1
    · right; exact h1

/-- **ender_finishes**: `Rollback` and `Commit`, called on a transaction that has been begun (still running or already
finished), leave `phaseDone = 2` — whether they succeed, whether phase 1, phase 2 or the internal undo fails -/
theorem ender_finishes (s : St) (op : Op) (fx : Fx) (hop : op = .rollback ∨ op = .commit)
    (h : s.hasBegun = true ∨ s.pd = 2) : (stepCoreF s op fx).st.pd = 2 := by
  rcases hop with rfl | rfl
  · exact rollbackTxF_pd s fx h
  · exact commitTxF_pd s fx h

/-! ### sequences with failures -/

theorem St.writes_add_zero (s : St) : { s with writes := s.writes + 0 } = s := by cases s; rfl

/-- one call on a finished transaction, with any failure pattern -/
theorem stepF_done (s : FSt) (op : Op) (fx : Fx) (h : s.st.pd = 2) :
    (stepF s op fx).1 = s ∧ (stepF s op fx).2.2 = some [] ∧ (stepF s op fx).2.1 ≠ .panic ∧
    ((stepF s op fx).2.1.isOk = true → (op = .rollback ∧ s.st.committed = false) ∨ op = .close) := by
  obtain ⟨h1, h2, h3, h4, h5⟩ := stepCoreF_done s.st op fx h
  have hb := hasBegun_done s.st h
  unfold stepF
  simp only [h1, h2, h3, hb, List.length_nil, Bool.and_false, Bool.or_false, St.writes_add_zero]
  exact ⟨trivial, by simp, h4, h5⟩

theorem runF_done (s : FSt) (cs : List (Op × Fx)) (h : s.st.pd = 2) : runF s cs = s := by
  induction cs with
  | nil => rfl
  | cons c cs ih => simp only [runF, (stepF_done s c.1 c.2 h).1, ih]

theorem traceF_done (s : FSt) (cs : List (Op × Fx)) (h : s.st.pd = 2) :
    ∀ e ∈ traceF s cs, e.pre = s ∧ e.post = s ∧ e.w = some [] ∧ e.res ≠ .panic ∧
      (e.res.isOk = true → (e.op = .rollback ∧ s.st.committed = false) ∨ e.op = .close) := by
  induction cs with
  | nil => intro e he; simp [traceF] at he
  | cons c cs ih =>
    intro e he
    simp only [traceF, List.mem_cons] at he
    obtain ⟨h1, h2, h3, h4⟩ := stepF_done s c.1 c.2 h
    rcases he with rfl | he
    · exact ⟨rfl, h1, h2, h3, h4⟩
    · rw [h1] at he
      exact ih e he

/-- the transaction has been begun: it is running or it is finished -/
def Started (s : St) : Prop := s.hasBegun = true ∨ s.pd = 2

/-- **ended_is_final** (the lifecycle statement at full strength, failures included): take ANY state in which the
transaction has been begun, ANY call of `Rollback` or `Commit` with ANY failure pattern (phase 1 fails, phase 2 fails,
the internal undo fails — e.g. the removal of a store the transaction created is refused —, an error is dropped),
and ANY continuation of calls, each again with any failure pattern. Then right after that call `phaseDone = 2`, and in
the continuation: nothing changes any more (lifecycle fields, what is on disk, the write counter, the
unpredicted-flag), no call issues a data write call (`some []`: predicted, and empty), no failure is even reached, no
call panics, and no call is accepted except `Rollback` (idempotent, only when not committed) and `Close`. -/
theorem ended_is_final (s : FSt) (op : Op) (fx : Fx) (rest : List (Op × Fx))
    (hop : op = .rollback ∨ op = .commit) (h : Started s.st) :
    (stepF s op fx).1.st.pd = 2 ∧
    runF (stepF s op fx).1 rest = (stepF s op fx).1 ∧
    ∀ e ∈ traceF (stepF s op fx).1 rest,
      e.post = (stepF s op fx).1 ∧ e.w = some [] ∧ e.res ≠ .panic ∧
      (e.res.isOk = true → (e.op = .rollback ∧ (stepF s op fx).1.st.committed = false) ∨ e.op = .close) := by
  have hpd : (stepF s op fx).1.st.pd = 2 := by
    have := ender_finishes s.st op fx hop h
    simpa [stepF] using this
  refine ⟨hpd, runF_done _ rest hpd, ?_⟩
  intro e he
  obtain ⟨_, h2, h3, h4, h5⟩ := traceF_done _ rest hpd e he
  exact ⟨h2, h3, h4, h5⟩

/-! ### from the initial state: `phaseDone` only ever moves -1 → 0 → 1 → 2 -/

/-- `b` is `a` or one of 0, 1, 2 -/
def P4 (a b : Int) : Prop := b = a ∨ b = 0 ∨ b = 1 ∨ b = 2

theorem P4.refl (a : Int) : P4 a a := Or.inl rfl
theorem P4.trans {a b c : Int} (h1 : P4 a b) (h2 : P4 b c) : P4 a c := by
  unfold P4 at *; omega

theorem rollbackTx_p4 (s : St) : P4 s.pd (rollbackTx s).1.pd := by
  unfold rollbackTx
  split
  · split <;> exact P4.refl _
  · split
    · exact P4.refl _
    · simp [P4, rollbackCore_pd]

theorem rollbackTxF_p4 (s : St) (fx : Fx) : P4 s.pd (rollbackTxF s fx).st.pd := by
  unfold rollbackTxF
  split
  · exact rollbackTx_p4 s
  · split
    · exact rollbackTx_p4 s
    · split <;> simp [P4, rollbackCore_pd]

theorem phase1Writer_p4 (s : St) : P4 s.pd (phase1Writer s).1.pd := by
  unfold phase1Writer
  split
  · exact P4.refl _
  · split
    · exact P4.refl _
    · split
      · simp [P4]
      · exact P4.refl _

theorem phase1Tx_p4 (s : St) : P4 s.pd (phase1Tx s).1.pd := by
  unfold phase1Tx
  split
  · exact P4.refl _
  · split
    · simp [P4]
    · simp [P4]
    · have := phase1Writer_p4 { s with pd := 1 }
      simp only [P4] at *
      omega

theorem phase1TxF_p4 (s : St) (fx : Fx) : P4 s.pd (phase1TxF s fx).st.pd := by
  unfold phase1TxF
  split
  · exact P4.refl _
  · split
    · exact phase1Tx_p4 s
    · split
      · simp [P4]
      · exact phase1Tx_p4 s
    · split
      · simp [P4, rollbackCore_pd]
      · exact phase1Tx_p4 s

theorem phase2Tx_p4 (s : St) : P4 s.pd (phase2Tx s).1.pd := by
  unfold phase2Tx
  split
  · exact P4.refl _
  · split
    · exact P4.refl _
    · split <;> simp [P4]

theorem phase2TxF_p4 (s : St) (work : Bool) : P4 s.pd (phase2TxF s work).st.pd := by
  unfold phase2TxF
  split
  · exact P4.refl _
  · split
    · exact P4.refl _
    · split
      · split
        · simp [P4, rollbackCore_pd]
        · exact phase2Tx_p4 s
      · exact phase2Tx_p4 s

theorem commitTxF_p4 (s : St) (fx : Fx) : P4 s.pd (commitTxF s fx).st.pd := by
  unfold commitTxF
  simp only
  have h1 := phase1TxF_p4 s fx
  have h2 := phase2TxF_p4 (phase1TxF s fx).st fx.work2
  split
  · split
    · exact h1.trans h2
    · exact (h1.trans h2).trans (rollbackTxF_p4 _ fx)
  · exact h1.trans (rollbackTxF_p4 _ fx)

theorem afterRollback_st (rb : R) (e : Err) (w : List W) (hit : Bool) : (afterRollback rb e w hit).st = rb.st := rfl

theorem newBtree_pd (s : St) : (newBtree s).1.pd = s.pd := by
  unfold newBtree
  split
  · rfl
  · split
    · rfl
    · split <;> rfl

theorem openBtree_p4 (s : St) : P4 s.pd (openBtree s).1.pd := by
  unfold openBtree
  split
  · exact P4.refl _
  · split
    · exact P4.refl _
    · split
      · exact rollbackTx_p4 s
      · exact P4.refl _

theorem storeOp_p4 (s : St) (k : Kind) : P4 s.pd (storeOp s k).1.pd := by
  unfold storeOp
  split
  · exact P4.refl _
  · split
    · split
      · exact P4.refl _
      · exact rollbackTx_p4 s
    · split
      · exact rollbackTx_p4 s
      · split <;> exact P4.refl _

theorem stepCoreF_p4 (s : St) (op : Op) (fx : Fx) : P4 s.pd (stepCoreF s op fx).st.pd := by
  cases op with
  | begin =>
    simp only [stepCoreF, beginTx, R.ofOut]
    split
    · exact P4.refl _
    · split
      · exact P4.refl _
      · simp [P4]
  | phase1 => exact phase1TxF_p4 s fx
  | phase2 => exact phase2TxF_p4 s fx.work
  | commit => exact commitTxF_p4 s fx
  | rollback => exact rollbackTxF_p4 s fx
  | close => simp only [stepCoreF]; split <;> exact P4.refl _
  | newBtree =>
    simp only [stepCoreF, newBtreeF]
    split
    · exact P4.refl _
    · split
      · rw [afterRollback_st]; exact rollbackTxF_p4 s fx
      · simp [R.ofOut, newBtree_pd, P4]
  | openBtree =>
    simp only [stepCoreF, openBtreeF]
    split
    · exact P4.refl _
    · split
      · exact openBtree_p4 s
      · split
        · rw [afterRollback_st]; exact rollbackTxF_p4 s fx
        · split
          · rw [afterRollback_st]; exact rollbackTxF_p4 s fx
          · exact openBtree_p4 s
  | store k =>
    simp only [stepCoreF, storeOpF]
    split
    · exact P4.refl _
    · split
      · exact storeOp_p4 s k
      · split
        · rw [afterRollback_st]; exact rollbackTxF_p4 s fx
        · split
          · exact P4.refl _
          · split
            · rw [afterRollback_st]; exact rollbackTxF_p4 s fx
            · exact storeOp_p4 s k

theorem started_iff (s : St) : Started s ↔ (s.pd = 0 ∨ s.pd = 1 ∨ s.pd = 2) := by
  unfold Started St.hasBegun
  constructor
  · intro h
    rcases h with h | h
    · simp at h; omega
    · omega
  · intro h
    by_cases h2 : s.pd = 2
    · right; exact h2
    · left; simp; omega

/-- once begun, always begun-or-finished: no call, no failure takes the transaction back to "not begun" -/
theorem started_stable (s : St) (op : Op) (fx : Fx) (h : Started s) : Started (stepCoreF s op fx).st := by
  rw [started_iff] at *
  have := stepCoreF_p4 s op fx
  unfold P4 at this; omega

/-- reachable states: never begun (`phaseDone = -1`), or begun -/
def Reach (s : St) : Prop := s.pd = -1 ∨ Started s

theorem reach_step (s : St) (op : Op) (fx : Fx) (h : Reach s) : Reach (stepCoreF s op fx).st := by
  unfold Reach at *
  rw [started_iff] at *
  have := stepCoreF_p4 s op fx
  unfold P4 at this; omega

theorem reach_run (s : FSt) (cs : List (Op × Fx)) (h : Reach s.st) : Reach (runF s cs).st := by
  induction cs generalizing s with
  | nil => exact h
  | cons c cs ih =>
    apply ih
    have := reach_step s.st c.1 c.2 h
    simpa [stepF, Reach, Started, St.hasBegun] using this

/-- `Begin` has no failing variant: it reaches no backend (`onIdle` returns at once while no store is attached, and no
store can be attached before `Begin`), so no failure pattern changes what it does -/
theorem begin_has_no_failing_variant (s : St) (fx : Fx) : stepCoreF s .begin fx = stepCoreF s .begin Fx.none := rfl

/-- a successful `Begin` starts the transaction -/
theorem begin_ok_started (s : St) (fx : Fx) (h : (stepCoreF s .begin fx).res.isOk = true) :
    (stepCoreF s .begin fx).st.pd = 0 := by
  simp only [stepCoreF, beginTx, R.ofOut] at *
  split at h
  · simp at h
  · split at h
    · simp at h
    · rename_i h1 h2; simp [h1, h2]

/-- on a transaction that was never begun, `Rollback` and `Commit` are refused and change nothing, whatever fails -/
theorem not_begun_refused (s : St) (op : Op) (fx : Fx) (hop : op = .rollback ∨ op = .commit) (h : s.pd = -1) :
    (stepCoreF s op fx).st = s ∧ (stepCoreF s op fx).res.isOk = false ∧ (stepCoreF s op fx).w = [] ∧
    (stepCoreF s op fx).hit = false := by
  have hb : s.hasBegun = false := by simp [St.hasBegun, h]
  have h2 : ¬ s.pd = 2 := by omega
  have hr : rollbackTxF s fx = ⟨s, .err .notBegun, [], false⟩ := by
    simp [rollbackTxF, rollbackTx, h2, hb, R.ofOut]
  rcases hop with rfl | rfl
  · simp [stepCoreF, hr]
  · simp [stepCoreF, commitTxF, phase1TxF, hb, hr]

theorem init_reach (m : Mode) (i : Init) : Reach (initF m i).st := Or.inl rfl

/-- **lifecycle_final_with_failures**: from the initial state of any mode and initial condition, after ANY sequence of
calls and failures, a call of `Rollback` or `Commit` (with any failure pattern) either finds a transaction that was
never begun — then it is refused and changes nothing — or leaves the transaction finished, and then the whole
continuation (any calls, any failures) is frozen as in `ended_is_final`: nothing changes, not one data write call,
nothing accepted but an idempotent `Rollback` and `Close`, no panic. -/
theorem lifecycle_final_with_failures (m : Mode) (i : Init) (pre : List (Op × Fx)) (op : Op) (fx : Fx)
    (post : List (Op × Fx)) (hop : op = .rollback ∨ op = .commit) :
    let s := runF (initF m i) pre
    let s' := (stepF s op fx).1
    (s.st.pd = -1 ∧ s'.st = s.st ∧ (stepF s op fx).2.1.isOk = false ∧ (stepF s op fx).2.2 = some []) ∨
    (Started s.st ∧ s'.st.pd = 2 ∧ runF s' post = s' ∧
      ∀ e ∈ traceF s' post, e.post = s' ∧ e.w = some [] ∧ e.res ≠ .panic ∧
        (e.res.isOk = true → (e.op = .rollback ∧ s'.st.committed = false) ∨ e.op = .close)) := by
  intro s s'
  have hr : Reach s.st := reach_run _ pre (init_reach m i)
  rcases hr with h | h
  · left
    obtain ⟨h1, h2, h3, h4⟩ := not_begun_refused s.st op fx hop h
    have hb : s.st.hasBegun = false := by simp [St.hasBegun, h]
    refine ⟨h, ?_, ?_, ?_⟩
    · show (stepF s op fx).1.st = s.st
      simp [stepF, h1, h3]
    · simpa [stepF] using h2
    · simp [stepF, h3, h4, hb]
  · right
    obtain ⟨a, b, c⟩ := ended_is_final s op fx post hop h
    exact ⟨h, a, b, c⟩

/-! ### what state a FAILING call leaves -/

theorem phase1Writer_err_pd (s : St) (h : (phase1Writer s).2.1.isOk = false) : (phase1Writer s).1.pd = 2 := by
  unfold phase1Writer at h ⊢
  cases hk : s.backend with
  | none => simp [hk] at h
  | some b =>
    simp only [hk] at h ⊢
    by_cases h1 : (!b.tracked) = true
    · simp [h1] at h
    · by_cases h2 : s.p1Nodes = true
      · simp [h1, h2]
      · simp [h1, h2] at h

/-- **failed_call_outcome**: a call that does not return ok (an error of any kind, a refusal, a panic) leaves the
lifecycle in one of exactly three situations, whatever failed underneath: (1) nothing changed at all (a guard refused
the call, or `Close` failed); (2) the transaction is finished (`phaseDone = 2`): every failing `Rollback`, `Commit`,
`Phase2Commit`, writer `Phase1Commit`, `NewBtree`, `OpenBtree`, B-tree call ends there; (3) it was the `Phase1Commit`
of a reader whose check failed: `phaseDone = 1`, still begun, nothing else changed — the caller has to roll back
(`SinglePhaseTransaction.Commit` does). -/
theorem failed_call_outcome (s : St) (op : Op) (fx : Fx) (h : (stepCoreF s op fx).res.isOk = false) :
    (stepCoreF s op fx).st = s ∨ (stepCoreF s op fx).st.pd = 2 ∨
    (op = .phase1 ∧ s.mode = .forReading ∧ s.hasBegun = true ∧ (stepCoreF s op fx).st = { s with pd := 1 }) := by
  by_cases hb : s.hasBegun = true
  · -- a begun transaction
    have hs : Started s := Or.inl hb
    cases op with
    | begin => left; simp [stepCoreF, beginTx, hb, R.ofOut]
    | phase1 =>
      simp only [stepCoreF] at h ⊢
      cases hm : s.mode with
      | noCheck =>
        have e : phase1TxF s fx = R.ofOut (phase1Tx s) := by simp [phase1TxF, hb, hm]
        rw [e] at h; simp [phase1Tx, hb, hm, R.ofOut] at h
      | forReading =>
        by_cases hw : (fx.work && readerWorks s) = true
        · right; right; simp [phase1TxF, hb, hm, hw]
        · have e : phase1TxF s fx = R.ofOut (phase1Tx s) := by simp [phase1TxF, hb, hm, hw]
          rw [e] at h; simp [phase1Tx, hb, hm, R.ofOut] at h
      | forWriting =>
        right; left
        by_cases hw : (fx.work && p1Works s) = true
        · simp [phase1TxF, hb, hm, hw, rollbackCore_pd]
        · have e : (phase1TxF s fx).st = (phase1Tx s).1 ∧ (phase1TxF s fx).res = (phase1Tx s).2.1 := by
            simp [phase1TxF, hb, hm, hw]
          rw [e.2] at h
          rw [e.1]
          simp only [phase1Tx, hb, hm, Bool.not_true, Bool.false_eq_true, if_false] at h ⊢
          exact phase1Writer_err_pd _ h
    | phase2 =>
      simp only [stepCoreF] at *
      by_cases h0 : s.pd = 0
      · left; simp [phase2TxF, hb, h0]
      · right; left
        apply phase2TxF_pd
        rcases hasBegun_cases s hb with h' | h'
        · exact absurd h' h0
        · left; exact h'
    | commit => right; left; exact commitTxF_pd s fx hs
    | rollback => right; left; exact rollbackTxF_pd s fx hs
    | close => left; simp only [stepCoreF]; split <;> rfl
    | newBtree =>
      simp only [stepCoreF, newBtreeF, hb, Bool.not_true, Bool.false_eq_true, if_false] at h ⊢
      by_cases hw : fx.work = true
      · right; left; simp only [hw, if_true, afterRollback_st]; exact rollbackTxF_pd s fx hs
      · simp only [hw, Bool.false_eq_true, if_false, R.ofOut] at h
        unfold newBtree at h
        simp only [hb, Bool.not_true, Bool.false_eq_true, if_false] at h
        split at h
        · simp at h
        · split at h <;> simp at h
    | openBtree =>
      simp only [stepCoreF, openBtreeF, hb, Bool.not_true, Bool.false_eq_true, if_false] at h ⊢
      cases hk : s.backend with
      | some b => simp [hk, openBtree, hb, R.ofOut] at h
      | none =>
        simp only [hk] at h ⊢
        by_cases hw : fx.work = true
        · right; left; simp only [hw, if_true, afterRollback_st]; exact rollbackTxF_pd s fx hs
        · by_cases hd : s.dExists = true
          · simp [hw, hd, openBtree, hb, hk, R.ofOut] at h
          · right; left
            simp only [hw, hd, Bool.false_eq_true, if_false, Bool.not_false, if_true, afterRollback_st]
            exact rollbackTxF_pd s fx hs
    | store k =>
      simp only [stepCoreF, storeOpF, hb, Bool.not_true, Bool.false_eq_true, if_false] at h ⊢
      by_cases hh : s.handle = true
      · simp only [hh, Bool.not_true, Bool.false_eq_true, if_false] at h ⊢
        by_cases hm : (k.mutating && s.mode != .forWriting) = true
        · right; left; simp only [hm, if_true, afterRollback_st]; exact rollbackTxF_pd s fx hs
        · simp only [hm, Bool.false_eq_true, if_false] at h ⊢
          cases hk : s.backend with
          | none => left; rfl
          | some b =>
            simp only [hk] at h ⊢
            by_cases hw : (fx.work && b.localCount != 0) = true
            · right; left; simp only [hw, if_true, afterRollback_st]; exact rollbackTxF_pd s fx hs
            · simp [hw, storeOp, hh, hb, hm, hk] at h
      · left; simp [hh]
  · -- not begun (never begun, or finished): every call is refused or changes nothing
    have hb' : s.hasBegun = false := by simpa using hb
    by_cases h2 : s.pd = 2
    · left; exact (stepCoreF_done s op fx h2).1
    · have hr : rollbackTxF s fx = ⟨s, .err .notBegun, [], false⟩ := by
        simp [rollbackTxF, rollbackTx, h2, hb', R.ofOut]
      have hr0 : rollbackTx s = (s, .err .notBegun, []) := by simp [rollbackTx, h2, hb']
      cases op with
      | begin =>
        simp only [stepCoreF, beginTx, hb', h2, R.ofOut] at h
        simp at h
      | phase1 => left; simp [stepCoreF, phase1TxF, hb']
      | phase2 => left; simp [stepCoreF, phase2TxF, hb']
      | commit => left; simp [stepCoreF, commitTxF, phase1TxF, hb', hr]
      | rollback => left; simp [stepCoreF, hr]
      | close => left; simp only [stepCoreF]; split <;> rfl
      | newBtree => left; simp [stepCoreF, newBtreeF, hb']
      | openBtree => left; simp [stepCoreF, openBtreeF, hb']
      | store k =>
        left
        simp only [stepCoreF, storeOpF, hb']
        cases hh : s.handle
        · simp
        · simp only [Bool.not_true, Bool.false_eq_true, if_false, Bool.not_false, if_true, R.ofOut, storeOp, hh, hb']
          cases hm : k.mutating <;> simp [hr0]


/-! ### witnesses (non-vacuity) and the panic -/

/-- the undo fails -/
def fxUndo : Fx := ⟨false, false, true, false⟩
/-- phase 1 (or the call's own work) fails -/
def fxWork : Fx := ⟨true, false, false, false⟩
/-- phase 2 under `Commit` fails -/
def fxWork2 : Fx := ⟨false, true, false, false⟩

/-- a writer creates a store, adds an item, calls `Rollback`, and the removal of the created store is refused:
`Rollback` reports "rollback failed", the transaction is finished, the `add` and `Commit` that follow are refused
and write nothing -/
def wit5 : FSt := runF (initF .forWriting .absent) [(.begin, Fx.none), (.newBtree, Fx.none), (.store .add, Fx.none)]

theorem failing_rollback_witness :
    wit5.st.hasBegun = true ∧ (stepF wit5 .rollback fxUndo).2.1 = .err .rollbackFailed ∧
    (stepF wit5 .rollback fxUndo).1.st.pd = 2 ∧
    (traceF (stepF wit5 .rollback fxUndo).1 [(.store .add, Fx.none), (.commit, fxWork), (.begin, Fx.none)]).map
        (fun e => (e.res, e.w)) =
      [(.err .notBegun, some []), (.err .notBegun, some []), (.err .done, some [])] := by
  decide

/-- `Commit` failing in phase 1, in phase 2, a reader's failing check followed by `Commit`'s own `Rollback`: all finish -/
example : (stepF (runF (initF .forWriting .one) [(.begin, Fx.none), (.openBtree, Fx.none), (.store .update, Fx.none)])
    .commit fxWork).1.st.pd = 2 := by decide
example : (stepF (runF (initF .forWriting .one) [(.begin, Fx.none), (.openBtree, Fx.none), (.store .update, Fx.none)])
    .commit fxWork2).2.1 = .err .other := by decide
example : (stepF (runF (initF .forReading .one) [(.begin, Fx.none), (.openBtree, Fx.none), (.store .get, Fx.none)])
    .phase1 fxWork).1.st.pd = 1 := by decide
example : (stepF (runF (initF .forReading .one) [(.begin, Fx.none), (.openBtree, Fx.none), (.store .get, Fx.none)])
    .commit fxWork).1.st.pd = 2 := by decide

/-! ### no call panics (after fix fb2f596d) -/

theorem rollbackTx_np (s : St) : (rollbackTx s).2.1 ≠ .panic := by
  unfold rollbackTx
  split
  · split <;> simp
  · split <;> simp

theorem rollbackTxF_np (s : St) (fx : Fx) : (rollbackTxF s fx).res ≠ .panic := by
  unfold rollbackTxF
  split
  · exact rollbackTx_np s
  · split
    · exact rollbackTx_np s
    · split <;> simp

theorem phase1Writer_np (s : St) : (phase1Writer s).2.1 ≠ .panic := by
  unfold phase1Writer
  split
  · simp
  · split
    · simp
    · split <;> simp

theorem phase1Tx_np (s : St) : (phase1Tx s).2.1 ≠ .panic := by
  unfold phase1Tx
  split
  · simp
  · split
    · simp
    · simp
    · exact phase1Writer_np _

theorem phase1TxF_np (s : St) (fx : Fx) : (phase1TxF s fx).res ≠ .panic := by
  unfold phase1TxF
  split
  · simp
  · split
    · exact phase1Tx_np s
    · split
      · simp
      · exact phase1Tx_np s
    · split
      · simp
      · exact phase1Tx_np s

theorem phase2Tx_np (s : St) : (phase2Tx s).2.1 ≠ .panic := by
  unfold phase2Tx
  split
  · simp
  · split
    · simp
    · split <;> simp

theorem phase2TxF_np (s : St) (work : Bool) : (phase2TxF s work).res ≠ .panic := by
  unfold phase2TxF
  split
  · simp
  · split
    · simp
    · split
      · split
        · simp
        · exact phase2Tx_np s
      · exact phase2Tx_np s

theorem afterRollback_np (rb : R) (e : Err) (w : List W) (hit : Bool) : (afterRollback rb e w hit).res ≠ .panic := by
  unfold afterRollback; simp only; split <;> simp

theorem commitTxF_np (s : St) (fx : Fx) : (commitTxF s fx).res ≠ .panic := by
  unfold commitTxF
  simp only
  split
  · split
    · simp
    · split
      · exact phase2TxF_np _ _
      · simp
  · split
    · exact phase1TxF_np s fx
    · simp

theorem newBtree_np (s : St) : (newBtree s).2.1 ≠ .panic := by
  unfold newBtree
  split
  · simp
  · split
    · simp
    · split <;> simp

theorem openBtree_np (s : St) : (openBtree s).2.1 ≠ .panic := by
  unfold openBtree
  split
  · simp
  · split
    · simp
    · split
      · simp only; split <;> simp
      · simp

theorem storeOp_np (s : St) (k : Kind) : (storeOp s k).2.1 ≠ .panic := by
  unfold storeOp
  split
  · simp
  · split
    · split
      · simp
      · simp only; split <;> simp
    · split
      · simp only; split <;> simp
      · split <;> simp

/-- **no_call_panics**: every call of the alphabet, in every state, under every failure pattern, RETURNS: ok, a refusal
or an error — never a panic. (Before fix fb2f596d this was false: `legacy_phase2_panicked`.) -/
theorem no_call_panics (s : St) (op : Op) (fx : Fx) : (stepCoreF s op fx).res ≠ .panic := by
  cases op with
  | begin =>
    simp only [stepCoreF, beginTx, R.ofOut]
    split
    · simp
    · split <;> simp
  | phase1 => exact phase1TxF_np s fx
  | phase2 => exact phase2TxF_np s fx.work
  | commit => exact commitTxF_np s fx
  | rollback => exact rollbackTxF_np s fx
  | close => simp only [stepCoreF]; split <;> simp
  | newBtree =>
    simp only [stepCoreF, newBtreeF]
    split
    · simp
    · split
      · exact afterRollback_np _ _ _ _
      · exact newBtree_np s
  | openBtree =>
    simp only [stepCoreF, openBtreeF]
    split
    · simp
    · split
      · exact openBtree_np s
      · split
        · exact afterRollback_np _ _ _ _
        · split
          · exact afterRollback_np _ _ _ _
          · exact openBtree_np s
  | store k =>
    simp only [stepCoreF, storeOpF]
    split
    · simp
    · split
      · exact storeOp_np s k
      · split
        · exact afterRollback_np _ _ _ _
        · split
          · simp
          · split
            · exact afterRollback_np _ _ _ _
            · exact storeOp_np s k

/-- over sequences: from any mode and initial condition, no call of any sequence with any failures panics -/
theorem no_panic_in_any_sequence (s : FSt) (cs : List (Op × Fx)) : ∀ e ∈ traceF s cs, e.res ≠ .panic := by
  induction cs generalizing s with
  | nil => intro e he; simp [traceF] at he
  | cons c cs ih =>
    intro e he
    simp only [traceF, List.mem_cons] at he
    rcases he with rfl | he
    · exact no_call_panics s.st c.1 c.2
    · exact ih _ e he

/-- the repaired sequence: a writer without a store whose phase 2 fails now gets the phase-2 error and is finished -/
theorem phase2_failure_without_store_returns_error :
    (stepF (runF (initF .forWriting .absent) [(.begin, Fx.none)]) .commit fxWork2).2.1 = .err .other ∧
    (stepF (runF (initF .forWriting .absent) [(.begin, Fx.none)]) .commit fxWork2).1.st.pd = 2 := by
  decide

/-- **legacy_phase2_panicked** (finding C14-F3, fixed by fb2f596d): on the pinned tree the same call panicked
(`Transaction.rollback` indexed `btreesBackend[0]` with no store attached) -/
theorem legacy_phase2_panicked :
    (phase2TxFLegacy (runF (initF .forWriting .absent) [(.begin, Fx.none), (.phase1, Fx.none)]).st true).res = .panic := by
  decide

end Sop.C14
