import Sop.Model.Retry
import Sop.Gen.FactsC15
/-!
# C15 — commits end within their time budget and never deadlock (PARTIAL by design)

What is a theorem here (about Model R, `Sop/Model/Retry.lean`, for every script of backend decisions and
every clock advance):

* `loop_checks_time_first` — an iteration of the phase-1 loop begins only through the `timedOut` check;
* `at_most_one_iteration_after_deadline` — once the budget is exceeded no further iteration begins (only the
  iteration in flight ends);
* `retry_cap` — at most `phase1CommitMaxRetryCount` (= 30, regenerated) body executions;
* `no_hold_and_wait`, `lock_all_or_nothing`, `wait_for_acyclic` — a refused `Lock` leaves nothing newly held,
  the loop sleeps only with none (refusal) or all (IsLocked said no) of its node locks, so no wait-for cycle;
* `ttl_bounded` — a lock whose owner died is granted to anyone after its TTL;
* `last_iteration_starts_in_budget`, `sector_wait_capped`, `sector_wait_ends` — the honest time bound:
  the last iteration starts within min(deadline, start+maxTime), and a single sector-lock wait lasts at most
  `lockSectorRetryTimeoutDuration` (3 min, regenerated) plus one attempt — it is NOT cut by `maxTime`
  (`C15_counterexample`).

* `no_lock_left_behind`, `records_always_owned` (§7, Model R-items) — for every tracker, every script of loop
  decisions and every interleaving with other transactions: no item lock record under one of the transaction's
  LockIDs survives the end of Commit (success, give-up or error), provided no `lock` call returns between its
  write and its verifying read and no refetch fails part-way (`Benign`); without the proviso: FALSE
  (`C15_items_counterexample_lock_early_return`, `C15_items_counterexample_failed_refetch`, findings C15-F4/F5);
  `identity_dropped_for_reads_leaks`: the replay must keep the lock identity of READ items too.

What is not a theorem: wall-clock duration, scheduling, file-system latency — measured by the harness.
-/
namespace Sop.C15
open Sop.Retry

/-! ## 1. The loop head -/


theorem head_pc (c : Cfg) (s : St) :
    (head c s).pc = .wantLock →
      timedOut c s.start s.clock = false ∧ (head c s).iter = s.iter + 1 ∧ (head c s).headAt = (head c s).clock := by
  unfold head; split <;> simp_all

theorem head_clock (c : Cfg) (s : St) : (head c s).clock = s.clock ∧ (head c s).start = s.start := by
  unfold head; split <;> simp

theorem unsuccessful_clock (c : Cfg) (s : St) :
    (unsuccessful c s).clock = s.clock ∧ (unsuccessful c s).start = s.start := by
  unfold unsuccessful; simp only []; split <;> simp [head_clock]

theorem step_clock (c : Cfg) (s : St) (e : Ev) :
    s.clock ≤ (step c s e).clock ∧ (step c s e).start = s.start := by
  cases hp : s.pc <;> cases e <;> simp [step, hp, head_clock, unsuccessful_clock, enterBody, Ev.dt] <;>
    (repeat' split) <;> (try simp [head_clock, unsuccessful_clock]) <;> (try omega)

/-- Every iteration begins with the `timedOut` check: whenever a step leaves the machine at "about to call
`Lock(nodesKeys)`", a new iteration was counted and `sop.TimedOut` was evaluated — and was false — at
exactly the clock reading of that moment. -/
theorem loop_checks_time_first (c : Cfg) (s : St) (e : Ev) (h : (step c s e).pc = .wantLock) :
    timedOut c (step c s e).start (step c s e).clock = false ∧
    (step c s e).iter = s.iter + 1 ∧ (step c s e).headAt = (step c s e).clock := by
  revert h
  cases hp : s.pc <;> cases e <;> simp [step, hp, enterBody, unsuccessful, Ev.dt] <;>
    (repeat' split) <;> (try simp) <;>
    (intro h; first | (simp [hp] at h; done) | (simp_all; done) | (have := head_pc c _ h; simp_all [head_clock]))

/-- The same for the first iteration. -/
theorem first_iteration_checks_time (c : Cfg) (start : Nat) (hk : Bool) (h : (init c start hk).pc = .wantLock) :
    timedOut c start start = false := by
  unfold init at h; have := head_pc c _ h; simp_all

/-! ## 2. Nothing new begins after the deadline -/

theorem timedOut_mono (c : Cfg) (st a b : Nat) (hab : a ≤ b) (h : timedOut c st a = true) :
    timedOut c st b = true := by
  unfold timedOut ctxDone at *
  cases hd : c.deadline <;> simp_all <;> omega

theorem head_iter_of_timedOut (c : Cfg) (s : St) (h : timedOut c s.start s.clock = true) :
    (head c s).iter = s.iter := by
  unfold head; simp [h]

theorem step_iter_of_timedOut (c : Cfg) (s : St) (e : Ev) (h : timedOut c s.start s.clock = true) :
    (step c s e).iter = s.iter := by
  have hm : ∀ d, timedOut c s.start (s.clock + d) = true := fun d => timedOut_mono c _ _ _ (by omega) h
  cases hp : s.pc <;> cases e <;> simp [step, hp, enterBody, unsuccessful, Ev.dt] <;>
    (repeat' split) <;> (try simp) <;>
    (rw [head_iter_of_timedOut] <;> simp [hm])

/-- Once `sop.TimedOut` would report a timeout (clock past `start+maxTime`, or the context deadline reached),
no iteration begins any more, whatever the backends answer and however the clock moves: the iteration in
flight is the only one that can still be running after the deadline. -/
theorem at_most_one_iteration_after_deadline (c : Cfg) (es : List Ev) (s : St)
    (h : timedOut c s.start s.clock = true) : (run c s es).iter = s.iter := by
  induction es generalizing s with
  | nil => rfl
  | cons e es ih =>
    have hc := step_clock c s e
    have h' : timedOut c (step c s e).start (step c s e).clock = true := by
      rw [hc.2]; exact timedOut_mono c _ _ _ hc.1 h
    simp only [run]
    rw [ih _ h', step_iter_of_timedOut c s e h]

/-- non-vacuity: a state past its budget exists and the machine still accepts events there. -/
example : timedOut ⟨2000, none, 30, 180000⟩ 0 2001 = true ∧ timedOut ⟨2000, some 1500, 30, 180000⟩ 0 1500 = true ∧
    timedOut ⟨2000, some 1500, 30, 180000⟩ 0 1499 = false := by decide

/-! ## 3. Retry cap -/


def beforeBody : Pc → Bool
  | .wantLock | .wantIsLocked | .wantRefetch | .wantDualLock => true
  | _ => false

def isDone : Pc → Bool
  | .done _ => true
  | _ => false

structure CapInv (c : Cfg) (s : St) : Prop where
  retry_le : s.retry ≤ c.maxRetry
  bodies_le : s.bodies ≤ c.maxRetry
  live : isDone s.pc = false → s.retry < c.maxRetry
  before : beforeBody s.pc = true → s.bodies ≤ s.retry
  bodies_retry : s.bodies ≤ s.retry + 1

theorem capInv_head (c : Cfg) (s : St) (h1 : s.retry < c.maxRetry) (h2 : s.bodies ≤ s.retry) :
    CapInv c (head c s) := by
  unfold head; split <;> constructor <;> simp_all [beforeBody, isDone] <;> omega

theorem capInv_unsuccessful (c : Cfg) (s : St) (h1 : s.retry < c.maxRetry) (h2 : s.bodies ≤ s.retry + 1)
    (h3 : s.bodies ≤ c.maxRetry) : CapInv c (unsuccessful c s) := by
  unfold unsuccessful
  simp only []
  split
  · constructor <;> simp_all [beforeBody, isDone] <;> omega
  · apply capInv_head <;> simp_all <;> omega

theorem capInv_step (c : Cfg) (s : St) (e : Ev) (h : CapInv c s) : CapInv c (step c s e) := by
  obtain ⟨h1, h2, h3, h4, h5⟩ := h
  cases hp : s.pc <;>
    rcases e with ⟨dt, _ | _ | _⟩ | ⟨dt, _ | _⟩ | ⟨dt, hk⟩ | ⟨dt, _ | _⟩ | ⟨dt, _ | _, rec⟩ | ⟨dt, _ | _⟩ | ⟨dt, _ | _⟩ | ⟨dt⟩ <;>
    simp [step, hp, enterBody, Ev.dt] <;>
    simp [hp, beforeBody, isDone] at h3 h4 <;>
    (repeat' split) <;>
    (first
      | (refine ⟨h1, h2, ?_, ?_, h5⟩ <;> simp_all [isDone, beforeBody] <;> done)
      | (simp_all; done)
      | (apply capInv_head <;> simp_all <;> omega)
      | (apply capInv_unsuccessful <;> simp_all <;> omega)
      | (constructor <;> simp_all [beforeBody, isDone] <;> omega))

theorem capInv_init (c : Cfg) (start : Nat) (hk : Bool) (hpos : 0 < c.maxRetry) : CapInv c (init c start hk) := by
  unfold init; apply capInv_head <;> simp_all

theorem capInv_run (c : Cfg) (es : List Ev) (s : St) (h : CapInv c s) : CapInv c (run c s es) := by
  induction es generalizing s with
  | nil => exact h
  | cons e es ih => exact ih _ (capInv_step c s e h)

/-- The configuration the code runs with: cap and sector timeout regenerated from the source. -/
def cfgOf (maxTime : Nat) (deadline : Option Nat) : Cfg :=
  ⟨maxTime, deadline, Sop.FactsC15.phase1MaxRetry, Sop.FactsC15.lockSectorRetryTimeoutMs⟩

/-- For every script: the body of the loop (the part that writes) runs at most `phase1CommitMaxRetryCount`
times and `retryCount` never exceeds it; with the regenerated constant that is 30. (Iterations that end at a
refused `Lock` are not counted by the code; they are bounded by time only — see §2.) -/
theorem retry_cap (maxTime : Nat) (deadline : Option Nat) (start : Nat) (hk : Bool) (es : List Ev) :
    (run (cfgOf maxTime deadline) (init (cfgOf maxTime deadline) start hk) es).bodies ≤ 30 ∧
    (run (cfgOf maxTime deadline) (init (cfgOf maxTime deadline) start hk) es).retry ≤ 30 := by
  have hfact : Sop.FactsC15.phase1MaxRetry ≤ 30 ∧ 0 < Sop.FactsC15.phase1MaxRetry := by decide
  have := capInv_run (cfgOf maxTime deadline) es _ (capInv_init _ start hk hfact.2)
  have h1 := this.bodies_le
  have h2 := this.retry_le
  have hm : (cfgOf maxTime deadline).maxRetry = Sop.FactsC15.phase1MaxRetry := rfl
  rw [hm] at h1 h2
  exact ⟨by omega, by omega⟩


/-- The cap is reached by a real script (the bound is tight: 30 conflicts end the loop with `retryCap`). -/
def conflictRound : List Ev := [.lock 0 .granted, .isLocked 0 true, .refetch 0 true, .dualLock 0 true, .body 0 .conflict]

set_option maxRecDepth 100000 in
theorem retry_cap_reached :
    (run (cfgOf 900000 none) (init (cfgOf 900000 none) 0 true)
      ([.lock 0 .granted, .isLocked 0 true, .body 0 .conflict] ++ (List.replicate 29 conflictRound).flatten)).pc
      = .done .retryCap := by rfl


/-! ## 4. No hold-and-wait -/

/-- The loop sleeps and retries after a refused `Lock` / `DualLock` only after `Unlock(nodesKeys)`: it holds
none of its node locks while it waits for the next attempt. -/
theorem no_hold_and_wait (c : Cfg) (s : St) (dt : Nat) :
    (s.pc = .wantLock → (step c s (.lock dt .refused)).held = false) ∧
    (s.pc = .wantDualLock → (step c s (.dualLock dt false)).held = false) := by
  constructor <;> intro h <;> simp [step, h, head] <;> split <;> simp

/-- The only other sleep inside the loop (IsLocked answered "no") happens with the complete set: `held` is
unchanged, and it was set by a granted Lock over all keys. -/
theorem isLocked_no_keeps_all (c : Cfg) (s : St) (dt : Nat) (h : s.pc = .wantIsLocked) :
    (step c s (.isLocked dt false)).held = s.held := by
  simp [step, h, head]; split <;> simp


/-! ### the lock table: Lock is all-or-nothing -/

theorem find_erase (t : Table) (k k' : String) :
    (t.erase k').find? k = if k' = k then none else t.find? k := by
  unfold Table.erase Table.find?
  induction t with
  | nil => simp
  | cons l t ih =>
    by_cases h1 : l.key = k' <;> by_cases h2 : l.key = k <;> by_cases h3 : k' = k <;>
      simp_all [List.filter_cons, List.find?_cons]

theorem find_put (t : Table) (l : Lk) (k : String) :
    (t.put l).find? k = if l.key = k then some l else t.find? k := by
  have := find_erase t k l.key
  unfold Table.put
  unfold Table.find? at *
  by_cases h : l.key = k <;> simp_all [List.find?_cons]
theorem find_foldl_erase (acq : List String) (t : Table) (k : String) :
    (acq.foldl (fun t k => t.erase k) t).find? k = if k ∈ acq then none else t.find? k := by
  induction acq generalizing t with
  | nil => simp
  | cons a acq ih =>
    simp only [List.foldl, List.mem_cons]
    rw [ih, find_erase]
    by_cases h1 : k ∈ acq
    · simp [h1]
    · by_cases h2 : a = k
      · simp [h2]
      · simp [h1, h2, show ¬ k = a from fun h => h2 h.symm]

/-- generalized over the accumulator: entries of keys outside `acq` are those of the table at entry -/
theorem lockKeys_refused (now ttl o : Nat) (t0 : Table) :
    ∀ (ks : List String) (t : Table) (acq : List String) (t' : Table),
      (∀ k, k ∈ acq ∨ t.find? k = t0.find? k) →
      lockKeys now ttl o t acq ks = (false, t') →
      ∀ k, t'.find? k = none ∨ t'.find? k = t0.find? k := by
  intro ks
  induction ks with
  | nil => intro t acq t' _ h; simp [lockKeys] at h
  | cons k ks ih =>
    intro t acq t' hrel h
    have hput : ∀ k', k' ∈ k :: acq ∨ (t.put ⟨k, o, now + ttl⟩).find? k' = t0.find? k' := by
      intro k'
      by_cases hk : k = k'
      · left; simp [hk]
      · rcases hrel k' with h1 | h1
        · left; simp [h1]
        · right; rw [find_put]; simp [hk, h1]
    unfold lockKeys at h
    split at h
    · exact ih _ _ _ hput h
    · split at h
      · exact ih _ _ _ hput h
      · split at h
        · exact ih _ _ _ hrel h
        · intro k'
          have ht : t' = acq.foldl (fun t k => t.erase k) t := by simpa using (congrArg Prod.snd h).symm
          rw [ht, find_foldl_erase]
          by_cases hm : k' ∈ acq
          · left; simp [hm]
          · right; simp only [hm, if_false]
            rcases hrel k' with h1 | h1
            · exact absurd h1 hm
            · exact h1

/-- `Lock` is all-or-nothing: when it is refused, every key is either free afterwards or exactly as it was
before the call — the caller holds nothing it did not hold before, whatever the number and order of keys. -/
theorem lock_all_or_nothing (t : Table) (now ttl o : Nat) (ks : List String) (t' : Table)
    (h : lockAll t now ttl o ks = (false, t')) (k : String) :
    t'.heldBy now k o = true → t.heldBy now k o = true := by
  have := lockKeys_refused now ttl o t (sortKeys ks) t [] t' (fun _ => Or.inr rfl) h k
  unfold Table.heldBy
  rcases this with h1 | h1 <;> simp [h1]

/-- A refused Lock by a caller that held none of the keys leaves it with none of them: no partial set. -/
theorem refused_holds_nothing (t : Table) (now ttl o : Nat) (ks : List String) (t' : Table)
    (h : lockAll t now ttl o ks = (false, t')) (hnone : ∀ k, t.heldBy now k o = false) (k : String) :
    t'.heldBy now k o = false := by
  cases hh : t'.heldBy now k o
  · rfl
  · have := lock_all_or_nothing t now ttl o ks t' h k hh
    simp [hnone k] at this

/-- non-vacuity: B is refused on the second of two keys and keeps nothing of the first. -/
example : lockAll [⟨"k2", 1, 100⟩] 10 50 2 ["k2", "k1"] = (false, [⟨"k2", 1, 100⟩]) := by decide

/-! ### wait-for graph -/

structure Tx where
  held : List String
  waiting : Option String   -- the key whose refusal it is sleeping on

def waitsFor (a b : Tx) : Prop := ∃ k, a.waiting = some k ∧ k ∈ b.held

/-- What §4 establishes for every transaction: while it waits it holds nothing. -/
def NoHoldAndWait (a : Tx) : Prop := a.waiting.isSome = true → a.held = []

/-- No transaction is both waited for and waiting, hence the wait-for graph has no path of length two and
in particular no cycle (a cycle, even a self-loop, contains two consecutive edges). -/
theorem wait_for_acyclic (a b c : Tx) (hb : NoHoldAndWait b) : ¬ (waitsFor a b ∧ waitsFor b c) := by
  rintro ⟨⟨k, _, hk⟩, ⟨k', hw, _⟩⟩
  have := hb (by simp [hw])
  simp [this] at hk

example : NoHoldAndWait ⟨[], some "k"⟩ ∧ NoHoldAndWait ⟨["a", "b"], none⟩ := by
  constructor <;> simp [NoHoldAndWait]

/-! ## 5. TTL -/

theorem mem_insertSorted (k x : String) (xs : List String) : k ∈ insertSorted x xs ↔ k = x ∨ k ∈ xs := by
  induction xs with
  | nil => simp [insertSorted]
  | cons y ys ih =>
    unfold insertSorted
    split
    · simp
    · simp only [List.mem_cons, ih]
      constructor
      · rintro (h | h | h) <;> simp [h]
      · rintro (h | h | h) <;> simp [h]

theorem mem_sortKeys (k : String) (ks : List String) : k ∈ sortKeys ks ↔ k ∈ ks := by
  induction ks with
  | nil => simp [sortKeys]
  | cons x xs ih =>
    have : sortKeys (x :: xs) = insertSorted x (sortKeys xs) := rfl
    rw [this, mem_insertSorted, ih]; simp

theorem lockKeys_granted (now ttl o : Nat) :
    ∀ (ks : List String) (t : Table) (acq : List String),
      (∀ k ∈ ks, ∀ l, t.find? k = some l → now > l.exp ∨ l.owner = o) →
      (lockKeys now ttl o t acq ks).1 = true := by
  intro ks
  induction ks with
  | nil => intro t acq _; simp [lockKeys]
  | cons k ks ih =>
    intro t acq h
    have hput : ∀ k' ∈ ks, ∀ l, (t.put ⟨k, o, now + ttl⟩).find? k' = some l → now > l.exp ∨ l.owner = o := by
      intro k' hk' l hl
      rw [find_put] at hl
      by_cases hk : k = k'
      · simp [hk] at hl; right; rw [← hl]
      · simp [hk] at hl; exact h k' (by simp [hk']) l hl
    have htail : ∀ k' ∈ ks, ∀ l, t.find? k' = some l → now > l.exp ∨ l.owner = o :=
      fun k' hk' => h k' (by simp [hk'])
    unfold lockKeys
    split
    · exact ih _ _ hput
    · rename_i l hl
      split
      · exact ih _ _ hput
      · split
        · exact ih _ _ htail
        · rename_i hne1 hne2
          rcases h k (by simp) l hl with h1 | h1
          · exact absurd h1 hne1
          · simp [h1] at hne2

/-- A dead owner's lock is free after its TTL: if every requested key is free, already ours, or past its
expiration instant (`now > exp`, where `exp` = lock instant + TTL), `Lock` is granted — nobody has to release. -/
theorem ttl_bounded (t : Table) (now ttl o : Nat) (ks : List String)
    (h : ∀ k ∈ ks, ∀ l, t.find? k = some l → now > l.exp ∨ l.owner = o) :
    (lockAll t now ttl o ks).1 = true :=
  lockKeys_granted now ttl o (sortKeys ks) t [] (fun k hk => h k ((mem_sortKeys k ks).1 hk))

/-- and before the TTL has elapsed a foreign lock refuses (the hypothesis of `ttl_bounded` is not vacuous). -/
example : (lockAll [⟨"k", 1, 100⟩] 100 50 2 ["k"]).1 = false ∧ (lockAll [⟨"k", 1, 100⟩] 101 50 2 ["k"]).1 = true := by
  decide




/-! ## 6. The time bound -/

structure TimeInv (c : Cfg) (s : St) : Prop where
  head_le : s.headAt ≤ s.clock
  in_budget : 0 < s.iter → budgetOk c s.start s.headAt
  wait_cap : ∀ t0, s.pc = .inBody (some t0) → s.clock ≤ t0 + c.sectorTimeout ∧ ctxDone c s.clock = false

theorem budgetOk_of_not_timedOut (c : Cfg) (st now : Nat) (h : timedOut c st now = false) : budgetOk c st now := by
  unfold timedOut ctxDone at h
  unfold budgetOk
  cases hd : c.deadline <;> simp_all <;> omega

theorem timeInv_head (c : Cfg) (s : St) (h0 : s.headAt ≤ s.clock)
    (h : 0 < s.iter → budgetOk c s.start s.headAt) : TimeInv c (head c s) := by
  unfold head
  split
  · constructor <;> simp_all
  · rename_i hto
    constructor <;> simp_all
    exact budgetOk_of_not_timedOut c _ _ (by simpa using hto)

theorem timeInv_unsuccessful (c : Cfg) (s : St) (h0 : s.headAt ≤ s.clock)
    (h : 0 < s.iter → budgetOk c s.start s.headAt) : TimeInv c (unsuccessful c s) := by
  unfold unsuccessful
  simp only []
  split
  · constructor <;> simp_all
  · apply timeInv_head <;> simp_all

theorem timeInv_step (c : Cfg) (s : St) (e : Ev) (h : TimeInv c s) : TimeInv c (step c s e) := by
  obtain ⟨h1, h2, h3⟩ := h
  cases hp : s.pc <;>
    rcases e with ⟨dt, _ | _ | _⟩ | ⟨dt, _ | _⟩ | ⟨dt, hk⟩ | ⟨dt, _ | _⟩ | ⟨dt, _ | _, rec⟩ | ⟨dt, _ | _⟩ | ⟨dt, _ | _⟩ | ⟨dt⟩ <;>
    simp [step, hp, enterBody, Ev.dt] <;>
    (repeat' split) <;>
    (first
      | (exact ⟨h1, h2, h3⟩)
      | (simp_all; done)
      | (apply timeInv_head <;> simp_all <;> omega)
      | (apply timeInv_unsuccessful <;> simp_all <;> omega)
      | (constructor <;> simp_all <;> omega))

theorem timeInv_init (c : Cfg) (start : Nat) (hk : Bool) : TimeInv c (init c start hk) := by
  unfold init; apply timeInv_head <;> simp

theorem timeInv_run (c : Cfg) (es : List Ev) (s : St) (h : TimeInv c s) : TimeInv c (run c s es) := by
  induction es generalizing s with
  | nil => exact h
  | cons e es ih => exact ih _ (timeInv_step c s e h)


/-- The last iteration begins within the budget: the clock reading `headAt` at which the iteration in
flight (or the last one) began is ≤ start+maxTime and before the context deadline. Everything the commit
does after that reading belongs to ONE iteration (§2), so
`end ≤ min(deadline, start+maxTime) + (clock advance inside that one iteration)`. -/
theorem last_iteration_starts_in_budget (c : Cfg) (start : Nat) (hk : Bool) (es : List Ev) :
    (run c (init c start hk) es).headAt ≤ (run c (init c start hk) es).clock ∧
    (0 < (run c (init c start hk) es).iter →
      (run c (init c start hk) es).headAt ≤ start + c.maxTime ∧
      ∀ d, c.deadline = some d → (run c (init c start hk) es).headAt < d) := by
  have hi := timeInv_run c es _ (timeInv_init c start hk)
  have hs : (run c (init c start hk) es).start = start := by
    have : ∀ (es : List Ev) (s : St), (run c s es).start = s.start := by
      intro es; induction es with
      | nil => intro s; rfl
      | cons e es ih => intro s; simp only [run]; rw [ih, (step_clock c s e).2]
    rw [this]; unfold init; rw [(head_clock c _).2]
  refine ⟨hi.head_le, fun h => ?_⟩
  have := hi.in_budget h
  rw [hs] at this
  exact this

/-- One sector-lock wait of the registry is capped by `lockSectorRetryTimeoutDuration` (and by the context):
while the code decides to keep waiting, the wait is at most that old. With the regenerated constant: 3 min. -/
theorem sector_wait_capped (maxTime : Nat) (deadline : Option Nat) (start : Nat) (hk : Bool) (es : List Ev) (t0 : Nat)
    (h : (run (cfgOf maxTime deadline) (init (cfgOf maxTime deadline) start hk) es).pc = .inBody (some t0)) :
    (run (cfgOf maxTime deadline) (init (cfgOf maxTime deadline) start hk) es).clock ≤ t0 + 180000 ∧
    ctxDone (cfgOf maxTime deadline) (run (cfgOf maxTime deadline) (init (cfgOf maxTime deadline) start hk) es).clock = false := by
  have hi := timeInv_run (cfgOf maxTime deadline) es _ (timeInv_init (cfgOf maxTime deadline) start hk)
  have := hi.wait_cap t0 h
  have hf : (cfgOf maxTime deadline).sectorTimeout = 180000 := by
    show Sop.FactsC15.lockSectorRetryTimeoutMs = 180000; decide
  rw [hf] at this
  exact this

/-- …and the first busy attempt that returns after the cap ends the wait (so a wait lasts at most the cap
plus its last attempt). -/
theorem sector_wait_ends (c : Cfg) (s : St) (t0 dt : Nat) (rec : Bool) (h : s.pc = .inBody (some t0))
    (hlate : s.clock + dt - t0 > c.sectorTimeout) (t : Nat) :
    (step c s (.sector dt true rec)).pc ≠ .inBody (some t) := by
  simp [step, h, Ev.dt]
  split
  · simp
  · simp

/-! ### the budget does not cut the inner wait -/

/-- Full-strength form of "the commit ends within its budget": whenever the code decides to go on waiting for
a sector lock, the transaction's own budget (maxTime, context deadline) is not yet exhausted. FALSE for the
code as it is (finding C15-F1): the wait loops of `fs/hashmap.fileregion.go` consult only their own 3-minute cap. -/
def Statement_C15 (c : Cfg) : Prop :=
  ∀ (start : Nat) (hk : Bool) (es : List Ev) (t0 : Nat),
    (run c (init c start hk) es).pc = .inBody (some t0) →
    timedOut c start (run c (init c start hk) es).clock = false

/-- maxTime = 2 s, no context deadline, the sector lock stays busy: after three attempts the commit is 180 s
into a wait it still continues. Replayed on the real code as the first case of the harness. -/
def witness : List Ev := [.lock 0 .granted, .isLocked 0 true, .sector 60000 true true, .sector 60000 true true, .sector 60000 true true]

theorem C15_counterexample : ¬ Statement_C15 (cfgOf 2000 none) := by
  intro h
  have := h 0 true witness 0 (by rfl)
  revert this
  decide


/-! ## 7. Item lock records: no lock left behind

Model R-items (`Sop/Model/Retry.lean`, Part 3). `no_lock_left_behind`: for every tracker, every script of loop
decisions and every interleaving with other transactions, no lock record under one of the transaction's LockIDs
survives the end of Commit — provided no `lock` call returns early between its write and its verifying read and
no refetch fails part-way (`Benign`); without that proviso the statement is false on the tree under test
(`C15_items_counterexample_lock_early_return`, `C15_items_counterexample_failed_refetch`: findings C15-F4/F5).
`identity_dropped_for_reads_leaks`: the theorem needs `keepLockIdentity` for READ items too. -/

/-- no record under one of the transaction's own LockIDs -/
def OwnFree (c : RCache) : Prop := ∀ j l a, c j = some (l, a) → l.own = false

/-- every record under one of the transaction's LockIDs is known to its tracker, under that LockID, as owned -/
def Known (c : RCache) (trk : List Trk) : Prop :=
  ∀ j l a, c j = some (l, a) → l.own = true → ∃ t ∈ trk, t.item = j ∧ t.lid = l ∧ t.owner = true ∧ t.act ≠ .add

theorem known_env (c : RCache) (trk : List Trk) (op : EnvOp) (h : Known c trk) : Known (envApply c op) trk := by
  intro j l a hj hown
  cases op with
  | put i n act =>
    simp only [envApply, RCache.put] at hj
    split at hj
    · simp at hj; rw [← hj.1] at hown; simp at hown
    · exact h j l a hj hown
  | del i =>
    simp only [envApply, RCache.del] at hj
    split at hj
    · simp at hj
    · exact h j l a hj hown

theorem ownFree_env (c : RCache) (op : EnvOp) (h : OwnFree c) : OwnFree (envApply c op) := by
  intro j l a hj
  cases op with
  | put i n act =>
    simp only [envApply, RCache.put] at hj
    split at hj
    · simp at hj; rw [← hj.1]
    · exact h j l a hj
  | del i =>
    simp only [envApply, RCache.del] at hj
    split at hj
    · simp at hj
    · exact h j l a hj

theorem unlock_known (c : RCache) (trk : List Trk) (h : Known c trk) : Known (unlockItems c trk) trk := by
  intro j l a hj hown
  simp only [unlockItems] at hj
  split at hj
  · simp at hj
  · exact h j l a hj hown

theorem unlock_ownFree (c : RCache) (trk : List Trk) (h : Known c trk) : OwnFree (unlockItems c trk) := by
  intro j l a hj
  simp only [unlockItems] at hj
  split at hj
  · simp at hj
  · rename_i hany
    cases ho : l.own with
    | false => rfl
    | true =>
      obtain ⟨t, ht, h1, _, h3, h4⟩ := h j l a hj ho
      exfalso; apply hany
      rw [List.any_eq_true]
      exact ⟨t, ht, by simp [h1, h3, h4]⟩

theorem scanA_spec (c : RCache) : ∀ (trk toSet : List Trk), scanA c trk = some toSet →
    (∀ t ∈ toSet, t ∈ trk ∧ t.act ≠ .add ∧ c t.item = none) ∧
    ((trk.map (·.item)).Nodup → (toSet.map (·.item)).Nodup) := by
  intro trk
  induction trk with
  | nil => intro toSet h; simp [scanA] at h; subst h; simp
  | cons t ts ih =>
    intro toSet h
    have lift : ∀ r, scanA c ts = some r →
        (∀ x ∈ r, x ∈ t :: ts ∧ x.act ≠ .add ∧ c x.item = none) ∧
        (((t :: ts).map (·.item)).Nodup → (r.map (·.item)).Nodup) := by
      intro r hr
      obtain ⟨h1, h2⟩ := ih r hr
      refine ⟨fun x hx => ⟨List.mem_cons_of_mem _ (h1 x hx).1, (h1 x hx).2⟩, fun hn => h2 ?_⟩
      simp only [List.map_cons, List.nodup_cons] at hn; exact hn.2
    unfold scanA at h
    split at h
    · exact lift toSet h
    · rename_i hadd
      split at h
      · split at h
        · exact lift toSet h
        · split at h
          · exact lift toSet h
          · simp at h
      · rename_i hnone
        rw [Option.map_eq_some_iff] at h
        obtain ⟨r, hr, rfl⟩ := h
        obtain ⟨h1, h2⟩ := ih r hr
        constructor
        · intro x hx
          rcases List.mem_cons.mp hx with rfl | hx
          · exact ⟨List.mem_cons_self, hadd, hnone⟩
          · exact ⟨List.mem_cons_of_mem _ (h1 x hx).1, (h1 x hx).2⟩
        · intro hn
          simp only [List.map_cons, List.nodup_cons] at hn ⊢
          refine ⟨?_, h2 hn.2⟩
          intro hmem
          apply hn.1
          rw [List.mem_map] at hmem ⊢
          obtain ⟨x, hx, hxe⟩ := hmem
          exact ⟨x, (h1 x hx).1, hxe⟩

theorem writeRecs_other (j : Nat) : ∀ (ts : List Trk) (c : RCache), j ∉ ts.map (·.item) → writeRecs c ts j = c j := by
  intro ts
  induction ts with
  | nil => intro c _; rfl
  | cons t ts ih =>
    intro c hj
    simp only [List.map_cons, List.mem_cons, not_or] at hj
    show writeRecs (c.put t.item (t.lid, t.act)) ts j = c j
    rw [ih _ hj.2]; simp [RCache.put, hj.1]

theorem writeRecs_mem : ∀ (ts : List Trk) (c : RCache), (ts.map (·.item)).Nodup → ∀ t ∈ ts,
    writeRecs c ts t.item = some (t.lid, t.act) := by
  intro ts
  induction ts with
  | nil => intro c _ t ht; simp at ht
  | cons x xs ih =>
    intro c hn t ht
    simp only [List.map_cons, List.nodup_cons] at hn
    show writeRecs (c.put x.item (x.lid, x.act)) xs t.item = _
    rcases List.mem_cons.mp ht with rfl | ht
    · rw [writeRecs_other _ _ _ hn.1]; simp [RCache.put]
    · exact ih _ hn.2 t ht

theorem writeRecs_cases : ∀ (ts : List Trk) (c : RCache) (j : Nat) (v : Lid × Act), writeRecs c ts j = some v →
    c j = some v ∨ ∃ t ∈ ts, t.item = j ∧ v = (t.lid, t.act) := by
  intro ts
  induction ts with
  | nil => intro c j v h; exact Or.inl h
  | cons x xs ih =>
    intro c j v h
    have h' : writeRecs (c.put x.item (x.lid, x.act)) xs j = some v := h
    rcases ih _ j v h' with h1 | ⟨t, ht, h2⟩
    · simp only [RCache.put] at h1
      split at h1
      · rename_i hj; simp at h1; exact Or.inr ⟨x, List.mem_cons_self, hj.symm, h1.symm⟩
      · exact Or.inl h1
    · exact Or.inr ⟨t, List.mem_cons_of_mem _ ht, h2⟩

theorem verifyC_all (c : RCache) : ∀ (sub : List Trk), (∀ t ∈ sub, c t.item = some (t.lid, t.act)) →
    verifyC c sub = (true, sub.map (·.item)) := by
  intro sub
  induction sub with
  | nil => intro _; rfl
  | cons t ts ih =>
    intro h
    have ht := h t List.mem_cons_self
    have := ih (fun x hx => h x (List.mem_cons_of_mem _ hx))
    simp [verifyC, ht, this]

theorem markOwners_items (m : List Nat) (trk : List Trk) : (markOwners m trk).map (·.item) = trk.map (·.item) := by
  simp only [markOwners, List.map_map]
  apply List.map_congr_left
  intro t _; simp only [Function.comp]; split <;> rfl

theorem markOwners_mem (m : List Nat) (trk : List Trk) (t : Trk) (ht : t ∈ trk) :
    ∃ t' ∈ markOwners m trk, t'.item = t.item ∧ t'.lid = t.lid ∧ t'.act = t.act ∧
      ((t.owner = true ∨ t.item ∈ m) → t'.owner = true) := by
  refine ⟨if t.item ∈ m then { t with owner := true } else t, List.mem_map.mpr ⟨t, ht, rfl⟩, ?_⟩
  split
  · simp
  · rename_i hm; simp [hm]

theorem lockItems_good (c : RCache) (trk : List Trk) (hk : Known c trk) (hn : (trk.map (·.item)).Nodup) :
    Known (lockItems c trk Window.none).2.1 (lockItems c trk Window.none).2.2 ∧
    (lockItems c trk Window.none).2.2.map (·.item) = trk.map (·.item) := by
  unfold lockItems
  cases hs : scanA c trk with
  | none => exact ⟨hk, rfl⟩
  | some toSet =>
    obtain ⟨h1, h2⟩ := scanA_spec c trk toSet hs
    have hv : verifyC (writeRecs c toSet) toSet = (true, toSet.map (·.item)) :=
      verifyC_all _ _ (fun t ht => writeRecs_mem toSet c (h2 hn) t ht)
    have key : Known (writeRecs c toSet) (markOwners (toSet.map (·.item)) trk) := by
      intro j l a hj hown
      rcases writeRecs_cases toSet c j (l, a) hj with h | ⟨t, ht, hi, hv⟩
      · obtain ⟨t, ht, e1, e2, e3, e4⟩ := hk j l a h hown
        obtain ⟨t', ht', f1, f2, f3, f4⟩ := markOwners_mem (toSet.map (·.item)) trk t ht
        exact ⟨t', ht', f1.trans e1, f2.trans e2, f4 (Or.inl e3), by rw [f3]; exact e4⟩
      · obtain ⟨g1, g2, _⟩ := h1 t ht
        obtain ⟨t', ht', f1, f2, f3, f4⟩ := markOwners_mem (toSet.map (·.item)) trk t g1
        simp only [Prod.mk.injEq] at hv
        exact ⟨t', ht', f1.trans hi, f2.trans hv.1.symm, f4 (Or.inr (List.mem_map.mpr ⟨t, ht, rfl⟩)), by rw [f3]; exact g2⟩
    simp only [Window.none, List.foldl_nil, Bool.false_eq_true, if_false]
    split
    · rename_i he
      have : toSet = [] := by simpa using he
      subst this
      exact ⟨hk, rfl⟩
    · rw [hv]; exact ⟨key, markOwners_items _ _⟩



theorem checkOne_fields (c : RCache) (t : Trk) :
    (checkOne c t).1.item = t.item ∧ (checkOne c t).1.lid = t.lid ∧ (checkOne c t).1.act = t.act := by
  unfold checkOne; split
  · simp
  · split
    · simp
    · split
      · simp
      · split <;> simp

theorem checkItems_items (c : RCache) (trk : List Trk) : (checkItems c trk).1.map (·.item) = trk.map (·.item) := by
  simp only [checkItems, List.map_map]
  apply List.map_congr_left
  intro t _; exact (checkOne_fields c t).1

theorem checkItems_known (c : RCache) (trk : List Trk) (hk : Known c trk) : Known c (checkItems c trk).1 := by
  intro j l a hj hown
  obtain ⟨t, ht, e1, e2, e3, e4⟩ := hk j l a hj hown
  refine ⟨(checkOne c t).1, List.mem_map.mpr ⟨t, ht, rfl⟩, (checkOne_fields c t).1.trans e1,
    (checkOne_fields c t).2.1.trans e2, ?_, by rw [(checkOne_fields c t).2.2]; exact e4⟩
  unfold checkOne
  rw [if_neg e4, e1, hj]
  simp [e2]

theorem reReg_keepAll (n : Nat) (trk : List Trk) : (reReg keepAll n trk).1 = trk := by
  induction trk generalizing n with
  | nil => rfl
  | cons t ts ih => simp [reReg, keepAll, ih]

/-- The invariant of the item lock records of one transaction. -/
structure Good (i : ISt) : Prop where
  known : Known i.cache i.trk
  nodup : (i.trk.map (·.item)).Nodup
  unlogged : i.logged = false → OwnFree i.cache
  ended : i.ended = true → OwnFree i.cache

theorem rollbackEnd_good (i : ISt) (h : Good i) : Good (rollbackEnd i) := by
  unfold rollbackEnd
  cases hl : i.logged with
  | true =>
    exact ⟨unlock_known _ _ h.known, h.nodup, fun _ => unlock_ownFree _ _ h.known, fun _ => unlock_ownFree _ _ h.known⟩
  | false =>
    exact ⟨h.known, h.nodup, fun _ => h.unlogged hl, fun _ => h.unlogged hl⟩

theorem inLoopRollback_good (i : ISt) (h : Good i) : Good (inLoopRollback i) :=
  ⟨unlock_known _ _ h.known, h.nodup, fun _ => unlock_ownFree _ _ h.known, fun _ => unlock_ownFree _ _ h.known⟩

theorem lockStep_good (i : ISt) (h : Good i) (he : i.ended = false) (n : Nat) :
    Good { i with cache := (lockItems i.cache i.trk Window.none).2.1, trk := (lockItems i.cache i.trk Window.none).2.2,
                  next := n, logged := true } := by
  obtain ⟨k, e⟩ := lockItems_good i.cache i.trk h.known h.nodup
  exact ⟨k, by rw [e]; exact h.nodup, fun hh => by simp at hh, fun hh => by simp [he] at hh⟩

/-- a loop decision or tail whose `lock` window is empty; no failed refetch -/
def Benign : REv → Bool
  | .ev _ w => w.ops.isEmpty && !w.readErr
  | .refetchFail _ _ => false
  | _ => true

theorem window_none (w : Window) (h : (w.ops.isEmpty && !w.readErr) = true) : w = Window.none := by
  cases w with
  | mk ops re =>
    simp only [Bool.and_eq_true, List.isEmpty_iff, Bool.not_eq_true'] at h
    simp [Window.none, h.1, h.2]

theorem stepR_good (c : Cfg) (s : RSt) (e : REv) (hb : Benign e = true) (h : Good s.i) : Good (stepR keepAll c s e).i := by
  cases e with
  | env op =>
    exact ⟨known_env _ _ _ h.known, h.nodup, fun hl => ownFree_env _ _ (h.unlogged hl), fun he => ownFree_env _ _ (h.ended he)⟩
  | refetchFail dt r => simp [Benign] at hb
  | ev e w =>
    have hw := window_none w hb
    subst hw
    simp only [stepR]
    split
    · exact h
    · rename_i hne
      simp only [Bool.or_eq_true, not_or, Bool.not_eq_true] at hne
      split
      · -- refetch + lockTrackedItems
        unfold refetchStep
        simp only [reReg_keepAll]
        have g := lockStep_good s.i h hne.1 (reReg keepAll s.i.next s.i.trk).2
        split
        · exact g
        · exact rollbackEnd_good _ g
      · unfold plainStep
        simp only []
        split <;> split <;> first
          | exact rollbackEnd_good _ (inLoopRollback_good _ h)
          | exact inLoopRollback_good _ h
          | exact rollbackEnd_good _ h
          | exact h
  | tail r =>
    simp only [stepR]
    split
    · exact h
    · have hc : Good { s.i with trk := (checkItems s.i.cache s.i.trk).1 } :=
        ⟨checkItems_known _ _ h.known, by rw [checkItems_items]; exact h.nodup, h.unlogged, h.ended⟩
      cases r with
      | failEarly => exact rollbackEnd_good _ h
      | failLate => exact rollbackEnd_good _ hc
      | ok =>
        unfold tailStep
        simp only []
        split
        · exact ⟨unlock_known _ _ hc.known, hc.nodup, fun _ => unlock_ownFree _ _ hc.known, fun _ => unlock_ownFree _ _ hc.known⟩
        · exact rollbackEnd_good _ hc

theorem runR_good (c : Cfg) (es : List REv) (s : RSt) (hb : es.all Benign = true) (h : Good s.i) :
    Good (runR keepAll c s es).i := by
  induction es generalizing s with
  | nil => exact h
  | cons e es ih =>
    simp only [List.all_cons, Bool.and_eq_true] at hb
    exact ih _ hb.2 (stepR_good c s e hb.1 h)

theorem initR_good (c : Cfg) (start : Nat) (hk : Bool) (trk : List Trk) (cache : RCache) (n : Nat)
    (h0 : OwnFree cache) (hn : (trk.map (·.item)).Nodup) : Good (initR c start hk trk cache n Window.none).i := by
  have g0 : Good { cache := cache, trk := trk, next := n, logged := true, ended := false } :=
    ⟨fun j l a hj ho => by rw [h0 j l a hj] at ho; simp at ho, hn, fun hh => by simp at hh, fun hh => by simp at hh⟩
  have g := lockStep_good _ g0 rfl n
  unfold initR
  simp only []
  split
  · exact g
  · exact rollbackEnd_good _ g

/-- **No lock left behind.** For every tracker (any iteration order, any mix of read / updated / removed / added
items), every initial state of the other transactions' records, every script of loop decisions (refused node
locks, refetches, conflicts, retry cap, timeouts, errors at any point, success, failures after the loop) and
every interleaved action of other transactions: once Commit has returned, no lock record under one of the
transaction's own LockIDs is in the cache. -/
theorem no_lock_left_behind (c : Cfg) (start : Nat) (hk : Bool) (trk : List Trk) (cache : RCache) (n : Nat)
    (h0 : OwnFree cache) (hn : (trk.map (·.item)).Nodup) (es : List REv) (hb : es.all Benign = true) :
    (runR keepAll c (initR c start hk trk cache n Window.none) es).i.ended = true →
      OwnFree (runR keepAll c (initR c start hk trk cache n Window.none) es).i.cache :=
  (runR_good c es _ hb (initR_good c start hk trk cache n h0 hn)).ended

/-- At every moment of the commit: a record under one of the transaction's LockIDs is one its tracker knows
under exactly that LockID and believes it owns (so the next unlock deletes it). -/
theorem records_always_owned (c : Cfg) (start : Nat) (hk : Bool) (trk : List Trk) (cache : RCache) (n : Nat)
    (h0 : OwnFree cache) (hn : (trk.map (·.item)).Nodup) (es : List REv) (hb : es.all Benign = true) :
    Known (runR keepAll c (initR c start hk trk cache n Window.none) es).i.cache
          (runR keepAll c (initR c start hk trk cache n Window.none) es).i.trk :=
  (runR_good c es _ hb (initR_good c start hk trk cache n h0 hn)).known

theorem scanA_free (c : RCache) : ∀ (trk : List Trk), (∀ t ∈ trk, c t.item = none) → scanA c trk ≠ none := by
  intro trk
  induction trk with
  | nil => intro _; simp [scanA]
  | cons t ts ih =>
    intro h
    have h1 := ih (fun x hx => h x (List.mem_cons_of_mem _ hx))
    have ht := h t List.mem_cons_self
    unfold scanA
    split
    · exact h1
    · rw [ht]; simp only []
      cases hs : scanA c ts with
      | none => exact absurd hs h1
      | some r => simp

/-- Behavioural form: once the transaction has ended, a later transaction's `lock` (first pass) is not refused on
account of the finished transaction: if nobody ELSE holds a record on the follower's items, its lock attempt
finds no record at all. -/
theorem follower_not_refused (c : Cfg) (start : Nat) (hk : Bool) (trk : List Trk) (cache : RCache) (n : Nat)
    (h0 : OwnFree cache) (hn : (trk.map (·.item)).Nodup) (es : List REv) (hb : es.all Benign = true)
    (hend : (runR keepAll c (initR c start hk trk cache n Window.none) es).i.ended = true)
    (follower : List Trk)
    (hothers : ∀ t ∈ follower, ∀ l a,
      (runR keepAll c (initR c start hk trk cache n Window.none) es).i.cache t.item = some (l, a) → l.own = true) :
    scanA (runR keepAll c (initR c start hk trk cache n Window.none) es).i.cache follower ≠ none := by
  apply scanA_free
  intro t ht
  have hof := no_lock_left_behind c start hk trk cache n h0 hn es hb hend
  cases hc : (runR keepAll c (initR c start hk trk cache n Window.none) es).i.cache t.item with
  | none => rfl
  | some v =>
    obtain ⟨l, a⟩ := v
    have h1 := hof t.item l a hc
    have h2 := hothers t ht l a hc
    rw [h1] at h2; simp at h2

/-! ### witnesses -/

/-- a transaction that READ item 0 and UPDATED item 1 -/
def trkRW : List Trk := [⟨0, ⟨true, 0⟩, .get, false⟩, ⟨1, ⟨true, 1⟩, .update, false⟩]
def noRecs : RCache := fun _ => none

/-- node lock refused once, then granted; refetch and merge; body fine -/
def refusedOnce : List REv :=
  [.ev (.lock 0 .refused) .none, .ev (.lock 0 .granted) .none, .ev (.isLocked 0 true) .none,
   .ev (.refetch 0 true) .none, .ev (.dualLock 0 true) .none, .ev (.body 0 .ok) .none]

/-- Non-vacuity: on this script the records ARE there while the commit runs, the commit ends, and nothing is left. -/
theorem no_lock_left_behind_nonvacuous :
    let s1 := runR keepAll (cfgOf 900000 none) (initR (cfgOf 900000 none) 0 true trkRW noRecs 2 .none) refusedOnce
    let s2 := stepR keepAll (cfgOf 900000 none) s1 (.tail .ok)
    s1.i.cache 0 = some (⟨true, 0⟩, .get) ∧ s1.i.cache 1 = some (⟨true, 1⟩, .update) ∧ s1.i.ended = false ∧
    s2.i.ended = true ∧ s2.i.cache 0 = none ∧ s2.i.cache 1 = none := by decide +kernel

/-- `keepLockIdentity` not called for items that were only read (the get branch of the replay). -/
def keepNotGet : Act → Bool := fun a => a != .get

/-- Dropping the identity for READ items breaks the property: after one refused node lock the read item's record
(old LockID) is neither conflicting (get/get) nor owned, the commit SUCCEEDS and the record stays. -/
theorem identity_dropped_for_reads_leaks :
    let s := runR keepNotGet (cfgOf 900000 none) (initR (cfgOf 900000 none) 0 true trkRW noRecs 2 .none)
              (refusedOnce ++ [.tail .ok])
    s.l.pc = .done .success ∧ s.i.ended = true ∧ s.i.cache 0 = some (⟨true, 0⟩, .get) ∧ s.i.cache 1 = none := by
  decide +kernel

/-- the same when the transaction gives up after the refetch instead (error in the body) -/
theorem identity_dropped_for_reads_leaks_on_giveup :
    let s := runR keepNotGet (cfgOf 900000 none) (initR (cfgOf 900000 none) 0 true trkRW noRecs 2 .none)
              (refusedOnce.take 5 ++ [.ev (.fail 0) .none])
    s.l.pc = .done .error ∧ s.i.ended = true ∧ s.i.cache 0 = some (⟨true, 0⟩, .get) := by
  decide +kernel

/-- The full-strength statement: as `no_lock_left_behind`, without the `Benign` hypothesis and for any window of
the first `lock` call. FALSE on the tree under test, two ways: -/
def Statement_C15_items : Prop :=
  ∀ (c : Cfg) (start : Nat) (hk : Bool) (trk : List Trk) (cache : RCache) (n : Nat) (w : Window) (es : List REv),
    OwnFree cache → (trk.map (·.item)).Nodup →
    (runR keepAll c (initR c start hk trk cache n w) es).i.ended = true →
    OwnFree (runR keepAll c (initR c start hk trk cache n w) es).i.cache

def trkWW : List Trk := [⟨0, ⟨true, 0⟩, .update, false⟩, ⟨1, ⟨true, 1⟩, .update, false⟩]

/-- finding C15-F4: another writer's record lands on item 0 between this transaction's write and its verifying
read: `lock` returns "conflict" at item 0 and never marks item 1 (written, intact) as owned; the rollback
skips it. -/
theorem C15_items_counterexample_lock_early_return : ¬ Statement_C15_items := by
  intro h
  have := h (cfgOf 900000 none) 0 true trkWW noRecs 2 ⟨[.put 0 9 .update], false⟩ []
    (by intro j l a hj; simp [noRecs] at hj) (by decide) (by decide +kernel) 1 ⟨true, 1⟩ .update (by decide +kernel)
  simp at this

/-- finding C15-F5: the refetch fails after it has re-registered item 1 only (e.g. a replayed add hits a key
another transaction has added meanwhile): the tracker has forgotten item 0, whose record stays. -/
theorem C15_items_counterexample_failed_refetch : ¬ Statement_C15_items := by
  intro h
  have := h (cfgOf 900000 none) 0 true trkRW noRecs 2 .none
    [.ev (.lock 0 .refused) .none, .ev (.lock 0 .granted) .none, .ev (.isLocked 0 true) .none, .refetchFail 0 [1]]
    (by intro j l a hj; simp [noRecs] at hj) (by decide) (by decide +kernel) 0 ⟨true, 0⟩ .get (by decide +kernel)
  simp at this

end Sop.C15
