import Sop.Model.TwoPC
import Sop.Model.Lifecycle
/-! # C16 — external two-phase participants follow SOP's commit outcome

All theorems are about `Sop.TwoPC.commit / rollback` for an **arbitrary** list `ps` of attached
participants and an **arbitrary** script `s` (outcome of every call of every participant and of SOP,
participant `0`). "Before" is expressed on the call log: `log = pre ++ c :: post` and membership in `pre`.
-/
namespace Sop.C16
open Sop.TwoPC

/-! ## shape of the two loops -/

theorem callUntilFail_none {s : Script} {k : Kind} {ps : List Nat} {l : List Call}
    (h : callUntilFail s k ps = (l, none)) : l = callAll s k ps ∧ ∀ p ∈ ps, s p k = true := by
  induction ps generalizing l with
  | nil => simp [callUntilFail] at h; simp [h, callAll]
  | cons p ps ih =>
    unfold callUntilFail at h
    by_cases hp : s p k = true
    · simp only [hp, if_true] at h
      have e : callUntilFail s k ps = ((callUntilFail s k ps).1, none) := by
        have := congrArg Prod.snd h; simp at this
        exact Prod.ext rfl this
      obtain ⟨h1, h2⟩ := ih e
      have hl := congrArg Prod.fst h; simp at hl
      refine ⟨?_, ?_⟩
      · rw [← hl, h1]; simp [callAll]
      · intro q hq
        rcases List.mem_cons.1 hq with rfl | hq
        · exact hp
        · exact h2 q hq
    · simp [hp] at h

/-- a loop that stopped at `p`: everything called before `p` succeeded, `p` failed and is the last call -/
theorem callUntilFail_some {s : Script} {k : Kind} {ps : List Nat} {l : List Call} {p : Nat}
    (h : callUntilFail s k ps = (l, some p)) :
    ∃ ps₁ ps₂, ps = ps₁ ++ p :: ps₂ ∧ (∀ q ∈ ps₁, s q k = true) ∧ s p k = false ∧
      l = callAll s k ps₁ ++ [⟨p, k, false⟩] := by
  induction ps generalizing l with
  | nil => simp [callUntilFail] at h
  | cons a ps ih =>
    unfold callUntilFail at h
    by_cases ha : s a k = true
    · simp only [ha, if_true] at h
      have e : callUntilFail s k ps = ((callUntilFail s k ps).1, some p) := by
        have := congrArg Prod.snd h; simp at this
        exact Prod.ext rfl this
      obtain ⟨ps₁, ps₂, e1, e2, e3, e4⟩ := ih e
      have hl := congrArg Prod.fst h; simp at hl
      refine ⟨a :: ps₁, ps₂, by simp [e1], ?_, e3, ?_⟩
      · intro q hq
        rcases List.mem_cons.1 hq with rfl | hq
        · exact ha
        · exact e2 q hq
      · rw [← hl, e4]; simp [callAll]
    · have ha' : s a k = false := by simpa using ha
      simp only [ha', Bool.false_eq_true, if_false, Prod.mk.injEq, Option.some.injEq] at h
      obtain ⟨h1, h2⟩ := h
      subst h2
      exact ⟨[], ps, rfl, by simp, ha', by simp [← h1, callAll, call, ha']⟩

theorem mem_callAll {s : Script} {k : Kind} {ps : List Nat} {c : Call} :
    c ∈ callAll s k ps ↔ ∃ p ∈ ps, c = ⟨p, k, s p k⟩ := by
  simp [callAll, call, eq_comm]

/-- if `x` does not occur in `A`, every element of `A` precedes any occurrence of `x` in `A ++ B` -/
theorem prefix_mem_of_not_mem {α : Type} {A B pre post : List α} {x : α}
    (h : A ++ B = pre ++ x :: post) (hx : x ∉ A) : ∀ a ∈ A, a ∈ pre := by
  induction A generalizing pre with
  | nil => simp
  | cons a A ih =>
    cases pre with
    | nil =>
      simp at h
      exact absurd (by simp [h.1]) hx
    | cons b pre =>
      simp only [List.cons_append, List.cons.injEq] at h
      obtain ⟨rfl, h⟩ := h
      intro c hc
      rcases List.mem_cons.1 hc with rfl | hc
      · simp
      · exact List.mem_cons_of_mem _ (ih h (fun m => hx (List.mem_cons_of_mem _ m)) c hc)

/-! ## the outcome -/

/-- Commit returns `nil` exactly when SOP's phase 1, every participant's phase 1 and SOP's phase 2
succeeded (the outcome of the participants' phase 2 is ignored by the code). -/
theorem commit_ok_iff (s : Script) (ps : List Nat) :
    (commit s ps).2 = .ok ↔ (s 0 .phase1 = true ∧ (∀ p ∈ ps, s p .phase1 = true) ∧ s 0 .phase2 = true) := by
  unfold commit
  by_cases h1 : s 0 .phase1 = true
  · simp only [h1, if_true]
    rcases hc : callUntilFail s .phase1 ps with ⟨l1, _ | p⟩
    · obtain ⟨_, hall⟩ := callUntilFail_none hc
      by_cases h2 : s 0 .phase2 = true
      · simp only [h2, if_true, true_and, and_true, true_iff]; exact hall
      · simp [h2]
    · obtain ⟨ps₁, ps₂, e, _, hp, _⟩ := callUntilFail_some hc
      simp only [reduceCtorEq, true_and, false_iff, not_and]
      intro hall
      have := hall p (by simp [e])
      simp [hp] at this
  · simp [h1]

/-- the log of a successful commit, in full -/
theorem commit_ok_log (s : Script) (ps : List Nat) (h : (commit s ps).2 = .ok) :
    (commit s ps).1 = ⟨0, .phase1, true⟩ :: (callAll s .phase1 ps ++ ⟨0, .phase2, true⟩ :: callAll s .phase2 ps) := by
  obtain ⟨h1, hall, h2⟩ := (commit_ok_iff s ps).1 h
  unfold commit
  simp only [h1, if_true]
  rcases hc : callUntilFail s .phase1 ps with ⟨l1, _ | p⟩
  · obtain ⟨e, _⟩ := callUntilFail_none hc
    simp [h2, e, call, h1]
  · obtain ⟨ps₁, ps₂, e, _, hp, _⟩ := callUntilFail_some hc
    have := hall p (by simp [e])
    simp [hp] at this

/-- The log of a failed commit, in full: successful phase-1 calls, then the one failed call (a phase 1,
or SOP's phase 2), then immediately the complete rollback fan-out, and nothing else. In particular no
participant's phase 2 appears. -/
theorem commit_fail_log (s : Script) (ps : List Nat) (h : (commit s ps).2 ≠ .ok) :
    ∃ pre c, (commit s ps).1 = pre ++ c :: callAll s .rollback (0 :: ps) ∧
      c.ok = false ∧ (c.kind = .phase1 ∨ (c.kind = .phase2 ∧ c.who = 0)) ∧
      (∀ d ∈ pre, d.ok = true ∧ d.kind = .phase1) ∧
      (commit s ps).2 = .err c.who c.kind (lastFailed s .rollback (0 :: ps)) := by
  unfold commit at h ⊢
  by_cases h1 : s 0 .phase1 = true
  · simp only [h1, if_true] at h ⊢
    rcases hc : callUntilFail s .phase1 ps with ⟨l1, _ | p⟩
    · obtain ⟨e, hall⟩ := callUntilFail_none hc
      by_cases h2 : s 0 .phase2 = true
      · simp [hc, h2] at h
      · have h2' : s 0 .phase2 = false := by simpa using h2
        refine ⟨⟨0, .phase1, true⟩ :: l1, ⟨0, .phase2, false⟩, ?_, rfl, Or.inr ⟨rfl, rfl⟩, ?_, ?_⟩
        · simp [h2', call, h1, rollback]
        · intro d hd
          rcases List.mem_cons.1 hd with rfl | hd
          · exact ⟨rfl, rfl⟩
          · rw [e] at hd
            obtain ⟨q, hq, rfl⟩ := mem_callAll.1 hd
            exact ⟨hall q hq, rfl⟩
        · simp [h2', rollback]
    · obtain ⟨ps₁, ps₂, e, hpre, hp, el⟩ := callUntilFail_some hc
      refine ⟨⟨0, .phase1, true⟩ :: callAll s .phase1 ps₁, ⟨p, .phase1, false⟩, ?_, rfl, Or.inl rfl, ?_, ?_⟩
      · simp [el, call, h1, rollback]
      · intro d hd
        rcases List.mem_cons.1 hd with rfl | hd
        · exact ⟨rfl, rfl⟩
        · obtain ⟨q, hq, rfl⟩ := mem_callAll.1 hd
          exact ⟨hpre q hq, rfl⟩
      · simp [rollback]
  · have h1' : s 0 .phase1 = false := by simpa using h1
    refine ⟨[], ⟨0, .phase1, false⟩, ?_, rfl, Or.inl rfl, by simp, ?_⟩
    · simp [h1', call, rollback]
    · simp [h1', rollback]

/-! ## the three statements of the property -/

/-- **No participant's second phase runs unless every first phase succeeded and SOP's own second phase
succeeded — and all of that happened before it.** For any participants `ps` (SOP is id 0), any script,
any occurrence of a participant's phase-2 call in the commit log: SOP's phase 1, every participant's
phase 1 and SOP's phase 2 were called with success earlier in the log, the only earlier calls that may
have failed are other participants' phase-2 calls (whose result the code ignores), no rollback call
occurs anywhere in the log, and Commit returned `nil`. -/
theorem phase2_only_after_all_phase1 (s : Script) (ps : List Nat) (pre post : List Call) (p : Nat) (r : Bool)
    (hp : p ≠ 0) (hlog : (commit s ps).1 = pre ++ ⟨p, .phase2, r⟩ :: post) :
    ⟨0, .phase1, true⟩ ∈ pre ∧ (∀ q ∈ ps, ⟨q, .phase1, true⟩ ∈ pre) ∧ ⟨0, .phase2, true⟩ ∈ pre ∧
    (∀ c ∈ pre, c.ok = false → c.kind = .phase2 ∧ c.who ∈ ps) ∧ (∀ c ∈ (commit s ps).1, c.kind ≠ .rollback) ∧ (commit s ps).2 = .ok := by
  by_cases hok : (commit s ps).2 = .ok
  · obtain ⟨h1, hall, h2⟩ := (commit_ok_iff s ps).1 hok
    have hl := commit_ok_log s ps hok
    -- split the log as A ++ B with the participant phase-2 calls all in B
    have hsplit : (⟨0, .phase1, true⟩ :: (callAll s .phase1 ps ++ [⟨0, .phase2, true⟩])) ++ callAll s .phase2 ps
        = pre ++ ⟨p, .phase2, r⟩ :: post := by rw [← hlog, hl]; simp
    have hnot : (⟨p, .phase2, r⟩ : Call) ∉ (⟨0, .phase1, true⟩ :: (callAll s .phase1 ps ++ [⟨0, .phase2, true⟩])) := by
      intro hm
      simp only [List.mem_cons, List.mem_append, Call.mk.injEq, reduceCtorEq, false_and, and_false, false_or, List.not_mem_nil, or_false] at hm
      rcases hm with hm | hm
      · obtain ⟨q, _, e⟩ := mem_callAll.1 hm
        simp at e
      · exact hp hm.1
    have hA := prefix_mem_of_not_mem hsplit hnot
    refine ⟨hA _ (by simp), ?_, hA _ (by simp), ?_, ?_, hok⟩
    · intro q hq
      apply hA
      simp only [List.mem_cons, List.mem_append]
      right; left
      exact mem_callAll.2 ⟨q, hq, by simp [hall q hq]⟩
    · intro c hc
      have hc' : c ∈ (commit s ps).1 := by rw [hlog]; simp [hc]
      rw [hl] at hc'
      simp only [List.mem_cons, List.mem_append] at hc'
      intro hf
      rcases hc' with rfl | hc' | rfl | hc'
      · simp at hf
      · obtain ⟨q, hq, rfl⟩ := mem_callAll.1 hc'; simp [hall q hq] at hf
      · simp at hf
      · obtain ⟨q, hq, rfl⟩ := mem_callAll.1 hc'
        exact ⟨rfl, hq⟩
    · intro c hc
      rw [hl] at hc
      simp only [List.mem_cons, List.mem_append] at hc
      rcases hc with rfl | hc | rfl | hc
      · simp
      · obtain ⟨q, _, rfl⟩ := mem_callAll.1 hc; simp
      · simp
      · obtain ⟨q, _, rfl⟩ := mem_callAll.1 hc; simp
  · exfalso
    obtain ⟨pre', c, hl, _, hk, hpre, _⟩ := commit_fail_log s ps hok
    have hm : (⟨p, .phase2, r⟩ : Call) ∈ (commit s ps).1 := by rw [hlog]; simp
    rw [hl] at hm
    simp only [List.mem_append, List.mem_cons] at hm
    rcases hm with hm | rfl | hm
    · have := (hpre _ hm).2; simp at this
    · rcases hk with hk | ⟨_, hk⟩
      · simp at hk
      · exact hp hk
    · obtain ⟨q, _, e⟩ := mem_callAll.1 hm; simp at e

/-- "Something failed before SOP's phase 2 succeeded", read off the log: a failed phase-1 call, or a
failed phase-2 call of SOP itself. -/
def FailedBeforeOutcome (log : List Call) : Prop :=
  ∃ c ∈ log, c.ok = false ∧ (c.kind = .phase1 ∨ (c.kind = .phase2 ∧ c.who = 0))

/-- that log condition is exactly "Commit returned an error" (SOP, id 0, is not also attached as a participant) -/
theorem failedBeforeOutcome_iff (s : Script) (ps : List Nat) (h0 : 0 ∉ ps) :
    FailedBeforeOutcome (commit s ps).1 ↔ (commit s ps).2 ≠ .ok := by
  constructor
  · rintro ⟨c, hc, hf, hk⟩ hok
    obtain ⟨h1, hall, h2⟩ := (commit_ok_iff s ps).1 hok
    rw [commit_ok_log s ps hok] at hc
    simp only [List.mem_cons, List.mem_append] at hc
    rcases hc with rfl | hc | rfl | hc
    · simp at hf
    · obtain ⟨q, hq, rfl⟩ := mem_callAll.1 hc; simp [hall q hq] at hf
    · simp at hf
    · obtain ⟨q, hq, rfl⟩ := mem_callAll.1 hc
      rcases hk with hk | ⟨_, hk⟩
      · simp at hk
      · exact h0 (by simpa [← hk] using hq)
  · intro h
    obtain ⟨pre, c, hl, hf, hk, _, _⟩ := commit_fail_log s ps h
    exact ⟨c, by rw [hl]; simp, hf, hk⟩

/-- **If anything fails before SOP's phase 2 has succeeded, SOP is rolled back and every participant is
asked to roll back** — whatever the rollbacks themselves answer. Moreover the rollbacks come after the
failed call, SOP's is the first of them, no participant's phase 2 is ever called, SOP's phase 2 did not
succeed, and Commit reports an error to its caller. -/
theorem failure_rolls_back_all (s : Script) (ps : List Nat)
    (hfail : ¬ (s 0 .phase1 = true ∧ (∀ p ∈ ps, s p .phase1 = true) ∧ s 0 .phase2 = true)) :
    (commit s ps).2 ≠ .ok ∧
    (∃ pre c, (commit s ps).1 = pre ++ c :: ⟨0, .rollback, s 0 .rollback⟩ :: callAll s .rollback ps ∧
        c.ok = false ∧ ∀ d ∈ pre, d.ok = true ∧ d.kind = .phase1) ∧
    ⟨0, .rollback, s 0 .rollback⟩ ∈ (commit s ps).1 ∧
    (∀ p ∈ ps, ⟨p, .rollback, s p .rollback⟩ ∈ (commit s ps).1) ∧
    (∀ c ∈ (commit s ps).1, c.kind = .phase2 → c.who = 0 ∧ c.ok = false) := by
  have hne : (commit s ps).2 ≠ .ok := fun h => hfail ((commit_ok_iff s ps).1 h)
  obtain ⟨pre, c, hl, hf, hk, hpre, _⟩ := commit_fail_log s ps hne
  have hl' : (commit s ps).1 = pre ++ c :: ⟨0, .rollback, s 0 .rollback⟩ :: callAll s .rollback ps := by
    rw [hl]; simp [callAll, call]
  refine ⟨hne, ⟨pre, c, hl', hf, hpre⟩, by rw [hl']; simp, ?_, ?_⟩
  · intro p hp
    rw [hl']
    simp only [List.mem_append, List.mem_cons]
    right; right; right
    exact mem_callAll.2 ⟨p, hp, rfl⟩
  · intro d hd hk2
    rw [hl'] at hd
    simp only [List.mem_append, List.mem_cons] at hd
    rcases hd with hd | rfl | rfl | hd
    · have := (hpre d hd).2; rw [hk2] at this; simp at this
    · rcases hk with hk | ⟨_, hw⟩
      · rw [hk2] at hk; simp at hk
      · exact ⟨hw, hf⟩
    · simp at hk2
    · obtain ⟨q, _, rfl⟩ := mem_callAll.1 hd; simp at hk2

/-- the same, with the hypothesis read off the log -/
theorem failure_in_log_rolls_back_all (s : Script) (ps : List Nat) (h0 : 0 ∉ ps)
    (hfail : FailedBeforeOutcome (commit s ps).1) :
    ⟨0, .rollback, s 0 .rollback⟩ ∈ (commit s ps).1 ∧ ∀ p ∈ ps, ⟨p, .rollback, s p .rollback⟩ ∈ (commit s ps).1 := by
  have hne := (failedBeforeOutcome_iff s ps h0).1 hfail
  have := failure_rolls_back_all s ps (fun h => hne ((commit_ok_iff s ps).2 h))
  exact ⟨this.2.2.1, this.2.2.2.1⟩

/-- **A failing rollback does not stop the fan-out**: `Rollback` calls SOP and then every participant,
each exactly once and in attachment order, for every script — including scripts in which any subset of
the rollback calls fail; it reports the last failure, and reports success only if none failed. -/
theorem rollback_fanout_total (s : Script) (ps : List Nat) :
    (rollback s ps).1 = (0 :: ps).map (fun p => ⟨p, .rollback, s p .rollback⟩) ∧
    (∀ p ∈ 0 :: ps, ⟨p, .rollback, s p .rollback⟩ ∈ (rollback s ps).1) ∧
    (rollback s ps).1.length = ps.length + 1 ∧
    ((rollback s ps).2 = none ↔ ∀ p ∈ 0 :: ps, s p .rollback = true) ∧
    (∀ q, (rollback s ps).2 = some q → q ∈ 0 :: ps ∧ s q .rollback = false) := by
  have hlast : ∀ l : List Nat, (lastFailed s .rollback l = none ↔ ∀ p ∈ l, s p .rollback = true) ∧
      (∀ q, lastFailed s .rollback l = some q → q ∈ l ∧ s q .rollback = false) := by
    intro l
    induction l with
    | nil => simp [lastFailed]
    | cons a l ih =>
      unfold lastFailed
      cases hl : lastFailed s .rollback l with
      | some q =>
        have hq := ih.2 q hl
        refine ⟨?_, ?_⟩
        · simp only [reduceCtorEq, false_iff]
          intro hall
          have := hall q (List.mem_cons_of_mem _ hq.1)
          simp [hq.2] at this
        · intro q' e
          simp at e; subst e
          exact ⟨List.mem_cons_of_mem _ hq.1, hq.2⟩
      | none =>
        have hall := ih.1.1 hl
        by_cases ha : s a .rollback = true
        · simp only [ha, if_true, true_iff]
          refine ⟨?_, by simp⟩
          intro p hp
          rcases List.mem_cons.1 hp with rfl | hp
          · exact ha
          · exact hall p hp
        · have ha' : s a .rollback = false := by simpa using ha
          simp only [ha', Bool.false_eq_true, if_false, reduceCtorEq, false_iff, Option.some.injEq]
          refine ⟨fun h => by have := h a (by simp); simp [ha'] at this, ?_⟩
          rintro q rfl
          exact ⟨by simp, ha'⟩
  refine ⟨rfl, ?_, by simp [rollback, callAll], (hlast _).1, (hlast _).2⟩
  intro p hp
  simp only [rollback, callAll, call, List.mem_map]
  exact ⟨p, hp, rfl⟩

/-- the converse direction of the outcome: a successful commit tells **every** participant to commit,
after SOP's own phase 2, and rolls nothing back -/
theorem success_commits_all (s : Script) (ps : List Nat) (h : (commit s ps).2 = .ok) :
    (∀ p ∈ ps, ⟨p, .phase2, s p .phase2⟩ ∈ (commit s ps).1) ∧ ∀ c ∈ (commit s ps).1, c.kind ≠ .rollback := by
  rw [commit_ok_log s ps h]
  refine ⟨?_, ?_⟩
  · intro p hp
    simp only [List.mem_cons, List.mem_append]
    right; right; right
    exact mem_callAll.2 ⟨p, hp, rfl⟩
  · intro c hc
    simp only [List.mem_cons, List.mem_append] at hc
    rcases hc with rfl | hc | rfl | hc
    · simp
    · obtain ⟨q, _, rfl⟩ := mem_callAll.1 hc; simp
    · simp
    · obtain ⟨q, _, rfl⟩ := mem_callAll.1 hc; simp

/-- Outside the statement, recorded because it is how the code behaves: a failing `Begin` of a participant
returns the error without rolling back the transactions already begun (the log holds `begin` calls only). -/
theorem begin_never_rolls_back (s : Script) (ps : List Nat) : ∀ c ∈ (begin s ps).1, c.kind = .begin := by
  have h : ∀ l : List Nat, ∀ c ∈ (callUntilFail s .begin l).1, c.kind = .begin := by
    intro l
    induction l with
    | nil => simp [callUntilFail]
    | cons a l ih =>
      unfold callUntilFail
      by_cases ha : s a .begin = true
      · simp only [ha, if_true, List.mem_cons]
        rintro c (rfl | hc)
        · rfl
        · exact ih c hc
      · simp [ha, call]
  exact h _

/-! ## non-vacuity: the hypotheses are met by non-trivial scripts -/

/-- three participants; participant 2's phase 1 fails, participant 1's and SOP's rollbacks fail too -/
def sFail : Script := fun p k =>
  match p, k with
  | 2, .phase1 => false
  | 1, .rollback => false
  | 0, .rollback => false
  | _, _ => true

/-- everything succeeds except participant 1's phase 2 (ignored by the code) -/
def sOk : Script := fun p k =>
  match p, k with
  | 1, .phase2 => false
  | _, _ => true

example : (commit sFail [1, 2, 3]).1 =
    [⟨0, .phase1, true⟩, ⟨1, .phase1, true⟩, ⟨2, .phase1, false⟩,
     ⟨0, .rollback, false⟩, ⟨1, .rollback, false⟩, ⟨2, .rollback, true⟩, ⟨3, .rollback, true⟩] := by decide
example : (commit sFail [1, 2, 3]).2 = .err 2 .phase1 (some 1) := by decide
example : ¬ (sFail 0 .phase1 = true ∧ (∀ p ∈ [1, 2, 3], sFail p .phase1 = true) ∧ sFail 0 .phase2 = true) := by decide
example : FailedBeforeOutcome (commit sFail [1, 2, 3]).1 := ⟨⟨2, .phase1, false⟩, by decide, rfl, Or.inl rfl⟩
/-- the hypothesis of `phase2_only_after_all_phase1` is met with a non-empty `pre` and `post` -/
example : (commit sOk [1, 2, 3]).1 =
    [⟨0, .phase1, true⟩, ⟨1, .phase1, true⟩, ⟨2, .phase1, true⟩, ⟨3, .phase1, true⟩, ⟨0, .phase2, true⟩, ⟨1, .phase2, false⟩]
      ++ ⟨2, .phase2, true⟩ :: [⟨3, .phase2, true⟩] := by decide
example : (commit sOk [1, 2, 3]).2 = .ok := by decide
example : (rollback sFail [1, 2, 3]).2 = some 1 := by decide


/-! # SOP's side as the real lifecycle (`commitL`, `rollbackL`, `sopCall`)

`SinglePhaseTransaction.HasBegun()` is SOP's own `HasBegun()`, and `common.Transaction` ends itself before it
returns a phase error. The theorems below are about the model in which SOP's side is that state machine
(`Sop.TwoPC.sopCall`), for every start state, every work-failure pattern `w`, every participant script `s` and
every list of participants. `commitL_asIs_refines` says the code as it is never looks at that state, so all the
theorems above carry over (with SOP's answers computed by the lifecycle); `guard_leaves_participants_in_doubt`
shows that an early `if !t.HasBegun() { return nil }` in `Rollback` does not. The wrapper's own `committed` flag
(fix 6c4c66ea; `d`/`done` below, unset on a fresh object) is part of the state: `C16_session` is the session-level
statement over every sequence of method calls, `legacy_rolls_back_committed_participants` the witness of what the
code did before that fix. -/
set_option linter.unusedSimpArgs false



theorem callUntilFail_congr {s s' : Script} {k : Kind} {ps : List Nat} (h : ∀ p ∈ ps, s p k = s' p k) :
    callUntilFail s k ps = callUntilFail s' k ps := by
  induction ps with
  | nil => rfl
  | cons a ps ih =>
    have ha := h a (by simp)
    have ih' := ih (fun p hp => h p (List.mem_cons_of_mem _ hp))
    simp [callUntilFail, call, ha, ih']

theorem callAll_congr {s s' : Script} {k : Kind} {ps : List Nat} (h : ∀ p ∈ ps, s p k = s' p k) :
    callAll s k ps = callAll s' k ps := by
  simp only [callAll]
  exact List.map_congr_left (fun p hp => by simp [call, h p hp])

theorem lastFailed_congr {s s' : Script} {k : Kind} {ps : List Nat} (h : ∀ p ∈ ps, s p k = s' p k) :
    lastFailed s k ps = lastFailed s' k ps := by
  induction ps with
  | nil => rfl
  | cons a ps ih =>
    have ha := h a (by simp)
    have ih' := ih (fun p hp => h p (List.mem_cons_of_mem _ hp))
    simp [lastFailed, ha, ih']

theorem eff_other (w : Work) (s : Script) (ps : List Nat) (σ : SopSt) (h0 : 0 ∉ ps) (k : Kind) :
    ∀ p ∈ ps, effScript w s ps σ p k = s p k := by
  intro p hp
  have : p ≠ 0 := fun e => h0 (e ▸ hp)
  simp [effScript, this]

theorem tag_toCall (σ : SopSt) (l : List Call) : (tag σ l).map CallL.toCall = l := by
  simp [tag, CallL.toCall, Function.comp_def]

/-- **Refinement.** One `Commit` of the code as it is, with SOP's side the real lifecycle started in ANY state `σ`
and any work-failure pattern `w`, makes exactly the calls (and returns exactly the result) of the black-box model
above run on the script in which SOP answers what the lifecycle answers (`effScript`). So `HasBegun` turning false
inside a failed phase changes nothing for the participants — every theorem above applies to `commitL .asIs`. -/
theorem commitL_asIs_refines (w : Work) (s : Script) (ps : List Nat) (σ : SopSt) (h0 : 0 ∉ ps) :
    ((commitL .asIs w s ps σ false).log.map CallL.toCall, (commitL .asIs w s ps σ false).ret)
      = commit (effScript w s ps σ) ps := by
  have e1 := callUntilFail_congr (k := .phase1) (eff_other w s ps σ h0 .phase1)
  have e2 := callAll_congr (k := .phase2) (eff_other w s ps σ h0 .phase2)
  have e3 := callAll_congr (k := .rollback) (eff_other w s ps σ h0 .rollback)
  have e4 := lastFailed_congr (k := .rollback) (eff_other w s ps σ h0 .rollback)
  have c1 : effScript w s ps σ 0 .phase1 = (sopCall σ .phase1 (w .phase1)).2 := by simp [effScript]
  have c2 : effScript w s ps σ 0 .phase2 = (sopCall (sopCall σ .phase1 (w .phase1)).1 .phase2 (w .phase2)).2 := by
    simp [effScript]
  have c3 : effScript w s ps σ 0 .rollback = (sopCall (if (sopCall σ .phase1 (w .phase1)).2 && (callUntilFail s .phase1 ps).2.isNone
      then (sopCall (sopCall σ .phase1 (w .phase1)).1 .phase2 (w .phase2)).1 else (sopCall σ .phase1 (w .phase1)).1) .rollback (w .rollback)).2 := by
    simp [effScript]
  unfold commit rollback commitL rollbackL sopLogged
  rw [e1]
  simp only [callAll, List.map_cons, lastFailed, call, c1, c2, c3]
  simp only [← callAll.eq_1, e2, e3, e4]
  cases h1 : (sopCall σ .phase1 (w .phase1)).2
  · simp [tag_toCall, CallL.toCall]
  · rcases hc : callUntilFail s .phase1 ps with ⟨l1, _ | p⟩
    · cases h2 : (sopCall (sopCall σ .phase1 (w .phase1)).1 .phase2 (w .phase2)).2
      · simp [tag_toCall, CallL.toCall]
      · simp [tag_toCall, CallL.toCall]
    · simp [tag_toCall, CallL.toCall]


theorem sopCall_rollback_ends (σ : SopSt) (w : Bool) : (sopCall σ .rollback w).1.hasBegun = false := by
  unfold sopCall
  simp only
  split
  · rename_i h; simp [SopSt.hasBegun, h]
  · split
    · rename_i h; simpa using h
    · simp [SopSt.hasBegun]

theorem sopCall_rollback_committed (σ : SopSt) (w : Bool) : (sopCall σ .rollback w).1.committed = σ.committed := by
  unfold sopCall
  simp only
  split
  · rfl
  · split <;> rfl

theorem sopCall_phase1_committed (σ : SopSt) (w : Bool) : (sopCall σ .phase1 w).1.committed = σ.committed := by
  unfold sopCall
  simp only
  split
  · rfl
  · split
    · rfl
    · rfl
    · split <;> rfl

theorem sopCall_phase2_ok (σ : SopSt) (w : Bool) (h : (sopCall σ .phase2 w).2 = true) :
    (sopCall σ .phase2 w).1.committed = true ∧ (sopCall σ .phase2 w).1.hasBegun = false := by
  unfold sopCall at h ⊢
  simp only at h ⊢
  split at h
  · simp at h
  · split at h
    · simp at h
    · split at h
      · split at h
        · simp_all [SopSt.hasBegun]
        · simp at h
      · simp_all [SopSt.hasBegun]

theorem sopCall_phase2_fail (σ : SopSt) (w : Bool) (h : (sopCall σ .phase2 w).2 = false) :
    (sopCall σ .phase2 w).1.committed = σ.committed := by
  unfold sopCall at h ⊢
  simp only at h ⊢
  split
  · rfl
  · split
    · rfl
    · split
      · split
        · simp_all
        · rfl
      · simp_all

/-! ## the outcome under the faithful lifecycle -/

theorem filter_none {α : Type} (f : α → Bool) (l : List α) (h : ∀ a ∈ l, f a = false) : l.filter f = [] := by
  induction l with
  | nil => rfl
  | cons a l ih =>
    have := h a (by simp)
    simp [List.filter, this, ih (fun b hb => h b (List.mem_cons_of_mem _ hb))]

def isDecision (c : Call) : Bool := c.who != 0 && (c.kind == .phase2 || c.kind == .rollback)

theorem filter_callAll_keep (s : Script) (k : Kind) (ps : List Nat) (h0 : 0 ∉ ps) (hk : k = .phase2 ∨ k = .rollback) :
    (callAll s k ps).filter isDecision = callAll s k ps := by
  apply List.filter_eq_self.2
  intro c hc
  obtain ⟨p, hp, rfl⟩ := mem_callAll.1 hc
  have : p ≠ 0 := fun e => h0 (e ▸ hp)
  rcases hk with rfl | rfl <;> simp [isDecision, this]

theorem decisions_eq (log : List CallL) : decisions log = (log.map CallL.toCall).filter isDecision := rfl

/-- the state SOP's side is left in by one `Commit` (code as it is) -/
theorem commitL_asIs_state (w : Work) (s : Script) (ps : List Nat) (σ : SopSt) (hc : σ.committed = false) :
    (commitL .asIs w s ps σ false).st.hasBegun = false ∧
    ((commitL .asIs w s ps σ false).st.committed = true ↔ (commitL .asIs w s ps σ false).ret = .ok) := by
  unfold commitL rollbackL sopLogged
  simp only [reduceCtorEq, false_and, if_false]
  cases h1 : (sopCall σ .phase1 (w .phase1)).2
  · simp [sopCall_rollback_ends, sopCall_rollback_committed, sopCall_phase1_committed, hc]
  · rcases hcu : callUntilFail s .phase1 ps with ⟨l1, _ | p⟩
    · cases h2 : (sopCall (sopCall σ .phase1 (w .phase1)).1 .phase2 (w .phase2)).2
      · simp [sopCall_rollback_ends, sopCall_rollback_committed, sopCall_phase2_fail _ _ h2, sopCall_phase1_committed, hc]
      · simp [sopCall_phase2_ok _ _ h2]
    · simp [sopCall_rollback_ends, sopCall_rollback_committed, sopCall_phase1_committed, hc]

/-- **The outcome theorem under the faithful lifecycle.** For every list of attached participants (SOP, id 0, not
among them), every participant script, every pattern of failing SOP work and every start state of SOP's side that
is not already committed: after one `Commit` SOP's transaction is over (`HasBegun() == false`), and EITHER Commit
returned `nil`, SOP is committed, and the decision calls the participants received are exactly one `Phase2Commit`
per attachment, in attachment order; OR Commit returned an error, SOP is not committed, and the decision calls are
exactly one `Rollback` per attachment, in attachment order. No participant is left after `Phase1Commit` without a
decision, none gets both, and the decision is SOP's. -/
theorem outcome_faithful (w : Work) (s : Script) (ps : List Nat) (σ : SopSt) (h0 : 0 ∉ ps) (hc : σ.committed = false) :
    ((commitL .asIs w s ps σ false).ret = .ok ∧ (commitL .asIs w s ps σ false).st.committed = true ∧
        (commitL .asIs w s ps σ false).st.hasBegun = false ∧
        decisions (commitL .asIs w s ps σ false).log = callAll s .phase2 ps) ∨
    ((commitL .asIs w s ps σ false).ret ≠ .ok ∧ (commitL .asIs w s ps σ false).st.committed = false ∧
        (commitL .asIs w s ps σ false).st.hasBegun = false ∧
        decisions (commitL .asIs w s ps σ false).log = callAll s .rollback ps) := by
  obtain ⟨hb, hcm⟩ := commitL_asIs_state w s ps σ hc
  have href := commitL_asIs_refines w s ps σ h0
  have hlog : (commitL .asIs w s ps σ false).log.map CallL.toCall = (commit (effScript w s ps σ) ps).1 := by rw [← href]
  have hret : (commitL .asIs w s ps σ false).ret = (commit (effScript w s ps σ) ps).2 := by rw [← href]
  have e2 := callAll_congr (k := .phase2) (eff_other w s ps σ h0 .phase2)
  have e3 := callAll_congr (k := .rollback) (eff_other w s ps σ h0 .rollback)
  by_cases hok : (commitL .asIs w s ps σ false).ret = .ok
  · left
    refine ⟨hok, hcm.2 hok, hb, ?_⟩
    rw [decisions_eq, hlog, commit_ok_log _ _ (hret ▸ hok)]
    simp only [List.filter_cons, List.filter_append]
    rw [filter_none isDecision (callAll _ .phase1 ps) (by
      intro c hc; obtain ⟨p, _, rfl⟩ := mem_callAll.1 hc; simp [isDecision]),
      filter_callAll_keep _ _ _ h0 (Or.inl rfl), e2]
    simp [isDecision]
  · right
    refine ⟨hok, ?_, hb, ?_⟩
    · cases hcc : (commitL .asIs w s ps σ false).st.committed
      · rfl
      · exact absurd (hcm.1 hcc) hok
    · obtain ⟨pre, c, hl, _, hk, hpre, _⟩ := commit_fail_log (effScript w s ps σ) ps (hret ▸ hok)
      rw [decisions_eq, hlog, hl]
      simp only [List.filter_cons, List.filter_append, callAll, List.map_cons]
      simp only [← callAll.eq_1]
      rw [filter_none isDecision pre (by
        intro d hd; have := (hpre d hd).2; simp [isDecision, this]),
        filter_callAll_keep _ _ _ h0 (Or.inr rfl), e3]
      have hcd : isDecision c = false := by
        rcases hk with hk | ⟨_, hw⟩
        · simp [isDecision, hk]
        · simp [isDecision, hw]
      simp only [hcd, Bool.false_eq_true, if_false, List.nil_append]
      simp [isDecision, call]



/-- a begun writer -/
def σW : SopSt := ⟨.forWriting, 0, false⟩
/-- SOP's phase-2 work fails (e.g. the registry flip), everything else works -/
def wP2 : Work := fun k => match k with | .phase2 => false | _ => true
def wP1 : Work := fun k => match k with | .phase1 => false | _ => true
def sAll : Script := fun _ _ => true
def wAll : Work := fun _ => true

/-- **The early-return variant leaves participants in doubt.** With `if !t.HasBegun() { return nil }` at the top
of `SinglePhaseTransaction.Rollback`, a begun writer whose phase-2 work fails (it sets `phaseDone = 2` first, so
`HasBegun()` is already false when `Commit` calls `t.Rollback`) makes the calls
`P0.phase1 P1.phase1 P2.phase1 P0.phase2(failed)` and nothing else: both participants passed `Phase1Commit` and
receive neither `Phase2Commit` nor `Rollback`. The code as it is rolls both back. -/
theorem guard_leaves_participants_in_doubt :
    (commitL .guard wP2 sAll [1, 2] σW false).log =
      [⟨0, .phase1, true, true⟩, ⟨1, .phase1, true, true⟩, ⟨2, .phase1, true, true⟩, ⟨0, .phase2, false, false⟩] ∧
    (commitL .guard wP2 sAll [1, 2] σW false).ret = .err 0 .phase2 none ∧
    decisions (commitL .guard wP2 sAll [1, 2] σW false).log = [] ∧
    decisions (commitL .asIs wP2 sAll [1, 2] σW false).log = [⟨1, .rollback, true⟩, ⟨2, .rollback, true⟩] := by
  decide +kernel


/-- the order constraint under the faithful lifecycle: a participant's `Phase2Commit` comes only after SOP's
phase 1, every participant's phase 1 and SOP's phase 2 were called with success, and Commit returns `nil` -/
theorem phase2_only_after_all_phase1_faithful (w : Work) (s : Script) (ps : List Nat) (σ : SopSt) (h0 : 0 ∉ ps)
    (pre post : List Call) (p : Nat) (r : Bool) (hp : p ≠ 0)
    (hlog : (commitL .asIs w s ps σ false).log.map CallL.toCall = pre ++ ⟨p, .phase2, r⟩ :: post) :
    ⟨0, .phase1, true⟩ ∈ pre ∧ (∀ q ∈ ps, ⟨q, .phase1, true⟩ ∈ pre) ∧ ⟨0, .phase2, true⟩ ∈ pre ∧
    (∀ c ∈ (commitL .asIs w s ps σ false).log, c.kind ≠ .rollback) ∧ (commitL .asIs w s ps σ false).ret = .ok := by
  have href := commitL_asIs_refines w s ps σ h0
  have hl : (commitL .asIs w s ps σ false).log.map CallL.toCall = (commit (effScript w s ps σ) ps).1 := by rw [← href]
  have hret : (commitL .asIs w s ps σ false).ret = (commit (effScript w s ps σ) ps).2 := by rw [← href]
  obtain ⟨a, b, c, _, e, f⟩ := phase2_only_after_all_phase1 (effScript w s ps σ) ps pre post p r hp (hl ▸ hlog)
  refine ⟨a, b, c, ?_, hret ▸ f⟩
  intro d hd
  exact e d.toCall (hl ▸ List.mem_map_of_mem hd)

/-! non-vacuity: a begun writer, two participants; both branches of `outcome_faithful` occur, and in the failing
ones SOP's `HasBegun()` is already false when the rollback fan-out starts -/
example : (commitL .asIs wAll sAll [1, 2] σW false).ret = .ok ∧
    decisions (commitL .asIs wAll sAll [1, 2] σW false).log = [⟨1, .phase2, true⟩, ⟨2, .phase2, true⟩] := by decide +kernel
example : (commitL .asIs wP1 sAll [1, 2] σW false).log =
    [⟨0, .phase1, false, false⟩, ⟨0, .rollback, true, false⟩, ⟨1, .rollback, true, false⟩, ⟨2, .rollback, true, false⟩] := by
  decide +kernel
example : (commitL .asIs wP2 sAll [1, 2] σW false).log =
    [⟨0, .phase1, true, true⟩, ⟨1, .phase1, true, true⟩, ⟨2, .phase1, true, true⟩, ⟨0, .phase2, false, false⟩,
     ⟨0, .rollback, true, false⟩, ⟨1, .rollback, true, false⟩, ⟨2, .rollback, true, false⟩] := by decide +kernel



/-! ## sessions -/

def hasP2 (l : List CallL) : Bool := l.any isP2
def hasRb (l : List CallL) : Bool := l.any isRb

theorem kinds_callAll (s : Script) (k : Kind) (ps : List Nat) : ∀ c ∈ callAll s k ps, c.kind = k := by
  intro c hc; obtain ⟨p, _, rfl⟩ := mem_callAll.1 hc; rfl

theorem kinds_cuf (s : Script) (k : Kind) (ps : List Nat) : ∀ c ∈ (callUntilFail s k ps).1, c.kind = k := by
  induction ps with
  | nil => simp [callUntilFail]
  | cons a ps ih =>
    unfold callUntilFail
    by_cases ha : s a k = true
    · simp only [ha, if_true, List.mem_cons]
      rintro c (rfl | hc)
      · rfl
      · exact ih c hc
    · simp [ha, call]

theorem any_tag (σ : SopSt) (l : List Call) (k : Kind) (f : CallL → Bool) (hk : ∀ c ∈ l, c.kind = k)
    (hf : ∀ c : CallL, c.kind = k → f c = false) : (tag σ l).any f = false := by
  simp only [tag, List.any_eq_false, List.mem_map]
  rintro c ⟨d, hd, rfl⟩
  simp [hf ⟨d.who, d.kind, d.ok, σ.hasBegun⟩ (hk d hd)]

theorem isP2_kind {c : CallL} {k : Kind} (hk : k ≠ .phase2) (h : c.kind = k) : isP2 c = false := by
  cases c; simp_all [isP2]
theorem isRb_kind {c : CallL} {k : Kind} (hk : k ≠ .rollback) (h : c.kind = k) : isRb c = false := by
  cases c; simp_all [isRb]

theorem cuf_fst_of_eq {s : Script} {k : Kind} {ps : List Nat} {l : List Call} {o : Option Nat}
    (h : callUntilFail s k ps = (l, o)) : ∀ c ∈ l, c.kind = k := by
  have := kinds_cuf s k ps; rw [h] at this; exact this

/-- `Begin` tells no participant to commit or to roll back and leaves the flag alone -/
theorem beginL_facts (w : Work) (s : Script) (ps : List Nat) (σ : SopSt) (d : Bool) :
    hasP2 (beginL w s ps σ d).log = false ∧ hasRb (beginL w s ps σ d).log = false ∧ (beginL w s ps σ d).done = d ∧
    (beginL w s ps σ d).st = (sopCall σ .begin (w .begin)).1 := by
  unfold beginL sopLogged hasP2 hasRb
  simp only
  split
  · refine ⟨?_, ?_, rfl, rfl⟩
    · simp [isP2, any_tag _ _ .begin isP2 (kinds_cuf s .begin ps) (fun c h => isP2_kind (by decide) h)]
    · simp [isRb, any_tag _ _ .begin isRb (kinds_cuf s .begin ps) (fun c h => isRb_kind (by decide) h)]
  · simp [isP2, isRb]

/-- `Rollback` (code as it is) tells nobody to commit, and nobody to roll back once the flag is set -/
theorem rollbackL_facts (w : Work) (s : Script) (ps : List Nat) (σ : SopSt) (d : Bool) :
    hasP2 (rollbackOutL .asIs w s ps σ d).log = false ∧ (d = true → hasRb (rollbackOutL .asIs w s ps σ d).log = false) ∧
    (rollbackOutL .asIs w s ps σ d).done = d ∧
    (rollbackOutL .asIs w s ps σ d).st = (sopCall σ .rollback (w .rollback)).1 := by
  unfold rollbackOutL rollbackL sopLogged hasP2 hasRb
  cases d
  · simp [isP2, any_tag _ _ .rollback isP2 (kinds_callAll s .rollback ps) (fun c h => isP2_kind (by decide) h)]
  · simp [isP2, isRb]


/-- SOP's transaction has been begun at some point: `phaseDone` is 0, 1 or 2 -/
def pdOK (σ : SopSt) : Prop := σ.pd = 0 ∨ σ.pd = 1 ∨ σ.pd = 2

theorem sopCall_pdOK (σ : SopSt) (k : Kind) (w : Bool) (h : pdOK σ) : pdOK (sopCall σ k w).1 := by
  unfold pdOK at h ⊢
  rcases h with h | h | h <;> cases k <;> cases w <;> cases hm : σ.mode <;>
    simp [sopCall, SopSt.hasBegun, h, hm]

theorem sopCall_rollback_pd (σ : SopSt) (w : Bool) (h : pdOK σ) : (sopCall σ .rollback w).1.pd = 2 := by
  rcases h with h | h | h <;> simp [sopCall, SopSt.hasBegun, h]

theorem sopCall_done_stays (σ : SopSt) (k : Kind) (w : Bool) (h : σ.pd = 2) : (sopCall σ k w).1.pd = 2 := by
  cases k <;> cases w <;> cases hm : σ.mode <;> simp [sopCall, SopSt.hasBegun, h, hm]

theorem sopCall_phase1_done (σ : SopSt) (w : Bool) (h : σ.pd = 2) : (sopCall σ .phase1 w).2 = false := by
  simp [sopCall, SopSt.hasBegun, h]

/-- what one `Commit` (code as it is) can do to the participants and to the flag -/
theorem commitL_facts (w : Work) (s : Script) (ps : List Nat) (σ : SopSt) (d : Bool) :
    ((commitL .asIs w s ps σ d).ret = .ok →
        (commitL .asIs w s ps σ d).done = true ∧ hasRb (commitL .asIs w s ps σ d).log = false) ∧
    ((commitL .asIs w s ps σ d).ret ≠ .ok →
        (commitL .asIs w s ps σ d).done = d ∧ hasP2 (commitL .asIs w s ps σ d).log = false) ∧
    (d = true → hasRb (commitL .asIs w s ps σ d).log = false) := by
  unfold commitL rollbackL sopLogged hasP2 hasRb
  simp only [reduceCtorEq, false_and, if_false]
  cases h1 : (sopCall σ .phase1 (w .phase1)).2
  · cases d <;>
      simp [isP2, isRb, any_tag _ _ .rollback isP2 (kinds_callAll s .rollback ps) (fun c h => isP2_kind (by decide) h)]
  · rcases hcu : callUntilFail s .phase1 ps with ⟨l1, _ | p⟩
    · have k1 := cuf_fst_of_eq hcu
      cases h2 : (sopCall (sopCall σ .phase1 (w .phase1)).1 .phase2 (w .phase2)).2
      · cases d <;>
          simp [isP2, isRb, any_tag _ _ .rollback isP2 (kinds_callAll s .rollback ps) (fun c h => isP2_kind (by decide) h),
            any_tag _ _ .phase1 isP2 k1 (fun c h => isP2_kind (by decide) h),
            any_tag _ _ .phase1 isRb k1 (fun c h => isRb_kind (by decide) h)]
      · simp [isP2, isRb, any_tag _ _ .phase2 isRb (kinds_callAll s .phase2 ps) (fun c h => isRb_kind (by decide) h),
            any_tag _ _ .phase1 isRb k1 (fun c h => isRb_kind (by decide) h)]
    · have k1 := cuf_fst_of_eq hcu
      cases d <;>
        simp [isP2, isRb, any_tag _ _ .rollback isP2 (kinds_callAll s .rollback ps) (fun c h => isP2_kind (by decide) h),
          any_tag _ _ .phase1 isP2 k1 (fun c h => isP2_kind (by decide) h),
          any_tag _ _ .phase1 isRb k1 (fun c h => isRb_kind (by decide) h)]

/-- SOP's transaction is over after a `Commit` on a transaction that had been begun -/
theorem commitL_pd (w : Work) (s : Script) (ps : List Nat) (σ : SopSt) (d : Bool) (h : pdOK σ) :
    (commitL .asIs w s ps σ d).st.pd = 2 := by
  have a1 := sopCall_pdOK σ .phase1 (w .phase1) h
  have a2 := sopCall_pdOK _ .phase2 (w .phase2) a1
  unfold commitL rollbackL sopLogged
  simp only [reduceCtorEq, false_and, if_false]
  cases h1 : (sopCall σ .phase1 (w .phase1)).2
  · cases d <;> simp [sopCall_rollback_pd _ _ a1]
  · rcases hcu : callUntilFail s .phase1 ps with ⟨l1, _ | p⟩
    · cases h2 : (sopCall (sopCall σ .phase1 (w .phase1)).1 .phase2 (w .phase2)).2
      · cases d <;> simp [sopCall_rollback_pd _ _ a2]
      · have := (sopCall_phase2_ok _ _ h2).2
        rcases a2 with e | e | e
        · simp [SopSt.hasBegun, e] at this
        · simp [SopSt.hasBegun, e] at this
        · simpa using e
    · cases d <;> simp [sopCall_rollback_pd _ _ a1]

/-- a `Commit` on an ended SOP transaction fails -/
theorem commitL_done_fails (w : Work) (s : Script) (ps : List Nat) (σ : SopSt) (d : Bool) (h : σ.pd = 2) :
    (commitL .asIs w s ps σ d).ret ≠ .ok := by
  unfold commitL sopLogged
  simp [sopCall_phase1_done σ _ h]


/-! ### one method call of a session -/

theorem stepL_begin (ps : List Nat) (τ : TxSt) (x : StepL) (hop : x.op = .begin) :
    hasP2 (stepL .asIs ps τ x).log = false ∧ hasRb (stepL .asIs ps τ x).log = false ∧
    (stepL .asIs ps τ x).done = τ.done ∧ (pdOK τ.sop → pdOK (stepL .asIs ps τ x).st) := by
  have hb := beginL_facts x.w x.s ps τ.sop τ.done
  have e : stepL .asIs ps τ x = beginL x.w x.s ps τ.sop τ.done := by simp [stepL, hop]
  rw [e]
  exact ⟨hb.1, hb.2.1, hb.2.2.1, fun h => hb.2.2.2 ▸ sopCall_pdOK _ _ _ h⟩

theorem stepL_rollback (ps : List Nat) (τ : TxSt) (x : StepL) (hop : x.op = .rollback) :
    hasP2 (stepL .asIs ps τ x).log = false ∧ (τ.done = true → hasRb (stepL .asIs ps τ x).log = false) ∧
    (stepL .asIs ps τ x).done = τ.done ∧ (pdOK τ.sop → (stepL .asIs ps τ x).st.pd = 2) := by
  have hb := rollbackL_facts x.w x.s ps τ.sop τ.done
  have e : stepL .asIs ps τ x = rollbackOutL .asIs x.w x.s ps τ.sop τ.done := by simp [stepL, hop]
  rw [e]
  exact ⟨hb.1, hb.2.1, hb.2.2.1, fun h => hb.2.2.2 ▸ sopCall_rollback_pd _ _ h⟩

theorem stepL_commit (ps : List Nat) (τ : TxSt) (x : StepL) (hop : x.op = .commit) :
    ((stepL .asIs ps τ x).ret = .ok → (stepL .asIs ps τ x).done = true ∧ hasRb (stepL .asIs ps τ x).log = false) ∧
    ((stepL .asIs ps τ x).ret ≠ .ok → (stepL .asIs ps τ x).done = τ.done ∧ hasP2 (stepL .asIs ps τ x).log = false) ∧
    (τ.done = true → hasRb (stepL .asIs ps τ x).log = false) ∧
    (pdOK τ.sop → (stepL .asIs ps τ x).st.pd = 2) := by
  have hc := commitL_facts x.w x.s ps τ.sop τ.done
  have e : stepL .asIs ps τ x = commitL .asIs x.w x.s ps τ.sop τ.done := by simp [stepL, hop]
  rw [e]
  exact ⟨hc.1, hc.2.1, hc.2.2, fun h => commitL_pd _ _ _ _ _ h⟩

theorem stepL_done_stays (ps : List Nat) (τ : TxSt) (x : StepL) (h : τ.done = true) :
    (stepL .asIs ps τ x).done = true ∧ hasRb (stepL .asIs ps τ x).log = false := by
  cases hop : x.op
  · have := stepL_begin ps τ x hop
    exact ⟨this.2.2.1.trans h, this.2.1⟩
  · have := stepL_commit ps τ x hop
    refine ⟨?_, this.2.2.1 h⟩
    by_cases hr : (stepL .asIs ps τ x).ret = .ok
    · exact (this.1 hr).1
    · exact (this.2.1 hr).1.trans h
  · have := stepL_rollback ps τ x hop
    exact ⟨this.2.2.1.trans h, this.2.1 h⟩

/-- within one method call: if a participant is told to commit, the flag is set and nobody is told to roll back -/
theorem stepL_p2 (ps : List Nat) (τ : TxSt) (x : StepL) (h : hasP2 (stepL .asIs ps τ x).log = true) :
    (stepL .asIs ps τ x).done = true ∧ hasRb (stepL .asIs ps τ x).log = false := by
  unfold stepL at h ⊢
  cases hop : x.op <;> simp only [hop] at h ⊢
  · simp [(beginL_facts x.w x.s ps τ.sop τ.done).1] at h
  · have := commitL_facts x.w x.s ps τ.sop τ.done
    by_cases hr : (commitL .asIs x.w x.s ps τ.sop τ.done).ret = .ok
    · exact this.1 hr
    · simp [(this.2.1 hr).2] at h
  · simp [(rollbackL_facts x.w x.s ps τ.sop τ.done).1] at h

theorem stepL_ended (ps : List Nat) (τ : TxSt) (x : StepL) (h : τ.sop.pd = 2) :
    (stepL .asIs ps τ x).st.pd = 2 ∧ hasP2 (stepL .asIs ps τ x).log = false := by
  unfold stepL
  cases x.op
  · have := beginL_facts x.w x.s ps τ.sop τ.done
    exact ⟨by simp [this.2.2.2, sopCall_done_stays _ _ _ h], this.1⟩
  · exact ⟨commitL_pd _ _ _ _ _ (Or.inr (Or.inr h)),
      ((commitL_facts x.w x.s ps τ.sop τ.done).2.1 (commitL_done_fails _ _ _ _ _ h)).2⟩
  · have := rollbackL_facts x.w x.s ps τ.sop τ.done
    exact ⟨by simp [this.2.2.2, sopCall_done_stays _ _ _ h], this.1⟩

/-! ### whole sessions -/

theorem hasP2_append (a b : List CallL) : hasP2 (a ++ b) = (hasP2 a || hasP2 b) := by simp [hasP2]
theorem hasRb_append (a b : List CallL) : hasRb (a ++ b) = (hasRb a || hasRb b) := by simp [hasRb]

/-- once the flag is set, no participant is ever told to roll back again -/
theorem run_done_no_rollback (ps : List Nat) (xs : List StepL) : ∀ τ : TxSt, τ.done = true →
    hasRb (runL .asIs ps τ xs) = false ∧ (finalL .asIs ps τ xs).done = true := by
  induction xs with
  | nil => intro τ h; simp [runL, finalL, hasRb, h]
  | cons x xs ih =>
    intro τ h
    obtain ⟨h1, h2⟩ := stepL_done_stays ps τ x h
    obtain ⟨h3, h4⟩ := ih (stepL .asIs ps τ x).tx h1
    simp [runL, finalL, hasRb_append, h2, h3, h4]

/-- once SOP's transaction has ended, no participant is ever told to commit -/
theorem run_ended_no_phase2 (ps : List Nat) (xs : List StepL) : ∀ τ : TxSt, τ.sop.pd = 2 →
    hasP2 (runL .asIs ps τ xs) = false := by
  induction xs with
  | nil => intro τ _; simp [runL, hasP2]
  | cons x xs ih =>
    intro τ h
    obtain ⟨h1, h2⟩ := stepL_ended ps τ x h
    simp [runL, hasP2_append, h2, ih (stepL .asIs ps τ x).tx h1]

theorem run_p2_sets_flag (ps : List Nat) (xs : List StepL) : ∀ τ : TxSt,
    hasP2 (runL .asIs ps τ xs) = true → (finalL .asIs ps τ xs).done = true := by
  induction xs with
  | nil => intro τ h; simp [runL, hasP2] at h
  | cons x xs ih =>
    intro τ h
    simp only [runL, hasP2_append, Bool.or_eq_true] at h
    simp only [finalL]
    rcases h with h | h
    · exact (run_done_no_rollback ps xs _ (stepL_p2 ps τ x h).1).2
    · exact ih _ h

/-- **A participant told to commit is never told to roll back afterwards** — for every start state of the object,
every sequence of `Begin`/`Commit`/`Rollback` calls, each with its own failures of SOP's work and of the
participants: if some participant is told `Phase2Commit` during the calls `xs`, then no participant is told
`Rollback` during any later calls `ys` on the same object, nor inside the method call that told it to commit. -/
theorem session_committed_never_rolled_back (ps : List Nat) (τ : TxSt) (xs ys : List StepL)
    (h : hasP2 (runL .asIs ps τ xs) = true) :
    hasRb (runL .asIs ps (finalL .asIs ps τ xs) ys) = false ∧
    ∀ τ' x, hasP2 (stepL .asIs ps τ' x).log = true → hasRb (stepL .asIs ps τ' x).log = false :=
  ⟨(run_done_no_rollback ps ys _ (run_p2_sets_flag ps xs τ h)).1, fun τ' x h' => (stepL_p2 ps τ' x h').2⟩

/-- The session-level reading of the property: on an object whose SOP transaction has been begun (`phaseDone` 0, 1
or 2) and whose `Commit` has not yet succeeded, over every sequence of `Begin`/`Commit`/`Rollback` calls — each with
its own pattern of failing SOP work and its own participant answers — the session never contains both a participant's
`Phase2Commit` and a participant's `Rollback` (in either order, for the same or for different participants). -/
def Statement_C16_session : Prop :=
  ∀ (ps : List Nat) (τ : TxSt) (xs : List StepL), pdOK τ.sop → τ.done = false →
    ¬ (hasP2 (runL .asIs ps τ xs) = true ∧ hasRb (runL .asIs ps τ xs) = true)

/-- **Nobody is told both to commit and to roll back** (code with fix 6c4c66ea). -/
theorem C16_session : Statement_C16_session := by
  intro ps τ xs
  induction xs generalizing τ with
  | nil => intro _ _ h; simp [runL, hasP2] at h
  | cons x xs ih =>
    intro hpd hd
    simp only [runL, hasP2_append, hasRb_append]
    cases hop : x.op
    · -- Begin
      obtain ⟨a, b, c, e⟩ := stepL_begin ps τ x hop
      have := ih (stepL .asIs ps τ x).tx (e hpd) (c.trans hd)
      rw [a, b]
      simpa using this
    · -- Commit
      obtain ⟨a, b, _, e⟩ := stepL_commit ps τ x hop
      by_cases hr : (stepL .asIs ps τ x).ret = .ok
      · have h1 := run_done_no_rollback ps xs (stepL .asIs ps τ x).tx (a hr).1
        rw [(a hr).2, h1.1]
        simp
      · have h1 := run_ended_no_phase2 ps xs (stepL .asIs ps τ x).tx (e hpd)
        rw [(b hr).2, h1]
        simp
    · -- Rollback
      obtain ⟨a, _, _, e⟩ := stepL_rollback ps τ x hop
      have h1 := run_ended_no_phase2 ps xs (stepL .asIs ps τ x).tx (e hpd)
      rw [a, h1]
      simp

/-! non-vacuity of `C16_session`, and what the hypotheses exclude -/
def stAll (o : OpL) : StepL := ⟨o, wAll, sAll⟩
/-- a fresh, begun writer -/
def τW : TxSt := ⟨σW, false⟩
example : pdOK τW.sop ∧ τW.done = false := ⟨Or.inl rfl, rfl⟩
example : hasP2 (runL .asIs [1] τW [stAll .commit, stAll .rollback]) = true ∧
    hasRb (runL .asIs [1] τW [stAll .commit, stAll .rollback]) = false := by decide +kernel
example : hasRb (runL .asIs [1] τW [⟨.commit, wP2, sAll⟩, stAll .rollback, stAll .commit]) = true ∧
    hasP2 (runL .asIs [1] τW [⟨.commit, wP2, sAll⟩, stAll .rollback, stAll .commit]) = false := by decide +kernel

/-- **Legacy witness (findings C16-F1 and C16-F2, repaired by 6c4c66ea).** Before the fix, `Begin`, `Commit` (nil),
then a deferred `Rollback` — or a second `Commit` — told the committed participant to roll back. -/
theorem legacy_rolls_back_committed_participants :
    runL .legacy [1] ⟨⟨.forWriting, -1, false⟩, false⟩ [stAll .begin, stAll .commit, stAll .rollback] =
      [⟨0, .begin, true, true⟩, ⟨1, .begin, true, true⟩,
       ⟨0, .phase1, true, true⟩, ⟨1, .phase1, true, true⟩, ⟨0, .phase2, true, false⟩, ⟨1, .phase2, true, false⟩,
       ⟨0, .rollback, false, false⟩, ⟨1, .rollback, true, false⟩] ∧
    runL .asIs [1] ⟨⟨.forWriting, -1, false⟩, false⟩ [stAll .begin, stAll .commit, stAll .rollback] =
      [⟨0, .begin, true, true⟩, ⟨1, .begin, true, true⟩,
       ⟨0, .phase1, true, true⟩, ⟨1, .phase1, true, true⟩, ⟨0, .phase2, true, false⟩, ⟨1, .phase2, true, false⟩,
       ⟨0, .rollback, false, false⟩] ∧
    hasRb (runL .legacy [1] ⟨⟨.forWriting, -1, false⟩, false⟩ [stAll .begin, stAll .commit, stAll .commit]) = true ∧
    hasRb (runL .asIs [1] ⟨⟨.forWriting, -1, false⟩, false⟩ [stAll .begin, stAll .commit, stAll .commit]) = false := by
  decide +kernel

/-- Why `C16_session` asks for a begun transaction: a `Rollback` on an object that was never begun still fans out
(SOP's own `Rollback` refuses: "no transaction to rollback"), and the same object can then be begun and committed.
Those `Rollback` calls reach participants that had not been begun. -/
theorem rollback_before_begin_then_commit :
    hasRb (runL .asIs [1] ⟨⟨.forWriting, -1, false⟩, false⟩ [stAll .rollback, stAll .begin, stAll .commit]) = true ∧
    hasP2 (runL .asIs [1] ⟨⟨.forWriting, -1, false⟩, false⟩ [stAll .rollback, stAll .begin, stAll .commit]) = true := by
  decide +kernel

/-! ## the SOP side above is the lifecycle of C14's model

`Sop.Lifecycle` (property C14) is the model of `common.Transaction` that is diffed against the real transaction on
every lifecycle call with and without failing backends. Projected to (mode, phaseDone, committed) and "returned
nil", its `Begin`, `Phase1Commit`, `Phase2Commit` and `Rollback` — including their failing variants — are exactly
`sopCall` with a suitable `w`. -/
open Sop.Lifecycle in
def projMode : Lifecycle.Mode → TwoPC.Mode
  | .noCheck => .noCheck | .forWriting => .forWriting | .forReading => .forReading

def proj (s : Lifecycle.St) : SopSt := ⟨projMode s.mode, s.pd, s.committed⟩

theorem proj_hasBegun (s : Lifecycle.St) : (proj s).hasBegun = s.hasBegun := rfl

theorem rollbackCore_proj (s : Lifecycle.St) : proj (Lifecycle.rollbackCore s).1 = proj s := by
  unfold Lifecycle.rollbackCore
  split <;> rfl

theorem rollbackCore_mode (s : Lifecycle.St) : (Lifecycle.rollbackCore s).1.mode = s.mode := by
  unfold Lifecycle.rollbackCore; split <;> rfl
theorem rollbackCore_pd (s : Lifecycle.St) : (Lifecycle.rollbackCore s).1.pd = s.pd := by
  unfold Lifecycle.rollbackCore; split <;> rfl
theorem rollbackCore_committed (s : Lifecycle.St) : (Lifecycle.rollbackCore s).1.committed = s.committed := by
  unfold Lifecycle.rollbackCore; split <;> rfl

theorem lifecycle_begin_sim (s : Lifecycle.St) :
    (proj (Lifecycle.beginTx s).1, (Lifecycle.beginTx s).2.1.isOk) = sopCall (proj s) .begin true := by
  unfold Lifecycle.beginTx sopCall
  simp only [proj_hasBegun]
  split
  · rfl
  · split
    · rename_i h; simp [proj, h, Lifecycle.Res.isOk]
    · rename_i h; simp [proj, h, Lifecycle.Res.isOk]

theorem lifecycle_rollback_sim (s : Lifecycle.St) (fx : Lifecycle.Fx) :
    (proj (Lifecycle.rollbackTxF s fx).st, (Lifecycle.rollbackTxF s fx).res.isOk) = sopCall (proj s) .rollback (!fx.undo) := by
  unfold Lifecycle.rollbackTxF Lifecycle.rollbackTx Lifecycle.R.ofOut sopCall
  simp only [proj_hasBegun]
  by_cases h2 : s.pd = 2
  · have : (proj s).pd = 2 := h2
    simp only [h2, this, if_true]
    cases hc : s.committed <;> simp [proj, hc, Lifecycle.Res.isOk, h2]
  · have : ¬ (proj s).pd = 2 := h2
    simp only [h2, this, if_false]
    by_cases hb : s.hasBegun = true
    · simp only [hb, Bool.not_true, Bool.false_eq_true, if_false]
      cases hu : fx.undo <;> simp [rollbackCore_mode, rollbackCore_pd, rollbackCore_committed, proj, Lifecycle.Res.isOk]
    · have hb' : s.hasBegun = false := by simpa using hb
      simp [hb', Lifecycle.Res.isOk]

theorem lifecycle_phase2_sim (s : Lifecycle.St) (work : Bool) :
    (proj (Lifecycle.phase2TxF s work).st, (Lifecycle.phase2TxF s work).res.isOk) = sopCall (proj s) .phase2 (!work) := by
  unfold Lifecycle.phase2TxF Lifecycle.phase2Tx Lifecycle.R.ofOut sopCall
  simp only [proj_hasBegun]
  by_cases hb : ¬ s.hasBegun = true
  · have hb' : s.hasBegun = false := by simpa using hb
    simp [hb', Lifecycle.Res.isOk]
  · have hb : s.hasBegun = true := by simpa using hb
    simp only [hb, Bool.not_true, Bool.false_eq_true, if_false]
    by_cases h0 : s.pd = 0
    · have : (proj s).pd = 0 := h0
      simp [h0, this, Lifecycle.Res.isOk]
    · have : ¬ (proj s).pd = 0 := h0
      simp only [h0, this, if_false]
      cases hm : s.mode <;> cases work <;> simp [proj, projMode, hm, hb, h0, rollbackCore_mode, rollbackCore_pd, rollbackCore_committed, Lifecycle.Res.isOk]

theorem lifecycle_phase1_sim (s : Lifecycle.St) (fx : Lifecycle.Fx) :
    (proj (Lifecycle.phase1TxF s fx).st, (Lifecycle.phase1TxF s fx).res.isOk)
      = sopCall (proj s) .phase1 (Lifecycle.phase1TxF s fx).res.isOk := by
  unfold Lifecycle.phase1TxF Lifecycle.phase1Tx Lifecycle.R.ofOut sopCall
  simp only [proj_hasBegun]
  by_cases hb : ¬ s.hasBegun = true
  · have hb' : s.hasBegun = false := by simpa using hb
    simp [hb', Lifecycle.Res.isOk]
  · have hb : s.hasBegun = true := by simpa using hb
    simp only [hb, Bool.not_true, Bool.false_eq_true, if_false]
    cases hm : s.mode
    · simp [proj, projMode, hm, Lifecycle.Res.isOk]
    · simp only [proj, projMode, hm]
      by_cases hw : (fx.work && Lifecycle.p1Works s) = true
      · simp [hw, rollbackCore_mode, rollbackCore_pd, rollbackCore_committed, proj, projMode, hm, Lifecycle.Res.isOk]
      · simp only [hw, if_false, Bool.false_eq_true]
        unfold Lifecycle.phase1Writer
        cases hbk : s.backend with
        | none => simp [Lifecycle.Res.isOk, hm]
        | some b =>
          simp only
          cases ht : b.tracked
          · simp [Lifecycle.Res.isOk, hm]
          · cases hp : s.p1Nodes <;> simp [Lifecycle.Res.isOk, hm, hp]
    · simp only [proj, projMode, hm]
      by_cases hw : (fx.work && Lifecycle.readerWorks s) = true
      · simp [hw, Lifecycle.Res.isOk]
      · simp [hw, Lifecycle.Res.isOk, hm]


end Sop.C16
