import Sop.Model.TwoPC
/-! # C16 — external two-phase participants follow SOP's commit outcome

All theorems are about `Sop.TwoPC.commit / rollback` for an **arbitrary** list `ps` of attached
participants and an **arbitrary** script `s` (outcome of every call of every participant and of SOP,
participant `0`). "Before" is expressed on the call log: `log = pre ++ c :: post` and membership in `pre`.
-/
namespace Sop.C16
open Sop.TwoPC

/-! ## shape of the two loops -/

theorem callUntilFail_none {s : Script} {k : Kind} {ps : List Nat} {l : List Call}
    (h : callUntilFail s k ps = (l, none)) : l = callAll s k ps ∧ ∀ p ∈ ps, s p k = true := by
  induction ps generalizing l with
  | nil => simp [callUntilFail] at h; simp [h, callAll]
  | cons p ps ih =>
    unfold callUntilFail at h
    by_cases hp : s p k = true
    · simp only [hp, if_true] at h
      have e : callUntilFail s k ps = ((callUntilFail s k ps).1, none) := by
        have := congrArg Prod.snd h; simp at this
        exact Prod.ext rfl this
      obtain ⟨h1, h2⟩ := ih e
      have hl := congrArg Prod.fst h; simp at hl
      refine ⟨?_, ?_⟩
      · rw [← hl, h1]; simp [callAll]
      · intro q hq
        rcases List.mem_cons.1 hq with rfl | hq
        · exact hp
        · exact h2 q hq
    · simp [hp] at h

/-- a loop that stopped at `p`: everything called before `p` succeeded, `p` failed and is the last call -/
theorem callUntilFail_some {s : Script} {k : Kind} {ps : List Nat} {l : List Call} {p : Nat}
    (h : callUntilFail s k ps = (l, some p)) :
    ∃ ps₁ ps₂, ps = ps₁ ++ p :: ps₂ ∧ (∀ q ∈ ps₁, s q k = true) ∧ s p k = false ∧
      l = callAll s k ps₁ ++ [⟨p, k, false⟩] := by
  induction ps generalizing l with
  | nil => simp [callUntilFail] at h
  | cons a ps ih =>
    unfold callUntilFail at h
    by_cases ha : s a k = true
    · simp only [ha, if_true] at h
      have e : callUntilFail s k ps = ((callUntilFail s k ps).1, some p) := by
        have := congrArg Prod.snd h; simp at this
        exact Prod.ext rfl this
      obtain ⟨ps₁, ps₂, e1, e2, e3, e4⟩ := ih e
      have hl := congrArg Prod.fst h; simp at hl
      refine ⟨a :: ps₁, ps₂, by simp [e1], ?_, e3, ?_⟩
      · intro q hq
        rcases List.mem_cons.1 hq with rfl | hq
        · exact ha
        · exact e2 q hq
      · rw [← hl, e4]; simp [callAll]
    · have ha' : s a k = false := by simpa using ha
      simp only [ha', Bool.false_eq_true, if_false, Prod.mk.injEq, Option.some.injEq] at h
      obtain ⟨h1, h2⟩ := h
      subst h2
      exact ⟨[], ps, rfl, by simp, ha', by simp [← h1, callAll, call, ha']⟩

theorem mem_callAll {s : Script} {k : Kind} {ps : List Nat} {c : Call} :
    c ∈ callAll s k ps ↔ ∃ p ∈ ps, c = ⟨p, k, s p k⟩ := by
  simp [callAll, call, eq_comm]

/-- if `x` does not occur in `A`, every element of `A` precedes any occurrence of `x` in `A ++ B` -/
theorem prefix_mem_of_not_mem {α : Type} {A B pre post : List α} {x : α}
    (h : A ++ B = pre ++ x :: post) (hx : x ∉ A) : ∀ a ∈ A, a ∈ pre := by
  induction A generalizing pre with
  | nil => simp
  | cons a A ih =>
    cases pre with
    | nil =>
      simp at h
      exact absurd (by simp [h.1]) hx
    | cons b pre =>
      simp only [List.cons_append, List.cons.injEq] at h
      obtain ⟨rfl, h⟩ := h
      intro c hc
      rcases List.mem_cons.1 hc with rfl | hc
      · simp
      · exact List.mem_cons_of_mem _ (ih h (fun m => hx (List.mem_cons_of_mem _ m)) c hc)

/-! ## the outcome -/

/-- Commit returns `nil` exactly when SOP's phase 1, every participant's phase 1 and SOP's phase 2
succeeded (the outcome of the participants' phase 2 is ignored by the code). -/
theorem commit_ok_iff (s : Script) (ps : List Nat) :
    (commit s ps).2 = .ok ↔ (s 0 .phase1 = true ∧ (∀ p ∈ ps, s p .phase1 = true) ∧ s 0 .phase2 = true) := by
  unfold commit
  by_cases h1 : s 0 .phase1 = true
  · simp only [h1, if_true]
    rcases hc : callUntilFail s .phase1 ps with ⟨l1, _ | p⟩
    · obtain ⟨_, hall⟩ := callUntilFail_none hc
      by_cases h2 : s 0 .phase2 = true
      · simp only [h2, if_true, true_and, and_true, true_iff]; exact hall
      · simp [h2]
    · obtain ⟨ps₁, ps₂, e, _, hp, _⟩ := callUntilFail_some hc
      simp only [reduceCtorEq, true_and, false_iff, not_and]
      intro hall
      have := hall p (by simp [e])
      simp [hp] at this
  · simp [h1]

/-- the log of a successful commit, in full -/
theorem commit_ok_log (s : Script) (ps : List Nat) (h : (commit s ps).2 = .ok) :
    (commit s ps).1 = ⟨0, .phase1, true⟩ :: (callAll s .phase1 ps ++ ⟨0, .phase2, true⟩ :: callAll s .phase2 ps) := by
  obtain ⟨h1, hall, h2⟩ := (commit_ok_iff s ps).1 h
  unfold commit
  simp only [h1, if_true]
  rcases hc : callUntilFail s .phase1 ps with ⟨l1, _ | p⟩
  · obtain ⟨e, _⟩ := callUntilFail_none hc
    simp [h2, e, call, h1]
  · obtain ⟨ps₁, ps₂, e, _, hp, _⟩ := callUntilFail_some hc
    have := hall p (by simp [e])
    simp [hp] at this

/-- The log of a failed commit, in full: successful phase-1 calls, then the one failed call (a phase 1,
or SOP's phase 2), then immediately the complete rollback fan-out, and nothing else. In particular no
participant's phase 2 appears. -/
theorem commit_fail_log (s : Script) (ps : List Nat) (h : (commit s ps).2 ≠ .ok) :
    ∃ pre c, (commit s ps).1 = pre ++ c :: callAll s .rollback (0 :: ps) ∧
      c.ok = false ∧ (c.kind = .phase1 ∨ (c.kind = .phase2 ∧ c.who = 0)) ∧
      (∀ d ∈ pre, d.ok = true ∧ d.kind = .phase1) ∧
      (commit s ps).2 = .err c.who c.kind (lastFailed s .rollback (0 :: ps)) := by
  unfold commit at h ⊢
  by_cases h1 : s 0 .phase1 = true
  · simp only [h1, if_true] at h ⊢
    rcases hc : callUntilFail s .phase1 ps with ⟨l1, _ | p⟩
    · obtain ⟨e, hall⟩ := callUntilFail_none hc
      by_cases h2 : s 0 .phase2 = true
      · simp [hc, h2] at h
      · have h2' : s 0 .phase2 = false := by simpa using h2
        refine ⟨⟨0, .phase1, true⟩ :: l1, ⟨0, .phase2, false⟩, ?_, rfl, Or.inr ⟨rfl, rfl⟩, ?_, ?_⟩
        · simp [h2', call, h1, rollback]
        · intro d hd
          rcases List.mem_cons.1 hd with rfl | hd
          · exact ⟨rfl, rfl⟩
          · rw [e] at hd
            obtain ⟨q, hq, rfl⟩ := mem_callAll.1 hd
            exact ⟨hall q hq, rfl⟩
        · simp [h2', rollback]
    · obtain ⟨ps₁, ps₂, e, hpre, hp, el⟩ := callUntilFail_some hc
      refine ⟨⟨0, .phase1, true⟩ :: callAll s .phase1 ps₁, ⟨p, .phase1, false⟩, ?_, rfl, Or.inl rfl, ?_, ?_⟩
      · simp [el, call, h1, rollback]
      · intro d hd
        rcases List.mem_cons.1 hd with rfl | hd
        · exact ⟨rfl, rfl⟩
        · obtain ⟨q, hq, rfl⟩ := mem_callAll.1 hd
          exact ⟨hpre q hq, rfl⟩
      · simp [rollback]
  · have h1' : s 0 .phase1 = false := by simpa using h1
    refine ⟨[], ⟨0, .phase1, false⟩, ?_, rfl, Or.inl rfl, by simp, ?_⟩
    · simp [h1', call, rollback]
    · simp [h1', rollback]

/-! ## the three statements of the property -/

/-- **No participant's second phase runs unless every first phase succeeded and SOP's own second phase
succeeded — and all of that happened before it.** For any participants `ps` (SOP is id 0), any script,
any occurrence of a participant's phase-2 call in the commit log: SOP's phase 1, every participant's
phase 1 and SOP's phase 2 were called with success earlier in the log, the only earlier calls that may
have failed are other participants' phase-2 calls (whose result the code ignores), no rollback call
occurs anywhere in the log, and Commit returned `nil`. -/
theorem phase2_only_after_all_phase1 (s : Script) (ps : List Nat) (pre post : List Call) (p : Nat) (r : Bool)
    (hp : p ≠ 0) (hlog : (commit s ps).1 = pre ++ ⟨p, .phase2, r⟩ :: post) :
    ⟨0, .phase1, true⟩ ∈ pre ∧ (∀ q ∈ ps, ⟨q, .phase1, true⟩ ∈ pre) ∧ ⟨0, .phase2, true⟩ ∈ pre ∧
    (∀ c ∈ pre, c.ok = false → c.kind = .phase2 ∧ c.who ∈ ps) ∧ (∀ c ∈ (commit s ps).1, c.kind ≠ .rollback) ∧ (commit s ps).2 = .ok := by
  by_cases hok : (commit s ps).2 = .ok
  · obtain ⟨h1, hall, h2⟩ := (commit_ok_iff s ps).1 hok
    have hl := commit_ok_log s ps hok
    -- split the log as A ++ B with the participant phase-2 calls all in B
    have hsplit : (⟨0, .phase1, true⟩ :: (callAll s .phase1 ps ++ [⟨0, .phase2, true⟩])) ++ callAll s .phase2 ps
        = pre ++ ⟨p, .phase2, r⟩ :: post := by rw [← hlog, hl]; simp
    have hnot : (⟨p, .phase2, r⟩ : Call) ∉ (⟨0, .phase1, true⟩ :: (callAll s .phase1 ps ++ [⟨0, .phase2, true⟩])) := by
      intro hm
      simp only [List.mem_cons, List.mem_append, Call.mk.injEq, reduceCtorEq, false_and, and_false, false_or, List.not_mem_nil, or_false] at hm
      rcases hm with hm | hm
      · obtain ⟨q, _, e⟩ := mem_callAll.1 hm
        simp at e
      · exact hp hm.1
    have hA := prefix_mem_of_not_mem hsplit hnot
    refine ⟨hA _ (by simp), ?_, hA _ (by simp), ?_, ?_, hok⟩
    · intro q hq
      apply hA
      simp only [List.mem_cons, List.mem_append]
      right; left
      exact mem_callAll.2 ⟨q, hq, by simp [hall q hq]⟩
    · intro c hc
      have hc' : c ∈ (commit s ps).1 := by rw [hlog]; simp [hc]
      rw [hl] at hc'
      simp only [List.mem_cons, List.mem_append] at hc'
      intro hf
      rcases hc' with rfl | hc' | rfl | hc'
      · simp at hf
      · obtain ⟨q, hq, rfl⟩ := mem_callAll.1 hc'; simp [hall q hq] at hf
      · simp at hf
      · obtain ⟨q, hq, rfl⟩ := mem_callAll.1 hc'
        exact ⟨rfl, hq⟩
    · intro c hc
      rw [hl] at hc
      simp only [List.mem_cons, List.mem_append] at hc
      rcases hc with rfl | hc | rfl | hc
      · simp
      · obtain ⟨q, _, rfl⟩ := mem_callAll.1 hc; simp
      · simp
      · obtain ⟨q, _, rfl⟩ := mem_callAll.1 hc; simp
  · exfalso
    obtain ⟨pre', c, hl, _, hk, hpre, _⟩ := commit_fail_log s ps hok
    have hm : (⟨p, .phase2, r⟩ : Call) ∈ (commit s ps).1 := by rw [hlog]; simp
    rw [hl] at hm
    simp only [List.mem_append, List.mem_cons] at hm
    rcases hm with hm | rfl | hm
    · have := (hpre _ hm).2; simp at this
    · rcases hk with hk | ⟨_, hk⟩
      · simp at hk
      · exact hp hk
    · obtain ⟨q, _, e⟩ := mem_callAll.1 hm; simp at e

/-- "Something failed before SOP's phase 2 succeeded", read off the log: a failed phase-1 call, or a
failed phase-2 call of SOP itself. -/
def FailedBeforeOutcome (log : List Call) : Prop :=
  ∃ c ∈ log, c.ok = false ∧ (c.kind = .phase1 ∨ (c.kind = .phase2 ∧ c.who = 0))

/-- that log condition is exactly "Commit returned an error" (SOP, id 0, is not also attached as a participant) -/
theorem failedBeforeOutcome_iff (s : Script) (ps : List Nat) (h0 : 0 ∉ ps) :
    FailedBeforeOutcome (commit s ps).1 ↔ (commit s ps).2 ≠ .ok := by
  constructor
  · rintro ⟨c, hc, hf, hk⟩ hok
    obtain ⟨h1, hall, h2⟩ := (commit_ok_iff s ps).1 hok
    rw [commit_ok_log s ps hok] at hc
    simp only [List.mem_cons, List.mem_append] at hc
    rcases hc with rfl | hc | rfl | hc
    · simp at hf
    · obtain ⟨q, hq, rfl⟩ := mem_callAll.1 hc; simp [hall q hq] at hf
    · simp at hf
    · obtain ⟨q, hq, rfl⟩ := mem_callAll.1 hc
      rcases hk with hk | ⟨_, hk⟩
      · simp at hk
      · exact h0 (by simpa [← hk] using hq)
  · intro h
    obtain ⟨pre, c, hl, hf, hk, _, _⟩ := commit_fail_log s ps h
    exact ⟨c, by rw [hl]; simp, hf, hk⟩

/-- **If anything fails before SOP's phase 2 has succeeded, SOP is rolled back and every participant is
asked to roll back** — whatever the rollbacks themselves answer. Moreover the rollbacks come after the
failed call, SOP's is the first of them, no participant's phase 2 is ever called, SOP's phase 2 did not
succeed, and Commit reports an error to its caller. -/
theorem failure_rolls_back_all (s : Script) (ps : List Nat)
    (hfail : ¬ (s 0 .phase1 = true ∧ (∀ p ∈ ps, s p .phase1 = true) ∧ s 0 .phase2 = true)) :
    (commit s ps).2 ≠ .ok ∧
    (∃ pre c, (commit s ps).1 = pre ++ c :: ⟨0, .rollback, s 0 .rollback⟩ :: callAll s .rollback ps ∧
        c.ok = false ∧ ∀ d ∈ pre, d.ok = true ∧ d.kind = .phase1) ∧
    ⟨0, .rollback, s 0 .rollback⟩ ∈ (commit s ps).1 ∧
    (∀ p ∈ ps, ⟨p, .rollback, s p .rollback⟩ ∈ (commit s ps).1) ∧
    (∀ c ∈ (commit s ps).1, c.kind = .phase2 → c.who = 0 ∧ c.ok = false) := by
  have hne : (commit s ps).2 ≠ .ok := fun h => hfail ((commit_ok_iff s ps).1 h)
  obtain ⟨pre, c, hl, hf, hk, hpre, _⟩ := commit_fail_log s ps hne
  have hl' : (commit s ps).1 = pre ++ c :: ⟨0, .rollback, s 0 .rollback⟩ :: callAll s .rollback ps := by
    rw [hl]; simp [callAll, call]
  refine ⟨hne, ⟨pre, c, hl', hf, hpre⟩, by rw [hl']; simp, ?_, ?_⟩
  · intro p hp
    rw [hl']
    simp only [List.mem_append, List.mem_cons]
    right; right; right
    exact mem_callAll.2 ⟨p, hp, rfl⟩
  · intro d hd hk2
    rw [hl'] at hd
    simp only [List.mem_append, List.mem_cons] at hd
    rcases hd with hd | rfl | rfl | hd
    · have := (hpre d hd).2; rw [hk2] at this; simp at this
    · rcases hk with hk | ⟨_, hw⟩
      · rw [hk2] at hk; simp at hk
      · exact ⟨hw, hf⟩
    · simp at hk2
    · obtain ⟨q, _, rfl⟩ := mem_callAll.1 hd; simp at hk2

/-- the same, with the hypothesis read off the log -/
theorem failure_in_log_rolls_back_all (s : Script) (ps : List Nat) (h0 : 0 ∉ ps)
    (hfail : FailedBeforeOutcome (commit s ps).1) :
    ⟨0, .rollback, s 0 .rollback⟩ ∈ (commit s ps).1 ∧ ∀ p ∈ ps, ⟨p, .rollback, s p .rollback⟩ ∈ (commit s ps).1 := by
  have hne := (failedBeforeOutcome_iff s ps h0).1 hfail
  have := failure_rolls_back_all s ps (fun h => hne ((commit_ok_iff s ps).2 h))
  exact ⟨this.2.2.1, this.2.2.2.1⟩

/-- **A failing rollback does not stop the fan-out**: `Rollback` calls SOP and then every participant,
each exactly once and in attachment order, for every script — including scripts in which any subset of
the rollback calls fail; it reports the last failure, and reports success only if none failed. -/
theorem rollback_fanout_total (s : Script) (ps : List Nat) :
    (rollback s ps).1 = (0 :: ps).map (fun p => ⟨p, .rollback, s p .rollback⟩) ∧
    (∀ p ∈ 0 :: ps, ⟨p, .rollback, s p .rollback⟩ ∈ (rollback s ps).1) ∧
    (rollback s ps).1.length = ps.length + 1 ∧
    ((rollback s ps).2 = none ↔ ∀ p ∈ 0 :: ps, s p .rollback = true) ∧
    (∀ q, (rollback s ps).2 = some q → q ∈ 0 :: ps ∧ s q .rollback = false) := by
  have hlast : ∀ l : List Nat, (lastFailed s .rollback l = none ↔ ∀ p ∈ l, s p .rollback = true) ∧
      (∀ q, lastFailed s .rollback l = some q → q ∈ l ∧ s q .rollback = false) := by
    intro l
    induction l with
    | nil => simp [lastFailed]
    | cons a l ih =>
      unfold lastFailed
      cases hl : lastFailed s .rollback l with
      | some q =>
        have hq := ih.2 q hl
        refine ⟨?_, ?_⟩
        · simp only [reduceCtorEq, false_iff]
          intro hall
          have := hall q (List.mem_cons_of_mem _ hq.1)
          simp [hq.2] at this
        · intro q' e
          simp at e; subst e
          exact ⟨List.mem_cons_of_mem _ hq.1, hq.2⟩
      | none =>
        have hall := ih.1.1 hl
        by_cases ha : s a .rollback = true
        · simp only [ha, if_true, true_iff]
          refine ⟨?_, by simp⟩
          intro p hp
          rcases List.mem_cons.1 hp with rfl | hp
          · exact ha
          · exact hall p hp
        · have ha' : s a .rollback = false := by simpa using ha
          simp only [ha', Bool.false_eq_true, if_false, reduceCtorEq, false_iff, Option.some.injEq]
          refine ⟨fun h => by have := h a (by simp); simp [ha'] at this, ?_⟩
          rintro q rfl
          exact ⟨by simp, ha'⟩
  refine ⟨rfl, ?_, by simp [rollback, callAll], (hlast _).1, (hlast _).2⟩
  intro p hp
  simp only [rollback, callAll, call, List.mem_map]
  exact ⟨p, hp, rfl⟩

/-- the converse direction of the outcome: a successful commit tells **every** participant to commit,
after SOP's own phase 2, and rolls nothing back -/
theorem success_commits_all (s : Script) (ps : List Nat) (h : (commit s ps).2 = .ok) :
    (∀ p ∈ ps, ⟨p, .phase2, s p .phase2⟩ ∈ (commit s ps).1) ∧ ∀ c ∈ (commit s ps).1, c.kind ≠ .rollback := by
  rw [commit_ok_log s ps h]
  refine ⟨?_, ?_⟩
  · intro p hp
    simp only [List.mem_cons, List.mem_append]
    right; right; right
    exact mem_callAll.2 ⟨p, hp, rfl⟩
  · intro c hc
    simp only [List.mem_cons, List.mem_append] at hc
    rcases hc with rfl | hc | rfl | hc
    · simp
    · obtain ⟨q, _, rfl⟩ := mem_callAll.1 hc; simp
    · simp
    · obtain ⟨q, _, rfl⟩ := mem_callAll.1 hc; simp

/-- Outside the statement, recorded because it is how the code behaves: a failing `Begin` of a participant
returns the error without rolling back the transactions already begun (the log holds `begin` calls only). -/
theorem begin_never_rolls_back (s : Script) (ps : List Nat) : ∀ c ∈ (begin s ps).1, c.kind = .begin := by
  have h : ∀ l : List Nat, ∀ c ∈ (callUntilFail s .begin l).1, c.kind = .begin := by
    intro l
    induction l with
    | nil => simp [callUntilFail]
    | cons a l ih =>
      unfold callUntilFail
      by_cases ha : s a .begin = true
      · simp only [ha, if_true, List.mem_cons]
        rintro c (rfl | hc)
        · rfl
        · exact ih c hc
      · simp [ha, call]
  exact h _

/-! ## non-vacuity: the hypotheses are met by non-trivial scripts -/

/-- three participants; participant 2's phase 1 fails, participant 1's and SOP's rollbacks fail too -/
def sFail : Script := fun p k =>
  match p, k with
  | 2, .phase1 => false
  | 1, .rollback => false
  | 0, .rollback => false
  | _, _ => true

/-- everything succeeds except participant 1's phase 2 (ignored by the code) -/
def sOk : Script := fun p k =>
  match p, k with
  | 1, .phase2 => false
  | _, _ => true

example : (commit sFail [1, 2, 3]).1 =
    [⟨0, .phase1, true⟩, ⟨1, .phase1, true⟩, ⟨2, .phase1, false⟩,
     ⟨0, .rollback, false⟩, ⟨1, .rollback, false⟩, ⟨2, .rollback, true⟩, ⟨3, .rollback, true⟩] := by decide
example : (commit sFail [1, 2, 3]).2 = .err 2 .phase1 (some 1) := by decide
example : ¬ (sFail 0 .phase1 = true ∧ (∀ p ∈ [1, 2, 3], sFail p .phase1 = true) ∧ sFail 0 .phase2 = true) := by decide
example : FailedBeforeOutcome (commit sFail [1, 2, 3]).1 := ⟨⟨2, .phase1, false⟩, by decide, rfl, Or.inl rfl⟩
/-- the hypothesis of `phase2_only_after_all_phase1` is met with a non-empty `pre` and `post` -/
example : (commit sOk [1, 2, 3]).1 =
    [⟨0, .phase1, true⟩, ⟨1, .phase1, true⟩, ⟨2, .phase1, true⟩, ⟨3, .phase1, true⟩, ⟨0, .phase2, true⟩, ⟨1, .phase2, false⟩]
      ++ ⟨2, .phase2, true⟩ :: [⟨3, .phase2, true⟩] := by decide
example : (commit sOk [1, 2, 3]).2 = .ok := by decide
example : (rollback sFail [1, 2, 3]).2 = some 1 := by decide

end Sop.C16
