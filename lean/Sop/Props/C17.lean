import Sop.Lemmas.BTree
/-!
# C17 — a B-tree store behaves as a correctly ordered collection

Model B (`Sop/Model/BTree.lean`) is a structural transcription of `/repo/btree`. What is PROVED here
(for every tree, every slot length, unique and duplicate stores, balancing on or off):

* `checkWF_sound` — the executable checker decides the Prop-level well-formedness `WF`;
* `C17_scan_sorted` — READ SIDE: on every well-formed tree the in-order contents are key-sorted,
  contain only live items, and `Count` is their number;
* spec-level lemmas (`spec_insert_sorted`, `spec_insert_perm`, `spec_erase_sorted`);
* `C17_refines_partial` — along any operation sequence on which the checker accepts every visited
  state, every visited state is `WF` and scans sorted.  The hypothesis stands for the UPDATE-SIDE
  preservation lemmas that are NOT proved (`Statement_C17` is the full-strength statement); the driver
  evaluates exactly this hypothesis (`checkWF`) and the specification relation `Spec.accepts` after
  every step of every explored sequence — exploration, not proof;
* `C17_lb_counterexample` — with leaf load balancing ON the full-strength statement is FALSE for the
  code as it is (open finding C17-F1);
* `C17_stale_cursor_counterexample` / `C17_stale_cursor_repaired` — the pinned tree's `Find` fast path
  trusts a cursor whose cached item pointer sees a vacated slot; the proposed repair removes it.
-/
namespace Sop.C17
open Sop.BTree
set_option maxRecDepth 100000

/-- Full-strength statement: every public call on a well-formed tree yields a well-formed tree whose
    in-order contents and result are what the ordered multiset/map specification allows. -/
def Statement_C17 : Prop :=
  ∀ (t : BTree) (op : Op), WF t → t.panicked = false →
    WF (t.step op).1 ∧ (t.step op).1.panicked = false ∧
      Spec.accepts t.unique t.abs op (t.step op).2 (t.step op).1.abs = true

theorem checkWF_sound (t : BTree) (h : checkWF t = true) : WF t := Sop.BTree.checkWF_sound t h

/-- READ SIDE (unbounded): a well-formed tree scans in key order, visits only live items, and its
    `Count` is the number of items. -/
theorem C17_scan_sorted (t : BTree) (h : WF t) :
    Sorted t.abs ∧ (∀ x ∈ t.abs, x.id ≠ 0) ∧ t.count = (t.abs.length : Int) :=
  abs_sorted_of_WF t h

theorem spec_insert_sorted (it : Item) (l : List Item) (h : Sorted l) : Sorted (insertSorted it l) :=
  insertSorted_sorted it l h
theorem spec_insert_perm (it : Item) (l : List Item) : (insertSorted it l).Perm (it :: l) :=
  insertSorted_perm it l
theorem spec_erase_sorted (l : List Item) (x : Item) (h : Sorted l) : Sorted (l.erase x) :=
  erase_sorted l x h
theorem spec_sorted_iff (l : List Item) : keysSorted l = true ↔ Sorted l := keysSorted_iff l

/-- The update routines whose `WF`-preservation lemma is not proved: all of them. -/
def unprovenRoutines : List String :=
  ["addOnLeaf/insertSlotItem", "addOnLeaf/split", "promote", "distributeToLeft", "distributeToRight",
   "addItemOnNodeWithNilChild", "fixVacatedSlot", "unlink", "removeItemOnNodeWithNilChild",
   "promoteSingleChildAsParentChild", "UpdateCurrentItem/Key/Value"]

/-- PARTIAL: if the verified checker accepts every state visited by `ops` from `t` (this is what the
    driver evaluates after every step; it replaces the unproved preservation lemmas of
    `unprovenRoutines`), then every visited state is well-formed, scans in key order over live items
    only, and reports the right count. -/
theorem C17_refines_partial (t : BTree) (ops : List Op)
    (hexplored : ∀ k, k ≤ ops.length → checkWF (t.run (ops.take k)) = true) :
    ∀ k, k ≤ ops.length →
      WF (t.run (ops.take k)) ∧ Sorted (t.run (ops.take k)).abs ∧
      (∀ x ∈ (t.run (ops.take k)).abs, x.id ≠ 0) ∧
      (t.run (ops.take k)).count = ((t.run (ops.take k)).abs.length : Int) := by
  intro k hk
  have hw := checkWF_sound _ (hexplored k hk)
  exact ⟨hw, C17_scan_sorted _ hw⟩

/-! ### witnesses -/

/-- slot length 2, unique, leaf load balancing on -/
def lbWitness : List Op :=
  [.add 4 1, .add 2 2, .add 6 3, .add 1 4, .add 8 5, .add 9 6, .remove 4, .remove 9, .add 4 7, .add 7 8,
   .remove 1, .remove 2, .add 2 9, .add 5 10]

/-- the state after the first 13 steps of the witness (three levels, nil children) -/
def lbState : BTree := (BTree.new 2 true true true).run (lbWitness.take 13)

/-- the hypothesis of `C17_refines_partial` is satisfiable by a non-trivial run: the first 13 steps of
    the witness are all accepted by the checker … -/
theorem lbState_explored : ∀ k, k ≤ 13 → checkWF ((BTree.new 2 true true true).run ((lbWitness.take 13).take k)) = true := by
  decide +kernel

theorem lbState_checked : checkWF lbState = true := by decide +kernel
theorem lbState_ok : lbState.panicked = false := by decide +kernel
theorem lbState_next_keys : (lbState.step (.add 5 10)).1.abs.map (·.key) = [2, 4, 5, 7, 8, 6] := by decide +kernel
theorem lbState_next_unsorted : keysSorted (lbState.step (.add 5 10)).1.abs = false := by decide +kernel

/-- … and the 14th (a `distributeToRight` rotation) produces a tree that scans `2 4 5 7 8 6`:
    the code as it is violates C17 with load balancing on. -/
theorem C17_lb_counterexample :
    WF lbState ∧ (lbState.step (.add 5 10)).1.abs.map (·.key) = [2, 4, 5, 7, 8, 6] ∧
      ¬ Sorted (lbState.step (.add 5 10)).1.abs := by
  refine ⟨checkWF_sound lbState lbState_checked, lbState_next_keys, ?_⟩
  intro hs
  rw [← keysSorted_iff, lbState_next_unsorted] at hs
  exact Bool.noConfusion hs

/-- so the full-strength statement is false for the code as it is -/
theorem C17_statement_false : ¬ Statement_C17 := by
  intro h
  have h1 := (h lbState (.add 5 10) (checkWF_sound lbState lbState_checked) lbState_ok).1
  exact C17_lb_counterexample.2.2 (C17_scan_sorted _ h1).1

/-- slot length 2, unique, balancing off; `remove 3` is a miss that parks the cursor -/
def staleWitness : List Op :=
  [.upsert 7 1, .add 4 2, .upsert 1 3, .upsert 0 4, .remove 3, .upsert 2 5]

def staleState (fixed : Bool) : BTree := (BTree.new 2 true false fixed).run staleWitness

/-- pinned tree (`fixed := false`): `Remove(0)` answers false although key 0 is stored -/
theorem C17_stale_cursor_counterexample :
    checkWF (staleState false) = true ∧ hasKey (staleState false).abs 0 = true ∧
      ((staleState false).step (.remove 0)).2 = .ok false := by
  decide +kernel

/-- repaired `Find` (`fixed := true`): the same call removes the item, and the result is what the
    specification allows -/
theorem C17_stale_cursor_repaired :
    ((staleState true).step (.remove 0)).2 = .ok true ∧ checkWF ((staleState true).step (.remove 0)).1 = true ∧
      Spec.accepts true (staleState true).abs (.remove 0) ((staleState true).step (.remove 0)).2
        ((staleState true).step (.remove 0)).1.abs = true := by
  decide +kernel

end Sop.C17
