import Sop.Lemmas.BTreeRun2
import Sop.Lemmas.BTreeRemove9
/-!
# C17 — a B-tree store behaves as a correctly ordered collection

Model B (`Sop/Model/BTree.lean`) is a structural transcription of `/repo/btree`. PROVED here, for every tree,
every slot length, unique and duplicate stores, with leaf load balancing OFF and the three proposed repairs on:

* `checkWF_sound`, `C17_scan_sorted` — the executable checker decides the Prop-level well-formedness `WF`; a
  well-formed tree scans in key order over live items and `Count` is their number;
* `C17_inv` (= `Statement_C17_inv`, the full-strength statement with its side conditions explicit) — ONE CALL:
  from a state satisfying the invariant `Inv` (`WF`, not panicked, readable cursor, no pending promote/distribute
  action, fresh id counter, `lb = false`, repairs on) EVERY public call — all 19: `Add`, `AddIfNotExist`,
  `Upsert`, `Update`, `UpdateKey`, `Remove`, `Find`, `FindInDescendingOrder`, `FindWithID`, `First`, `Last`,
  `Next`, `Previous`, `RemoveCurrentItem`, `UpdateCurrentItem/Key/Value`, `Range`, `RangeDesc` — leads to a state
  satisfying `Inv` again and returns what the ordered multiset/map specification `Spec.accepts` allows.  Every
  path of the code is covered: for `Add` the duplicate rejection, `addItemOnNodeWithNilChild`, `insertSlotItem`,
  the root-leaf split, the split of a non-root leaf with `promote` cascading through any number of full
  ancestors (ending in an ancestor with room or in a root split); for the removal the leaf shift, root
  emptied, `unlink`, nil-child neighbour, successor copy-up, `promoteSingleChildAsParentChild`, root collapse;
* `C17_add`, `C17_remove_current` — what `Add` and `RemoveCurrentItem` do to the contents (ordered insertion at
  the key's lower bound, `Count + 1`; removal of exactly the cursor's item, `Count - 1`);
* `C17_run`, `C17_run_from_new` — THE RUN: along ANY operation sequence from a state satisfying `Inv` (e.g. the
  empty store) every visited state satisfies `Inv` and every call meets the specification;
* `C17_refines_partial` — the older, weaker form (hypothesis: the checker accepts every visited state); it is the
  only thing that applies with leaf load balancing ON, where the driver evaluates exactly this hypothesis and
  `Spec.accepts` after every explored step;
* `C17_lb_counterexample`, `C17_statement_false` — with leaf load balancing ON the statement is FALSE for the
  code as it is (open finding C17-F1): `distributeToLeft/Right` (`unprovenRoutines`) break the order;
* `C17_stale_cursor_counterexample` / `C17_stale_cursor_repaired` — the pinned tree's `Find` fast path trusts a
  cursor whose cached item pointer sees a vacated slot; the proposed repair removes it.
-/
namespace Sop.C17
open Sop.BTree
set_option maxRecDepth 100000

/-- The statement as first written: every public call on a well-formed tree yields a well-formed tree whose
    in-order contents and result are what the ordered multiset/map specification allows. FALSE as it stands
    (`C17_statement_false`: leaf load balancing; also an unreadable cursor makes `Find` panic). -/
def Statement_C17 : Prop :=
  ∀ (t : BTree) (op : Op), WF t → t.panicked = false →
    WF (t.step op).1 ∧ (t.step op).1.panicked = false ∧
      Spec.accepts t.unique t.abs op (t.step op).2 (t.step op).1.abs = true

/-- The statement with its side conditions made explicit (`Inv`: load balancing off, repairs on, readable cursor,
    no pending action, fresh ids). PROVED: `C17_inv`. -/
def Statement_C17_inv : Prop :=
  ∀ (t : BTree) (op : Op), Inv t →
    Inv (t.step op).1 ∧ Spec.accepts t.unique t.abs op (t.step op).2 (t.step op).1.abs = true

theorem checkWF_sound (t : BTree) (h : checkWF t = true) : WF t := Sop.BTree.checkWF_sound t h

/-- READ SIDE (unbounded): a well-formed tree scans in key order, visits only live items, and its
    `Count` is the number of items. -/
theorem C17_scan_sorted (t : BTree) (h : WF t) :
    Sorted t.abs ∧ (∀ x ∈ t.abs, x.id ≠ 0) ∧ t.count = (t.abs.length : Int) :=
  abs_sorted_of_WF t h

theorem spec_insert_sorted (it : Item) (l : List Item) (h : Sorted l) : Sorted (insertSorted it l) :=
  insertSorted_sorted it l h
theorem spec_insert_perm (it : Item) (l : List Item) : (insertSorted it l).Perm (it :: l) :=
  insertSorted_perm it l
theorem spec_erase_sorted (l : List Item) (x : Item) (h : Sorted l) : Sorted (l.erase x) :=
  erase_sorted l x h
theorem spec_sorted_iff (l : List Item) : keysSorted l = true ↔ Sorted l := keysSorted_iff l

/-- The update routines whose preservation lemma is NOT proved: only the leaf-load-balancing rotations, for which
    the statement is false on the code as it is (C17-F1). -/
def unprovenRoutines : List String := ["distributeToLeft", "distributeToRight"]

/-- THE FULL-STRENGTH STATEMENT (with its side conditions): every public call keeps the invariant and meets the
    specification. -/
theorem C17_inv : Statement_C17_inv := fun _ op h => step_inv h op

/-- in particular: well-formed, not panicked, accepted -/
theorem C17_step (t : BTree) (op : Op) (h : Inv t) :
    WF (t.step op).1 ∧ (t.step op).1.panicked = false ∧
      Spec.accepts t.unique t.abs op (t.step op).2 (t.step op).1.abs = true :=
  ⟨(step_inv h op).1.wf, (step_inv h op).1.ok, (step_inv h op).2⟩

/-- the nine read-only calls need only `WF`, a readable cursor and the two read-side repairs -/
theorem C17_read_ops (t : BTree) (op : Op) (hro : isReadOp op = true) (hwf : WF t) (hp : t.panicked = false)
    (hv : CursorValid t) (hix : t.cur.node = 0 ∨ 0 ≤ t.cur.idx) (hff : t.fixFast = true) (hfi : t.fixId = true) :
    WF (t.step op).1 ∧ (t.step op).1.panicked = false ∧ (t.step op).1.abs = t.abs ∧
      Spec.accepts t.unique t.abs op (t.step op).2 (t.step op).1.abs = true := by
  obtain ⟨h1, h2, h3, _, h5⟩ := read_op_accepts hwf hp hv hix hff hfi op hro
  exact ⟨h1, h2, h3, h5⟩

/-- `Add` (every path): well-formed result, `Count + 1`, and the contents are the ORDERED INSERTION of the new item
    at the lower bound of its key; in a unique store holding the key it is rejected and nothing changes -/
theorem C17_add (t : BTree) (uniq : Bool) (key : Int) (val : Nat) (h : Inv t) :
    Inv (t.addU uniq key val).1 ∧
    (((uniq && hasKey t.abs key) = true ∧ (t.addU uniq key val).2 = false ∧ (t.addU uniq key val).1.abs = t.abs) ∨
     ((uniq && hasKey t.abs key) = false ∧ (t.addU uniq key val).2 = true ∧
        (t.addU uniq key val).1.count = t.count + 1 ∧
        ∃ L R, t.abs = L ++ R ∧ (t.addU uniq key val).1.abs = L ++ (⟨t.nextId, key, val⟩ : Item) :: R ∧
          (∀ x ∈ L, x.key < key) ∧ (∀ x ∈ R, key ≤ x.key))) := by
  obtain ⟨h1, h2⟩ := inv_addU h uniq key val
  refine ⟨h1, ?_⟩
  rcases h2 with h2 | ⟨hc, hok⟩
  · exact Or.inl h2
  · exact Or.inr ⟨hc, hok.ret, hok.count, hok.abs⟩

/-- `RemoveCurrentItem`, EVERY branch: nothing happens without a current item; otherwise the result is well-formed
    (hence key-sorted), `Count` drops by one and the contents are the old ones minus the cursor's item -/
theorem C17_remove_current (t : BTree) (h : Inv t) :
    Inv t.removeCurrent.1 ∧
    ((t.removeCurrent.2 = .ok false ∧ t.removeCurrent.1 = t) ∨
     (t.removeCurrent.2 = .ok true ∧ t.removeCurrent.1.count = t.count - 1 ∧
        ∃ L R, t.abs = L ++ t.curItem :: R ∧ (L ++ R).Perm t.removeCurrent.1.abs)) :=
  inv_removeCurrent' h

/-- with pairwise different item ids (true for every store built through the public calls: ids come from the
    counter) the contents after `RemoveCurrentItem` are exactly the old ones with the cursor's item cut out -/
theorem C17_remove_current_exact (t : BTree) (h : Inv t) {nd : Node} (hcn : t.curNode? = some nd)
    (hids : (t.abs.map (·.id)).Nodup) :
    ∃ L R, t.abs = L ++ t.curItem :: R ∧ t.removeCurrent.1.abs = L ++ R := by
  have hc := cursorOn_of_curNode h.wf hcn (h.cur.idx hcn)
  exact (Rem.removeCurrent_ok_exact t h.wf h.ok hc hids).2.2.2.2.2

/-- THE RUN: along ANY operation sequence every visited state satisfies `Inv` (so it is well-formed, scans sorted,
    has not panicked) and every call meets the specification. -/
theorem C17_run (t : BTree) (ops : List Op) (h : Inv t) :
    ∀ k, k ≤ ops.length →
      Inv (t.run (ops.take k)) ∧ WF (t.run (ops.take k)) ∧ Sorted (t.run (ops.take k)).abs ∧
      (∀ (hk : k < ops.length), Spec.accepts (t.run (ops.take k)).unique (t.run (ops.take k)).abs ops[k]
        ((t.run (ops.take k)).step ops[k]).2 ((t.run (ops.take k)).step ops[k]).1.abs = true) := by
  intro k hk
  obtain ⟨h1, h2⟩ := run_inv ops t h k hk
  exact ⟨h1, h1.wf, (abs_sorted_of_WF _ h1.wf).1, h2⟩

theorem roundSlotLength_ok (req : Int) : 2 ≤ roundSlotLength req ∧ roundSlotLength req % 2 = 0 := by
  unfold roundSlotLength
  simp only
  split <;> split <;> split <;> split <;> omega

/-- the empty store satisfies the invariant (non-vacuity of `Inv`) -/
theorem inv_new (req : Int) (unique : Bool) : Inv (BTree.new req unique false true) := by
  have hsl := roundSlotLength_ok req
  refine ⟨?_, rfl, ⟨Or.inl rfl, Or.inl rfl⟩, ⟨rfl, rfl⟩, ⟨Nat.one_pos, ?_⟩, ?_, rfl, rfl, rfl, rfl⟩
  · unfold WF
    exact ⟨hsl, by simp [BTree.new]⟩
  · intro nd hnd; simp [BTree.new] at hnd
  · intro x hx; simp [BTree.new, BTree.abs, absNode] at hx

/-- the run theorem from the empty store: whatever is called, in whatever order, every state is well-formed,
    nothing panics, and every answer is the specification's -/
theorem C17_run_from_new (req : Int) (unique : Bool) (ops : List Op) :
    ∀ k, k ≤ ops.length →
      WF ((BTree.new req unique false true).run (ops.take k)) ∧
      ((BTree.new req unique false true).run (ops.take k)).panicked = false ∧
      (∀ (hk : k < ops.length),
        Spec.accepts ((BTree.new req unique false true).run (ops.take k)).unique
          ((BTree.new req unique false true).run (ops.take k)).abs ops[k]
          (((BTree.new req unique false true).run (ops.take k)).step ops[k]).2
          (((BTree.new req unique false true).run (ops.take k)).step ops[k]).1.abs = true) := by
  intro k hk
  obtain ⟨h1, _, _, h4⟩ := C17_run _ ops (inv_new req unique) k hk
  exact ⟨h1.wf, h1.ok, h4⟩

/-- PARTIAL (any configuration, incl. leaf load balancing ON): if the verified checker accepts every state visited
    by `ops` from `t` (this is what the driver evaluates after every step), then every visited state is well-formed,
    scans in key order over live items only, and reports the right count. -/
theorem C17_refines_partial (t : BTree) (ops : List Op)
    (hexplored : ∀ k, k ≤ ops.length → checkWF (t.run (ops.take k)) = true) :
    ∀ k, k ≤ ops.length →
      WF (t.run (ops.take k)) ∧ Sorted (t.run (ops.take k)).abs ∧
      (∀ x ∈ (t.run (ops.take k)).abs, x.id ≠ 0) ∧
      (t.run (ops.take k)).count = ((t.run (ops.take k)).abs.length : Int) := by
  intro k hk
  have hw := checkWF_sound _ (hexplored k hk)
  exact ⟨hw, C17_scan_sorted _ hw⟩

/-! ### witnesses -/

/-- a concrete run (root split, rejected duplicate, searches, update, removal, range; slot length 2, unique) -/
def sampleRun : List Op :=
  [.add 10 1, .add 20 2, .add 30 3, .add 20 9, .find 20 true, .update 20 5, .next, .remove 30, .range 0 100]

theorem sampleRun_states : ((BTree.new 2 true false true).run sampleRun).abs.map (·.key) = [10, 20] ∧
    ((BTree.new 2 true false true).run (sampleRun.take 3)).nodes.length = 3 := by decide +kernel

/-- the run theorem applied to it: every visited state is well-formed -/
theorem sampleRun_wf : ∀ k, k ≤ sampleRun.length → WF ((BTree.new 2 true false true).run (sampleRun.take k)) :=
  fun k hk => (C17_run_from_new 2 true sampleRun k hk).1

/-- slot length 2, unique, leaf load balancing on -/
def lbWitness : List Op :=
  [.add 4 1, .add 2 2, .add 6 3, .add 1 4, .add 8 5, .add 9 6, .remove 4, .remove 9, .add 4 7, .add 7 8,
   .remove 1, .remove 2, .add 2 9, .add 5 10]

/-- the state after the first 13 steps of the witness (three levels, nil children) -/
def lbState : BTree := (BTree.new 2 true true true).run (lbWitness.take 13)

/-- the hypothesis of `C17_refines_partial` is satisfiable by a non-trivial run: the first 13 steps of
    the witness are all accepted by the checker … -/
theorem lbState_explored : ∀ k, k ≤ 13 → checkWF ((BTree.new 2 true true true).run ((lbWitness.take 13).take k)) = true := by
  decide +kernel

theorem lbState_checked : checkWF lbState = true := by decide +kernel
theorem lbState_ok : lbState.panicked = false := by decide +kernel
theorem lbState_next_keys : (lbState.step (.add 5 10)).1.abs.map (·.key) = [2, 4, 5, 7, 8, 6] := by decide +kernel
theorem lbState_next_unsorted : keysSorted (lbState.step (.add 5 10)).1.abs = false := by decide +kernel

/-- … and the 14th (a `distributeToRight` rotation) produces a tree that scans `2 4 5 7 8 6`:
    the code as it is violates C17 with load balancing on. -/
theorem C17_lb_counterexample :
    WF lbState ∧ (lbState.step (.add 5 10)).1.abs.map (·.key) = [2, 4, 5, 7, 8, 6] ∧
      ¬ Sorted (lbState.step (.add 5 10)).1.abs := by
  refine ⟨checkWF_sound lbState lbState_checked, lbState_next_keys, ?_⟩
  intro hs
  rw [← keysSorted_iff, lbState_next_unsorted] at hs
  exact Bool.noConfusion hs

/-- so the full-strength statement is false for the code as it is -/
theorem C17_statement_false : ¬ Statement_C17 := by
  intro h
  have h1 := (h lbState (.add 5 10) (checkWF_sound lbState lbState_checked) lbState_ok).1
  exact C17_lb_counterexample.2.2 (C17_scan_sorted _ h1).1

/-- slot length 2, unique, balancing off; `remove 3` is a miss that parks the cursor -/
def staleWitness : List Op :=
  [.upsert 7 1, .add 4 2, .upsert 1 3, .upsert 0 4, .remove 3, .upsert 2 5]

def staleState (fixed : Bool) : BTree := (BTree.new 2 true false fixed).run staleWitness

/-- pinned tree (`fixed := false`): `Remove(0)` answers false although key 0 is stored -/
theorem C17_stale_cursor_counterexample :
    checkWF (staleState false) = true ∧ hasKey (staleState false).abs 0 = true ∧
      ((staleState false).step (.remove 0)).2 = .ok false := by
  decide +kernel

/-- repaired `Find` (`fixed := true`): the same call removes the item, and the result is what the
    specification allows -/
theorem C17_stale_cursor_repaired :
    ((staleState true).step (.remove 0)).2 = .ok true ∧ checkWF ((staleState true).step (.remove 0)).1 = true ∧
      Spec.accepts true (staleState true).abs (.remove 0) ((staleState true).step (.remove 0)).2
        ((staleState true).step (.remove 0)).1.abs = true := by
  decide +kernel

end Sop.C17
