import Sop.Lemmas.BTree
/-!
# C18 — key search positions the cursor so range scans return exactly the range

PROVED: `C18_scan_exact` — on every well-formed tree (any size), starting at the first item of the
in-order contents whose key is `≥ a` — where `Find(a, first)` lands on a hit, and where it lands on
a miss unless `a` is beyond the last key — and walking forward while the key is `≤ b` visits exactly
the items with `a ≤ key ≤ b`, in key order (and the mirrored statement for descending scans).
NOT PROVED (stated as `Statement_C18_find`, `Statement_C18_range`; explored by the driver, which
evaluates `Spec.accepts` for every `find`/`findDesc`/`findWithID`/`range`/`rangeDesc` call): that the
transcribed `find` / `findInDescendingOrder` / `moveToNext` / `moveToPrevious` realise "lower bound" and
"successor" on the heap representation.
-/
namespace Sop.C18
open Sop.BTree
set_option maxRecDepth 100000

/-- the cursor designates the item at in-order position `i` -/
def CursorAt (t : BTree) (i : Nat) : Prop :=
  t.cur.node ≠ 0 ∧ t.abs[i]? = some t.curItem

def Statement_C18_find : Prop :=
  ∀ (t : BTree) (k : Int), WF t → t.panicked = false →
    let r := t.find k true
    (r.2 = true ↔ hasKey t.abs k = true) ∧
    (r.2 = true → CursorAt r.1 (t.abs.findIdx (fun x => x.key == k))) ∧
    -- a miss parks the cursor NEXT TO where the key would be: on the first greater item or on the last smaller one
    (r.2 = false → t.abs ≠ [] →
      CursorAt r.1 (t.abs.findIdx (fun x => decide (x.key > k))) ∨ CursorAt r.1 (t.abs.findIdx (fun x => decide (x.key > k)) - 1))

def Statement_C18_range : Prop :=
  ∀ (t : BTree) (a b : Int), WF t → t.panicked = false →
    (t.range a b true).2.map (·.key) = (t.abs.filter (inRange a b)).map (·.key) ∧
    (t.range a b false).2.map (·.key) = ((t.abs.filter (inRange b a)).map (·.key)).reverse

/-- ascending: scan from the lower bound of `a` while `≤ b` = exactly the range -/
theorem C18_scan_exact (t : BTree) (h : WF t) (a b : Int) :
    (t.abs.dropWhile (fun i => decide (i.key < a))).takeWhile (fun i => decide (i.key ≤ b)) = t.abs.filter (inRange a b) :=
  scan_from_lower_bound_exact a b t.abs (abs_sorted_of_WF t h).1

/-- Go's `sort.Search`, as transcribed, returns the least index satisfying a monotone predicate -/
theorem C18_sort_search (f : Nat → Bool) (n : Nat) (hmono : ∀ a b, a ≤ b → b < n → f a = true → f b = true) :
    sortSearch n f ≤ n ∧ (∀ x, x < sortSearch n f → f x = false) ∧ (∀ x, sortSearch n f ≤ x → x < n → f x = true) :=
  sortSearch_spec f n hmono

/-- inside one node with key-sorted occupied slots, the search step of `find` / `getIndexToInsertTo`
    returns the lower bound of the probe key (first slot with key `≥ k`) -/
theorem C18_node_search_lower_bound (nd : Node) (k : Int) (hc : nd.count ≤ nd.slots.size)
    (hs : nd.items.Pairwise (fun a b => a.key ≤ b.key)) :
    let i := sortSearch nd.count (fun i => decide ((nd.slot i).key ≥ k))
    i ≤ nd.count ∧ (∀ x, x < i → (nd.slot x).key < k) ∧ (∀ x, i ≤ x → x < nd.count → k ≤ (nd.slot x).key) :=
  node_search_lower_bound nd k hc hs

/-- the range of a well-formed tree is itself key-sorted and live -/
theorem C18_range_sorted (t : BTree) (h : WF t) (a b : Int) :
    Sorted (t.abs.filter (inRange a b)) ∧ ∀ x ∈ t.abs.filter (inRange a b), x.id ≠ 0 ∧ a ≤ x.key ∧ x.key ≤ b := by
  have hs := abs_sorted_of_WF t h
  refine ⟨List.Pairwise.sublist List.filter_sublist hs.1, ?_⟩
  intro x hx
  have hm := List.mem_filter.mp hx
  have hr := hm.2
  simp only [inRange, Bool.and_eq_true, decide_eq_true_eq] at hr
  exact ⟨hs.2.1 x hm.1, hr.1, hr.2⟩

/-- non-vacuity of `WF`: a small two-level tree (root split at slot length 2) is accepted by the
    checker. Larger concrete trees are exercised by the correspondence corpus, not in the kernel. -/
def sample : BTree := (BTree.new 2 false false true).run [.add 10 1, .add 20 2, .add 30 3]

theorem sample_checked : checkWF sample = true := by decide +kernel

theorem C18_sample : WF sample ∧ sample.abs.map (·.key) = [10, 20, 30] :=
  ⟨checkWF_sound sample sample_checked, by decide +kernel⟩

end Sop.C18
