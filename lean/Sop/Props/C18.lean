import Sop.Lemmas.BTreeReadAll
/-!
# C18 — key search positions the cursor so range scans return exactly the range

Everything below is about Model B (`Sop/Model/BTree.lean`) and holds for EVERY well-formed tree `WF t`
(any size, any slot length, nil children allowed, unique or duplicate keys):

* `C18_first`, `C18_last`, `C18_next`, `C18_prev` — `First`/`Last` put the cursor on the first/last item of the
  in-order contents `abs`, `Next`/`Previous` move it to the in-order successor/predecessor and answer false
  exactly at the end;
* `C18_scan_forward`, `C18_scan_backward` — `First` then `Next`… reads exactly `abs`, `Last` then `Previous`…
  reads exactly `abs.reverse`;
* `C18_find`, `C18_find_lower_bound` — `Find(k, first)` answers true iff `k` is stored, a hit leaves the cursor on
  the FIRST item with key `k` (lower bound), a miss leaves it on the first greater item or on the item just
  before it (the code parks on the predecessor when the descent ends past the last slot of a node);
* `C18_range_asc` — the ascending `Range(a, b)` returns exactly the items with `a ≤ key ≤ b`, in order;
* `C18_scan_exact`, `C18_range_sorted`, `C18_sort_search`, `C18_node_search_lower_bound` — list-level facts.

`CursorPos t t' L R` (Lemmas/BTreeOps.lean) is the precise cursor statement: `t'` is `t` up to memoised
child indices and the cursor, has not panicked, and its cursor designates an occupied slot of a node
reachable from the root that is the head of `R` in `abs = L ++ R` (a structural position, not a value
comparison, so it can be chained).  WF clauses used: tree shape (`Nodup (reach …)`) and parent links for
the climbs; array sizes, zeroed children tail and the memo bounds for `getIndexOfChild`; "non-root nodes are
not empty" for `First`/`Last`/descents/`Find` misses; sortedness with separator bounds only through
`abs` being sorted (`Find`, `Range`); liveness of items for `Range`'s miss branch; `Count = |abs|` for the
public wrappers' emptiness test and loop bounds.  `2 ≤ sl`, `sl` even are not used on the read side.

* `C18_find_desc`, `C18_range_desc`, `C18_range` — the mirror image for `FindInDescendingOrder` (cursor on the LAST
  item of key `k`) and `RangeDesc(a, b)` (exactly the items with `b ≤ key ≤ a`, descending); `C18_range` is the
  former `Statement_C18_range`.

* `C18_find_any`, `C18_find_with_id`, `C18_range_state` — `Find(k, false)` including its (repaired) fast path,
  `FindWithID` (repaired), and the iterators' final state.  Every stored node of a well-formed repository is
  reachable (`WF.all_reachable`), so ANY cursor that passes the guards of `Next`/`Previous` is a position.

Nothing of C18 is left as "stated only"; the remaining assumption is the tie between Model B and the Go code
(correspondence run) and, for the legacy code (`fixFast = false`, `fixId = false`), the known findings.
-/
namespace Sop.C18
open Sop.BTree
set_option maxRecDepth 100000

/-- the cursor designates the item at in-order position `i` -/
def CursorAt (t : BTree) (i : Nat) : Prop :=
  t.cur.node ≠ 0 ∧ t.abs[i]? = some t.curItem

/-- full-strength statement about `Find(k, true)`; the cursor hypothesis `CursorValid` (the cached item of a
    previous call can be read: always true after `First/Last/Next/Previous/Find/Remove`) is needed because
    `Find` first dereferences the current item. PROVED below as `C18_find`. -/
def Statement_C18_find : Prop :=
  ∀ (t : BTree) (k : Int), WF t → t.panicked = false → CursorValid t →
    let r := t.find k true
    (r.2 = true ↔ hasKey t.abs k = true) ∧
    (r.2 = true → CursorAt r.1 (t.abs.findIdx (fun x => x.key == k))) ∧
    -- a miss parks the cursor NEXT TO where the key would be: on the first greater item or on the last smaller one
    (r.2 = false → t.abs ≠ [] →
      CursorAt r.1 (t.abs.findIdx (fun x => decide (x.key > k))) ∨ CursorAt r.1 (t.abs.findIdx (fun x => decide (x.key > k)) - 1))

/-- full-strength statement about the range iterators (the cursor hypothesis is explicit because `Find`
    dereferences the current item first). PROVED below as `C18_range`. -/
def Statement_C18_range : Prop :=
  ∀ (t : BTree) (a b : Int), WF t → t.panicked = false → CursorValid t →
    (t.range a b true).2.map (·.key) = (t.abs.filter (inRange a b)).map (·.key) ∧
    (t.range a b false).2.map (·.key) = ((t.abs.filter (inRange b a)).map (·.key)).reverse

/-! ### First / Last / Next / Previous -/

/-- what a cursor position means: the contents split as `L ++ x :: R'`, unchanged by the call, and the cursor reads `x` -/
theorem C18_cursorPos_meaning {t t' : BTree} (hwf : WF t) {L R : List Item} (h : CursorPos t t' L R) :
    WF t' ∧ t'.panicked = false ∧ t'.abs = t.abs ∧ t.abs = L ++ R ∧ t'.cur.node ≠ 0 ∧
      ∃ x R', R = x :: R' ∧ t'.curItem = x ∧ CursorAt t' L.length := by
  have hr : t.root ≠ 0 := by
    obtain ⟨_, _, _, _, _, _, _, _, nd, hg, _⟩ := h
    exact hwf.root_ne_of_get hg
  have hw := hwf.wfr hr
  obtain ⟨h1, h2, x, R', hR, hx⟩ := cursorPos_abs hw h
  refine ⟨WF_heapEq h.1 hwf, h.2.1, abs_heapEq h.1, h1, cursorPos_node_ne hw h, x, R', hR, hx, cursorPos_node_ne hw h, ?_⟩
  rw [h2, hR, hx]
  simp

/-- `First` on a non-empty well-formed tree: true, cursor on the first item of `abs` -/
theorem C18_first (t : BTree) (hwf : WF t) (hp : t.panicked = false) :
    (t.abs = [] → t.first = (t, false)) ∧
    (t.abs ≠ [] → t.first.2 = true ∧ CursorPos t t.first.1 [] t.abs) := by
  refine ⟨fun hne => ?_, fun hne => ⟨(first_spec hwf hp hne).1, (first_spec hwf hp hne).2.1⟩⟩
  have hc : (t.count == 0) = true := by
    have := (abs_sorted_of_WF t hwf).2.2
    rw [hne] at this; simp [this]
  unfold BTree.first; simp [hc]

/-- `Last` on a non-empty well-formed tree: true, cursor on the last item of `abs` -/
theorem C18_last (t : BTree) (hwf : WF t) (hp : t.panicked = false) :
    (t.abs = [] → t.last = (t, false)) ∧
    (t.abs ≠ [] → t.last.2 = true ∧ ∃ L x, t.abs = L ++ [x] ∧ CursorPos t t.last.1 L [x]) := by
  refine ⟨fun hne => ?_, fun hne => ?_⟩
  · have hc : (t.count == 0) = true := by
      have := (abs_sorted_of_WF t hwf).2.2
      rw [hne] at this; simp [this]
    unfold BTree.last; simp [hc]
  · obtain ⟨h1, L, x, h2, h3, _⟩ := last_spec hwf hp hne
    exact ⟨h1, L, x, h2, h3⟩

/-- `Next` from the position `L | x :: R`: false at the end, otherwise true with the cursor on the head of `R` -/
theorem C18_next {t₀ t : BTree} (hwf : WF t₀) {L R : List Item} {x : Item} (h : CursorPos t₀ t L (x :: R)) :
    (R = [] → t.next.2 = false) ∧ (R ≠ [] → t.next.2 = true ∧ CursorPos t₀ t.next.1 (L ++ [x]) R) := by
  obtain ⟨_, _, h1, h2⟩ := next_spec hwf h
  exact ⟨h1, fun hR => ⟨(h2 hR).1, (h2 hR).2.1⟩⟩

/-- `Previous` from the position `L | R`: false at the start, otherwise true with the cursor on the last item of `L` -/
theorem C18_prev {t₀ t : BTree} (hwf : WF t₀) {L R : List Item} (h : CursorPos t₀ t L R) :
    (L = [] → t.prev.2 = false) ∧
    (L ≠ [] → t.prev.2 = true ∧ ∃ L' x, L = L' ++ [x] ∧ CursorPos t₀ t.prev.1 L' (x :: R)) := by
  obtain ⟨_, _, h1, h2⟩ := prev_spec hwf h
  refine ⟨h1, fun hL => ?_⟩
  obtain ⟨a, L', x, b, c, _⟩ := h2 hL
  exact ⟨a, L', x, b, c⟩

/-- `First`, then `Next` until it answers false, reads exactly the in-order contents -/
theorem C18_scan_forward (t : BTree) (hwf : WF t) (hp : t.panicked = false) : t.scanAll = t.abs :=
  scanAll_eq_abs hwf hp

/-- `Last`, then `Previous` until it answers false, reads exactly the in-order contents backwards -/
theorem C18_scan_backward (t : BTree) (hwf : WF t) (hp : t.panicked = false) : t.scanAllDesc = t.abs.reverse :=
  scanAllDesc_eq_abs_reverse hwf hp

/-! ### Find -/

/-- `Find(k, true)` in terms of positions: a hit ⇒ the cursor is on an item of key `k` and everything before it is
    smaller (first of the run of equal keys = lower bound); a miss ⇒ `abs = Lo ++ Hi` with `Lo < k < Hi` and the
    cursor is on the head of `Hi` or on the last item of `Lo` -/
theorem C18_find_lower_bound (t : BTree) (k : Int) (hwf : WF t) (hp : t.panicked = false) (hv : CursorValid t)
    (hne : t.abs ≠ []) :
    ((t.find k true).2 = true ∧ ∃ L y R, CursorPos t (t.find k true).1 L (y :: R) ∧ y.key = k ∧ ∀ x ∈ L, x.key < k) ∨
    ((t.find k true).2 = false ∧ ∃ Lo Hi, (∀ x ∈ Lo, x.key < k) ∧ (∀ x ∈ Hi, k < x.key) ∧
      (CursorPos t (t.find k true).1 Lo Hi ∨ ∃ Lo' x, Lo = Lo' ++ [x] ∧ CursorPos t (t.find k true).1 Lo' (x :: Hi))) :=
  (find_spec hwf hp hv hne k).2.2.2

theorem findIdx_skip {p : Item → Bool} : ∀ (L R : List Item), (∀ x ∈ L, p x = false) →
    (L ++ R).findIdx p = L.length + R.findIdx p
  | [], R, _ => by simp
  | x :: L, R, h => by
    rw [List.cons_append, List.findIdx_cons, h x List.mem_cons_self,
      findIdx_skip L R (fun y hy => h y (List.mem_cons_of_mem _ hy))]
    simp; omega

theorem hasKey_iff {l : List Item} {k : Int} : hasKey l k = true ↔ ∃ x ∈ l, x.key = k := by
  simp [hasKey]

/-- `Statement_C18_find` holds -/
theorem C18_find : Statement_C18_find := by
  intro t k hwf hp hv
  by_cases hne : t.abs = []
  · have hc : (t.count == 0) = true := by
      have := (abs_sorted_of_WF t hwf).2.2
      rw [hne] at this; simp [this]
    have : t.find k true = (t, false) := by unfold BTree.find; simp [hc]
    simp only [this, hne]
    exact ⟨by simp [hasKey], by simp, fun _ h => absurd rfl h⟩
  · rcases C18_find_lower_bound t k hwf hp hv hne with ⟨hr, L, y, R, hpos, hy, hL⟩ | ⟨hr, Lo, Hi, hLo, hHi, hpos⟩
    · obtain ⟨_, _, _, habs, _, x, R', hR, hx, hat⟩ := C18_cursorPos_meaning hwf hpos
      simp only [List.cons.injEq] at hR
      obtain ⟨rfl, rfl⟩ := hR
      have hidx : t.abs.findIdx (fun x => x.key == k) = L.length := by
        rw [habs, findIdx_skip L _ (fun x hx => by have := hL x hx; simp; omega)]
        simp [List.findIdx_cons, hy]
      refine ⟨⟨fun _ => hasKey_iff.mpr ⟨y, by rw [habs]; simp, hy⟩, fun _ => hr⟩, fun _ => by rw [hidx]; exact hat, ?_⟩
      intro h; rw [hr] at h; exact absurd h (by simp)
    · have hno : hasKey t.abs k = false := by
        cases h : hasKey t.abs k with
        | false => rfl
        | true =>
          exfalso
          obtain ⟨x, hx, hk⟩ := hasKey_iff.mp h
          have habs : t.abs = Lo ++ Hi := by
            rcases hpos with hpos | ⟨Lo', x', hLx, hpos⟩
            · exact (C18_cursorPos_meaning hwf hpos).2.2.2.1
            · rw [(C18_cursorPos_meaning hwf hpos).2.2.2.1, hLx]; simp
          rw [habs] at hx
          rcases List.mem_append.mp hx with hx | hx
          · have := hLo x hx; omega
          · have := hHi x hx; omega
      refine ⟨⟨fun h => by rw [hr] at h; exact absurd h (by simp), fun h => by rw [hno] at h; exact absurd h (by simp)⟩,
        fun h => by rw [hr] at h; exact absurd h (by simp), fun _ _ => ?_⟩
      rcases hpos with hpos | ⟨Lo', x', hLx, hpos⟩
      · obtain ⟨_, _, _, habs, _, x, R', hR, hx, hat⟩ := C18_cursorPos_meaning hwf hpos
        left
        have hidx : t.abs.findIdx (fun x => decide (x.key > k)) = Lo.length := by
          rw [habs, findIdx_skip Lo _ (fun x hx => by have := hLo x hx; simp; omega), hR]
          have := hHi x (by rw [hR]; simp)
          simp [List.findIdx_cons, this]
        rw [hidx]; exact hat
      · obtain ⟨_, _, _, habs, _, x, R', hR, hx, hat⟩ := C18_cursorPos_meaning hwf hpos
        right
        have habs' : t.abs = Lo ++ Hi := by rw [habs, hLx]; simp
        have hidx : t.abs.findIdx (fun x => decide (x.key > k)) = Lo.length := by
          rw [habs', findIdx_skip Lo _ (fun x hx => by have := hLo x hx; simp; omega)]
          cases Hi with
          | nil => simp
          | cons y ys =>
            have := hHi y (by simp)
            simp [List.findIdx_cons, this]
        rw [hidx, hLx]
        simpa using hat

/-! ### Range -/

/-- ascending `Range(a, b)` on a well-formed tree returns exactly the items with `a ≤ key ≤ b`, in key order
    (the items themselves, not only their keys) -/
theorem C18_range_asc (t : BTree) (a b : Int) (hwf : WF t) (hp : t.panicked = false) (hv : CursorValid t) :
    (t.range a b true).2 = t.abs.filter (inRange a b) :=
  range_asc_spec hwf hp hv (empty_curKey hwf) a b

/-- descending `RangeDesc(a, b)` on a well-formed tree returns exactly the items with `b ≤ key ≤ a`, in descending
    key order -/
theorem C18_range_desc (t : BTree) (a b : Int) (hwf : WF t) (hp : t.panicked = false) :
    (t.range a b false).2 = (t.abs.filter (inRange b a)).reverse :=
  range_desc_spec hwf hp (empty_curKey hwf) a b

/-- the iterators leave the same tree (up to memoised indices and the cursor), not panicked -/
theorem C18_range_state (t : BTree) (a b : Int) (asc : Bool) (hwf : WF t) (hp : t.panicked = false) (hv : CursorValid t)
    (hix : t.cur.node = 0 ∨ 0 ≤ t.cur.idx) :
    WF (t.range a b asc).1 ∧ (t.range a b asc).1.panicked = false ∧ (t.range a b asc).1.abs = t.abs ∧
      CursorValid (t.range a b asc).1 := by
  obtain ⟨h1, h2, h3, _⟩ := range_state hwf hp hv hix a b asc
  exact ⟨WF_heapEq h1 hwf, h2, abs_heapEq h1, h3⟩

/-- `FindWithID(k, id)` (with the proposed repair `fixId`) answers true iff an item with that key and id is stored -/
theorem C18_find_with_id (t : BTree) (k : Int) (id : Nat) (hwf : WF t) (hp : t.panicked = false) (hv : CursorValid t)
    (hix : t.cur.node = 0 ∨ 0 ≤ t.cur.idx) (hfix : t.fixId = true) :
    ((t.findWithID k id).2 = true ↔ ∃ x ∈ t.abs, x.key = k ∧ x.id = id) :=
  (findWithID_spec hwf hp hv hix hfix k id).2

/-- `Find(k, false)` — the search used by `Update`/`Remove` — with the repaired fast path (`fixFast`): a hit leaves
    the cursor on SOME item of key `k`, a miss means `k` is not stored -/
theorem C18_find_any (t : BTree) (k : Int) (hwf : WF t) (hp : t.panicked = false) (hv : CursorValid t)
    (hfix : t.fixFast = true) (hne : t.abs ≠ []) :
    ((t.find k false).2 = true ∧ ∃ L y R, CursorPos t (t.find k false).1 L (y :: R) ∧ y.key = k) ∨
    ((t.find k false).2 = false ∧ (∀ x ∈ t.abs, x.key ≠ k) ∧ ∃ L R, CursorPos t (t.find k false).1 L R) :=
  (find_any_spec hwf hp hv hfix hne k).2.2

/-- `Statement_C18_range` holds -/
theorem C18_range : Statement_C18_range := by
  intro t a b hwf hp hv
  rw [C18_range_asc t a b hwf hp hv, C18_range_desc t a b hwf hp]
  exact ⟨rfl, by rw [List.map_reverse]⟩

/-- `FindInDescendingOrder(k)`: a hit ⇒ the cursor is on an item of key `k`, everything before is `≤ k` and
    everything after is `> k` (LAST of the run of equal keys); a miss ⇒ as for `Find` -/
theorem C18_find_desc (t : BTree) (k : Int) (hwf : WF t) (hp : t.panicked = false) (hne : t.abs ≠ []) :
    ((t.findDesc k).2 = true ∧ ∃ L y R, CursorPos t (t.findDesc k).1 L (y :: R) ∧ y.key = k ∧
        (∀ x ∈ L, x.key ≤ k) ∧ ∀ x ∈ R, k < x.key) ∨
    ((t.findDesc k).2 = false ∧ ∃ Lo Hi, (∀ x ∈ Lo, x.key < k) ∧ (∀ x ∈ Hi, k < x.key) ∧
      (CursorPos t (t.findDesc k).1 Lo Hi ∨ ∃ Lo' x, Lo = Lo' ++ [x] ∧ CursorPos t (t.findDesc k).1 Lo' (x :: Hi))) :=
  (findDesc_spec hwf hp hne k).2.2.2

/-- ascending: scan from the lower bound of `a` while `≤ b` = exactly the range -/
theorem C18_scan_exact (t : BTree) (h : WF t) (a b : Int) :
    (t.abs.dropWhile (fun i => decide (i.key < a))).takeWhile (fun i => decide (i.key ≤ b)) = t.abs.filter (inRange a b) :=
  scan_from_lower_bound_exact a b t.abs (abs_sorted_of_WF t h).1

/-- Go's `sort.Search`, as transcribed, returns the least index satisfying a monotone predicate -/
theorem C18_sort_search (f : Nat → Bool) (n : Nat) (hmono : ∀ a b, a ≤ b → b < n → f a = true → f b = true) :
    sortSearch n f ≤ n ∧ (∀ x, x < sortSearch n f → f x = false) ∧ (∀ x, sortSearch n f ≤ x → x < n → f x = true) :=
  sortSearch_spec f n hmono

/-- inside one node with key-sorted occupied slots, the search step of `find` / `getIndexToInsertTo`
    returns the lower bound of the probe key (first slot with key `≥ k`) -/
theorem C18_node_search_lower_bound (nd : Node) (k : Int) (hc : nd.count ≤ nd.slots.size)
    (hs : nd.items.Pairwise (fun a b => a.key ≤ b.key)) :
    let i := sortSearch nd.count (fun i => decide ((nd.slot i).key ≥ k))
    i ≤ nd.count ∧ (∀ x, x < i → (nd.slot x).key < k) ∧ (∀ x, i ≤ x → x < nd.count → k ≤ (nd.slot x).key) :=
  node_search_lower_bound nd k hc hs

/-- the range of a well-formed tree is itself key-sorted and live -/
theorem C18_range_sorted (t : BTree) (h : WF t) (a b : Int) :
    Sorted (t.abs.filter (inRange a b)) ∧ ∀ x ∈ t.abs.filter (inRange a b), x.id ≠ 0 ∧ a ≤ x.key ∧ x.key ≤ b := by
  have hs := abs_sorted_of_WF t h
  refine ⟨List.Pairwise.sublist List.filter_sublist hs.1, ?_⟩
  intro x hx
  have hm := List.mem_filter.mp hx
  have hr := hm.2
  simp only [inRange, Bool.and_eq_true, decide_eq_true_eq] at hr
  exact ⟨hs.2.1 x hm.1, hr.1, hr.2⟩

/-- non-vacuity of the hypotheses (`WF`, not panicked, `CursorValid`, non-empty): a small two-level tree (root
    split at slot length 2) is accepted by the checker. Larger concrete trees are exercised by the
    correspondence corpus, not in the kernel. -/
def sample : BTree := (BTree.new 2 false false true).run [.add 10 1, .add 20 2, .add 30 3]

theorem sample_checked : checkWF sample = true := by decide +kernel

theorem C18_sample : WF sample ∧ sample.abs.map (·.key) = [10, 20, 30] ∧ sample.panicked = false ∧
    CursorValid sample ∧ sample.abs ≠ [] := by
  have h1 : sample.abs.map (·.key) = [10, 20, 30] := by decide +kernel
  refine ⟨checkWF_sound sample sample_checked, h1, by decide +kernel, Or.inl (by decide +kernel), ?_⟩
  intro h; rw [h] at h1; simp at h1

end Sop.C18
