import Sop.Lemmas.ValuePlacement
import Sop.Model.ValuePlacementX
/-! # C19 — persisted stores hold exactly what was written, under every storage option

`run pl ops` is the model of a single-writer, crash-free history on one store with placement `pl`
(`Sop.Model.ValuePlacement`); `specRun ops` is the specification: a key/value map updated by the same
operations, transaction by transaction.  The full-strength statement `Statement_C19` — after every history a
cold reader sees exactly the specification's committed map — is FALSE for the code as it stands
(`C19_counterexample_*`, replayed on the implementation by the directed corpus of harness/cmd/c19).

Composition: (a) the B-tree is the ordered-collection specification and tells the tracker which item it touched —
built into `St.apply` (hypothesis `C17_refines`, owned by C17); (b) a commit that runs installs the transaction's
tree and count — built into `St.commit` (Model P, C01); (c) the placement invariant: every slot item reads back the
value last written under its key.

What is proved, for EVERY legal history (any number of transactions, operations, commits, rollbacks):
* `C19_persisted_eq_model_outside_findings` — every placement, hypothesis on the history alone
  (`findingHistory pl ops = false`): actively persisted stores without a committed removes-only transaction
  (C19-F1/F2; `C19_active_persisted_eq_model`); NO condition for the other placements
  (`C19_nonactive_persisted_eq_model`) since /repo a8e6b837 repaired C19-F3 (a removal out of an interior node handed
  the successor to `tracker.Remove`; `legacyRemove`, `C19_legacy_counterexample_interior_remove`);
* `C19_persisted_eq_model_every_placement` — every placement under `commitsTracked` (no commit is skipped; a
  condition on the model's run);
* `C19_active_remove_only_commit_diverges` — the excluded set is exact: the first removes-only commit always loses
  its removes; `C19_excluded_set_witnesses` — the two finding witnesses.
The specification, the invariants and their preservation are in `Sop.Lemmas.ValuePlacement`. -/
namespace Sop.C19
open Sop.ValuePlacement

/-- the property at full strength -/
def Statement_C19 : Prop :=
  ∀ (pl : Placement) (ops : List Op), Legal ops →
    view (run pl ops).blobs (run pl ops).slots = specView (specRun ops).committed

/-! ## counterexamples (the code as it stands) -/

def active : Placement := ⟨false, true, false⟩
def inNode : Placement := ⟨true, false, false⟩
def v (t : Int) : Val := ⟨t, 8⟩

/-- (1) actively persisted store: a transaction whose only operation is a remove commits and persists nothing -/
def witnessRemoveOnly : List Op :=
  [.begin, .add 1 (v 1), .add 2 (v 2), .add 3 (v 3), .commit, .begin, .remove 2 2, .commit]

theorem C19_counterexample_active_remove_only :
    Legal witnessRemoveOnly ∧
    view (run active witnessRemoveOnly).blobs (run active witnessRemoveOnly).slots
      = [(3, some (v 3)), (2, some (v 2)), (1, some (v 1))] ∧
    specView (specRun witnessRemoveOnly).committed = [(3, some (v 3)), (1, some (v 1))] := by decide +kernel

/-- (1b) … and when the removed item's value lives in its blob (an earlier transaction updated it) phase 2 still
deletes that blob: the item is still in the tree, its value is gone -/
def witnessRemoveOnlyBlob : List Op :=
  [.begin, .add 1 (v 1), .add 2 (v 2), .commit, .begin, .update 2 (v 3), .commit, .begin, .remove 2 2, .commit]

theorem C19_counterexample_active_value_destroyed :
    Legal witnessRemoveOnlyBlob ∧
    view (run active witnessRemoveOnlyBlob).blobs (run active witnessRemoveOnlyBlob).slots
      = [(2, none), (1, some (v 1))] ∧
    specView (specRun witnessRemoveOnlyBlob).committed = [(1, some (v 1))] := by decide +kernel

/-- (3) REPAIRED by /repo a8e6b837; the tree before it (`legacyRemove`), every placement that is not actively
persisted: removing a key from an interior node handed the SUCCESSOR item to the tracker; when the successor was added
by the same transaction its add was untracked, the tracker was empty, the commit was skipped -/
def witnessInterior : List Op :=
  [.begin, .add 10 (v 1), .add 20 (v 2), .add 30 (v 3), .commit, .begin, .add 25 (v 6), .remove 20 25, .commit]

def runLegacy (pl : Placement) (ops : List Op) : St := ops.foldl St.apply { place := pl, legacyRemove := true }

theorem C19_legacy_counterexample_interior_remove :
    Legal witnessInterior ∧
    view (runLegacy inNode witnessInterior).blobs (runLegacy inNode witnessInterior).slots
      = [(30, some (v 3)), (20, some (v 2)), (10, some (v 1))] ∧
    specView (specRun witnessInterior).committed = [(25, some (v 6)), (30, some (v 3)), (10, some (v 1))] := by decide +kernel

theorem C19_counterexample : ¬ Statement_C19 := by
  intro h
  have h1 := h active witnessRemoveOnly C19_counterexample_active_remove_only.1
  rw [C19_counterexample_active_remove_only.2.1, C19_counterexample_active_remove_only.2.2] at h1
  exact absurd h1 (by decide)

/-! ## (c) placement, locally: the item `UpdateCurrentItem` stores back into the slot reads back the new value,
in every placement and for every tracker state -/

theorem manageTail_reads_back (t : Tracker) (u : Nat) (a : Action) (it : Item) (n : Nat) (b : Blobs) (x : Val)
    (h : it.val = some x) :
    readItem (putOpt b (manageTail t u a it n).blob) (manageTail t u a it n).item = some x := by
  simp [manageTail, h, putOpt, readItem, get_put_same]

theorem update_reads_back (pl : Placement) (t : Tracker) (it : Item) (b : Blobs) (n : Nat) (x : Val) :
    let r := trackerUpdate pl t { it with val := some x } b n
    readItem r.blobs r.item = some x := by
  have key : ∀ (t1 : Tracker) (u : Nat),
      readItem (activelyPersist pl t1 u ⟨.update, { it with val := some x }⟩ b n).2.1
        (activelyPersist pl t1 u ⟨.update, { it with val := some x }⟩ b n).1.item = some x := by
    intro t1 u
    unfold activelyPersist
    split
    · simp only [manage]
      split
      · exact manageTail_reads_back _ _ _ _ _ _ x rfl
      · exact manageTail_reads_back _ _ _ _ _ _ x rfl
    · simp [readItem]
  intro r
  show readItem (trackerUpdate pl t { it with val := some x } b n).blobs (trackerUpdate pl t { it with val := some x } b n).item = some x
  unfold trackerUpdate
  split
  · split
    · simp [readItem]
    · exact key _ _
  · exact key _ _

/-- `Btree.Add` puts an inline copy into the slot, whatever the placement -/
theorem add_slot_inline (s : St) (w : Txn) (k : Int) (x : Val) :
    ∃ w', (s.add w k x).work = some w' ∧ ∃ it, w'.slots = it :: w.slots ∧ it.key = k ∧ it.val = some x ∧ it.vnf = false := by
  simp [St.add]

/-! ## (c) placement, whole histories: stores that are not actively persisted -/

/-- **C19, the part that holds.**  For a store that is not actively persisted (in node, separate segment,
separate segment + global cache), after EVERY history in which no commit is skipped (the tracker holds an item
at each commit), a cold reader sees exactly what the committed transactions wrote — whichever item the B-tree
handed to `tracker.Remove`, and whatever is or is not in the blob store. -/
theorem C19_persisted_eq_model (pl : Placement) (hna : pl.active = false) (ops : List Op)
    (hct : commitsTracked { place := pl } ops = true) :
    view (run pl ops).blobs (run pl ops).slots = specView (specRun ops).committed := by
  have h := run_rel ops { place := pl } {} hna (by simp [Rel, kv, specView]) hct
  exact view_eq_kv_of_spec h.1 _

/-- the hypothesis is satisfiable by a non-trivial history (two committed transactions, an update, a remove, a rollback) -/
def sampleOps : List Op :=
  [.begin, .add 1 (v 1), .add 2 (v 2), .commit, .begin, .update 1 (v 3), .remove 2 2, .commit, .begin, .add 5 (v 5), .rollback]

example : commitsTracked { place := ⟨false, false, true⟩ } sampleOps = true ∧ Legal sampleOps ∧
    specView (specRun sampleOps).committed = [(1, some (v 3))] := by decide +kernel

/-- in an actively persisted store the tracker is non-empty at commit exactly when an add or update reached it:
removes never do (`active_remove_untracked`), adds and updates always do (`trackerAdd_tracked`,
`trackerUpdate_tracked`) and nothing shrinks it (`manage_preserves_ne_nil`). -/
theorem C19_active_commit_needs_a_write (pl : Placement) (h : pl.active = true) (s : St) (w : Txn) (k via : Int)
    (hp : s.place = pl) (hf : s.trackRemoves = false) (hw : w.tracker.items = []) :
    ∃ w', (s.remove w k via).work = some w' ∧ w'.tracker.items = [] := by
  refine ⟨_, rfl, ?_⟩
  simp only
  split
  · exact hw
  · rw [hp, hf, active_remove_untracked pl h]; exact hw

/-- with the candidate repair (`trackRemoves = true`) the two actively-persisted witnesses read back what was written -/
def runFixed (pl : Placement) (ops : List Op) : St := ops.foldl St.apply { place := pl, trackRemoves := true }

theorem C19_candidate_repair_on_witnesses :
    view (runFixed active witnessRemoveOnly).blobs (runFixed active witnessRemoveOnly).slots
      = specView (specRun witnessRemoveOnly).committed ∧
    view (runFixed active witnessRemoveOnlyBlob).blobs (runFixed active witnessRemoveOnlyBlob).slots
      = specView (specRun witnessRemoveOnlyBlob).committed := by decide +kernel

/-! ## (c) placement, whole histories: actively persisted stores

The invariant (`AInv`: id freshness, blob frame, tracker entries) and its preservation by every operation are in
`Sop.Lemmas.ValuePlacement`.  The excluded histories are exactly those of the open findings C19-F1/F2: a committed
transaction that consists of removes only (`NoRemoveOnlyCommit` is the complement, a predicate on the history
alone).  Which item is handed to `tracker.Remove` does not matter in an actively persisted store — its removes never
reach the tracker —, so the theorem holds for the legacy tree too (`remove_step` is stated for both); C19-F4 is about
where a value is stored, not what is read. -/

/-- **C19 for actively persisted stores.**  After EVERY legal history (any number of transactions, adds, updates —
also of a key added or already updated by the same transaction —, removes — whichever item the B-tree hands to
`tracker.Remove` —, commits, rollbacks) in which no committed transaction consists of removes only, a cold reader
sees exactly what the committed transactions wrote. -/
theorem C19_active_persisted_eq_model (pl : Placement) (ha : pl.active = true) (ops : List Op) (hl : Legal ops)
    (hx : NoRemoveOnlyCommit ops) :
    view (run pl ops).blobs (run pl ops).slots = specView (specRun ops).committed :=
  (run_ainv ops { place := pl } {} (false, false) (ainv_init pl ha) hl hx).good.1

/-- the hypotheses are satisfiable by a non-trivial history: an update of a key added by the same transaction, two
updates of one key in one transaction (inline → blob → new blob), an interior remove (the item handed to the tracker
is not the one removed), an empty transaction, a rolled-back update of a value that lives in its blob -/
def sampleActive : List Op :=
  [.begin, .add 1 (v 1), .update 1 (v 2), .add 2 (v 3), .commit,
   .begin, .update 1 (v 4), .update 1 (v 5), .remove 2 1, .commit,
   .begin, .commit,
   .begin, .update 1 (v 6), .rollback]

example : Legal sampleActive ∧ NoRemoveOnlyCommit sampleActive ∧
    specView (specRun sampleActive).committed = [(1, some (v 5))] ∧
    (run active sampleActive).slots = [⟨3, 1, none, true⟩] := by decide +kernel

/-! ### the excluded set -/

/-- the histories of the open findings, as a predicate on the history alone: an actively persisted store with a
committed removes-only transaction (C19-F1, F2).  (Until /repo a8e6b837 also: any other store with a remove that
handed the tracker another item than the one removed, C19-F3.) -/
def findingHistory (pl : Placement) (ops : List Op) : Bool :=
  pl.active && !noRemoveOnlyFrom (false, false) ops

/-- inside the excluded set the statement fails on the model exactly as on the code (the two witnesses are
directed corpus cases of harness/cmd/c19): C19-F1 (`witnessRemoveOnly`) and C19-F2 (`witnessRemoveOnlyBlob`) are in it
and do not read back … -/
theorem C19_excluded_set_witnesses :
    (findingHistory active witnessRemoveOnly = true ∧ Legal witnessRemoveOnly ∧
      view (run active witnessRemoveOnly).blobs (run active witnessRemoveOnly).slots
        ≠ specView (specRun witnessRemoveOnly).committed) ∧
    (findingHistory active witnessRemoveOnlyBlob = true ∧ Legal witnessRemoveOnlyBlob ∧
      view (run active witnessRemoveOnlyBlob).blobs (run active witnessRemoveOnlyBlob).slots
        ≠ specView (specRun witnessRemoveOnlyBlob).committed) := by decide +kernel

/-- a history whose last operation is the first commit of a removes-only transaction: the cold reader does NOT see
what was written (the removed keys are still there) -/
theorem C19_active_remove_only_commit_diverges (pl : Placement) (ha : pl.active = true) (ops : List Op)
    (hl : Legal (ops ++ [.commit])) (hx : NoRemoveOnlyCommit ops) (hbad : ¬ NoRemoveOnlyCommit (ops ++ [.commit])) :
    view (run pl (ops ++ [.commit])).blobs (run pl (ops ++ [.commit])).slots
      ≠ specView (specRun (ops ++ [.commit])).committed := by
  have hl' : legalFrom {} ops = true ∧ opLegal (ops.foldl SpecSt.apply {}) .commit = true := by
    have := hl; unfold Legal at this; rw [legalFrom_append, Bool.and_eq_true] at this; exact this
  have hi := run_ainv ops { place := pl } {} (false, false) (ainv_init pl ha) hl'.1 hx
  have hflags : (ops.foldl flagStep (false, false)).1 = false ∧ (ops.foldl flagStep (false, false)).2 = true := by
    unfold NoRemoveOnlyCommit at hbad hx
    rw [noRemoveOnlyFrom_append_commit, hx] at hbad
    cases h1 : (ops.foldl flagStep (false, false)).1 <;> cases h2 : (ops.foldl flagStep (false, false)).2 <;>
      simp [h1, h2] at hbad ⊢
  intro hEq
  have hlen := congrArg List.length hEq
  rw [view_length, specView_length] at hlen
  unfold run specRun at hlen
  rw [List.foldl_append, List.foldl_append] at hlen
  simp only [List.foldl_cons, List.foldl_nil] at hlen
  generalize ops.foldl St.apply { place := pl } = s at hi hlen
  generalize ops.foldl SpecSt.apply {} = sp at hi hlen hl'
  obtain ⟨_, _, hC, hwk⟩ := hi
  unfold WorkInv at hwk
  cases hpw : sp.work with
  | none => simp [opLegal, hpw] at hl'
  | some sw =>
    cases hsw : s.work with
    | none => simp [hsw, hpw] at hwk
    | some w =>
      simp only [hsw, hpw] at hwk
      have hlt := hwk.lt hflags.1 hflags.2
      have hitems := hwk.ge hflags.1
      have hwlen : w.slots.length = sw.length := by
        have := congrArg List.length hwk.good.1
        rwa [view_length, specView_length] at this
      simp only [St.apply, hsw, SpecSt.apply, hpw, (commit_skipped_proj s w hitems).1] at hlen
      omega

/-- **C19, every placement.**  After every legal history in which no commit is skipped (the tracker holds an item
at each commit), a cold reader sees exactly what the committed transactions wrote. -/
theorem C19_persisted_eq_model_every_placement (pl : Placement) (ops : List Op) (hl : Legal ops)
    (hct : commitsTracked { place := pl } ops = true) :
    view (run pl ops).blobs (run pl ops).slots = specView (specRun ops).committed := by
  cases ha : pl.active with
  | false => exact C19_persisted_eq_model pl ha ops hct
  | true =>
    exact C19_active_persisted_eq_model pl ha ops hl
      (commitsTracked_noRemoveOnly ops _ _ (false, false) (ainv_init pl ha) hl hct)

/-! ## (c) placement, whole histories: stores that are not actively persisted, no run-level hypothesis

`C19_persisted_eq_model` needs `commitsTracked`, a condition on the model's run.  Since the item handed to
`tracker.Remove` is the item removed (/repo a8e6b837) a skipped commit is harmless — the tracker is empty only when the
transaction removed exactly what it added (`ninv_skip`: the working tree IS the committed tree) — so the condition
can be dropped. -/

/-- **C19 for stores that are not actively persisted.**  After EVERY legal history a cold reader sees exactly what the
committed transactions wrote: a commit is skipped only when the transaction changed nothing (it removed what it
added). -/
theorem C19_nonactive_persisted_eq_model (pl : Placement) (hna : pl.active = false) (ops : List Op) (hl : Legal ops) :
    view (run pl ops).blobs (run pl ops).slots = specView (specRun ops).committed := by
  have h := run_nainv ops { place := pl } {} hna rfl
    ⟨by simp [Rel, kv, specView], ⟨(fun _ h => by cases h), (fun _ h => by cases h), (fun _ h => by cases h)⟩, by simp [NAWork]⟩ hl
  exact view_eq_kv_of_spec h.rel.1 _

/-- it covers histories `commitsTracked` excludes: the second and third commit are skipped -/
def sampleSkip : List Op :=
  [.begin, .add 1 (v 1), .commit, .begin, .add 7 (v 7), .update 7 (v 8), .remove 7 7, .commit, .begin, .commit,
   .begin, .update 1 (v 2), .commit]

example : Legal sampleSkip ∧ commitsTracked { place := inNode } sampleSkip = false ∧
    specView (specRun sampleSkip).committed = [(1, some (v 2))] := by decide +kernel

/-- the history of C19-F3 reads back right in every placement now (on the legacy tree: in an actively persisted
store only) -/
theorem C19_interior_remove_harmless :
    (∀ pl : Placement, view (run pl witnessInterior).blobs (run pl witnessInterior).slots
      = specView (specRun witnessInterior).committed) ∧
    view (runLegacy active witnessInterior).blobs (runLegacy active witnessInterior).slots
      = specView (specRun witnessInterior).committed := by
  refine ⟨fun pl => ?_, by decide +kernel⟩
  cases ha : pl.active with
  | false => exact C19_nonactive_persisted_eq_model pl ha witnessInterior (by decide +kernel)
  | true => exact C19_active_persisted_eq_model pl ha witnessInterior (by decide +kernel) (by decide +kernel)

/-- **C19, every placement, hypothesis on the history alone**: outside the histories of the open findings a cold
reader sees exactly what the committed transactions wrote. -/
theorem C19_persisted_eq_model_outside_findings (pl : Placement) (ops : List Op) (hl : Legal ops)
    (hx : findingHistory pl ops = false) :
    view (run pl ops).blobs (run pl ops).slots = specView (specRun ops).committed := by
  unfold findingHistory at hx
  cases ha : pl.active with
  | true =>
    rw [ha] at hx
    exact C19_active_persisted_eq_model pl ha ops hl (by simpa using hx)
  | false => exact C19_nonactive_persisted_eq_model pl ha ops hl

example : findingHistory active sampleActive = false ∧ findingHistory inNode witnessInterior = false ∧
    findingHistory active witnessInterior = false := by decide +kernel

/-! ## key-only updates and genuine out-of-node references (`Sop.Model.ValuePlacementX`)

A store that is not actively persisted holds a GENUINE reference (`Value = nil, ValueNeedsFetch = true`) only for items
written by a transaction that went through the conflict / refetch-and-merge round (`commitAfterConflict`).
`UpdateKey` / `UpdateCurrentKey` replace no value.  The value blob of an item may be queued for deletion only when the
item is removed or its value replaced. -/

/-- `manage` on an update that carries no new value: nothing is queued for deletion, no blob is written, the item keeps
its ID -/
theorem manage_update_without_value (t : Tracker) (u : Nat) (it : Item) (n : Nat) (h : it.val = none) :
    (manage t u ⟨.update, it⟩ n).t.forDel = t.forDel ∧ (manage t u ⟨.update, it⟩ n).blob = none ∧
    (manage t u ⟨.update, it⟩ n).item = it ∧ (manage t u ⟨.update, it⟩ n).nid = n := by
  simp [manage, manageTail, h, set_forDel]

theorem manageTail_forDel (t : Tracker) (u : Nat) (a : Action) (it : Item) (n : Nat) :
    (manageTail t u a it n).t.forDel = t.forDel := by
  unfold manageTail; split <;> simp [set_forDel]

/-- **A value blob is queued for deletion only when its item is removed or its value replaced**: whatever `manage` adds
to `forDeletionItems` is the ID of the entry's own item, that item's value lives in its blob, and the entry is a remove
or an update that carries a new value -/
theorem manage_queues_only_removed_or_replaced (t : Tracker) (u : Nat) (ci : CItem) (n id : Nat)
    (h : id ∈ (manage t u ci n).t.forDel) :
    id ∈ t.forDel ∨ (id = ci.item.id ∧ ci.item.vnf = true ∧
      (ci.action = .remove ∨ (ci.action = .update ∧ ci.item.val.isSome = true))) := by
  cases hact : ci.action with
  | remove =>
    have hm : (manage t u ci n).t.forDel = (if ci.item.vnf = true then t.forDel ++ [ci.item.id] else t.forDel) := by
      simp only [manage, hact]
      by_cases hv : ci.item.vnf = true <;> by_cases hl : (Tracker.lookup { t with forDel := t.forDel ++ [ci.item.id] } u).isSome = true <;>
        by_cases hl2 : (t.lookup u).isSome = true <;> simp [hv, hl, hl2, set_forDel]
    rw [hm] at h
    by_cases hv : ci.item.vnf = true
    · simp only [hv, if_true, List.mem_append, List.mem_singleton] at h
      rcases h with h1 | h1
      · exact Or.inl h1
      · exact Or.inr ⟨h1, hv, Or.inl rfl⟩
    · simp only [hv] at h; exact Or.inl h
  | update =>
    by_cases hc : (ci.item.vnf && ci.item.val.isSome) = true
    · have hm : (manage t u ci n).t.forDel = t.forDel ++ [ci.item.id] := by
        simp only [manage, hact, hc, if_true, manageTail_forDel]
      rw [hm] at h
      simp only [Bool.and_eq_true] at hc
      rcases List.mem_append.1 h with h1 | h1
      · exact Or.inl h1
      · exact Or.inr ⟨by simpa using h1, hc.1, Or.inr ⟨rfl, hc.2⟩⟩
    · have hm : (manage t u ci n).t.forDel = t.forDel := by
        simp only [manage, hact, hc]; exact manageTail_forDel _ _ _ _ _
      rw [hm] at h; exact Or.inl h
  | add =>
    have hm : (manage t u ci n).t.forDel = t.forDel := by simp only [manage, hact, manageTail_forDel]
    rw [hm] at h; exact Or.inl h
  | get =>
    have hm : (manage t u ci n).t.forDel = t.forDel := by simp only [manage, hact]
    rw [hm] at h; exact Or.inl h

/-- … which the hoisted variant (NOT the code) violates: it queues the blob of an update that carries no value -/
theorem manageHoisted_queues_live_blob :
    (manageHoisted {} 5 ⟨.update, ⟨5, 1, none, true⟩⟩ 9).t.forDel = [5] ∧
    (manage {} 5 ⟨.update, ⟨5, 1, none, true⟩⟩ 9).t.forDel = [] := by decide +kernel

/-- **A key-only update keeps the item's value blob alive.**  Store that is not actively persisted; the first
operation of a transaction is `UpdateKey(k)` on an item whose value is NOT in the node (a genuine reference), without
fetching it; the transaction commits.  The blob store is unchanged — nothing was deleted, nothing rewritten — and
the tree is the one the transaction began with: every value that loaded before loads now. -/
theorem C19_key_update_keeps_blob (s : St) (w : Txn) (k : Int) (slot : Item)
    (hpl : s.place.active = false) (hw : s.work = some w) (ht : w.tracker.items = [])
    (hf : findKey w.slots k = some slot) (hu : ∀ y ∈ w.slots, y.key = k → y = slot) (hv : slot.val = none) :
    (((({ s := s } : XSt).apply (.updateKey k false)).apply (.base .commit)).s).blobs = s.blobs ∧
    (((({ s := s } : XSt).apply (.updateKey k false)).apply (.base .commit)).s).slots = w.slots ∧
    (((({ s := s } : XSt).apply (.updateKey k false)).apply (.base .commit)).s).work = none := by
  have hmap : w.slots.map (fun it => if it.key = k then slot else it) = w.slots := by
    conv => rhs; rw [← List.map_id w.slots]
    apply List.map_congr_left
    intro y hy
    by_cases hk : y.key = k
    · simp [hu y hy hk]
    · simp [hk]
  have hlk : w.tracker.lookup slot.id = none := lookup_nil ht slot.id
  have hadd : hasAdd w.tracker slot.id = false := by simp [hasAdd, hlk]
  have hset : (w.tracker.set slot.id ⟨.update, slot⟩).items = [(slot.id, ⟨.update, slot⟩)] := by
    simp [Tracker.set, ht]
  cases hin : s.place.inNode with
  | true =>
    simp [XSt.apply, hw, St.updateKey, hf, trackerUpdate_nonactive _ hpl, hadd, XSt.commit, hset, hin]
    exact hmap
  | false =>
    simp [XSt.apply, hw, St.updateKey, hf, trackerUpdate_nonactive _ hpl, hadd, XSt.commit, hset, hin, hpl,
      commitValuesWith, Tracker.lookup, manage, manageTail, hv, putOpt, set_forDel, eraseAll_nil]
    exact hmap

/-- the genuine reference is produced by the conflict round; the key-only update leaves it readable; the hoisted
variant (NOT the code) deletes its blob: the item is still in the tree, its value is gone (the harness replays this
history first: corpus `key-only-update-of-reference`) -/
def rivalRound : List XOp := [.park, .base .begin, .base (.add 9 (v 9)), .base .commit, .resume, .commitAfterConflict]

def witnessKeyOnly : List XOp :=
  [.base .begin, .base (.add 1 (v 1)), .base .commit, .base .begin, .base (.add 2 (v 2))] ++ rivalRound ++
  [.base .begin, .updateKey 2 false, .base .commit]

def viewX (x : XSt) : List (Int × Option Val) := view x.s.blobs x.s.slots

def sepPl : Placement := ⟨false, false, false⟩

theorem C19_hoisted_key_update_witness :
    -- the code: key 2 is a genuine reference (no value in the node) and reads back
    (runX sepPl false witnessKeyOnly).s.slots.map (fun it => (it.key, it.val, it.vnf))
      = [(2, none, true), (9, some (v 9), false), (1, some (v 1), false)] ∧
    viewX (runX sepPl false witnessKeyOnly) = [(2, some (v 2)), (9, some (v 9)), (1, some (v 1))] ∧
    -- the hoisted variant: same tree, the blob of key 2 is gone
    viewX (runX sepPl true witnessKeyOnly) = [(2, none), (9, some (v 9)), (1, some (v 1))] ∧
    -- with a `GetCurrentValue` before the key update both read back (the update then carries the value)
    viewX (runX sepPl true (witnessKeyOnly.map (fun o => if o = .updateKey 2 false then .updateKey 2 true else o)))
      = [(2, some (v 2)), (9, some (v 9)), (1, some (v 1))] := by decide +kernel

/-! ### what the conflict round and the key-only updates do to the code as it stands (open findings C19-F7, F8, F9) -/

/-- C19-F7, every placement: a key ADDED and then updated by a transaction that goes through the conflict round
keeps the value of the add (the replay re-adds the tracker's item, not the node's slot) -/
def witnessUpdateAfterAdd : List XOp :=
  [.base .begin, .base (.add 1 (v 1)), .base .commit, .base .begin, .base (.add 2 (v 2)), .base (.update 2 (v 3))] ++ rivalRound

/-- C19-F8, actively persisted store: an update of an item whose value lives in its blob, in a transaction that goes
through the conflict round, is lost (`getForRollbackTrackedItemsValues` puts the item's OLD ID back before the replay) -/
def witnessActiveUpdateLost : List XOp :=
  [.base .begin, .base (.add 1 (v 1)), .base .commit, .base .begin, .base (.update 1 (v 2)), .base .commit,
   .base .begin, .base (.update 1 (v 3))] ++ rivalRound

/-- C19-F9, actively persisted store: `GetCurrentValue` + `UpdateCurrentKey` + `Rollback` deletes the COMMITTED value blob
(the update rewrote the blob under the item's own ID, the rollback deletes the blobs of all tracked updates) -/
def witnessActiveRollback : List XOp :=
  [.base .begin, .base (.add 1 (v 1)), .base .commit, .base .begin, .base (.update 1 (v 2)), .base .commit,
   .base .begin, .updateKey 1 true, .base .rollback]

theorem C19_conflict_round_findings :
    viewX (runX inNode false witnessUpdateAfterAdd) = [(2, some (v 2)), (9, some (v 9)), (1, some (v 1))] ∧
    viewX (runX sepPl false witnessUpdateAfterAdd) = [(2, some (v 2)), (9, some (v 9)), (1, some (v 1))] ∧
    viewX (runX active false witnessActiveUpdateLost) = [(9, some (v 9)), (1, some (v 2))] ∧
    viewX (runX active false (witnessActiveRollback.take 6)) = [(1, some (v 2))] ∧
    viewX (runX active false witnessActiveRollback) = [(1, none)] := by decide +kernel

end Sop.C19
