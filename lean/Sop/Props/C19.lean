import Sop.Model.ValuePlacement
/-! # C19 — persisted stores hold exactly what was written, under every storage option

`run pl ops` is the model of a single-writer, crash-free history on one store with placement `pl`
(`Sop.Model.ValuePlacement`); `specRun ops` is the specification: a key/value map updated by the same
operations, transaction by transaction.  The full-strength statement `Statement_C19` — after every history a
cold reader sees exactly the specification's committed map — is FALSE for the code as it stands
(`C19_counterexample_*`, replayed on the implementation by the directed corpus of harness/cmd/c19).

Composition (`C19_persisted_eq_model`): (a) the B-tree is the ordered-collection specification and tells the
tracker which item it touched — built into `St.apply` (hypothesis `C17_refines`, owned by C17); (b) a commit
that runs installs the transaction's tree and count — built into `St.commit` (Model P, C01); (c) the placement
invariant: every slot item reads back the value last written under its key. -/
namespace Sop.C19
open Sop.ValuePlacement

/-! ## specification -/

abbrev Spec := List (Int × Val)

structure SpecSt where
  committed : Spec := []
  work : Option Spec := none
deriving Repr, Inhabited

def SpecSt.apply (s : SpecSt) : Op → SpecSt
  | .begin => { s with work := some s.committed }
  | .add k v => match s.work with | some w => { s with work := some ((k, v) :: w) } | none => s
  | .update k v => match s.work with
    | some w => { s with work := some (w.map (fun e => if e.1 == k then (e.1, v) else e)) }
    | none => s
  | .remove k _ => match s.work with | some w => { s with work := some (w.filter (fun e => e.1 != k)) } | none => s
  | .commit => match s.work with | some w => { committed := w, work := none } | none => s
  | .rollback => { s with work := none }

def specRun (ops : List Op) : SpecSt := ops.foldl SpecSt.apply {}

/-- what the cold reader sees: per slot item its key and the value it reads (`none` = unreadable / zero value) -/
def view (b : Blobs) (slots : List Item) : List (Int × Option Val) := slots.map (fun it => (it.key, readItem b it))

def specView (s : Spec) : List (Int × Option Val) := s.map (fun e => (e.1, some e.2))

def hasK (s : Spec) (k : Int) : Bool := s.any (fun e => e.1 == k)

/-- the histories the B-tree layer can produce (C17): one open transaction at a time; add only an absent key;
update/remove only a present key; the item handed to `tracker.Remove` is some present item -/
def legalFrom (s : SpecSt) : List Op → Bool
  | [] => true
  | op :: rest =>
    (match op, s.work with
      | .begin, none => true
      | .add k _, some w => !hasK w k
      | .update k _, some w => hasK w k
      | .remove k via, some w => hasK w k && hasK w via
      | .commit, some _ => true
      | .rollback, some _ => true
      | _, _ => false) && legalFrom (s.apply op) rest

abbrev Legal (ops : List Op) : Prop := legalFrom {} ops = true

/-- the property at full strength -/
def Statement_C19 : Prop :=
  ∀ (pl : Placement) (ops : List Op), Legal ops →
    view (run pl ops).blobs (run pl ops).slots = specView (specRun ops).committed

/-! ## counterexamples (the code as it stands) -/

def active : Placement := ⟨false, true, false⟩
def inNode : Placement := ⟨true, false, false⟩
def v (t : Int) : Val := ⟨t, 8⟩

/-- (1) actively persisted store: a transaction whose only operation is a remove commits and persists nothing -/
def witnessRemoveOnly : List Op :=
  [.begin, .add 1 (v 1), .add 2 (v 2), .add 3 (v 3), .commit, .begin, .remove 2 2, .commit]

theorem C19_counterexample_active_remove_only :
    Legal witnessRemoveOnly ∧
    view (run active witnessRemoveOnly).blobs (run active witnessRemoveOnly).slots
      = [(3, some (v 3)), (2, some (v 2)), (1, some (v 1))] ∧
    specView (specRun witnessRemoveOnly).committed = [(3, some (v 3)), (1, some (v 1))] := by decide

/-- (1b) … and when the removed item's value lives in its blob (an earlier transaction updated it) phase 2 still
deletes that blob: the item is still in the tree, its value is gone -/
def witnessRemoveOnlyBlob : List Op :=
  [.begin, .add 1 (v 1), .add 2 (v 2), .commit, .begin, .update 2 (v 3), .commit, .begin, .remove 2 2, .commit]

theorem C19_counterexample_active_value_destroyed :
    Legal witnessRemoveOnlyBlob ∧
    view (run active witnessRemoveOnlyBlob).blobs (run active witnessRemoveOnlyBlob).slots
      = [(2, none), (1, some (v 1))] ∧
    specView (specRun witnessRemoveOnlyBlob).committed = [(1, some (v 1))] := by decide

/-- (3) every placement: removing a key from an interior node hands the SUCCESSOR item to the tracker; when the
successor was added by the same transaction its add is untracked, the tracker is empty, the commit is skipped -/
def witnessInterior : List Op :=
  [.begin, .add 10 (v 1), .add 20 (v 2), .add 30 (v 3), .commit, .begin, .add 25 (v 6), .remove 20 25, .commit]

theorem C19_counterexample_interior_remove :
    Legal witnessInterior ∧
    view (run inNode witnessInterior).blobs (run inNode witnessInterior).slots
      = [(30, some (v 3)), (20, some (v 2)), (10, some (v 1))] ∧
    specView (specRun witnessInterior).committed = [(25, some (v 6)), (30, some (v 3)), (10, some (v 1))] := by decide

theorem C19_counterexample : ¬ Statement_C19 := by
  intro h
  have h1 := h active witnessRemoveOnly C19_counterexample_active_remove_only.1
  rw [C19_counterexample_active_remove_only.2.1, C19_counterexample_active_remove_only.2.2] at h1
  exact absurd h1 (by decide)

/-! ## what commit does -/

theorem commit_skipped (s : St) (w : Txn) (h : w.tracker.items = []) :
    (s.commit w).slots = s.slots ∧ (s.commit w).count = s.count ∧ (s.commit w).work = none := by
  simp [St.commit, h]

theorem commit_installs (s : St) (w : Txn) (h : w.tracker.items ≠ []) :
    (s.commit w).slots = w.slots ∧ (s.commit w).count = w.count ∧ (s.commit w).work = none := by
  have : w.tracker.items.isEmpty = false := by
    cases hh : w.tracker.items with
    | nil => exact absurd hh h
    | cons _ _ => rfl
  simp [St.commit, this]

/-! ## the tracker in actively persisted stores: removes are never tracked, adds/updates always are -/

theorem set_items_ne_nil (t : Tracker) (u : Nat) (ci : CItem) : (t.set u ci).items ≠ [] := by
  unfold Tracker.set
  split
  · rename_i h
    intro hn
    simp only [List.map_eq_nil_iff] at hn
    simp [hn] at h
  · simp

theorem active_remove_untracked (pl : Placement) (h : pl.active = true) (t : Tracker) (it : Item) :
    (trackerRemove pl false t it).items = t.items := by
  simp [trackerRemove, h]

theorem manageTail_items_ne_nil (t : Tracker) (u : Nat) (a : Action) (it : Item) (n : Nat) :
    (manageTail t u a it n).t.items ≠ [] := by
  unfold manageTail
  split <;> exact set_items_ne_nil _ _ _

theorem manage_preserves_ne_nil (t : Tracker) (u : Nat) (ci : CItem) (n : Nat) (h : t.items ≠ []) :
    (manage t u ci n).t.items ≠ [] := by
  unfold manage
  split
  · have key : ∀ (t1 : Tracker) (c : CItem), t1.items ≠ [] →
        (if (t1.lookup u).isSome then t1.set u c else t1).items ≠ [] := by
      intro t1 c h1
      split
      · exact set_items_ne_nil _ _ _
      · exact h1
    apply key
    split <;> exact h
  · split <;> exact manageTail_items_ne_nil _ _ _ _ _
  · exact manageTail_items_ne_nil _ _ _ _ _
  · exact h

theorem activelyPersist_ne_nil (pl : Placement) (t : Tracker) (u : Nat) (ci : CItem) (b : Blobs) (n : Nat)
    (h : t.items ≠ []) : (activelyPersist pl t u ci b n).1.t.items ≠ [] := by
  unfold activelyPersist
  split
  · exact manage_preserves_ne_nil _ _ _ _ h
  · exact h

theorem trackerAdd_tracked (pl : Placement) (t : Tracker) (it : Item) (b : Blobs) (n : Nat) :
    (trackerAdd pl t it b n).t.items ≠ [] := by
  simp only [trackerAdd]
  exact activelyPersist_ne_nil _ _ _ _ _ _ (set_items_ne_nil _ _ _)

theorem lookup_some_ne_nil {t : Tracker} {u : Nat} {c : CItem} (h : t.lookup u = some c) : t.items ≠ [] := by
  intro hn
  simp [Tracker.lookup, hn] at h

theorem trackerUpdate_tracked (pl : Placement) (t : Tracker) (it : Item) (b : Blobs) (n : Nat) :
    (trackerUpdate pl t it b n).t.items ≠ [] := by
  unfold trackerUpdate
  split
  · rename_i c hc
    split
    · exact activelyPersist_ne_nil _ _ _ _ _ _ (lookup_some_ne_nil hc)
    · exact activelyPersist_ne_nil _ _ _ _ _ _ (set_items_ne_nil _ _ _)
  · exact activelyPersist_ne_nil _ _ _ _ _ _ (set_items_ne_nil _ _ _)

/-! ## (c) placement, locally: the item `UpdateCurrentItem` stores back into the slot reads back the new value,
in every placement and for every tracker state -/

theorem get_put_same (b : Blobs) (id : Nat) (x : Val) : (b.put id x).get? id = some x := by
  simp [Blobs.put, Blobs.get?]

theorem manageTail_reads_back (t : Tracker) (u : Nat) (a : Action) (it : Item) (n : Nat) (b : Blobs) (x : Val)
    (h : it.val = some x) :
    readItem (putOpt b (manageTail t u a it n).blob) (manageTail t u a it n).item = some x := by
  simp [manageTail, h, putOpt, readItem, get_put_same]

theorem update_reads_back (pl : Placement) (t : Tracker) (it : Item) (b : Blobs) (n : Nat) (x : Val) :
    let r := trackerUpdate pl t { it with val := some x } b n
    readItem r.blobs r.item = some x := by
  have key : ∀ (t1 : Tracker) (u : Nat),
      readItem (activelyPersist pl t1 u ⟨.update, { it with val := some x }⟩ b n).2.1
        (activelyPersist pl t1 u ⟨.update, { it with val := some x }⟩ b n).1.item = some x := by
    intro t1 u
    unfold activelyPersist
    split
    · simp only [manage]
      split
      · exact manageTail_reads_back _ _ _ _ _ _ x rfl
      · exact manageTail_reads_back _ _ _ _ _ _ x rfl
    · simp [readItem]
  intro r
  show readItem (trackerUpdate pl t { it with val := some x } b n).blobs (trackerUpdate pl t { it with val := some x } b n).item = some x
  unfold trackerUpdate
  split
  · split
    · simp [readItem]
    · exact key _ _
  · exact key _ _

/-- `Btree.Add` puts an inline copy into the slot, whatever the placement -/
theorem add_slot_inline (s : St) (w : Txn) (k : Int) (x : Val) :
    ∃ w', (s.add w k x).work = some w' ∧ ∃ it, w'.slots = it :: w.slots ∧ it.key = k ∧ it.val = some x ∧ it.vnf = false := by
  simp [St.add]

/-! ## (c) placement, whole histories: stores that are not actively persisted -/

def kv (slots : List Item) : List (Int × Option Val) := slots.map (fun it => (it.key, it.val))

theorem view_eq_kv_of_spec {slots : List Item} {sp : Spec} (h : kv slots = specView sp) (b : Blobs) :
    view b slots = specView sp := by
  rw [← h]
  unfold view kv
  apply List.map_congr_left
  intro it hit
  have : (it.key, it.val) ∈ specView sp := by rw [← h]; exact List.mem_map_of_mem hit
  obtain ⟨e, _, he⟩ := List.mem_map.1 this
  have hv : it.val = some e.2 := by
    have := congrArg Prod.snd he
    simpa using this.symm
  simp [readItem, hv]

/-- at every commit of the history the tracker holds at least one item (the commit is not skipped) -/
def commitsTracked (s : St) : List Op → Bool
  | [] => true
  | .commit :: rest =>
    (match s.work with | some w => !w.tracker.items.isEmpty | none => true) && commitsTracked (s.apply .commit) rest
  | op :: rest => commitsTracked (s.apply op) rest

theorem trackerUpdate_item_nonactive (pl : Placement) (h : pl.active = false) (t : Tracker) (it : Item) (b : Blobs) (n : Nat) :
    (trackerUpdate pl t it b n).item = it := by
  unfold trackerUpdate
  split
  · split <;> simp [activelyPersist, h]
  · simp [activelyPersist, h]

theorem rollback_eq (s : St) (w : Txn) :
    (s.rollback w).slots = s.slots ∧ (s.rollback w).work = none ∧ (s.rollback w).place = s.place := by
  unfold St.rollback; split <;> simp

/-- the relation maintained along a history -/
def Rel (s : St) (sp : SpecSt) : Prop :=
  kv s.slots = specView sp.committed ∧
  match s.work, sp.work with
  | some w, some sw => kv w.slots = specView sw
  | none, none => True
  | _, _ => False

theorem find_key {slots : List Item} {k : Int} {it : Item} (h : findKey slots k = some it) : it.key = k := by
  have := List.find?_some h
  simpa using this

theorem kv_update_none {slots : List Item} {sw : Spec} {k : Int} (x : Val) (h : kv slots = specView sw)
    (hn : findKey slots k = none) : kv slots = specView (sw.map (fun e => if e.1 == k then (e.1, x) else e)) := by
  rw [h]
  unfold specView
  rw [List.map_map]
  apply List.map_congr_left
  intro e he
  have hmem : (e.1, some e.2) ∈ kv slots := by rw [h]; exact List.mem_map_of_mem (f := fun e => (e.1, some e.2)) he
  obtain ⟨it, hit, hite⟩ := List.mem_map.1 hmem
  have hk : it.key = e.1 := congrArg Prod.fst hite
  have : ¬ (it.key == k) = true := by
    have := List.find?_eq_none.1 hn it hit
    simpa using this
  have hne : (e.1 == k) = false := by
    rw [← hk]; simpa using this
  have hne' : e.1 ≠ k := by simpa using hne
  simp [hne']

theorem kv_update_some {slots : List Item} {sw : Spec} {k : Int} (x : Val) (slot : Item) (h : kv slots = specView sw)
    (hk : slot.key = k) :
    kv (slots.map (fun it => if it.key == k then { slot with val := some x } else it))
      = specView (sw.map (fun e => if e.1 == k then (e.1, x) else e)) := by
  unfold kv specView at *
  rw [List.map_map, List.map_map]
  have : ∀ (l : List Item) (m : Spec), l.map (fun it => (it.key, it.val)) = m.map (fun e => (e.1, some e.2)) →
      l.map ((fun it => (it.key, it.val)) ∘ (fun it => if it.key == k then { slot with val := some x } else it))
        = m.map ((fun e => (e.1, some e.2)) ∘ (fun e => if e.1 == k then (e.1, x) else e)) := by
    intro l
    induction l with
    | nil => intro m hm; cases m <;> simp_all
    | cons a l ih =>
      intro m hm
      cases m with
      | nil => simp at hm
      | cons e m =>
        simp only [List.map_cons, List.cons.injEq] at hm
        obtain ⟨hhead, htail⟩ := hm
        have hka : a.key = e.1 := congrArg Prod.fst hhead
        have hva : a.val = some e.2 := congrArg Prod.snd hhead
        simp only [List.map_cons, List.cons.injEq]
        refine ⟨?_, ih m htail⟩
        simp only [Function.comp]
        by_cases hkk : (a.key == k) = true
        · have : (e.1 == k) = true := by rw [← hka]; exact hkk
          simp only [hkk, this, ↓reduceIte, hk]
          have : k = e.1 := by
            have := hkk; simp at this; rw [← this, hka]
          simp [this]
        · have hkk' : (a.key == k) = false := by simpa using hkk
          have : (e.1 == k) = false := by rw [← hka]; exact hkk'
          simp [this, hka, hva]
  exact this slots sw h

theorem kv_filter {slots : List Item} {sw : Spec} {k : Int} (h : kv slots = specView sw) :
    kv (slots.filter (fun it => it.key != k)) = specView (sw.filter (fun e => e.1 != k)) := by
  unfold kv specView at *
  induction slots generalizing sw with
  | nil => cases sw <;> simp_all
  | cons a l ih =>
    cases sw with
    | nil => simp at h
    | cons e m =>
      simp only [List.map_cons, List.cons.injEq] at h
      obtain ⟨hhead, htail⟩ := h
      have hka : a.key = e.1 := congrArg Prod.fst hhead
      have hva : a.val = some e.2 := congrArg Prod.snd hhead
      simp only [List.filter_cons, hka]
      split
      · simp [hka, hva, ih htail]
      · exact ih htail

theorem step_rel (s : St) (sp : SpecSt) (op : Op) (hna : s.place.active = false) (hr : Rel s sp)
    (hc : op = .commit → ∀ w, s.work = some w → w.tracker.items ≠ []) :
    Rel (s.apply op) (sp.apply op) ∧ (s.apply op).place = s.place := by
  obtain ⟨hcom, hw⟩ := hr
  cases op with
  | begin => exact ⟨⟨hcom, by simpa [St.apply, St.begin, SpecSt.apply] using hcom⟩, rfl⟩
  | add k x =>
    cases hsw : s.work with
    | none =>
      cases hpw : sp.work with
      | none => simp [St.apply, SpecSt.apply, hsw, hpw, Rel, hcom]
      | some sw => simp [hsw, hpw] at hw
    | some w =>
      cases hpw : sp.work with
      | none => simp [hsw, hpw] at hw
      | some sw =>
        simp only [hsw, hpw] at hw
        refine ⟨⟨by simpa [St.apply, hsw, St.add, SpecSt.apply, hpw] using hcom, ?_⟩, by simp [St.apply, hsw, St.add]⟩
        simp only [St.apply, hsw, St.add, SpecSt.apply, hpw]
        simp [kv, specView] at hw ⊢
        exact hw
  | update k x =>
    cases hsw : s.work with
    | none =>
      cases hpw : sp.work with
      | none => simp [St.apply, SpecSt.apply, hsw, hpw, Rel, hcom]
      | some sw => simp [hsw, hpw] at hw
    | some w =>
      cases hpw : sp.work with
      | none => simp [hsw, hpw] at hw
      | some sw =>
        simp only [hsw, hpw] at hw
        cases hf : findKey w.slots k with
        | none =>
          refine ⟨⟨by simpa [St.apply, hsw, St.update, hf, SpecSt.apply, hpw] using hcom, ?_⟩, by simp [St.apply, hsw, St.update, hf]⟩
          simp only [St.apply, hsw, St.update, hf, SpecSt.apply, hpw]
          exact kv_update_none x hw hf
        | some slot =>
          refine ⟨⟨by simpa [St.apply, hsw, St.update, hf, SpecSt.apply, hpw] using hcom, ?_⟩, by simp [St.apply, hsw, St.update, hf]⟩
          simp only [St.apply, hsw, St.update, hf, SpecSt.apply, hpw]
          rw [trackerUpdate_item_nonactive _ hna]
          exact kv_update_some x slot hw (find_key hf)
  | remove k via =>
    cases hsw : s.work with
    | none =>
      cases hpw : sp.work with
      | none => simp [St.apply, SpecSt.apply, hsw, hpw, Rel, hcom]
      | some sw => simp [hsw, hpw] at hw
    | some w =>
      cases hpw : sp.work with
      | none => simp [hsw, hpw] at hw
      | some sw =>
        simp only [hsw, hpw] at hw
        refine ⟨⟨by simpa [St.apply, hsw, St.remove, SpecSt.apply, hpw] using hcom, ?_⟩, by simp [St.apply, hsw, St.remove]⟩
        simp only [St.apply, hsw, St.remove, SpecSt.apply, hpw]
        exact kv_filter hw
  | commit =>
    cases hsw : s.work with
    | none =>
      cases hpw : sp.work with
      | none => simp [St.apply, SpecSt.apply, hsw, hpw, Rel, hcom]
      | some sw => simp [hsw, hpw] at hw
    | some w =>
      cases hpw : sp.work with
      | none => simp [hsw, hpw] at hw
      | some sw =>
        simp only [hsw, hpw] at hw
        have hne := hc rfl w hsw
        obtain ⟨h1, _, h3⟩ := commit_installs s w hne
        refine ⟨⟨by simpa [St.apply, hsw, SpecSt.apply, hpw, h1] using hw, by simp [St.apply, hsw, SpecSt.apply, hpw, h3]⟩, ?_⟩
        simp only [St.apply, hsw, St.commit]
        split <;> rfl
  | rollback =>
    cases hsw : s.work with
    | none =>
      cases hpw : sp.work with
      | none => simp [St.apply, SpecSt.apply, hsw, Rel, hcom]
      | some sw => simp [hsw, hpw] at hw
    | some w =>
      obtain ⟨r1, r2, r3⟩ := rollback_eq s w
      refine ⟨⟨?_, ?_⟩, ?_⟩
      · simp only [St.apply, hsw, SpecSt.apply, r1]; exact hcom
      · simp only [St.apply, hsw, SpecSt.apply, r2]
      · simp only [St.apply, hsw, r3]

theorem run_rel (ops : List Op) : ∀ (s : St) (sp : SpecSt), s.place.active = false → Rel s sp →
    commitsTracked s ops = true → Rel (ops.foldl St.apply s) (ops.foldl SpecSt.apply sp) := by
  induction ops with
  | nil => intro s sp _ hr _; exact hr
  | cons op rest ih =>
    intro s sp hna hr hct
    have hc : op = .commit → ∀ w, s.work = some w → w.tracker.items ≠ [] := by
      intro hop w hw
      subst hop
      simp only [commitsTracked, hw, Bool.and_eq_true, Bool.not_eq_true'] at hct
      intro hn
      simp [hn] at hct
    have hrest : commitsTracked (s.apply op) rest = true := by
      cases op <;> simp_all [commitsTracked]
    obtain ⟨h1, h2⟩ := step_rel s sp op hna hr hc
    exact ih _ _ (by rw [h2]; exact hna) h1 hrest

/-- **C19, the part that holds.**  For a store that is not actively persisted (in node, separate segment,
separate segment + global cache), after EVERY history in which no commit is skipped (the tracker holds an item
at each commit), a cold reader sees exactly what the committed transactions wrote — whichever item the B-tree
handed to `tracker.Remove`, and whatever is or is not in the blob store. -/
theorem C19_persisted_eq_model (pl : Placement) (hna : pl.active = false) (ops : List Op)
    (hct : commitsTracked { place := pl } ops = true) :
    view (run pl ops).blobs (run pl ops).slots = specView (specRun ops).committed := by
  have h := run_rel ops { place := pl } {} hna (by simp [Rel, kv, specView]) hct
  exact view_eq_kv_of_spec h.1 _

/-- the hypothesis is satisfiable by a non-trivial history (two committed transactions, an update, a remove, a rollback) -/
def sampleOps : List Op :=
  [.begin, .add 1 (v 1), .add 2 (v 2), .commit, .begin, .update 1 (v 3), .remove 2 2, .commit, .begin, .add 5 (v 5), .rollback]

example : commitsTracked { place := ⟨false, false, true⟩ } sampleOps = true ∧ Legal sampleOps ∧
    specView (specRun sampleOps).committed = [(1, some (v 3))] := by decide

/-- in an actively persisted store the tracker is non-empty at commit exactly when an add or update reached it:
removes never do (`active_remove_untracked`), adds and updates always do (`trackerAdd_tracked`,
`trackerUpdate_tracked`) and nothing shrinks it (`manage_preserves_ne_nil`). -/
theorem C19_active_commit_needs_a_write (pl : Placement) (h : pl.active = true) (s : St) (w : Txn) (k via : Int)
    (hp : s.place = pl) (hf : s.trackRemoves = false) (hw : w.tracker.items = []) :
    ∃ w', (s.remove w k via).work = some w' ∧ w'.tracker.items = [] := by
  refine ⟨_, rfl, ?_⟩
  simp only
  split
  · exact hw
  · rw [hp, hf, active_remove_untracked pl h]; exact hw

/-- with the candidate repair (`trackRemoves = true`) the two actively-persisted witnesses read back what was written -/
def runFixed (pl : Placement) (ops : List Op) : St := ops.foldl St.apply { place := pl, trackRemoves := true }

theorem C19_candidate_repair_on_witnesses :
    view (runFixed active witnessRemoveOnly).blobs (runFixed active witnessRemoveOnly).slots
      = specView (specRun witnessRemoveOnly).committed ∧
    view (runFixed active witnessRemoveOnlyBlob).blobs (runFixed active witnessRemoveOnlyBlob).slots
      = specView (specRun witnessRemoveOnlyBlob).committed := by decide

end Sop.C19
