import Sop.Model.Cache
import Sop.Lemmas.StoreInfoCache
import Sop.Lemmas.RegistryGet
/-! # C20 — caches never serve stale data

`Sop.Model.Cache`: two processes (own L1 node MRU + L1 Handles) over one shared L2 and one folder; `get`
transcribed from `nodeRepositoryBackend.get`.  Specification: every read returns the content of the last
committed write and commits; every (lone) write commits (`specOuts`).

* `inv_apply`: blob immutability and cache-entry soundness (every MRU / L2 node entry holds exactly what was
  written under its physical id; the L2 handle entry is absent or equal to the registry file; the active blob
  exists) hold after every operation — evictions, flushes and expiries included.
* `C20_fresh`: in any reachable state, a read by a process whose L1 Handles entry is absent or current returns
  the current content and commits — whatever is or is not in any MRU / L2 (registry-first path, and the fast
  path with a current handle).
* `C20_fresh_single_writer`: for EVERY history in which only one process writes (the other may read, anything
  may be evicted or flushed at any time) all answers equal the specification: single-process histories are fresh.
* `C20_counterexample`: the two-process history of DESIGN.md §6 — the process that wrote first keeps serving its
  own old version through the `phaseDone = 0` fast path after the other process committed: NoCheck reads it with
  a clean commit, validated readers and writers fail, until its L1 Handles entry goes away.

Store-info cache (`Sop.Model.StoreInfoCache`: `StoreRepository.Update` over a list of stores with its `undo`,
faults and interference per store and per pass as inputs) — section "store-info cache" at the end:
* `C20_storeinfo_coherent`: for EVERY list of stores, every failure position and every fault that left nothing
  behind (`Flt.clean`: reads failing, writes failing before taking effect, the store removed concurrently, the
  entry evicted — in the forward pass and in `undo`), after `Update` returns (ok, `(nil, nil)` or error) every
  store's cache entry is absent or equal to its `storeinfo.txt`; `C20_storeinfo_read_fresh`: so every cache-first
  reader is answered with what the file holds.
* `C20_storeinfo_error_restores`: distinct names, forward faults of the before-effect kind, `undo` not itself
  disturbed: when `Update` does not return its stores, every file except that of a concurrently removed store holds
  what it held before the call (and, by the first theorem, so does every cache entry that is present).
* `C20_storeinfo_ok_counts`: an undisturbed `Update` of existing distinct stores returns ok, every file's count moves
  by exactly its delta from the FILE's count, the cache entry is that record, no other store is touched.
* what does NOT hold on the unchanged code, each for every cell / record / delta:
  `C20_storeinfo_setErr_stale` (a tolerated `SetStruct` failure after the file was written leaves the OLD entry in
  the cache: the iteration completes, readers get the old count), `C20_storeinfo_failAfter_stale` (a full write that
  took effect and then reported failure: file new, cache old, and `undo` does not cover the failing store),
  `C20_storeinfo_undo_fault_not_restored` (a failing `undo` write leaves file and cache at the NEW count although
  `Update` returned an error: coherent, not restored).  
Registry handles in L2 (`Sop.Model.RegistryGet`: `fs.registryOnDisk.Get` over several ids as separate steps — L2
lookup per id, file read per missed id, `SetStruct` per handle read from the file — interleaved with a registry
updater (`Update` / `UpdateNoLocks`: file first, then L2, step per write), evictions at any moment, any number of
concurrent Gets) — section "registry Get" at the end:
* `C20_regget_untainted_coherent`: after EVERY interleaving, for every id whose file record was never rewritten
  between some Get's file read of that id and that Get's return (`taint i = false`), the L2 entry is absent, equal
  to the file, or an updater stands between its file write and its `SetStruct` of that id.  Updates of ids a Get had
  as L2 HITS are not restricted in any way: a Get never writes back what it did not read from the file
  (`C20_regget_writes_only_fetched`, `C20_regget_set_is_fetched`).  `C20_regget_served_fresh`: with no updater in
  flight a warm process is handed the file's handle.
* what does NOT hold on the unchanged code: `C20_regget_miss_window` — an update landing between a Get's file read
  of a MISSED id and its write-back leaves the pre-update handle in L2 with nothing in flight (finding C20-F4,
  replayed on the real code); hence `C20_regget_counterexample : ¬ Statement_C20_regget`.
* `C20_regget_wball_stale`: the variant that writes back everything it returns (hits included) installs a stale
  handle on a history on which nothing is tainted, where the unchanged code ends fresh (`C20_regget_same_history_fresh`).
-/
namespace Sop.C20
open Sop.Cache

/-! ## specification -/

def specOuts (cur : Nat) : List Op → List Out
  | [] => []
  | .read _ _ :: rest => .read (some cur) true :: specOuts cur rest
  | .write _ c :: rest => .write true :: specOuts c rest
  | _ :: rest => .done :: specOuts cur rest

def Statement_C20 : Prop := ∀ (c0 : Nat) (ops : List Op), (runFrom (init c0) ops).2 = specOuts c0 ops

/-! ## counterexample: two processes -/

def witness : List Op :=
  [.write 0 101, .read 0 .forReading, .write 1 102, .read 1 .forReading,
   .read 0 .noCheck, .read 0 .forReading, .read 0 .forReading, .write 0 103,
   .dropHandles 0, .read 0 .forReading, .write 0 104]

theorem C20_counterexample_outputs :
    (runFrom (init 100) witness).2 =
      [.write true, .read (some 101) true, .write true, .read (some 102) true,
       .read (some 101) true,      -- NoCheck: the OLD content, clean commit
       .read (some 101) false,     -- ForReading: the old content, "detected a newer version"
       .read (some 101) false,     -- … and again
       .write false,               -- its writers cannot commit either
       .done, .read (some 102) true, .write true] := by decide

theorem C20_counterexample : ¬ Statement_C20 := by
  intro h
  have := h 100 witness
  rw [C20_counterexample_outputs] at this
  exact absurd this (by decide)

/-! ## list lemmas -/

theorem findEntry_mem {l : List Entry} {a v c : Nat} (h : findEntry l a v = some c) : (a, v, c) ∈ l := by
  unfold findEntry at h
  cases hf : l.find? (fun e => e.1 == a && e.2.1 == v) with
  | none => simp [hf] at h
  | some e =>
    simp only [hf, Option.map_some, Option.some.injEq] at h
    have hm := List.mem_of_find?_eq_some hf
    have hp := List.find?_some hf
    simp only [Bool.and_eq_true, beq_iff_eq] at hp
    obtain ⟨e1, e2, e3⟩ := e
    simp only at hp h
    rw [← hp.1, ← hp.2, ← h]; exact hm

theorem findPhys_mem {l : List Entry} {a v c : Nat} (h : findPhys l a = some (v, c)) : (a, v, c) ∈ l := by
  unfold findPhys at h
  cases hf : l.find? (fun e => e.1 == a) with
  | none => simp [hf] at h
  | some e =>
    simp only [hf, Option.map_some, Option.some.injEq] at h
    have hm := List.mem_of_find?_eq_some hf
    have hp := List.find?_some hf
    simp only [beq_iff_eq] at hp
    obtain ⟨e1, e2, e3⟩ := e
    simp only at hp h
    cases h; rw [← hp]; exact hm

theorem lookupBlob_mem {l : List (Nat × Nat)} {a c : Nat} (h : lookupBlob l a = some c) : (a, c) ∈ l := by
  unfold lookupBlob at h
  cases hf : l.find? (fun e => e.1 == a) with
  | none => simp [hf] at h
  | some e =>
    simp only [hf, Option.map_some, Option.some.injEq] at h
    have hm := List.mem_of_find?_eq_some hf
    have hp := List.find?_some hf
    simp only [beq_iff_eq] at hp
    obtain ⟨e1, e2⟩ := e
    simp only at hp h
    rw [← hp, ← h]; exact hm

theorem mem_putEntry {l : List Entry} {a v c : Nat} {e : Entry} (h : e ∈ putEntry l a v c) : e = (a, v, c) ∨ e ∈ l := by
  unfold putEntry at h
  rcases List.mem_cons.1 h with h | h
  · exact Or.inl h
  · exact Or.inr (List.mem_filter.1 h).1

theorem lookupBlob_cons_ne {l : List (Nat × Nat)} {n c a : Nat} (h : a ≠ n) :
    lookupBlob ((n, c) :: l) a = lookupBlob l a := by
  unfold lookupBlob
  have : ((n, c).1 == a) = false := by simpa using (Ne.symm h)
  simp [List.find?, this]

theorem lookupBlob_cons_eq {l : List (Nat × Nat)} {n c : Nat} : lookupBlob ((n, c) :: l) n = some c := by
  simp [lookupBlob, List.find?]

/-! ## the invariant: blob immutability and cache-entry soundness -/

def EntriesOk (hist : List (Nat × Nat)) (l : List Entry) : Prop := ∀ e ∈ l, lookupBlob hist e.1 = some e.2.2

structure Inv (s : St) : Prop where
  mru0 : EntriesOk s.hist s.p0.mru
  mru1 : EntriesOk s.hist s.p1.mru
  l2n : EntriesOk s.hist s.l2n
  blobs : ∀ b ∈ s.blobs, lookupBlob s.hist b.1 = some b.2
  fresh : ∀ e ∈ s.hist, e.1 < s.next
  l2h : s.l2h = none ∨ s.l2h = some s.disk
  present : ∃ c, lookupBlob s.blobs s.disk.active = some c

theorem inv_init (c0 : Nat) : Inv (init c0) := by
  refine ⟨?_, ?_, ?_, ?_, ?_, Or.inl rfl, ⟨c0, by simp [init, lookupBlob]⟩⟩
  · intro e he; simp [init] at he
  · intro e he; simp [init] at he
  · intro e he; simp [init] at he
  · intro b hb; simp [init] at hb; subst hb; simp [init, lookupBlob]
  · intro e he; simp [init] at he; subst he; simp [init]

theorem entriesOk_put {hist : List (Nat × Nat)} {l : List Entry} {a v c : Nat} (h : EntriesOk hist l)
    (hc : lookupBlob hist a = some c) : EntriesOk hist (putEntry l a v c) := by
  intro e he
  rcases mem_putEntry he with rfl | he
  · exact hc
  · exact h e he

theorem mruOk (s : St) (hi : Inv s) (p : Nat) : EntriesOk s.hist (s.proc p).mru := by
  unfold St.proc; split
  · exact hi.mru0
  · exact hi.mru1

/-- what is unchanged by a read path -/
structure Same (s s' : St) : Prop where
  disk : s'.disk = s.disk
  hist : s'.hist = s.hist
  blobs : s'.blobs = s.blobs
  next : s'.next = s.next
  h0 : s'.p0.l1h = s.p0.l1h
  h1 : s'.p1.l1h = s.p1.l1h

theorem Same.refl (s : St) : Same s s := ⟨rfl, rfl, rfl, rfl, rfl, rfl⟩
theorem Same.trans {a b c : St} (h1 : Same a b) (h2 : Same b c) : Same a c :=
  ⟨h2.disk.trans h1.disk, h2.hist.trans h1.hist, h2.blobs.trans h1.blobs, h2.next.trans h1.next, h2.h0.trans h1.h0, h2.h1.trans h1.h1⟩

theorem registryGet_spec (s : St) (hi : Inv s) :
    Inv s.registryGet.1 ∧ Same s s.registryGet.1 ∧ s.registryGet.2 = s.disk ∧
    s.registryGet.1.p0 = s.p0 ∧ s.registryGet.1.p1 = s.p1 ∧ s.registryGet.1.l2n = s.l2n := by
  unfold St.registryGet
  cases hl : s.l2h with
  | none =>
    exact ⟨⟨hi.mru0, hi.mru1, hi.l2n, hi.blobs, hi.fresh, Or.inr rfl, hi.present⟩, ⟨rfl, rfl, rfl, rfl, rfl, rfl⟩, rfl, rfl, rfl, rfl⟩
  | some h =>
    rcases hi.l2h with h' | h'
    · rw [hl] at h'; cases h'
    · rw [hl] at h'; cases h'
      exact ⟨hi, Same.refl s, rfl, rfl, rfl, rfl⟩

theorem inv_setMru (s : St) (hi : Inv s) (p : Nat) (m : List Entry) (hm : EntriesOk s.hist m) :
    Inv (s.setProc p { s.proc p with mru := m }) ∧ Same s (s.setProc p { s.proc p with mru := m }) ∧
    (s.setProc p { s.proc p with mru := m }).l2n = s.l2n ∧ (s.setProc p { s.proc p with mru := m }).l2h = s.l2h := by
  unfold St.setProc St.proc
  split
  · exact ⟨⟨hm, hi.mru1, hi.l2n, hi.blobs, hi.fresh, hi.l2h, hi.present⟩, ⟨rfl, rfl, rfl, rfl, rfl, rfl⟩, rfl, rfl⟩
  · exact ⟨⟨hi.mru0, hm, hi.l2n, hi.blobs, hi.fresh, hi.l2h, hi.present⟩, ⟨rfl, rfl, rfl, rfl, rfl, rfl⟩, rfl, rfl⟩

/-- the registry path returns the current content under the registry file's version -/
theorem getReg_spec (s : St) (hi : Inv s) (p : Nat) :
    Inv (s.getReg p).1 ∧ Same s (s.getReg p).1 ∧
    ∃ c, lookupBlob s.hist s.disk.active = some c ∧ (s.getReg p).2 = some (c, s.disk.ver) := by
  obtain ⟨i1, sm1, hh, hp0, hp1, hl2n⟩ := registryGet_spec s hi
  unfold St.getReg
  generalize s.registryGet = rg at *
  obtain ⟨s1, h⟩ := rg
  simp only at i1 sm1 hh hp0 hp1 hl2n ⊢
  subst hh
  have hdisk := sm1.disk
  have hhist := sm1.hist
  cases hf : findEntry (s1.proc p).mru s.disk.active s.disk.ver with
  | some c =>
    simp only
    have hm := findEntry_mem hf
    have := mruOk s1 i1 p _ hm
    simp only at this
    exact ⟨i1, sm1, c, by rw [← hhist]; exact this, rfl⟩
  | none =>
    simp only
    cases hg : findPhys s1.l2n s.disk.active with
    | some jc =>
      obtain ⟨jv, c⟩ := jc
      simp only
      have hm := findPhys_mem hg
      have hc := i1.l2n _ hm
      simp only at hc
      obtain ⟨i2, sm2, _, _⟩ := inv_setMru s1 i1 p (putEntry (s1.proc p).mru s.disk.active jv c) (entriesOk_put (mruOk s1 i1 p) hc)
      exact ⟨i2, sm1.trans sm2, c, by rw [← hhist]; exact hc, rfl⟩
    | none =>
      simp only
      obtain ⟨c, hc⟩ := i1.present
      rw [hdisk] at hc
      simp only [hc]
      have hb := i1.blobs _ (lookupBlob_mem hc)
      simp only at hb
      obtain ⟨i2, sm2, hl2, hl2h⟩ := inv_setMru s1 i1 p (putEntry (s1.proc p).mru s.disk.active s.disk.ver c) (entriesOk_put (mruOk s1 i1 p) hb)
      refine ⟨?_, ?_, c, by rw [← hhist]; exact hb, rfl⟩
      · generalize s1.setProc p { s1.proc p with mru := putEntry (s1.proc p).mru s.disk.active s.disk.ver c } = s2 at *
        exact ⟨by rw [show ({ s2 with l2n := putEntry s2.l2n s.disk.active s.disk.ver c } : St).hist = s2.hist from rfl]; exact i2.mru0,
               i2.mru1, entriesOk_put i2.l2n (by rw [sm2.hist]; exact hb), i2.blobs, i2.fresh, i2.l2h, i2.present⟩
      · generalize s1.setProc p { s1.proc p with mru := putEntry (s1.proc p).mru s.disk.active s.disk.ver c } = s2 at *
        exact (sm1.trans sm2).trans ⟨rfl, rfl, rfl, rfl, rfl, rfl⟩

/-- `get` with a handle entry that is absent or current returns the current content -/
theorem get_spec (s : St) (hi : Inv s) (p : Nat) (hl : (s.proc p).l1h = none ∨ (s.proc p).l1h = some s.disk) :
    Inv (s.get p).1 ∧ Same s (s.get p).1 ∧
    ∃ c, lookupBlob s.hist s.disk.active = some c ∧ (s.get p).2 = some (c, s.disk.ver) := by
  unfold St.get
  rcases hl with hl | hl
  · simp only [hl]; exact getReg_spec s hi p
  · simp only [hl]
    cases hf : findEntry (s.proc p).mru s.disk.active s.disk.ver with
    | some c =>
      simp only
      have := mruOk s hi p _ (findEntry_mem hf)
      exact ⟨hi, Same.refl s, c, this, rfl⟩
    | none => simp only; exact getReg_spec s hi p

theorem currentVer_spec (s : St) (hi : Inv s) :
    Inv s.currentVer.1 ∧ Same s s.currentVer.1 ∧ s.currentVer.2 = s.disk.ver := by
  obtain ⟨i1, sm1, hh, _, _, _⟩ := registryGet_spec s hi
  unfold St.currentVer
  generalize s.registryGet = rg at *
  obtain ⟨s1, h⟩ := rg
  simp only at i1 sm1 hh ⊢
  exact ⟨i1, sm1, by rw [hh]⟩

/-- **Freshness of a read.**  In a state satisfying the invariant, a read by a process whose L1 Handles entry is
absent or current returns the current content and commits, in every mode. -/
theorem C20_fresh (s : St) (hi : Inv s) (p : Nat) (m : Mode)
    (hl : (s.proc p).l1h = none ∨ (s.proc p).l1h = some s.disk) :
    Inv (s.read p m).1 ∧ Same s (s.read p m).1 ∧ (s.read p m).2 = (s.current, true) := by
  obtain ⟨i1, sm1, c, hc, hr⟩ := get_spec s hi p hl
  unfold St.read
  generalize s.get p = g at *
  obtain ⟨s1, r⟩ := g
  simp only at i1 sm1 hr ⊢
  subst hr
  simp only
  have hcur : s.current = some c := hc
  by_cases hm : m = .noCheck
  · simp only [hm, ↓reduceIte]; exact ⟨i1, sm1, by rw [hcur]⟩
  · simp only [hm, ↓reduceIte]
    obtain ⟨i2, sm2, hv⟩ := currentVer_spec s1 i1
    generalize s1.currentVer = cv at *
    obtain ⟨s2, v⟩ := cv
    simp only at i2 sm2 hv ⊢
    rw [hv, sm1.disk]
    simp only [↓reduceIte]
    exact ⟨i2, sm1.trans sm2, by rw [hcur]⟩

/-! ## every operation keeps the invariant -/

theorem get_inv (s : St) (hi : Inv s) (p : Nat) : Inv (s.get p).1 ∧ Same s (s.get p).1 := by
  unfold St.get
  cases hl : (s.proc p).l1h with
  | none => simp only; exact ⟨(getReg_spec s hi p).1, (getReg_spec s hi p).2.1⟩
  | some h =>
    simp only
    cases hf : findEntry (s.proc p).mru h.active h.ver with
    | some c => exact ⟨hi, Same.refl s⟩
    | none => exact ⟨(getReg_spec s hi p).1, (getReg_spec s hi p).2.1⟩

theorem lookup_old {hist : List (Nat × Nat)} {n c' a x : Nat} (hf : ∀ e ∈ hist, e.1 < n)
    (h : lookupBlob hist a = some x) : lookupBlob ((n, c') :: hist) a = some x := by
  have := hf _ (lookupBlob_mem h)
  simp only at this
  rw [lookupBlob_cons_ne (by omega)]; exact h

theorem entriesOk_old {hist : List (Nat × Nat)} {n c' : Nat} {l : List Entry} (hf : ∀ e ∈ hist, e.1 < n)
    (h : EntriesOk hist l) : EntriesOk ((n, c') :: hist) l := fun e he => lookup_old hf (h e he)

theorem entriesOk_filter {hist : List (Nat × Nat)} {l : List Entry} (f : Entry → Bool) (h : EntriesOk hist l) :
    EntriesOk hist (l.filter f) := fun e he => h e (List.mem_filter.1 he).1

/-- the state a successful commit installs satisfies the invariant; the writer's Handles entry is the new
registry handle, the other process's is untouched -/
theorem install_spec (s : St) (hi : Inv s) (p : Nat) (rv c' : Nat) :
    Inv (s.install p s.disk rv c') ∧ (s.install p s.disk rv c').current = some c' ∧
    ((s.install p s.disk rv c').proc p).l1h = some (s.install p s.disk rv c').disk ∧
    (p = 0 → (s.install p s.disk rv c').p1.l1h = s.p1.l1h) ∧ (p ≠ 0 → (s.install p s.disk rv c').p0.l1h = s.p0.l1h) := by
  have hnew : ∀ l : List Entry, EntriesOk s.hist l → ∀ v, EntriesOk ((s.next, c') :: s.hist)
      (putEntry (l.filter (fun e => e.1 != s.disk.active)) s.next v c') := by
    intro l hl v
    exact entriesOk_put (entriesOk_old hi.fresh (entriesOk_filter _ hl)) lookupBlob_cons_eq
  have hblobs : ∀ b ∈ (s.next, c') :: s.blobs.filter (fun e => e.1 != s.disk.active),
      lookupBlob ((s.next, c') :: s.hist) b.1 = some b.2 := by
    intro b hb
    rcases List.mem_cons.1 hb with rfl | hb
    · exact lookupBlob_cons_eq
    · exact lookup_old hi.fresh (hi.blobs b (List.mem_filter.1 hb).1)
  have hfresh : ∀ e ∈ (s.next, c') :: s.hist, e.1 < s.next + 1 := by
    intro e he
    rcases List.mem_cons.1 he with rfl | he
    · simp
    · have := hi.fresh e he; omega
  by_cases hp : p = 0
  · subst hp
    refine ⟨⟨?_, ?_, ?_, ?_, ?_, Or.inr rfl, ⟨c', ?_⟩⟩, ?_, ?_, fun _ => rfl, fun h => absurd rfl h⟩
    · exact hnew _ hi.mru0 _
    · exact entriesOk_old hi.fresh hi.mru1
    · exact hnew _ hi.l2n _
    · exact hblobs
    · exact hfresh
    · exact lookupBlob_cons_eq
    · exact lookupBlob_cons_eq
    · rfl
  · have hp1 : (if p = 0 then True else False) = False := by simp [hp]
    refine ⟨⟨?_, ?_, ?_, ?_, ?_, Or.inr ?_, ⟨c', ?_⟩⟩, ?_, ?_, fun h => absurd h hp, fun _ => ?_⟩
    all_goals simp only [St.install, St.setProc, St.proc, hp, ↓reduceIte, St.current]
    · exact entriesOk_old hi.fresh hi.mru0
    · exact hnew _ hi.mru1 _
    · exact hnew _ hi.l2n _
    · exact hblobs
    · exact hfresh
    · exact lookupBlob_cons_eq
    · exact lookupBlob_cons_eq

theorem write_inv (s : St) (hi : Inv s) (p c' : Nat) : Inv (s.write p c').1 := by
  obtain ⟨i1, sm1⟩ := get_inv s hi p
  unfold St.write
  generalize s.get p = g at *
  obtain ⟨s1, r⟩ := g
  simp only at i1 sm1 ⊢
  cases r with
  | none => exact i1
  | some cr =>
    obtain ⟨c, rv⟩ := cr
    simp only
    obtain ⟨i2, sm2, hh, _, _, _⟩ := registryGet_spec s1 i1
    generalize s1.registryGet = rg at *
    obtain ⟨s2, h⟩ := rg
    simp only at i2 sm2 hh ⊢
    split
    · exact (getReg_spec s2 i2 p).1
    · rw [hh, ← sm2.disk]; exact (install_spec s2 i2 p rv c').1

theorem read_inv (s : St) (hi : Inv s) (p : Nat) (m : Mode) : Inv (s.read p m).1 := by
  obtain ⟨i1, sm1⟩ := get_inv s hi p
  unfold St.read
  generalize s.get p = g at *
  obtain ⟨s1, r⟩ := g
  simp only at i1 sm1 ⊢
  cases r with
  | none => exact i1
  | some cr =>
    obtain ⟨c, rv⟩ := cr
    simp only
    split
    · exact i1
    · obtain ⟨i2, _, _⟩ := currentVer_spec s1 i1
      generalize s1.currentVer = cv at *
      obtain ⟨s2, v⟩ := cv
      simp only at i2 ⊢
      split
      · exact i2
      · exact (getReg_spec s2 i2 p).1

/-- **Blob immutability and cache soundness are invariant**: after any operation — reads in any mode, writes by
either process, MRU / Handles evictions, L2 flushes — every cached node entry still holds exactly what was written
under its physical id, the L2 handle entry is absent or current, and the active blob exists. -/
theorem inv_apply (s : St) (hi : Inv s) (op : Op) : Inv (s.apply op).1 := by
  cases op with
  | read p m => simp only [St.apply]; exact read_inv s hi p m
  | write p c => simp only [St.apply]; exact write_inv s hi p c
  | dropMru p => simp only [St.apply]; exact (inv_setMru s hi p [] (by intro e he; cases he)).1
  | dropHandles p =>
    simp only [St.apply, St.setProc, St.proc]
    split
    · exact ⟨hi.mru0, hi.mru1, hi.l2n, hi.blobs, hi.fresh, hi.l2h, hi.present⟩
    · exact ⟨hi.mru0, hi.mru1, hi.l2n, hi.blobs, hi.fresh, hi.l2h, hi.present⟩
  | flushL2 =>
    simp only [St.apply]
    exact ⟨hi.mru0, hi.mru1, (by intro e he; cases he), hi.blobs, hi.fresh, Or.inl rfl, hi.present⟩

theorem inv_run (ops : List Op) : ∀ s, Inv s → Inv (runFrom s ops).1 := by
  induction ops with
  | nil => intro s h; exact h
  | cons op rest ih => intro s h; simp only [runFrom]; exact ih _ (inv_apply s h op)

/-! ## single-writer histories are fresh -/

def onlyP0Writes : List Op → Bool
  | [] => true
  | .write p _ :: rest => (p == 0) && onlyP0Writes rest
  | _ :: rest => onlyP0Writes rest

/-- handles of both processes are absent or current -/
def HandlesCurrent (s : St) : Prop :=
  (s.p0.l1h = none ∨ s.p0.l1h = some s.disk) ∧ s.p1.l1h = none

theorem handlesCurrent_proc (s : St) (h : HandlesCurrent s) (p : Nat) :
    (s.proc p).l1h = none ∨ (s.proc p).l1h = some s.disk := by
  unfold St.proc; split
  · exact h.1
  · exact Or.inl h.2

theorem same_handles {s s' : St} (sm : Same s s') (h : HandlesCurrent s) : HandlesCurrent s' := by
  unfold HandlesCurrent
  rw [sm.h0, sm.h1, sm.disk]; exact h

theorem same_current {s s' : St} (sm : Same s s') : s'.current = s.current := by
  unfold St.current; rw [sm.hist, sm.disk]

/-- **C20 for single-writer histories.**  For every history in which only process 0 writes — process 1 may read
in any mode at any time, any L1 cache of either process may be evicted and L2 flushed at any point — every
answer equals the specification: reads return the last committed content and commit, writes commit. -/
theorem C20_fresh_single_writer (ops : List Op) : ∀ (s : St) (cur : Nat), Inv s → HandlesCurrent s →
    s.current = some cur → onlyP0Writes ops = true → (runFrom s ops).2 = specOuts cur ops := by
  induction ops with
  | nil => intros; rfl
  | cons op rest ih =>
    intro s cur hi hh hc hw
    cases op with
    | read p m =>
      obtain ⟨i1, sm1, hr⟩ := C20_fresh s hi p m (handlesCurrent_proc s hh p)
      simp only [runFrom, St.apply, specOuts]
      generalize s.read p m = rd at *
      obtain ⟨s1, c, ok⟩ := rd
      simp only at i1 sm1 hr ⊢
      cases hr
      rw [ih s1 cur i1 (same_handles sm1 hh) (by rw [same_current sm1]; exact hc) (by simpa [onlyP0Writes] using hw), hc]
    | write p c =>
      have hp : p = 0 := by simp only [onlyP0Writes, Bool.and_eq_true, beq_iff_eq] at hw; exact hw.1
      have hrest : onlyP0Writes rest = true := by simp only [onlyP0Writes, Bool.and_eq_true] at hw; exact hw.2
      subst hp
      obtain ⟨i1, sm1, c0, hc0, hr⟩ := get_spec s hi 0 (handlesCurrent_proc s hh 0)
      simp only [runFrom, St.apply, specOuts, St.write]
      generalize s.get 0 = g at *
      obtain ⟨s1, r⟩ := g
      simp only at i1 sm1 hr ⊢
      subst hr
      simp only
      obtain ⟨i2, sm2, hh2, _, _, _⟩ := registryGet_spec s1 i1
      generalize s1.registryGet = rg at *
      obtain ⟨s2, h⟩ := rg
      simp only at i2 sm2 hh2 ⊢
      have hv : s.disk.ver = h.ver := by rw [hh2, sm1.disk]
      simp only [hv, ne_eq, not_true_eq_false, ↓reduceIte]
      have hd : h = s2.disk := by rw [hh2, sm2.disk]
      subst hd
      obtain ⟨i3, hcur3, hl3, hp1, _⟩ := install_spec s2 i2 0 s2.disk.ver c
      have hh3 : HandlesCurrent (s2.install 0 s2.disk s2.disk.ver c) := by
        refine ⟨Or.inr ?_, ?_⟩
        · simpa [St.proc] using hl3
        · rw [hp1 rfl, sm2.h1, sm1.h1]; exact hh.2
      rw [ih _ c i3 hh3 hcur3 hrest]
    | dropMru p =>
      simp only [runFrom, St.apply, specOuts]
      obtain ⟨i1, sm1, _, _⟩ := inv_setMru s hi p [] (by intro e he; cases he)
      rw [ih _ cur i1 (same_handles sm1 hh) (by rw [same_current sm1]; exact hc) (by simpa [onlyP0Writes] using hw)]
    | dropHandles p =>
      simp only [runFrom, St.apply, specOuts]
      have i1 := inv_apply s hi (.dropHandles p)
      simp only [St.apply] at i1
      have hh1 : HandlesCurrent (s.setProc p { s.proc p with l1h := none }) := by
        unfold HandlesCurrent St.setProc St.proc
        split
        · exact ⟨Or.inl rfl, hh.2⟩
        · exact ⟨hh.1, rfl⟩
      have hc1 : (s.setProc p { s.proc p with l1h := none }).current = some cur := by
        unfold St.setProc St.current; split <;> exact hc
      rw [ih _ cur i1 hh1 hc1 (by simpa [onlyP0Writes] using hw)]
    | flushL2 =>
      simp only [runFrom, St.apply, specOuts]
      have i1 := inv_apply s hi .flushL2
      simp only [St.apply] at i1
      rw [ih _ cur i1 hh hc (by simpa [onlyP0Writes] using hw)]

/-- the theorem applied to the initial state -/
theorem C20_single_writer_from_init (c0 : Nat) (ops : List Op) (h : onlyP0Writes ops = true) :
    (runFrom (init c0) ops).2 = specOuts c0 ops :=
  C20_fresh_single_writer ops (init c0) c0 (inv_init c0) ⟨Or.inl rfl, rfl⟩ (by simp [St.current, init, lookupBlob]) h

/-- non-vacuity: a history with writes, reads by both processes in all modes, evictions and a flush -/
def sampleSingle : List Op :=
  [.write 0 101, .read 1 .forReading, .read 0 .noCheck, .dropMru 0, .write 0 102, .flushL2, .read 1 .forWriting,
   .dropHandles 0, .read 0 .forReading, .write 0 103, .read 1 .noCheck]

example : onlyP0Writes sampleSingle = true ∧
    specOuts 100 sampleSingle = [.write true, .read (some 101) true, .read (some 101) true, .done, .write true, .done,
      .read (some 102) true, .done, .read (some 102) true, .write true, .read (some 103) true] := by decide

/-! ## store-info cache -/
section StoreInfo
open Sop.SICache

/-- After `Update` — whatever it returned — every store's cache entry is absent or equals its file, for every list
of stores and every combination of before-effect faults / concurrent removals / evictions in both passes. -/
theorem C20_storeinfo_coherent (M : String → Nat) (s : SICache.St) (l : List Upd) (h : SICache.Inv M s)
    (hl : ∀ u ∈ l, u.info = M u.name ∧ u.fwd.clean = true ∧ u.und.clean = true) :
    SICache.Inv M (update s l).1 :=
  loop_inv (sortByName l) s [] h (by simp) (fun u hu => hl u (mem_sortByName.1 hu))

/-- … hence a cache-first reader (`Get` / `GetWithTTL` / `OpenBtree`, any process sharing the L2 cache) is answered
with exactly what `storeinfo.txt` holds. -/
theorem C20_storeinfo_read_fresh (M : String → Nat) (s : SICache.St) (l : List Upd) (h : SICache.Inv M s)
    (hl : ∀ u ∈ l, u.info = M u.name ∧ u.fwd.clean = true ∧ u.und.clean = true) (n : String) :
    ((update s l).1.read n).2 = ((update s l).1 n).disk := by
  have hi := C20_storeinfo_coherent M s l h hl n
  generalize (update s l).1 = t at hi ⊢
  obtain ⟨hc, _⟩ := hi
  unfold SICache.St.read Cell.get
  cases hcache : (t n).cache with
  | some r =>
    rcases hc with hc | hc
    · rw [hcache] at hc; cases hc
    · simp only [← hc, hcache]
  | none =>
    cases hd : (t n).disk with
    | none => simp
    | some d => simp

/-- When `Update` fails (error or `(nil, nil)`), every file — except that of a store removed concurrently — holds
what it held before the call. -/
theorem C20_storeinfo_error_restores (M : String → Nat) (s : SICache.St) (l : List Upd) (h : SICache.Inv M s)
    (hnd : (l.map (·.name)).Nodup)
    (hl : ∀ u ∈ l, u.info = M u.name ∧ u.fwd.clean = true ∧ u.und.quiet = true)
    (hne : (update s l).2 ≠ .ok) (n : String) (hn : ∀ u ∈ l, u.fwd.gone = true → u.name ≠ n) :
    ((update s l).1 n).disk = (s n).disk :=
  loop_restore (M := M) (fun n => (s n).disk) (sortByName l) s [] h
    (by simpa using nodup_sortByName hnd) (by simp) (by simp)
    (fun u hu => hl u (mem_sortByName.1 hu)) hne n (fun u hu => hn u (mem_sortByName.1 hu))

/-- The success half: an undisturbed `Update` of existing, distinct stores returns ok, moves every file's count by
its delta (the base is the FILE's count: the coherent cache cannot have offered another one), stamps the new
timestamp, refreshes the cache entry with exactly that record and touches no other store. -/
theorem C20_storeinfo_ok_counts (M : String → Nat) (s : SICache.St) (l : List Upd) (h : SICache.Inv M s)
    (hnd : (l.map (·.name)).Nodup)
    (hl : ∀ u ∈ l, u.info = M u.name ∧ u.fwd.quiet = true ∧ ∃ d, (s u.name).disk = some d) :
    (update s l).2 = .ok ∧
    (∀ u ∈ l, ∀ d, (s u.name).disk = some d →
      (update s l).1 u.name = ⟨some ⟨d.count + u.delta, u.ts, M u.name⟩, some ⟨d.count + u.delta, u.ts, M u.name⟩⟩) ∧
    (∀ n, n ∉ l.map (·.name) → (update s l).1 n = s n) := by
  have := loop_ok (M := M) (sortByName l) s [] h (nodup_sortByName hnd) (fun u hu => hl u (mem_sortByName.1 hu))
  refine ⟨this.1, fun u hu => this.2.1 u (mem_sortByName.2 hu), fun n hn => this.2.2 n ?_⟩
  intro hm
  exact hn (((sortByName_perm l).map _).mem_iff.1 hm)

/-- non-vacuity of the theorems: a coherent state with three stores (one cached, one not), an update of all
three given in reverse name order in which store "b" is removed concurrently: `Update` returns `(nil, nil)`, "a" is
undone on disk and in the cache. -/
def siState : SICache.St := fun n =>
  if n = "a" then ⟨some ⟨5, 1, 7⟩, some ⟨5, 1, 7⟩⟩ else if n = "b" then ⟨some ⟨3, 1, 8⟩, none⟩
  else if n = "c" then ⟨some ⟨0, 1, 9⟩, some ⟨0, 1, 9⟩⟩ else {}
def siInfo : String → Nat := fun n => if n = "a" then 7 else if n = "b" then 8 else 9
def siList : List Upd :=
  [{ name := "c", delta := 4, ts := 2, info := 9 }, { name := "b", delta := 2, ts := 2, info := 8, fwd := { gone := true } },
   { name := "a", delta := -1, ts := 2, info := 7, und := { evict := true, fastWrite := .before } }]

theorem siState_inv : SICache.Inv siInfo siState := by
  intro n
  unfold siState siInfo Cell.Inv Cell.Coh
  split
  · simp
  · split
    · simp
    · split <;> simp

example : (∀ u ∈ siList, u.info = siInfo u.name ∧ u.fwd.clean = true ∧ u.und.quiet = true) ∧
    (siList.map (·.name)).Nodup ∧ (update siState siList).2 = .okNil ∧
    (update siState siList).1 "a" = ⟨some ⟨5, 1, 7⟩, some ⟨5, 1, 7⟩⟩ ∧
    (update siState siList).1 "b" = {} ∧ (update siState siList).1 "c" = siState "c" := by decide

/-- … and a successful one (the hypotheses of `C20_storeinfo_ok_counts` hold for it): counts move by the deltas, the
cache follows. -/
example : ∀ u ∈ ([{ name := "c", delta := 4, ts := 2, info := 9 }, { name := "a", delta := -1, ts := 3, info := 7 }] : List Upd),
    u.info = siInfo u.name ∧ u.fwd.quiet = true ∧ (siState u.name).disk ≠ none := by decide

example : (update siState [{ name := "c", delta := 4, ts := 2, info := 9 }, { name := "a", delta := -1, ts := 3, info := 7 }]).2 = .ok ∧
    (update siState [{ name := "c", delta := 4, ts := 2, info := 9 }, { name := "a", delta := -1, ts := 3, info := 7 }]).1 "a"
      = ⟨some ⟨4, 3, 7⟩, some ⟨4, 3, 7⟩⟩ := by decide

/-! ### what does not hold on the unchanged code -/

/-- A tolerated `SetStruct` failure: the iteration completes, the file holds the new count, the cache keeps the OLD
record — every cache-first reader is served the old count, and the next `Update` takes its base from it. -/
theorem C20_storeinfo_setErr_stale (r : Rec) (u : Upd) (hf : u.fwd = { setErr := true }) (hs : u.needsSave = false) :
    ((⟨some r, some r⟩ : Cell).fwd u).2 = .done r ∧
    ((⟨some r, some r⟩ : Cell).fwd u).1 = ⟨some ⟨r.count + u.delta, u.ts, r.info⟩, some r⟩ := by
  simp [Cell.fwd, Cell.env, Cell.get, Cell.store, Cell.setCache, hf, hs]

/-- A full write that took effect and then reported failure: `Update` returns the error, `undo` does not cover this
store, the file holds the new record and the cache the old one. -/
theorem C20_storeinfo_failAfter_stale (r : Rec) (u : Upd) (hf : u.fwd = { fastRead := true, fullWrite := .after }) :
    ((⟨some r, some r⟩ : Cell).fwd u).2 = .error ∧
    ((⟨some r, some r⟩ : Cell).fwd u).1 = ⟨some ⟨r.count + u.delta, u.ts, u.info⟩, some r⟩ := by
  simp [Cell.fwd, Cell.env, Cell.get, Cell.store, hf]

/-- `undo` whose own writes fail: file and cache both stay at the new count (coherent) although `Update` reports
failure. -/
theorem C20_storeinfo_undo_fault_not_restored (r o : Rec) (u : Upd)
    (hf : u.und = { fastRead := true, fullWrite := .before }) :
    (⟨some r, some r⟩ : Cell).undo u o = ⟨some r, some r⟩ := by
  simp [Cell.undo, Cell.env, Cell.get, Cell.store, hf]

/-- the three excluded fault kinds are exactly those `Flt.clean` / `Flt.quiet` rule out -/
example : ({ setErr := true } : Flt).clean = false ∧ ({ fastRead := true, fullWrite := .after } : Flt).clean = false ∧
    ({ fastRead := true, fullWrite := .before } : Flt).clean = true ∧
    ({ fastRead := true, fullWrite := .before } : Flt).quiet = false := by decide

end StoreInfo

/-! ## registry Get: L2 handle entries under concurrent Gets and updates -/
section RegistryGet
open Sop.RegGet

/-- Full strength: whenever no updater is in flight, what a warm process is handed equals the file. FALSE on the
unchanged code (`C20_regget_counterexample`). -/
def Statement_C20_regget : Prop :=
  ∀ (n : Nat) (ops : List RegGet.Op) (i : Nat),
    (RegGet.run (RegGet.init false n) ops).upd = none →
    served (RegGet.run (RegGet.init false n) ops) i = (RegGet.run (RegGet.init false n) ops).disk i

/-- The code as it is, every interleaving of Gets (any hit/miss pattern), updates and evictions: an id that was never
rewritten inside the file-read → return window of a Get that MISSED it has an L2 entry that is absent, equal to the
file, or about to be overwritten by the updater that has just written the file. -/
theorem C20_regget_untainted_coherent (n : Nat) (ops : List RegGet.Op) (i : Nat)
    (ht : (RegGet.run (RegGet.init false n) ops).taint i = false) :
    (RegGet.run (RegGet.init false n) ops).l2 i = none ∨
    (RegGet.run (RegGet.init false n) ops).l2 i = some ((RegGet.run (RegGet.init false n) ops).disk i) ∨
    ∃ u, (RegGet.run (RegGet.init false n) ops).upd = some u ∧ i ∈ u.ltodo.map Prod.fst :=
  (RegGet.inv_run (RegGet.inv_init n) ops).coh i ht

/-- … so with no updater in flight (Gets may be, at any stage) a warm process is handed the file's handle. -/
theorem C20_regget_served_fresh (n : Nat) (ops : List RegGet.Op) (i : Nat)
    (hu : (RegGet.run (RegGet.init false n) ops).upd = none)
    (ht : (RegGet.run (RegGet.init false n) ops).taint i = false) :
    served (RegGet.run (RegGet.init false n) ops) i = (RegGet.run (RegGet.init false n) ops).disk i := by
  rcases C20_regget_untainted_coherent n ops i ht with h | h | ⟨u, h, _⟩
  · simp [served, h]
  · simp [served, h]
  · rw [hu] at h; cases h

/-- In every reachable state the write-back queue of every Get holds only pairs it read from the file. -/
theorem C20_regget_writes_only_fetched (n : Nat) (ops : List RegGet.Op) (g : Nat) (x : Nat × Nat)
    (hx : x ∈ ((RegGet.run (RegGet.init false n) ops).gets g).wb) :
    x ∈ ((RegGet.run (RegGet.init false n) ops).gets g).fetched :=
  (RegGet.inv_run (RegGet.inv_init n) ops).wbsub g x hx

/-- A Get step that writes L2 writes a pair this Get read from the file, and that value is the file's unless the id is
tainted. -/
theorem C20_regget_set_is_fetched {s : RegGet.St} (h : RegGet.Inv s) (g i v : Nat)
    (ho : (RegGet.step s (.get g)).2 = .set i v) :
    (i, v) ∈ (s.gets g).fetched ∧ (v = s.disk i ∨ s.taint i = true) := by
  have key : (i, v) ∈ (s.gets g).wb := by
    simp only [RegGet.step, getStep] at ho
    split at ho
    · cases ho
    · split at ho
      · split at ho <;> cases ho
      · split at ho
        · cases ho
        · split at ho
          · rename_i hwb
            simp only [Out.set.injEq] at ho
            rw [hwb, ← ho.1, ← ho.2]; simp
          · cases ho
  have hf := h.wbsub g _ key
  exact ⟨hf, h.fetched g i v hf⟩

/-- the miss window of the unchanged code: Get [0] misses, reads version 0 from the file; the updater writes version 1
to the file and to L2 and is done; the Get writes version 0 back and returns. -/
def missWindow : List RegGet.Op :=
  [.evict 0, .getStart 0 [0], .get 0, .get 0, .updStart false [0], .upd, .upd, .upd, .get 0, .get 0]

theorem C20_regget_miss_window :
    RegGet.outs (RegGet.init false 1) missWindow =
      [.ok, .ok, .miss 0, .disk 0, .ok, .wd 0 1, .wl 0 1, .done, .set 0 0, .ret [(0, 0)]] ∧
    quiescent (RegGet.run (RegGet.init false 1) missWindow) = true ∧
    (RegGet.run (RegGet.init false 1) missWindow).l2 0 = some 0 ∧
    (RegGet.run (RegGet.init false 1) missWindow).disk 0 = 1 ∧
    (RegGet.run (RegGet.init false 1) missWindow).taint 0 = true := by decide +kernel

theorem C20_regget_counterexample : ¬ Statement_C20_regget := by
  intro h
  have := h 1 missWindow 0 (by decide +kernel)
  revert this
  decide +kernel

/-- partial L2 hit: Get [0,1] hits 0, misses 1; the updater commits id 0 (file, L2, done); the Get reads 1 from the
file, writes back, returns. -/
def partialHit : List RegGet.Op :=
  [.evict 1, .getStart 0 [0, 1], .get 0, .get 0, .updStart false [0], .upd, .upd, .upd,
   .get 0, .get 0, .get 0, .get 0]

/-- The write-back-everything variant installs the pre-commit handle of the HIT id; nothing is tainted. -/
theorem C20_regget_wball_stale :
    RegGet.outs (RegGet.init true 2) partialHit =
      [.ok, .ok, .hit 0 0, .miss 1, .ok, .wd 0 1, .wl 0 1, .done, .disk 1, .set 0 0, .set 1 0, .ret [(0, 0), (1, 0)]] ∧
    quiescent (RegGet.run (RegGet.init true 2) partialHit) = true ∧
    (RegGet.run (RegGet.init true 2) partialHit).taint 0 = false ∧
    (RegGet.run (RegGet.init true 2) partialHit).l2 0 = some 0 ∧
    (RegGet.run (RegGet.init true 2) partialHit).disk 0 = 1 := by decide +kernel

/-- The same history on the code as it is: L2 holds the committed handle (also: the hypothesis of
`C20_regget_untainted_coherent` is satisfiable on a history with an update racing a multi-id Get). -/
theorem C20_regget_same_history_fresh :
    RegGet.outs (RegGet.init false 2) partialHit =
      [.ok, .ok, .hit 0 0, .miss 1, .ok, .wd 0 1, .wl 0 1, .done, .disk 1, .set 1 0, .ret [(0, 0), (1, 0)], .idle] ∧
    (RegGet.run (RegGet.init false 2) partialHit).taint 0 = false ∧
    (RegGet.run (RegGet.init false 2) partialHit).taint 1 = false ∧
    (RegGet.run (RegGet.init false 2) partialHit).l2 0 = some 1 ∧
    (RegGet.run (RegGet.init false 2) partialHit).disk 0 = 1 := by decide +kernel

end RegistryGet

end Sop.C20
