import Sop.Model.RegistryMap
import Sop.Lemmas.RegistryRmw
import Sop.Lemmas.RegistrySeg
/-!
# C21 — the on-disk registry behaves as a map from id to handle

`C21_refines_map`: for every hash modulus `≥ 1`, every list of add / update / remove / lookup operations
over arbitrary ids (colliding in block and slot, filling blocks, overflowing into further segment files),
the outputs of the registry model with the **repaired** write probe are the outputs of a finite map, as
long as the registry never reports its hard limit of `maxSeg` (1000) segment files; `C21_refines_map_bounded`
discharges that side condition for up to `maxSeg` operations. `C21_counterexample`: with the write probe
of the unrepaired tree (`legacy = true`) the same statement is false (a removed id reappears).
-/
namespace Sop.C21
open Sop.RegistryMap

variable {V : Type}

/-- the full-strength statement, for a configuration `c` -/
def Statement_C21 (c : Cfg) (V : Type) : Prop :=
  ∀ ops : List (Op V), Out.full ∉ run c St.init ops → run c St.init ops = specRun (fun _ => none) ops

/-! ## cells -/

theorem hpb_eq : hpb = 66 := by decide

theorem cell_write (st : St V) (a a' : Nat) (v : Option (Rec V)) :
    cell (write st a v) a' = if a = a' ∧ a < st.cells.size then v else cell st a' := by
  unfold cell write
  simp only [Array.getElem?_setIfInBounds]
  by_cases h : a = a'
  · subst h
    by_cases h2 : a < st.cells.size
    · simp [h2]
    · simp [h2]
  · simp [h]

theorem cell_ge (st : St V) (a : Nat) (h : st.cells.size ≤ a) : cell st a = none := by
  unfold cell; simp [Array.getElem?_eq_none h]

theorem cell_addSeg (c : Cfg) (st : St V) (a : Nat) : cell (addSeg c st) a = cell st a := by
  unfold cell addSeg
  simp only [Array.getElem?_append]
  by_cases h : a < st.cells.size
  · simp [h]
  · simp only [h, ↓reduceIte, Array.getElem?_replicate, Array.getElem?_eq_none (Nat.not_lt.mp h)]
    split <;> rfl

/-! ## the probe sequence -/

theorem slotOf_lt (id : Id) : slotOf id < hpb := Nat.mod_lt _ (by decide)

theorem mem_slotOrder_lt {s x : Nat} (hs : s < hpb) (hx : x ∈ slotOrder s) : x < hpb := by
  simp only [slotOrder, List.mem_cons, List.mem_filter, List.mem_range] at hx
  rcases hx with rfl | ⟨h, _⟩
  · exact hs
  · exact h

theorem mem_probe {c : Cfg} {id : Id} {n a : Nat} (h : a ∈ probe c id n) :
    ∃ seg, seg < n ∧ ∃ slot, slot < hpb ∧ a = blockBase c seg (blockOf c id) + slot := by
  simp only [probe, List.mem_flatMap, List.mem_range, segProbe, List.mem_map] at h
  obtain ⟨seg, hseg, slot, hslot, rfl⟩ := h
  exact ⟨seg, hseg, slot, mem_slotOrder_lt (slotOf_lt id) hslot, rfl⟩

theorem probe_mono {c : Cfg} {id : Id} {n a : Nat} (h : a ∈ probe c id n) : a ∈ probe c id (n + 1) := by
  unfold probe at *
  rw [List.range_succ, List.flatMap_append]
  exact List.mem_append_left _ h

theorem new_mem_probe (c : Cfg) (id : Id) (n : Nat) :
    blockBase c n (blockOf c id) + slotOf id ∈ probe c id (n + 1) := by
  unfold probe
  rw [List.range_succ, List.flatMap_append]
  apply List.mem_append_right
  simp [segProbe, slotOrder]

theorem probe_lt {c : Cfg} (hmd : 0 < c.md) {id : Id} {n a : Nat} (h : a ∈ probe c id n) :
    a < n * (c.md * hpb) := by
  obtain ⟨seg, hseg, slot, hslot, rfl⟩ := mem_probe h
  have hb : blockOf c id < c.md := Nat.mod_lt _ hmd
  have h1 : (seg + 1) * c.md ≤ n * c.md := Nat.mul_le_mul_right _ hseg
  rw [Nat.succ_mul] at h1
  rw [← Nat.mul_assoc]
  unfold blockBase
  rw [hpb_eq] at *
  generalize seg * c.md = x at *
  generalize n * c.md = y at *
  omega

theorem new_ge (c : Cfg) (id : Id) (n : Nat) : n * (c.md * hpb) ≤ blockBase c n (blockOf c id) + slotOf id := by
  unfold blockBase
  rw [← Nat.mul_assoc, hpb_eq]
  generalize n * c.md = y
  omega

/-! ## one pass over the probe sequence -/

theorem scan_at (st : St V) (id : Id) (fw lg : Bool) :
    ∀ (l : List Nat) (h : Option Nat) (a : Nat) (r : Rec V),
      scan st id fw lg l h = .at a r → a ∈ l ∧ cell st a = some r ∧ r.id = id := by
  intro l
  induction l with
  | nil => intro h a r hs; cases h <;> simp [scan] at hs
  | cons a0 as ih =>
    intro h a r hs
    unfold scan at hs
    cases hc : cell st a0 with
    | none =>
      simp only [hc] at hs
      split at hs
      · split at hs
        · cases hs
        · obtain ⟨h1, h2⟩ := ih _ _ _ hs; exact ⟨List.mem_cons_of_mem _ h1, h2⟩
      · obtain ⟨h1, h2⟩ := ih _ _ _ hs; exact ⟨List.mem_cons_of_mem _ h1, h2⟩
    | some r0 =>
      simp only [hc] at hs
      split at hs
      · rename_i hid
        cases hs
        exact ⟨List.mem_cons_self, hc, hid⟩
      · obtain ⟨h1, h2⟩ := ih _ _ _ hs; exact ⟨List.mem_cons_of_mem _ h1, h2⟩

/-- a pass of the repaired probe that does not end on the id has seen no cell holding the id -/
theorem scan_nomatch (st : St V) (id : Id) (fw : Bool) :
    ∀ (l : List Nat) (h : Option Nat), (∀ a r, scan st id fw false l h ≠ .at a r) →
      ∀ a' ∈ l, ∀ r, cell st a' = some r → r.id ≠ id := by
  intro l
  induction l with
  | nil => intro h _ a' ha'; cases ha'
  | cons a0 as ih =>
    intro h hs a' ha' r hr
    unfold scan at hs
    cases hc : cell st a0 with
    | none =>
      simp only [hc] at hs
      rcases List.mem_cons.mp ha' with rfl | hmem
      · rw [hc] at hr; cases hr
      · cases fw with
        | true => exact ih _ (by simpa using hs) a' hmem r hr
        | false => exact ih _ (by simpa using hs) a' hmem r hr
    | some r0 =>
      simp only [hc] at hs
      by_cases hid : r0.id = id
      · exact absurd (hs a0 r0) (by simp [hid])
      · simp only [hid, ↓reduceIte] at hs
        rcases List.mem_cons.mp ha' with rfl | hmem
        · rw [hc] at hr; cases hr; exact hid
        · exact ih _ hs a' hmem r hr

/-- the hole a repaired writer ends on is the one it was handed, or an empty cell of the sequence -/
theorem scan_hole (st : St V) (id : Id) :
    ∀ (l : List Nat) (h : Option Nat) (a : Nat), scan st id true false l h = .hole a →
      h = some a ∨ (a ∈ l ∧ cell st a = none) := by
  intro l
  induction l with
  | nil => intro h a hs; cases h <;> simp [scan] at hs; exact Or.inl (by rw [hs])
  | cons a0 as ih =>
    intro h a hs
    unfold scan at hs
    cases hc : cell st a0 with
    | none =>
      simp only [hc, ↓reduceIte, Bool.false_eq_true] at hs
      rcases ih _ _ hs with h1 | ⟨h1, h2⟩
      · cases h with
        | none => simp at h1; subst h1; exact Or.inr ⟨List.mem_cons_self, hc⟩
        | some x => simp at h1; subst h1; exact Or.inl rfl
      · exact Or.inr ⟨List.mem_cons_of_mem _ h1, h2⟩
    | some r0 =>
      simp only [hc] at hs
      split at hs
      · cases hs
      · rcases ih _ _ hs with h1 | ⟨h1, h2⟩
        · exact Or.inl h1
        · exact Or.inr ⟨List.mem_cons_of_mem _ h1, h2⟩

/-- a reader never ends on a hole -/
theorem scan_read_hole (st : St V) (id : Id) (lg : Bool) :
    ∀ (l : List Nat) (h : Option Nat) (a : Nat), scan st id false lg l h = .hole a → h = some a := by
  intro l
  induction l with
  | nil => intro h a hs; cases h <;> simp [scan] at hs; rw [hs]
  | cons a0 as ih =>
    intro h a hs
    unfold scan at hs
    cases hc : cell st a0 with
    | none => simp only [hc, Bool.false_eq_true, ↓reduceIte] at hs; exact ih _ _ hs
    | some r0 =>
      simp only [hc] at hs
      split at hs
      · cases hs
      · exact ih _ _ hs

/-! ## the representation invariant and the abstraction relation -/

structure Inv (c : Cfg) (st : St V) : Prop where
  wf : st.cells.size = st.nseg * (c.md * hpb)
  /-- every record sits on the probe sequence of its own id -/
  placed : ∀ a r, cell st a = some r → a ∈ probe c r.id st.nseg
  /-- every id occurs at most once -/
  uniq : ∀ a a' r r', cell st a = some r → cell st a' = some r' → r.id = r'.id → a = a'

/-- the map a registry state stands for -/
def Rel (st : St V) (m : Map V) : Prop :=
  ∀ id r, m id = some r ↔ ∃ a, cell st a = some r ∧ r.id = id

theorem inv_init (c : Cfg) : Inv c (St.init : St V) :=
  ⟨by simp [St.init], by intro a r h; simp [cell, St.init] at h, by intro a a' r r' h; simp [cell, St.init] at h⟩

theorem rel_init : Rel (St.init : St V) (fun _ => none) := by
  intro id r; simp [cell, St.init]

theorem absent_of_nomatch {c : Cfg} {st : St V} {m : Map V} (hi : Inv c st) (hr : Rel st m) (id : Id)
    (h : ∀ a' ∈ probe c id st.nseg, ∀ r, cell st a' = some r → r.id ≠ id) : m id = none := by
  cases hm : m id with
  | none => rfl
  | some r =>
    obtain ⟨a, ha, hid⟩ := (hr id r).mp hm
    have := hi.placed a r ha
    rw [hid] at this
    exact absurd hid (h a this r ha)

theorem get_eq {c : Cfg} (hl : c.legacy = false) {st : St V} {m : Map V} (hi : Inv c st) (hr : Rel st m) (id : Id) :
    get c st id = m id := by
  unfold RegistryMap.get
  rw [hl]
  cases hs : scan st id false false (probe c id st.nseg) none with
  | «at» a r =>
    obtain ⟨_, h2, h3⟩ := scan_at _ _ _ _ _ _ _ _ hs
    exact ((hr id r).mpr ⟨a, h2, h3⟩).symm
  | hole a => exact absurd (scan_read_hole _ _ _ _ _ _ hs) (by simp)
  | none =>
    simp only
    refine (absent_of_nomatch hi hr id ?_).symm
    exact scan_nomatch st id false _ none (by intro a r; rw [hs]; simp)

theorem inv_addSeg {c : Cfg} {st : St V} (hi : Inv c st) : Inv c (addSeg c st) := by
  refine ⟨?_, ?_, ?_⟩
  · simp only [addSeg, Array.size_append, Array.size_replicate, hi.wf, Nat.succ_mul]
  · intro a r h
    rw [cell_addSeg] at h
    exact probe_mono (hi.placed a r h)
  · intro a a' r r' h h'
    rw [cell_addSeg] at h h'
    exact hi.uniq a a' r r' h h'

theorem rel_addSeg {c : Cfg} {st : St V} {m : Map V} (hr : Rel st m) : Rel (addSeg c st) m := by
  intro id r; simp only [cell_addSeg]; exact hr id r

/-- writing `r` into a cell of its probe sequence that is empty or holds the same id, when the id occurs nowhere else -/
theorem write_some {c : Cfg} (hmd : 0 < c.md) {st : St V} {m : Map V} (hi : Inv c st) (hr : Rel st m)
    (a : Nat) (r : Rec V) (hp : a ∈ probe c r.id st.nseg)
    (hocc : ∀ a' r', cell st a' = some r' → r'.id = r.id → a' = a)
    (hfree : ∀ r0, cell st a = some r0 → r0.id = r.id) :
    Inv c (write st a (some r)) ∧ Rel (write st a (some r)) (m.upd r.id (some r)) := by
  have ha : a < st.cells.size := by rw [hi.wf]; exact probe_lt hmd hp
  have cw : ∀ a', cell (write st a (some r)) a' = if a = a' then some r else cell st a' := by
    intro a'; rw [cell_write]; simp [ha]
  refine ⟨⟨?_, ?_, ?_⟩, ?_⟩
  · simpa [write] using hi.wf
  · intro a' r' h
    rw [cw] at h
    show a' ∈ probe c r'.id st.nseg
    split at h
    · rename_i e; cases h; subst e; exact hp
    · exact hi.placed a' r' h
  · intro a1 a2 r1 r2 h1 h2 hid
    rw [cw] at h1 h2
    split at h1 <;> split at h2
    · rename_i e1 e2; rw [← e1, ← e2]
    · rename_i e1 _; cases h1; rw [← e1]; exact (hocc a2 r2 h2 hid.symm).symm
    · rename_i _ e2; cases h2; rw [← e2]; exact hocc a1 r1 h1 hid
    · exact hi.uniq a1 a2 r1 r2 h1 h2 hid
  · intro id r'
    unfold Map.upd
    by_cases hid : id = r.id
    · subst hid
      simp only [↓reduceIte, Option.some.injEq]
      constructor
      · rintro rfl; exact ⟨a, by rw [cw]; simp, rfl⟩
      · rintro ⟨a', h1, h2⟩
        rw [cw] at h1
        split at h1
        · cases h1; rfl
        · rename_i ne; exact absurd (hocc a' r' h1 h2).symm ne
    · simp only [hid, ↓reduceIte]
      rw [hr id r']
      constructor
      · rintro ⟨a', h1, h2⟩
        refine ⟨a', ?_, h2⟩
        rw [cw]
        split
        · rename_i e
          subst e
          exact absurd ((hfree r' h1).symm.trans h2).symm hid
        · exact h1
      · rintro ⟨a', h1, h2⟩
        rw [cw] at h1
        split at h1
        · cases h1; exact absurd h2.symm hid
        · exact ⟨a', h1, h2⟩

/-- zeroing the cell that holds `r0` -/
theorem write_none {c : Cfg} {st : St V} {m : Map V} (hi : Inv c st) (hr : Rel st m)
    (a : Nat) (r0 : Rec V) (hc : cell st a = some r0) :
    Inv c (write st a none) ∧ Rel (write st a none) (m.upd r0.id none) := by
  have ha : a < st.cells.size := by
    apply Nat.lt_of_not_le; intro h; rw [cell_ge st a h] at hc; cases hc
  have cw : ∀ a', cell (write st a none) a' = if a = a' then none else cell st a' := by
    intro a'; rw [cell_write]; simp [ha]
  refine ⟨⟨?_, ?_, ?_⟩, ?_⟩
  · simpa [write] using hi.wf
  · intro a' r' h
    rw [cw] at h
    show a' ∈ probe c r'.id st.nseg
    split at h
    · cases h
    · exact hi.placed a' r' h
  · intro a1 a2 r1 r2 h1 h2 hid
    rw [cw] at h1 h2
    split at h1
    · cases h1
    · split at h2
      · cases h2
      · exact hi.uniq a1 a2 r1 r2 h1 h2 hid
  · intro id r'
    unfold Map.upd
    by_cases hid : id = r0.id
    · subst hid
      simp only [↓reduceIte, reduceCtorEq, false_iff, not_exists, not_and]
      intro a' h1 h2
      rw [cw] at h1
      split at h1
      · cases h1
      · rename_i ne; exact ne (hi.uniq a a' r0 r' hc h1 h2.symm)
    · simp only [hid, ↓reduceIte]
      rw [hr id r']
      constructor
      · rintro ⟨a', h1, h2⟩
        refine ⟨a', ?_, h2⟩
        rw [cw]
        split
        · rename_i e; subst e; rw [hc] at h1; cases h1; exact absurd h2.symm hid
        · exact h1
      · rintro ⟨a', h1, h2⟩
        rw [cw] at h1
        split at h1
        · cases h1
        · exact ⟨a', h1, h2⟩

/-! ## the repaired write probe -/

/-- what `findWrite` promises (repaired probe) -/
def LocOk (c : Cfg) (st : St V) (m : Map V) (id : Id) : Loc V → Prop
  | .found a r => cell st a = some r ∧ r.id = id
  | .hole a => cell st a = none ∧ a ∈ probe c id st.nseg ∧ m id = none
  | .full => True

theorem findWrite_spec {c : Cfg} (hl : c.legacy = false) {st : St V} {m : Map V}
    (hi : Inv c st) (hr : Rel st m) (id : Id) :
    Inv c (findWrite c st id).1 ∧ Rel (findWrite c st id).1 m ∧ LocOk c (findWrite c st id).1 m id (findWrite c st id).2 := by
  unfold findWrite
  rw [hl]
  cases hs : scan st id true false (probe c id st.nseg) none with
  | «at» a r =>
    obtain ⟨_, h2, h3⟩ := scan_at _ _ _ _ _ _ _ _ hs
    exact ⟨hi, hr, h2, h3⟩
  | hole a =>
    have hn := scan_nomatch st id true _ none (by intro a r; rw [hs]; simp)
    rcases scan_hole _ _ _ _ _ hs with h | ⟨h1, h2⟩
    · cases h
    · exact ⟨hi, hr, h2, h1, absent_of_nomatch hi hr id hn⟩
  | none =>
    have hn := scan_nomatch st id true _ none (by intro a r; rw [hs]; simp)
    simp only
    split
    · refine ⟨inv_addSeg hi, rel_addSeg hr, ?_, ?_, absent_of_nomatch hi hr id hn⟩
      · rw [cell_addSeg]; apply cell_ge; rw [hi.wf]; exact new_ge c id st.nseg
      · exact new_mem_probe c id st.nseg
    · exact ⟨hi, hr, trivial⟩

/-! ## simulation -/

theorem step_sim {c : Cfg} (hmd : 0 < c.md) (hl : c.legacy = false) {st : St V} {m : Map V}
    (hi : Inv c st) (hr : Rel st m) (op : Op V) (hf : (step c st op).2 ≠ .full) :
    Inv c (step c st op).1 ∧ Rel (step c st op).1 (specStep m op).1 ∧ (step c st op).2 = (specStep m op).2 := by
  cases op with
  | add r =>
    obtain ⟨hi', hr', hloc⟩ := findWrite_spec hl hi hr r.id
    simp only [step, add, specStep] at hf ⊢
    rcases hfw : findWrite c st r.id with ⟨st', loc⟩
    rw [hfw] at hi' hr' hloc hf
    cases loc with
    | found a r0 =>
      obtain ⟨h1, h2⟩ := hloc
      have : m r.id = some r0 := (hr' r.id r0).mpr ⟨a, h1, h2⟩
      simp [this, hi', hr']
    | hole a =>
      obtain ⟨h1, h2, h3⟩ := hloc
      have := write_some hmd hi' hr' a r h2
        (by intro a' r' hc hid; rw [(hr' r.id r').mpr ⟨a', hc, hid⟩] at h3; cases h3)
        (by intro r0 hc; rw [h1] at hc; cases hc)
      simp [h3, this.1, this.2]
    | full => simp at hf
  | set r =>
    obtain ⟨hi', hr', hloc⟩ := findWrite_spec hl hi hr r.id
    simp only [step, setMany, findAll, List.map_cons, List.map_nil, specStep] at hf ⊢
    rcases hfw : findWrite c st r.id with ⟨st', loc⟩
    rw [hfw] at hi' hr' hloc hf
    cases loc with
    | found a r0 =>
      obtain ⟨h1, h2⟩ := hloc
      have := write_some hmd hi' hr' a r (by rw [← h2]; exact hi'.placed a r0 h1)
        (by intro a' r' hc hid; exact hi'.uniq a' a r' r0 hc h1 (hid.trans h2.symm))
        (by intro r1 hc; rw [h1] at hc; cases hc; exact h2)
      simp [h2, locAddr, this.1, this.2]
    | hole a =>
      obtain ⟨h1, h2, h3⟩ := hloc
      have := write_some hmd hi' hr' a r h2
        (by intro a' r' hc hid; rw [(hr' r.id r').mpr ⟨a', hc, hid⟩] at h3; cases h3)
        (by intro r0 hc; rw [h1] at hc; cases hc)
      simp [locAddr, this.1, this.2]
    | full => simp at hf
  | remove id =>
    obtain ⟨hi', hr', hloc⟩ := findWrite_spec hl hi hr id
    simp only [step, removeMany, findAll, specStep] at hf ⊢
    rcases hfw : findWrite c st id with ⟨st', loc⟩
    rw [hfw] at hi' hr' hloc hf
    cases loc with
    | found a r0 =>
      obtain ⟨h1, h2⟩ := hloc
      have hm : m id = some r0 := (hr' id r0).mpr ⟨a, h1, h2⟩
      have := write_none hi' hr' a r0 h1
      rw [h2] at this
      simp [h2, hm, locAddr, this.1, this.2]
    | hole a =>
      obtain ⟨h1, h2, h3⟩ := hloc
      simp [h3, hi', hr']
    | full => simp at hf
  | get id =>
    simp only [step, specStep]
    exact ⟨hi, hr, by rw [get_eq hl hi hr]⟩

theorem run_sim {c : Cfg} (hmd : 0 < c.md) (hl : c.legacy = false) :
    ∀ (ops : List (Op V)) (st : St V) (m : Map V), Inv c st → Rel st m →
      Out.full ∉ run c st ops → run c st ops = specRun m ops := by
  intro ops
  induction ops with
  | nil => intros; rfl
  | cons op ops ih =>
    intro st m hi hr hf
    simp only [run, List.mem_cons, not_or] at hf
    obtain ⟨h1, h2, h3⟩ := step_sim hmd hl hi hr op (fun e => hf.1 e.symm)
    simp only [run, specRun]
    rw [h3, ih _ _ h1 h2 hf.2]

/-- **C21** (repaired write probe): for every hash modulus ≥ 1 and every operation list — any ids, so any
collisions, full blocks and overflow into further segments — the registry answers exactly like a finite map:
a lookup returns the last written record of a present id and nothing for an absent one, adding a present id
and removing an absent one fail without effect, removing a present id succeeds and the id stays absent until
it is written again. Side condition: the registry never reported its segment-file limit. -/
theorem C21_refines_map (c : Cfg) (hmd : 0 < c.md) (hl : c.legacy = false) : Statement_C21 c V := by
  intro ops hf
  exact run_sim hmd hl ops St.init _ (inv_init c) rel_init hf

/-! ## the segment limit cannot be reached by fewer than `maxSeg` operations -/

theorem findWrite_nseg (c : Cfg) (st : St V) (id : Id) :
    (findWrite c st id).1.nseg ≤ st.nseg + 1 ∧
    (∀ (st' : St V), findWrite c st id = (st', Loc.full) → c.maxSeg ≤ st.nseg) := by
  unfold findWrite
  cases scan st id true c.legacy (probe c id st.nseg) none with
  | «at» a r => simp
  | hole a => simp
  | none =>
    simp only
    split
    · simp [addSeg]
    · rename_i h; simp; omega

theorem step_nseg (c : Cfg) (st : St V) (op : Op V) :
    (step c st op).1.nseg ≤ st.nseg + 1 ∧ ((step c st op).2 = .full → c.maxSeg ≤ st.nseg) := by
  cases op with
  | add r =>
    have := findWrite_nseg c st r.id
    simp only [step, add]
    rcases hfw : findWrite c st r.id with ⟨st', loc⟩
    rw [hfw] at this
    cases loc <;> simp [write] <;> first | exact this.1 | exact ⟨this.1, this.2 st' rfl⟩
  | set r =>
    have := findWrite_nseg c st r.id
    simp only [step, setMany, findAll, List.map_cons, List.map_nil]
    rcases hfw : findWrite c st r.id with ⟨st', loc⟩
    rw [hfw] at this
    cases loc with
    | found a r0 => simp only []; split <;> simp [write] <;> exact this.1
    | hole a => simp [write]; exact this.1
    | full => simp; exact ⟨this.1, this.2 st' rfl⟩
  | remove id =>
    have := findWrite_nseg c st id
    simp only [step, removeMany, findAll]
    rcases hfw : findWrite c st id with ⟨st', loc⟩
    rw [hfw] at this
    cases loc with
    | found a r0 => simp only []; split <;> simp [write] <;> exact this.1
    | hole a => simp; exact this.1
    | full => simp; exact ⟨this.1, this.2 st' rfl⟩
  | get id => simp [step]

theorem no_full (c : Cfg) : ∀ (ops : List (Op V)) (st : St V), st.nseg + ops.length ≤ c.maxSeg →
    Out.full ∉ run c st ops := by
  intro ops
  induction ops with
  | nil => intro st _; simp [run]
  | cons op ops ih =>
    intro st h
    obtain ⟨h1, h2⟩ := step_nseg c st op
    simp only [run, List.mem_cons, not_or, List.length_cons] at h ⊢
    refine ⟨fun e => ?_, ih _ (by omega)⟩
    have := h2 e.symm
    omega

/-- the same without the side condition, for operation lists no longer than the segment limit (1000) -/
theorem C21_refines_map_bounded (c : Cfg) (hmd : 0 < c.md) (hl : c.legacy = false) (ops : List (Op V))
    (hlen : ops.length ≤ c.maxSeg) : run c St.init ops = specRun (fun _ => none) ops :=
  C21_refines_map c hmd hl ops (no_full c ops St.init (by simpa [St.init] using hlen))

/-! ## the unrepaired write probe violates the statement -/

def X : Rec Nat := ⟨(0, 5), 1⟩
def Y : Rec Nat := ⟨(0, 71), 1⟩
def Y' : Rec Nat := ⟨(0, 71), 2⟩

/-- add X, add Y (same block and ideal slot: displaced), remove X, update Y, remove Y, look Y up -/
def witness : List (Op Nat) := [.add X, .add Y, .remove X.id, .set Y', .remove Y.id, .get Y.id]

/-- on the tree as it is (write probe settles on the first hole) the removed id is found again, with its old value -/
theorem C21_counterexample : ¬ Statement_C21 { md := 1, legacy := true } Nat := by
  intro h
  have := h witness (by decide)
  revert this
  decide

/-- what the unrepaired model answers on the witness: the last lookup returns the value written by the *add* -/
theorem C21_counterexample_outputs :
    run { md := 1, legacy := true } St.init witness = [.ok, .ok, .ok, .ok, .ok, .got (some Y)]
    ∧ specRun (fun _ => none) witness = [.ok, .ok, .ok, .ok, .ok, .got none] := by
  constructor <;> decide

set_option maxRecDepth 8000 in
/-- and the repaired probe answers like the map on it (instance of `C21_refines_map`, here by evaluation) -/
example : run { md := 1 } St.init witness = [.ok, .ok, .ok, .ok, .ok, .got none] := by decide

set_option maxRecDepth 8000 in
/-- non-vacuity of the side condition and of the invariant: a run with collisions that never reports `full` -/
example : Out.full ∉ run { md := 1 } St.init witness := by decide


/-! ## several writers: the block read-modify-write of `updateFileBlockRegion`

`Sop.RegistryMW.Rmw`: writers of one block, one transition per call on the lock cache (`DualLock`, `Unlock`) or on
the segment file (`ReadAt`, `WriteAt` of the whole block). A schedule is any list of writer indices. -/

open Sop.RegistryMW

/-- Full-strength statement about one block, for the lock key chosen by `perSlot` (`false`: the block — the code;
`true`: the slot): whatever the number of writers, their slots and values, the block and the schedule, once every
writer has returned the block is the initial block with EVERY writer's change, applied in the order in which the
writers were granted the lock (each exactly once). -/
def Statement_C21_block (perSlot : Bool) (R : Type) : Prop :=
  ∀ (prog : List (Nat × Option R)) (b0 : List (Option R)) (sch : List Nat),
    let s := Rmw.run (Rmw.init perSlot prog b0) sch
    Rmw.allDone s = true →
      s.blk = Rmw.applyAll (Rmw.init perSlot prog b0).ws b0 s.acq ∧ s.acq.Nodup ∧ ∀ i, i ∈ s.acq ↔ i < prog.length

/-- at every point of every schedule (not only at the end) the invariant of `Sop/Lemmas/RegistryRmw.lean` holds -/
theorem C21_block_inv {R : Type} (prog : List (Nat × Option R)) (b0 : List (Option R)) (sch : List Nat) :
    Rmw.Inv (Rmw.init false prog b0).ws b0 0 (Rmw.run (Rmw.init false prog b0) sch) := by
  apply Rmw.inv_run
  apply Rmw.inv_init _ _ _ _ rfl
  · intro w hw; simp only [Rmw.init, List.mem_map] at hw; obtain ⟨p, _, rfl⟩ := hw; rfl
  · intro w hw; simp only [Rmw.init, List.mem_map] at hw; obtain ⟨p, _, rfl⟩ := hw; rfl

/-- with the lock on the block around read..write, every interleaving of any number of writers is linearizable to
the order of lock acquisition: nobody's acknowledged change is lost -/
theorem C21_block_lock_linearizable {R : Type} : Statement_C21_block false R := by
  intro prog b0 sch s hd
  obtain ⟨h1, h2, h3, _⟩ := Rmw.done_of_inv (C21_block_inv prog b0 sch) hd
  refine ⟨h1, h2, ?_⟩
  intro i; rw [h3 i]; simp [Rmw.init]

/-- the lost update of the seeded change: two writers of DIFFERENT slots of one block, each locking its slot.
Writer 0 locks and reads; writer 1 locks, reads, writes, unlocks; writer 0 writes back the block it read. -/
def lostUpdateSchedule : List Nat := [0, 0, 1, 1, 1, 1, 0, 0]

theorem C21_slot_lock_lost_update :
    let s := Rmw.run (Rmw.init true [(0, some 7), (1, some 8)] [none, none]) lostUpdateSchedule
    Rmw.allDone s = true ∧ s.acq = [0, 1] ∧ s.blk = [some 7, none] := by
  decide +kernel

theorem C21_slot_lock_counterexample : ¬ Statement_C21_block true Nat := by
  intro h
  have := (h [(0, some 7), (1, some 8)] [none, none] lostUpdateSchedule (by decide +kernel)).1
  revert this
  decide +kernel

/-- the same schedule under the block lock: writer 1 is refused until writer 0 has unlocked -/
example : (Rmw.run (Rmw.init false [(0, some 7), (1, some 8)] [none, none]) lostUpdateSchedule).blk = [some 7, none] ∧
    (Rmw.run (Rmw.init false [(0, some 7), (1, some 8)] [none, none]) (lostUpdateSchedule ++ [1, 1, 1, 1])).blk = [some 7, some 8] := by
  decide +kernel

theorem perm_two (l : List Nat) (hn : l.Nodup) (hm : ∀ i, i ∈ l ↔ i < 2) : l = [0, 1] ∨ l = [1, 0] := by
  match l, hn, hm with
  | [], _, hm => exact absurd ((hm 0).2 (by decide)) (by simp)
  | [a], _, hm =>
    have h0 := (hm 0).2 (by decide)
    have h1 := (hm 1).2 (by decide)
    simp at h0 h1; omega
  | [a, b], hn, hm =>
    have ha := (hm a).1 (by simp)
    have hb := (hm b).1 (by simp)
    have hab : a ≠ b := by simpa using hn
    have : (a = 0 ∧ b = 1) ∨ (a = 1 ∧ b = 0) := by omega
    rcases this with ⟨rfl, rfl⟩ | ⟨rfl, rfl⟩ <;> simp
  | a :: b :: c :: t, hn, hm =>
    have ha := (hm a).1 (by simp)
    have hb := (hm b).1 (by simp)
    have hc := (hm c).1 (by simp)
    simp only [List.nodup_cons, List.mem_cons, not_or] at hn
    omega

/-- two writers, different slots of the same block, any interleaving: both acknowledged changes are in the block and
no other slot moved -/
theorem C21_two_writers_both_kept {R : Type} (s0 s1 : Nat) (v0 v1 : Option R) (b0 : List (Option R)) (sch : List Nat)
    (hne : s0 ≠ s1) (h0 : s0 < b0.length) (h1 : s1 < b0.length)
    (hd : Rmw.allDone (Rmw.run (Rmw.init false [(s0, v0), (s1, v1)] b0) sch) = true) :
    let blk := (Rmw.run (Rmw.init false [(s0, v0), (s1, v1)] b0) sch).blk
    blk[s0]? = some v0 ∧ blk[s1]? = some v1 ∧ ∀ t, t ≠ s0 → t ≠ s1 → blk[t]? = b0[t]? := by
  obtain ⟨hb, hn, hm⟩ := C21_block_lock_linearizable [(s0, v0), (s1, v1)] b0 sch hd
  intro blk
  have hblk : blk = (b0.set s0 v0).set s1 v1 ∨ blk = (b0.set s1 v1).set s0 v0 := by
    rcases perm_two _ hn hm with e | e
    · left; show (Rmw.run _ sch).blk = _; rw [hb, e]; simp [Rmw.applyAll, Rmw.init]
    · right; show (Rmw.run _ sch).blk = _; rw [hb, e]; simp [Rmw.applyAll, Rmw.init]
  have hne' : s1 ≠ s0 := fun e => hne e.symm
  have other : ∀ (b : List (Option R)) (a c : Nat) (x y : Option R) (t : Nat), t ≠ a → t ≠ c →
      ((b.set a x).set c y)[t]? = b[t]? := by
    intro b a c x y t hta htc
    rw [List.getElem?_set_ne (fun e => htc e.symm), List.getElem?_set_ne (fun e => hta e.symm)]
  rcases hblk with e | e <;> rw [e]
  · refine ⟨?_, ?_, fun t h0' h1' => other b0 s0 s1 v0 v1 t h0' h1'⟩
    · rw [List.getElem?_set_ne hne', List.getElem?_set_self h0]
    · rw [List.getElem?_set_self (by simpa using h1)]
  · refine ⟨?_, ?_, fun t h0' h1' => other b0 s1 s0 v1 v0 t h1' h0'⟩
    · rw [List.getElem?_set_self (by simpa using h0)]
    · rw [List.getElem?_set_ne hne, List.getElem?_set_self h1]

/-- two writers of the SAME slot: the value of the writer that was granted the lock last stays -/
theorem C21_same_slot_last_locker_wins {R : Type} (s0 : Nat) (v0 v1 : Option R) (b0 : List (Option R)) (sch : List Nat)
    (h0 : s0 < b0.length)
    (hd : Rmw.allDone (Rmw.run (Rmw.init false [(s0, v0), (s0, v1)] b0) sch) = true) :
    let s := Rmw.run (Rmw.init false [(s0, v0), (s0, v1)] b0) sch
    (s.acq = [0, 1] ∧ s.blk[s0]? = some v1) ∨ (s.acq = [1, 0] ∧ s.blk[s0]? = some v0) := by
  obtain ⟨hb, hn, hm⟩ := C21_block_lock_linearizable [(s0, v0), (s0, v1)] b0 sch hd
  intro s
  rcases perm_two _ hn hm with e | e
  · left; refine ⟨e, ?_⟩; show (Rmw.run _ sch).blk[s0]? = _; rw [hb, e]; simp [Rmw.applyAll, Rmw.init, h0]
  · right; refine ⟨e, ?_⟩; show (Rmw.run _ sch).blk[s0]? = _; rw [hb, e]; simp [Rmw.applyAll, Rmw.init, h0]

/-- nobody waits for ever (block lock): whoever holds the lock unlocks within three calls of its own, and a writer
that finds the lock free returns within four calls of its own, leaving it free -/
theorem C21_block_lock_progress {R : Type} (prog : List (Nat × Option R)) (b0 : List (Option R)) (sch : List Nat) :
    let s := Rmw.run (Rmw.init false prog b0) sch
    (∀ h, s.locks 0 = some h → ∃ n, n ≤ 3 ∧ (Rmw.run s (List.replicate n h)).locks 0 = none) ∧
    (s.locks 0 = none → ∀ i, i < prog.length → ∃ n, n ≤ 4 ∧ (Rmw.run s (List.replicate n i)).locks 0 = none ∧
      ∃ w', (Rmw.run s (List.replicate n i)).ws[i]? = some w' ∧ w'.pc = .done) := by
  intro s
  have hi := C21_block_inv prog b0 sch
  refine ⟨fun h hh => Rmw.holder_finishes hi h hh, ?_⟩
  intro hfree i hlt
  have hlen : i < s.ws.length := by rw [hi.prog.1]; simpa [Rmw.init] using hlt
  exact Rmw.solo_finishes hi i s.ws[i] (List.getElem?_eq_getElem hlen) hfree


/-! ## several writers: whole registry calls (`Sop.RegistryMW`, what the driver runs against the code)

The block read-modify-write above is the last phase of every call; before it the slot is chosen by
`findOneFileRegion` WITHOUT the block lock, and nothing looks at the slot again once the lock is held. So for whole
calls the statement "acknowledged changes of two writers are both there" is false for the code as it is. -/

/-- registry states reachable by sequential single-id calls -/
def stAfter (c : Cfg) (ops : List (Op V)) : St V := ops.foldl (fun st op => (RegistryMap.step c st op).1) St.init

/-- full-strength statement for two concurrent `Add`s of different ids: if both are acknowledged, both are found -/
def Statement_C21_two_adds (mc : MCfg) (V : Type) : Prop :=
  ∀ (ops : List (Op V)) (r1 r2 : Rec V) (sch : List Nat), r1.id ≠ r2.id →
    let s := RegistryMW.run mc (spawn mc (spawn mc { st := stAfter mc.c ops } .add r1) .add r2) sch
    result s 0 = some .ok → result s 1 = some .ok →
      get mc.c s.st r1.id = some r1 ∧ get mc.c s.st r2.id = some r2

/-- ids `0:5` and `0:7` sit in their slots; `0:71` (ideal slot 5) and `0:73` (ideal slot 7) are added by two writers:
both searches settle on slot 0, the first empty slot. Writer 0 searches and is parked in front of the physical-slot lock;
writer 1 runs whole (9 calls); writer 0 is granted the slot lock that writer 1 released, locks the block, and writes. -/
def searchWitnessOps : List (Op Nat) := [.add ⟨(0, 5), 1⟩, .add ⟨(0, 7), 2⟩]
def searchWitnessSchedule : List Nat := [0, 0] ++ List.replicate 9 1 ++ List.replicate 7 0

theorem C21_unlocked_search_lost_add :
    let mc : MCfg := { c := { md := 1 } }
    let s := RegistryMW.run mc (spawn mc (spawn mc { st := stAfter mc.c searchWitnessOps } .add ⟨(0, 71), 3⟩) .add ⟨(0, 73), 4⟩)
      searchWitnessSchedule
    result s 0 = some .ok ∧ result s 1 = some .ok ∧ get mc.c s.st (0, 73) = none ∧ get mc.c s.st (0, 71) = some ⟨(0, 71), 3⟩ := by
  decide +kernel

theorem C21_unlocked_search_counterexample : ¬ Statement_C21_two_adds { c := { md := 1 } } Nat := by
  intro h
  have := (h searchWitnessOps ⟨(0, 71), 3⟩ ⟨(0, 73), 4⟩ searchWitnessSchedule (by decide) (by decide +kernel) (by decide +kernel)).2
  revert this
  decide +kernel

/-- the seeded change on whole calls: two `UpdateNoLocks` of two present ids of one block, each locking its slot;
writer 0 is parked between its block read and its block write while writer 1 runs whole: writer 1's acknowledged
update is reverted. With the block lock the same schedule (writer 1 is refused, retries later) keeps both. -/
def slotLockWitnessSchedule : List Nat := [0, 0, 0] ++ List.replicate 5 1 ++ [0, 0] ++ List.replicate 5 1

theorem C21_slot_lock_registry_lost_update :
    let st0 := stAfter { md := 1 } searchWitnessOps
    let run := fun (perSlot : Bool) =>
      let mc : MCfg := { c := { md := 1 }, perSlot }
      RegistryMW.run mc (spawn mc (spawn mc { st := st0 } .set ⟨(0, 5), 10⟩) .set ⟨(0, 7), 20⟩) slotLockWitnessSchedule
    (result (run true) 0 = some .ok ∧ result (run true) 1 = some .ok ∧
      get { md := 1 } (run true).st (0, 7) = some ⟨(0, 7), 2⟩ ∧ get { md := 1 } (run true).st (0, 5) = some ⟨(0, 5), 10⟩) ∧
    (result (run false) 0 = some .ok ∧ result (run false) 1 = some .ok ∧
      get { md := 1 } (run false).st (0, 7) = some ⟨(0, 7), 20⟩ ∧ get { md := 1 } (run false).st (0, 5) = some ⟨(0, 5), 10⟩) := by
  decide +kernel


/-! ## several writers: a segment file that does not exist yet (`setupNewFile`)

`findOneFileRegion` decides "segment file missing" with an `os.Stat`, without a lock; `setupNewFile` creates the file
later, under the preallocation lock — possibly after another writer created it and wrote a handle into it.
`Sop.RegistryMW.Rmw.Seg`: any number of writers of one block of a segment file that is missing at the start; one
transition per call (existence check; `DualLock` / `Open(O_CREATE)+Truncate` / `Unlock` of `setupNewFile`; lock / read /
write / unlock of the block). -/

/-- Full-strength statement for the way the creating open treats a file that is already there (`trunc = false`: its
content is kept — the code; `true`: `O_TRUNC`): whatever the number of writers, their (pairwise different) slots, their
values and the schedule, at EVERY point of the schedule the slot of every writer that has returned holds its value. -/
def Statement_C21_create (trunc : Bool) (R : Type) : Prop :=
  ∀ (prog : List (Nat × Option R)) (n : Nat) (sch : List Nat),
    (∀ (i j : Nat) (pi pj : Nat × Option R), prog[i]? = some pi → prog[j]? = some pj → i ≠ j → pi.1 ≠ pj.1) →
    (∀ p ∈ prog, p.1 < n) →
    let s := Rmw.Seg.run trunc 1 n (Rmw.Seg.init prog n) sch
    ∀ (i : Nat) (p : Nat × Option R) (w : Rmw.Wr Nat R), prog[i]? = some p → s.rs.ws[i]? = some w → w.pc = .done →
      s.rs.blk[p.1]? = some p.2

/-- the invariant along every schedule of creators and writers -/
theorem C21_create_inv {R : Type} (prog : List (Nat × Option R)) (n : Nat) (sch : List Nat) :
    Rmw.SInv (Rmw.Seg.init prog n).rs.ws (List.replicate n none) 0 (Rmw.Seg.run false 1 n (Rmw.Seg.init prog n) sch) := by
  apply Rmw.sinv_run (by decide)
  refine ⟨?_, fun _ => rfl, ?_⟩
  · apply Rmw.inv_init _ _ _ _ rfl
    · intro w hw; simp only [Rmw.Seg.init, List.mem_map] at hw; obtain ⟨p, _, rfl⟩ := hw; rfl
    · intro w hw; simp only [Rmw.Seg.init, List.mem_map] at hw; obtain ⟨p, _, rfl⟩ := hw; rfl
  · intro i x hx hn
    simp only [Rmw.Seg.init, List.getElem?_map] at hx
    cases hp : prog[i]? with
    | none => simp [hp] at hx
    | some p => simp [hp] at hx; subst hx; simp [Rmw.needsFile] at hn

/-- creating a segment file that another writer created in the meantime, with an open that keeps its content, never
loses an acknowledged write: every returned writer's value stays in its slot, at every point of every interleaving of
creators and writers -/
theorem C21_create_keeps_acknowledged {R : Type} : Statement_C21_create false R := by
  intro prog n sch hdist hlt s i p w hp hw hd
  have hi := (C21_create_inv prog n sch).inv
  have hw0 : (Rmw.Seg.init prog n).rs.ws[i]? = some { key := 0, slot := p.1, val := p.2 } := by
    simp [Rmw.Seg.init, List.getElem?_map, hp]
  obtain ⟨w0, hw0', hs0, hv0, _⟩ := hi.prog.2 i w hw
  rw [hw0] at hw0'; cases hw0'
  have hs : w.slot = p.1 := hs0
  have hv : w.val = p.2 := hv0
  rw [← hs, ← hv]
  apply Rmw.done_slot_kept hi i w hw hd
  · rw [hs]; simpa using hlt p (List.mem_of_getElem? hp)
  · intro j wj hne hwj
    simp only [Rmw.Seg.init, List.getElem?_map] at hwj
    cases hpj : prog[j]? with
    | none => simp [hpj] at hwj
    | some pj =>
      simp [hpj] at hwj; subst hwj
      rw [hs]
      exact hdist j i pj p hpj hp hne

/-- the truncating open: writer 0 decides "missing"; writer 1 decides "missing", creates the file, writes slot 1 and
returns; writer 0 takes the preallocation lock and opens with `O_TRUNC`: writer 1's acknowledged write is gone -/
def truncWitnessSchedule : List Nat := [0] ++ List.replicate 8 1 ++ [0, 0]

theorem C21_create_trunc_lost_write :
    let s := Rmw.Seg.run true 1 2 (Rmw.Seg.init [(0, some 7), (1, some 8)] 2) truncWitnessSchedule
    (s.rs.ws[1]?.map (·.pc)) = some .done ∧ s.rs.blk = [none, none] := by
  decide +kernel

theorem C21_create_trunc_counterexample : ¬ Statement_C21_create true Nat := by
  intro h
  have hdist : ∀ (i j : Nat) (pi pj : Nat × Option Nat), [(0, some 7), (1, some 8)][i]? = some pi →
      [(0, some 7), (1, some 8)][j]? = some pj → i ≠ j → pi.1 ≠ pj.1 := by
    intro i j pi pj hi hj hne
    match i, j with
    | 0, 0 => exact absurd rfl hne
    | 1, 1 => exact absurd rfl hne
    | 0, 1 => simp at hi hj; subst hi hj; decide
    | 1, 0 => simp at hi hj; subst hi hj; decide
    | 0, j + 2 => simp at hj
    | 1, j + 2 => simp at hj
    | i + 2, _ => simp at hi
  have hlost := C21_create_trunc_lost_write
  simp only at hlost
  cases hw : (Rmw.Seg.run true 1 2 (Rmw.Seg.init [(0, some 7), (1, some 8)] 2) truncWitnessSchedule).rs.ws[1]? with
  | none => rw [hw] at hlost; simp at hlost
  | some w =>
    have hd : w.pc = .done := by rw [hw] at hlost; simpa using hlost.1
    have := h [(0, some 7), (1, some 8)] 2 truncWitnessSchedule hdist (by decide) 1 (1, some 8) w (by decide) hw hd
    rw [hlost.2] at this
    simp at this

/-- the same schedule with the open of the code: both writes are there in the end -/
example : (Rmw.Seg.run false 1 2 (Rmw.Seg.init [(0, some 7), (1, some 8)] 2) (truncWitnessSchedule ++ [0, 0, 0, 0, 0])).rs.blk
    = [some 7, some 8] := by decide +kernel

/-- whole `Add` calls on the registry model (what the driver runs against the code; the harness replays this history
first): no segment file yet, ids `0:5` and `0:7`; writer 0 is parked in front of the preallocation lock while writer 1 runs
whole. With `O_TRUNC` writer 1's acknowledged id is not found afterwards; with the open of the code both are. -/
def createWitnessSchedule : List Nat := [0] ++ List.replicate 9 1 ++ List.replicate 8 0

theorem C21_create_race_first_segment :
    let run := fun (trunc : Bool) =>
      let mc : MCfg := { c := { md := 1 }, trunc }
      RegistryMW.run mc (spawn mc (spawn mc { st := (St.init : St Nat) } .add ⟨(0, 5), 1⟩) .add ⟨(0, 7), 2⟩) createWitnessSchedule
    (result (run true) 0 = some .ok ∧ result (run true) 1 = some .ok ∧
      get { md := 1 } (run true).st (0, 7) = none ∧ get { md := 1 } (run true).st (0, 5) = some ⟨(0, 5), 1⟩) ∧
    (result (run false) 0 = some .ok ∧ result (run false) 1 = some .ok ∧
      get { md := 1 } (run false).st (0, 7) = some ⟨(0, 7), 2⟩ ∧ get { md := 1 } (run false).st (0, 5) = some ⟨(0, 5), 1⟩) := by
  decide +kernel

/-- block 0 of the only segment file is full: ids `0:0 … 0:65`, each in its ideal slot (the state after sixty-six
sequential adds: the harness case that replays this witness makes them on the code and on the model, and compares the layout) -/
def fullBlockSt : St Nat := { nseg := 1, cells := ((List.range 66).map fun k => some ⟨(0, k), k⟩).toArray }

/-- overflow: both new ids (`0:333`, ideal slot 3; `0:471`, ideal slot 9) need segment file 2, which is missing. Writer 0
searches segment file 1, decides "file 2 missing", is parked; writer 1 runs whole; writer 0 creates file 2 with `O_TRUNC`:
writer 1's acknowledged id is not found; segment file 1 is untouched. -/
def overflowWitnessSchedule : List Nat := [0, 0] ++ List.replicate 10 1 ++ List.replicate 8 0

theorem C21_create_race_overflow_segment :
    let mc : MCfg := { c := { md := 1 }, trunc := true }
    let s := RegistryMW.run mc (spawn mc (spawn mc { st := fullBlockSt } .add ⟨(0, 333), 1⟩) .add ⟨(0, 471), 2⟩) overflowWitnessSchedule
    result s 0 = some .ok ∧ result s 1 = some .ok ∧ get { md := 1 } s.st (0, 471) = none ∧
      get { md := 1 } s.st (0, 333) = some ⟨(0, 333), 1⟩ ∧ get { md := 1 } s.st (0, 65) = some ⟨(0, 65), 65⟩ := by
  decide +kernel

end Sop.C21
