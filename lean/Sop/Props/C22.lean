import Sop.Model.BlockCow
/-! # C22 — registry block writes survive a crash as either the old or the new block

`old` is the block on disk before the write, `new` the image `writeBlockRegionPayload` puts there. The writer is
`createCow old; writeAt new; deleteCow` and may die anywhere, including inside `os.WriteFile` of the backup
(any prefix of `old`, possibly empty) and inside the block write (any byte-wise mixture of `old` and `new`, of
which "the first `L` bytes" is a special case).

* `C22_old_or_new`, `C22_sequential_readers`: for a dead writer and readers that run one after the other the
  property HOLDS, under the explicit checksum-detection hypothesis `Detects`.
* `C22_interleaved_counterexample`: for a dead writer and THREE readers whose steps interleave it FAILS, with all
  hypotheses in force: a reader that took its block read before another reader restored the block and a third
  deleted the backup finds no backup and serves the torn bytes (the C23 fall-through is what lets it).
-/
namespace Sop.C22
open Sop.BlockCow

/-- `t` is a byte-wise mixture of `old` and `new` -/
def Mix (old new t : Block) : Prop :=
  t.length = old.length ∧ ∀ i : Nat, t[i]? = old[i]? ∨ t[i]? = new[i]?

/-- the disk states a writer that dies can leave behind -/
inductive Crash (old new : Block) : Disk → Prop
  | before : Crash old new ⟨old, none⟩
  | cowPartial (k : Nat) : Crash old new ⟨old, some (old.take k)⟩
  | tornWrite (t : Block) : Mix old new t → Crash old new ⟨t, some old⟩
  | after : Crash old new ⟨new, none⟩

/-- checksum-detection hypothesis: a mixture that is neither image fails the checksum -/
def Detects (P : Params) (old new : Block) : Prop :=
  ∀ t, Mix old new t → t = old ∨ t = new ∨ valid P t = false

/-! ### the crash states of the design document are instances -/

theorem mix_old (old new : Block) : Mix old new old := ⟨rfl, fun _ => Or.inl rfl⟩

theorem mix_new (old new : Block) (h : new.length = old.length) : Mix old new new := ⟨h, fun _ => Or.inr rfl⟩

/-- the first `L` bytes of `new` over `old` is a mixture, for every `L` -/
theorem mix_torn (old new : Block) (h : new.length = old.length) (L : Nat) : Mix old new (torn old new L) := by
  unfold torn
  constructor
  · simp only [List.length_append, List.length_take, List.length_drop]; omega
  · intro i
    by_cases hi : i < L
    · right
      by_cases hn : i < new.length
      · rw [List.getElem?_append_left (by simp only [List.length_take]; omega)]
        simp [hi]
      · have h1 : (List.take L new ++ List.drop L old).length ≤ i := by
          simp only [List.length_append, List.length_take, List.length_drop]; omega
        rw [List.getElem?_eq_none_iff.mpr h1, List.getElem?_eq_none_iff.mpr (by omega)]
    · left
      by_cases hL : L ≤ new.length
      · rw [List.getElem?_append_right (by simp only [List.length_take]; omega)]
        simp only [List.length_take, List.getElem?_drop, Nat.min_eq_left hL]
        congr 1; omega
      · have e1 : List.take L new = new := List.take_of_length_le (by omega)
        have e2 : List.drop L old = [] := List.drop_of_length_le (by omega)
        rw [e1, e2, List.append_nil, List.getElem?_eq_none_iff.mpr (by omega), List.getElem?_eq_none_iff.mpr (by omega)]

theorem crash_torn (old new : Block) (h : new.length = old.length) (L : Nat) :
    Crash old new ⟨torn old new L, some old⟩ := Crash.tornWrite _ (mix_torn old new h L)

/-- a restoring write of `old` that is itself torn (a reader dies, or is observed, half way) leaves a mixture again -/
theorem mix_restore (old new t t' : Block) (h : Mix old new t) (h' : Mix t old t') : Mix old new t' := by
  refine ⟨h'.1.trans h.1, fun i => ?_⟩
  rcases h'.2 i with e | e
  · rw [e]; exact h.2 i
  · exact Or.inl e

/-! ### one reader -/

theorem valid_len {P : Params} {b : Block} (h : valid P b = true) : 4 ≤ b.length := by
  unfold valid at h
  by_cases hl : b.length < 4
  · simp [hl] at h
  · omega

/-- **C22 for one reader after the writer's death**: it is handed the old block or the new block. -/
theorem C22_old_or_new (P : Params) (old new : Block)
    (hlo : old.length = P.n) (hln : new.length = P.n)
    (hold : valid P old = true) (hnew : valid P new = true) (hdet : Detects P old new)
    (rw : Bool) (c : Disk) (hc : Crash old new c) :
    (readAndRestore P rw c).1 = .ok old ∨ (readAndRestore P rw c).1 = .ok new := by
  cases hc with
  | before => left; simp [readAndRestore, hlo, hold]
  | cowPartial k => left; simp [readAndRestore, hlo, hold]
  | after => right; simp [readAndRestore, hln, hnew]
  | tornWrite t hm =>
    have hlt : t.length = P.n := hm.1.trans hlo
    by_cases hv : valid P t = true
    · rcases hdet t hm with e | e | e
      · left; simp [readAndRestore, e, hlo, hold]
      · right; simp [readAndRestore, e, hln, hnew]
      · rw [e] at hv; exact absurd hv (by decide)
    · left
      have h4 := valid_len hold
      have hP : ¬ P.n = 0 := by omega
      simp [readAndRestore, hlt, hv, checkCow, hlo, hold, hP]

/-! ### any number of readers, one after the other -/

/-- results of readers that run one after the other (each with its own read-write flag) -/
def readMany (P : Params) : List Bool → Disk → List Res
  | [], _ => []
  | rw :: rest, d => (readAndRestore P rw d).1 :: readMany P rest (readAndRestore P rw d).2

/-- the disk is in a state from which every reader is served `b` -/
def Serves (P : Params) (old b : Block) (d : Disk) : Prop :=
  d.blk = b ∨ (b = old ∧ d.blk.length = P.n ∧ valid P d.blk = false ∧ d.cow = some old)

theorem serves_read (P : Params) (old b : Block) (hlo : old.length = P.n) (hold : valid P old = true)
    (hlb : b.length = P.n) (hvb : valid P b = true) (d : Disk) (h : Serves P old b d) (rw : Bool) :
    (readAndRestore P rw d).1 = .ok b ∧ Serves P old b (readAndRestore P rw d).2 := by
  rcases h with e | ⟨eb, hl, hv, hc⟩
  · obtain ⟨blk, cow⟩ := d
    simp only at e
    subst e
    simp [readAndRestore, hlb, hvb, Serves]
  · obtain ⟨blk, cow⟩ := d
    simp only at hl hv hc
    subst hc eb
    have h4 := valid_len hold
    have hP : ¬ P.n = 0 := by omega
    cases rw <;> simp [readAndRestore, hl, hv, checkCow, hlo, hold, hP, Serves]

theorem crash_serves (P : Params) (old new : Block) (hlo : old.length = P.n)
    (hdet : Detects P old new) (c : Disk) (hc : Crash old new c) :
    ∃ b, (b = old ∨ b = new) ∧ Serves P old b c := by
  cases hc with
  | before => exact ⟨old, Or.inl rfl, Or.inl rfl⟩
  | cowPartial k => exact ⟨old, Or.inl rfl, Or.inl rfl⟩
  | after => exact ⟨new, Or.inr rfl, Or.inl rfl⟩
  | tornWrite t hm =>
    rcases hdet t hm with e | e | e
    · exact ⟨old, Or.inl rfl, Or.inl e⟩
    · exact ⟨new, Or.inr rfl, Or.inl e⟩
    · exact ⟨old, Or.inl rfl, Or.inr ⟨rfl, hm.1.trans hlo, e, rfl⟩⟩

theorem readMany_serves (P : Params) (old b : Block) (hlo : old.length = P.n) (hold : valid P old = true)
    (hlb : b.length = P.n) (hvb : valid P b = true) (rws : List Bool) :
    ∀ d, Serves P old b d → ∀ r ∈ readMany P rws d, r = .ok b := by
  induction rws with
  | nil => intro d _ r hr; simp [readMany] at hr
  | cons rw rest ih =>
    intro d hs r hr
    have h1 := serves_read P old b hlo hold hlb hvb d hs rw
    simp only [readMany, List.mem_cons] at hr
    rcases hr with e | hr
    · rw [e]; exact h1.1
    · exact ih _ h1.2 r hr

/-- **C22 for any number of sequential readers**: all of them — read-write or read-only, in any order — are handed
the same block, and it is the old one or the new one. -/
theorem C22_sequential_readers (P : Params) (old new : Block)
    (hlo : old.length = P.n) (hln : new.length = P.n)
    (hold : valid P old = true) (hnew : valid P new = true) (hdet : Detects P old new)
    (c : Disk) (hc : Crash old new c) (rws : List Bool) :
    ∃ b, (b = old ∨ b = new) ∧ ∀ r ∈ readMany P rws c, r = .ok b := by
  obtain ⟨b, hb, hs⟩ := crash_serves P old new hlo hdet c hc
  refine ⟨b, hb, ?_⟩
  rcases hb with e | e
  · subst e; exact readMany_serves P b b hlo hold hlo hold rws c hs
  · subst e; exact readMany_serves P old b hlo hold hln hnew rws c hs

/-- and after a read-write reader the block on disk is the block that was served -/
theorem C22_disk_after_rw_reader (P : Params) (old new : Block)
    (hlo : old.length = P.n) (hln : new.length = P.n)
    (hold : valid P old = true) (hnew : valid P new = true)
    (c : Disk) (hc : Crash old new c) :
    (readAndRestore P true c).1 = .ok (readAndRestore P true c).2.blk := by
  cases hc with
  | before => simp [readAndRestore, hlo, hold]
  | cowPartial k => simp [readAndRestore, hlo, hold]
  | after => simp [readAndRestore, hln, hnew]
  | tornWrite t hm =>
    have hlt : t.length = P.n := hm.1.trans hlo
    by_cases hv : valid P t = true
    · simp [readAndRestore, hlt, hv]
    · have h4 := valid_len hold
      have hP : ¬ P.n = 0 := by omega
      simp [readAndRestore, hlt, hv, checkCow, hlo, hold, hP]

/-! ### the step-wise reader run alone is the atomic reader -/

theorem solo_reader_is_atomic (P : Params) (rw : Bool) (d : Disk) :
    let s1 := ({ rw := rw } : Reader).step P d
    let s2 := s1.1.step P s1.2
    let s3 := s2.1.step P s2.2
    s3.1.pc = .done ∧ s3.1.res = some (readAndRestore P rw d).1 ∧ s3.2 = (readAndRestore P rw d).2 := by
  obtain ⟨blk, cow⟩ := d
  simp only [Reader.step, readAndRestore]
  by_cases hl : blk.length = P.n
  · by_cases hv : valid P blk = true
    · simp [hl, hv]
    · cases hc : checkCow P cow with
      | mk data sr =>
        by_cases hsr : sr = true
        · by_cases hd : data.length = 0
          · simp [hl, hv, hc, hsr, hd]
          · cases rw <;> simp [hl, hv, hc, hsr, hd]
        · simp [hl, hv, hc, hsr]
  · simp [hl]

/-! ### concurrent readers: the full statement, and its refutation -/

/-- C22 as stated ("… while other processes read the same block concurrently"): whatever the interleaving of
the readers' steps, every reader that has finished was handed the old or the new block. -/
def Statement_C22_concurrent : Prop :=
  ∀ (P : Params) (old new : Block), old.length = P.n → new.length = P.n →
    valid P old = true → valid P new = true → Detects P old new →
    ∀ c, Crash old new c → ∀ (k : Nat) (sched : List Nat),
      ∀ r ∈ (runSchedule P (List.replicate k ({} : Reader)) c sched).1,
        r.res = none ∨ r.res = some (.ok old) ∨ r.res = some (.ok new)

/-- a 5-byte toy block format: one data byte, checksum = data byte + 1 -/
def toy : Params := { n := 5, crc := fun d => d.headD 0 + 1 }
def toyOld : Block := [1, 2, 0, 0, 0]
def toyNew : Block := [2, 3, 0, 0, 0]

theorem toy_detects : Detects toy toyOld toyNew := by
  intro t hm
  obtain ⟨hl, hb⟩ := hm
  match t, hl with
  | [a, b, c, d, e], _ =>
    have h0 := hb 0; have h1 := hb 1; have h2 := hb 2; have h3 := hb 3; have h4 := hb 4
    simp [toyOld, toyNew] at h0 h1 h2 h3 h4
    rcases h2 with rfl | rfl <;> rcases h3 with rfl | rfl <;> rcases h4 with rfl | rfl <;>
    rcases h0 with rfl | rfl <;> rcases h1 with rfl | rfl <;> decide

/-- **The concurrent-reader form of C22 is false for this code.** Writer died after one byte of the block write;
reader 0 reads the torn block; reader 1 reads it, finds the backup, restores `old`; reader 2 reads `old`, finds it
valid and deletes the backup; reader 0 now finds no backup and returns the torn block `[2, 2, 0, 0, 0]`. -/
theorem C22_interleaved_counterexample : ¬ Statement_C22_concurrent := by
  intro h
  have h1 := h toy toyOld toyNew rfl rfl (by decide) (by decide) toy_detects
    ⟨torn toyOld toyNew 1, some toyOld⟩ (crash_torn toyOld toyNew rfl 1) 3 [0, 1, 1, 1, 2, 2, 0]
    { rw := true, pc := .done, buf := [2, 2, 0, 0, 0], res := some (.ok [2, 2, 0, 0, 0]) } (by decide)
  revert h1
  decide

/-- non-vacuity of the hypotheses of the positive theorems: the toy pair satisfies all of them, and a torn state
is really repaired from the backup -/
example : (readAndRestore toy true ⟨torn toyOld toyNew 1, some toyOld⟩) = (.ok toyOld, ⟨toyOld, some toyOld⟩) := by decide

example : ∃ b, (b = toyOld ∨ b = toyNew) ∧
    ∀ r ∈ readMany toy [true, false, true] ⟨torn toyOld toyNew 1, some toyOld⟩, r = .ok b :=
  C22_sequential_readers toy toyOld toyNew rfl rfl (by decide) (by decide) toy_detects _ (crash_torn toyOld toyNew rfl 1) _

end Sop.C22
