import Sop.Lemmas.BlockCowLock
/-! # C22 — registry block writes survive a crash as either the old or the new block

`old` is the block on disk before the write, `new` the image `writeBlockRegionPayload` puts there. The writer is
`createCow old; writeAt new; deleteCow` and may die anywhere, including inside `os.WriteFile` of the backup
(any prefix of `old`, possibly empty) and inside the block write (any byte-wise mixture of `old` and `new`, of
which "the first `L` bytes" is a special case).

* `C22_old_or_new`, `C22_sequential_readers`: for a dead writer and readers that run one after the other the
  property HOLDS, under the explicit checksum-detection hypothesis `Detects`.
* `C22_interleaved_counterexample`: for a dead writer and THREE readers whose steps interleave it FAILS, with all
  hypotheses in force: a reader that took its block read before another reader restored the block and a third
  deleted the backup finds no backup and serves the torn bytes (the C23 fall-through is what lets it).
* `C22_writers_old_or_new`, `C22_later_writer_completes`: any number of WRITERS on the same block, the lock and the
  backup file as shared state, every interleaving of their lock / file operations, deaths anywhere, lock expiry: it
  HOLDS when every writer enters at `updateFileBlockRegion` and the backup is deleted inside the critical section.
* `C22_late_delete_counterexample`: with the backup deleted after the unlock it FAILS.
* `C22_unlocked_check_counterexample`: with the registry's unlocked block check in front (the code as it is) it
  FAILS: that check deletes the live backup of the writer that holds the lock.

Definitions and lemmas: `Sop/Lemmas/BlockCowSeq.lean` (sequential), `Sop/Lemmas/BlockCowLock.lean` (lock invariant).
-/
namespace Sop.C22
open Sop.BlockCow

/-! ### one reader -/

/-- **C22 for one reader after the writer's death**: it is handed the old block or the new block. -/
theorem C22_old_or_new (P : Params) (old new : Block)
    (hlo : old.length = P.n) (hln : new.length = P.n)
    (hold : valid P old = true) (hnew : valid P new = true) (hdet : Detects P old new)
    (rw : Bool) (c : Disk) (hc : Crash old new c) :
    (readAndRestore P rw c).1 = .ok old ∨ (readAndRestore P rw c).1 = .ok new := by
  cases hc with
  | before => left; simp [readAndRestore, hlo, hold]
  | cowPartial k => left; simp [readAndRestore, hlo, hold]
  | after => right; simp [readAndRestore, hln, hnew]
  | tornWrite t hm =>
    have hlt : t.length = P.n := hm.1.trans hlo
    by_cases hv : valid P t = true
    · rcases hdet t hm with e | e | e
      · left; simp [readAndRestore, e, hlo, hold]
      · right; simp [readAndRestore, e, hln, hnew]
      · rw [e] at hv; exact absurd hv (by decide)
    · left
      have h4 := valid_len hold
      have hP : ¬ P.n = 0 := by omega
      simp [readAndRestore, hlt, hv, checkCow, hlo, hold, hP]

/-! ### any number of readers, one after the other -/

/-- **C22 for any number of sequential readers**: all of them — read-write or read-only, in any order — are handed
the same block, and it is the old one or the new one. -/
theorem C22_sequential_readers (P : Params) (old new : Block)
    (hlo : old.length = P.n) (hln : new.length = P.n)
    (hold : valid P old = true) (hnew : valid P new = true) (hdet : Detects P old new)
    (c : Disk) (hc : Crash old new c) (rws : List Bool) :
    ∃ b, (b = old ∨ b = new) ∧ ∀ r ∈ readMany P rws c, r = .ok b := by
  obtain ⟨b, hb, hs⟩ := crash_serves P old new hlo hdet c hc
  refine ⟨b, hb, ?_⟩
  rcases hb with e | e
  · subst e; exact readMany_serves P b b hlo hold hlo hold rws c hs
  · subst e; exact readMany_serves P old b hlo hold hln hnew rws c hs

/-- and after a read-write reader the block on disk is the block that was served -/
theorem C22_disk_after_rw_reader (P : Params) (old new : Block)
    (hlo : old.length = P.n) (hln : new.length = P.n)
    (hold : valid P old = true) (hnew : valid P new = true)
    (c : Disk) (hc : Crash old new c) :
    (readAndRestore P true c).1 = .ok (readAndRestore P true c).2.blk := by
  cases hc with
  | before => simp [readAndRestore, hlo, hold]
  | cowPartial k => simp [readAndRestore, hlo, hold]
  | after => simp [readAndRestore, hln, hnew]
  | tornWrite t hm =>
    have hlt : t.length = P.n := hm.1.trans hlo
    by_cases hv : valid P t = true
    · simp [readAndRestore, hlt, hv]
    · have h4 := valid_len hold
      have hP : ¬ P.n = 0 := by omega
      simp [readAndRestore, hlt, hv, checkCow, hlo, hold, hP]

/-! ### the step-wise reader run alone is the atomic reader -/

theorem solo_reader_is_atomic (P : Params) (rw : Bool) (d : Disk) :
    let s1 := ({ rw := rw } : Reader).step P d
    let s2 := s1.1.step P s1.2
    let s3 := s2.1.step P s2.2
    s3.1.pc = .done ∧ s3.1.res = some (readAndRestore P rw d).1 ∧ s3.2 = (readAndRestore P rw d).2 := by
  obtain ⟨blk, cow⟩ := d
  simp only [Reader.step, readAndRestore]
  by_cases hl : blk.length = P.n
  · by_cases hv : valid P blk = true
    · simp [hl, hv]
    · cases hc : checkCow P cow with
      | mk data sr =>
        by_cases hsr : sr = true
        · by_cases hd : data.length = 0
          · simp [hl, hv, hc, hsr, hd]
          · cases rw <;> simp [hl, hv, hc, hsr, hd]
        · simp [hl, hv, hc, hsr]
  · simp [hl]

/-! ### concurrent readers: the full statement, and its refutation -/

/-- C22 as stated ("… while other processes read the same block concurrently"): whatever the interleaving of
the readers' steps, every reader that has finished was handed the old or the new block. -/
def Statement_C22_concurrent : Prop :=
  ∀ (P : Params) (old new : Block), old.length = P.n → new.length = P.n →
    valid P old = true → valid P new = true → Detects P old new →
    ∀ c, Crash old new c → ∀ (k : Nat) (sched : List Nat),
      ∀ r ∈ (runSchedule P (List.replicate k ({} : Reader)) c sched).1,
        r.res = none ∨ r.res = some (.ok old) ∨ r.res = some (.ok new)

/-- a 5-byte toy block format: one data byte, checksum = data byte + 1 -/
def toy : Params := { n := 5, crc := fun d => d.headD 0 + 1 }
def toyOld : Block := [1, 2, 0, 0, 0]
def toyNew : Block := [2, 3, 0, 0, 0]

theorem toy_detects : Detects toy toyOld toyNew := by
  intro t hm
  obtain ⟨hl, hb⟩ := hm
  match t, hl with
  | [a, b, c, d, e], _ =>
    have h0 := hb 0; have h1 := hb 1; have h2 := hb 2; have h3 := hb 3; have h4 := hb 4
    simp [toyOld, toyNew] at h0 h1 h2 h3 h4
    rcases h2 with rfl | rfl <;> rcases h3 with rfl | rfl <;> rcases h4 with rfl | rfl <;>
    rcases h0 with rfl | rfl <;> rcases h1 with rfl | rfl <;> decide

/-- **The concurrent-reader form of C22 is false for this code.** Writer died after one byte of the block write;
reader 0 reads the torn block; reader 1 reads it, finds the backup, restores `old`; reader 2 reads `old`, finds it
valid and deletes the backup; reader 0 now finds no backup and returns the torn block `[2, 2, 0, 0, 0]`. -/
theorem C22_interleaved_counterexample : ¬ Statement_C22_concurrent := by
  intro h
  have h1 := h toy toyOld toyNew rfl rfl (by decide) (by decide) toy_detects
    ⟨torn toyOld toyNew 1, some toyOld⟩ (crash_torn toyOld toyNew rfl 1) 3 [0, 1, 1, 1, 2, 2, 0]
    { rw := true, pc := .done, buf := [2, 2, 0, 0, 0], res := some (.ok [2, 2, 0, 0, 0]) } (by decide)
  revert h1
  decide

/-- non-vacuity of the hypotheses of the positive theorems: the toy pair satisfies all of them, and a torn state
is really repaired from the backup -/
example : (readAndRestore toy true ⟨torn toyOld toyNew 1, some toyOld⟩) = (.ok toyOld, ⟨toyOld, some toyOld⟩) := by decide

example : ∃ b, (b = toyOld ∨ b = toyNew) ∧
    ∀ r ∈ readMany toy [true, false, true] ⟨torn toyOld toyNew 1, some toyOld⟩, r = .ok b :=
  C22_sequential_readers toy toyOld toyNew rfl rfl (by decide) (by decide) toy_detects _ (crash_torn toyOld toyNew rfl 1) _

/-! ### several writers on the same block, process deaths anywhere, lock expiry

Model: `Actor.step`, `Sys.ev` in `Sop/Model/BlockCow.lean`; invariant and its preservation in
`Sop/Lemmas/BlockCowLock.lean`. -/

/-- **C22 for any number of writers that enter at `updateFileBlockRegion`, any interleaving of their lock / file
operations, any process deaths (also inside the backup write and between the two pieces of the block write, at any
cut), any lock expiries.** Whatever the schedule, there is a list `applied` of writers such that every later reader
(any number, read-write or read-only) is handed the initial block with exactly the updates of `applied` applied in
that order — or, while a writer holds the lock, possibly that plus the holder's update —, never a mixture; and
every acknowledged update (lock released after a complete write by a live writer) is in `applied`, in
acknowledgement order. The actors may start anywhere outside the critical section (`outside`) or be dead. -/
theorem C22_writers_old_or_new (P : Params) (G : Block → Prop) (O : Nat → List Nat → Prop) (hg : GoodSet P G O)
    (v0 : Block) (hv0 : G v0) (d0 : Disk) (hd0 : Stable P v0 d0) (as0 : Nat → Actor)
    (hpc : ∀ j, outside (as0 j).pc = true ∨ (as0 j).dead = true) (hops : ∀ j, O (as0 j).off (as0 j).rcd)
    (sched : List Ev) :
    ∃ (applied : List Nat) (v : Block),
      (ackLog P false ⟨⟨d0, none⟩, as0⟩ sched).Sublist applied ∧ G v ∧
      (v = applyAll P (fun j => ((as0 j).off, (as0 j).rcd)) v0 applied ∨
        ∃ i, (Sys.run P false ⟨⟨d0, none⟩, as0⟩ sched).sh.lock = some i ∧
          v = newImage P (applyAll P (fun j => ((as0 j).off, (as0 j).rcd)) v0 applied) (as0 i).off (as0 i).rcd) ∧
      ∀ rws, ∀ r ∈ readMany P rws (Sys.run P false ⟨⟨d0, none⟩, as0⟩ sched).sh.disk, r = .ok v := by
  have h0 : Inv P G O ⟨⟨d0, none⟩, as0⟩ v0 :=
    ⟨hv0, hops, fun j _ => hpc j, fun _ => hd0, fun i hi => by simp at hi⟩
  obtain ⟨b', ext, h', hb', hsub, ho'⟩ :=
    inv_run hg (fun j => ((as0 j).off, (as0 j).rcd)) v0 sched _ v0 [] h0 (fun j => ⟨rfl, rfl⟩) (by simp [applyAll])
  obtain ⟨v, hgv, hv, hr⟩ := inv_view hg h'
  refine ⟨ext, v, hsub, hgv, ?_, hr⟩
  simp only [List.nil_append] at hb'
  rcases hv with e | ⟨i, hl, e⟩
  · exact Or.inl (e.trans hb')
  · exact Or.inr ⟨i, hl, by rw [e, hb', (ho' i).1, (ho' i).2]⟩

/-- the lock of a dead holder does expire (`LockFileRegionDuration`; modelled as the event `expire`) -/
theorem dead_holder_expires (P : Params) (late : Bool) (s : Sys) (i : Nat) (hl : s.sh.lock = some i)
    (hd : (s.as i).dead = true) : (s.ev P late .expire).sh.lock = none := by
  simp [Sys.ev, hl, hd]

/-- **A later writer is not blocked.** After any such history, once the lock is free (released, or expired after
its holder's death), a live writer entering `updateFileBlockRegion` and running alone finishes within 12 steps
with success; the block is then exactly the version `v` every reader was handed before, with this writer's
update; no backup is left and the lock is free again. -/
theorem C22_later_writer_completes (P : Params) (G : Block → Prop) (O : Nat → List Nat → Prop) (hg : GoodSet P G O)
    (v0 : Block) (hv0 : G v0) (d0 : Disk) (hd0 : Stable P v0 d0) (as0 : Nat → Actor)
    (hpc : ∀ j, outside (as0 j).pc = true ∨ (as0 j).dead = true) (hops : ∀ j, O (as0 j).off (as0 j).rcd)
    (sched : List Ev) (k : Nat)
    (hfree : (Sys.run P false ⟨⟨d0, none⟩, as0⟩ sched).sh.lock = none)
    (hk : ((Sys.run P false ⟨⟨d0, none⟩, as0⟩ sched).as k).pc = .lockPre)
    (hlive : ((Sys.run P false ⟨⟨d0, none⟩, as0⟩ sched).as k).dead = false) :
    ∃ v, G v ∧ (∀ rws, ∀ r ∈ readMany P rws (Sys.run P false ⟨⟨d0, none⟩, as0⟩ sched).sh.disk, r = .ok v) ∧
      ((Sys.run P false (Sys.run P false ⟨⟨d0, none⟩, as0⟩ sched) (List.replicate 12 (.step k))).as k).pc = .done ∧
      ((Sys.run P false (Sys.run P false ⟨⟨d0, none⟩, as0⟩ sched) (List.replicate 12 (.step k))).as k).res = some .ok ∧
      (Sys.run P false (Sys.run P false ⟨⟨d0, none⟩, as0⟩ sched) (List.replicate 12 (.step k))).sh =
        ⟨⟨newImage P v (as0 k).off (as0 k).rcd, none⟩, none⟩ := by
  have h0 : Inv P G O ⟨⟨d0, none⟩, as0⟩ v0 :=
    ⟨hv0, hops, fun j _ => hpc j, fun _ => hd0, fun i hi => by simp at hi⟩
  obtain ⟨b', _, h', _, _, ho'⟩ :=
    inv_run hg (fun j => ((as0 j).off, (as0 j).rcd)) v0 sched _ v0 [] h0 (fun j => ⟨rfl, rfl⟩) (by simp [applyAll])
  have hs := h'.free hfree
  have hl := hg.len b' h'.good
  have hv := hg.val b' h'.good
  refine ⟨b', h'.good, fun rws => readMany_serves P b' b' hl hv hl hv rws _ (stable_serves hs), ?_⟩
  obtain ⟨r1, r2⟩ := run_solo P k 12 (Sys.run P false ⟨⟨d0, none⟩, as0⟩ sched) hlive
  have hsh : (Sys.run P false ⟨⟨d0, none⟩, as0⟩ sched).sh =
      ⟨(Sys.run P false ⟨⟨d0, none⟩, as0⟩ sched).sh.disk, none⟩ := by
    cases hx : (Sys.run P false ⟨⟨d0, none⟩, as0⟩ sched).sh with
    | mk d l => rw [hx] at hfree; simp at hfree; simp [hfree]
  rw [hsh] at r1 r2
  obtain ⟨c1, c2, c3⟩ := solo_completes hg h'.good k _ _ (h'.ops k) hk hs
  rw [r2, r1, c3, (ho' k).1, (ho' k).2]
  exact ⟨c1, c2, rfl⟩

/-- the same as a statement about a variant of the writer (`late`: backup deleted after the unlock) and an entry
point (`entry = lockPre`: `updateFileBlockRegion`; `entry = aRead`: the registry call with its unlocked
`findOneFileRegion` block check in front), all writers alive at the start -/
def Statement_C22_writers (late : Bool) (entry : WPc) : Prop :=
  ∀ (P : Params) (G : Block → Prop) (O : Nat → List Nat → Prop), GoodSet P G O →
    ∀ (v0 : Block), G v0 → ∀ (as0 : Nat → Actor),
      (∀ j, (as0 j).pc = entry ∧ (as0 j).dead = false ∧ (as0 j).op = .raw (as0 j).off (as0 j).rcd ∧
        O (as0 j).off (as0 j).rcd) →
      ∀ (sched : List Ev), ∃ v, G v ∧
        ∀ rws, ∀ r ∈ readMany P rws (Sys.run P late ⟨⟨⟨v0, none⟩, none⟩, as0⟩ sched).sh.disk, r = .ok v

theorem C22_writers_statement_holds : Statement_C22_writers false .lockPre := by
  intro P G O hg v0 hv0 as0 h0 sched
  obtain ⟨_, v, _, hgv, _, hr⟩ := C22_writers_old_or_new P G O hg v0 hv0 ⟨v0, none⟩ (Or.inl rfl) as0
    (fun j => Or.inl (by rw [(h0 j).1]; rfl)) (fun j => (h0 j).2.2.2) sched
  exact ⟨v, hgv, hr⟩

/-! #### the toy format satisfies the hypotheses -/

def toyG (b : Block) : Prop := b = toyOld ∨ b = toyNew
def toyO (off : Nat) (rec : List Nat) : Prop := off = 0 ∧ (rec = [1] ∨ rec = [2])

theorem toy_detects' : Detects toy toyNew toyOld := by
  intro t hm
  obtain ⟨hl, hb⟩ := hm
  match t, hl with
  | [a, b, c, d, e], _ =>
    have h0 := hb 0; have h1 := hb 1; have h2 := hb 2; have h3 := hb 3; have h4 := hb 4
    simp [toyOld, toyNew] at h0 h1 h2 h3 h4
    rcases h2 with rfl | rfl <;> rcases h3 with rfl | rfl <;> rcases h4 with rfl | rfl <;>
    rcases h0 with rfl | rfl <;> rcases h1 with rfl | rfl <;> decide

theorem detects_self (P : Params) (b : Block) : Detects P b b := by
  intro t hm
  left
  apply List.ext_getElem? 
  intro i
  rcases hm.2 i with e | e <;> exact e

theorem toy_good : GoodSet toy toyG toyO := by
  refine ⟨?_, ?_, ?_, ?_⟩
  · intro b hb; rcases hb with rfl | rfl <;> rfl
  · intro b hb; rcases hb with rfl | rfl <;> decide
  · intro b off rec hb ho
    obtain ⟨rfl, hr⟩ := ho
    rcases hb with rfl | rfl <;> rcases hr with rfl | rfl
    · exact Or.inl (by decide)
    · exact Or.inr (by decide)
    · exact Or.inl (by decide)
    · exact Or.inr (by decide)
  · intro b off rec hb ho
    obtain ⟨rfl, hr⟩ := ho
    rcases hb with rfl | rfl <;> rcases hr with rfl | rfl
    · have : newImage toy toyOld 0 [1] = toyOld := by decide
      rw [this]; exact detects_self _ _
    · have : newImage toy toyOld 0 [2] = toyNew := by decide
      rw [this]; exact toy_detects
    · have : newImage toy toyNew 0 [1] = toyOld := by decide
      rw [this]; exact toy_detects'
    · have : newImage toy toyNew 0 [2] = toyNew := by decide
      rw [this]; exact detects_self _ _

/-- two toy writers: number 0 writes record `[2]`, every other one record `[1]`; block writes split after 1 byte -/
def toyActors (entry : WPc) : Nat → Actor := fun j =>
  if j = 0 then { op := .raw 0 [2], off := 0, rcd := [2], cut := 1, pc := entry }
  else { op := .raw 0 [1], off := 0, rcd := [1], cut := 1, pc := entry }

theorem toyActors_ok (entry : WPc) (j : Nat) :
    (toyActors entry j).pc = entry ∧ (toyActors entry j).dead = false ∧
    (toyActors entry j).op = .raw (toyActors entry j).off (toyActors entry j).rcd ∧
    toyO (toyActors entry j).off (toyActors entry j).rcd := by
  unfold toyActors
  by_cases hj : j = 0 <;> simp [hj, toyO]

/-- non-vacuity of `C22_writers_old_or_new`: the hypotheses hold for the toy writers, and the run is not trivial
(writer 0 completes and is acknowledged, writer 1 dies between the two pieces of its block write, its lock
expires: every reader gets writer 0's block, restored from writer 1's backup) -/
example :
    let sched := List.replicate 11 (Ev.step 0) ++ List.replicate 7 (Ev.step 1) ++ [Ev.kill 1, Ev.expire]
    let s := Sys.run toy false ⟨⟨⟨toyOld, none⟩, none⟩, toyActors .lockPre⟩ sched
    s.sh = ⟨⟨[1, 3, 0, 0, 0], some toyNew⟩, none⟩ ∧
    ackLog toy false ⟨⟨⟨toyOld, none⟩, none⟩, toyActors .lockPre⟩ sched = [0] ∧
    readMany toy [true, false] s.sh.disk = [.ok toyNew, .ok toyNew] := by
  decide +kernel

/-- **With the backup deleted after the unlock the statement fails.** Writer 0 writes, unlocks and is parked
before its `deleteCow`; writer 1 takes the lock, makes its backup, writes the first piece of its block and dies;
writer 0's late `deleteCow` removes writer 1's backup: the reader finds a torn block and nothing to restore it
from, and is handed `[1, 3, 0, 0, 0]` — neither version. -/
theorem C22_late_delete_counterexample : ¬ Statement_C22_writers true .lockPre := by
  intro h
  obtain ⟨v, hgv, hr⟩ := h toy toyG toyO toy_good toyOld (Or.inl rfl) (toyActors .lockPre) (toyActors_ok _)
    (List.replicate 10 (Ev.step 0) ++ List.replicate 7 (Ev.step 1) ++ [Ev.step 0, Ev.kill 1, Ev.expire])
  have h1 := hr [true] (.ok [1, 3, 0, 0, 0]) (by decide +kernel)
  injection h1 with h1
  subst h1
  rcases hgv with e | e <;> exact absurd e (by decide)

/-- **With the registry's unlocked block check in front (the code as it is) the statement fails too** (finding
C22-F2). Writer 0 has made its backup and is about to write; writer 1's `findOneFileRegion` reads the still valid
block and "cleans up" the backup (`readAndRestoreBlock`: valid block → `deleteCow`); writer 0 writes the first
piece and dies: torn block, no backup, the reader is handed `[2, 2, 0, 0, 0]`. -/
theorem C22_unlocked_check_counterexample : ¬ Statement_C22_writers false .aRead := by
  intro h
  obtain ⟨v, hgv, hr⟩ := h toy toyG toyO toy_good toyOld (Or.inl rfl) (toyActors .aRead) (toyActors_ok _)
    (List.replicate 8 (Ev.step 0) ++ [Ev.step 1, Ev.step 1, Ev.step 0, Ev.kill 0, Ev.expire])
  have h1 := hr [true] (.ok [2, 2, 0, 0, 0]) (by decide +kernel)
  injection h1 with h1
  subst h1
  rcases hgv with e | e <;> exact absurd e (by decide)

end Sop.C22
