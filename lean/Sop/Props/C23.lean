import Sop.Model.BlockCow
import Sop.Lemmas.Crc32
/-! # C23 — corrupted registry data is reported, never served

`Statement_C23` is the property at full strength. The code VIOLATES it (`C23_counterexample`): when the block's
checksum fails and the backup is absent, empty or unusable, `readAndRestoreBlock` returns `nil` and every caller
goes on with the unverified buffer (`C23_defect` is the exact characterisation). What does hold for the code as it
is: `C23_partial` (whenever the block is valid or a usable backup exists, what is served passed its checksum), and
for the repaired reader `readAndRestoreFixed` the full statement (`C23_reject_fixed`). The link from "corrupted"
to "fails the checksum" is proved for the concrete CRC-32 and every corruption confined to one byte (hence every
single-bit flip): `C23_data_byte_corruption_detected`, `C23_trailer_byte_corruption_detected`.
-/
namespace Sop.C23
open Sop.BlockCow Sop.Handle

/-- the backup file can restore the block: it exists, has block size, passes its checksum -/
def usableCow (P : Params) (cow : Option (List Nat)) : Bool :=
  match cow with
  | none => false
  | some data => data.length == P.n && data.length != 0 && valid P data

/-- "reported, never served": the read fails, so does every operation that touches the block, and nothing on
disk changes -/
def Rejects (P : Params) (rd : Bool → Disk → Res × Disk) (d : Disk) : Prop :=
  (∀ rw, rd rw d = (.err, d)) ∧
  (∀ rw id, getOpW rd rw d id = (.err, d)) ∧
  (∀ h, setOpW P rd d h = (.err, d)) ∧
  (∀ h, addOpW P rd d h = (.err, d)) ∧
  (∀ id, rmOpW P rd d id = (.err, d))

/-- C23 at full strength, about the code as it is -/
def Statement_C23 : Prop :=
  ∀ (P : Params) (d : Disk), d.blk.length = P.n → valid P d.blk = false → usableCow P d.cow = false →
    Rejects P (readAndRestore P) d

theorem checkCow_unusable (P : Params) (cow : Option (List Nat)) (h : usableCow P cow = false) :
    checkCow P cow = ([], false) ∨ checkCow P cow = ([], true) := by
  unfold usableCow at h
  unfold checkCow
  cases cow with
  | none => simp
  | some data =>
    simp only at h ⊢
    by_cases h0 : data.length = 0
    · simp [h0]
    · by_cases hn : data.length = P.n
      · have hP : ¬ P.n = 0 := by omega
        have hv : valid P data = false := by simpa [hn, hP] using h
        simp [hn, hv, hP]
      · simp [h0, hn]

/-- **The defect, exactly**: checksum fails and no usable backup → the unverified block is handed to the caller
as if it were good, and nothing is reported. -/
theorem C23_defect (P : Params) (rw : Bool) (d : Disk) (hl : d.blk.length = P.n)
    (hv : valid P d.blk = false) (hc : usableCow P d.cow = false) :
    readAndRestore P rw d = (.ok d.blk, d) := by
  unfold readAndRestore
  rcases checkCow_unusable P d.cow hc with e | e <;> simp [hl, hv, e]

/-- a 5-byte toy block format: one data byte, checksum = data byte + 1 -/
def toy : Params := { n := 5, crc := fun d => d.headD 0 + 1 }

/-- **C23 is violated**: a block failing its checksum, with no backup file, is served. -/
theorem C23_counterexample : ¬ Statement_C23 := by
  intro h
  have h1 := (h toy ⟨[7, 9, 0, 0, 0], none⟩ rfl (by decide) (by decide)).1 true
  revert h1
  decide

/-- **What holds for the code as it is**: if the block is valid or a usable backup exists, the buffer handed to
the caller passed its checksum (it is the block itself, or the backup). -/
theorem C23_partial (P : Params) (rw : Bool) (d : Disk) (hl : d.blk.length = P.n)
    (h : valid P d.blk = true ∨ usableCow P d.cow = true) :
    ∃ buf, (readAndRestore P rw d).1 = .ok buf ∧ valid P buf = true ∧
      (buf = d.blk ∨ d.cow = some buf) := by
  by_cases hv : valid P d.blk = true
  · exact ⟨d.blk, by simp [readAndRestore, hl, hv], hv, Or.inl rfl⟩
  · rcases h with h | h
    · exact absurd h hv
    · obtain ⟨blk, cow⟩ := d
      cases cow with
      | none => simp [usableCow] at h
      | some data =>
        simp only [usableCow, Bool.and_eq_true, beq_iff_eq, bne_iff_ne, ne_eq] at h
        obtain ⟨⟨h1, h2⟩, h3⟩ := h
        refine ⟨data, ?_, h3, Or.inr rfl⟩
        simp only at hl hv
        have hP : ¬ P.n = 0 := by omega
        simp [readAndRestore, hl, hv, checkCow, h1, h3, hP]

/-- non-vacuity of `C23_partial`'s hypothesis on a non-trivial state: an invalid block with a usable backup -/
example : valid toy [7, 9, 0, 0, 0] = false ∧ usableCow toy (some [1, 2, 0, 0, 0]) = true ∧
    readAndRestore toy true ⟨[7, 9, 0, 0, 0], some [1, 2, 0, 0, 0]⟩ = (.ok [1, 2, 0, 0, 0], ⟨[1, 2, 0, 0, 0], some [1, 2, 0, 0, 0]⟩) := by
  decide

/-! ### the writer's own crash: a torn (first) write of a block is reported or restored, never served

`crashDisk skipZero old new cp` (model) is what `writeBlockRegionPayload` leaves behind when the process dies at
`cp`. For the code as it is (`skipZero = false`: the backup is written for EVERY pre-image, the all-zero one of a
never written block included) whatever a reader or the next writer is handed afterwards is an error or passed its
checksum. The variant that skips the backup of an all-zero pre-image serves the torn first write. -/

/-- the outcome of a block read is an error, or a buffer that passed its checksum -/
def Verified (P : Params) (r : Res) : Prop := r = .err ∨ ∃ buf, r = .ok buf ∧ valid P buf = true

/-- "a writer that dies anywhere leaves nothing unverified to be served", for a variant of the writer -/
def Statement_C23_writer (skipZero : Bool) : Prop :=
  ∀ (P : Params) (old new : Block), old.length = P.n → valid P old = true → new.length = P.n →
    valid P new = true → ∀ (cp : CrashPoint) (rw : Bool),
      Verified P (readAndRestore P rw (crashDisk skipZero old new cp)).1

theorem valid_len' {P : Params} {b : Block} (h : valid P b = true) : 4 ≤ b.length := by
  unfold valid at h
  by_cases hl : b.length < 4
  · simp [hl] at h
  · omega

theorem usable_of_valid (P : Params) (old : Block) (hl : old.length = P.n) (hv : valid P old = true) :
    usableCow P (some old) = true := by
  have h4 := valid_len' hv
  have hP : ¬ P.n = 0 := by omega
  simp [usableCow, hl, hv, hP]

theorem verified_of_servable (P : Params) (rw : Bool) (d : Disk)
    (h : valid P d.blk = true ∨ usableCow P d.cow = true) : Verified P (readAndRestore P rw d).1 := by
  by_cases hl : d.blk.length = P.n
  · obtain ⟨buf, h1, h2, _⟩ := C23_partial P rw d hl h
    exact Or.inr ⟨buf, h1, h2⟩
  · left; simp [readAndRestore, hl]

/-- **C23 for the writer's own crashes, code as it is**: every crash point — before / inside the backup write (any
prefix), inside the block write (any prefix, any set of sectors), after it —, every pre-image (all-zero = never
written block included), read-write or read-only reader. -/
theorem C23_writer_crash_verified : Statement_C23_writer false := by
  intro P old new hlo hvo hln hvn cp rw
  have hu := usable_of_valid P old hlo hvo
  cases cp with
  | before => exact verified_of_servable P rw _ (Or.inl hvo)
  | cow k => exact verified_of_servable P rw _ (Or.inl hvo)
  | torn L => exact verified_of_servable P rw _ (Or.inr (by simpa [crashDisk, backsUp] using hu))
  | mask s bits => exact verified_of_servable P rw _ (Or.inr (by simpa [crashDisk, backsUp] using hu))
  | after => exact verified_of_servable P rw _ (Or.inl hvn)

/-- an all-zero block of block size passes `unmarshalData` -/
theorem valid_zero (P : Params) (z : Block) (hz : isZero z = true) (h4 : 4 ≤ z.length) : valid P z = true := by
  unfold valid
  have : ¬ z.length < 4 := by omega
  simp [this, hz]

/-- **a torn FIRST write of a never written block is restored to the all-zero pre-image**: whenever the block the
dead writer left fails its checksum, the reader is handed the all-zero block (so no record of the never committed
write exists), and a read-write reader puts it back on disk. -/
theorem C23_torn_first_write_restored (P : Params) (z new : Block) (hz : isZero z = true) (hl : z.length = P.n)
    (h4 : 4 ≤ P.n) (hvn : valid P new = true) (cp : CrashPoint) (rw : Bool)
    (hlen : (crashDisk false z new cp).blk.length = P.n)
    (hbad : valid P (crashDisk false z new cp).blk = false) :
    (readAndRestore P rw (crashDisk false z new cp)).1 = .ok z ∧
    (rw = true → (readAndRestore P rw (crashDisk false z new cp)).2.blk = z) := by
  have hv : valid P z = true := valid_zero P z hz (by omega)
  have hP : ¬ P.n = 0 := by omega
  have hcc : checkCow P (some z) = (z, true) := by simp [checkCow, hl, hv, hP]
  have hzn : ¬ z.length = 0 := by omega
  cases cp with
  | before => simp [crashDisk] at hbad; rw [hv] at hbad; exact absurd hbad (by decide)
  | cow k => simp [crashDisk] at hbad; rw [hv] at hbad; exact absurd hbad (by decide)
  | torn L =>
    simp only [crashDisk, backsUp, Bool.false_and, Bool.not_false, if_true] at hlen hbad ⊢
    cases rw <;> simp [readAndRestore, hlen, hbad, hcc, hzn]
  | mask s bits =>
    simp only [crashDisk, backsUp, Bool.false_and, Bool.not_false, if_true] at hlen hbad ⊢
    cases rw <;> simp [readAndRestore, hlen, hbad, hcc, hzn]
  | after =>
    simp only [crashDisk] at hbad
    rw [hvn] at hbad; exact absurd hbad (by decide)

/-- the next writer merges its record into a buffer that passed its checksum (or fails) -/
theorem C23_next_writer_merges_verified (P : Params) (old new : Block) (hlo : old.length = P.n)
    (hvo : valid P old = true) (hln : new.length = P.n) (hvn : valid P new = true) (cp : CrashPoint)
    (off : Nat) (rec : List Nat) :
    (updateBlock P (crashDisk false old new cp) off rec).1 = .err ∨
    ∃ buf, valid P buf = true ∧
      updateBlock P (crashDisk false old new cp) off rec =
        (.ok (newImage P buf off rec), ⟨newImage P buf off rec, none⟩) := by
  rcases C23_writer_crash_verified P old new hlo hvo hln hvn cp true with e | ⟨buf, e, hv⟩
  · left
    unfold updateBlock updateBlockW
    cases hr : readAndRestore P true (crashDisk false old new cp) with
    | mk r d' => rw [hr] at e; simp only at e; subst e; rfl
  · right
    refine ⟨buf, hv, ?_⟩
    unfold updateBlock updateBlockW
    cases hr : readAndRestore P true (crashDisk false old new cp) with
    | mk r d' => rw [hr] at e; simp only at e; subst e; rfl

/-- **The variant that skips the backup of an all-zero pre-image violates it**: a never written toy block, first
write `[7, 8, 0, 0, 0]` torn after one byte: no backup, the reader is handed `[7, 0, 0, 0, 0]`, which fails its
checksum. -/
theorem C23_skip_zero_backup_counterexample : ¬ Statement_C23_writer true := by
  intro h
  have h1 := h toy [0, 0, 0, 0, 0] [7, 8, 0, 0, 0] rfl (by decide) rfl (by decide) (.torn 1) true
  have h2 : (readAndRestore toy true (crashDisk true [0, 0, 0, 0, 0] [7, 8, 0, 0, 0] (.torn 1))).1 =
      .ok [7, 0, 0, 0, 0] := by decide +kernel
  rw [h2] at h1
  rcases h1 with e | ⟨buf, e, hv⟩
  · exact absurd e (by decide)
  · injection e with e
    subst e
    exact absurd hv (by decide)

/-- non-vacuity: under the code's own discipline the same torn first write is restored to the empty block -/
example : readAndRestore toy true (crashDisk false [0, 0, 0, 0, 0] [7, 8, 0, 0, 0] (.torn 1)) =
    (.ok [0, 0, 0, 0, 0], ⟨[0, 0, 0, 0, 0], some [0, 0, 0, 0, 0]⟩) := by decide +kernel

/-! ### the repaired reader satisfies the full statement -/

theorem fixed_rejects_read (P : Params) (rw : Bool) (d : Disk) (hl : d.blk.length = P.n)
    (hv : valid P d.blk = false) (hc : usableCow P d.cow = false) :
    readAndRestoreFixed P rw d = (.err, d) := by
  unfold readAndRestoreFixed
  rcases checkCow_unusable P d.cow hc with e | e <;> simp [hl, hv, e]

/-- **C23 for the repaired reader** (error instead of the two `return nil`): lookups and updates on a block
that fails its checksum and has no usable backup fail, and neither the block nor the backup file changes. -/
theorem C23_reject_fixed (P : Params) (d : Disk) (hl : d.blk.length = P.n)
    (hv : valid P d.blk = false) (hc : usableCow P d.cow = false) :
    Rejects P (readAndRestoreFixed P) d := by
  have hr := fun rw => fixed_rejects_read P rw d hl hv hc
  refine ⟨hr, ?_, ?_, ?_, ?_⟩
  · intro rw id; simp [getOpW, hr, lookupRes]
  · intro h; simp [setOpW, hr]
  · intro h; simp [addOpW, hr]
  · intro id; simp [rmOpW, hr]

/-- and it still serves everything the present reader serves legitimately -/
theorem fixed_agrees_when_servable (P : Params) (rw : Bool) (d : Disk)
    (h : valid P d.blk = true ∨ usableCow P d.cow = true) :
    readAndRestoreFixed P rw d = readAndRestore P rw d := by
  unfold readAndRestoreFixed readAndRestore
  by_cases hl : d.blk.length = P.n
  · by_cases hv : valid P d.blk = true
    · simp [hl, hv]
    · rcases h with h | h
      · exact absurd h hv
      · obtain ⟨blk, cow⟩ := d
        cases cow with
        | none => simp [usableCow] at h
        | some data =>
          simp only [usableCow, Bool.and_eq_true, beq_iff_eq, bne_iff_ne, ne_eq] at h
          obtain ⟨⟨h1, h2⟩, h3⟩ := h
          simp only at hl hv
          have hP : ¬ P.n = 0 := by omega
          simp [hl, hv, checkCow, h1, h3, hP]
  · simp [hl]

/-! ### corrupted ⇒ checksum fails, for the real CRC-32 and any change confined to one byte -/

theorem ofLE_single_byte (pre suf : List Nat) (x y : Nat) (hxy : x ≠ y) :
    ofLE (pre ++ x :: suf) ≠ ofLE (pre ++ y :: suf) := by
  induction pre with
  | nil => simp only [List.nil_append, ofLE]; omega
  | cons a l ih => simp only [List.cons_append, ofLE]; omega

theorem valid_split (P : Params) (data tr : List Nat) (ht : tr.length = 4) :
    valid P (data ++ tr) = (isZero (data ++ tr) || (P.crc data == ofLE tr)) := by
  unfold valid
  have h1 : ¬ (data ++ tr).length < 4 := by simp [ht]
  have h2 : (data ++ tr).length - 4 = data.length := by simp [ht]
  rw [if_neg h1, h2, List.take_left' rfl, List.drop_left' rfl]

/-- one byte of the DATA part changed (any single-bit flip there is such a change): the stored checksum no longer
matches. `hnz`: the written block is a checksummed one (not the all-zero sparse block); `hnz'`: the corrupted
block is not all zero. -/
theorem C23_data_byte_corruption_detected (n : Nat) (pre suf tr : List Nat) (x y : Nat)
    (hpre : bytesOk pre) (hsuf : bytesOk suf) (hx : x < 256) (hy : y < 256) (hxy : x ≠ y) (ht : tr.length = 4)
    (hnz : isZero ((pre ++ x :: suf) ++ tr) = false) (hnz' : isZero ((pre ++ y :: suf) ++ tr) = false)
    (hv : valid ⟨n, crc32⟩ ((pre ++ x :: suf) ++ tr) = true) :
    valid ⟨n, crc32⟩ ((pre ++ y :: suf) ++ tr) = false := by
  rw [valid_split _ _ _ ht, hnz] at hv
  rw [valid_split _ _ _ ht, hnz']
  simp only [Bool.false_or, beq_iff_eq] at hv
  simp only [Bool.false_or, beq_eq_false_iff_ne, ne_eq]
  intro e
  exact crc32_single_byte pre suf x y hpre hsuf hx hy hxy (hv.trans e.symm)

/-- one byte of the 4-byte TRAILER changed: the stored checksum no longer matches -/
theorem C23_trailer_byte_corruption_detected (P : Params) (data tpre tsuf : List Nat) (x y : Nat)
    (hxy : x ≠ y) (ht : (tpre ++ x :: tsuf).length = 4)
    (hnz : isZero (data ++ (tpre ++ x :: tsuf)) = false) (hnz' : isZero (data ++ (tpre ++ y :: tsuf)) = false)
    (hv : valid P (data ++ (tpre ++ x :: tsuf)) = true) :
    valid P (data ++ (tpre ++ y :: tsuf)) = false := by
  have ht' : (tpre ++ y :: tsuf).length = 4 := by simpa using ht
  rw [valid_split _ _ _ ht, hnz] at hv
  rw [valid_split _ _ _ ht', hnz']
  simp only [Bool.false_or, beq_iff_eq] at hv
  simp only [Bool.false_or, beq_eq_false_iff_ne, ne_eq]
  intro e
  exact ofLE_single_byte tpre tsuf x y hxy (hv.symm.trans e)

/-- a single-bit flip is a one-byte change that stays a byte -/
theorem flip_is_byte_change (x j : Nat) (hx : x < 256) (hj : j < 8) : x ^^^ 2 ^ j ≠ x ∧ x ^^^ 2 ^ j < 256 := by
  constructor
  · intro e
    have : x ^^^ 2 ^ j = x ^^^ 0 := by rw [Nat.xor_zero]; exact e
    have := xor_cancel_left _ _ _ this
    have hp : 0 < 2 ^ j := Nat.two_pow_pos j
    omega
  · have h2 : 2 ^ j < 2 ^ 8 := Nat.pow_lt_pow_right (by decide) hj
    exact Nat.xor_lt_two_pow (n := 8) hx h2

/-- non-vacuity: a concrete checksummed block under the real CRC-32 -/
example : valid ⟨8, crc32⟩ ([1, 2, 3, 4] ++ toLE 4 (crc32 [1, 2, 3, 4])) = true := by decide

end Sop.C23
