import Sop.Model.Handle
/-! # C24 — handle records round-trip and fit their disk block without overlap -/
namespace Sop.C24
open Sop.Handle

theorem toLE_length (k n : Nat) : (toLE k n).length = k := by
  induction k generalizing n with
  | zero => rfl
  | succ k ih => simp [toLE, ih]

theorem toLE_bytes (k n : Nat) : bytesOk (toLE k n) := by
  induction k generalizing n with
  | zero => intro b hb; simp [toLE] at hb
  | succ k ih =>
    intro b hb
    simp only [toLE, List.mem_cons] at hb
    rcases hb with rfl | hb
    · omega
    · exact ih _ b hb

theorem ofLE_toLE (k n : Nat) : ofLE (toLE k n) = n % 256^k := by
  induction k generalizing n with
  | zero => simp [toLE, ofLE, Nat.mod_one]
  | succ k ih =>
    simp only [toLE, ofLE, ih]
    rw [Nat.pow_succ, Nat.mul_comm (256^k) 256, Nat.mod_mul]

theorem ofU_toU_32 (v : Int) (h : -(2:Int)^31 ≤ v ∧ v < (2:Int)^31) : ofU 32 (toU 32 v % 256^4) = v := by
  unfold ofU toU
  have h1 : ((v % (2:Int)^32).toNat : Int) = v % (2:Int)^32 := Int.toNat_of_nonneg (Int.emod_nonneg _ (by decide))
  have h2 : (v % (2:Int)^32).toNat < 256^4 := by
    have := Int.emod_lt_of_pos v (show (0:Int) < (2:Int)^32 by decide)
    omega
  rw [Nat.mod_eq_of_lt h2]
  split <;> omega

theorem ofU_toU_64 (v : Int) (h : -(2:Int)^63 ≤ v ∧ v < (2:Int)^63) : ofU 64 (toU 64 v % 256^8) = v := by
  unfold ofU toU
  have h1 : ((v % (2:Int)^64).toNat : Int) = v % (2:Int)^64 := Int.toNat_of_nonneg (Int.emod_nonneg _ (by decide))
  have h2 : (v % (2:Int)^64).toNat < 256^8 := by
    have := Int.emod_lt_of_pos v (show (0:Int) < (2:Int)^64 by decide)
    omega
  rw [Nat.mod_eq_of_lt h2]
  split <;> omega

/-- every encoded record has exactly the size the source declares (`sop.HandleSizeInBytes`) -/
theorem encode_length (h : Handle) (wf : h.WF) : (encode h).length = Facts.handleSizeInBytes := by
  simp [encode, toLE_length, wf.lidLen, wf.aLen, wf.bLen, Facts.handleSizeInBytes]

theorem encode_bytes (h : Handle) (wf : h.WF) : bytesOk (encode h) := by
  intro b hb
  simp only [encode, List.mem_append, List.mem_singleton] at hb
  rcases hb with (((((hb | hb) | hb) | hb) | hb) | hb) | hb
  · exact wf.lidB b hb
  · exact wf.aB b hb
  · exact wf.bB b hb
  · subst hb; unfold boolByte; split <;> omega
  · exact toLE_bytes _ _ b hb
  · exact toLE_bytes _ _ b hb
  · subst hb; unfold boolByte; split <;> omega

/-- **round trip**: every handle decodes back to itself, for all ids, flags and the full int32/int64 ranges -/
theorem decode_encode (h : Handle) (wf : h.WF) : decode (encode h) = some h := by
  have hl := encode_length h wf
  obtain ⟨lid, idA, idB, activeB, version, wip, deleted⟩ := h
  have l1 := wf.lidLen; have l2 := wf.aLen; have l3 := wf.bLen
  simp only at l1 l2 l3
  unfold decode
  rw [hl]
  simp only [Facts.handleSizeInBytes, Nat.lt_irrefl, ↓reduceIte, Option.some.injEq]
  have e : encode ⟨lid, idA, idB, activeB, version, wip, deleted⟩ =
      lid ++ (idA ++ (idB ++ ([boolByte activeB] ++ (toLE 4 (toU 32 version) ++ (toLE 8 (toU 64 wip) ++ [boolByte deleted]))))) := by
    simp [encode, List.append_assoc]
  rw [e]
  have d16 : ∀ (a b : List Nat), a.length = 16 → (a ++ b).drop 16 = b := by
    intro a b h; rw [← h]; exact List.drop_left
  have t16 : ∀ (a b : List Nat), a.length = 16 → (a ++ b).take 16 = a := by
    intro a b h; rw [← h]; exact List.take_left
  have d32 : ∀ (a b c : List Nat), a.length = 16 → b.length = 16 → (a ++ (b ++ c)).drop 32 = c := by
    intro a b c h1 h2
    have : (a ++ (b ++ c)).drop 32 = ((a ++ (b ++ c)).drop 16).drop 16 := by rw [List.drop_drop]
    rw [this, d16 _ _ h1, d16 _ _ h2]
  have d48 : ∀ (a b c d : List Nat), a.length = 16 → b.length = 16 → c.length = 16 → (a ++ (b ++ (c ++ d))).drop 48 = d := by
    intro a b c d h1 h2 h3
    have : (a ++ (b ++ (c ++ d))).drop 48 = ((a ++ (b ++ (c ++ d))).drop 32).drop 16 := by rw [List.drop_drop]
    rw [this, d32 _ _ _ h1 h2, d16 _ _ h3]
  have hv : (toLE 4 (toU 32 version)).length = 4 := toLE_length _ _
  have hw : (toLE 8 (toU 64 wip)).length = 8 := toLE_length _ _
  have d49 : (lid ++ (idA ++ (idB ++ ([boolByte activeB] ++ (toLE 4 (toU 32 version) ++ (toLE 8 (toU 64 wip) ++ [boolByte deleted])))))).drop 49
      = toLE 4 (toU 32 version) ++ (toLE 8 (toU 64 wip) ++ [boolByte deleted]) := by
    have : ∀ l : List Nat, l.drop 49 = (l.drop 48).drop 1 := by intro l; rw [List.drop_drop]
    rw [this, d48 _ _ _ _ l1 l2 l3]; rfl
  have d53 : (lid ++ (idA ++ (idB ++ ([boolByte activeB] ++ (toLE 4 (toU 32 version) ++ (toLE 8 (toU 64 wip) ++ [boolByte deleted])))))).drop 53
      = toLE 8 (toU 64 wip) ++ [boolByte deleted] := by
    have : ∀ l : List Nat, l.drop 53 = (l.drop 49).drop 4 := by intro l; rw [List.drop_drop]
    rw [this, d49, ← hv]; exact List.drop_left
  have d61 : (lid ++ (idA ++ (idB ++ ([boolByte activeB] ++ (toLE 4 (toU 32 version) ++ (toLE 8 (toU 64 wip) ++ [boolByte deleted])))))).drop 61
      = [boolByte deleted] := by
    have : ∀ l : List Nat, l.drop 61 = (l.drop 53).drop 8 := by intro l; rw [List.drop_drop]
    rw [this, d53, ← hw]; exact List.drop_left
  rw [t16 _ _ l1, d16 _ _ l1, t16 _ _ l2, d32 _ _ _ l1 l2, t16 _ _ l3, d48 _ _ _ _ l1 l2 l3, d49, d53, d61]
  have tv : (toLE 4 (toU 32 version) ++ (toLE 8 (toU 64 wip) ++ [boolByte deleted])).take 4 = toLE 4 (toU 32 version) := by
    rw [← hv]; exact List.take_left
  have tw : (toLE 8 (toU 64 wip) ++ [boolByte deleted]).take 8 = toLE 8 (toU 64 wip) := by
    rw [← hw]; exact List.take_left
  rw [tv, tw, ofLE_toLE, ofLE_toLE, ofU_toU_32 _ wf.ver, ofU_toU_64 _ wf.wip]
  cases activeB <;> cases deleted <;> simp [boolByte]

/-- the slots and the checksum trailer fit in one block (all three constants regenerated from the source) -/
theorem layout : Facts.handlesPerBlock * Facts.handleSizeInBytes + 4 ≤ Facts.blockSize := by
  decide

/-- distinct slots occupy disjoint byte ranges -/
theorem slot_disjoint (i j k : Nat) (hij : i ≠ j) : ¬ (inSlot i k ∧ inSlot j k) := by
  unfold inSlot
  simp only [Facts.handleSizeInBytes]
  omega

/-- no slot overlaps the checksum trailer -/
theorem slot_crc_disjoint (i k : Nat) (hi : i < Facts.handlesPerBlock) : ¬ (inSlot i k ∧ inCrc k) := by
  unfold inSlot inCrc
  simp only [Facts.handleSizeInBytes, Facts.handlesPerBlock, Facts.blockSize] at *
  omega

/-- every id's computed offsets are block-aligned and leave room for the record before the checksum -/
theorem offset_in_bounds (high low md : Nat) (hmd : 0 < md) :
    (offsets high low md).1 % Facts.blockSize = 0 ∧
    (offsets high low md).1 + Facts.blockSize ≤ md * Facts.blockSize ∧
    (offsets high low md).2 + Facts.handleSizeInBytes ≤ Facts.blockSize - 4 ∧
    ∃ i, i < Facts.handlesPerBlock ∧ (offsets high low md).2 = i * Facts.handleSizeInBytes := by
  unfold offsets
  refine ⟨by simp, ?_, ?_, ⟨low % Facts.handlesPerBlock, Nat.mod_lt _ (by decide), rfl⟩⟩
  · have := Nat.mod_lt high hmd
    have : (high % md + 1) * Facts.blockSize ≤ md * Facts.blockSize := Nat.mul_le_mul_right _ this
    simp only [Nat.add_mul, Nat.one_mul] at this
    exact this
  · have := Nat.mod_lt low (show 0 < Facts.handlesPerBlock by decide)
    simp only [Facts.handlesPerBlock, Facts.handleSizeInBytes, Facts.blockSize] at *
    omega

theorem writeAt_length (blk rec : List Nat) (off : Nat) (h : off + rec.length ≤ blk.length) :
    (writeAt blk off rec).length = blk.length := by
  simp [writeAt]; omega

/-- **frame**: writing slot `i` changes no byte outside slot `i` (so no other slot and not the checksum area) -/
theorem writeSlot_frame (blk rec : List Nat) (i k : Nat)
    (hr : rec.length = Facts.handleSizeInBytes)
    (hb : (i+1) * Facts.handleSizeInBytes ≤ blk.length)
    (hk : ¬ inSlot i k) :
    (writeAt blk (i * Facts.handleSizeInBytes) rec)[k]? = blk[k]? := by
  unfold inSlot at hk
  unfold writeAt
  have e1 : (i+1) * Facts.handleSizeInBytes = i * Facts.handleSizeInBytes + Facts.handleSizeInBytes := by
    rw [Nat.add_mul, Nat.one_mul]
  have hle : i * Facts.handleSizeInBytes ≤ blk.length := by omega
  have hlen : (List.take (i * Facts.handleSizeInBytes) blk).length = i * Facts.handleSizeInBytes := by
    simp [Nat.min_eq_left hle]
  by_cases h1 : k < i * Facts.handleSizeInBytes
  · rw [List.append_assoc, List.getElem?_append_left (by omega)]
    simp [h1]
  · have h2 : (i+1) * Facts.handleSizeInBytes ≤ k := by omega
    rw [List.getElem?_append_right (by simp only [List.length_append, hlen, hr]; omega)]
    simp only [List.length_append, hlen, hr, List.getElem?_drop]
    congr 1
    omega

/-- and slot `i` afterwards holds exactly the record -/
theorem writeSlot_reads_back (blk rec : List Nat) (i : Nat)
    (hr : rec.length = Facts.handleSizeInBytes)
    (hb : (i+1) * Facts.handleSizeInBytes ≤ blk.length) :
    ((writeAt blk (i * Facts.handleSizeInBytes) rec).drop (i * Facts.handleSizeInBytes)).take Facts.handleSizeInBytes = rec := by
  unfold writeAt
  have e1 : (i+1) * Facts.handleSizeInBytes = i * Facts.handleSizeInBytes + Facts.handleSizeInBytes := by
    rw [Nat.add_mul, Nat.one_mul]
  have hle : i * Facts.handleSizeInBytes ≤ blk.length := by omega
  have hlen : (List.take (i * Facts.handleSizeInBytes) blk).length = i * Facts.handleSizeInBytes := by
    simp [Nat.min_eq_left hle]
  rw [List.append_assoc, List.drop_left' hlen, List.take_left' hr]

/-- non-vacuity: a concrete extreme handle meets `WF` -/
def sample : Handle :=
  { lid := List.replicate 16 255, idA := List.replicate 16 0, idB := List.replicate 16 171,
    activeB := true, version := -(2:Int)^31, wip := (2:Int)^63 - 1, deleted := true }

theorem sample_wf : sample.WF := by
  refine ⟨by decide, by decide, by decide, ?_, ?_, ?_, by decide, by decide⟩ <;>
  · intro b hb; simp [sample] at hb; omega

example : decode (encode sample) = some sample := decode_encode _ sample_wf

end Sop.C24
