import Sop.Lemmas.Erasure
/-! # C25 — erasure-coded blobs survive up to `p` damaged shards

About `Variant.fixed` (the code with `proposed_fixes/C25-ec-decode.diff`): the theorems. About
`Variant.orig` (the code as pinned): the counterexamples, each replayed on the real code by the
directed corpus of `harness/cmd/c25`. -/
namespace Sop.C25
open Sop.Erasure

/-- how many shard files differ from what `Add` wrote (absent, truncated, any byte changed) -/
def damaged (files0 : List Bytes) (fs : List (Option Bytes)) : Nat :=
  (fs.zip files0).countP fun x => x.1 != some x.2

/-- "md5 detects the modelled corruption": a shard file that is present and differs from what was
written at that position is either shorter than the 17-byte prefix or fails its own checksum.
(A file in which only the pad-count byte changed does not satisfy this: that byte is not covered.) -/
def ChecksumDetects (md5 : Bytes → Bytes) (files0 : List Bytes) (fs : List (Option Bytes)) : Prop :=
  ∀ x ∈ fs.zip files0, ∀ b, x.1 = some b → b ≠ x.2 → metaSize ≤ b.length →
    (b.take metaSize).drop 1 ≠ md5 (b.drop metaSize)

/-- the shard bodies as `GetOne` hands them to `Decode` -/
def bodies (fs : List (Option Bytes)) : List Shard := fs.map fun f => (rd f).1

/-- "the damage is not itself a code word": if every shard is present and Reed–Solomon `Verify`
accepts the set, it is the set that was written. Follows from the MDS law when at most `p` shards are
damaged (`verify_pass_eq`); an assumption beyond that (the fast path of `Decode` trusts `Verify`). -/
def NoAccidentalCodeword (C : Code) (data : Bytes) (fs : List (Option Bytes)) : Prop :=
  verify C (bodies fs) = .pass → bodies fs = (cwOf C data).map some

section
variable {C : Code} (hC : C.Laws) (md5 : Bytes → Bytes) (hmd : ∀ b, (md5 b).length = 16)
  (data : Bytes) (hdata : data ≠ []) (hd : 0 < C.d) (h256 : C.d < 256)
  (files0 : List Bytes) (he : encodeFiles C md5 data = some files0)
  (fs : List (Option Bytes)) (hlen : fs.length = files0.length)
include hC hmd hdata hd h256 he hlen

private theorem setup :
    files0 = (cwOf C data).map (shardFile md5 C.d data.length) ∧ 0 < data.length ∧
    (fs.zip (cwOf C data)).map (·.1) = fs ∧ (fs.zip (cwOf C data)).map (·.2) = cwOf C data ∧
    fs.zip files0 = (fs.zip (cwOf C data)).map (fun x => (x.1, shardFile md5 C.d data.length x.2)) := by
  have hpos : 0 < data.length := List.length_pos_iff.mpr hdata
  have hf : files0 = (cwOf C data).map (shardFile md5 C.d data.length) := by
    unfold encodeFiles encode at he
    rw [if_neg (by omega)] at he
    simp only [Option.map_some, Option.some.injEq] at he
    exact he.symm
  have hl2 : fs.length = (cwOf C data).length := by rw [hlen, hf, List.length_map]
  refine ⟨hf, hpos, ?_, ?_, ?_⟩
  · exact List.map_fst_zip (by omega)
  · exact List.map_snd_zip (by omega)
  · rw [hf, List.zip_map_right]
    apply List.map_congr_left
    intro x _; rfl

private theorem detects_tr (hdet : ChecksumDetects md5 files0 fs) :
    Detects md5 C.d data.length (fs.zip (cwOf C data)) := by
  obtain ⟨_, _, _, _, hz⟩ := setup hC md5 hmd data hdata hd h256 files0 he fs hlen
  intro x hx b hb hne hl
  refine hdet (x.1, shardFile md5 C.d data.length x.2) ?_ b hb hne hl
  rw [hz]
  exact List.mem_map.mpr ⟨x, hx, rfl⟩

private theorem intact_count :
    (fs.zip (cwOf C data)).countP (intact md5 C.d data.length) + damaged files0 fs = C.d + C.p := by
  obtain ⟨hf, hpos, h1, h2, hz⟩ := setup hC md5 hmd data hdata hd h256 files0 he fs hlen
  unfold damaged
  rw [hz, List.countP_map]
  have hn : (fs.zip (cwOf C data)).length = C.d + C.p := by
    have := congrArg List.length h2
    rw [List.length_map] at this
    rw [this]
    exact cw_length hC (perShard_pos C.d data.length hd hpos) hd (split_length C.d data) (split_each C.d data hd)
  rw [← hn, List.length_eq_countP_add_countP (intact md5 C.d data.length)]
  congr 1
  apply List.countP_congr
  intro x _
  simp [intact]

/-- what the fixed `GetOne` returns, for ANY state of the shard files: the stored bytes or an error —
never other bytes, never a panic. -/
theorem C25_read_safe (hdet : ChecksumDetects md5 files0 fs) (hnc : NoAccidentalCodeword C data fs)
    (repair : Bool) :
    (∃ idxs, (getOne .fixed C md5 repair fs).1 = .ok data idxs) ∨ (getOne .fixed C md5 repair fs).1 = .err := by
  obtain ⟨hf, hpos, h1, h2, hz⟩ := setup hC md5 hmd data hdata hd h256 files0 he fs hlen
  have hdt := detects_tr hC md5 hmd data hdata hd h256 files0 he fs hlen hdet
  rw [getOne_fixed_fst]
  split
  · exact Or.inr rfl
  · have e : fs.map rd = (fs.zip (cwOf C data)).map fun x => rd x.1 := by
      conv => lhs; rw [← h1, List.map_map]
      rfl
    have eb : bodies fs = ((fs.zip (cwOf C data)).map fun x => rd x.1).map (·.1) := by
      unfold bodies; rw [← e, List.map_map]; rfl
    rw [e]
    by_cases hv : verify C (((fs.zip (cwOf C data)).map fun x => rd x.1).map (·.1)) = .pass
    · rw [decode_fixed_fast hC md5 data hpos hd h256 hmd _ h2 hdt hv (by rw [← eb]; exact hnc (by rw [eb]; exact hv))]
      split
      · exact Or.inl ⟨_, rfl⟩
      · exact Or.inr rfl
    · rw [decode_fixed_slow hC md5 data hpos hd h256 hmd _ h2 hdt hv]
      split
      · exact Or.inl ⟨_, rfl⟩
      · exact Or.inr rfl

/-- **C25, read side**: at most `p` shard files damaged in any way the checksum detects ⇒ the fixed
`GetOne` returns exactly the stored bytes. All `d ≥ 1`, all `p`, every size ≥ 1 (`size % d ≠ 0`
included), any lawful code. -/
theorem C25_read (hdam : damaged files0 fs ≤ C.p) (hdet : ChecksumDetects md5 files0 fs) (repair : Bool) :
    ∃ idxs, (getOne .fixed C md5 repair fs).1 = .ok data idxs := by
  obtain ⟨hf, hpos, h1, h2, hz⟩ := setup hC md5 hmd data hdata hd h256 files0 he fs hlen
  have hdt := detects_tr hC md5 hmd data hdata hd h256 files0 he fs hlen hdet
  have hcnt := intact_count hC md5 hmd data hdata hd h256 files0 he fs hlen
  have hk : C.d ≤ (fs.zip (cwOf C data)).countP (intact md5 C.d data.length) := by omega
  have e : fs.map rd = (fs.zip (cwOf C data)).map fun x => rd x.1 := by
    conv => lhs; rw [← h1, List.map_map]
    rfl
  -- an intact file exists; its shard is read, and its metadata matches
  obtain ⟨x, hx, hi⟩ := List.countP_pos_iff.mp (show 0 < (fs.zip (cwOf C data)).countP (intact md5 C.d data.length) by omega)
  have hrx : rd x.1 = (some x.2, some (padCount C.d data.length :: md5 x.2)) := by
    obtain ⟨f, c⟩ := x
    simp only [intact, beq_iff_eq] at hi
    subst hi
    exact rd_file md5 C.d data.length hmd c
  rw [getOne_fixed_fst, e]
  rw [if_neg]
  · by_cases hv : verify C (((fs.zip (cwOf C data)).map fun x => rd x.1).map (·.1)) = .pass
    · have h2' := verify_pass_eq hC md5 data hpos hd h256 hmd _ h2 hdt hk (by rw [List.map_map] at hv; exact hv)
      rw [decode_fixed_fast hC md5 data hpos hd h256 hmd _ h2 hdt hv (by rw [List.map_map]; exact h2')]
      rw [if_pos]
      · exact ⟨_, rfl⟩
      · rw [List.any_eq_true]
        refine ⟨rd x.1, List.mem_map.mpr ⟨x, hx, rfl⟩, ?_⟩
        rw [hrx]
        simp [metaMatches, hmd, metaSize]
    · rw [decode_fixed_slow hC md5 data hpos hd h256 hmd _ h2 hdt hv, if_pos hk]
      exact ⟨_, rfl⟩
  · intro hall
    rw [List.all_eq_true] at hall
    have := hall (rd x.1) (List.mem_map.mpr ⟨x, hx, rfl⟩)
    rw [hrx] at this
    simp at this

/-- beyond parity: fewer than `d` intact files and at least one shard body missing or altered ⇒ an error -/
theorem C25_read_beyond (hdam : C.p < damaged files0 fs) (hbody : bodies fs ≠ (cwOf C data).map some)
    (hdet : ChecksumDetects md5 files0 fs) (hnc : NoAccidentalCodeword C data fs) (repair : Bool) :
    (getOne .fixed C md5 repair fs).1 = .err := by
  obtain ⟨hf, hpos, h1, h2, hz⟩ := setup hC md5 hmd data hdata hd h256 files0 he fs hlen
  have hdt := detects_tr hC md5 hmd data hdata hd h256 files0 he fs hlen hdet
  have hcnt := intact_count hC md5 hmd data hdata hd h256 files0 he fs hlen
  have e : fs.map rd = (fs.zip (cwOf C data)).map fun x => rd x.1 := by
    conv => lhs; rw [← h1, List.map_map]
    rfl
  have eb : bodies fs = ((fs.zip (cwOf C data)).map fun x => rd x.1).map (·.1) := by
    unfold bodies; rw [← e, List.map_map]; rfl
  rw [getOne_fixed_fst]
  split
  · rfl
  · rw [e, decode_fixed_slow hC md5 data hpos hd h256 hmd _ h2 hdt (by
      intro hv; exact hbody (hnc (by rw [eb]; exact hv))), if_neg (by omega)]

end

/-- **C25, write side**: `Add` of a non-empty blob succeeds exactly when at most `p` shard writes fail -/
theorem C25_write (C : Code) (md5 : Bytes → Bytes) (data : Bytes) (hdata : data ≠ []) (fail : List Bool)
    (old : List (Option Bytes)) : (add C md5 data fail old).1 = true ↔ fail.count true ≤ C.p := by
  have hpos : 0 < data.length := List.length_pos_iff.mpr hdata
  unfold add encodeFiles encode
  rw [if_neg (by omega)]
  simp

/-- … and an empty blob is refused whatever the drives do (`reedsolomon.Split`: `ErrShortData`) -/
theorem C25_write_empty (C : Code) (md5 : Bytes → Bytes) (fail : List Bool) (old : List (Option Bytes)) :
    (add C md5 [] fail old).1 = false := by
  simp [add, encodeFiles, encode]

/-- a tolerated write is a readable blob: the shards whose write failed are simply missing -/
theorem C25_write_then_read {C : Code} (hC : C.Laws) (md5 : Bytes → Bytes) (hmd : ∀ b, (md5 b).length = 16)
    (data : Bytes) (hdata : data ≠ []) (hd : 0 < C.d) (h256 : C.d < 256) (fail : List Bool)
    (hfl : fail.length = C.d + C.p) (hok : (add C md5 data fail (List.replicate (C.d + C.p) none)).1 = true)
    (repair : Bool) :
    ∃ idxs, (getOne .fixed C md5 repair (add C md5 data fail (List.replicate (C.d + C.p) none)).2).1 = .ok data idxs := by
  have hpos : 0 < data.length := List.length_pos_iff.mpr hdata
  have hcnt := (C25_write C md5 data hdata fail _).mp hok
  have he : encodeFiles C md5 data = some ((cwOf C data).map (shardFile md5 C.d data.length)) := by
    unfold encodeFiles encode cwOf
    rw [if_neg (by omega)]; rfl
  have hcl : (cwOf C data).length = C.d + C.p :=
    cw_length hC (perShard_pos C.d data.length hd hpos) hd (split_length C.d data) (split_each C.d data hd)
  have hadd : (add C md5 data fail (List.replicate (C.d + C.p) none)).2 =
      writeShards (List.replicate (C.d + C.p) none) ((cwOf C data).map (shardFile md5 C.d data.length)) fail := by
    unfold add; rw [he]
  rw [hadd]
  -- a general fact about `writeShards` over a blank directory
  have key : ∀ (n : Nat) (files : List Bytes) (fl : List Bool), files.length = n → fl.length = n →
      (writeShards (List.replicate n none) files fl).length = n ∧
      damaged files (writeShards (List.replicate n none) files fl) ≤ fl.count true ∧
      ChecksumDetects md5 files (writeShards (List.replicate n none) files fl) := by
    intro n
    induction n with
    | zero =>
      intro files fl h1 h2
      simp [writeShards, damaged, ChecksumDetects]
    | succ n ih =>
      intro files fl h1 h2
      cases files with
      | nil => simp at h1
      | cons f files =>
        cases fl with
        | nil => simp at h2
        | cons b fl =>
          simp only [List.length_cons, Nat.add_right_cancel_iff] at h1 h2
          obtain ⟨i1, i2, i3⟩ := ih files fl h1 h2
          simp only [List.replicate_succ, writeShards]
          refine ⟨by simp [i1], ?_, ?_⟩
          · unfold damaged at i2 ⊢
            simp only [List.zip_cons_cons, List.countP_cons, List.count_cons]
            cases b <;> simp <;> omega
          · intro x hx bb hb hne hl
            simp only [List.zip_cons_cons, List.mem_cons] at hx
            rcases hx with rfl | hx
            · cases b <;> simp at hb
              exact absurd hb.symm hne
            · exact i3 x hx bb hb hne hl
  obtain ⟨k1, k2, k3⟩ := key (C.d + C.p) ((cwOf C data).map (shardFile md5 C.d data.length)) fail
    (by rw [List.length_map, hcl]) hfl
  exact C25_read hC md5 hmd data hdata hd h256 _ he _ (by simp [k1, hcl]) (by omega) k3 repair

/-! ## The hypotheses are satisfiable: a lawful code, a checksum, a damaged state -/

private theorem find_mask (s : Bytes) : ∀ (n : Nat) (mask : List (Option Bytes)), IsMask mask (List.replicate n s) →
    0 < mask.countP Option.isSome → mask.find? Option.isSome = some (some s) := by
  intro n
  induction n with
  | zero => intro mask hm hc; cases mask <;> simp_all [IsMask]
  | succ n ih =>
    intro mask hm hc
    cases mask with
    | nil => simp [IsMask] at hm
    | cons m ms =>
      simp only [List.replicate_succ, IsMask] at hm
      rcases hm.1 with rfl | rfl
      · simp only [List.countP_cons, Option.isSome_none, Bool.false_eq_true, if_false, Nat.add_zero] at hc
        simp [List.find?_cons, ih ms hm.2 hc]
      · simp [List.find?_cons]

/-- the MDS laws are satisfiable: the repetition code (`d = 1`, any `p`) -/
theorem repCode_laws (p : Nat) : (repCode p).Laws where
  parity_shape := by
    intro ds L hds hl
    cases ds with
    | nil => simp [repCode] at hds
    | cons s t =>
      simp only [repCode, List.headD_cons, List.length_replicate, true_and]
      intro x hx
      rw [List.eq_of_mem_replicate hx]
      exact hl s (List.mem_cons_self ..)
  recon_spec := by
    intro ds L mask hds _ hm hc
    cases ds with
    | nil => simp [repCode] at hds
    | cons s t =>
      cases t with
      | cons _ _ => simp [repCode] at hds
      | nil =>
        simp only [repCode, List.headD_cons, List.singleton_append] at hm hc ⊢
        rw [← List.replicate_succ] at hm
        rw [find_mask s _ mask hm (by omega)]
        simp [List.replicate_succ, Nat.add_comm]

/-- a toy checksum with the right length -/
def toyMd5 (b : Bytes) : Bytes := (b.foldl (· + ·) 7 % 256) :: List.replicate 15 0

theorem toyMd5_length (b : Bytes) : (toyMd5 b).length = 16 := by simp [toyMd5]

/-- the file of the blob `[1,2,3]` under `repCode p` and `toyMd5` (every shard is a copy) -/
def f123 : Bytes := 0 :: toyMd5 [1, 2, 3] ++ [1, 2, 3]
/-- the same file with one body byte flipped -/
def f123c : Bytes := 0 :: toyMd5 [1, 2, 3] ++ [1, 9, 3]

/-- non-vacuity of `C25_read`: one missing and one corrupted shard within `p = 2` — the very input
that kills the pinned code (`C25_counterexample_nil_metadata`) — satisfies every hypothesis -/
example : ∃ idxs, (getOne .fixed (repCode 2) toyMd5 false [none, some f123c, some f123]).1 = .ok [1, 2, 3] idxs :=
  C25_read (repCode_laws 2) toyMd5 toyMd5_length [1, 2, 3] (by simp) (by decide) (by decide)
    [f123, f123, f123] (by rfl) [none, some f123c, some f123] rfl (by decide)
    (by
      intro x hx b hb hne hl
      simp only [List.zip_cons_cons, List.zip_nil_right, List.mem_cons, List.not_mem_nil, or_false] at hx
      rcases hx with rfl | rfl | rfl
      · simp at hb
      · simp only [Option.some.injEq] at hb
        subst hb
        decide
      · simp only [Option.some.injEq] at hb
        exact absurd hb.symm hne) false

/-! ## The pinned code (`Variant.orig`) violates the property: concrete witnesses

Each is replayed on the real code by the directed corpus of `harness/cmd/c25`. -/

/-- the full-strength statement, for either variant -/
def Statement_C25 (v : Variant) : Prop :=
  ∀ (C : Code), C.Laws → ∀ (md5 : Bytes → Bytes), (∀ b, (md5 b).length = 16) → ∀ (data : Bytes), data ≠ [] →
    0 < C.d → C.d < 256 → ∀ files0, encodeFiles C md5 data = some files0 → ∀ fs : List (Option Bytes),
    fs.length = files0.length → damaged files0 fs ≤ C.p → ChecksumDetects md5 files0 fs →
    ∃ idxs, (getOne v C md5 false fs).1 = .ok data idxs

theorem Statement_C25_fixed : Statement_C25 .fixed :=
  fun _ hC md5 hmd data hdata hd h256 files0 he fs hlen hdam hdet =>
    C25_read hC md5 hmd data hdata hd h256 files0 he fs hlen hdam hdet false

/-- (1) a shard file shorter than its 17-byte prefix: a worker goroutine of `GetOne` slices out of range -/
theorem C25_counterexample_short_file :
    (getOne .orig (repCode 2) toyMd5 false [some [0, 0, 0, 0, 0], some f123, some f123]).1 = .panic := by decide

/-- (2) one missing and one corrupted shard, within `p = 2`: `detectBadShardsThenReconstruct` slices the nil metadata entry -/
theorem C25_counterexample_nil_metadata :
    (getOne .orig (repCode 2) toyMd5 false [none, some f123c, some f123]).1 = .panic := by decide

/-- (3) beyond parity (`p = 1`, two damaged): the corrupted shard is used to rebuild the missing one, `Verify`
passes trivially, wrong bytes come back with a nil error -/
theorem C25_counterexample_wrong_bytes :
    (getOne .orig (repCode 1) toyMd5 false [none, some f123c]).1 = .ok [1, 9, 3] [0] := by decide

/-- (4) a shard truncated after its prefix, within parity: `ErrShardSize`, the read fails -/
theorem C25_counterexample_truncated :
    (getOne .orig (repCode 2) toyMd5 false [some (f123.take 18), some f123, some f123]).1 = .err := by decide

theorem C25_counterexample : ¬ Statement_C25 .orig := by
  intro h
  have := h (repCode 2) (repCode_laws 2) toyMd5 toyMd5_length [1, 2, 3] (by simp) (by decide) (by decide)
    [f123, f123, f123] (by rfl) [some [0, 0, 0, 0, 0], some f123, some f123] rfl (by decide)
    (by
      intro x hx b hb hne hl
      simp only [List.zip_cons_cons, List.zip_nil_right, List.mem_cons, List.not_mem_nil, or_false] at hx
      rcases hx with rfl | rfl | rfl
      · simp only [Option.some.injEq] at hb
        subst hb
        simp [metaSize] at hl
      · simp only [Option.some.injEq] at hb
        exact absurd hb.symm hne
      · simp only [Option.some.injEq] at hb
        exact absurd hb.symm hne)
  rw [C25_counterexample_short_file] at this
  obtain ⟨_, h⟩ := this
  exact DecodeResult.noConfusion h

/-! ## What the repair does not cover (open findings) -/

/-- the pad-count byte is outside the checksum: with ONE shard file changed in that byte only (so
`ChecksumDetects` does not hold) the fixed code still returns a blob of the wrong length -/
theorem C25_pad_byte_unprotected :
    (getOne .fixed (repCode 2) toyMd5 false [some (1 :: f123.drop 1), some f123, some f123]).1 = .ok [1, 2] [] := by decide

/-- shard file `i` of blob `data` under the XOR code `d = 2, p = 1` -/
def xfile (data : Bytes) (i : Nat) : Bytes := ((encodeFiles (xorCode 2) toyMd5 data).getD []).getD i []
/-- shard file `i` of blob `a` with its body replaced by the body of blob `b`'s shard `i` (old checksum kept) -/
def swapped (a b : Bytes) (i : Nat) : Bytes := (xfile a i).take 17 ++ (xfile b i).drop 17

/-- without `NoAccidentalCodeword`: `p + 1 = 2` of 3 shards replaced by the bodies of another blob's
shards (old checksums kept, so both fail their checksum) pass `Verify`, and the other blob is returned -/
theorem C25_needs_no_accidental_codeword :
    (getOne .fixed (xorCode 2) toyMd5 false
      [some (swapped [1, 2, 3, 4] [9, 2, 3, 4] 0), some (xfile [1, 2, 3, 4] 1), some (swapped [1, 2, 3, 4] [9, 2, 3, 4] 2)]).1
      = .ok [9, 2, 3, 4] [] := by decide

end Sop.C25
