import Sop.Model.Erasure
namespace Sop.C25
end Sop.C25
