import Sop.Props.C25
/-! # C26 — shard auto-repair restores full redundancy (`RepairCorruptedShards = true`)

About `Variant.fixed`; on the pinned code the repairing read dies on mixed damage before any repair
(`C25.C25_counterexample_nil_metadata`). -/
namespace Sop.C26
open Sop.Erasure Sop.C25

/-- every damaged shard file is absent, shorter than the prefix, or damaged in its body (not in the
17-byte metadata prefix only — those are not repaired, see `C26_counterexample_metadata_only`) -/
def BodyDamage (files0 : List Bytes) (fs : List (Option Bytes)) : Prop :=
  ∀ x ∈ fs.zip files0, ∀ b, x.1 = some b → b ≠ x.2 → metaSize ≤ b.length →
    b.drop metaSize ≠ x.2.drop metaSize

/-- in how many positions two directory states differ -/
def differ (fs fs2 : List (Option Bytes)) : Nat := (fs2.zip fs).countP fun x => x.1 != x.2

section
variable {C : Code} (hC : C.Laws) (md5 : Bytes → Bytes) (hmd : ∀ b, (md5 b).length = 16)
  (data : Bytes) (hdata : data ≠ []) (hd : 0 < C.d) (h256 : C.d < 256)
  (files0 : List Bytes) (he : encodeFiles C md5 data = some files0)
  (fs : List (Option Bytes)) (hlen : fs.length = files0.length)
include hC hmd hdata hd h256 he hlen

/-- **C26**: with repair on, a read of a blob with at most `p` damaged shard files (damage the
checksum detects, not confined to the metadata prefix) returns the stored bytes AND leaves every
shard file byte-equal to a fresh encode. -/
theorem C26_repair (hdam : damaged files0 fs ≤ C.p) (hdet : ChecksumDetects md5 files0 fs)
    (hbody : BodyDamage files0 fs) :
    (∃ idxs, (getOne .fixed C md5 true fs).1 = .ok data idxs) ∧
      (getOne .fixed C md5 true fs).2.1 = files0.map some := by
  refine ⟨C25_read hC md5 hmd data hdata hd h256 files0 he fs hlen hdam hdet true, ?_⟩
  have hpos : 0 < data.length := List.length_pos_iff.mpr hdata
  have hf : files0 = (cwOf C data).map (shardFile md5 C.d data.length) := by
    unfold encodeFiles encode at he
    rw [if_neg (by omega)] at he
    simp only [Option.map_some, Option.some.injEq] at he
    exact he.symm
  have hl2 : fs.length = (cwOf C data).length := by rw [hlen, hf, List.length_map]
  have h1 : (fs.zip (cwOf C data)).map (·.1) = fs := List.map_fst_zip (by omega)
  have h2 : (fs.zip (cwOf C data)).map (·.2) = cwOf C data := List.map_snd_zip (by omega)
  have hz : fs.zip files0 = (fs.zip (cwOf C data)).map (fun x => (x.1, shardFile md5 C.d data.length x.2)) := by
    rw [hf, List.zip_map_right]
    apply List.map_congr_left
    intro x _; rfl
  have hdt : Detects md5 C.d data.length (fs.zip (cwOf C data)) := by
    intro x hx b hb hne hl
    refine hdet (x.1, shardFile md5 C.d data.length x.2) ?_ b hb hne hl
    rw [hz]; exact List.mem_map.mpr ⟨x, hx, rfl⟩
  have hcl : (cwOf C data).length = C.d + C.p :=
    cw_length hC (perShard_pos C.d data.length hd hpos) hd (split_length C.d data) (split_each C.d data hd)
  have hn : (fs.zip (cwOf C data)).length = C.d + C.p := by
    have := congrArg List.length h2
    rw [List.length_map] at this; omega
  have hcnt : (fs.zip (cwOf C data)).countP (intact md5 C.d data.length) + damaged files0 fs = C.d + C.p := by
    unfold damaged
    rw [hz, List.countP_map, ← hn, List.length_eq_countP_add_countP (intact md5 C.d data.length)]
    congr 1
    apply List.countP_congr
    intro x _; simp [intact]
  have hk : C.d ≤ (fs.zip (cwOf C data)).countP (intact md5 C.d data.length) := by omega
  have e : fs.map rd = (fs.zip (cwOf C data)).map fun x => rd x.1 := by
    conv => lhs; rw [← h1, List.map_map]
    rfl
  obtain ⟨x, hx, hi⟩ := List.countP_pos_iff.mp (show 0 < (fs.zip (cwOf C data)).countP (intact md5 C.d data.length) by omega)
  have hrx : rd x.1 = (some x.2, some (padCount C.d data.length :: md5 x.2)) := by
    obtain ⟨f, c⟩ := x
    simp only [intact, beq_iff_eq] at hi
    subst hi
    exact rd_file md5 C.d data.length hmd c
  have hne : ((fs.map rd).all fun x => x.1.isNone) = false := by
    rw [e, List.all_eq_false]
    exact ⟨rd x.1, List.mem_map.mpr ⟨x, hx, rfl⟩, by rw [hrx]; simp⟩
  have hcw := h2.symm
  have hfz : files0 = (fs.zip (cwOf C data)).map fun x => shardFile md5 C.d data.length x.2 := by
    rw [hf]
    conv => lhs; rw [hcw]
    rw [List.map_map]; rfl
  have hfiles : files0.map some = (fs.zip (cwOf C data)).map fun x => some (shardFile md5 C.d data.length x.2) := by
    conv => lhs; rw [hfz]
    rw [List.map_map]; rfl
  -- the rewrite of exactly the shards that were nil after the checksum pass makes every file fresh
  have hrew : rewrite fs files0 (nilIdx (maskOf md5 C.d data.length (fs.zip (cwOf C data))) 0) = files0.map some := by
    rw [hfiles]
    have := rewrite_aux md5 C.d data.length (fs.zip (cwOf C data)) 0
      (nilIdx (maskOf md5 C.d data.length (fs.zip (cwOf C data))) 0)
      (by intro i _; unfold maskOf; exact List.contains_iff_mem)
    rw [← this]
    unfold rewrite
    rw [h1, ← hfz]
  by_cases hv : verify C (((fs.zip (cwOf C data)).map fun x => rd x.1).map (·.1)) = .pass
  · -- fast path: every body is the original one; by `BodyDamage` every file is then intact
    have h2' := verify_pass_eq hC md5 data hpos hd h256 hmd _ h2 hdt hk (by rw [List.map_map] at hv; exact hv)
    have hdec := decode_fixed_fast hC md5 data hpos hd h256 hmd _ h2 hdt hv (by rw [List.map_map]; exact h2')
    rw [if_pos (by
      rw [List.any_eq_true]
      refine ⟨rd x.1, List.mem_map.mpr ⟨x, hx, rfl⟩, ?_⟩
      rw [hrx]; simp [metaMatches, hmd, metaSize])] at hdec
    rw [getOne_fixed_files C md5 fs data [] files0 hne (by rw [e]; exact hdec) he]
    simp only [List.isEmpty_nil, if_true]
    rw [hfiles]
    conv => lhs; rw [← h1]
    apply List.map_congr_left
    intro y hy
    have hb : (rd y.1).1 = some y.2 := by
      have h2'' : (fs.zip (cwOf C data)).map (fun x => (rd x.1).1) = (fs.zip (cwOf C data)).map (fun x => some x.2) := by
        rw [h2']
        conv => lhs; rw [hcw]
        rw [List.map_map]; rfl
      exact (List.map_inj_left.mp h2'') y hy
    obtain ⟨f, c⟩ := y
    cases f with
    | none => simp [rd] at hb
    | some b =>
      rw [rd_some] at hb
      split at hb
      · simp at hb
      · rename_i hl
        simp only [Option.some.injEq] at hb
        have hmem : ((some b : Option Bytes), shardFile md5 C.d data.length c) ∈ fs.zip files0 := by
          rw [hz]; exact List.mem_map.mpr ⟨_, hy, rfl⟩
        apply Classical.byContradiction
        intro hne'
        have hne2 : b ≠ shardFile md5 C.d data.length c := fun h => hne' (by rw [h])
        refine hbody _ hmem b rfl hne2 (by omega) ?_
        rw [hb]
        have h17 : (padCount C.d data.length :: md5 c).length = metaSize := by simp [hmd, metaSize]
        unfold shardFile
        rw [← h17, List.drop_left]
  · have hdec := decode_fixed_slow hC md5 data hpos hd h256 hmd _ h2 hdt hv
    rw [if_pos hk] at hdec
    rw [getOne_fixed_files C md5 fs data _ files0 hne (by rw [e]; exact hdec) he]
    split
    · rename_i hemp
      rw [← hrew, List.isEmpty_iff.mp hemp, rewrite_nil fs files0 hlen]
    · exact hrew

/-- … hence any further `p` failures are tolerated: whatever happens next to at most `p` of the shard
files (in a way the checksum detects), the blob is read back exactly. -/
theorem C26_then_tolerates (hdam : damaged files0 fs ≤ C.p) (hdet : ChecksumDetects md5 files0 fs)
    (hbody : BodyDamage files0 fs) (fs2 : List (Option Bytes))
    (hlen2 : fs2.length = (getOne .fixed C md5 true fs).2.1.length)
    (hnew : differ (getOne .fixed C md5 true fs).2.1 fs2 ≤ C.p) (hdet2 : ChecksumDetects md5 files0 fs2)
    (repair : Bool) :
    ∃ idxs, (getOne .fixed C md5 repair fs2).1 = .ok data idxs := by
  have hrep := (C26_repair hC md5 hmd data hdata hd h256 files0 he fs hlen hdam hdet hbody).2
  rw [hrep] at hlen2 hnew
  refine C25_read hC md5 hmd data hdata hd h256 files0 he fs2 (by simpa using hlen2) ?_ hdet2 repair
  unfold differ at hnew
  unfold damaged
  rw [List.zip_map_right, List.countP_map] at hnew
  exact hnew

end

/-! ## non-vacuity and the limits -/

/-- the hypotheses of `C26_repair` hold for mixed damage within parity (missing + corrupted body), and
the conclusion is what the model computes: both shards rewritten -/
example : (getOne .fixed (repCode 2) toyMd5 true [none, some f123c, some f123]).2 =
    ([some f123, some f123, some f123], [0, 1]) := by decide

example : BodyDamage [f123, f123, f123] [none, some f123c, some f123] := by
  intro x hx b hb hne hl
  simp only [List.zip_cons_cons, List.zip_nil_right, List.mem_cons, List.not_mem_nil, or_false] at hx
  rcases hx with rfl | rfl | rfl
  · simp at hb
  · simp only [Option.some.injEq] at hb
    subst hb
    decide
  · simp only [Option.some.injEq] at hb
    exact absurd hb.symm hne

/-- the full-strength statement without `BodyDamage` -/
def Statement_C26 : Prop :=
  ∀ (C : Code), C.Laws → ∀ (md5 : Bytes → Bytes), (∀ b, (md5 b).length = 16) → ∀ (data : Bytes), data ≠ [] →
    0 < C.d → C.d < 256 → ∀ files0, encodeFiles C md5 data = some files0 → ∀ fs : List (Option Bytes),
    fs.length = files0.length → damaged files0 fs ≤ C.p → ChecksumDetects md5 files0 fs →
    (getOne .fixed C md5 true fs).2.1 = files0.map some

/-- a flipped checksum byte (body intact): `Verify` passes, nothing is reported, the file stays damaged -/
def f123k : Bytes := 0 :: (toyMd5 [1, 2, 3]).set 0 99 ++ [1, 2, 3]

theorem C26_counterexample_metadata_only :
    (getOne .fixed (repCode 2) toyMd5 true [some f123k, some f123, some f123]) =
      (.ok [1, 2, 3] [], [some f123k, some f123, some f123], []) := by decide

theorem C26_counterexample : ¬ Statement_C26 := by
  intro h
  have := h (repCode 2) (repCode_laws 2) toyMd5 toyMd5_length [1, 2, 3] (by simp) (by decide) (by decide)
    [f123, f123, f123] (by rfl) [some f123k, some f123, some f123] rfl (by decide)
    (by
      intro x hx b hb hne hl
      simp only [List.zip_cons_cons, List.zip_nil_right, List.mem_cons, List.not_mem_nil, or_false] at hx
      rcases hx with rfl | rfl | rfl
      · simp only [Option.some.injEq] at hb
        subst hb
        decide
      · simp only [Option.some.injEq] at hb
        exact absurd hb.symm hne
      · simp only [Option.some.injEq] at hb
        exact absurd hb.symm hne)
  rw [C26_counterexample_metadata_only] at this
  revert this
  decide

end Sop.C26
