import Sop.Model.Erasure
namespace Sop.C26
end Sop.C26
