import Sop.Model.Replication
import Sop.Lemmas.Replication
/-!
# C27 — the passive copy stays a faithful replica and can be reinstated

Over `Sop.Replication` (the model of the replication tracker, `fileIO.replicate`, `Registry.Replicate`,
`StoreRepository.Replicate`, `ReinstateFailedDrives`, `TriggerFailover`), which transcribes the code as it is.

* `C27_replica` — with no fault ever recorded and the passive folder writable, every history of store creations,
  commits (arbitrary well-formed handle sets), `RemoveBtree`s and process restarts keeps the passive folder equal to
  the active one as maps (store list, store infos, registry handle images).
* `C27_isolation_commit` (= `Statement_C27_isolation_commit`) — a passive-side fault during a commit's replication
  leaves the commit outcome and the active folder exactly as without the fault, leaves the passive folder untouched and
  records `FailedToReplicate`; `C27_failed_commit_no_passive_write` — once recorded, commits write nothing to the
  passive folder. Ingredients: `handleFailed_content`, `handleFailed_records`, `commitT_active`, `commitT_blocked`.
  The full isolation statement is **false** for catalogue operations: `isolation_catalogue_counterexample` (store
  creation still writes the passive folder after the failure was recorded) and `isolation_create_counterexample`
  (with the passive drive unreachable a store creation fails and is rolled back on the active side).
* `Statement_C27_reinstate` is **false**: `reinstate_counterexample` (empty replacement drive: the copier reads the
  store info from the passive side and skips every store), `reinstate_log_flag_counterexample` (commits made while a
  reinstate is in progress are not logged when the L2 cache holds a status entry), `failover_forgotten_counterexample`
  (after a reinstate, a failover is not seen by a freshly started process).
* Outside the quantifier: `unobserved_wipe`, `unobserved_wipe_witness`, `heal_not_faultFree` — a drive swapped for an
  empty one before any write met the fault is emptied by the environment step alone; nothing is (or can be) recorded.
-/
namespace Sop.C27
open Sop.Replication

/-! ## no fault recorded -/

def NotFailed (o : Option Flags) : Prop := ∀ f, o = some f → f.failed = false

structure Healthy (s : State) : Prop where
  g : NotFailed s.g
  l2 : NotFailed s.l2
  st0 : NotFailed s.f0.status
  st1 : NotFailed s.f1.status
  br : s.broken = Broken.none

/-- the two folders agree as maps, for every replicated kind of file: the store list, every store's info file,
every registry record, and the persisted registry hash modulus (`reghashmod.txt`) -/
def Rep (s : State) : Prop :=
  s.f0.list = s.f1.list ∧ MapEq s.f0.infos s.f1.infos ∧ MapEq s.f0.reg s.f1.reg ∧ s.f0.hashmod = s.f1.hashmod

theorem readHome_notFailed (s : State) (h0 : NotFailed s.f0.status) (h1 : NotFailed s.f1.status) :
    (readHome s).failed = false := by
  unfold readHome
  cases e0 : s.f0.status with
  | none =>
    cases e1 : s.f1.status with
    | none => rfl
    | some f => exact h1 f e1
  | some fa =>
    cases e1 : s.f1.status with
    | none => exact h0 fa e0
    | some fp =>
      simp only
      split
      · exact h1 fp e1
      · exact h0 fa e0

theorem healthy_of_eq {s1 s2 : State} (h : Healthy s1) (eg : s2.g = s1.g) (el : s2.l2 = s1.l2)
    (e0 : s2.f0.status = s1.f0.status) (e1 : s2.f1.status = s1.f1.status) (eb : s2.broken = s1.broken) : Healthy s2 :=
  ⟨eg ▸ h.g, el ▸ h.l2, e0 ▸ h.st0, e1 ▸ h.st1, eb ▸ h.br⟩

theorem newTracker_l2 (s : State) (f : Flags) (el : s.l2 = some f) : newTracker s = ({ s with g := some f }, f) := by
  simp [newTracker, pull, el]

theorem newTracker_g (s : State) (f : Flags) (el : s.l2 = none) (eg : s.g = some f) : newTracker s = (s, f) := by
  simp [newTracker, pull, el, eg]

theorem newTracker_none (s : State) (el : s.l2 = none) (eg : s.g = none) :
    newTracker s = ({ s with g := some (readHome s), l2 := some (readHome s) }, readHome s) := by
  simp [newTracker, pull, push, el, eg]

/-- Building a tracker in a healthy state yields a tracker that is not failed and changes nothing but the status
copies. -/
theorem newTracker_healthy (s : State) (h : Healthy s) :
    (newTracker s).2.failed = false ∧ Healthy (newTracker s).1 ∧
    (newTracker s).1.f0 = s.f0 ∧ (newTracker s).1.f1 = s.f1 ∧ (newTracker s).1.logs = s.logs := by
  cases el : s.l2 with
  | some f =>
    rw [newTracker_l2 s f el]
    refine ⟨h.l2 f el, ⟨?_, ?_, h.st0, h.st1, h.br⟩, rfl, rfl, rfl⟩
    · intro f' e; cases e; exact h.l2 f el
    · intro f' e; exact h.l2 f' e
  | none =>
    cases eg : s.g with
    | some f =>
      rw [newTracker_g s f el eg]
      exact ⟨h.g f eg, h, rfl, rfl, rfl⟩
    | none =>
      have hf := readHome_notFailed s h.st0 h.st1
      rw [newTracker_none s el eg]
      refine ⟨hf, ⟨?_, ?_, h.st0, h.st1, h.br⟩, rfl, rfl, rfl⟩
      · intro f' e; cases e; exact hf
      · intro f' e; cases e; exact hf

/-- a commit's handle sets are well formed for a registry when every record to remove is there after the upserts -/
def CommitWF (roots added updated : List (RKey × String)) (removed : List RKey) (r : Reg) : Prop :=
  removed.all (fun k => (get k (putAll updated (putAll added (putAll roots r)))).isSome) = true

/-- fault-free operations: creations, commits with well-formed handle sets, removals, process restarts -/
inductive FaultFree : State → Op → Prop
  | create (s n sl u) : FaultFree s (.create n sl u)
  | commit (s n c ro ad up rm) :
      CommitWF ro ad up rm (active (newTracker s).1 (newTracker s).2).reg → FaultFree s (.commit n c ro ad up rm)
  | remove (s n) : FaultFree s (.remove n)
  | openv (s v) : FaultFree s (.openv v)
  | cold (s) : FaultFree s .cold

theorem side_cases (s : State) (b : Bool) : (side s b = s.f0 ∧ side s (!b) = s.f1) ∨ (side s b = s.f1 ∧ side s (!b) = s.f0) := by
  cases b <;> simp [side]

theorem rep_create (s : State) (n sl u) (h : Healthy s) (hr : Rep s) :
    Healthy (create s n sl u).1 ∧ Rep (create s n sl u).1 := by
  obtain ⟨hnf, hh, e0, e1, _⟩ := newTracker_healthy s h
  unfold create
  generalize newTracker s = p at *
  obtain ⟨s1, rt⟩ := p
  simp only at hnf hh e0 e1 ⊢
  have hr1 : Rep s1 := by unfold Rep; rw [e0, e1]; exact hr
  split
  · exact ⟨hh, hr1⟩
  · simp only [hh.br]
    obtain ⟨l, i, r, hm⟩ := hr1
    cases ht : rt.toggler
    · -- folder 1 active
      simp only [setActive, setPassive, active, passive, setSide, side, ht, Bool.not_false, Bool.false_eq_true, ↓reduceIte, sideAdd]
      exact ⟨healthy_of_eq hh rfl rfl rfl rfl (by first | rfl | exact hh.br.symm), rfl, (MapEq.put i n _), r, hm⟩
    · simp only [setActive, setPassive, active, passive, setSide, side, ht, Bool.not_true, Bool.false_eq_true, ↓reduceIte, sideAdd]
      exact ⟨healthy_of_eq hh rfl rfl rfl rfl (by first | rfl | exact hh.br.symm), rfl, (MapEq.put i n _), r, hm⟩

theorem rep_remove (s : State) (n) (h : Healthy s) (hr : Rep s) :
    Healthy (remove s n).1 ∧ Rep (remove s n).1 := by
  obtain ⟨hnf, hh, e0, e1, _⟩ := newTracker_healthy s h
  unfold remove
  generalize newTracker s = p at *
  obtain ⟨s1, rt⟩ := p
  simp only at hnf hh e0 e1 ⊢
  have hr1 : Rep s1 := by unfold Rep; rw [e0, e1]; exact hr
  obtain ⟨l, i, r, hm⟩ := hr1
  have hb : (setActive s1 rt (sideRemove (active s1 rt) n
      (List.filter (fun x => !decide (x = n)) ((active s1 rt).list.getD [])))).broken = Broken.none := by
    simp only [setActive, setSide]; split <;> exact hh.br
  simp only [hb]
  cases ht : rt.toggler
  · simp only [setActive, setPassive, active, passive, setSide, side, ht, Bool.not_false, Bool.false_eq_true, ↓reduceIte, sideRemove]
    exact ⟨healthy_of_eq hh rfl rfl rfl rfl (by first | rfl | exact hh.br.symm), rfl, (MapEq.del i n), (MapEq.dropTable r n), hm⟩
  · simp only [setActive, setPassive, active, passive, setSide, side, ht, Bool.not_true, Bool.false_eq_true, ↓reduceIte, sideRemove]
    exact ⟨healthy_of_eq hh rfl rfl rfl rfl (by first | rfl | exact hh.br.symm), rfl, (MapEq.del i n), (MapEq.dropTable r n), hm⟩

theorem upd_mapEq {m1 m2 : List (String × Info)} (h : MapEq m1 m2) (c : Option Int) (n : String) (i : Info) :
    MapEq (if c.isSome = true then put n i m1 else m1) (if c.isSome = true then put n i m2 else m2) := by
  split
  · exact h.put n i
  · exact h

theorem rep_commit (s : State) (n c ro ad up rm) (h : Healthy s) (hr : Rep s)
    (hwf : CommitWF ro ad up rm (active (newTracker s).1 (newTracker s).2).reg) :
    Healthy (commit s n c ro ad up rm).1 ∧ Rep (commit s n c ro ad up rm).1 := by
  obtain ⟨hnf, hh, e0, e1, _⟩ := newTracker_healthy s h
  unfold commit commitT
  generalize newTracker s = p at *
  obtain ⟨s1, rt⟩ := p
  simp only at hnf hh e0 e1 hwf ⊢
  have hr1 : Rep s1 := by unfold Rep; rw [e0, e1]; exact hr
  obtain ⟨l, i, r, hm⟩ := hr1
  cases hg : get n (active s1 rt).infos with
  | none => exact ⟨hh, l, i, r, hm⟩
  | some inf =>
    simp only [hnf, Bool.false_eq_true, ↓reduceIte]
    cases ht : rt.toggler
    · -- folder 1 is the active one
      have hwf' : CommitWF ro ad up rm s1.f0.reg := by
        unfold CommitWF at hwf ⊢
        rw [← hwf]
        simp only [active, side, ht, Bool.false_eq_true, ↓reduceIte]
        exact all_congr (((MapEq.putAll r ro).putAll ad).putAll up) rm
      simp only [setActive, setPassive, active, passive, setSide, side, ht, Bool.not_false, Bool.false_eq_true, ↓reduceIte,
        hh.br, passiveBlocked, regReplicate_ok ro ad up rm s1.f0.reg hwf']
      split
      · exact ⟨healthy_of_eq hh rfl rfl rfl rfl (by first | rfl | exact hh.br.symm), l, upd_mapEq i c n _, MapEq.regApply r ro ad up rm, hm⟩
      · exact ⟨healthy_of_eq hh rfl rfl rfl rfl (by first | rfl | exact hh.br.symm), l, upd_mapEq i c n _, MapEq.regApply r ro ad up rm, hm⟩
    · have hwf' : CommitWF ro ad up rm s1.f1.reg := by
        unfold CommitWF at hwf ⊢
        rw [← hwf]
        simp only [active, side, ht, ↓reduceIte]
        exact (all_congr (((MapEq.putAll r ro).putAll ad).putAll up) rm).symm
      simp only [setActive, setPassive, active, passive, setSide, side, ht, Bool.not_true, Bool.false_eq_true, ↓reduceIte,
        hh.br, passiveBlocked, regReplicate_ok ro ad up rm s1.f1.reg hwf']
      split
      · exact ⟨healthy_of_eq hh rfl rfl rfl rfl (by first | rfl | exact hh.br.symm), l, upd_mapEq i c n _, MapEq.regApply r ro ad up rm, hm⟩
      · exact ⟨healthy_of_eq hh rfl rfl rfl rfl (by first | rfl | exact hh.br.symm), l, upd_mapEq i c n _, MapEq.regApply r ro ad up rm, hm⟩

/-- opening the store repository (every transaction, `RemoveBtree`) keeps the folders equal: the hash modulus is
written to both folders or to neither -/
theorem rep_open (s : State) (v : Nat) (h : Healthy s) (hr : Rep s) :
    Healthy (openRepo s v) ∧ Rep (openRepo s v) := by
  obtain ⟨hnf, hh, e0, e1, _⟩ := newTracker_healthy s h
  unfold openRepo openRepoWith
  generalize newTracker s = p at *
  obtain ⟨s1, rt⟩ := p
  simp only at hnf hh e0 e1 ⊢
  have hr1 : Rep s1 := by unfold Rep; rw [e0, e1]; exact hr
  split
  · exact ⟨hh, hr1⟩
  · split
    · exact ⟨hh, hr1⟩
    · obtain ⟨l, i, r, hm⟩ := hr1
      have hb : (setActive s1 rt { active s1 rt with hashmod := some v }).broken = Broken.none := by
        simp only [setActive, setSide]; split <;> exact hh.br
      simp only [Bool.not_true, Bool.false_eq_true, ↓reduceIte, hb]
      cases ht : rt.toggler
      · simp only [setActive, setPassive, active, passive, setSide, side, ht, Bool.not_false, Bool.false_eq_true, ↓reduceIte]
        exact ⟨healthy_of_eq hh rfl rfl rfl rfl (by first | rfl | exact hh.br.symm), l, i, r, rfl⟩
      · simp only [setActive, setPassive, active, passive, setSide, side, ht, Bool.not_true, Bool.false_eq_true, ↓reduceIte]
        exact ⟨healthy_of_eq hh rfl rfl rfl rfl (by first | rfl | exact hh.br.symm), l, i, r, rfl⟩

theorem rep_step (s : State) (op : Op) (hop : FaultFree s op) (h : Healthy s) (hr : Rep s) :
    Healthy (step s op).1 ∧ Rep (step s op).1 := by
  cases hop with
  | create n sl u => exact rep_create s n sl u h hr
  | commit n c ro ad up rm hwf => exact rep_commit s n c ro ad up rm h hr hwf
  | remove n => exact rep_remove s n h hr
  | openv v => exact rep_open s v h hr
  | cold => exact ⟨⟨by simp [step, cold, NotFailed], by simp [step, cold, NotFailed], h.st0, h.st1, h.br⟩, hr⟩

/-- a history every step of which is fault free in the state it runs in -/
def FaultFreeRun : State → List Op → Prop
  | _, [] => True
  | s, op :: ops => FaultFree s op ∧ FaultFreeRun (step s op).1 ops

/-- **C27_replica.** No fault recorded, passive folder writable, folders equal as maps: after any fault-free history
the passive folder still equals the active one (store list, store infos, registry handle images), and still no fault
is recorded. -/
theorem C27_replica (ops : List Op) : ∀ (s : State), Healthy s → Rep s → FaultFreeRun s ops →
    Healthy (run s ops) ∧ Rep (run s ops) := by
  induction ops with
  | nil => intro s h hr _; exact ⟨h, hr⟩
  | cons op ops ih =>
    intro s h hr hrun
    obtain ⟨h1, h2⟩ := rep_step s op hrun.1 h hr
    exact ih _ h1 h2 hrun.2

/-- non-vacuity: a healthy, replicated start and a fault-free history that does something -/
example : Healthy {} ∧ Rep {} ∧
    FaultFreeRun {} [.openv 400, .create "sa" 4 true, .commit "sa" (some 1) [(("sa", "1"), "1/0/0/0/0")] [] [] [], .cold,
      .openv 250, .remove "sa"] := by
  refine ⟨⟨by simp [NotFailed], by simp [NotFailed], by simp [NotFailed], by simp [NotFailed], rfl⟩, ⟨rfl, fun _ => rfl, fun _ => rfl, rfl⟩, ?_⟩
  refine ⟨.openv _ _, .create _ _ _ _, .commit _ _ _ _ _ _ _ (by unfold CommitWF; decide), .cold _, .openv _ _, .remove _ _, trivial⟩

/-! ## the replica as a set of files

Every file the active side persists that a later open depends on, by kind, addressed by its path relative to the base
folder: the store list, the registry hash modulus, one info file per store folder, and the registry records (the
content of the segment files of a table, record by record; how records are placed in blocks is C21's matter).
`replstat.txt` and the commit-change logs are per-folder by design and are not replicated kinds. -/

inductive Kind
  | storeList | hashMod | storeInfo | regRecord
deriving DecidableEq, Repr

inductive Content
  | names (l : List String)
  | num (n : Nat)
  | info (i : Info)
  | image (h : String)
deriving DecidableEq, Repr

/-- the content found at relative path `(folder, name)` of kind `k` in one base folder (`none` = no such file) -/
def fileAt (x : Side) : Kind → String × String → Option Content
  | .storeList, p => if p = ("", "storelist.txt") then x.list.map .names else none
  | .hashMod, p => if p = ("", "reghashmod.txt") then x.hashmod.map .num else none
  | .storeInfo, p => if p.2 = "storeinfo.txt" then (get p.1 x.infos).map .info else none
  | .regRecord, p => (get p x.reg).map .image

theorem fileAt_of_rep {s : State} (hr : Rep s) (k : Kind) (p : String × String) : fileAt s.f0 k p = fileAt s.f1 k p := by
  obtain ⟨l, i, r, hm⟩ := hr
  cases k with
  | storeList => simp only [fileAt, l]
  | hashMod => simp only [fileAt, hm]
  | storeInfo => simp only [fileAt, i p.1]
  | regRecord => simp only [fileAt, r p]

theorem rep_of_fileAt {s : State} (h : ∀ k p, fileAt s.f0 k p = fileAt s.f1 k p) : Rep s := by
  refine ⟨?_, ?_, ?_, ?_⟩
  · have := h .storeList ("", "storelist.txt")
    simp only [fileAt, ↓reduceIte] at this
    cases e0 : s.f0.list <;> cases e1 : s.f1.list <;> simp_all
  · intro n
    have := h .storeInfo (n, "storeinfo.txt")
    simp only [fileAt, ↓reduceIte] at this
    cases e0 : get n s.f0.infos <;> cases e1 : get n s.f1.infos <;> simp_all
  · intro k
    have := h .regRecord k
    simp only [fileAt] at this
    cases e0 : get k s.f0.reg <;> cases e1 : get k s.f1.reg <;> simp_all
  · have := h .hashMod ("", "reghashmod.txt")
    simp only [fileAt, ↓reduceIte] at this
    cases e0 : s.f0.hashmod <;> cases e1 : s.f1.hashmod <;> simp_all

/-- **C27_replica_files.** After any fault-free history (repository opens with any hash-mod values, store creations,
commits, removals, restarts) from a healthy replicated state, the two base folders hold the same set of
(relative path, content) pairs for every replicated kind. -/
theorem C27_replica_files (ops : List Op) (s : State) (h : Healthy s) (hr : Rep s) (hrun : FaultFreeRun s ops)
    (k : Kind) (p : String × String) : fileAt (run s ops).f0 k p = fileAt (run s ops).f1 k p :=
  fileAt_of_rep (C27_replica ops s h hr hrun).2 k p

/-- **C27_same_configuration.** …hence a process that opens the database from the passive side (after a failover),
with or without passing a hash-mod value, computes the same registry hash modulus as one opening the active side. -/
theorem C27_same_configuration (ops : List Op) (s : State) (h : Healthy s) (hr : Rep s) (hrun : FaultFreeRun s ops)
    (v : Nat) : effectiveMod (run s ops).f1 v = effectiveMod (run s ops).f0 v := by
  have hm := (C27_replica ops s h hr hrun).2.2.2.2
  unfold effectiveMod
  rw [hm]

/-- the same history run on the variant whose repository open does not replicate the hash-mod file -/
def stepNoHashModReplication (s : State) : Op → State × String
  | .openv v => (openRepoWith false s v, "ok")
  | op => step s op

def runNoHashModReplication (s : State) : List Op → State
  | [] => s
  | op :: ops => runNoHashModReplication (stepNoHashModReplication s op).1 ops

/-- **Witness for the variant that does not replicate one kind** (`trackActions = false` in `NewStoreRepository`):
a database created with modulus 400, one store, one commit, no fault at all — the passive folder lacks
`reghashmod.txt`, every other kind is replicated, and a process opening the passive side without passing the value
computes 250 instead of 400. The code as it is (`run`) gives 400 on both sides. -/
theorem hashmod_not_replicated_variant :
    let ops := [Op.openv 400, .create "sa" 4 true, .commit "sa" (some 1) [(("sa", "1"), "1/0/0/0/0")] [] [] []]
    fileAt (runNoHashModReplication {} ops).f0 .hashMod ("", "reghashmod.txt") = some (.num 400) ∧
    fileAt (runNoHashModReplication {} ops).f1 .hashMod ("", "reghashmod.txt") = none ∧
    fileAt (runNoHashModReplication {} ops).f1 .storeInfo ("sa", "storeinfo.txt") =
      fileAt (runNoHashModReplication {} ops).f0 .storeInfo ("sa", "storeinfo.txt") ∧
    effectiveMod (runNoHashModReplication {} ops).f0 0 = 400 ∧
    effectiveMod (runNoHashModReplication {} ops).f1 0 = 250 ∧
    effectiveMod (run {} ops).f1 0 = 400 := by
  refine ⟨?_, ?_, ?_, ?_, ?_, ?_⟩ <;> decide +kernel

/-! ## isolation -/

/-- the part of a folder the property talks about -/
def content (x : Side) : Option (List String) × List (String × Info) × Reg := (x.list, x.infos, x.reg)

theorem side_setSide_same (s : State) (b : Bool) (x : Side) : side (setSide s b x) b = x := by
  cases b <;> simp [side, setSide]

theorem side_setSide_other (s : State) (b : Bool) (x : Side) : side (setSide s b x) (!b) = side s (!b) := by
  cases b <;> simp [side, setSide]

theorem push_sides (s : State) : (push s).f0 = s.f0 ∧ (push s).f1 = s.f1 ∧ (push s).g = s.g := by
  unfold push
  split
  · exact ⟨rfl, rfl, rfl⟩
  · split
    · exact ⟨rfl, rfl, rfl⟩
    · split <;> exact ⟨rfl, rfl, rfl⟩

theorem pull_sides (s : State) : (pull s).f0 = s.f0 ∧ (pull s).f1 = s.f1 := by
  unfold pull
  cases s.l2 <;> exact ⟨rfl, rfl⟩

theorem content_side_congr {s1 s2 : State} (h0 : s1.f0 = s2.f0) (h1 : s1.f1 = s2.f1) (b : Bool) :
    content (side s1 b) = content (side s2 b) := by
  cases b <;> simp [side, h0, h1]

theorem writeStatus_content (s : State) (first : Bool) (f : Flags) (b : Bool) :
    content (side (writeStatus s first f) b) = content (side s b) := by
  cases b <;> cases first <;> simp [writeStatus, side, setSide, content]

theorem writeStatus_g (s : State) (first : Bool) (f : Flags) : (writeStatus s first f).g = s.g := by
  cases first <;> simp [writeStatus, setSide]

/-- recording a failure touches status copies only: no folder's list / infos / registry changes -/
theorem handleFailed_content (s : State) (rt : Flags) (b : Bool) :
    content (side (handleFailed s rt).1 b) = content (side s b) := by
  unfold handleFailed
  split
  · rfl
  · have hp := pull_sides s
    simp only
    split
    · exact content_side_congr hp.1 hp.2 b
    · rename_i gf _
      split
      · exact content_side_congr hp.1 hp.2 b
      · have h1 := push_sides (writeStatus { pull s with g := some { gf with failed := true } } rt.toggler { rt with failed := true })
        rw [content_side_congr h1.1 h1.2.1 b, writeStatus_content]
        exact content_side_congr hp.1 hp.2 b

theorem handleFailed_records (s : State) (rt : Flags) (hrt : rt.failed = false) (hg : (pull s).g.isSome = true) :
    ∃ f, (handleFailed s rt).1.g = some f ∧ f.failed = true := by
  unfold handleFailed
  simp only [hrt, Bool.false_eq_true, ↓reduceIte]
  cases e : (pull s).g with
  | none => rw [e] at hg; cases hg
  | some gf =>
    simp only
    by_cases hf : gf.failed = true
    · simp only [hf, ↓reduceIte]; exact ⟨gf, e, hf⟩
    · have hf' : gf.failed = false := by simpa using hf
      simp only [hf', Bool.false_eq_true, ↓reduceIte]
      refine ⟨{ gf with failed := true }, ?_, rfl⟩
      rw [(push_sides _).2.2, writeStatus_g]

/-- The commit-time isolation statement (proved below as `C27_isolation_commit`). -/
def Statement_C27_isolation_commit : Prop :=
  ∀ (s : State) (rt : Flags) (n : String) (c : Option Int) (ro ad up : List (RKey × String)) (rm : List RKey),
    rt.failed = false → passiveBlocked s.broken n = true → (pull s).g.isSome = true →
    let faulty := commitT s rt n c ro ad up rm
    let clean := commitT { s with broken := Broken.none } rt n c ro ad up rm
    faulty.2 = clean.2 ∧
    content (active faulty.1 rt) = content (active clean.1 rt) ∧
    content (passive faulty.1 rt) = content (passive s rt) ∧
    ((get n (active s rt).infos).isSome = true → ∃ f, faulty.1.g = some f ∧ f.failed = true)

theorem passive_setActive (s : State) (rt : Flags) (x : Side) : passive (setActive s rt x) rt = passive s rt := by
  unfold passive setActive
  exact side_setSide_other s rt.toggler x

/-- **C27_failed_commit_no_passive_write.** A transaction whose tracker has `FailedToReplicate` set writes nothing
to the passive folder at commit. -/
theorem C27_failed_commit_no_passive_write (s : State) (rt : Flags) (n c ro ad up rm) (hrt : rt.failed = true) :
    passive (commitT s rt n c ro ad up rm).1 rt = passive s rt := by
  unfold commitT
  simp only [hrt, ↓reduceIte]
  split
  · rfl
  · split <;> (cases ht : rt.toggler <;> simp [passive, side, setActive, setSide, ht])

/-! ## what does not hold (the model is the code as it is) -/

/-- a small replicated layout with one committed store -/
def base : State :=
  run {} [.create "sa" 4 true, .commit "sa" (some 1) [(("sa", "1"), "1/0/0/0/0")] [] [] []]

/-- After the failure was recorded (a commit hit the broken store folder), creating another store still writes the
passive folder: `fileIO.replicate` does not consult `FailedToReplicate`. -/
theorem isolation_catalogue_counterexample :
    let s := run base [.brk (.store "sa"), .commit "sa" (some 2) [] [] [(("sa", "1"), "2/1/1/0/0")] []]
    (∃ f, s.g = some f ∧ f.failed = true) ∧
    (get "sb" (step s (.create "sb" 4 true)).1.f1.infos).isSome = true := by
  decide

/-- With the passive drive unreachable a store creation fails (and is rolled back on the active folder), and nothing
records the fault. -/
theorem isolation_create_counterexample :
    let s := run base [.brk .drive]
    (step s (.create "sb" 4 true)).2 = "err:create" ∧
    (get "sb" (step s (.create "sb" 4 true)).1.f0.infos).isSome = false ∧
    (step s (.create "sb" 4 true)).1.g = some { failed := false, toggler := true, logc := false } := by
  decide

/-- **Statement_C27_reinstate** (the property): after a fault was recorded, the drive repaired and
`ReinstateFailedDrives` run with nothing else going on, the folders agree as maps. -/
def Statement_C27_reinstate : Prop :=
  ∀ s : State, s.broken = Broken.none → s.logs = [] → (∃ f, s.g = some f ∧ f.failed = true) →
    (reinstate s).2 = "ok" → Rep (reinstate s).1

/-- The drive is replaced by an empty one: the copier reads each store's info from the passive folder (it flipped the
tracker's toggler first), finds none and skips the store — only the store list arrives. -/
def afterEmptyDrive : State :=
  run base [.brk .drive, .commit "sa" (some 2) [] [] [(("sa", "1"), "2/1/1/0/0")] [], .heal false, .reinstate]

theorem reinstate_counterexample : ¬ Statement_C27_reinstate := by
  intro h
  have hs := h (run base [.brk .drive, .commit "sa" (some 2) [] [] [(("sa", "1"), "2/1/1/0/0")] [], .heal false])
    (by decide) (by decide) ⟨{ failed := true, toggler := true, logc := false }, by decide, by decide⟩ (by decide)
  have : get "sa" afterEmptyDrive.f0.infos = get "sa" afterEmptyDrive.f1.infos := hs.2.1 "sa"
  revert this
  decide

/-- A commit made while a reinstate is in progress is not logged when the L2 cache holds a status entry: `isEqual`
ignores `LogCommitChanges`, so the push keeps the old entry and the next transaction's tracker pulls it back. -/
theorem reinstate_log_flag_counterexample :
    let s := run base [.brk (.store "sa"), .commit "sa" (some 2) [] [] [(("sa", "1"), "2/1/1/0/0")] [], .heal true, .rphase 1]
    (∃ f, s.g = some f ∧ f.logc = true) ∧
    (step s (.commit "sa" (some 3) [] [] [(("sa", "1"), "3/2/2/0/0")] [])).1.logs.length = 0 := by
  decide

/-- After a fault and a reinstate (so both folders carry a status file), a failover is forgotten by a freshly started
process: the status file was written before the toggler was flipped and the reader takes the file's toggler. -/
theorem failover_forgotten_counterexample :
    let s := run base [.brk (.store "sa"), .commit "sa" (some 2) [] [] [(("sa", "1"), "2/1/1/0/0")] [], .heal true, .reinstate, .failover]
    (∃ f, s.g = some f ∧ f.toggler = false) ∧ (readHome (cold s)).toggler = true := by
  decide

/-- …whereas the first failover of a layout that never failed is seen by a fresh process. -/
theorem failover_seen_when_never_failed :
    (readHome (cold (run base [.failover]))).toggler = false := by
  decide

/-- `CopyToPassiveFolders` does not copy `reghashmod.txt`, and `NewStoreRepository` rewrites it only when the ACTIVE
folder lacks it: after a reinstate onto an empty replacement drive the passive folder has no hash-mod file (C27-F10);
a failover later makes a process that does not pass the value fall back to modulus 250. -/
theorem reinstate_omits_hashmod :
    let s := run {} [.openv 400, .create "sa" 4 true, .commit "sa" (some 1) [(("sa", "1"), "1/0/0/0/0")] [] [] [],
      .brk .drive, .openv 400, .commit "sa" (some 2) [] [] [(("sa", "1"), "2/1/1/0/0")] [], .heal false, .reinstate]
    s.f0.hashmod = some 400 ∧ s.f1.hashmod = none ∧ effectiveMod s.f1 0 = 250 := by
  refine ⟨?_, ?_, ?_⟩ <;> decide +kernel

/-! ## what is outside the property: the drive is swapped before any write met the fault

`brk` and `heal` are steps of the environment, not of the code (`heal_not_faultFree`). When the passive drive fails,
no operation of the code runs while it is down, and it is swapped for an empty one, then the passive folder is empty
solely because of the `heal false` step: the code performed no passive write that failed, so nothing is recorded, and
`ReinstateFailedDrives` refuses (`FailedToReplicate is false`). This is the same as emptying a healthy passive folder
from outside; the property's quantifier (failures *at a replication step*) does not cover it, and the harness does not
expect the folders to agree from then on (thorough seed 1 once reported this history as a violation). -/

theorem heal_not_faultFree (s : State) (k : Bool) : ¬ FaultFree s (.heal k) := by
  intro h; cases h

/-- break + swap-for-empty with nothing in between changes nothing but the passive folder's contents (emptied) -/
theorem unobserved_wipe (s : State) (f : Flags) (hg : s.g = some f) :
    (run s [.brk .drive, .heal false]).g = s.g ∧ (run s [.brk .drive, .heal false]).l2 = s.l2 ∧
    (run s [.brk .drive, .heal false]).logs = s.logs ∧
    active (run s [.brk .drive, .heal false]) f = active s f ∧
    content (passive (run s [.brk .drive, .heal false]) f) = content {} := by
  cases ht : f.toggler <;>
    simp [run, step, breakPassive, heal, hg, setSide, active, passive, side, ht, content]

def wipedUnobserved : State := run base [.brk .drive, .heal false]

/-- the witness the harness replays (`caseUnobservedWipe`): replica before, no failure recorded, active folder
untouched, passive folder empty, reinstate refused -/
theorem unobserved_wipe_witness :
    wipedUnobserved.g = some { failed := false, toggler := true, logc := false } ∧
    content base.f1 = content base.f0 ∧
    content wipedUnobserved.f0 = content base.f0 ∧ content wipedUnobserved.f1 = content {} ∧
    (reinstate wipedUnobserved).2 = "err:not-failed" := by
  refine ⟨?_, ?_, ?_, ?_, ?_⟩ <;> decide +kernel

/-! ## commit-time isolation, assembled -/

theorem active_logs (x : State) (rt : Flags) (l : List Log) : active { x with logs := l } rt = active x rt := by
  unfold active side; cases rt.toggler <;> rfl

theorem passive_logs (x : State) (rt : Flags) (l : List Log) : passive { x with logs := l } rt = passive x rt := by
  unfold passive side; cases rt.toggler <;> rfl

theorem active_setActive (s : State) (rt : Flags) (x : Side) : active (setActive s rt x) rt = x := by
  unfold active setActive; exact side_setSide_same s rt.toggler x

theorem active_setPassive (s : State) (rt : Flags) (x : Side) : active (setPassive s rt x) rt = active s rt := by
  unfold active setPassive; cases rt.toggler <;> simp [side, setSide]

theorem setActive_fields (s : State) (rt : Flags) (x : Side) :
    (setActive s rt x).broken = s.broken ∧ (setActive s rt x).g = s.g ∧ (setActive s rt x).l2 = s.l2 := by
  unfold setActive setSide; cases rt.toggler <;> simp

theorem setPassive_fields (s : State) (rt : Flags) (x : Side) :
    (setPassive s rt x).broken = s.broken ∧ (setPassive s rt x).g = s.g ∧ (setPassive s rt x).l2 = s.l2 := by
  unfold setPassive setSide; cases rt.toggler <;> simp

theorem pull_g_congr {s1 s2 : State} (hg : s1.g = s2.g) (hl : s1.l2 = s2.l2) : (pull s1).g = (pull s2).g := by
  unfold pull; rw [hl]; cases s2.l2 <;> simp [hg]

theorem handleFailed_active (s : State) (rt : Flags) :
    content (active (handleFailed s rt).1 rt) = content (active s rt) := handleFailed_content s rt rt.toggler

theorem handleFailed_passive (s : State) (rt : Flags) :
    content (passive (handleFailed s rt).1 rt) = content (passive s rt) := handleFailed_content s rt (!rt.toggler)

/-- the active folder after a commit's own writes -/
def newActive (a : Side) (n : String) (c : Option Int) (i : Info) (ro ad up : List (RKey × String)) (rm : List RKey) : Side :=
  { a with
    infos := if c.isSome then put n (match c with | some c => { i with count := c } | none => i) a.infos else a.infos,
    reg := regApply ro ad up rm a.reg }

/-- whatever happens on the passive side, a commit answers "ok" and leaves the active folder with its own writes -/
theorem commitT_active (s : State) (rt : Flags) (n c ro ad up rm) (i : Info) (hget : get n (active s rt).infos = some i) :
    (commitT s rt n c ro ad up rm).2 = "ok" ∧
    content (active (commitT s rt n c ro ad up rm).1 rt) = content (newActive (active s rt) n c i ro ad up rm) := by
  unfold commitT newActive
  simp only [hget]
  refine ⟨by first | trivial | rfl, ?_⟩
  cases c <;> cases hl : rt.logc <;> cases hf : rt.failed <;>
    simp only [Bool.false_eq_true, ↓reduceIte, Option.isSome_none, Option.isSome_some]
  all_goals first
    | (rw [active_setActive] <;> rfl)
    | (rw [active_logs, active_setActive] <;> rfl)
    | (split
       · first
         | (rw [handleFailed_active, active_setActive] <;> rfl)
         | (rw [active_logs, handleFailed_active, active_setActive] <;> rfl)
       · split
         · first
           | (rw [active_setPassive, active_setActive] <;> rfl)
           | (rw [active_logs, active_setPassive, active_setActive] <;> rfl)
         · first
           | (rw [handleFailed_active, active_setPassive, active_setActive] <;> rfl)
           | (rw [active_logs, handleFailed_active, active_setPassive, active_setActive] <;> rfl))

theorem setActive_broken (s : State) (rt : Flags) (x : Side) : (setActive s rt x).broken = s.broken :=
  (setActive_fields s rt x).1

/-- a commit of a tracker that is not failed, with the passive store folder unwritable: the passive folder keeps its
content and the state's process-wide status is the one `handleFailed` leaves -/
theorem commitT_blocked (s : State) (rt : Flags) (n c ro ad up rm) (i : Info) (hget : get n (active s rt).infos = some i)
    (hrt : rt.failed = false) (hb : passiveBlocked s.broken n = true) :
    content (passive (commitT s rt n c ro ad up rm).1 rt) = content (passive s rt) ∧
    (commitT s rt n c ro ad up rm).1.g = (handleFailed (setActive s rt (newActive (active s rt) n c i ro ad up rm)) rt).1.g := by
  unfold commitT newActive
  simp only [hget, hrt, Bool.false_eq_true, ↓reduceIte, setActive_broken, hb]
  cases c <;> cases hl : rt.logc <;>
    simp only [Bool.false_eq_true, ↓reduceIte, Option.isSome_none, Option.isSome_some]
  all_goals
    refine ⟨?_, by first | rfl | trivial⟩
    first
    | (rw [handleFailed_passive, passive_setActive] <;> rfl)
    | (rw [passive_logs, handleFailed_passive, passive_setActive] <;> rfl)

/-- **C27_isolation_commit.** A transaction whose tracker is not failed commits while the passive store folder (or
drive) is unwritable: the commit answers what it answers without the fault, the active folder's content is what it is
without the fault, the passive folder's content does not change, and the failure is recorded in the process-wide
status. -/
theorem C27_isolation_commit : Statement_C27_isolation_commit := by
  intro s rt n c ro ad up rm hrt hb hg faulty clean
  have hact : active { s with broken := Broken.none } rt = active s rt := by unfold active side; cases rt.toggler <;> rfl
  cases hget : get n (active s rt).infos with
  | none =>
    have e1 : faulty = (s, "bad-op") := by
      show commitT s rt n c ro ad up rm = _
      unfold commitT; simp only [hget]
    have e2 : clean = ({ s with broken := Broken.none }, "bad-op") := by
      show commitT { s with broken := Broken.none } rt n c ro ad up rm = _
      unfold commitT; simp only [hact, hget]
    rw [e1, e2]
    refine ⟨rfl, ?_, rfl, ?_⟩
    · show content (active s rt) = content (active { s with broken := Broken.none } rt); rw [hact]
    · intro h; simp at h
  | some i =>
    have hF := commitT_active s rt n c ro ad up rm i hget
    have hC := commitT_active { s with broken := Broken.none } rt n c ro ad up rm i (by rw [hact]; exact hget)
    rw [hact] at hC
    have hB := commitT_blocked s rt n c ro ad up rm i hget hrt hb
    refine ⟨hF.1.trans hC.1.symm, hF.2.trans hC.2.symm, hB.1, ?_⟩
    intro _
    have hg' : (pull (setActive s rt (newActive (active s rt) n c i ro ad up rm))).g.isSome = true := by
      rw [pull_g_congr (setActive_fields s rt _).2.1 (setActive_fields s rt _).2.2]; exact hg
    obtain ⟨f, hf, hff⟩ := handleFailed_records _ rt hrt hg'
    exact ⟨f, by rw [show faulty.1.g = _ from hB.2]; exact hf, hff⟩

end Sop.C27
