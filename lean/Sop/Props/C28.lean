import Sop.Lemmas.Locks
/-! # C28 — a lock is held by at most one owner and only its owner can release it

Model: `Sop/Model/Locks.lean` (two implementations). `holders s k` = owners with a lease on `k` that was granted by
a successful call, has not been unlocked by its owner and has not run out.  A run is an arbitrary list of calls
(any owners, any keys, any durations, arbitrary clock advances between and — via `readCost` — inside calls; for the
in-memory cache also any capacity, any shard function and any admissible eviction victim).

* in-memory cache **with the proposed repair** (`protectLive = true`): `C28_mutex`, `C28_holder_confirmed`,
  `C28_owner_release`, `C28_foreign_call_keeps_lease` at full strength; the code as it is: `C28_mem_counterexample`.
* Redis: `C28_redis_counterexample_unlock`, `C28_redis_counterexample_ttl`; `C28_partial` under the usage rule
  `redisDisciplined` (no `Unlock` of a flagged key that carries someone else's value, no `IsLockedTTL` that shortens
  someone else's lease). -/
namespace Sop.C28
open Sop.Locks

/-! ## statements -/

/-- full strength, in-memory: in every reachable state every key has at most one holder -/
def Statement_C28_mutex_mem (cfg : MemCfg) : Prop :=
  ∀ (ops : List MemOp) (k o1 o2 : Nat),
    o1 ∈ memHolders (memRun cfg {} ops) k → o2 ∈ memHolders (memRun cfg {} ops) k → o1 = o2

/-- full strength, Redis -/
def Statement_C28_mutex_redis : Prop :=
  ∀ (ops : List RedisOp) (k o1 o2 : Nat),
    o1 ∈ redisHolders (redisRun {} ops) k → o2 ∈ redisHolders (redisRun {} ops) k → o1 = o2

/-! ## in-memory cache with the repair: full strength -/

theorem reachable_inv {cfg : MemCfg} (hp : cfg.protectLive = true) (ops : List MemOp) : MemInv (memRun cfg {} ops) :=
  memRun_inv hp ops {} memInit_inv

/-- **mutual exclusion**: for every capacity, shard function, clock behaviour, every list of calls with every
admissible eviction choice and every expiry point, a key never has two holders -/
theorem C28_mutex (cfg : MemCfg) (hp : cfg.protectLive = true) : Statement_C28_mutex_mem cfg :=
  fun ops _ _ _ h1 h2 => (reachable_inv hp ops).mutex h1 h2

/-- every holder is confirmed by the store: `IsLocked(o, k)` answers true for it -/
theorem C28_holder_confirmed (cfg : MemCfg) (hp : cfg.protectLive = true) (ops : List MemOp) (k o : Nat)
    (h : o ∈ memHolders (memRun cfg {} ops) k) : memHolds (memRun cfg {} ops) o k = true :=
  (reachable_inv hp ops).confirmed h

/-- **only the owner releases**: an `Unlock` by anybody else leaves the holder a holder, still confirmed by the store -/
theorem C28_owner_release (cfg : MemCfg) (hp : cfg.protectLive = true) (ops : List MemOp) (k o o' : Nat) (keys : List Nat)
    (h : o ∈ memHolders (memRun cfg {} ops) k) (hne : o ≠ o') :
    o ∈ memHolders (memRun cfg {} (ops ++ [.unlock o' keys])) k ∧
    memHolds (memRun cfg {} (ops ++ [.unlock o' keys])) o k = true := by
  have hrun : memRun cfg {} (ops ++ [.unlock o' keys]) = memUnlock o' keys (memRun cfg {} ops) := by
    simp [memRun, List.foldl_append, memStep]
  have hh : o ∈ memHolders (memRun cfg {} (ops ++ [.unlock o' keys])) k := by
    rw [hrun]
    obtain ⟨g, hg, hk, hl, ho⟩ := mem_memHolders.1 h
    refine mem_memHolders.2 ⟨g, memUnlock_keeps o' keys _ g hg (ho ▸ hne), hk, ?_, ho⟩
    rw [memUnlock_now]; exact hl
  exact ⟨hh, C28_holder_confirmed cfg hp _ k o hh⟩

/-- no call made on behalf of another owner (or no owner: the clock) removes a lease; together with
`C28_holder_confirmed` the holder stays confirmed until its own lease runs out or it unlocks itself -/
theorem C28_foreign_call_keeps_lease (cfg : MemCfg) (s : Mem) (op : MemOp) (o : Nat) (h : memActor op ≠ some o) :
    ∀ g ∈ s.grants, g.owner = o → g ∈ (memStep cfg s op).1.grants :=
  memStep_keeps s op o h

/-! ## in-memory cache as it is: violated -/

def cfgOrig : MemCfg := { cap := 1, shardOf := fun _ => 0, protectLive := false, readCost := 2, defaultTtl := 900000000000 }
def cfgFixed : MemCfg := { cfgOrig with protectLive := true }
def hour : Nat := 3600000000000

/-- DESIGN.md witness: capacity 1; A locks k1 for 1h, B locks k2 (same shard) and evicts A's entry, C locks k1 -/
def memWitness : List MemOp := [.lock 1 hour [1] [], .lock 2 hour [2] [], .lock 3 hour [1] []]

theorem C28_mem_counterexample : ¬ Statement_C28_mutex_mem cfgOrig := by
  intro h
  have := h memWitness 1 3 1 (by decide) (by decide)
  exact absurd this (by decide)

/-- the same calls against the repaired code: C is refused and told who holds the key -/
example : (memStep cfgFixed (memRun cfgFixed {} [.lock 1 hour [1] [], .lock 2 hour [2] []]) (.lock 3 hour [1] [])).2
    = { ok := false, owner := 1 } := by decide

/-- non-vacuity: holders exist in reachable states of the repaired cache (takeover after expiry included) -/
example : memHolders (memRun cfgFixed {} [.lock 1 1 [1] [], .adv 10, .lock 2 hour [1, 2] [], .unlock 1 [1]]) 1 = [2] := by decide

/-! ## Redis: violated, holds under the usage rule -/

/-- A locks k1 for 50 ms, the lease lapses, B locks k1, A calls Unlock (its flag is still set), C locks k1 -/
def redisWitnessUnlock : List RedisOp :=
  [.lock 1 50 [1], .adv 60, .lock 2 3600000 [1], .unlock 1 [1], .lock 3 3600000 [1]]

theorem C28_redis_counterexample_unlock : ¬ Statement_C28_mutex_redis := by
  intro h
  have := h redisWitnessUnlock 1 3 2 (by decide) (by decide)
  exact absurd this (by decide)

/-- "only its owner can release it" fails as well: after A's Unlock, B is still a holder but its key is gone -/
theorem C28_redis_owner_release_counterexample :
    2 ∈ redisHolders (redisRun {} (redisWitnessUnlock.take 4)) 1 ∧
    redisHolds (redisRun {} (redisWitnessUnlock.take 4)) 2 1 = false := by decide

/-- A holds k1 for 1h; B's IsLockedTTL(50 ms) answers false but has rewritten the key's TTL; it lapses; C locks k1 -/
def redisWitnessTtl : List RedisOp :=
  [.lock 1 3600000 [1], .isLockedTTL 2 50 [1], .adv 60, .lock 3 3600000 [1]]

theorem C28_redis_counterexample_ttl : ¬ Statement_C28_mutex_redis := by
  intro h
  have := h redisWitnessTtl 1 3 1 (by decide) (by decide)
  exact absurd this (by decide)

theorem mem_redisHolders {s : Redis} {k o : Nat} :
    o ∈ redisHolders s k ↔ ∃ g ∈ s.grants, g.key = k ∧ s.now < g.dl ∧ g.owner = o := by
  simp only [redisHolders, List.mem_map, List.mem_filter, Bool.and_eq_true, beq_iff_eq, decide_eq_true_eq]
  constructor
  · rintro ⟨g, ⟨hg, hk, hl⟩, ho⟩; exact ⟨g, hg, hk, hl, ho⟩
  · rintro ⟨g, hg, hk, hl, ho⟩; exact ⟨g, ⟨hg, hk, hl⟩, ho⟩

theorem RInv.confirmed {s : Redis} (h : RInv s) {k o : Nat} (ho : o ∈ redisHolders s k) : redisHolds s o k = true := by
  obtain ⟨g, hg, hk, hl, rfl⟩ := mem_redisHolders.1 ho
  obtain ⟨e, he, heo, hx⟩ := h g hg hl
  have hvis : s.now < e.exp := Nat.lt_of_lt_of_le hl hx
  unfold redisHolds vget
  rw [← hk, he]
  simp [hvis, heo]

/-- **C28_partial (Redis)**: along every run that obeys the usage rule — every `Unlock` finds, under each key whose
`IsLockOwner` flag is set, the caller's own value or nothing, and no `IsLockedTTL` shortens another owner's lease —
a key never has two holders and every holder is confirmed by the server -/
theorem C28_partial (ops : List RedisOp) (hd : redisDisciplined {} ops = true) :
    (∀ k o1 o2, o1 ∈ redisHolders (redisRun {} ops) k → o2 ∈ redisHolders (redisRun {} ops) k → o1 = o2) ∧
    (∀ k o, o ∈ redisHolders (redisRun {} ops) k → redisHolds (redisRun {} ops) o k = true) := by
  have hi : RInv (redisRun {} ops) := redisRun_inv ops {} (by intro g hg; cases hg) hd
  refine ⟨?_, fun k o h => RInv.confirmed hi h⟩
  intro k o1 o2 h1 h2
  obtain ⟨g1, hg1, hk1, hl1, rfl⟩ := mem_redisHolders.1 h1
  obtain ⟨g2, hg2, hk2, hl2, rfl⟩ := mem_redisHolders.1 h2
  exact Inv.unique (L := redisLive) hi hg1 hg2 hl1 hl2 (hk1.trans hk2.symm)

/-- the ghost misses no holder: whenever the Redis `Lock` answers true (positive duration), the caller holds a live
lease on every listed key afterwards (so "at most one holder" really speaks about every successful caller) -/
theorem C28_redis_lock_grants (s : Redis) (o d : Nat) (keys : List Nat) (hd : 0 < d)
    (hok : (redisStep s (.lock o d keys)).2.ok = true) : ∀ k ∈ keys, o ∈ redisHolders (redisStep s (.lock o d keys)).1 k := by
  intro k hk
  have h := redisLock_true_holds s o d keys hd hok k hk
  obtain ⟨g, hg, hgk, hl, ho⟩ := h
  exact mem_redisHolders.2 ⟨g, hg, hgk, hl, ho⟩

/-- owner release under the rule: a disciplined `Unlock` by somebody else leaves the holder a confirmed holder -/
theorem C28_redis_owner_release_partial (ops : List RedisOp) (k o o' : Nat) (keys : List Nat)
    (hd : redisDisciplined {} (ops ++ [.unlock o' keys]) = true)
    (h : o ∈ redisHolders (redisRun {} ops) k) (hne : o ≠ o') :
    o ∈ redisHolders (redisRun {} (ops ++ [.unlock o' keys])) k ∧
    redisHolds (redisRun {} (ops ++ [.unlock o' keys])) o k = true := by
  have hrun : redisRun {} (ops ++ [.unlock o' keys]) = redisUnlock (redisRun {} ops) o' keys := by
    simp [redisRun, List.foldl_append, redisStep]
  have hh : o ∈ redisHolders (redisRun {} (ops ++ [.unlock o' keys])) k := by
    rw [hrun]
    obtain ⟨g, hg, hk, hl, ho⟩ := mem_redisHolders.1 h
    refine mem_redisHolders.2 ⟨g, ?_, hk, ?_, ho⟩
    · unfold redisUnlock
      simp only []
      rw [(delAll_same _ _).1]
      exact mem_releaseAll.2 ⟨hg, fun ⟨_, h'⟩ => hne (ho ▸ h')⟩
    · unfold redisUnlock
      simp only []
      rw [(delAll_same _ _).2.1]; exact hl
  exact ⟨hh, (C28_partial _ hd).2 k o hh⟩

/-- non-vacuity of the rule: a disciplined run with expiry, takeover, a refused lock, a lease extension and unlocks,
ending with a holder -/
example : redisDisciplined {} [.lock 1 50 [1], .adv 60, .lock 2 3600000 [1, 2], .lock 3 2000 [2, 3], .unlock 3 [2, 3],
      .isLockedTTL 2 5000 [1, 2], .unlock 2 [2], .adv 1000] = true ∧
    redisHolders (redisRun {} [.lock 1 50 [1], .adv 60, .lock 2 3600000 [1, 2], .lock 3 2000 [2, 3], .unlock 3 [2, 3],
      .isLockedTTL 2 5000 [1, 2], .unlock 2 [2], .adv 1000]) 1 = [2] := by decide

/-- the two witnesses are exactly runs that break the rule -/
example : redisDisciplined {} redisWitnessUnlock = false ∧ redisDisciplined {} redisWitnessTtl = false := by decide

end Sop.C28
