import Sop.Model.Locks
namespace Sop.C28
open Sop.Locks
theorem stub : True := trivial
end Sop.C28
