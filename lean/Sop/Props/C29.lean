import Sop.Model.Compare
import Sop.Lemmas.Compare
/-!
# C29 — built-in key comparison is a total order consistent with natural order

`cmp` is the model of `btree.Compare`, `coerce` of `btree.CoerceComparer` (`Sop/Model/Compare.lean`).
The statement is about keys of ONE supported type (`compat`): same Go type, `[]any` values with
pairwise same-typed elements, times whose monotonic readings (if both have one) agree with their wall
clocks. Outside that hypothesis the Go code is not an order (`hetero_not_antisymm`,
`stepped_clock_not_transitive`): it asserts the second argument to the type of the first and takes
the zero value when the assertion fails.
-/
namespace Sop.C29
open Sop.Compare

/-! ## range, reflexivity (unconditional) -/

mutual
theorem cmp_tri : ∀ a b : Key, Tri (cmp a b)
  | .sint _ _, _ => by simp only [cmp]; exact cmpInt_tri _ _
  | .uint _ _, _ => by simp only [cmp]; exact cmpInt_tri _ _
  | .f32 _, _ => by simp only [cmp]; exact cmpFloat_tri _ _ _ _
  | .f64 _, _ => by simp only [cmp]; exact cmpFloat_tri _ _ _ _
  | .str _, _ => by simp only [cmp]; exact cmpBytes_tri _ _
  | .guuid _, _ => by simp only [cmp]; exact cmpBytes_tri _ _
  | .suuid _, _ => by simp only [cmp]; exact cmpBytes_tri _ _
  | .time _ _ _, _ => by
    simp only [cmp, cmpTime]
    split
    · exact cmpInt_tri _ _
    · exact cmpWall_tri _ _ _ _
  | .anys l, b => by simp only [cmp]; exact cmpAnys_tri l _
  | .bytes _, _ => by simp only [cmp]; exact cmpBytes_tri _ _
  | .strs _, _ => by simp only [cmp]; exact cmpSlice_tri _ cmpBytes_tri _ _
  | .ints _, _ => by simp only [cmp]; exact cmpSlice_tri _ cmpInt_tri _ _
  | .f64s _, _ => by simp only [cmp]; exact cmpSlice_tri _ (cmpFloat_tri _ _) _ _
  | .f32s _, _ => by simp only [cmp]; exact cmpSlice_tri _ (cmpFloat_tri _ _) _ _
  | .nil, b => by cases b <;> simp [cmp, Tri]
theorem cmpAnys_tri : ∀ l m : List Key, Tri (cmpAnys l m)
  | [], [] => by simp [cmpAnys, Tri]
  | [], _ :: _ => by simp [cmpAnys, Tri]
  | _ :: _, [] => by simp [cmpAnys, Tri]
  | a :: l, b :: m => by
    simp only [cmpAnys]
    exact lex_tri (cmp_tri a b) (cmpAnys_tri l m)
end

mutual
/-- **reflexive**: every key compares equal to itself (NaN included: `cmp.Compare(NaN, NaN) = 0`) -/
theorem cmp_refl : ∀ a : Key, cmp a a = 0
  | .sint _ _ => by simp [cmp, asSint, cmpInt_refl]
  | .uint _ _ => by simp [cmp, asUint, cmpInt_refl]
  | .f32 _ => by simp only [cmp, asF32]; exact cmpFloat_refl _ _ _
  | .f64 _ => by simp only [cmp, asF64]; exact cmpFloat_refl _ _ _
  | .str _ => by simp only [cmp, asStr]; exact cmpBytes_refl _
  | .guuid _ => by simp only [cmp, asGuuid]; exact cmpBytes_refl _
  | .suuid _ => by simp only [cmp, asSuuid]; exact cmpBytes_refl _
  | .time _ _ mo => by cases mo <;> simp [cmp, asTime, cmpTime, cmpWall_refl, cmpInt_refl]
  | .anys l => by simp only [cmp, asAnys]; exact cmpAnys_refl l
  | .bytes _ => by simp only [cmp, asBytes]; exact cmpBytes_refl _
  | .strs _ => by simp only [cmp, asStrs]; exact cmpSlice_refl _ cmpBytes_refl _
  | .ints _ => by simp only [cmp, asInts]; exact cmpSlice_refl _ cmpInt_refl _
  | .f64s _ => by simp only [cmp, asF64s]; exact cmpSlice_refl _ (cmpFloat_refl _ _) _
  | .f32s _ => by simp only [cmp, asF32s]; exact cmpSlice_refl _ (cmpFloat_refl _ _) _
  | .nil => by simp [cmp]
theorem cmpAnys_refl : ∀ l : List Key, cmpAnys l l = 0
  | [] => by simp [cmpAnys]
  | a :: l => by simp [cmpAnys, lex, cmp_refl a, cmpAnys_refl l]
end

/-! ## antisymmetry and transitivity for keys of one type -/

theorem cmpTime_antisymm (a b : Int × Nat × Option Int) : cmpTime a b = -cmpTime b a := by
  obtain ⟨s, n, mo⟩ := a
  obtain ⟨s', n', mo'⟩ := b
  cases mo <;> cases mo' <;> simp only [cmpTime]
  · exact cmpWall_antisymm _ _ _ _
  · exact cmpWall_antisymm _ _ _ _
  · exact cmpWall_antisymm _ _ _ _
  · exact cmpInt_antisymm _ _

/-- under `compat`, a time comparison is the wall-clock comparison -/
theorem cmpTime_eq_wall (s : Int) (n : Nat) (mo : Option Int) (s' : Int) (n' : Nat) (mo' : Option Int)
    (h : compat (.time s n mo) (.time s' n' mo') = true) :
    cmpTime (s, n, mo) (s', n', mo') = cmpWall s n s' n' := by
  cases mo <;> cases mo' <;> simp only [cmpTime]
  simp only [compat, beq_iff_eq] at h
  exact h

mutual
/-- **antisymmetric**: swapping the arguments negates the result -/
theorem cmp_antisymm : ∀ a b : Key, compat a b = true → cmp a b = -cmp b a
  | .sint t x, b, h => by
    cases b <;> simp [compat] at h
    subst h; simp only [cmp, asSint, ↓reduceIte]; exact cmpInt_antisymm _ _
  | .uint t x, b, h => by
    cases b <;> simp [compat] at h
    subst h; simp only [cmp, asUint, ↓reduceIte]; exact cmpInt_antisymm _ _
  | .f32 _, b, h => by
    cases b <;> simp [compat] at h
    simp only [cmp, asF32]; exact cmpFloat_antisymm _ _ _ _
  | .f64 _, b, h => by
    cases b <;> simp [compat] at h
    simp only [cmp, asF64]; exact cmpFloat_antisymm _ _ _ _
  | .str _, b, h => by
    cases b <;> simp [compat] at h
    simp only [cmp, asStr]; exact cmpBytes_antisymm _ _
  | .guuid _, b, h => by
    cases b <;> simp [compat] at h
    simp only [cmp, asGuuid]; exact cmpBytes_antisymm _ _
  | .suuid _, b, h => by
    cases b <;> simp [compat] at h
    simp only [cmp, asSuuid]; exact cmpBytes_antisymm _ _
  | .time _ _ _, b, h => by
    cases b <;> try (simp [compat] at h; done)
    simp only [cmp, asTime]; exact cmpTime_antisymm _ _
  | .anys l, b, h => by
    cases b <;> try (simp [compat] at h; done)
    simp only [compat] at h
    simp only [cmp, asAnys]; exact cmpAnys_antisymm l _ h
  | .bytes _, b, h => by
    cases b <;> simp [compat] at h
    simp only [cmp, asBytes]; exact cmpBytes_antisymm _ _
  | .strs _, b, h => by
    cases b <;> simp [compat] at h
    simp only [cmp, asStrs]; exact cmpSlice_antisymm _ cmpBytes_antisymm _ _
  | .ints _, b, h => by
    cases b <;> simp [compat] at h
    simp only [cmp, asInts]; exact cmpSlice_antisymm _ cmpInt_antisymm _ _
  | .f64s _, b, h => by
    cases b <;> simp [compat] at h
    simp only [cmp, asF64s]; exact cmpSlice_antisymm _ (cmpFloat_antisymm _ _) _ _
  | .f32s _, b, h => by
    cases b <;> simp [compat] at h
    simp only [cmp, asF32s]; exact cmpSlice_antisymm _ (cmpFloat_antisymm _ _) _ _
  | .nil, b, h => by
    cases b <;> simp [compat] at h
    simp [cmp]
theorem cmpAnys_antisymm : ∀ l m : List Key, compatL l m = true → cmpAnys l m = -cmpAnys m l
  | [], [], _ => by simp [cmpAnys]
  | [], _ :: _, _ => by simp [cmpAnys]
  | _ :: _, [], _ => by simp [cmpAnys]
  | a :: l, b :: m, h => by
    simp only [compatL, Bool.and_eq_true] at h
    simp only [cmpAnys]
    exact lex_antisymm (cmp_antisymm a b h.1) (cmpAnys_antisymm l m h.2)
end

mutual
theorem cmp_tr : ∀ a b c : Key, compat a b = true → compat b c = true → compat a c = true →
    Tr (cmp a b) (cmp b c) (cmp a c)
  | .sint t x, b, c, h1, h2, h3 => by
    cases b <;> simp [compat] at h1
    cases c <;> simp [compat] at h2
    subst h1; subst h2; simp only [cmp, asSint, ↓reduceIte]; exact cmpInt_tr _ _ _
  | .uint t x, b, c, h1, h2, h3 => by
    cases b <;> simp [compat] at h1
    cases c <;> simp [compat] at h2
    subst h1; subst h2; simp only [cmp, asUint, ↓reduceIte]; exact cmpInt_tr _ _ _
  | .f32 _, b, c, h1, h2, h3 => by
    cases b <;> simp [compat] at h1
    cases c <;> simp [compat] at h2
    simp only [cmp, asF32]; exact cmpFloat_tr _ _ _ _ _
  | .f64 _, b, c, h1, h2, h3 => by
    cases b <;> simp [compat] at h1
    cases c <;> simp [compat] at h2
    simp only [cmp, asF64]; exact cmpFloat_tr _ _ _ _ _
  | .str _, b, c, h1, h2, h3 => by
    cases b <;> simp [compat] at h1
    cases c <;> simp [compat] at h2
    simp only [cmp, asStr]; exact cmpBytes_tr _ _ _
  | .guuid _, b, c, h1, h2, h3 => by
    cases b <;> simp [compat] at h1
    cases c <;> simp [compat] at h2
    simp only [cmp, asGuuid]; exact cmpBytes_tr _ _ _
  | .suuid _, b, c, h1, h2, h3 => by
    cases b <;> simp [compat] at h1
    cases c <;> simp [compat] at h2
    simp only [cmp, asSuuid]; exact cmpBytes_tr _ _ _
  | .time s n mo, b, c, h1, h2, h3 => by
    cases b <;> try (simp [compat] at h1; done)
    cases c <;> try (simp [compat] at h2; done)
    simp only [cmp, asTime]
    rw [cmpTime_eq_wall _ _ _ _ _ _ h1, cmpTime_eq_wall _ _ _ _ _ _ h2, cmpTime_eq_wall _ _ _ _ _ _ h3]
    exact cmpWall_tr _ _ _ _ _ _
  | .anys l, b, c, h1, h2, h3 => by
    cases b <;> try (simp [compat] at h1; done)
    cases c <;> try (simp [compat] at h2; done)
    simp only [compat] at h1 h2 h3
    simp only [cmp, asAnys]; exact cmpAnys_tr l _ _ h1 h2 h3
  | .bytes _, b, c, h1, h2, h3 => by
    cases b <;> simp [compat] at h1
    cases c <;> simp [compat] at h2
    simp only [cmp, asBytes]; exact cmpBytes_tr _ _ _
  | .strs _, b, c, h1, h2, h3 => by
    cases b <;> simp [compat] at h1
    cases c <;> simp [compat] at h2
    simp only [cmp, asStrs]; exact cmpSlice_tr _ cmpBytes_tr _ _ _
  | .ints _, b, c, h1, h2, h3 => by
    cases b <;> simp [compat] at h1
    cases c <;> simp [compat] at h2
    simp only [cmp, asInts]; exact cmpSlice_tr _ cmpInt_tr _ _ _
  | .f64s _, b, c, h1, h2, h3 => by
    cases b <;> simp [compat] at h1
    cases c <;> simp [compat] at h2
    simp only [cmp, asF64s]; exact cmpSlice_tr _ (cmpFloat_tr _ _) _ _ _
  | .f32s _, b, c, h1, h2, h3 => by
    cases b <;> simp [compat] at h1
    cases c <;> simp [compat] at h2
    simp only [cmp, asF32s]; exact cmpSlice_tr _ (cmpFloat_tr _ _) _ _ _
  | .nil, b, c, h1, h2, h3 => by
    cases b <;> simp [compat] at h1
    cases c <;> simp [compat] at h2
    simp [cmp, Tr]
theorem cmpAnys_tr : ∀ l m n : List Key, compatL l m = true → compatL m n = true → compatL l n = true →
    Tr (cmpAnys l m) (cmpAnys m n) (cmpAnys l n)
  | [], [], [], _, _, _ => by simp [cmpAnys, Tr]
  | [], [], _ :: _, _, _, _ => by simp [cmpAnys, Tr]
  | [], _ :: _, [], _, _, _ => by simp [cmpAnys, Tr]
  | [], _ :: _, _ :: _, _, _, _ => by simp [cmpAnys, Tr]
  | _ :: _, [], [], _, _, _ => by simp [cmpAnys, Tr]
  | _ :: _, [], _ :: _, _, _, _ => by simp [cmpAnys, Tr]
  | _ :: _, _ :: _, [], _, _, _ => by simp [cmpAnys, Tr]
  | a :: l, b :: m, d :: n, h1, h2, h3 => by
    simp only [compatL, Bool.and_eq_true] at h1 h2 h3
    simp only [cmpAnys]
    exact lex_tr (cmp_tr a b d h1.1 h2.1 h3.1) (cmpAnys_tr l m n h1.2 h2.2 h3.2)
end

/-- **transitive**: `a ≤ b` and `b ≤ c` give `a ≤ c` -/
theorem cmp_trans (a b c : Key) (h1 : compat a b = true) (h2 : compat b c = true) (h3 : compat a c = true)
    (hab : cmp a b ≤ 0) (hbc : cmp b c ≤ 0) : cmp a c ≤ 0 :=
  (cmp_tr a b c h1 h2 h3).le hab hbc

/-- strict versions and transitivity of "compares equal" -/
theorem cmp_trans_strict (a b c : Key) (h1 : compat a b = true) (h2 : compat b c = true) (h3 : compat a c = true) :
    (cmp a b < 0 → cmp b c ≤ 0 → cmp a c < 0) ∧ (cmp a b ≤ 0 → cmp b c < 0 → cmp a c < 0) ∧
    (cmp a b = 0 → cmp b c = 0 → cmp a c = 0) :=
  cmp_tr a b c h1 h2 h3

/-- **total**: the result is -1, 0 or 1, and of two keys one is `≤` the other -/
theorem cmp_total (a b : Key) (h : compat a b = true) :
    (cmp a b = -1 ∨ cmp a b = 0 ∨ cmp a b = 1) ∧ (cmp a b ≤ 0 ∨ cmp b a ≤ 0) := by
  refine ⟨cmp_tri a b, ?_⟩
  have := cmp_antisymm a b h
  omega

/-! `compat` is reflexive on keys without … (every key is compatible with itself) and symmetric, so
"all keys of a store are pairwise compatible" is a sensible hypothesis. -/

mutual
theorem compat_refl : ∀ a : Key, compat a a = true
  | .sint _ _ => by simp [compat]
  | .uint _ _ => by simp [compat]
  | .f32 _ => by simp [compat]
  | .f64 _ => by simp [compat]
  | .str _ => by simp [compat]
  | .guuid _ => by simp [compat]
  | .suuid _ => by simp [compat]
  | .time _ _ mo => by cases mo <;> simp [compat, cmpInt_refl, cmpWall_refl]
  | .anys l => by simp only [compat]; exact compatL_refl l
  | .bytes _ => by simp [compat]
  | .strs _ => by simp [compat]
  | .ints _ => by simp [compat]
  | .f64s _ => by simp [compat]
  | .f32s _ => by simp [compat]
  | .nil => by simp [compat]
theorem compatL_refl : ∀ l : List Key, compatL l l = true
  | [] => by simp [compatL]
  | a :: l => by simp [compatL, compat_refl a, compatL_refl l]
end

mutual
theorem compat_symm : ∀ a b : Key, compat a b = true → compat b a = true
  | .sint _ _, b, h => by cases b <;> simp [compat] at h ⊢; omega
  | .uint _ _, b, h => by cases b <;> simp [compat] at h ⊢; omega
  | .f32 _, b, h => by cases b <;> simp [compat] at h ⊢
  | .f64 _, b, h => by cases b <;> simp [compat] at h ⊢
  | .str _, b, h => by cases b <;> simp [compat] at h ⊢
  | .guuid _, b, h => by cases b <;> simp [compat] at h ⊢
  | .suuid _, b, h => by cases b <;> simp [compat] at h ⊢
  | .time s n mo, b, h => by
    cases b <;> try (simp [compat] at h; done)
    rename_i s' n' mo'
    cases mo <;> cases mo' <;> simp only [compat, beq_iff_eq] at h ⊢
    rw [cmpInt_antisymm, cmpWall_antisymm, h]
  | .anys l, b, h => by
    cases b <;> try (simp [compat] at h; done)
    simp only [compat] at h ⊢
    exact compatL_symm l _ h
  | .bytes _, b, h => by cases b <;> simp [compat] at h ⊢
  | .strs _, b, h => by cases b <;> simp [compat] at h ⊢
  | .ints _, b, h => by cases b <;> simp [compat] at h ⊢
  | .f64s _, b, h => by cases b <;> simp [compat] at h ⊢
  | .f32s _, b, h => by cases b <;> simp [compat] at h ⊢
  | .nil, b, h => by cases b <;> simp [compat] at h ⊢
theorem compatL_symm : ∀ l m : List Key, compatL l m = true → compatL m l = true
  | [], [], _ => by simp [compatL]
  | [], _ :: _, _ => by simp [compatL]
  | _ :: _, [], _ => by simp [compatL]
  | a :: l, b :: m, h => by
    simp only [compatL, Bool.and_eq_true] at h ⊢
    exact ⟨compat_symm a b h.1, compatL_symm l m h.2⟩
end

/-! ## agreement with the natural order of each type -/

/-- signed integers of one Go type: the order of `Int` -/
theorem cmp_natural_sint (t : Nat) (x y : Int) :
    (cmp (.sint t x) (.sint t y) = -1 ↔ x < y) ∧ (cmp (.sint t x) (.sint t y) = 0 ↔ x = y) ∧
    (cmp (.sint t x) (.sint t y) = 1 ↔ y < x) := by
  simp only [cmp, asSint, ↓reduceIte]
  exact ⟨cmpInt_lt_iff _ _, cmpInt_eq_iff _ _, cmpInt_gt_iff _ _⟩

/-- unsigned integers of one Go type: the order of `Nat` -/
theorem cmp_natural_uint (t : Nat) (x y : Nat) :
    (cmp (.uint t x) (.uint t y) = -1 ↔ x < y) ∧ (cmp (.uint t x) (.uint t y) = 0 ↔ x = y) ∧
    (cmp (.uint t x) (.uint t y) = 1 ↔ y < x) := by
  simp only [cmp, asUint, ↓reduceIte]
  refine ⟨?_, ?_, ?_⟩
  · rw [cmpInt_lt_iff]; omega
  · rw [cmpInt_eq_iff]; omega
  · rw [cmpInt_gt_iff]; omega

/-- floats: NaN (any payload) is below every non-NaN and equal to every NaN; non-NaN values are
ordered by the IEEE key (`-0 = +0`, `-Inf` lowest, `+Inf` highest) -/
theorem cmp_natural_float (e m a b : Nat) :
    (fIsNaN e m a = true → fIsNaN e m b = true → cmpFloat e m a b = 0) ∧
    (fIsNaN e m a = true → fIsNaN e m b = false → cmpFloat e m a b = -1) ∧
    (fIsNaN e m a = false → fIsNaN e m b = true → cmpFloat e m a b = 1) ∧
    (fIsNaN e m a = false → fIsNaN e m b = false →
      (cmpFloat e m a b = -1 ↔ fKey e m a < fKey e m b) ∧
      (cmpFloat e m a b = 0 ↔ fKey e m a = fKey e m b) ∧
      (cmpFloat e m a b = 1 ↔ fKey e m b < fKey e m a)) := by
  unfold cmpFloat
  refine ⟨?_, ?_, ?_, ?_⟩
  · intro ha hb; simp [ha, hb]
  · intro ha hb; simp [ha, hb]
  · intro ha hb; simp [ha, hb]
  · intro ha hb; simp only [ha, hb, Bool.false_eq_true, ↓reduceIte]
    exact ⟨cmpInt_lt_iff _ _, cmpInt_eq_iff _ _, cmpInt_gt_iff _ _⟩

theorem cmp_f64 (a b : Nat) : cmp (.f64 a) (.f64 b) = cmpFloat 11 52 a b := by simp [cmp, asF64, cmpF64]
theorem cmp_f32 (a b : Nat) : cmp (.f32 a) (.f32 b) = cmpFloat 8 23 a b := by simp [cmp, asF32, cmpF32]

/-- sanity of the key map on the named IEEE-754 binary64 values -/
theorem fKey64_landmarks :
    fKey 11 52 0x0000000000000000 = 0 ∧ fKey 11 52 0x8000000000000000 = 0 ∧          -- +0, -0
    fKey 11 52 0x8000000000000001 < 0 ∧ 0 < fKey 11 52 0x0000000000000001 ∧          -- ∓ smallest denormal
    fKey 11 52 0xFFF0000000000000 < fKey 11 52 0xFFEFFFFFFFFFFFFF ∧                  -- -Inf < -MaxFloat
    fKey 11 52 0x7FEFFFFFFFFFFFFF < fKey 11 52 0x7FF0000000000000 ∧                  -- MaxFloat < +Inf
    fIsNaN 11 52 0x7FF0000000000000 = false ∧ fIsNaN 11 52 0xFFF0000000000000 = false ∧
    fIsNaN 11 52 0x7FF8000000000001 = true ∧ fIsNaN 11 52 0xFFF0000000000001 = true := by
  decide

/-- byte-lexicographic order: strings, `[]byte`, both UUID types -/
theorem cmpBytes_natural (a b : List Nat) :
    (cmpBytes a b = -1 ↔ SliceLt (fun (x y : Nat) => cmpInt x y) a b) ∧ (cmpBytes a b = 0 ↔ a = b) := by
  refine ⟨?_, cmpBytes_eq_iff a b⟩
  have h := cmpSlice_lt_iff (fun (x y : Nat) => cmpInt x y) a b
  have t := cmpBytes_tri a b
  unfold cmpBytes Tri at *
  rw [← h]; omega

theorem cmp_natural_str (a b : List Nat) : cmp (.str a) (.str b) = cmpBytes a b := by simp [cmp, asStr]
theorem cmp_natural_bytes (a b : List Nat) : cmp (.bytes a) (.bytes b) = cmpBytes a b := by simp [cmp, asBytes]
theorem cmp_natural_guuid (a b : List Nat) : cmp (.guuid a) (.guuid b) = cmpBytes a b := by simp [cmp, asGuuid]
theorem cmp_natural_suuid (a b : List Nat) : cmp (.suuid a) (.suuid b) = cmpBytes a b := by simp [cmp, asSuuid]

/-- on bytes, `SliceLt` is the usual "first differing byte is smaller, or proper prefix" -/
theorem bytes_head_lt (x y : Nat) (l m : List Nat) (h : x < y) : cmpBytes (x :: l) (y :: m) = -1 := by
  have : cmpInt (x:Int) (y:Int) = -1 := (cmpInt_lt_iff _ _).mpr (by omega)
  simp [cmpBytes, cmpSlice, lex, this]
theorem bytes_prefix_lt (l : List Nat) (y : Nat) (m : List Nat) : cmpBytes l (l ++ y :: m) = -1 := by
  induction l with
  | nil => simp [cmpBytes, cmpSlice]
  | cons a l ih =>
    have : cmpInt (a:Int) (a:Int) = 0 := cmpInt_refl _
    simp only [cmpBytes, List.cons_append, cmpSlice, lex, this]
    simpa [cmpBytes] using ih

/-- times (zone-independent: the model holds the instant): order of `sec·10⁹ + nsec` -/
theorem cmp_natural_time (s : Int) (n : Nat) (mo : Option Int) (s' : Int) (n' : Nat) (mo' : Option Int)
    (h : compat (.time s n mo) (.time s' n' mo') = true) (hn : n < 1000000000) (hn' : n' < 1000000000) :
    cmp (.time s n mo) (.time s' n' mo') = cmpInt (s * 1000000000 + n) (s' * 1000000000 + n') := by
  simp only [cmp, asTime]
  rw [cmpTime_eq_wall _ _ _ _ _ _ h]
  exact cmpWall_instant _ _ _ _ hn hn'

/-- the `[]any` loop is the generic slice comparison over `cmp` -/
theorem cmpAnys_eq : ∀ l m : List Key, cmpAnys l m = cmpSlice cmp l m
  | [], [] => by simp [cmpAnys, cmpSlice]
  | [], _ :: _ => by simp [cmpAnys, cmpSlice]
  | _ :: _, [] => by simp [cmpAnys, cmpSlice]
  | a :: l, b :: m => by simp [cmpAnys, cmpSlice, cmpAnys_eq l m]

/-- slices: lexicographic by the element order, a proper prefix first -/
theorem cmp_natural_slices :
    (∀ l m, cmp (.anys l) (.anys m) < 0 ↔ SliceLt cmp l m) ∧
    (∀ l m, cmp (.strs l) (.strs m) < 0 ↔ SliceLt cmpBytes l m) ∧
    (∀ l m, cmp (.ints l) (.ints m) < 0 ↔ SliceLt cmpInt l m) ∧
    (∀ l m, cmp (.f64s l) (.f64s m) < 0 ↔ SliceLt cmpF64 l m) ∧
    (∀ l m, cmp (.f32s l) (.f32s m) < 0 ↔ SliceLt cmpF32 l m) := by
  refine ⟨?_, ?_, ?_, ?_, ?_⟩ <;> intro l m
  · simp only [cmp, asAnys, cmpAnys_eq]; exact cmpSlice_lt_iff _ _ _
  · simp only [cmp, asStrs]; exact cmpSlice_lt_iff _ _ _
  · simp only [cmp, asInts]; exact cmpSlice_lt_iff _ _ _
  · simp only [cmp, asF64s]; exact cmpSlice_lt_iff _ _ _
  · simp only [cmp, asF32s]; exact cmpSlice_lt_iff _ _ _

/-! ## `CoerceComparer` -/

/-- **`CoerceComparer(x)` is `Compare`** on every pair whose first argument has the type of `x`
(whatever the second argument is) -/
theorem coerce_eq_compare (x a b : Key) (h : sameTop x a = true) : coerce x a b = some (cmp a b) := by
  cases x <;> cases a <;> simp [sameTop] at h <;> try (subst h)
  all_goals first
    | (simp [coerce, cmp, asSint, asUint, asF32, asF64, asStr, asGuuid, asSuuid, asTime, asAnys, asBytes, asStrs, asInts, asF64s, asF32s]; done)
    | (cases b <;> simp [coerce, cmp, isNil])

/-! ## outside the hypothesis -/

/-- `[]any` values whose elements have different types are not ordered: `[[1] 2]` vs `[2]` compare
`1` in both directions (found by probing; `Compare([1], 2)` asserts `2` to `[]any` → nil slice →
longer wins, and `Compare(2, [1])` asserts `[1]` to `int` → 0) -/
theorem hetero_not_antisymm :
    cmp (.anys [.anys [.sint 0 1], .sint 0 2]) (.anys [.sint 0 2]) = 1 ∧
    cmp (.anys [.sint 0 2]) (.anys [.anys [.sint 0 1], .sint 0 2]) = 1 ∧
    compat (.anys [.anys [.sint 0 1], .sint 0 2]) (.anys [.sint 0 2]) = false := by
  simp [cmp, cmpAnys, asAnys, asSint, cmpInt, lex, compat, compatL]

/-- times with monotonic readings taken around a backward step of the wall clock are not ordered
transitively: `a < b` (monotonic), `b < c` (wall, `c` has no reading), `c < a` (wall) -/
theorem stepped_clock_not_transitive :
    cmp (.time 100 0 (some 1)) (.time 50 0 (some 2)) = -1 ∧
    cmp (.time 50 0 (some 2)) (.time 60 0 none) = -1 ∧
    cmp (.time 100 0 (some 1)) (.time 60 0 none) = 1 ∧
    compat (.time 100 0 (some 1)) (.time 50 0 (some 2)) = false := by
  simp [cmp, asTime, cmpTime, cmpWall, cmpInt, compat]

/-! ## non-vacuity of the hypotheses -/

def sampleA : Key := .anys [.str [97], .f64 0x7FF8000000000001, .anys [.sint 3 (-5)], .time 10 999999999 none]
def sampleB : Key := .anys [.str [97], .f64 0x8000000000000000, .anys [.sint 3 7, .nil]]
def sampleC : Key := .anys [.str [97, 0], .f64 0]

example : compat sampleA sampleB = true ∧ compat sampleB sampleC = true ∧ compat sampleA sampleC = true := by
  simp [sampleA, sampleB, sampleC, compat, compatL]

example : cmp sampleA sampleC ≤ 0 :=
  cmp_trans sampleA sampleB sampleC (by simp [sampleA, sampleB, compat, compatL]) (by simp [sampleB, sampleC, compat, compatL])
    (by simp [sampleA, sampleC, compat, compatL])
    (by simp [sampleA, sampleB, cmp, cmpAnys, asAnys, asStr, asF64, cmpBytes, cmpSlice, cmpInt, lex, cmpF64, cmpFloat, fIsNaN])
    (by simp [sampleB, sampleC, cmp, cmpAnys, asAnys, asStr, cmpBytes, cmpSlice, cmpInt, lex])

example : compat (.time 5 0 (some 10)) (.time 6 0 (some 20)) = true := by simp [compat, cmpInt, cmpWall]

end Sop.C29
