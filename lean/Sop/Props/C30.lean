import Sop.Model.MapKey
import Sop.Lemmas.Compare
/-!
# C30 — JSON map-key stores order keys consistently, regardless of history

**The code violates the statement** (`C30_counterexample`): the comparer an `IndexSpecification`
(or the default comparer) uses for a field is chosen by the FIRST left key it ever compares and kept
for the life of the instance, so two instances with different pasts order the same two keys
differently. What does hold (`C30_partial_idx`, `C30_partial_default`): if, in every key compared,
each indexed field selects the same comparer (one JSON type per field; null/absent and bool may mix),
every instance, whatever its past, computes one fixed function `refCmp`, and `refCmp` is a total
preorder (`refCmp_refl/_antisymm/_trans/_total`).
-/
namespace Sop.C30
open Sop.Compare Sop.MapKey

/-- a new index comparer applied once -/
def idx0 (spec : List (String × Bool)) (x y : Doc) : Int := (cmpIdx (fresh spec) x y).1
/-- a new default comparer applied once -/
def def0 (x y : Doc) : Int := (cmpDefault none x y).1

/-- the property at full strength: the result for two keys does not depend on what the instance
compared before, and a new instance is antisymmetric and transitive — for both comparers -/
def Statement_C30 : Prop :=
  (∀ (spec : List (String × Bool)) (h₁ h₂ : List (Doc × Doc)) (x y : Doc),
    (cmpIdx (runIdx (fresh spec) h₁) x y).1 = (cmpIdx (runIdx (fresh spec) h₂) x y).1) ∧
  (∀ (h₁ h₂ : List (Doc × Doc)) (x y : Doc),
    (cmpDefault (runDefault none h₁) x y).1 = (cmpDefault (runDefault none h₂) x y).1) ∧
  (∀ spec x y, idx0 spec x y = -idx0 spec y x) ∧
  (∀ spec x y z, idx0 spec x y ≤ 0 → idx0 spec y z ≤ 0 → idx0 spec x z ≤ 0) ∧
  (∀ x y, def0 x y = -def0 y x) ∧
  (∀ x y z, def0 x y ≤ 0 → def0 y z ≤ 0 → def0 x z ≤ 0)

/-! ## witnesses (each replayed on the Go code by the harness's directed cases) -/

def specA : List (String × Bool) := [("a", true)]
/-- `{"a":10}`, `{"a":9}` as `json.Unmarshal` delivers them (float64, `%v` = "10", "9") -/
def k10 : Doc := [("a", .num 0x4024000000000000 [49, 48])]
def k9 : Doc := [("a", .num 0x4022000000000000 [57])]
def kEmpty : Doc := []
def kStrA : Doc := [("a", .str [97])]
def kStrB : Doc := [("a", .str [98])]
def k1 : Doc := [("a", .num 0x3FF0000000000000 [49])]
def kA1B1 : Doc := [("a", .num 0x3FF0000000000000 [49]), ("b", .num 0x3FF0000000000000 [49])]
def kA1B2 : Doc := [("a", .num 0x3FF0000000000000 [49]), ("b", .num 0x4000000000000000 [50])]

/-- a new index on `a` says `{a:10} > {a:9}` … -/
theorem fresh_10_gt_9 : (cmpIdx (runIdx (fresh specA) []) k10 k9).1 = 1 := by decide
/-- … one whose first comparison saw a key without `a` says `{a:10} < {a:9}` forever after
(numbers compared by their `%v` strings, `"10" < "9"`) -/
theorem after_missing_10_lt_9 : (cmpIdx (runIdx (fresh specA) [(kEmpty, kEmpty)]) k10 k9).1 = -1 := by decide

/-- **the property fails**: same spec, same two keys, two pasts, two answers -/
theorem C30_counterexample : ¬ Statement_C30 := by
  intro h
  have h1 := h.1 specA [] [(kEmpty, kEmpty)] k10 k9
  rw [fresh_10_gt_9, after_missing_10_lt_9] at h1
  exact absurd h1 (by decide)

/-- an index that first saw numbers compares all strings equal (`x.(float64)` fails → 0) -/
theorem after_numbers_strings_equal :
    (cmpIdx (runIdx (fresh specA) []) kStrB kStrA).1 = 1 ∧
    (cmpIdx (runIdx (fresh specA) [(k10, k9)]) kStrB kStrA).1 = 0 := by decide

/-- even new instances are not antisymmetric on mixed types: the LEFT key's field type selects
the comparer (`{a:1}` vs `{a:"a"}` is `1` both ways) -/
theorem fresh_left_type_selects : idx0 specA k1 kStrA = 1 ∧ idx0 specA kStrA k1 = 1 := by decide

/-- the default comparer keeps the field list of its first left key: after comparing `{}` it
ignores every field; after `{a}` it ignores `b` -/
theorem default_first_key_fixes_fields :
    (cmpDefault (runDefault none []) kA1B1 kA1B2).1 = -1 ∧
    (cmpDefault (runDefault none [(k1, k1)]) kA1B1 kA1B2).1 = 0 ∧
    (cmpDefault (runDefault none [(kEmpty, kEmpty)]) k10 k9).1 = 0 := by decide

/-! ## what holds: a fixed comparer per field is a total preorder on ALL keys -/

theorem Tr_swap {x y z : Int} (h : Tr x y z) : Tr y x z :=
  ⟨fun a b => h.2.1 b a, fun a b => h.1 b a, fun a b => h.2.2 b a⟩

theorem applyKind_tri (k : Kind) (x y : JVal) : Tri (applyKind k x y) := by
  cases k <;> simp only [applyKind]
  · have := cmpBytes_tri (fmtV x) (fmtV y)
    unfold Tri at *
    repeat' split
    all_goals omega
  · exact cmpFloat_tri _ _ _ _
  · exact cmpInt_tri _ _
  · exact cmpBytes_tri _ _

theorem applyKind_refl (k : Kind) (x : JVal) : applyKind k x x = 0 := by
  cases k <;> simp only [applyKind]
  · cases isNil x <;> simp [cmpBytes_refl]
  · exact cmpFloat_refl _ _ _
  · exact cmpInt_refl _
  · exact cmpBytes_refl _

theorem applyKind_antisymm (k : Kind) (x y : JVal) : applyKind k x y = -applyKind k y x := by
  cases k <;> simp only [applyKind]
  · have := cmpBytes_antisymm (fmtV x) (fmtV y)
    cases isNil x <;> cases isNil y <;> simp <;> omega
  · exact cmpFloat_antisymm _ _ _ _
  · exact cmpInt_antisymm _ _
  · exact cmpBytes_antisymm _ _

theorem applyKind_tr (k : Kind) (x y z : JVal) :
    Tr (applyKind k x y) (applyKind k y z) (applyKind k x z) := by
  cases k <;> simp only [applyKind]
  · have h := cmpBytes_tr (fmtV x) (fmtV y) (fmtV z)
    cases isNil x <;> cases isNil y <;> cases isNil z <;>
      simp only [Bool.and_self, Bool.and_true, Bool.and_false, Bool.false_eq_true, ↓reduceIte] <;>
      first
        | exact h
        | (unfold Tr; omega)
  · exact cmpFloat_tr _ _ _ _ _
  · exact cmpInt_tr _ _ _
  · exact cmpBytes_tr _ _ _

/-- one field's contribution under a fixed assignment `κ` of comparers to field names -/
def fieldCmp (κ : String → Kind) (p : String × Bool) (x y : Doc) : Int :=
  dir p.2 (applyKind (κ p.1) (get x p.1) (get y p.1))

/-- **the history-free order**: fields in index order, first non-zero decides, descending fields negated -/
def refCmp (κ : String → Kind) : List (String × Bool) → Doc → Doc → Int
  | [], _, _ => 0
  | p :: sp, x, y => lex (fieldCmp κ p x y) (refCmp κ sp x y)

theorem fieldCmp_tri (κ : String → Kind) (p : String × Bool) (x y : Doc) : Tri (fieldCmp κ p x y) := by
  have := applyKind_tri (κ p.1) (get x p.1) (get y p.1)
  unfold fieldCmp dir Tri at *
  split <;> omega

theorem fieldCmp_refl (κ : String → Kind) (p : String × Bool) (x : Doc) : fieldCmp κ p x x = 0 := by
  simp [fieldCmp, dir, applyKind_refl]

theorem fieldCmp_antisymm (κ : String → Kind) (p : String × Bool) (x y : Doc) :
    fieldCmp κ p x y = -fieldCmp κ p y x := by
  have := applyKind_antisymm (κ p.1) (get x p.1) (get y p.1)
  unfold fieldCmp dir
  split <;> omega

theorem fieldCmp_tr (κ : String → Kind) (p : String × Bool) (x y z : Doc) :
    Tr (fieldCmp κ p x y) (fieldCmp κ p y z) (fieldCmp κ p x z) := by
  unfold fieldCmp dir
  cases p.2
  · -- descending: the reversed triple, by antisymmetry
    have h := Tr_swap (applyKind_tr (κ p.1) (get z p.1) (get y p.1) (get x p.1))
    rw [applyKind_antisymm _ (get y p.1) (get x p.1), applyKind_antisymm _ (get z p.1) (get y p.1),
      applyKind_antisymm _ (get z p.1) (get x p.1)] at h
    simpa using h
  · simpa using applyKind_tr (κ p.1) (get x p.1) (get y p.1) (get z p.1)

theorem refCmp_tri (κ : String → Kind) : ∀ sp x y, Tri (refCmp κ sp x y)
  | [], _, _ => by simp [refCmp, Tri]
  | p :: sp, x, y => by simp only [refCmp]; exact lex_tri (fieldCmp_tri κ p x y) (refCmp_tri κ sp x y)

/-- reflexive -/
theorem refCmp_refl (κ : String → Kind) : ∀ sp x, refCmp κ sp x x = 0
  | [], _ => by simp [refCmp]
  | p :: sp, x => by simp [refCmp, lex, fieldCmp_refl, refCmp_refl κ sp x]

/-- antisymmetric -/
theorem refCmp_antisymm (κ : String → Kind) : ∀ sp x y, refCmp κ sp x y = -refCmp κ sp y x
  | [], _, _ => by simp [refCmp]
  | p :: sp, x, y => by
    simp only [refCmp]; exact lex_antisymm (fieldCmp_antisymm κ p x y) (refCmp_antisymm κ sp x y)

theorem refCmp_tr (κ : String → Kind) : ∀ sp x y z, Tr (refCmp κ sp x y) (refCmp κ sp y z) (refCmp κ sp x z)
  | [], _, _, _ => by simp [refCmp, Tr]
  | p :: sp, x, y, z => by
    simp only [refCmp]; exact lex_tr (fieldCmp_tr κ p x y z) (refCmp_tr κ sp x y z)

/-- transitive -/
theorem refCmp_trans (κ : String → Kind) (sp : List (String × Bool)) (x y z : Doc)
    (h1 : refCmp κ sp x y ≤ 0) (h2 : refCmp κ sp y z ≤ 0) : refCmp κ sp x z ≤ 0 :=
  (refCmp_tr κ sp x y z).le h1 h2

/-- total, with results in {-1, 0, 1} -/
theorem refCmp_total (κ : String → Kind) (sp : List (String × Bool)) (x y : Doc) :
    (refCmp κ sp x y = -1 ∨ refCmp κ sp x y = 0 ∨ refCmp κ sp x y = 1) ∧
    (refCmp κ sp x y ≤ 0 ∨ refCmp κ sp y x ≤ 0) := by
  refine ⟨refCmp_tri κ sp x y, ?_⟩
  have := refCmp_antisymm κ sp x y
  omega

/-! ## every instance computes `refCmp` when each field selects one comparer in all keys -/

def specOf (fs : List Field) : List (String × Bool) := fs.map fun f => (f.name, f.asc)

/-- every cache is empty or holds the comparer `κ` assigns -/
def StOK (κ : String → Kind) (fs : List Field) : Prop :=
  ∀ f ∈ fs, f.cached = none ∨ f.cached = some (κ f.name)

/-- in key `d`, every indexed field selects the comparer `κ` assigns (i.e. has the JSON type `κ`
stands for: number, string, Go int, or null/absent/bool) -/
def Uniform (κ : String → Kind) (sp : List (String × Bool)) (d : Doc) : Prop :=
  ∀ p ∈ sp, kindOf (get d p.1) = κ p.1

theorem specOf_fresh (spec : List (String × Bool)) : specOf (fresh spec) = spec := by
  induction spec with
  | nil => rfl
  | cons p sp ih => simp only [fresh, List.map_cons, specOf] at *; rw [ih]

theorem stOK_fresh (κ : String → Kind) (spec : List (String × Bool)) : StOK κ (fresh spec) := by
  intro f hf
  simp only [fresh, List.mem_map] at hf
  obtain ⟨p, _, rfl⟩ := hf
  exact Or.inl rfl

theorem cmpIdx_uniform (κ : String → Kind) : ∀ (fs : List Field) (x y : Doc),
    StOK κ fs → Uniform κ (specOf fs) x →
    (cmpIdx fs x y).1 = refCmp κ (specOf fs) x y ∧ specOf (cmpIdx fs x y).2 = specOf fs ∧
    StOK κ (cmpIdx fs x y).2
  | [], _, _, _, _ => by
    refine ⟨by simp [cmpIdx, specOf, refCmp], by simp [cmpIdx], ?_⟩
    intro f hf; simp [cmpIdx] at hf
  | f :: fs, x, y, hs, hu => by
    have hk : fieldKind f x = κ f.name := by
      unfold fieldKind
      rcases hs f (List.mem_cons_self) with h | h
      · rw [h]; exact hu (f.name, f.asc) (by simp [specOf])
      · rw [h]
    have hs' : StOK κ fs := fun g hg => hs g (List.mem_cons_of_mem _ hg)
    have hu' : Uniform κ (specOf fs) x := fun p hp => hu p (by simp only [specOf, List.map_cons]; exact List.mem_cons_of_mem _ hp)
    obtain ⟨ih1, ih2, ih3⟩ := cmpIdx_uniform κ fs x y hs' hu'
    simp only [cmpIdx, hk]
    split
    · rename_i hr
      refine ⟨?_, by simp [specOf], ?_⟩
      · have : dir f.asc (applyKind (κ f.name) (get x f.name) (get y f.name)) ≠ 0 := by
          unfold dir; split <;> omega
        have e : ∀ R, lex (dir f.asc (applyKind (κ f.name) (get x f.name) (get y f.name))) R =
            dir f.asc (applyKind (κ f.name) (get x f.name) (get y f.name)) := by
          intro R; unfold lex; rw [if_pos this]
        simp only [specOf, List.map_cons, refCmp, fieldCmp]
        exact (e _).symm
      · intro g hg
        simp only [List.mem_cons] at hg
        rcases hg with rfl | hg
        · exact Or.inr rfl
        · exact hs' g hg
    · rename_i hr
      have hr0 : applyKind (κ f.name) (get x f.name) (get y f.name) = 0 := by omega
      refine ⟨?_, ?_, ?_⟩
      · simp only [specOf, List.map_cons, refCmp, fieldCmp, lex, hr0, dir]
        simp only [specOf] at ih1
        simp [ih1]
      · simp only [specOf, List.map_cons] at ih2 ⊢
        rw [ih2]
      · intro g hg
        simp only [List.mem_cons] at hg
        rcases hg with rfl | hg
        · exact Or.inr rfl
        · exact ih3 g hg

theorem runIdx_uniform (κ : String → Kind) : ∀ (h : List (Doc × Doc)) (fs : List Field),
    StOK κ fs → (∀ p ∈ h, Uniform κ (specOf fs) p.1) →
    StOK κ (runIdx fs h) ∧ specOf (runIdx fs h) = specOf fs
  | [], fs, hs, _ => ⟨hs, rfl⟩
  | p :: h, fs, hs, hu => by
    obtain ⟨_, e2, e3⟩ := cmpIdx_uniform κ fs p.1 p.2 hs (hu p List.mem_cons_self)
    have := runIdx_uniform κ h (cmpIdx fs p.1 p.2).2 e3
      (fun q hq => by rw [e2]; exact hu q (List.mem_cons_of_mem _ hq))
    simp only [runIdx]
    exact ⟨this.1, this.2.trans e2⟩

/-- **C30, restricted (index specification)**: if in every left key ever compared each indexed field
selects the comparer `κ` assigns, then an instance with ANY such past returns `refCmp κ spec x y` —
a fixed total preorder (`refCmp_refl/_antisymm/_trans/_total`), the same in every process. -/
theorem C30_partial_idx (κ : String → Kind) (spec : List (String × Bool)) (h : List (Doc × Doc)) (x y : Doc)
    (hh : ∀ p ∈ h, Uniform κ spec p.1) (hx : Uniform κ spec x) :
    (cmpIdx (runIdx (fresh spec) h) x y).1 = refCmp κ spec x y := by
  have r := runIdx_uniform κ h (fresh spec) (stOK_fresh κ spec) (by rw [specOf_fresh]; exact hh)
  rw [specOf_fresh] at r
  have c := cmpIdx_uniform κ (runIdx (fresh spec) h) x y r.1 (by rw [r.2]; exact hx)
  rw [c.1, r.2]

/-- history independence as such, for uniformly typed keys -/
theorem C30_partial_history_free (κ : String → Kind) (spec : List (String × Bool)) (h₁ h₂ : List (Doc × Doc)) (x y : Doc)
    (hh₁ : ∀ p ∈ h₁, Uniform κ spec p.1) (hh₂ : ∀ p ∈ h₂, Uniform κ spec p.1) (hx : Uniform κ spec x) :
    (cmpIdx (runIdx (fresh spec) h₁) x y).1 = (cmpIdx (runIdx (fresh spec) h₂) x y).1 := by
  rw [C30_partial_idx κ spec h₁ x y hh₁ hx, C30_partial_idx κ spec h₂ x y hh₂ hx]

/-! ### the default comparer: additionally all keys must have the same field names -/

def ascSpec (ks : List String) : List (String × Bool) := ks.map fun k => (k, true)

/-- state invariant of a default comparer fed keys with field names `ks` -/
def DefOK (κ : String → Kind) (ks : List String) (st : Option (List Field)) : Prop :=
  st = none ∨ ∃ fs, st = some fs ∧ specOf fs = ascSpec ks ∧ StOK κ fs

theorem cmpDefault_uniform (κ : String → Kind) (ks : List String) (st : Option (List Field)) (x y : Doc)
    (hst : DefOK κ ks st) (hk : sortedKeys x = ks) (hx : Uniform κ (ascSpec ks) x) :
    (cmpDefault st x y).1 = refCmp κ (ascSpec ks) x y ∧ DefOK κ ks (cmpDefault st x y).2 := by
  rcases hst with rfl | ⟨fs, rfl, e, ok⟩
  · have e : specOf (fresh ((sortedKeys x).map fun k => (k, true))) = ascSpec ks := by
      rw [specOf_fresh, hk]; rfl
    obtain ⟨c1, c2, c3⟩ := cmpIdx_uniform κ (fresh ((sortedKeys x).map fun k => (k, true))) x y (stOK_fresh κ _) (by rw [e]; exact hx)
    simp only [cmpDefault]
    exact ⟨by rw [c1, e], Or.inr ⟨_, rfl, by rw [c2, e], c3⟩⟩
  · obtain ⟨c1, c2, c3⟩ := cmpIdx_uniform κ fs x y ok (by rw [e]; exact hx)
    simp only [cmpDefault]
    exact ⟨by rw [c1, e], Or.inr ⟨_, rfl, by rw [c2, e], c3⟩⟩

theorem runDefault_uniform (κ : String → Kind) (ks : List String) : ∀ (h : List (Doc × Doc)) (st : Option (List Field)),
    DefOK κ ks st → (∀ p ∈ h, sortedKeys p.1 = ks ∧ Uniform κ (ascSpec ks) p.1) → DefOK κ ks (runDefault st h)
  | [], _, hs, _ => hs
  | p :: h, st, hs, hu => by
    have hp := hu p List.mem_cons_self
    have c := cmpDefault_uniform κ ks st p.1 p.2 hs hp.1 hp.2
    simp only [runDefault]
    exact runDefault_uniform κ ks h _ c.2 (fun q hq => hu q (List.mem_cons_of_mem _ hq))

/-- **C30, restricted (default comparer)**: if all left keys ever compared have the field names `ks`
and each field selects one comparer in all of them, every instance returns `refCmp κ (ks ascending)`. -/
theorem C30_partial_default (κ : String → Kind) (ks : List String) (h : List (Doc × Doc)) (x y : Doc)
    (hh : ∀ p ∈ h, sortedKeys p.1 = ks ∧ Uniform κ (ascSpec ks) p.1)
    (hk : sortedKeys x = ks) (hx : Uniform κ (ascSpec ks) x) :
    (cmpDefault (runDefault none h) x y).1 = refCmp κ (ascSpec ks) x y :=
  (cmpDefault_uniform κ ks _ x y (runDefault_uniform κ ks h none (Or.inl rfl) hh) hk hx).1

/-! ## non-vacuity: a two-field index (number ascending, string descending) over typed keys -/

def specAB : List (String × Bool) := [("a", true), ("b", false)]
def κAB : String → Kind := fun n => if n = "a" then .f64 else .str
def d1 : Doc := [("a", .num 0x4024000000000000 [49, 48]), ("b", .str [120])]
def d2 : Doc := [("b", .str [121]), ("a", .num 0x4024000000000000 [49, 48])]

example : Uniform κAB specAB d1 ∧ Uniform κAB specAB d2 := by
  constructor <;> intro p hp <;> simp [specAB] at hp <;> rcases hp with rfl | rfl <;> decide

example : (cmpIdx (runIdx (fresh specAB) [(d2, d1), (d1, d1)]) d1 d2).1 = 1 ∧ refCmp κAB specAB d1 d2 = 1 := by decide

example : sortedKeys d1 = ["a", "b"] ∧ sortedKeys d2 = ["a", "b"] := by decide

end Sop.C30
