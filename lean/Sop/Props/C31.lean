import Sop.Model.Stream
/-! # C31 — streamed values read back exactly as written

`Reader.read true` is `reader.Read` after the one-line repair (advance `chunkIndex` when the
buffered chunk has been drained); `Reader.read false` is the pinned tree.  -/
namespace Sop.C31
open Sop.Stream

/-! ## the ordered-collection spec -/

theorem skey_eq_iff (a b : SKey) : a = b ↔ a.key = b.key ∧ a.idx = b.idx := by
  cases a; cases b; simp

theorem lookup_isSome_of_mem {it : Items} {k : SKey} (h : ∃ e ∈ it, e.1 = k) : ∃ v, lookup it k = some v := by
  induction it with
  | nil => obtain ⟨e, he, _⟩ := h; cases he
  | cons x rest ih =>
    unfold lookup
    by_cases hx : x.1 = k
    · exact ⟨x.2, by simp [hx]⟩
    · simp only [hx, ↓reduceIte]
      obtain ⟨e, he, hk⟩ := h
      rcases List.mem_cons.1 he with rfl | he
      · exact absurd hk hx
      · exact ih ⟨e, he, hk⟩

theorem mem_of_lookup {it : Items} {k : SKey} {v : Chunk} (h : lookup it k = some v) : ∃ e ∈ it, e.1 = k := by
  induction it with
  | nil => simp [lookup] at h
  | cons x rest ih =>
    unfold lookup at h
    by_cases hx : x.1 = k
    · exact ⟨x, List.mem_cons_self, hx⟩
    · simp only [hx, ↓reduceIte] at h
      obtain ⟨e, he, hk⟩ := ih h
      exact ⟨e, List.mem_cons_of_mem _ he, hk⟩

/-- what `succ` returns is a stored key above `c`, and no stored key lies strictly between -/
theorem succ_some {it : Items} {c m : SKey} (h : succ it c = some m) :
    c.lt m ∧ (∃ e ∈ it, e.1 = m) ∧ ∀ e ∈ it, c.lt e.1 → ¬ e.1.lt m := by
  induction it generalizing m with
  | nil => simp [succ] at h
  | cons x rest ih =>
    unfold succ at h
    cases hs : succ rest c with
    | none =>
      rw [hs] at h
      by_cases hx : c.lt x.1
      · simp only [hx, ↓reduceIte, Option.some.injEq] at h
        subst h
        refine ⟨hx, ⟨x, List.mem_cons_self, rfl⟩, ?_⟩
        intro e he hce
        rcases List.mem_cons.1 he with rfl | he
        · unfold SKey.lt; omega
        · exact absurd hce (succ_none_aux hs e he)
      · simp [hx] at h
    | some m' =>
      rw [hs] at h
      obtain ⟨h1, h2, h3⟩ := ih hs
      by_cases hx : c.lt x.1 ∧ x.1.lt m'
      · simp only [hx, and_self, ↓reduceIte, Option.some.injEq] at h
        subst h
        refine ⟨hx.1, ⟨x, List.mem_cons_self, rfl⟩, ?_⟩
        intro e he hce
        rcases List.mem_cons.1 he with rfl | he
        · unfold SKey.lt; omega
        · have := h3 e he hce
          have hx2 := hx.2
          unfold SKey.lt at *; omega
      · simp only [hx, ↓reduceIte, Option.some.injEq] at h
        subst h
        refine ⟨h1, ?_, ?_⟩
        · obtain ⟨e, he, hk⟩ := h2
          exact ⟨e, List.mem_cons_of_mem _ he, hk⟩
        · intro e he hce
          rcases List.mem_cons.1 he with rfl | he
          · intro hlt; exact hx ⟨hce, hlt⟩
          · exact h3 e he hce
where
  succ_none_aux {it : Items} {c : SKey} (h : succ it c = none) : ∀ e ∈ it, ¬ c.lt e.1 := by
    induction it with
    | nil => intro e he; cases he
    | cons x rest ih =>
      unfold succ at h
      cases hs : succ rest c with
      | none =>
        rw [hs] at h
        by_cases hx : c.lt x.1
        · simp [hx] at h
        · intro e he
          rcases List.mem_cons.1 he with rfl | he
          · exact hx
          · exact ih hs e he
      | some m' =>
        rw [hs] at h
        by_cases hx : c.lt x.1 ∧ x.1.lt m' <;> simp [hx] at h

theorem succ_none {it : Items} {c : SKey} (h : succ it c = none) : ∀ e ∈ it, ¬ c.lt e.1 :=
  succ_some.succ_none_aux h

/-- if chunk `i+1` of `k` is stored, `Next` from `(k,i)` lands on it -/
theorem succ_next {it : Items} {k i : Nat} {v : Chunk} (h : lookup it ⟨k, i + 1⟩ = some v) :
    succ it ⟨k, i⟩ = some ⟨k, i + 1⟩ := by
  obtain ⟨e, he, hk⟩ := mem_of_lookup h
  have hlt : (⟨k, i⟩ : SKey).lt e.1 := by rw [hk]; unfold SKey.lt; simp
  cases hs : succ it ⟨k, i⟩ with
  | none => exact absurd hlt (succ_none hs e he)
  | some m =>
    obtain ⟨h1, _, h3⟩ := succ_some hs
    have := h3 e he hlt
    rw [hk] at this
    congr 1
    rw [skey_eq_iff]
    unfold SKey.lt at *
    simp only at *
    omega

/-- The block WITHOUT the fallback (`writer.Write` in update mode; the reader before fix 7fc80460):
`locate` finds exactly the stored chunks and does not change the collection, WHEREVER the shared
cursor rests — given that something is selected (as after any successful `Find`) or the wanted chunk is
not chunk 1 of the entry under the zero key (with nothing selected `GetCurrentKey` answers the zero key
(0,0), which this block takes for "the cursor is on chunk 0 of entry 0") -/
theorem locate_spec (t : Tree) (sdk : SKey) (hc : t.cur.isSome ∨ sdk ≠ ⟨0, 1⟩) :
    (locate t sdk).1.items = t.items ∧
    (∀ v, lookup t.items sdk = some v → (locate t sdk).2 = true ∧ (locate t sdk).1.cur = some sdk) ∧
    (lookup t.items sdk = none → (locate t sdk).2 = false) := by
  obtain ⟨items, cur⟩ := t
  cases cur with
  | none =>
    have hne : sdk ≠ ⟨0, 1⟩ := by simpa using hc
    have hck : ¬ (⟨0, 0 + 1⟩ : SKey) = sdk := fun h => hne h.symm
    cases hl : lookup items sdk with
    | some v => simp [locate, Tree.currentKey, hck, Tree.find, hl]
    | none => simp [locate, Tree.currentKey, hck, Tree.find, hl]
  | some c =>
    by_cases hck : (⟨c.key, c.idx + 1⟩ : SKey) = sdk
    · subst hck
      cases hl : lookup items ⟨c.key, c.idx + 1⟩ with
      | some v =>
        have hs : succ items c = some ⟨c.key, c.idx + 1⟩ := succ_next (k := c.key) (i := c.idx) hl
        simp [locate, Tree.next, hs, Tree.currentKey]
      | none =>
        cases hs : succ items c with
        | none => simp [locate, Tree.next, hs, Tree.currentKey]
        | some m =>
          have hm : m ≠ ⟨c.key, c.idx + 1⟩ := by
            intro hm
            obtain ⟨_, h2, _⟩ := succ_some hs
            obtain ⟨v, hv⟩ := lookup_isSome_of_mem h2
            rw [hm, hl] at hv
            cases hv
          simp [locate, Tree.next, hs, Tree.currentKey, hm]
    · cases hl : lookup items sdk with
      | some v => simp [locate, Tree.currentKey, hck, Tree.find, hl]
      | none => simp [locate, Tree.currentKey, hck, Tree.find, hl]

theorem find_spec (t : Tree) (k : SKey) :
    (t.find k).1.items = t.items ∧
    (∀ v, lookup t.items k = some v → (t.find k).2 = true ∧ (t.find k).1.cur = some k) ∧
    (lookup t.items k = none → (t.find k).2 = false) := by
  unfold Tree.find
  cases hl : lookup t.items k <;> simp

/-- **The reader's positioning block as it stands (fix 7fc80460)** finds exactly the stored chunks and
does not change the collection, wherever the shared cursor rests and also when NOTHING is selected
(no hypothesis on the cursor, none on the key: a `Next` shortcut that was taken for the wrong reason —
the current key only read as the zero key — misses and falls back to `Find`). -/
theorem locateR_spec (t : Tree) (sdk : SKey) :
    (locateR t sdk).1.items = t.items ∧
    (∀ v, lookup t.items sdk = some v → (locateR t sdk).2 = true ∧ (locateR t sdk).1.cur = some sdk) ∧
    (lookup t.items sdk = none → (locateR t sdk).2 = false) := by
  unfold locateR
  simp only
  by_cases hck : (⟨t.currentKey.key, t.currentKey.idx + 1⟩ : SKey) = sdk
  · simp only [hck, ↓reduceIte]
    have hn : t.next.1.items = t.items := by
      unfold Tree.next
      cases t.cur with
      | none => rfl
      | some c => simp only; cases succ t.items c <;> rfl
    rcases hnx : t.next with ⟨t', f⟩
    rw [hnx] at hn
    simp only at hn ⊢
    by_cases hmiss : ¬ f = true ∨ t'.currentKey ≠ sdk
    · simp only [hmiss, ↓reduceIte]
      have := find_spec t' sdk
      rw [hn] at this
      exact this
    · simp only [hmiss, ↓reduceIte]
      have hf : f = true := by
        cases f with
        | true => rfl
        | false => exact absurd (Or.inl (by simp)) hmiss
      have hk : t'.currentKey = sdk := by
        by_cases h : t'.currentKey = sdk
        · exact h
        · exact absurd (Or.inr h) hmiss
      subst hf
      -- `Next` succeeded: it moved to a stored key, and that key is `sdk`
      have hstored : t'.cur = some sdk ∧ ∃ v, lookup t.items sdk = some v := by
        unfold Tree.next at hnx
        cases hc : t.cur with
        | none => rw [hc] at hnx; simp at hnx
        | some c =>
          rw [hc] at hnx
          simp only at hnx
          cases hs : succ t.items c with
          | none => rw [hs] at hnx; simp at hnx
          | some m =>
            rw [hs] at hnx
            simp only [Prod.mk.injEq, and_true] at hnx
            subst hnx
            simp only [Tree.currentKey, Option.getD_some] at hk
            subst hk
            obtain ⟨_, h2, _⟩ := succ_some hs
            exact ⟨rfl, lookup_isSome_of_mem h2⟩
      obtain ⟨hcur, v0, hv0⟩ := hstored
      refine ⟨hn, fun v _ => ⟨rfl, hcur⟩, fun hnone => ?_⟩
      rw [hnone] at hv0; cases hv0
  · simp only [hck, ↓reduceIte]
    exact find_spec t sdk

/-! ## the reader -/

/-- chunks `cs` of entry `k` are stored at indices `i, i+1, …` and index `i + cs.length` is free -/
def Holds (it : Items) (k : Nat) : Nat → List Chunk → Prop
  | i, [] => lookup it ⟨k, i⟩ = none
  | i, c :: cs => lookup it ⟨k, i⟩ = some c ∧ Holds it k (i + 1) cs

/-- reader state invariant: `pend` are exactly the bytes still to be delivered, `mc` the number of
chunks not yet fetched -/
def Pending (k : Nat) (t : Tree) (r : Reader) (pend : List Nat) (mc : Nat) : Prop :=
  r.key = k ∧ ∃ cs : List Chunk, mc = cs.length ∧
    ((r.readChunk = none ∧ Holds t.items k r.chunkIndex cs ∧ pend = cs.flatten) ∨
     (∃ rc, r.readChunk = some rc ∧ r.readCount < rc.length ∧ Holds t.items k (r.chunkIndex + 1) cs ∧
        pend = rc.drop r.readCount ++ cs.flatten))

theorem read_step (k : Nat) (t : Tree) (r : Reader) (pend : List Nat) (mc n : Nat)
    (hp : Pending k t r pend mc) (hn : 0 < n) :
    match Reader.read true t r n with
    | (_, _, .eof) => pend = []
    | (t', r', .data out) => ∃ pend' mc', pend = out ++ pend' ∧ Pending k t' r' pend' mc' ∧
        pend'.length + mc' < pend.length + mc := by
  obtain ⟨hk, cs, hmc, hcase⟩ := hp
  rcases hcase with ⟨hrc, hh, hpend⟩ | ⟨rc, hrc, hlt, hh, hpend⟩
  · -- nothing buffered: fetch chunk `chunkIndex`
    unfold Reader.read Reader.readWith
    rw [hrc]
    simp only
    obtain ⟨hi, hfound, hnone⟩ := locateR_spec t ⟨r.key, r.chunkIndex⟩
    cases cs with
    | nil =>
      have : lookup t.items ⟨r.key, r.chunkIndex⟩ = none := by rw [hk]; exact hh
      have hf := hnone this
      rw [show locateR t ⟨r.key, r.chunkIndex⟩ = ((locateR t ⟨r.key, r.chunkIndex⟩).1, (locateR t ⟨r.key, r.chunkIndex⟩).2) from rfl]
      simp only [hf]
      simpa using hpend
    | cons c cs' =>
      obtain ⟨hl, hrest⟩ := hh
      have hl' : lookup t.items ⟨r.key, r.chunkIndex⟩ = some c := by rw [hk]; exact hl
      obtain ⟨hf, hcur⟩ := hfound c hl'
      rw [show locateR t ⟨r.key, r.chunkIndex⟩ = ((locateR t ⟨r.key, r.chunkIndex⟩).1, (locateR t ⟨r.key, r.chunkIndex⟩).2) from rfl]
      simp only [hf, ↓reduceIte]
      have hval : (locateR t ⟨r.key, r.chunkIndex⟩).1.currentValue = c := by
        unfold Tree.currentValue
        rw [hcur]; simp only; rw [hi, hl']; rfl
      rw [hval]
      by_cases hpart : (c.take n).length < c.length
      · simp only [hpart, ↓reduceIte]
        have hlen : (c.take n).length = n := by
          rw [List.length_take] at hpart ⊢; omega
        refine ⟨c.drop n ++ cs'.flatten, cs'.length, ?_, ⟨hk, cs', rfl, Or.inr ⟨c, rfl, ?_, ?_, ?_⟩⟩, ?_⟩
        · rw [hpend, List.flatten_cons, ← List.append_assoc, List.take_append_drop]
        · simpa using hpart
        · rw [hi]; exact hrest
        · simp only [hlen]
        · rw [hpend, hmc]
          simp only [List.flatten_cons, List.length_append, List.length_drop, List.length_cons]
          omega
      · simp only [hpart, ↓reduceIte]
        have hall : c.take n = c := by
          apply List.take_of_length_le
          rw [List.length_take] at hpart; omega
        refine ⟨cs'.flatten, cs'.length, ?_, ⟨hk, cs', rfl, Or.inl ⟨by simp, ?_, rfl⟩⟩, ?_⟩
        · rw [hpend, hall, List.flatten_cons]
        · rw [hi]; exact hrest
        · rw [hpend, hmc]
          simp only [List.flatten_cons, List.length_append, List.length_cons]
          omega
  · -- a partially delivered chunk is buffered
    unfold Reader.read Reader.readWith
    rw [hrc]
    simp only
    have hdl : (rc.drop r.readCount).length = rc.length - r.readCount := List.length_drop
    by_cases hdr : ((rc.drop r.readCount).take n).length + r.readCount ≥ rc.length
    · simp only [hdr, ↓reduceIte]
      have hall : (rc.drop r.readCount).take n = rc.drop r.readCount := by
        apply List.take_of_length_le
        rw [List.length_take] at hdr; omega
      refine ⟨cs.flatten, cs.length, ?_, ⟨hk, cs, rfl, Or.inl ⟨rfl, hh, rfl⟩⟩, ?_⟩
      · rw [hpend, hall]
      · rw [hpend, hmc]
        simp only [List.length_append, hdl]
        omega
    · simp only [hdr, ↓reduceIte]
      have hlen : ((rc.drop r.readCount).take n).length = n := by
        rw [List.length_take] at hdr ⊢; omega
      refine ⟨rc.drop (r.readCount + n) ++ cs.flatten, cs.length, ?_,
        ⟨hk, cs, rfl, Or.inr ⟨rc, by simp, ?_, hh, ?_⟩⟩, ?_⟩
      · rw [hpend, ← List.append_assoc]
        congr 1
        rw [← List.drop_drop, List.take_append_drop]
      · simp only [hlen]; rw [hlen] at hdr; omega
      · simp only [hlen]
      · rw [hpend, hmc]
        simp only [List.length_append, List.length_drop]
        rw [hlen] at hdr
        omega

theorem readAll_spec (k : Nat) : ∀ (bufs : List Nat) (t : Tree) (r : Reader) (pend : List Nat) (mc : Nat),
    Pending k t r pend mc → (∀ b ∈ bufs, 0 < b) →
    ((readAll true t r bufs).2 = true → (readAll true t r bufs).1 = pend) ∧
    (∃ rest, pend = (readAll true t r bufs).1 ++ rest) ∧
    (pend.length + mc < bufs.length → (readAll true t r bufs).2 = true) := by
  intro bufs
  induction bufs with
  | nil =>
    intro t r pend mc _ _
    simp [readAll]
  | cons n ns ih =>
    intro t r pend mc hp hpos
    have hn : 0 < n := hpos n List.mem_cons_self
    have hstep := read_step k t r pend mc n hp hn
    unfold readAll
    rcases hread : Reader.read true t r n with ⟨t', r', res⟩
    rw [hread] at hstep
    cases res with
    | eof =>
      simp only at hstep
      simp [hstep]
    | data out =>
      simp only at hstep
      obtain ⟨pend', mc', hsplit, hp', hlt⟩ := hstep
      obtain ⟨h1, ⟨rest, h2⟩, h3⟩ := ih t' r' pend' mc' hp' (fun b hb => hpos b (List.mem_cons_of_mem _ hb))
      simp only
      refine ⟨?_, ?_, ?_⟩
      · intro he; rw [hsplit, h1 he]
      · exact ⟨rest, by rw [hsplit, List.append_assoc, ← h2]⟩
      · intro hl
        apply h3
        simp only [List.length_cons] at hl
        omega

/-- **C31_read_all.** For every stored chunk list, every start index, every state of the shared cursor (any
position, or nothing selected) and every sequence of positive buffer sizes: the bytes delivered by successive
`Read` calls are a prefix of the concatenated chunks; they are *all* of them as soon as EOF is
returned; and EOF is returned within `bytes + chunks + 1` calls. (Repaired reader.) -/
theorem C31_read_all (t : Tree) (k i : Nat) (chunks : List Chunk) (bufs : List Nat)
    (hstored : Holds t.items k i chunks) (hpos : ∀ b ∈ bufs, 0 < b) :
    ((readAll true t (Reader.new k i) bufs).2 = true → (readAll true t (Reader.new k i) bufs).1 = chunks.flatten) ∧
    (readAll true t (Reader.new k i) bufs).1 <+: chunks.flatten ∧
    (chunks.flatten.length + chunks.length < bufs.length →
      readAll true t (Reader.new k i) bufs = (chunks.flatten, true)) := by
  have hp : Pending k t (Reader.new k i) chunks.flatten chunks.length :=
    ⟨rfl, chunks, rfl, Or.inl ⟨rfl, hstored, rfl⟩⟩
  obtain ⟨h1, ⟨rest, h2⟩, h3⟩ := readAll_spec k bufs t _ _ _ hp hpos
  refine ⟨h1, ⟨rest, h2.symm⟩, ?_⟩
  intro hl
  have he := h3 hl
  exact Prod.ext (h1 he) he

/-! ## remove -/

theorem lookup_erase (it : Items) (k k' : SKey) :
    lookup (erase it k) k' = if k' = k then none else lookup it k' := by
  induction it with
  | nil => simp [erase, lookup]
  | cons e rest ih =>
    by_cases he : e.1 = k
    · rw [show erase (e :: rest) k = erase rest k by simp [erase, he], ih]
      by_cases hk : k' = k
      · simp [hk]
      · have : ¬ e.1 = k' := by rw [he]; exact fun x => hk x.symm
        simp [hk, lookup, this]
    · rw [show erase (e :: rest) k = e :: erase rest k by simp [erase, he]]
      by_cases he' : e.1 = k'
      · have : ¬ k' = k := by rw [← he']; exact he
        simp [lookup, he', this]
      · simp only [lookup, he', ↓reduceIte]; exact ih

theorem remove_lookup (t : Tree) (k k' : SKey) :
    lookup (t.remove k).1.items k' = if k' = k then none else lookup t.items k' := by
  unfold Tree.remove Tree.find
  cases hl : lookup t.items k with
  | none =>
    simp only
    by_cases hk : k' = k
    · simp [hk, hl]
    · simp [hk]
  | some v =>
    simp only [↓reduceIte]
    unfold Tree.removeCurrent
    simp only [hl]
    exact lookup_erase _ _ _

theorem removeKeys_lookup (ks : List SKey) : ∀ (t : Tree) (k' : SKey),
    lookup (removeKeys t ks).1.items k' = if k' ∈ ks then none else lookup t.items k' := by
  induction ks with
  | nil => intro t k'; simp [removeKeys]
  | cons k ks ih =>
    intro t k'
    unfold removeKeys
    simp only
    rw [ih, remove_lookup]
    by_cases h1 : k' = k
    · simp [h1]
    · by_cases h2 : k' ∈ ks
      · simp [h2]
      · simp [h1, h2]

theorem next_items (t : Tree) : t.next.1.items = t.items := by
  unfold Tree.next
  cases t.cur with
  | none => rfl
  | some c => simp only; cases succ t.items c <;> rfl

theorem collect_items (key : Nat) : ∀ (fuel : Nat) (t : Tree) (acc : List SKey),
    (collect fuel t key acc).1.items = t.items := by
  intro fuel
  induction fuel with
  | zero => intro t acc; rfl
  | succ f ih =>
    intro t acc
    unfold collect
    simp only
    split
    · rw [ih]; exact next_items t
    · exact next_items t

theorem collect_keys (key : Nat) : ∀ (fuel : Nat) (t : Tree) (acc : List SKey),
    ∀ sk ∈ (collect fuel t key acc).2, sk ∈ acc ∨ sk.key = key := by
  intro fuel
  induction fuel with
  | zero => intro t acc sk h; exact Or.inl h
  | succ f ih =>
    intro t acc sk h
    unfold collect at h
    simp only at h
    split at h
    · rcases ih _ _ sk h with h | h
      · rcases List.mem_append.1 h with h | h
        · exact Or.inl h
        · simp only [List.mem_singleton] at h; exact Or.inr (by rw [h])
      · exact Or.inr h
    · rcases List.mem_append.1 h with h | h
      · exact Or.inl h
      · simp only [List.mem_singleton] at h; exact Or.inr (by rw [h])

theorem collect_acc (key : Nat) : ∀ (fuel : Nat) (t : Tree) (acc : List SKey),
    ∀ sk ∈ acc, sk ∈ (collect fuel t key acc).2 := by
  intro fuel
  induction fuel with
  | zero => intro t acc sk h; exact h
  | succ f ih =>
    intro t acc sk h
    unfold collect
    simp only
    split
    · exact ih _ _ sk (List.mem_append_left _ h)
    · exact List.mem_append_left _ h

/-- how many stored keys lie above `c` (what bounds the `Next` loop) -/
def above (it : Items) (c : SKey) : Nat := (it.filter (fun e => decide (c.lt e.1))).length

theorem filter_length_le {α : Type} (l : List α) (p q : α → Bool) (hpq : ∀ x, p x = true → q x = true) :
    (l.filter p).length ≤ (l.filter q).length := by
  induction l with
  | nil => simp
  | cons x xs ih =>
    simp only [List.filter_cons]
    cases hp : p x <;> cases hq : q x <;> simp <;> try omega
    have := hpq x hp; rw [hq] at this; cases this

theorem filter_length_lt {α : Type} (l : List α) (p q : α → Bool) (hpq : ∀ x, p x = true → q x = true)
    (hex : ∃ x ∈ l, q x = true ∧ p x = false) : (l.filter p).length < (l.filter q).length := by
  induction l with
  | nil => obtain ⟨x, hx, _⟩ := hex; cases hx
  | cons x xs ih =>
    obtain ⟨y, hy, hqy, hpy⟩ := hex
    have hle := filter_length_le xs p q hpq
    simp only [List.filter_cons]
    rcases List.mem_cons.1 hy with rfl | hy
    · simp [hqy, hpy]; omega
    · have := ih ⟨y, hy, hqy, hpy⟩
      cases hp : p x <;> cases hq : q x <;> simp <;> try omega
      have := hpq x hp; rw [hq] at this; cases this

theorem above_lt {it : Items} {c m : SKey} (hcm : c.lt m) (hm : ∃ e ∈ it, e.1 = m) : above it m < above it c := by
  unfold above
  apply filter_length_lt
  · intro x hx
    simp only [decide_eq_true_eq] at hx ⊢
    unfold SKey.lt at *; omega
  · obtain ⟨e, he, hk⟩ := hm
    refine ⟨e, he, ?_, ?_⟩
    · simp only [decide_eq_true_eq]; rw [hk]; exact hcm
    · simp only [decide_eq_false_iff_not]; rw [hk]; unfold SKey.lt; omega

/-- the `Next` loop of `RemoveCurrentItem` collects every stored chunk key of the entry from the
cursor onwards, provided the fuel exceeds the number of keys above the cursor -/
theorem collect_complete (key : Nat) : ∀ (fuel : Nat) (t : Tree) (ic : Nat) (acc : List SKey),
    t.cur = some ⟨key, ic⟩ → above t.items ⟨key, ic⟩ < fuel →
    ∀ i, ic ≤ i → (∃ v, lookup t.items ⟨key, i⟩ = some v) → (⟨key, i⟩ : SKey) ∈ (collect fuel t key acc).2 := by
  intro fuel
  induction fuel with
  | zero => intro t ic acc _ h; omega
  | succ f ih =>
    intro t ic acc hcur hfuel i hi hst
    obtain ⟨items, cur⟩ := t
    simp only at hcur hfuel hst
    subst hcur
    have hself : (⟨key, ic⟩ : SKey) ∈ acc ++ [⟨key, ic⟩] := List.mem_append_right _ List.mem_cons_self
    obtain ⟨v, hv⟩ := hst
    obtain ⟨e, he, hek⟩ := mem_of_lookup hv
    cases hs : succ items ⟨key, ic⟩ with
    | none =>
      simp only [collect, Tree.currentKey, Tree.next, hs, Option.getD_some, Bool.false_eq_true, false_and, ↓reduceIte]
      by_cases hii : i = ic
      · rw [hii]; exact hself
      · exfalso
        apply succ_none hs e he
        rw [hek]; exact Or.inr ⟨rfl, show ic < i by omega⟩
    | some m =>
      obtain ⟨h1, h2, h3⟩ := succ_some hs
      simp only [collect, Tree.currentKey, Tree.next, hs, Option.getD_some, true_and]
      by_cases hmk : m.key = key
      · simp only [hmk, ↓reduceIte]
        by_cases hii : i = ic
        · rw [hii]; exact collect_acc key f _ _ _ hself
        · have hm : m = ⟨key, m.idx⟩ := by rw [skey_eq_iff]; exact ⟨hmk, rfl⟩
          have hge : m.idx ≤ i := by
            have := h3 e he (by rw [hek]; exact Or.inr ⟨rfl, show ic < i by omega⟩)
            rw [hek] at this
            unfold SKey.lt at this h1; simp only at this h1; omega
          apply ih ⟨items, some m⟩ m.idx _ (by rw [← hm]) _ i hge ⟨v, hv⟩
          have := above_lt h1 h2
          simp only
          rw [← hm]; omega
      · simp only [hmk, ↓reduceIte]
        by_cases hii : i = ic
        · rw [hii]; exact hself
        · exfalso
          have := h3 e he (by rw [hek]; exact Or.inr ⟨rfl, show ic < i by omega⟩)
          rw [hek] at this
          unfold SKey.lt at this h1; simp only at this h1; omega

/-- **C31_remove_local.** `Remove(key)` changes no chunk of any other entry; when the entry exists
(its chunk 0 is stored) every chunk `(key, i)` of it is gone afterwards, whatever the indices; when
it does not exist nothing changes. -/
theorem C31_remove_local (t : Tree) (key : Nat) :
    (∀ sk : SKey, sk.key ≠ key → lookup (opRemove t key).1.items sk = lookup t.items sk) ∧
    ((∃ v, lookup t.items ⟨key, 0⟩ = some v) → ∀ i, lookup (opRemove t key).1.items ⟨key, i⟩ = none) ∧
    (lookup t.items ⟨key, 0⟩ = none → (opRemove t key).1.items = t.items ∧ (opRemove t key).2 = .removed false) := by
  unfold opRemove findOne Tree.find
  cases hl : lookup t.items ⟨key, 0⟩ with
  | none => simp
  | some v =>
    simp only [↓reduceIte, reduceCtorEq, false_implies, and_true]
    unfold removeCurrentEntry
    simp only [Tree.currentKey, Option.getD_some]
    constructor
    · intro sk hsk
      rw [removeKeys_lookup, collect_items]
      have : sk ∉ (collect (fuelOf { items := t.items, cur := some ⟨key, 0⟩ }) { items := t.items, cur := some ⟨key, 0⟩ } key []).2 := by
        intro hmem
        rcases collect_keys key _ _ _ sk hmem with h | h
        · cases h
        · exact hsk h
      simp [this]
    · intro _ i
      rw [removeKeys_lookup, collect_items]
      cases hi : lookup t.items ⟨key, i⟩ with
      | none => simp
      | some w =>
        have hmem := collect_complete key (fuelOf { items := t.items, cur := some ⟨key, 0⟩ })
          { items := t.items, cur := some ⟨key, 0⟩ } 0 [] rfl
          (by unfold fuelOf above; simp only; exact Nat.lt_succ_of_le (List.length_filter_le _ _))
          i (Nat.zero_le _) ⟨w, hi⟩
        simp [hmem]

/-! ## add, then read: the round trip -/

theorem lookup_insert {it : Items} {k : SKey} (v : Chunk) (k' : SKey) (h : lookup it k = none) :
    lookup (Stream.insert it k v) k' = if k' = k then some v else lookup it k' := by
  induction it with
  | nil =>
    by_cases hk : k' = k
    · simp [Stream.insert, lookup, hk]
    · have : ¬ k = k' := fun x => hk x.symm
      simp [Stream.insert, lookup, hk, this]
  | cons e rest ih =>
    have he : ¬ e.1 = k := by
      intro he; simp [lookup, he] at h
    have hrest : lookup rest k = none := by simpa [lookup, he] using h
    unfold Stream.insert
    by_cases hlt : k.lt e.1
    · simp only [hlt, ↓reduceIte]
      by_cases hk : k' = k
      · simp [lookup, hk]
      · have : ¬ k = k' := fun x => hk x.symm
        simp [lookup, hk, this]
    · simp only [hlt, ↓reduceIte]
      unfold lookup
      by_cases he' : e.1 = k'
      · have : ¬ k' = k := by rw [← he']; exact he
        simp [he', this]
      · simp only [he', ↓reduceIte]; exact ih hrest

/-- `Add(k)` followed by one `Encode` per value stores the values as chunks `i, i+1, …` of `k`,
touches nothing else and does not move the cursor -/
theorem writeAll_add (k : Nat) : ∀ (vals : List Chunk) (t : Tree) (i : Nat),
    (∀ j, lookup t.items ⟨k, i + j⟩ = none) →
    (writeAll t ⟨k, i, true⟩ vals).2.2 = true ∧
    Holds (writeAll t ⟨k, i, true⟩ vals).1.items k i vals ∧
    (writeAll t ⟨k, i, true⟩ vals).1.cur = t.cur ∧
    (∀ sk : SKey, (sk.key ≠ k ∨ sk.idx < i) → lookup (writeAll t ⟨k, i, true⟩ vals).1.items sk = lookup t.items sk) ∧
    (writeAll t ⟨k, i, true⟩ vals).2.1.addMode = true := by
  intro vals
  induction vals with
  | nil =>
    intro t i h
    refine ⟨rfl, ?_, rfl, fun _ _ => rfl, rfl⟩
    have := h 0
    simpa [Holds, writeAll] using this
  | cons p ps ih =>
    intro t i h
    have h0 : lookup t.items ⟨k, i⟩ = none := by simpa using h 0
    have hw : Writer.write t ⟨k, i, true⟩ p = ({ t with items := Stream.insert t.items ⟨k, i⟩ p }, ⟨k, i + 1, true⟩, true) := by
      simp [Writer.write, Tree.add, h0]
    unfold writeAll
    rw [hw]
    simp only
    have hnext : ∀ j, lookup (Stream.insert t.items ⟨k, i⟩ p) ⟨k, i + 1 + j⟩ = none := by
      intro j
      rw [lookup_insert p _ h0]
      have : ¬ (⟨k, i + 1 + j⟩ : SKey) = ⟨k, i⟩ := by rw [skey_eq_iff]; simp only; omega
      simp only [this, ↓reduceIte]
      have := h (1 + j)
      rwa [← Nat.add_assoc] at this
    obtain ⟨h1, h2, h3, h4, h5⟩ := ih { t with items := Stream.insert t.items ⟨k, i⟩ p } (i + 1) hnext
    refine ⟨h1, ⟨?_, h2⟩, h3, ?_, h5⟩
    · rw [h4 ⟨k, i⟩ (Or.inr (by simp))]
      simp only
      rw [lookup_insert p _ h0]; simp
    · intro sk hsk
      rw [h4 sk (by rcases hsk with h | h; exact Or.inl h; exact Or.inr (by omega))]
      simp only
      rw [lookup_insert p _ h0]
      have : ¬ sk = ⟨k, i⟩ := by
        rw [skey_eq_iff]; simp only
        rcases hsk with h | h
        · exact fun x => h x.1
        · exact fun x => by omega
      simp [this]

/-- **C31 round trip.** On a store holding no chunk of `k`: `Add(k)`, encode the values, `Close`;
then `FindOne(k)`, `GetCurrentValue()` and reading with any positive buffer sizes until EOF yields
exactly the concatenation of the encoded values (≥ 1 value), for values of any sizes. -/
theorem C31_add_then_read_all (t : Tree) (k : Nat) (v : Chunk) (vs : List Chunk) (bufs : List Nat)
    (habsent : ∀ j, lookup t.items ⟨k, j⟩ = none) (hpos : ∀ b ∈ bufs, 0 < b) :
    (opAdd t k (v :: vs)).2 = .ok ∧
    ∃ r, (opOpen (opAdd t k (v :: vs)).1 k).2 = some r ∧
      ((readAll true (opOpen (opAdd t k (v :: vs)).1 k).1 r bufs).2 = true →
        (readAll true (opOpen (opAdd t k (v :: vs)).1 k).1 r bufs).1 = (v :: vs).flatten) ∧
      (((v :: vs).flatten.length + (v :: vs).length < bufs.length) →
        readAll true (opOpen (opAdd t k (v :: vs)).1 k).1 r bufs = ((v :: vs).flatten, true)) := by
  obtain ⟨h1, h2, _, _, h5⟩ := writeAll_add k (v :: vs) t 0 (by simpa using habsent)
  have hadd : (opAdd t k (v :: vs)).1 = (writeAll t ⟨k, 0, true⟩ (v :: vs)).1 := by
    simp [opAdd, close, h5]
  have hout : (opAdd t k (v :: vs)).2 = .ok := by
    simp [opAdd, close, h1, h5]
  refine ⟨hout, ?_⟩
  rw [hadd]
  have hl : lookup (writeAll t ⟨k, 0, true⟩ (v :: vs)).1.items ⟨k, 0⟩ = some v := h2.1
  have hopen : opOpen (writeAll t ⟨k, 0, true⟩ (v :: vs)).1 k =
      ({ (writeAll t ⟨k, 0, true⟩ (v :: vs)).1 with cur := some ⟨k, 0⟩ }, some (Reader.new k 0)) := by
    simp [opOpen, findOne, Tree.find, hl, Tree.currentKey]
  rw [hopen]
  refine ⟨Reader.new k 0, rfl, ?_⟩
  obtain ⟨a, _, c⟩ := C31_read_all { (writeAll t ⟨k, 0, true⟩ (v :: vs)).1 with cur := some ⟨k, 0⟩ } k 0 (v :: vs) bufs h2 hpos
  exact ⟨a, c⟩

/-! ## update -/

/-- entry `k` consists of exactly the chunks `cs` -/
def Entry (it : Items) (k : Nat) (cs : List Chunk) : Prop := ∀ i, lookup it ⟨k, i⟩ = cs[i]?

/-- `C31_update_replaces` as stated in DESIGN.md; proved below (`C31_update_replaces`). -/
def Statement_C31_update_replaces : Prop :=
  ∀ (t : Tree) (k : Nat) (old vals : List Chunk), old ≠ [] → Entry t.items k old →
    (opUpdate t k vals).2 = .ok ∧ Entry (opUpdate t k vals).1.items k vals ∧
    ∀ sk : SKey, sk.key ≠ k → lookup (opUpdate t k vals).1.items sk = lookup t.items sk

/-- one instance of it, computed: a 3-chunk entry updated with 1 value keeps exactly that value and the
neighbouring entries -/
theorem C31_update_sample :
    let t : Tree := ⟨[(⟨1, 0⟩, [9]), (⟨2, 0⟩, [1]), (⟨2, 1⟩, [2]), (⟨2, 2⟩, [3]), (⟨3, 0⟩, [8])], none⟩
    (opUpdate t 2 [[7, 7]]).1.items = [(⟨1, 0⟩, [9]), (⟨2, 0⟩, [7, 7]), (⟨3, 0⟩, [8])] ∧ (opUpdate t 2 [[7, 7]]).2 = .ok := by
  decide

theorem lookup_setVal_ne (it : Items) {k k' : SKey} (v : Chunk) (h : k' ≠ k) :
    lookup (setVal it k v) k' = lookup it k' := by
  induction it with
  | nil => rfl
  | cons e rest ih =>
    unfold setVal
    by_cases he : e.1 = k
    · have h1 : ¬ k = k' := fun x => h x.symm
      have h2 : ¬ e.1 = k' := by rw [he]; exact h1
      simp only [he, ↓reduceIte]
      unfold lookup
      simp only [h1, h2, ↓reduceIte]
      exact ih
    · simp only [he, ↓reduceIte]
      unfold lookup
      by_cases he' : e.1 = k'
      · simp [he']
      · simp only [he', ↓reduceIte]; exact ih

theorem lookup_setVal_self (it : Items) {k : SKey} {v0 : Chunk} (v : Chunk) (h : lookup it k = some v0) :
    lookup (setVal it k v) k = some v := by
  induction it with
  | nil => simp [lookup] at h
  | cons e rest ih =>
    unfold setVal
    by_cases he : e.1 = k
    · simp [he, lookup]
    · simp only [he, ↓reduceIte]
      unfold lookup at h ⊢
      simp only [he, ↓reduceIte] at h ⊢
      exact ih h

/-- one `Write` of an update-mode writer: chunk `(k,i)` becomes `p` (overwritten if stored, added
otherwise), nothing else changes, no error -/
theorem write_update (k : Nat) (t : Tree) (i : Nat) (p : Chunk)
    (hc : t.cur.isSome ∨ k ≠ 0 ∨ 2 ≤ i) (h0 : i = 0 → ∃ v, lookup t.items ⟨k, 0⟩ = some v) :
    (Writer.write t ⟨k, i, false⟩ p).2.2 = true ∧
    (Writer.write t ⟨k, i, false⟩ p).2.1 = ⟨k, i + 1, false⟩ ∧
    (∀ sk : SKey, lookup (Writer.write t ⟨k, i, false⟩ p).1.items sk = if sk = ⟨k, i⟩ then some p else lookup t.items sk) ∧
    ((Writer.write t ⟨k, i, false⟩ p).1.cur.isSome ∨ k ≠ 0 ∨ 2 ≤ i + 1) := by
  have hc' : t.cur.isSome ∨ (⟨k, i⟩ : SKey) ≠ ⟨0, 1⟩ := by
    rcases hc with h | h | h
    · exact Or.inl h
    · exact Or.inr (by rw [Ne, skey_eq_iff]; simp only; exact fun x => h x.1)
    · exact Or.inr (by rw [Ne, skey_eq_iff]; simp only; omega)
  obtain ⟨hi, hfound, hnone⟩ := locate_spec t ⟨k, i⟩ hc'
  unfold Writer.write
  simp only [Bool.false_eq_true, ↓reduceIte]
  rcases hloc : locate t ⟨k, i⟩ with ⟨t1, f⟩
  rw [hloc] at hi hfound hnone
  simp only at hi hfound hnone ⊢
  cases hl : lookup t.items ⟨k, i⟩ with
  | some v =>
    obtain ⟨hf, hcur⟩ := hfound v hl
    subst hf
    have hl1 : lookup t1.items ⟨k, i⟩ = some v := by rw [hi]; exact hl
    simp only [↓reduceIte, Tree.updateCurrent, hcur, hl1]
    refine ⟨trivial, trivial, ?_, Or.inl rfl⟩
    intro sk
    by_cases hsk : sk = ⟨k, i⟩
    · subst hsk; simp only [↓reduceIte]; exact lookup_setVal_self _ p hl1
    · simp only [hsk, ↓reduceIte]; rw [lookup_setVal_ne _ p hsk, hi]
  | none =>
    have hf := hnone hl
    subst hf
    have hl1 : lookup t1.items ⟨k, i⟩ = none := by rw [hi]; exact hl
    simp only [Bool.false_eq_true, ↓reduceIte, Tree.add, hl1]
    refine ⟨trivial, trivial, ?_, ?_⟩
    · intro sk
      rw [lookup_insert p sk hl1, hi]
    · have : i ≠ 0 := by
        intro h
        obtain ⟨v, hv⟩ := h0 h
        rw [h] at hl; rw [hl] at hv; cases hv
      exact Or.inr (Or.inr (by omega))

theorem writeAll_update (k : Nat) : ∀ (vals : List Chunk) (t : Tree) (i : Nat),
    (t.cur.isSome ∨ k ≠ 0 ∨ 2 ≤ i) → (i = 0 → ∃ v, lookup t.items ⟨k, 0⟩ = some v) →
    (writeAll t ⟨k, i, false⟩ vals).2.2 = true ∧
    (writeAll t ⟨k, i, false⟩ vals).2.1 = ⟨k, i + vals.length, false⟩ ∧
    (∀ sk : SKey, lookup (writeAll t ⟨k, i, false⟩ vals).1.items sk =
      if sk.key = k ∧ i ≤ sk.idx ∧ sk.idx < i + vals.length then vals[sk.idx - i]? else lookup t.items sk) := by
  intro vals
  induction vals with
  | nil => intro t i _ _; simp [writeAll]; intro sk _ h1 h2; omega
  | cons p ps ih =>
    intro t i hc h0
    obtain ⟨w1, w2, w3, w4⟩ := write_update k t i p hc h0
    unfold writeAll
    rcases hw : Writer.write t ⟨k, i, false⟩ p with ⟨t1, w', ok⟩
    rw [hw] at w1 w2 w3 w4
    simp only at w1 w2 w3 w4
    subst w1; subst w2
    simp only
    obtain ⟨a, b, c⟩ := ih t1 (i + 1) w4 (fun h => by omega)
    refine ⟨a, by rw [b]; simp only [List.length_cons]; congr 1; omega, ?_⟩
    intro sk
    rw [c sk, w3 sk]
    by_cases hk : sk.key = k
    · by_cases h1 : sk.idx = i
      · have hsk : sk = ⟨k, i⟩ := by rw [skey_eq_iff]; exact ⟨hk, h1⟩
        rw [hsk]
        simp
        intro h; omega
      · have hsk : ¬ sk = ⟨k, i⟩ := by rw [skey_eq_iff]; simp only; exact fun x => h1 x.2
        by_cases h2 : i + 1 ≤ sk.idx ∧ sk.idx < i + 1 + ps.length
        · have h3 : i ≤ sk.idx ∧ sk.idx < i + (p :: ps).length := by simp only [List.length_cons]; omega
          simp only [hk, h2, h3, and_self, ↓reduceIte, true_and]
          have : sk.idx - i = (sk.idx - (i + 1)) + 1 := by omega
          rw [this, List.getElem?_cons_succ]
        · have h3 : ¬ (i ≤ sk.idx ∧ sk.idx < i + (p :: ps).length) := by simp only [List.length_cons]; omega
          simp only [hk, true_and, h2, h3, ↓reduceIte, hsk]
    · have hsk : ¬ sk = ⟨k, i⟩ := by rw [skey_eq_iff]; simp only; exact fun x => hk x.1
      simp [hk, hsk]

/-- how many chunks of entry `k` with index `j` or above are stored (what bounds the loop of `Close`) -/
def tailCount (it : Items) (k j : Nat) : Nat := (it.filter fun e => decide (e.1.key = k ∧ j ≤ e.1.idx)).length

theorem erase_filter_le (it : Items) (sk : SKey) (p : SKey × Chunk → Bool) :
    ((erase it sk).filter p).length ≤ (it.filter p).length := by
  induction it with
  | nil => simp [erase]
  | cons e rest ih =>
    unfold erase
    by_cases he : e.1 = sk
    · simp only [he, ↓reduceIte, List.filter_cons]
      split
      · simp only [List.length_cons]; omega
      · exact ih
    · simp only [he, ↓reduceIte, List.filter_cons]
      by_cases hp : p e = true
      · simp only [hp, ↓reduceIte, List.length_cons]; omega
      · simp only [hp, ↓reduceIte]; exact ih

/-- the loop of `Encoder.Close` in update mode: from index `j` on it removes every chunk of the entry
(stored contiguously up to index `n`), leaves everything else, and the fuel suffices -/
theorem closeLoop_spec (k n : Nat) : ∀ (fuel : Nat) (t : Tree) (j : Nat),
    (∀ idx, j ≤ idx → ((∃ v, lookup t.items ⟨k, idx⟩ = some v) ↔ idx < n)) → tailCount t.items k j < fuel →
    (closeLoop fuel t ⟨k, j, false⟩).2.2 = true ∧
    ∀ sk : SKey, lookup (closeLoop fuel t ⟨k, j, false⟩).1.items sk =
      if sk.key = k ∧ j ≤ sk.idx then none else lookup t.items sk := by
  intro fuel
  induction fuel with
  | zero => intro t j _ h; omega
  | succ f ih =>
    intro t j hcont hfuel
    unfold closeLoop
    simp only
    unfold Tree.find
    cases hl : lookup t.items ⟨k, j⟩ with
    | none =>
      simp only [Bool.false_eq_true, ↓reduceIte, true_and]
      intro sk
      by_cases hc : sk.key = k ∧ j ≤ sk.idx
      · simp only [hc, and_self, ↓reduceIte]
        have hsk : sk = ⟨k, sk.idx⟩ := by rw [skey_eq_iff]; exact ⟨hc.1, rfl⟩
        have hnj : ¬ j < n := by
          intro h
          obtain ⟨v, hv⟩ := (hcont j (Nat.le_refl _)).2 h
          rw [hl] at hv; cases hv
        cases hs : lookup t.items sk with
        | none => rfl
        | some v =>
          have := (hcont sk.idx hc.2).1 ⟨v, by rw [← hsk]; exact hs⟩
          omega
      · simp only [hc, ↓reduceIte]
    | some v =>
      simp only [↓reduceIte, Tree.removeCurrent, hl]
      obtain ⟨e, he, hek⟩ := mem_of_lookup hl
      have hcont' : ∀ idx, j + 1 ≤ idx →
          ((∃ v, lookup (erase t.items ⟨k, j⟩) ⟨k, idx⟩ = some v) ↔ idx < n) := by
        intro idx hidx
        rw [lookup_erase]
        have : ¬ (⟨k, idx⟩ : SKey) = ⟨k, j⟩ := by rw [skey_eq_iff]; simp only; omega
        simp only [this, ↓reduceIte]
        exact hcont idx (by omega)
      have hfuel' : tailCount (erase t.items ⟨k, j⟩) k (j + 1) < f := by
        have h1 := erase_filter_le t.items ⟨k, j⟩ (fun e => decide (e.1.key = k ∧ j + 1 ≤ e.1.idx))
        have h2 : tailCount t.items k (j + 1) < tailCount t.items k j := by
          unfold tailCount
          apply filter_length_lt
          · intro x hx
            simp only [decide_eq_true_eq] at hx ⊢
            omega
          · refine ⟨e, he, ?_, ?_⟩
            · simp only [decide_eq_true_eq]; rw [hek]; simp
            · simp only [decide_eq_false_iff_not]; rw [hek]; simp
        unfold tailCount at h2 hfuel ⊢
        omega
      obtain ⟨a, b⟩ := ih ⟨erase t.items ⟨k, j⟩, none⟩ (j + 1) hcont' hfuel'
      refine ⟨a, ?_⟩
      intro sk
      rw [b sk]
      simp only
      rw [lookup_erase]
      by_cases hk : sk.key = k
      · by_cases hj : sk.idx = j
        · have hsk : sk = ⟨k, j⟩ := by rw [skey_eq_iff]; exact ⟨hk, hj⟩
          rw [hsk]; simp
        · have hsk : ¬ sk = ⟨k, j⟩ := by rw [skey_eq_iff]; simp only; exact fun x => hj x.2
          by_cases h1 : j + 1 ≤ sk.idx
          · have h2 : j ≤ sk.idx := by omega
            simp [hk, h1, h2]
          · have h2 : ¬ j ≤ sk.idx := by omega
            simp [hk, h1, h2, hsk]
      · have hsk : ¬ sk = ⟨k, j⟩ := by rw [skey_eq_iff]; simp only; exact fun x => hk x.1
        simp [hk, hsk]

/-- **C31_update_replaces.** `Update(k)` of an existing entry (old content: any non-empty chunk list),
one `Encode` per new value (any number of values: fewer, as many, or more than before, none included),
`Close` — from ANY cursor state: no error; afterwards entry `k` consists of exactly the new values'
chunks, in order (no chunk of the older, longer content is left over, none of the new ones is missing);
and every chunk of every other entry is as it was. -/
theorem C31_update_replaces : Statement_C31_update_replaces := by
  intro t k old vals hold he
  have h0 : ∃ v, lookup t.items ⟨k, 0⟩ = some v := by
    cases old with
    | nil => exact absurd rfl hold
    | cons c cs => exact ⟨c, by rw [he 0]; rfl⟩
  obtain ⟨v0, hv0⟩ := h0
  obtain ⟨a, b, c⟩ := writeAll_update k vals { t with cur := some ⟨k, 0⟩ } 0 (Or.inl rfl) (fun _ => ⟨v0, hv0⟩)
  unfold opUpdate findOne Tree.find
  simp only [hv0, ↓reduceIte, Tree.currentKey, Option.getD_some]
  rcases hw : writeAll { t with cur := some ⟨k, 0⟩ } ⟨k, 0, false⟩ vals with ⟨t1, w1, ok⟩
  rw [hw] at a b c
  simp only at a b c
  subst a; subst b
  simp only [↓reduceIte, close, Bool.false_eq_true, Nat.zero_add]
  have hcont : ∀ idx, vals.length ≤ idx → ((∃ v, lookup t1.items ⟨k, idx⟩ = some v) ↔ idx < old.length) := by
    intro idx hidx
    rw [c]
    have hlt : ¬ idx < 0 + vals.length := by omega
    simp only [hlt, and_false, ↓reduceIte]
    rw [he idx]
    constructor
    · rintro ⟨v, hv⟩
      rcases List.getElem?_eq_some_iff.1 hv with ⟨h, _⟩; exact h
    · intro h; exact ⟨old[idx], List.getElem?_eq_getElem h⟩
  have hfuel : tailCount t1.items k vals.length < fuelOf t1 := by
    unfold tailCount fuelOf
    exact Nat.lt_succ_of_le (List.length_filter_le _ _)
  obtain ⟨d, e⟩ := closeLoop_spec k old.length (fuelOf t1) t1 vals.length hcont hfuel
  rcases hcl : closeLoop (fuelOf t1) t1 ⟨k, vals.length, false⟩ with ⟨t2, w2, ok2⟩
  rw [hcl] at d e
  simp only at d e
  subst d
  simp only [↓reduceIte, true_and]
  constructor
  · intro i
    rw [e]
    simp only [true_and]
    by_cases hi : vals.length ≤ i
    · simp only [hi, ↓reduceIte]
      exact (List.getElem?_eq_none hi).symm
    · simp only [hi, ↓reduceIte]
      rw [c]
      have : k = k ∧ 0 ≤ i ∧ i < 0 + vals.length := by omega
      simp only [this, and_self, ↓reduceIte, Nat.sub_zero]
  · intro sk hsk
    rw [e]
    have h1 : ¬ (sk.key = k ∧ vals.length ≤ sk.idx) := fun x => hsk x.1
    simp only [h1, ↓reduceIte]
    rw [c]
    have h2 : ¬ (sk.key = k ∧ 0 ≤ sk.idx ∧ sk.idx < 0 + vals.length) := fun x => hsk x.1
    simp only [h2, ↓reduceIte]

/-- the hypotheses are met by a concrete SHRINKING update (3 chunks replaced by 1), with a neighbour on
each side and the cursor deselected -/
example :
    let t : Tree := ⟨[(⟨1, 0⟩, [9]), (⟨2, 0⟩, [1]), (⟨2, 1⟩, [2]), (⟨2, 2⟩, [3]), (⟨3, 0⟩, [8])], none⟩
    [[1], [2], [3]] ≠ ([] : List Chunk) ∧ Entry t.items 2 [[1], [2], [3]] := by
  refine ⟨by simp, ?_⟩
  intro i
  match i with
  | 0 | 1 | 2 => rfl
  | i + 3 => simp [lookup]

/-- Outside the statement: `Close` is part of the update (it is what removes the old tail). An update-mode
encoder that is written to but NOT closed leaves the chunks of the older, longer content behind (the
harness's case `mem upd-unclosed-corpus` shows the real code doing exactly this, and `Close` called
afterwards repairing it). -/
theorem C31_update_needs_close :
    let t : Tree := ⟨[(⟨2, 0⟩, [1]), (⟨2, 1⟩, [2]), (⟨2, 2⟩, [3])], none⟩
    (writeAll (findOne t 2).1 ⟨2, 0, false⟩ [[7]]).1.items = [(⟨2, 0⟩, [7]), (⟨2, 1⟩, [2]), (⟨2, 2⟩, [3])] ∧
    (opUpdate t 2 [[7]]).1.items = [(⟨2, 0⟩, [7])] := by
  decide

/-- The pinned tree's reader violates the statement: three 3-byte chunks read through a 2-byte
buffer come back with every chunk's tail followed by the whole chunk again. -/
theorem C31_unrepaired_counterexample :
    let t : Tree := ⟨[(⟨1, 0⟩, [1, 2, 3]), (⟨1, 1⟩, [4, 5, 6])], some ⟨1, 0⟩⟩
    (readAll false t (Reader.new 1 0) [2, 2, 2, 2, 2, 2, 2, 2, 2, 2]).1 ≠ [1, 2, 3, 4, 5, 6] := by
  decide


/-! ## several readers (and anything else) interleaved on the store's one cursor -/

theorem find_items (t : Tree) (k : SKey) : (t.find k).1.items = t.items := by
  unfold Tree.find; cases lookup t.items k <;> rfl

theorem locateR_items (t : Tree) (sdk : SKey) : (locateR t sdk).1.items = t.items := (locateR_spec t sdk).1

/-- `Read` never changes what is stored -/
theorem read_items (t : Tree) (r : Reader) (n : Nat) : (Reader.read true t r n).1.items = t.items := by
  unfold Reader.read Reader.readWith
  cases r.readChunk with
  | some rc => simp only; split <;> rfl
  | none =>
    simp only
    have hl := locateR_items t ⟨r.key, r.chunkIndex⟩
    rcases hloc : locateR t ⟨r.key, r.chunkIndex⟩ with ⟨t', f⟩
    rw [hloc] at hl
    simp only
    split
    · split <;> exact hl
    · exact hl

theorem holds_congr {it it' : Items} {k : Nat} (h : ∀ i, lookup it' ⟨k, i⟩ = lookup it ⟨k, i⟩) :
    ∀ (cs : List Chunk) (i : Nat), Holds it k i cs → Holds it' k i cs := by
  intro cs
  induction cs with
  | nil => intro i hh; unfold Holds at hh ⊢; rw [h]; exact hh
  | cons c cs ih => intro i hh; unfold Holds at hh ⊢; rw [h]; exact ⟨hh.1, ih _ hh.2⟩

/-- a reader's invariant depends on the store only through the chunks of its own entry: whatever else
changes (other entries, the cursor — moved anywhere or deselected), it still holds -/
theorem pending_congr {k : Nat} {t t' : Tree} {r : Reader} {pend : List Nat} {mc : Nat}
    (h : ∀ i, lookup t'.items ⟨k, i⟩ = lookup t.items ⟨k, i⟩) (hp : Pending k t r pend mc) : Pending k t' r pend mc := by
  obtain ⟨h1, cs, hmc, hcase⟩ := hp
  refine ⟨h1, cs, hmc, ?_⟩
  rcases hcase with ⟨a, b, c⟩ | ⟨rc, a, b, c, d⟩
  · exact Or.inl ⟨a, holds_congr h _ _ b, c⟩
  · exact Or.inr ⟨rc, a, b, holds_congr h _ _ c, d⟩

/-- **The fast path is only an optimisation.** What `Read` returns, the reader's next state and what is
stored afterwards do not depend on where the shared cursor rests: for two stores with the same content
and ANY two cursor states (any position, or nothing selected; any entry key, the zero key included)
the results agree. -/
theorem read_cursor_irrelevant (t1 t2 : Tree) (r : Reader) (n : Nat) (hi : t1.items = t2.items) :
    (Reader.read true t1 r n).2 = (Reader.read true t2 r n).2 ∧
    (Reader.read true t1 r n).1.items = (Reader.read true t2 r n).1.items := by
  refine ⟨?_, by rw [read_items, read_items, hi]⟩
  unfold Reader.read Reader.readWith
  cases r.readChunk with
  | some rc => simp only; split <;> rfl
  | none =>
    simp only
    obtain ⟨a1, b1, c1⟩ := locateR_spec t1 ⟨r.key, r.chunkIndex⟩
    obtain ⟨a2, b2, c2⟩ := locateR_spec t2 ⟨r.key, r.chunkIndex⟩
    rcases hl1 : locateR t1 ⟨r.key, r.chunkIndex⟩ with ⟨u1, f1⟩
    rcases hl2 : locateR t2 ⟨r.key, r.chunkIndex⟩ with ⟨u2, f2⟩
    rw [hl1] at a1 b1 c1
    rw [hl2] at a2 b2 c2
    simp only at a1 b1 c1 a2 b2 c2
    cases hlk : lookup t1.items ⟨r.key, r.chunkIndex⟩ with
    | none =>
      have e1 := c1 hlk
      have e2 := c2 (by rw [← hi]; exact hlk)
      subst e1; subst e2
      simp
    | some v =>
      obtain ⟨e1, g1⟩ := b1 v hlk
      obtain ⟨e2, g2⟩ := b2 v (by rw [← hi]; exact hlk)
      subst e1; subst e2
      have v1 : u1.currentValue = v := by unfold Tree.currentValue; rw [g1]; simp only; rw [a1, hlk]; rfl
      have v2 : u2.currentValue = v := by unfold Tree.currentValue; rw [g2]; simp only; rw [a2, ← hi, hlk]; rfl
      simp only [↓reduceIte, v1, v2]
      split <;> rfl

/-- what the reader in slot `j` of a session is reading: the entry, the chunk it starts from, and the
chunks stored from there on -/
structure Spec where
  key : Nat
  start : Nat
  chunks : List Chunk

/-- an `env` step leaves the chunks of the entries that are being read as they are (it may do anything
to other entries and to the cursor) -/
def Preserves (keys : List Nat) (t t' : Tree) : Prop :=
  ∀ k ∈ keys, ∀ i, lookup t'.items ⟨k, i⟩ = lookup t.items ⟨k, i⟩

def EvOk (keys : List Nat) (s : Sess) : Ev → Prop
  | .rd _ n => 0 < n
  | .env t' => Preserves keys s.tree t'

/-- the events are admissible: buffers are non-empty, `env` steps do not rewrite the entries being read -/
def ValidEvs (keys : List Nat) : Sess → List Ev → Prop
  | _, [] => True
  | s, e :: es => EvOk keys s e ∧ ValidEvs keys (s.evWith locateR e) es

def initSess (t : Tree) (specs : List Spec) (ws : List Writer) : Sess :=
  ⟨t, specs.map fun sp => ⟨Reader.new sp.key sp.start, [], false⟩, ws⟩

def SlotInv (t : Tree) (sp : Spec) (sl : Slot) : Prop :=
  ∃ pend mc, Pending sp.key t sl.r pend mc ∧ sl.got ++ pend = sp.chunks.flatten ∧ (sl.eof = true → pend = [])

def SessInv (specs : List Spec) (s : Sess) : Prop :=
  s.readers.length = specs.length ∧
  ∀ (j : Nat) (sp : Spec) (sl : Slot), specs[j]? = some sp → s.readers[j]? = some sl → SlotInv s.tree sp sl

theorem slotInv_congr {t t' : Tree} {sp : Spec} {sl : Slot}
    (h : ∀ i, lookup t'.items ⟨sp.key, i⟩ = lookup t.items ⟨sp.key, i⟩) (hs : SlotInv t sp sl) : SlotInv t' sp sl := by
  obtain ⟨pend, mc, hp, a, b⟩ := hs
  exact ⟨pend, mc, pending_congr h hp, a, b⟩

theorem ev_inv (specs : List Spec) (s : Sess) (e : Ev) (hinv : SessInv specs s)
    (hv : EvOk (specs.map (·.key)) s e) : SessInv specs (s.evWith locateR e) := by
  obtain ⟨hlen, hall⟩ := hinv
  cases e with
  | env t' =>
    refine ⟨hlen, ?_⟩
    intro j sp sl hsp hsl
    have hmem : sp ∈ specs := List.mem_of_getElem? hsp
    exact slotInv_congr (hv sp.key (List.mem_map.2 ⟨sp, hmem, rfl⟩)) (hall j sp sl hsp hsl)
  | rd j n =>
    have hn : 0 < n := hv
    unfold Sess.evWith Sess.rdWith
    simp only
    cases hj : s.readers[j]? with
    | none => exact ⟨hlen, hall⟩
    | some sl =>
      simp only
      have hjlt : j < s.readers.length := by
        rcases List.getElem?_eq_some_iff.1 hj with ⟨h, _⟩; exact h
      have hspj : ∃ sp, specs[j]? = some sp := by
        have : j < specs.length := by omega
        exact ⟨specs[j], List.getElem?_eq_getElem this⟩
      obtain ⟨sp, hsp⟩ := hspj
      obtain ⟨pend, mc, hp, hgot, heof⟩ := hall j sp sl hsp hj
      have hstep := read_step sp.key s.tree sl.r pend mc n hp hn
      have hitems := read_items s.tree sl.r n
      have hrw : Reader.readWith locateR true s.tree sl.r n = Reader.read true s.tree sl.r n := rfl
      rw [hrw]
      rcases hread : Reader.read true s.tree sl.r n with ⟨t', r', res⟩
      rw [hread] at hstep hitems
      simp only at hitems
      -- the other slots keep their invariant: only the cursor moved
      have hothers : ∀ (x : Slot) (j' : Nat) (sp' : Spec) (sl' : Slot), specs[j']? = some sp' → (s.readers.set j x)[j']? = some sl' → j ≠ j' →
          SlotInv t' sp' sl' := by
        intro x j' sp' sl' hsp' hsl' hne
        rw [List.getElem?_set_ne hne] at hsl'
        exact slotInv_congr (fun i => by rw [hitems]) (hall j' sp' sl' hsp' hsl')
      cases res with
      | eof =>
        simp only at hstep ⊢
        refine ⟨by simp only [List.length_set]; exact hlen, ?_⟩
        intro j' sp' sl' hsp' hsl'
        by_cases hjj : j = j'
        · subst hjj
          rw [List.getElem?_set_self hjlt] at hsl'
          rw [hsp] at hsp'
          cases hsp'; cases hsl'
          -- `read` returned EOF: the reader itself is unchanged, nothing was pending
          have hr' : r' = sl.r := by
            have := hread
            unfold Reader.read Reader.readWith at this
            rcases hp with ⟨_, cs, _, hc⟩
            cases hrc : sl.r.readChunk with
            | some rc => rw [hrc] at this; simp only at this; split at this <;> cases this
            | none =>
              rw [hrc] at this; simp only at this
              split at this
              · split at this <;> cases this
              · cases this; rfl
          subst hr'
          refine ⟨pend, mc, ?_, hgot, fun _ => hstep⟩
          exact pending_congr (fun i => by rw [hitems]) hp
        · exact hothers _ j' sp' sl' hsp' hsl' hjj
      | data out =>
        simp only at hstep ⊢
        obtain ⟨pend', mc', hsplit, hp', _⟩ := hstep
        refine ⟨by simp only [List.length_set]; exact hlen, ?_⟩
        intro j' sp' sl' hsp' hsl'
        by_cases hjj : j = j'
        · subst hjj
          rw [List.getElem?_set_self hjlt] at hsl'
          rw [hsp] at hsp'
          cases hsp'; cases hsl'
          refine ⟨pend', mc', hp', ?_, ?_⟩
          · simp only; rw [List.append_assoc, ← hsplit]; exact hgot
          · intro he
            have := heof he
            rw [this] at hsplit
            have : out ++ pend' = [] := hsplit.symm
            simp only [List.append_eq_nil_iff] at this
            exact this.2
        · exact hothers _ j' sp' sl' hsp' hsl' hjj

theorem run_inv (specs : List Spec) : ∀ (evs : List Ev) (s : Sess),
    SessInv specs s → ValidEvs (specs.map (·.key)) s evs → SessInv specs (s.run evs) := by
  intro evs
  induction evs with
  | nil => intro s h _; exact h
  | cons e es ih =>
    intro s h hv
    obtain ⟨h1, h2⟩ := hv
    exact ih _ (ev_inv specs s e h h1) h2

/-- **C31_interleaved_readers.** Any number of readers are open on one store, reader `j` on entry
`specs[j].key` (ANY key, the zero value included; several readers may read the same entry) from chunk
`specs[j].start`, and their `Read` calls (any positive buffer sizes) are interleaved in ANY order with
each other and with arbitrary other activity on the store that moves the shared cursor anywhere (or
deselects it) and changes other entries in any way. Then at every moment every reader has delivered a
prefix of its entry's concatenated chunks, and a reader that has reported EOF has delivered exactly all
of them: no reader is truncated, repeats or receives another entry's bytes because of where somebody
else left the cursor. -/
theorem C31_interleaved_readers (t : Tree) (specs : List Spec) (ws : List Writer) (evs : List Ev)
    (hst : ∀ sp ∈ specs, Holds t.items sp.key sp.start sp.chunks)
    (hv : ValidEvs (specs.map (·.key)) (initSess t specs ws) evs) :
    ((initSess t specs ws).run evs).readers.length = specs.length ∧
    ∀ (j : Nat) (sp : Spec) (sl : Slot), specs[j]? = some sp → ((initSess t specs ws).run evs).readers[j]? = some sl →
      sl.got <+: sp.chunks.flatten ∧ (sl.eof = true → sl.got = sp.chunks.flatten) := by
  have h0 : SessInv specs (initSess t specs ws) := by
    refine ⟨by simp [initSess], ?_⟩
    intro j sp sl hsp hsl
    simp only [initSess, List.getElem?_map, hsp, Option.map_some, Option.some.injEq] at hsl
    subst hsl
    have hmem := List.mem_of_getElem? hsp
    exact ⟨sp.chunks.flatten, sp.chunks.length,
      ⟨rfl, sp.chunks, rfl, Or.inl ⟨rfl, hst sp hmem, rfl⟩⟩, by simp, fun h => by cases h⟩
  obtain ⟨hlen, hall⟩ := run_inv specs evs _ h0 hv
  refine ⟨hlen, ?_⟩
  intro j sp sl hsp hsl
  obtain ⟨pend, mc, _, hgot, heof⟩ := hall j sp sl hsp hsl
  refine ⟨⟨pend, hgot⟩, ?_⟩
  intro he
  rw [heof he] at hgot
  simpa using hgot

/-! ### … and every reader does reach end-of-stream -/

/-- how many `Read` calls reader `j` makes in the history -/
def rdCount (j : Nat) : List Ev → Nat
  | [] => 0
  | .rd j' _ :: es => (if j' = j then 1 else 0) + rdCount j es
  | .env _ :: es => rdCount j es

theorem ev_eof_mono (s : Sess) (e : Ev) (j : Nat) (sl : Slot) (hj : s.readers[j]? = some sl) (he : sl.eof = true) :
    ∃ sl', (s.evWith locateR e).readers[j]? = some sl' ∧ sl'.eof = true := by
  cases e with
  | env t' => exact ⟨sl, hj, he⟩
  | rd j' n =>
    unfold Sess.evWith Sess.rdWith
    simp only
    cases hj' : s.readers[j']? with
    | none => exact ⟨sl, hj, he⟩
    | some sl0 =>
      simp only
      have hlt : j' < s.readers.length := by
        rcases List.getElem?_eq_some_iff.1 hj' with ⟨h, _⟩; exact h
      rcases Reader.readWith locateR true s.tree sl0.r n with ⟨t', r', res⟩
      by_cases hjj : j' = j
      · subst hjj
        rw [hj] at hj'; cases hj'
        cases res with
        | eof => exact ⟨_, List.getElem?_set_self hlt, rfl⟩
        | data out => exact ⟨_, List.getElem?_set_self hlt, he⟩
      · cases res with
        | eof => exact ⟨sl, by simp only [List.getElem?_set_ne hjj]; exact hj, he⟩
        | data out => exact ⟨sl, by simp only [List.getElem?_set_ne hjj]; exact hj, he⟩

theorem run_eof_mono : ∀ (evs : List Ev) (s : Sess) (j : Nat) (sl : Slot), s.readers[j]? = some sl → sl.eof = true →
    ∃ sl', (s.run evs).readers[j]? = some sl' ∧ sl'.eof = true := by
  intro evs
  induction evs with
  | nil => intro s j sl hj he; exact ⟨sl, hj, he⟩
  | cons e es ih =>
    intro s j sl hj he
    obtain ⟨sl1, h1, h2⟩ := ev_eof_mono s e j sl hj he
    exact ih _ j sl1 h1 h2

theorem run_eof (specs : List Spec) (j : Nat) (sp : Spec) (hsp : specs[j]? = some sp) :
    ∀ (evs : List Ev) (s : Sess) (sl : Slot) (pend : List Nat) (mc : Nat),
    ValidEvs (specs.map (·.key)) s evs → s.readers[j]? = some sl → Pending sp.key s.tree sl.r pend mc →
    pend.length + mc < rdCount j evs → ∃ sl', (s.run evs).readers[j]? = some sl' ∧ sl'.eof = true := by
  have hkeys : sp.key ∈ specs.map (·.key) := List.mem_map.2 ⟨sp, List.mem_of_getElem? hsp, rfl⟩
  intro evs
  induction evs with
  | nil => intro s sl pend mc _ _ _ h; simp [rdCount] at h
  | cons e es ih =>
    intro s sl pend mc hv hj hp hcnt
    obtain ⟨hv1, hv2⟩ := hv
    cases e with
    | env t' =>
      exact ih _ sl pend mc hv2 hj (pending_congr (hv1 sp.key hkeys) hp) (by simpa [rdCount] using hcnt)
    | rd j' n =>
      have hn : 0 < n := hv1
      show ∃ sl', (Sess.run (s.evWith locateR (.rd j' n)) es).readers[j]? = some sl' ∧ sl'.eof = true
      have hv2' : ValidEvs (specs.map (·.key)) (s.evWith locateR (.rd j' n)) es := hv2
      revert hv2'
      unfold Sess.evWith Sess.rdWith
      simp only
      cases hj' : s.readers[j']? with
      | none =>
        intro hv2'
        have hne : j' ≠ j := by intro h; rw [h, hj] at hj'; cases hj'
        exact ih s sl pend mc hv2' hj hp (by simpa [rdCount, hne] using hcnt)
      | some sl0 =>
        simp only
        have hlt : j' < s.readers.length := by
          rcases List.getElem?_eq_some_iff.1 hj' with ⟨h, _⟩; exact h
        have hrw : Reader.readWith locateR true s.tree sl0.r n = Reader.read true s.tree sl0.r n := rfl
        rw [hrw]
        have hitems := read_items s.tree sl0.r n
        by_cases hjj : j' = j
        · subst hjj
          rw [hj] at hj'; cases hj'
          have hstep := read_step sp.key s.tree sl.r pend mc n hp hn
          rcases hread : Reader.read true s.tree sl.r n with ⟨t', r', res⟩
          rw [hread] at hstep
          cases res with
          | eof =>
            intro _
            exact run_eof_mono es _ j' _ (List.getElem?_set_self hlt) rfl
          | data out =>
            simp only at hstep ⊢
            obtain ⟨pend', mc', _, hp', hlt'⟩ := hstep
            intro hv2'
            refine ih _ _ pend' mc' hv2' (List.getElem?_set_self hlt) hp' ?_
            simp only [rdCount, ↓reduceIte] at hcnt
            omega
        · rcases hread : Reader.read true s.tree sl0.r n with ⟨t', r', res⟩
          rw [hread] at hitems
          simp only at hitems
          have hp' : Pending sp.key t' sl.r pend mc := pending_congr (fun i => by rw [hitems]) hp
          have hcnt' : pend.length + mc < rdCount j es := by simpa [rdCount, hjj] using hcnt
          cases res with
          | eof =>
            intro hv2'
            exact ih _ sl pend mc hv2' (by simp only [List.getElem?_set_ne hjj]; exact hj) hp' hcnt'
          | data out =>
            intro hv2'
            exact ih _ sl pend mc hv2' (by simp only [List.getElem?_set_ne hjj]; exact hj) hp' hcnt'

/-- **C31_interleaved_readers_eof.** In the setting of `C31_interleaved_readers`: a reader that is given
more than `bytes + chunks` `Read` calls in the history — however they are interleaved with everything
else — has reported EOF (and therefore, by `C31_interleaved_readers`, delivered exactly its entry). -/
theorem C31_interleaved_readers_eof (t : Tree) (specs : List Spec) (ws : List Writer) (evs : List Ev)
    (hst : ∀ sp ∈ specs, Holds t.items sp.key sp.start sp.chunks)
    (hv : ValidEvs (specs.map (·.key)) (initSess t specs ws) evs)
    (j : Nat) (sp : Spec) (hsp : specs[j]? = some sp)
    (hmany : sp.chunks.flatten.length + sp.chunks.length < rdCount j evs) :
    ∃ sl, ((initSess t specs ws).run evs).readers[j]? = some sl ∧ sl.eof = true ∧ sl.got = sp.chunks.flatten := by
  have hmem := List.mem_of_getElem? hsp
  have hj : (initSess t specs ws).readers[j]? = some ⟨Reader.new sp.key sp.start, [], false⟩ := by
    simp [initSess, List.getElem?_map, hsp]
  have hp : Pending sp.key (initSess t specs ws).tree (Reader.new sp.key sp.start) sp.chunks.flatten sp.chunks.length :=
    ⟨rfl, sp.chunks, rfl, Or.inl ⟨rfl, hst sp hmem, rfl⟩⟩
  obtain ⟨sl, h1, h2⟩ := run_eof specs j sp hsp evs _ _ _ _ hv hj hp hmany
  exact ⟨sl, h1, h2, ((C31_interleaved_readers t specs ws evs hst hv).2 j sp sl hsp h1).2 h2⟩

/-- the hypotheses of `C31_interleaved_readers` are satisfiable by a non-trivial session: two readers on
two entries (one under the zero key), lockstep, with the cursor deselected in between -/
example :
    let t : Tree := ⟨[(⟨0, 0⟩, [10]), (⟨0, 1⟩, [11]), (⟨2, 0⟩, [20]), (⟨2, 1⟩, [21]), (⟨3, 0⟩, [30])], none⟩
    let specs : List Spec := [⟨0, 0, [[10], [11]]⟩, ⟨2, 0, [[20], [21]]⟩]
    (∀ sp ∈ specs, Holds t.items sp.key sp.start sp.chunks) ∧
    ValidEvs (specs.map (·.key)) (initSess t specs []) [.rd 0 8, .rd 1 8, .env { t with cur := none }, .rd 0 8] := by
  refine ⟨?_, ?_⟩
  · intro sp hsp
    simp only [List.mem_cons, List.not_mem_nil, or_false] at hsp
    rcases hsp with rfl | rfl <;> simp [Holds, lookup]
  · simp only [ValidEvs, EvOk]
    exact ⟨by decide, by decide, fun k _ i => rfl, by decide, trivial⟩

/-- the readers' results in slot order -/
def results (s : Sess) : List (List Nat × Bool) := s.readers.map fun sl => (sl.got, sl.eof)

/-- two entries of two chunks each, one reader on each, nothing selected -/
def twoEntries : Sess :=
  ⟨⟨[(⟨1, 0⟩, [10]), (⟨1, 1⟩, [11]), (⟨2, 0⟩, [20]), (⟨2, 1⟩, [21])], none⟩,
   [⟨Reader.new 1 0, [], false⟩, ⟨Reader.new 2 0, [], false⟩], []⟩

/-- **Why a shortcut without a fallback must compare the full key (the reader BEFORE fix 7fc80460).**
With the shortcut test weakened to the chunk index alone and no fallback (`locateIdxOnly`), two readers
advanced in lockstep over two entries: reader 0 delivers chunk 0 of entry 1, reader 1 chunk 0 of entry 2
(cursor now on (2,0)), and reader 0, wanting chunk 1 with the cursor on index 0, steps with `Next` onto
(2,1), sees a foreign key and reports EOF: entry 1 is truncated to 1 of its 2 chunks. The pre-fix code's
full-key comparison (`locate`) returns both entries whole on the same history — and so does the code as
it stands (`locateR`), and even the position-only test once the shortcut falls back to `Find`
(`locateIdxOnlyR`): with the fallback the test before the shortcut is purely an optimisation. -/
theorem C31_index_only_fastpath_truncates :
    results (twoEntries.runWith locateIdxOnly [.rd 0 8, .rd 1 8, .rd 0 8, .rd 1 8, .rd 1 8]) =
      [([10], true), ([20, 21], true)] ∧
    results (twoEntries.runWith locate [.rd 0 8, .rd 1 8, .rd 0 8, .rd 1 8, .rd 0 8, .rd 1 8]) =
      [([10, 11], true), ([20, 21], true)] ∧
    results (twoEntries.run [.rd 0 8, .rd 1 8, .rd 0 8, .rd 1 8, .rd 0 8, .rd 1 8]) =
      [([10, 11], true), ([20, 21], true)] ∧
    results (twoEntries.runWith locateIdxOnlyR [.rd 0 8, .rd 1 8, .rd 0 8, .rd 1 8, .rd 0 8, .rd 1 8]) =
      [([10, 11], true), ([20, 21], true)] := by
  decide +kernel

/-- **The zero key before fix 7fc80460 (finding C31-F3, fixed).** Entry 0 has two chunks, entry 5 one;
reader 0 delivers chunk 0 of entry 0; reader 1 reads entry 5 to its end — its last `Next` runs off the
end of the store and leaves NOTHING selected; `GetCurrentKey` then answers the zero key (0,0), which
reader 0 (wanting (0,1)) takes for "the cursor is on my previous chunk". Without the fallback (`locate`)
the failed `Next` is reported as EOF after 1 of 2 chunks; the code as it stands (`locateR`) falls back
to `Find` and delivers the whole entry (which `C31_interleaved_readers` proves for every history). -/
theorem C31_zero_key_before_fix_truncates :
    let s0 : Sess := ⟨⟨[(⟨0, 0⟩, [10]), (⟨0, 1⟩, [11]), (⟨5, 0⟩, [50])], none⟩,
      [⟨Reader.new 0 0, [], false⟩, ⟨Reader.new 5 0, [], false⟩], []⟩
    results (s0.runWith locate [.rd 0 8, .rd 1 8, .rd 1 8, .rd 0 8]) = [([10], true), ([50], true)] ∧
    results (s0.run [.rd 0 8, .rd 1 8, .rd 1 8, .rd 0 8, .rd 0 8]) = [([10, 11], true), ([50], true)] := by
  decide +kernel

end Sop.C31
