import Sop.Model.Stream
/-! # C31 — streamed values read back exactly as written

`Reader.read true` is `reader.Read` after the one-line repair (advance `chunkIndex` when the
buffered chunk has been drained); `Reader.read false` is the pinned tree.  -/
namespace Sop.C31
open Sop.Stream

/-! ## the ordered-collection spec -/

theorem skey_eq_iff (a b : SKey) : a = b ↔ a.key = b.key ∧ a.idx = b.idx := by
  cases a; cases b; simp

theorem lookup_isSome_of_mem {it : Items} {k : SKey} (h : ∃ e ∈ it, e.1 = k) : ∃ v, lookup it k = some v := by
  induction it with
  | nil => obtain ⟨e, he, _⟩ := h; cases he
  | cons x rest ih =>
    unfold lookup
    by_cases hx : x.1 = k
    · exact ⟨x.2, by simp [hx]⟩
    · simp only [hx, ↓reduceIte]
      obtain ⟨e, he, hk⟩ := h
      rcases List.mem_cons.1 he with rfl | he
      · exact absurd hk hx
      · exact ih ⟨e, he, hk⟩

theorem mem_of_lookup {it : Items} {k : SKey} {v : Chunk} (h : lookup it k = some v) : ∃ e ∈ it, e.1 = k := by
  induction it with
  | nil => simp [lookup] at h
  | cons x rest ih =>
    unfold lookup at h
    by_cases hx : x.1 = k
    · exact ⟨x, List.mem_cons_self, hx⟩
    · simp only [hx, ↓reduceIte] at h
      obtain ⟨e, he, hk⟩ := ih h
      exact ⟨e, List.mem_cons_of_mem _ he, hk⟩

/-- what `succ` returns is a stored key above `c`, and no stored key lies strictly between -/
theorem succ_some {it : Items} {c m : SKey} (h : succ it c = some m) :
    c.lt m ∧ (∃ e ∈ it, e.1 = m) ∧ ∀ e ∈ it, c.lt e.1 → ¬ e.1.lt m := by
  induction it generalizing m with
  | nil => simp [succ] at h
  | cons x rest ih =>
    unfold succ at h
    cases hs : succ rest c with
    | none =>
      rw [hs] at h
      by_cases hx : c.lt x.1
      · simp only [hx, ↓reduceIte, Option.some.injEq] at h
        subst h
        refine ⟨hx, ⟨x, List.mem_cons_self, rfl⟩, ?_⟩
        intro e he hce
        rcases List.mem_cons.1 he with rfl | he
        · unfold SKey.lt; omega
        · exact absurd hce (succ_none_aux hs e he)
      · simp [hx] at h
    | some m' =>
      rw [hs] at h
      obtain ⟨h1, h2, h3⟩ := ih hs
      by_cases hx : c.lt x.1 ∧ x.1.lt m'
      · simp only [hx, and_self, ↓reduceIte, Option.some.injEq] at h
        subst h
        refine ⟨hx.1, ⟨x, List.mem_cons_self, rfl⟩, ?_⟩
        intro e he hce
        rcases List.mem_cons.1 he with rfl | he
        · unfold SKey.lt; omega
        · have := h3 e he hce
          have hx2 := hx.2
          unfold SKey.lt at *; omega
      · simp only [hx, ↓reduceIte, Option.some.injEq] at h
        subst h
        refine ⟨h1, ?_, ?_⟩
        · obtain ⟨e, he, hk⟩ := h2
          exact ⟨e, List.mem_cons_of_mem _ he, hk⟩
        · intro e he hce
          rcases List.mem_cons.1 he with rfl | he
          · intro hlt; exact hx ⟨hce, hlt⟩
          · exact h3 e he hce
where
  succ_none_aux {it : Items} {c : SKey} (h : succ it c = none) : ∀ e ∈ it, ¬ c.lt e.1 := by
    induction it with
    | nil => intro e he; cases he
    | cons x rest ih =>
      unfold succ at h
      cases hs : succ rest c with
      | none =>
        rw [hs] at h
        by_cases hx : c.lt x.1
        · simp [hx] at h
        · intro e he
          rcases List.mem_cons.1 he with rfl | he
          · exact hx
          · exact ih hs e he
      | some m' =>
        rw [hs] at h
        by_cases hx : c.lt x.1 ∧ x.1.lt m' <;> simp [hx] at h

theorem succ_none {it : Items} {c : SKey} (h : succ it c = none) : ∀ e ∈ it, ¬ c.lt e.1 :=
  succ_some.succ_none_aux h

/-- if chunk `i+1` of `k` is stored, `Next` from `(k,i)` lands on it -/
theorem succ_next {it : Items} {k i : Nat} {v : Chunk} (h : lookup it ⟨k, i + 1⟩ = some v) :
    succ it ⟨k, i⟩ = some ⟨k, i + 1⟩ := by
  obtain ⟨e, he, hk⟩ := mem_of_lookup h
  have hlt : (⟨k, i⟩ : SKey).lt e.1 := by rw [hk]; unfold SKey.lt; simp
  cases hs : succ it ⟨k, i⟩ with
  | none => exact absurd hlt (succ_none hs e he)
  | some m =>
    obtain ⟨h1, _, h3⟩ := succ_some hs
    have := h3 e he hlt
    rw [hk] at this
    congr 1
    rw [skey_eq_iff]
    unfold SKey.lt at *
    simp only at *
    omega

/-- `locate` finds exactly the stored chunks (given that something is selected, as after any
successful `Find`) and does not change the collection -/
theorem locate_spec (t : Tree) (sdk : SKey) (hc : t.cur.isSome) :
    (locate t sdk).1.items = t.items ∧
    (∀ v, lookup t.items sdk = some v → (locate t sdk).2 = true ∧ (locate t sdk).1.cur = some sdk) ∧
    (lookup t.items sdk = none → (locate t sdk).2 = false) := by
  obtain ⟨items, cur⟩ := t
  cases cur with
  | none => simp at hc
  | some c =>
    by_cases hck : (⟨c.key, c.idx + 1⟩ : SKey) = sdk
    · subst hck
      cases hl : lookup items ⟨c.key, c.idx + 1⟩ with
      | some v =>
        have hs : succ items c = some ⟨c.key, c.idx + 1⟩ := succ_next (k := c.key) (i := c.idx) hl
        simp [locate, Tree.next, hs, Tree.currentKey]
      | none =>
        cases hs : succ items c with
        | none => simp [locate, Tree.next, hs, Tree.currentKey]
        | some m =>
          have hm : m ≠ ⟨c.key, c.idx + 1⟩ := by
            intro hm
            obtain ⟨_, h2, _⟩ := succ_some hs
            obtain ⟨v, hv⟩ := lookup_isSome_of_mem h2
            rw [hm, hl] at hv
            cases hv
          simp [locate, Tree.next, hs, Tree.currentKey, hm]
    · cases hl : lookup items sdk with
      | some v => simp [locate, Tree.currentKey, hck, Tree.find, hl]
      | none => simp [locate, Tree.currentKey, hck, Tree.find, hl]

/-! ## the reader -/

/-- chunks `cs` of entry `k` are stored at indices `i, i+1, …` and index `i + cs.length` is free -/
def Holds (it : Items) (k : Nat) : Nat → List Chunk → Prop
  | i, [] => lookup it ⟨k, i⟩ = none
  | i, c :: cs => lookup it ⟨k, i⟩ = some c ∧ Holds it k (i + 1) cs

/-- reader state invariant: `pend` are exactly the bytes still to be delivered, `mc` the number of
chunks not yet fetched -/
def Pending (k : Nat) (t : Tree) (r : Reader) (pend : List Nat) (mc : Nat) : Prop :=
  r.key = k ∧ t.cur.isSome ∧ ∃ cs : List Chunk, mc = cs.length ∧
    ((r.readChunk = none ∧ Holds t.items k r.chunkIndex cs ∧ pend = cs.flatten) ∨
     (∃ rc, r.readChunk = some rc ∧ r.readCount < rc.length ∧ Holds t.items k (r.chunkIndex + 1) cs ∧
        pend = rc.drop r.readCount ++ cs.flatten))

theorem read_step (k : Nat) (t : Tree) (r : Reader) (pend : List Nat) (mc n : Nat)
    (hp : Pending k t r pend mc) (hn : 0 < n) :
    match Reader.read true t r n with
    | (_, _, .eof) => pend = []
    | (t', r', .data out) => ∃ pend' mc', pend = out ++ pend' ∧ Pending k t' r' pend' mc' ∧
        pend'.length + mc' < pend.length + mc := by
  obtain ⟨hk, hc, cs, hmc, hcase⟩ := hp
  rcases hcase with ⟨hrc, hh, hpend⟩ | ⟨rc, hrc, hlt, hh, hpend⟩
  · -- nothing buffered: fetch chunk `chunkIndex`
    unfold Reader.read
    rw [hrc]
    simp only
    obtain ⟨hi, hfound, hnone⟩ := locate_spec t ⟨r.key, r.chunkIndex⟩ hc
    cases cs with
    | nil =>
      have : lookup t.items ⟨r.key, r.chunkIndex⟩ = none := by rw [hk]; exact hh
      have hf := hnone this
      rw [show locate t ⟨r.key, r.chunkIndex⟩ = ((locate t ⟨r.key, r.chunkIndex⟩).1, (locate t ⟨r.key, r.chunkIndex⟩).2) from rfl]
      simp only [hf]
      simpa using hpend
    | cons c cs' =>
      obtain ⟨hl, hrest⟩ := hh
      have hl' : lookup t.items ⟨r.key, r.chunkIndex⟩ = some c := by rw [hk]; exact hl
      obtain ⟨hf, hcur⟩ := hfound c hl'
      rw [show locate t ⟨r.key, r.chunkIndex⟩ = ((locate t ⟨r.key, r.chunkIndex⟩).1, (locate t ⟨r.key, r.chunkIndex⟩).2) from rfl]
      simp only [hf, ↓reduceIte]
      have hval : (locate t ⟨r.key, r.chunkIndex⟩).1.currentValue = c := by
        unfold Tree.currentValue
        rw [hcur]; simp only; rw [hi, hl']; rfl
      rw [hval]
      have hcs : (locate t ⟨r.key, r.chunkIndex⟩).1.cur.isSome := by rw [hcur]; rfl
      by_cases hpart : (c.take n).length < c.length
      · simp only [hpart, ↓reduceIte]
        have hlen : (c.take n).length = n := by
          rw [List.length_take] at hpart ⊢; omega
        refine ⟨c.drop n ++ cs'.flatten, cs'.length, ?_, ⟨hk, hcs, cs', rfl, Or.inr ⟨c, rfl, ?_, ?_, ?_⟩⟩, ?_⟩
        · rw [hpend, List.flatten_cons, ← List.append_assoc, List.take_append_drop]
        · simpa using hpart
        · rw [hi]; exact hrest
        · simp only [hlen]
        · rw [hpend, hmc]
          simp only [List.flatten_cons, List.length_append, List.length_drop, List.length_cons]
          omega
      · simp only [hpart, ↓reduceIte]
        have hall : c.take n = c := by
          apply List.take_of_length_le
          rw [List.length_take] at hpart; omega
        refine ⟨cs'.flatten, cs'.length, ?_, ⟨hk, hcs, cs', rfl, Or.inl ⟨by simp, ?_, rfl⟩⟩, ?_⟩
        · rw [hpend, hall, List.flatten_cons]
        · rw [hi]; exact hrest
        · rw [hpend, hmc]
          simp only [List.flatten_cons, List.length_append, List.length_cons]
          omega
  · -- a partially delivered chunk is buffered
    unfold Reader.read
    rw [hrc]
    simp only
    have hdl : (rc.drop r.readCount).length = rc.length - r.readCount := List.length_drop
    by_cases hdr : ((rc.drop r.readCount).take n).length + r.readCount ≥ rc.length
    · simp only [hdr, ↓reduceIte]
      have hall : (rc.drop r.readCount).take n = rc.drop r.readCount := by
        apply List.take_of_length_le
        rw [List.length_take] at hdr; omega
      refine ⟨cs.flatten, cs.length, ?_, ⟨hk, hc, cs, rfl, Or.inl ⟨rfl, hh, rfl⟩⟩, ?_⟩
      · rw [hpend, hall]
      · rw [hpend, hmc]
        simp only [List.length_append, hdl]
        omega
    · simp only [hdr, ↓reduceIte]
      have hlen : ((rc.drop r.readCount).take n).length = n := by
        rw [List.length_take] at hdr ⊢; omega
      refine ⟨rc.drop (r.readCount + n) ++ cs.flatten, cs.length, ?_,
        ⟨hk, hc, cs, rfl, Or.inr ⟨rc, by simp, ?_, hh, ?_⟩⟩, ?_⟩
      · rw [hpend, ← List.append_assoc]
        congr 1
        rw [← List.drop_drop, List.take_append_drop]
      · simp only [hlen]; rw [hlen] at hdr; omega
      · simp only [hlen]
      · rw [hpend, hmc]
        simp only [List.length_append, List.length_drop]
        rw [hlen] at hdr
        omega

theorem readAll_spec (k : Nat) : ∀ (bufs : List Nat) (t : Tree) (r : Reader) (pend : List Nat) (mc : Nat),
    Pending k t r pend mc → (∀ b ∈ bufs, 0 < b) →
    ((readAll true t r bufs).2 = true → (readAll true t r bufs).1 = pend) ∧
    (∃ rest, pend = (readAll true t r bufs).1 ++ rest) ∧
    (pend.length + mc < bufs.length → (readAll true t r bufs).2 = true) := by
  intro bufs
  induction bufs with
  | nil =>
    intro t r pend mc _ _
    simp [readAll]
  | cons n ns ih =>
    intro t r pend mc hp hpos
    have hn : 0 < n := hpos n List.mem_cons_self
    have hstep := read_step k t r pend mc n hp hn
    unfold readAll
    rcases hread : Reader.read true t r n with ⟨t', r', res⟩
    rw [hread] at hstep
    cases res with
    | eof =>
      simp only at hstep
      simp [hstep]
    | data out =>
      simp only at hstep
      obtain ⟨pend', mc', hsplit, hp', hlt⟩ := hstep
      obtain ⟨h1, ⟨rest, h2⟩, h3⟩ := ih t' r' pend' mc' hp' (fun b hb => hpos b (List.mem_cons_of_mem _ hb))
      simp only
      refine ⟨?_, ?_, ?_⟩
      · intro he; rw [hsplit, h1 he]
      · exact ⟨rest, by rw [hsplit, List.append_assoc, ← h2]⟩
      · intro hl
        apply h3
        simp only [List.length_cons] at hl
        omega

/-- **C31_read_all.** For every stored chunk list, every start index, every cursor position that
selects an item and every sequence of positive buffer sizes: the bytes delivered by successive
`Read` calls are a prefix of the concatenated chunks; they are *all* of them as soon as EOF is
returned; and EOF is returned within `bytes + chunks + 1` calls. (Repaired reader.) -/
theorem C31_read_all (t : Tree) (k i : Nat) (chunks : List Chunk) (bufs : List Nat)
    (hcur : t.cur.isSome) (hstored : Holds t.items k i chunks) (hpos : ∀ b ∈ bufs, 0 < b) :
    ((readAll true t (Reader.new k i) bufs).2 = true → (readAll true t (Reader.new k i) bufs).1 = chunks.flatten) ∧
    (readAll true t (Reader.new k i) bufs).1 <+: chunks.flatten ∧
    (chunks.flatten.length + chunks.length < bufs.length →
      readAll true t (Reader.new k i) bufs = (chunks.flatten, true)) := by
  have hp : Pending k t (Reader.new k i) chunks.flatten chunks.length :=
    ⟨rfl, hcur, chunks, rfl, Or.inl ⟨rfl, hstored, rfl⟩⟩
  obtain ⟨h1, ⟨rest, h2⟩, h3⟩ := readAll_spec k bufs t _ _ _ hp hpos
  refine ⟨h1, ⟨rest, h2.symm⟩, ?_⟩
  intro hl
  have he := h3 hl
  exact Prod.ext (h1 he) he

/-- The pinned tree's reader violates the statement: three 3-byte chunks read through a 2-byte
buffer come back with every chunk's tail followed by the whole chunk again. -/
theorem C31_unrepaired_counterexample :
    let t : Tree := ⟨[(⟨1, 0⟩, [1, 2, 3]), (⟨1, 1⟩, [4, 5, 6])], some ⟨1, 0⟩⟩
    (readAll false t (Reader.new 1 0) [2, 2, 2, 2, 2, 2, 2, 2, 2, 2]).1 ≠ [1, 2, 3, 4, 5, 6] := by
  decide

end Sop.C31
