import Sop.Model.SearchInst
import Sop.Lemmas.Search
/-!
# C32 — text search returns exactly the matching documents, in descending score order

Theorems over the model `Sop.Search` (`/repo/search/index.go`, `tokenizer.go`), for every tokenizer that
never puts `|` into a token (`TokLaw`; proved for the executable tokenizer the driver runs, with the
character table and stop words regenerated from the source on every run):

* `C32_index_invariant` — after indexing any list of documents with distinct ids, the four stores hold
  exactly the corpus statistics (`Inv`); `C32_any_batching` — a split into transactions does not matter;
* `C32_match` — a search returns each document that shares a token with the query exactly once and no
  other document (the prefix scan `t|` visits exactly the postings of `t`, also when ids contain `|`);
* `C32_order` — results are in descending score order, for ANY score function.

NOT a theorem: that a float64 score equals the BM25 expression.  The model never computes a float (the
scores are inputs); the harness recomputes BM25 from the integer statistics and compares (a test).
-/
namespace Sop.C32
open Sop.Search

/-! ## the tokenizer law -/

theorem fieldsAux_no_bar (isTok : Nat → Bool) (lower : Nat → Nat) (h : ∀ c, isTok c = true → lower c ≠ bar) :
    ∀ (text cur : Str), (∀ x ∈ cur, x ≠ bar) → ∀ f ∈ fieldsAux isTok lower text cur, bar ∉ f
  | [], cur, hc, f, hf => by
    simp only [fieldsAux] at hf
    split at hf
    · simp at hf
    · simp at hf; subst hf
      intro hm; exact hc bar (List.mem_reverse.1 hm) rfl
  | c :: r, cur, hc, f, hf => by
    simp only [fieldsAux] at hf
    split at hf
    · rename_i ht
      refine fieldsAux_no_bar isTok lower h r (lower c :: cur) ?_ f hf
      intro x hx
      rcases List.mem_cons.1 hx with rfl | hx
      · exact h c ht
      · exact hc x hx
    · split at hf
      · exact fieldsAux_no_bar isTok lower h r [] (by simp) f hf
      · rcases List.mem_cons.1 hf with rfl | hf
        · intro hm; exact hc bar (List.mem_reverse.1 hm) rfl
        · exact fieldsAux_no_bar isTok lower h r [] (by simp) f hf

theorem tokLaw_tokenizeWith (isTok : Nat → Bool) (lower : Nat → Nat) (stop : List Str)
    (h : ∀ c, isTok c = true → lower c ≠ bar) : TokLaw (tokenizeWith isTok lower stop) := by
  intro text t ht
  unfold tokenizeWith at ht
  exact fieldsAux_no_bar isTok lower h text [] (by simp) t (List.mem_filter.1 ht).1

/-- the check of the regenerated character table: no token character lower-cases to `|` -/
def tableOk : List Nat → List Nat → List Nat → Bool
  | [], _, _ => true
  | _ :: _, [], _ => true
  | c :: cs, t :: ts, [] => (t == 0 || c != bar) && tableOk cs ts []
  | _ :: cs, t :: ts, l :: ls => (t == 0 || l != bar) && tableOk cs ts ls

theorem tableOk_sound : ∀ (cs ts ls : List Nat) (x v : Nat), tableOk cs ts ls = true →
    tableLookup cs ts x = some v → v ≠ 0 →
    (match tableLookup cs ls x with | some l => l | none => x) ≠ bar
  | [], _, _, _, _, _, h, _ => by simp [tableLookup] at h
  | _ :: _, [], _, _, _, _, h, _ => by simp [tableLookup] at h
  | c :: cs, t :: ts, [], x, v, hok, h, hv => by
    simp only [tableOk, Bool.and_eq_true, Bool.or_eq_true] at hok
    simp only [tableLookup] at h ⊢
    split at h
    · subst_vars; simp at h; subst h
      rcases hok.1 with h0 | h0
      · simp at h0; exact absurd h0 hv
      · simpa using h0
    · have := tableOk_sound cs ts [] x v hok.2 h hv
      simpa [tableLookup] using this
  | c :: cs, t :: ts, l :: ls, x, v, hok, h, hv => by
    simp only [tableOk, Bool.and_eq_true, Bool.or_eq_true] at hok
    simp only [tableLookup] at h ⊢
    split at h
    · subst_vars; simp at h; subst h
      rcases hok.1 with h0 | h0
      · simp at h0; exact absurd h0 hv
      · simpa using h0
    · rename_i hne
      simp only [hne, if_false]
      exact tableOk_sound cs ts ls x v hok.2 h hv

theorem table_checked : tableOk FactsC32.alphabet FactsC32.alphabetTok FactsC32.alphabetLower = true := by decide

/-- the executable tokenizer of the driver (validated against `search.SimpleTokenizer` by the `tok` ops) obeys the law -/
theorem tokLaw_tokenizeX : TokLaw tokenizeX := by
  apply tokLaw_tokenizeWith
  intro c hc
  unfold isTokX at hc
  unfold lowerX
  cases hl : tableLookup FactsC32.alphabet FactsC32.alphabetTok c with
  | none => rw [hl] at hc; simp at hc
  | some v =>
    rw [hl] at hc
    exact tableOk_sound _ _ _ c v table_checked hl (by simpa using hc)

/-! ## statistics -/

/-- Indexing documents with distinct ids, starting from the empty index, leaves the four stores equal to
the corpus statistics: postings `t|d ↦ tf`, term_stats `t ↦ df`, doc_stats `d ↦ len`, total_docs, total_len
(each store in ascending key order, with no other entry). -/
theorem C32_index_invariant (tok : Str → List Str) (hl : TokLaw tok) (docs : List (Str × Str))
    (hnd : (docs.map (·.1)).Nodup) : Inv tok docs (indexAll tok Index.empty docs) := by
  simpa using inv_indexAll tok hl docs [] Index.empty (inv_empty tok) (by simpa using hnd)

/-- any split of the indexing into transactions (batches) gives the index of the concatenation -/
theorem C32_any_batching (tok : Str → List Str) : ∀ (batches : List (List (Str × Str))) (ix : Index),
    indexBatches tok ix batches = indexAll tok ix batches.flatten
  | [], ix => rfl
  | b :: bs, ix => by
    have ih := C32_any_batching tok bs (indexAll tok ix b)
    simp only [indexBatches, indexAll, List.foldl_cons, List.flatten_cons, List.foldl_append] at ih ⊢
    exact ih

/-! ## the result set -/

theorem termHits_iff (tok : Str → List Str) (c : List (Str × Str)) (ix : Index) (hi : Inv tok c ix)
    (hnd : (c.map (·.1)).Nodup) (t : Str) (hb : bar ∉ t) (d : Str) :
    d ∈ (termHits ix t).map (·.1) ↔ ∃ x, (d, x) ∈ c ∧ t ∈ tok x := by
  constructor
  · intro h
    unfold termHits at h
    cases hts : omFind ix.termStats t with
    | none => rw [hts] at h; simp at h
    | some n =>
      rw [hts] at h
      simp only [List.map_map, List.mem_map, Function.comp] at h
      obtain ⟨e, he, rfl⟩ := h
      rw [scanPrefix_eq_filter _ _ hi.sP, List.mem_filter] at he
      obtain ⟨t', d', h1, h2, h3⟩ := hi.p2 e he.1
      have hp := he.2
      rw [h1] at hp ⊢
      have := (pkey_prefix hb h2).1 hp
      subst this
      rw [pkey_drop]
      unfold specTF at h3
      cases hl0 : lookupDoc c d' with
      | none => rw [hl0] at h3; simp at h3
      | some x =>
        rw [hl0] at h3
        refine ⟨x, (lookupDoc_some hnd).1 hl0, ?_⟩
        by_cases hm : t ∈ tok x
        · exact hm
        · simp [hm] at h3
  · rintro ⟨x, hx, ht⟩
    have hdf : specDF tok c t ≠ 0 := by
      unfold specDF
      intro h0
      have : (d, x) ∈ c.filter (fun e => (tok e.2).contains t) := List.mem_filter.2 ⟨hx, by simpa using ht⟩
      rw [List.eq_nil_of_length_eq_zero h0] at this
      simp at this
    have hts := hi.t1 t
    rw [if_neg hdf] at hts
    have hp : omFind ix.postings (pkey t d) = some ((tok x).count t) := by
      rw [hi.p1 t d hb]
      unfold specTF
      rw [(lookupDoc_some hnd).2 hx]
      simp [ht]
    unfold termHits
    rw [hts]
    simp only [List.map_map, List.mem_map, Function.comp]
    refine ⟨(pkey t d, (tok x).count t), ?_, pkey_drop t d⟩
    rw [scanPrefix_eq_filter _ _ hi.sP, List.mem_filter]
    exact ⟨mem_of_find hp, (pkey_prefix hb hb).2 rfl⟩

theorem matched_iff (tok : Str → List Str) (hl : TokLaw tok) (c : List (Str × Str)) (ix : Index) (hi : Inv tok c ix)
    (hnd : (c.map (·.1)).Nodup) (q d : Str) :
    d ∈ matched tok ix q ↔ ∃ t ∈ tok q, ∃ x, (d, x) ∈ c ∧ t ∈ tok x := by
  unfold matched
  split
  · rename_i he
    have : tok q = [] := by simpa using he
    simp [this]
  · split
    · rename_i h0
      have hc : c = [] := by
        have := hi.g1
        by_cases hlen : c.length = 0
        · exact List.eq_nil_of_length_eq_zero hlen
        · rw [if_neg hlen] at this
          rw [this] at h0
          simp at h0
          subst h0
          simp at hlen
      subst hc
      simp
    · rw [mem_dedup, List.mem_flatMap]
      constructor
      · rintro ⟨t, ht, h⟩
        exact ⟨t, ht, (termHits_iff tok c ix hi hnd t (hl q t ht) d).1 h⟩
      · rintro ⟨t, ht, h⟩
        exact ⟨t, ht, (termHits_iff tok c ix hi hnd t (hl q t ht) d).2 h⟩

theorem nodup_matched (tok : Str → List Str) (ix : Index) (q : Str) : (matched tok ix q).Nodup := by
  unfold matched
  split
  · simp
  · split
    · simp
    · exact nodup_dedup _

/-- **C32 (result set).** For documents with distinct ids indexed from the empty index, a search returns
every document that contains at least one query token — each exactly once — and nothing else, whatever
the scores are. -/
theorem C32_match (tok : Str → List Str) (hl : TokLaw tok) (docs : List (Str × Str))
    (hnd : (docs.map (·.1)).Nodup) (q : Str) (score : Str → Int) :
    (search tok (indexAll tok Index.empty docs) q score).Nodup ∧
    ∀ d, d ∈ search tok (indexAll tok Index.empty docs) q score ↔
      ∃ t ∈ tok q, ∃ x, (d, x) ∈ docs ∧ t ∈ tok x := by
  have hi := C32_index_invariant tok hl docs hnd
  have hp := perm_sortBy score (matched tok (indexAll tok Index.empty docs) q)
  refine ⟨(hp.nodup_iff).2 (nodup_matched _ _ _), ?_⟩
  intro d
  unfold search
  rw [hp.mem_iff]
  exact matched_iff tok hl docs _ hi hnd q d

/-- the same for any split of the corpus into transactions -/
theorem C32_match_batches (tok : Str → List Str) (hl : TokLaw tok) (batches : List (List (Str × Str)))
    (hnd : (batches.flatten.map (·.1)).Nodup) (q : Str) (score : Str → Int) :
    (search tok (indexBatches tok Index.empty batches) q score).Nodup ∧
    ∀ d, d ∈ search tok (indexBatches tok Index.empty batches) q score ↔
      ∃ t ∈ tok q, ∃ x, (d, x) ∈ batches.flatten ∧ t ∈ tok x := by
  rw [C32_any_batching]
  exact C32_match tok hl batches.flatten hnd q score

/-- **C32 (order).** Results are in descending score order — for any index state, any query and ANY
score function (the float64 BM25 values of the real code enter the model only through `score`). -/
theorem C32_order (tok : Str → List Str) (ix : Index) (q : Str) (score : Str → Int) :
    (search tok ix q score).Pairwise (fun a b => score b ≤ score a) :=
  desc_sortBy score _

/-! ## non-vacuity and a concrete run -/

/-- a toy tokenizer (split at spaces and `|`) for concrete evaluation -/
def toyTok : Str → List Str := tokenizeWith (fun c => c != 32 && c != bar) id []

theorem toyTok_law : TokLaw toyTok := by
  apply tokLaw_tokenizeWith
  intro c hc
  simp at hc
  exact hc.2

/-- documents "a|1" = "x y x", "b" = "y", "c" = "z": a query "x y" finds a|1 and b, not c; the id containing `|` is intact -/
example : search toyTok (indexBatches toyTok Index.empty [[([97, 124, 49], [120, 32, 121, 32, 120])], [([98], [121]), ([99], [122])]])
    [120, 32, 121] (fun d => if d = [98] then 2 else 1) = [[98], [97, 124, 49]] := by decide

example : (([([97, 124, 49], [120, 32, 121, 32, 120]), ([98], [121]), ([99], [122])] : List (Str × Str)).map (·.1)).Nodup := by decide

/-- what happens outside the hypothesis (the same id indexed twice): the document counters are bumped although
nothing new is stored — the model reproduces the code here, and the theorems above exclude it by `Nodup` -/
example : (indexAll toyTok Index.empty [([100], [120]), ([100], [120])]).global = [(kTotalDocs, 2), (kTotalLen, 2)]
    ∧ (indexAll toyTok Index.empty [([100], [120]), ([100], [120])]).docStats = [([100], 1)] := by decide

end Sop.C32
