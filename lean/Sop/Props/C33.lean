import Sop.Model.Vector
/-!
# C33 — the vector store returns live items and correctly ranked query hits

Theorems over `Sop/Model/Vector.lean` (the model the driver `drv_c33` runs against the real `ai/vector`).
All float-valued decisions are universally quantified oracle inputs, so every statement holds for any numerics.
-/
namespace Sop.C33
open Sop.Vector

/-! ## association lists -/
section Assoc
variable {κ α : Type} [DecidableEq κ] [LT κ] [DecidableRel (fun a b : κ => a < b)]

theorem afind_aset (l : List (κ × α)) (i j : κ) (a : α) :
    afind (aset l i a) j = if i = j then some a else afind l j := by
  induction l with
  | nil => simp [aset, afind]
  | cons x r ih =>
    obtain ⟨k, b⟩ := x
    simp only [aset]
    split
    · simp [afind]
    · split
      · rename_i h; subst h
        by_cases hj : i = j <;> simp [afind, hj]
      · rename_i h1 h2
        by_cases hk : k = j
        · subst hk; simp [afind, h2]
        · simp [afind, hk, ih]

omit [LT κ] [DecidableRel (fun a b : κ => a < b)] in
theorem afind_aerase (l : List (κ × α)) (i j : κ) :
    afind (aerase l i) j = if i = j then none else afind l j := by
  induction l with
  | nil => simp [aerase, afind]
  | cons x r ih =>
    obtain ⟨k, b⟩ := x
    unfold aerase at ih ⊢
    by_cases hk : k = i
    · subst hk
      by_cases hj : k = j
      · subst hj; simpa [List.filter, afind] using ih
      · simp [List.filter, afind, hj] at ih ⊢; simpa [hj] using ih
    · by_cases hj : i = j
      · subst hj; simp [List.filter, hk, afind] at ih ⊢; exact ih
      · simp [List.filter, hk, afind, hj] at ih ⊢
        by_cases hkj : k = j <;> simp [hkj, ih]
end Assoc

/-! ## the Vectors tree -/

theorem keyEq_iff (e : VEnt) (c d : Int) (i : Id) : keyEq e c d i = true ↔ e.cid = c ∧ e.dist = d ∧ e.id = i := by
  simp [keyEq, and_assoc]

theorem vfind_some {l : List VEnt} {c d : Int} {i : Id} {e : VEnt} (h : vfind l c d i = some e) :
    e ∈ l ∧ e.cid = c ∧ e.dist = d ∧ e.id = i := by
  induction l with
  | nil => simp [vfind] at h
  | cons x r ih =>
    simp only [vfind] at h
    split at h
    · rename_i hk
      cases h
      exact ⟨List.mem_cons_self, (keyEq_iff _ _ _ _).1 hk⟩
    · have := ih h
      exact ⟨List.mem_cons_of_mem _ this.1, this.2⟩

theorem vfind_none_iff {l : List VEnt} {c d : Int} {i : Id} :
    vfind l c d i = none ↔ ∀ e ∈ l, keyEq e c d i = false := by
  induction l with
  | nil => simp [vfind]
  | cons x r ih =>
    simp only [vfind]
    by_cases hk : keyEq x c d i = true
    · simp [hk]
    · simp [hk, ih]

/-- operations on keys of another id do not change what `vfind` returns for id `j` -/
theorem vfind_vadd_ne (l : List VEnt) (x : VEnt) (c d : Int) (j : Id) (h : x.id ≠ j) :
    vfind (vadd l x) c d j = vfind l c d j := by
  have hx : keyEq x c d j = false := by
    cases hk : keyEq x c d j
    · rfl
    · exact absurd ((keyEq_iff _ _ _ _).1 hk).2.2 h
  induction l with
  | nil => simp [vadd, vfind, hx]
  | cons e r ih =>
    simp only [vadd]
    split
    · rfl
    · split
      · simp [vfind, hx]
      · simp [vfind, ih]

theorem vfind_vremove_ne (l : List VEnt) (c' d' : Int) (i : Id) (c d : Int) (j : Id) (h : i ≠ j) :
    vfind (vremove l c' d' i) c d j = vfind l c d j := by
  induction l with
  | nil => simp [vremove, vfind]
  | cons e r ih =>
    unfold vremove at ih ⊢
    by_cases hk : keyEq e c' d' i = true
    · have : keyEq e c d j = false := by
        cases hk2 : keyEq e c d j
        · rfl
        · have a := ((keyEq_iff _ _ _ _).1 hk).2.2
          have b := ((keyEq_iff _ _ _ _).1 hk2).2.2
          exact absurd (a.symm.trans b) h
      simp [List.filter, hk, vfind, this, ih]
    · simp [List.filter, hk, vfind, ih]

theorem vfind_vtomb_ne (l : List VEnt) (c' d' : Int) (i : Id) (c d : Int) (j : Id) (h : i ≠ j) :
    vfind (vtomb l c' d' i) c d j = vfind l c d j := by
  induction l with
  | nil => simp [vtomb, vfind]
  | cons e r ih =>
    unfold vtomb at ih ⊢
    by_cases hk : keyEq e c' d' i = true
    · have hne : keyEq e c d j = false := by
        cases hk2 : keyEq e c d j
        · rfl
        · have a := ((keyEq_iff _ _ _ _).1 hk).2.2
          have b := ((keyEq_iff _ _ _ _).1 hk2).2.2
          exact absurd (a.symm.trans b) h
      have hne' : keyEq { e with del := true } c d j = false := by simpa [keyEq] using hne
      simp [List.map, hk, vfind, hne, hne', ih]
    · simp [List.map, hk, vfind, ih]

/-! ## Query: ranking structure (for every state, every oracle) -/

def SortedDesc (l : List (Id × Int)) : Prop := l.Pairwise (fun a b => b.2 ≤ a.2)

theorem mem_insertDesc (x y : Id × Int) (l : List (Id × Int)) : y ∈ insertDesc x l ↔ y = x ∨ y ∈ l := by
  induction l with
  | nil => simp [insertDesc]
  | cons z r ih =>
    simp only [insertDesc]
    split
    · simp
    · simp [ih]; constructor
      · rintro (h | h | h) <;> simp [h]
      · rintro (h | h | h) <;> simp [h]

theorem sorted_insertDesc (x : Id × Int) (l : List (Id × Int)) (h : SortedDesc l) : SortedDesc (insertDesc x l) := by
  induction l with
  | nil => simp [insertDesc, SortedDesc]
  | cons z r ih =>
    unfold SortedDesc at h ih ⊢
    rw [List.pairwise_cons] at h
    simp only [insertDesc]
    split
    · rename_i hlt
      rw [List.pairwise_cons]
      refine ⟨?_, List.pairwise_cons.2 h⟩
      intro a ha
      rcases List.mem_cons.1 ha with rfl | ha
      · omega
      · have := h.1 a ha; omega
    · rename_i hlt
      rw [List.pairwise_cons]
      refine ⟨?_, ih h.2⟩
      intro a ha
      rcases (mem_insertDesc x a r).1 ha with rfl | ha
      · omega
      · exact h.1 a ha

theorem sortAux_sorted (l acc : List (Id × Int)) (h : SortedDesc acc) :
    SortedDesc (l.foldl (fun acc x => insertDesc x acc) acc) := by
  induction l generalizing acc with
  | nil => simpa using h
  | cons x r ih => simpa using ih _ (sorted_insertDesc x acc h)

theorem sortDesc_sorted (l : List (Id × Int)) : SortedDesc (sortDesc l) :=
  sortAux_sorted l [] (by simp [SortedDesc])

theorem mem_sortAux (l acc : List (Id × Int)) (y : Id × Int) :
    y ∈ l.foldl (fun acc x => insertDesc x acc) acc ↔ y ∈ l ∨ y ∈ acc := by
  induction l generalizing acc with
  | nil => simp
  | cons x r ih =>
    simp only [List.foldl_cons, ih, mem_insertDesc, List.mem_cons]
    constructor
    · rintro (h | h | h) <;> simp [h]
    · rintro ((h | h) | h) <;> simp [h]

theorem mem_sortDesc (l : List (Id × Int)) (y : Id × Int) : y ∈ sortDesc l ↔ y ∈ l := by
  simp [sortDesc, mem_sortAux]

theorem nodup_insertDesc (x : Id × Int) (l : List (Id × Int)) (hx : x.1 ∉ l.map (·.1)) (h : (l.map (·.1)).Nodup) :
    ((insertDesc x l).map (·.1)).Nodup := by
  induction l with
  | nil => simp [insertDesc]
  | cons z r ih =>
    simp only [List.map_cons, List.mem_cons, not_or, List.nodup_cons] at hx h
    simp only [insertDesc]
    split
    · simp only [List.map_cons, List.nodup_cons, List.mem_cons, not_or]
      exact ⟨⟨hx.1, hx.2⟩, h.1, h.2⟩
    · simp only [List.map_cons, List.nodup_cons]
      refine ⟨?_, ih hx.2 h.2⟩
      intro hm
      obtain ⟨a, ha, hz⟩ := List.mem_map.1 hm
      rcases (mem_insertDesc x a r).1 ha with rfl | ha
      · exact hx.1 hz
      · exact h.1 (List.mem_map.2 ⟨a, ha, hz⟩)

theorem nodup_sortAux (l acc : List (Id × Int)) (h : ((l ++ acc).map (·.1)).Nodup) :
    ((l.foldl (fun acc x => insertDesc x acc) acc).map (·.1)).Nodup := by
  induction l generalizing acc with
  | nil => simpa using h
  | cons x r ih =>
    simp only [List.foldl_cons]
    apply ih
    simp only [List.cons_append, List.map_cons, List.nodup_cons, List.map_append, List.mem_append, not_or] at h
    rw [List.map_append, List.nodup_append] at *
    obtain ⟨⟨hxr, hxa⟩, hr, ha, hdis⟩ := h
    refine ⟨hr, nodup_insertDesc x acc hxa ha, ?_⟩
    intro a har b hb
    obtain ⟨y, hy, rfl⟩ := List.mem_map.1 hb
    rcases (mem_insertDesc x y acc).1 hy with rfl | hy
    · intro h; exact hxr (h ▸ har)
    · exact hdis a har _ (List.mem_map.2 ⟨y, hy, rfl⟩)

theorem nodup_sortDesc (l : List (Id × Int)) (h : (l.map (·.1)).Nodup) : ((sortDesc l).map (·.1)).Nodup :=
  nodup_sortAux l [] (by simpa using h)

def hitKey (h : Hit) : Id × Int := (h.id, h.score)

/-- the hits are, in order, a sub-sequence of the sorted candidates -/
theorem collect_sublist (content : List (Id × CKey × Payload)) (filter : Payload → Bool) (k : Int)
    (cands : List (Id × Int)) (acc : List Hit) :
    ∃ t, t.Sublist cands ∧ (collect content filter k cands acc).map hitKey = acc.reverse.map hitKey ++ t := by
  induction cands generalizing acc with
  | nil => exact ⟨[], List.Sublist.refl _, by simp [collect]⟩
  | cons c r ih =>
    simp only [collect]
    split
    · exact ⟨[], List.nil_sublist _, by simp⟩
    · split
      · rename_i ck p hf
        split
        · obtain ⟨t, ht, he⟩ := ih (⟨c.1, c.2, p⟩ :: acc)
          refine ⟨c :: t, ht.cons_cons c, ?_⟩
          rw [he]; simp [hitKey]
        · obtain ⟨t, ht, he⟩ := ih acc
          exact ⟨t, ht.cons c, he⟩
      · obtain ⟨t, ht, he⟩ := ih acc
        exact ⟨t, ht.cons c, he⟩

theorem collect_length (content : List (Id × CKey × Payload)) (filter : Payload → Bool) (k : Int)
    (cands : List (Id × Int)) (acc : List Hit) :
    ((collect content filter k cands acc).length : Int) ≤ k ∨ (collect content filter k cands acc).length = acc.length := by
  induction cands generalizing acc with
  | nil => right; simp [collect]
  | cons c r ih =>
    simp only [collect]
    split
    · right; simp
    · rename_i hk
      split
      · split
        · rcases ih (⟨c.1, c.2, _⟩ :: acc) with h | h
          · exact Or.inl h
          · left; rw [h]; simp only [List.length_cons]; omega
        · exact ih acc
      · exact ih acc

theorem collect_mem (content : List (Id × CKey × Payload)) (filter : Payload → Bool) (k : Int)
    (cands : List (Id × Int)) (acc : List Hit) (h : Hit) (hm : h ∈ collect content filter k cands acc) :
    h ∈ acc ∨ (∃ ck, afind content h.id = some (ck, h.payload) ∧ ck.del = false ∧ filter h.payload = true) := by
  induction cands generalizing acc with
  | nil => left; simpa [collect] using hm
  | cons c r ih =>
    simp only [collect] at hm
    split at hm
    · left; simpa using hm
    · split at hm
      · rename_i ck p hf
        split at hm
        · rename_i hcond
          rcases ih _ hm with h1 | h1
          · rcases List.mem_cons.1 h1 with rfl | h1
            · right
              refine ⟨ck, hf, ?_⟩
              simpa using hcond
            · exact Or.inl h1
          · exact Or.inr h1
        · exact ih _ hm
      · exact ih _ hm

/-- **C33_query, part 1** (every state, every configuration, every oracle): at most `k` hits (none for `k ≤ 0`) -/
theorem C33_query_le_k (cfg : Cfg) (s : State) (k : Int) (filter : Payload → Bool) (targets : List Int) (score : Vec → Int) :
    ((query cfg s k filter targets score).length : Int) ≤ k ∨ query cfg s k filter targets score = [] := by
  rcases collect_length s.content filter k (sortDesc (candidates cfg s targets score)) [] with h | h
  · exact Or.inl h
  · right; exact List.eq_nil_of_length_eq_zero (by simpa [query] using h)

/-- **C33_query, part 2**: every hit is an id Content knows, not tombstoned, whose latest payload is the one
    returned and passes the filter -/
theorem C33_query_filter (cfg : Cfg) (s : State) (k : Int) (filter : Payload → Bool) (targets : List Int) (score : Vec → Int)
    (h : Hit) (hm : h ∈ query cfg s k filter targets score) :
    ∃ ck, afind s.content h.id = some (ck, h.payload) ∧ ck.del = false ∧ filter h.payload = true := by
  rcases collect_mem _ _ _ _ _ h hm with h1 | h1
  · simp at h1
  · exact h1

theorem query_keys_sublist (cfg : Cfg) (s : State) (k : Int) (filter : Payload → Bool) (targets : List Int) (score : Vec → Int) :
    ((query cfg s k filter targets score).map hitKey).Sublist (sortDesc (candidates cfg s targets score)) := by
  obtain ⟨t, ht, he⟩ := collect_sublist s.content filter k (sortDesc (candidates cfg s targets score)) []
  simp only [query, he, List.reverse_nil, List.map_nil, List.nil_append]
  exact ht

/-- **C33_query, part 3**: hits are in descending score order -/
theorem C33_query_sorted (cfg : Cfg) (s : State) (k : Int) (filter : Payload → Bool) (targets : List Int) (score : Vec → Int) :
    (query cfg s k filter targets score).Pairwise (fun a b => b.score ≤ a.score) := by
  have h1 := (sortDesc_sorted (candidates cfg s targets score)).sublist (query_keys_sublist cfg s k filter targets score)
  rw [List.pairwise_map] at h1
  exact h1

/-- **C33_query, part 4**: hits are distinct whenever the scanned candidates are (see `candidates_nodup`) -/
theorem C33_query_distinct (cfg : Cfg) (s : State) (k : Int) (filter : Payload → Bool) (targets : List Int) (score : Vec → Int)
    (hc : ((candidates cfg s targets score).map (·.1)).Nodup) :
    ((query cfg s k filter targets score).map (·.id)).Nodup := by
  have h1 := (query_keys_sublist cfg s k filter targets score).map (·.1)
  have h2 := (nodup_sortDesc _ hc).sublist h1
  simpa [List.map_map, Function.comp_def, hitKey] using h2

/-- every hit was scanned: it is a candidate with that score -/
theorem query_mem_candidates (cfg : Cfg) (s : State) (k : Int) (filter : Payload → Bool) (targets : List Int) (score : Vec → Int)
    (h : Hit) (hm : h ∈ query cfg s k filter targets score) : (h.id, h.score) ∈ candidates cfg s targets score := by
  have h1 := (query_keys_sublist cfg s k filter targets score).subset (List.mem_map.2 ⟨h, hm, rfl⟩)
  exact (mem_sortDesc _ _).1 h1

/-! ## Get / Upsert / Delete: pointwise update of `live` -/

theorem get_congr (cfg : Cfg) (s s' : State) (j : Id)
    (hc : afind s'.content j = afind s.content j) (ht : afind s'.temp j = afind s.temp j)
    (hv : ∀ c d, vfind s'.vectors c d j = vfind s.vectors c d j) (hver : s'.ver = s.ver) :
    Sop.Vector.get cfg s' j = Sop.Vector.get cfg s j := by
  simp only [Sop.Vector.get, hc, ht, hv, hver]

/-- **C33_get**: `Get` returns an item exactly when Content holds the id un-tombstoned and the address recorded in
    its key resolves (the buffer entry; or the `(centroid, distance, id)` key of the active version, centroid ≠ 0):
    the vector stored at that address and the payload stored in Content. This is `live`. -/
theorem C33_get (cfg : Cfg) (s : State) (i : Id) :
    live cfg s i =
      match afind s.content i with
      | none => none
      | some (k, p) =>
        if k.del then none
        else if cfg.buffer then (afind s.temp i).map (fun v => (v, p))
        else if (activeKey s.ver k).1 = 0 then none
        else (vfind s.vectors (activeKey s.ver k).1 (activeKey s.ver k).2 i).map (fun e => (e.vec, p)) := by
  unfold live Sop.Vector.get
  cases hc : afind s.content i with
  | none => rfl
  | some kp =>
    obtain ⟨k, p⟩ := kp
    simp only
    cases hd : k.del
    · by_cases hb : cfg.buffer = true
      · cases ht : afind s.temp i <;> simp [hb]
      · by_cases h0 : (activeKey s.ver k).1 = 0
        · simp [hb, h0]
        · cases hf : vfind s.vectors (activeKey s.ver k).1 (activeKey s.ver k).2 i <;> simp [hb, h0]
    · simp

theorem upsertItem_frame (cfg : Cfg) (s : State) (it : Item) (j : Id) (h : it.id ≠ j) :
    Sop.Vector.get cfg (upsertItem cfg s it) j = Sop.Vector.get cfg s j := by
  apply get_congr
  · unfold upsertItem upsertBuffered upsertIndexed
    split <;> simp [afind_aset, h]
  · unfold upsertItem upsertBuffered upsertIndexed
    split <;> simp [afind_aset, h]
  · intro c d
    unfold upsertItem upsertBuffered upsertIndexed
    split
    · rfl
    · simp only
      rw [vfind_vadd_ne _ _ _ _ _ (by simpa using h)]
      unfold cleaned
      split
      · exact vfind_vremove_ne _ _ _ _ _ _ _ h
      · rfl
  · unfold upsertItem upsertBuffered upsertIndexed
    split <;> rfl

theorem delKey_del (ver : Nat) (k : CKey) : (delKey ver k).del = true := by
  unfold delKey; split <;> rfl

theorem activeKey_delKey (ver : Nat) (k : CKey) : activeKey ver (delKey ver k) = activeKey ver k := by
  unfold delKey activeKey
  split
  · rename_i h; simp [h.2]
  · simp

theorem delete_content (cfg : Cfg) (s : State) (i j : Id) :
    afind (delete cfg s i).1.content j =
      match afind s.content i with
      | none => afind s.content j
      | some (k, p) => if i = j then some (delKey s.ver k, p) else afind s.content j := by
  unfold delete
  cases hc : afind s.content i with
  | none => rfl
  | some kp =>
    obtain ⟨k, p⟩ := kp
    simp only
    by_cases hb : cfg.buffer = true
    · simp [hb, afind_aset]
    · by_cases h0 : (delKey s.ver k).cid = 0 <;> simp [hb, h0, afind_aset]

theorem delete_ver (cfg : Cfg) (s : State) (i : Id) : (delete cfg s i).1.ver = s.ver := by
  unfold delete
  cases hc : afind s.content i with
  | none => rfl
  | some kp =>
    obtain ⟨k, p⟩ := kp
    simp only
    by_cases hb : cfg.buffer = true
    · simp [hb]
    · by_cases h0 : (delKey s.ver k).cid = 0 <;> simp [hb, h0]

theorem delete_temp_ne (cfg : Cfg) (s : State) (i j : Id) (h : i ≠ j) :
    afind (delete cfg s i).1.temp j = afind s.temp j := by
  unfold delete
  cases hc : afind s.content i with
  | none => rfl
  | some kp =>
    obtain ⟨k, p⟩ := kp
    simp only
    by_cases hb : cfg.buffer = true
    · simp only [hb, if_true]
      split <;> simp [afind_aset, h]
    · by_cases h0 : (delKey s.ver k).cid = 0 <;> simp [hb, h0]

theorem delete_vectors_ne (cfg : Cfg) (s : State) (i j : Id) (h : i ≠ j) (c d : Int) :
    vfind (delete cfg s i).1.vectors c d j = vfind s.vectors c d j := by
  unfold delete
  cases hc : afind s.content i with
  | none => rfl
  | some kp =>
    obtain ⟨k, p⟩ := kp
    simp only
    by_cases hb : cfg.buffer = true
    · simp [hb]
    · by_cases h0 : (delKey s.ver k).cid = 0
      · simp [hb, h0]
      · simp only [hb, h0, if_false, Bool.false_eq_true]
        exact vfind_vtomb_ne _ _ _ _ _ _ _ h

theorem delete_frame (cfg : Cfg) (s : State) (i j : Id) (h : i ≠ j) :
    Sop.Vector.get cfg (delete cfg s i).1 j = Sop.Vector.get cfg s j := by
  apply get_congr
  · rw [delete_content]; split <;> simp [h]
  · exact delete_temp_ne cfg s i j h
  · exact delete_vectors_ne cfg s i j h
  · exact delete_ver cfg s i

/-- **C33_ops (delete)**: after `Delete i`, `i` is gone and every other id reads as before -/
theorem C33_ops_delete (cfg : Cfg) (s : State) (i j : Id) :
    live cfg (delete cfg s i).1 j = if j = i then none else live cfg s j := by
  by_cases h : j = i
  · subst h
    simp only [if_true, live]
    have : Sop.Vector.get cfg (delete cfg s j).1 j = .nf := by
      unfold Sop.Vector.get
      rw [delete_content]
      cases hc : afind s.content j with
      | none => simp
      | some kp => obtain ⟨k, p⟩ := kp; simp [delKey_del]
    rw [this]
  · simp only [h, if_false, live]
    rw [delete_frame cfg s i j (fun e => h e.symm)]

/-- **C33_ops (upsert), other ids**: an `Upsert` (one item of a batch) leaves every other id as it was -/
theorem C33_ops_upsert_other (cfg : Cfg) (s : State) (it : Item) (j : Id) (h : j ≠ it.id) :
    live cfg (upsertItem cfg s it) j = live cfg s j := by
  simp only [live]
  rw [upsertItem_frame cfg s it j (fun e => h e.symm)]

theorem C33_ops_upsert_buffered (cfg : Cfg) (s : State) (it : Item) (hb : cfg.buffer = true) :
    live cfg (upsertItem cfg s it) it.id = some (it.vec, it.payload) := by
  simp [live, Sop.Vector.get, upsertItem, upsertBuffered, hb, afind_aset]

/-! ## The invariant of the indexed store with de-duplication on

Every item of the Vectors tree is the one its id's Content key points to in the active version, and there is at
most one per id. (With de-duplication off and an id upserted twice this is false: `C33_counterexample_dedup_off`.) -/

structure Inv (s : State) : Prop where
  one : s.vectors.Pairwise (fun a b => a.id ≠ b.id)
  ref : ∀ e ∈ s.vectors, e.cid ≠ 0 ∧ ∃ k p, afind s.content e.id = some (k, p) ∧ activeKey s.ver k = (e.cid, e.dist)
  vers : ∀ i k p, afind s.content i = some (k, p) → k.ver ≤ s.ver ∧ k.nver ≤ s.ver

theorem Inv_empty : Inv {} := ⟨List.Pairwise.nil, by simp, by simp [afind]⟩

theorem vfind_of_mem {l : List VEnt} (h1 : l.Pairwise (fun a b => a.id ≠ b.id)) {e : VEnt} (he : e ∈ l) :
    vfind l e.cid e.dist e.id = some e := by
  induction l with
  | nil => cases he
  | cons x r ih =>
    rw [List.pairwise_cons] at h1
    simp only [vfind]
    rcases List.mem_cons.1 he with rfl | he
    · simp [keyEq]
    · have : keyEq x e.cid e.dist e.id = false := by
        cases hk : keyEq x e.cid e.dist e.id
        · rfl
        · exact absurd ((keyEq_iff _ _ _ _).1 hk).2.2 (h1.1 e he)
      simp [this, ih h1.2 he]

theorem mem_vadd {l : List VEnt} {x y : VEnt} (h : y ∈ vadd l x) : y = x ∨ y ∈ l := by
  induction l with
  | nil => simpa [vadd] using h
  | cons e r ih =>
    simp only [vadd] at h
    split at h
    · exact Or.inr h
    · split at h
      · rcases List.mem_cons.1 h with h | h
        · exact Or.inl h
        · exact Or.inr h
      · rcases List.mem_cons.1 h with h | h
        · exact Or.inr (h ▸ List.mem_cons_self)
        · rcases ih h with h | h
          · exact Or.inl h
          · exact Or.inr (List.mem_cons_of_mem _ h)

theorem pairwise_vadd {l : List VEnt} {x : VEnt} (hx : ∀ e ∈ l, e.id ≠ x.id)
    (h : l.Pairwise (fun a b => a.id ≠ b.id)) : (vadd l x).Pairwise (fun a b => a.id ≠ b.id) := by
  induction l with
  | nil => simp [vadd]
  | cons e r ih =>
    simp only [vadd]
    split
    · exact h
    · split
      · rw [List.pairwise_cons]
        exact ⟨fun y hy => (hx y hy).symm, h⟩
      · rw [List.pairwise_cons] at h ⊢
        refine ⟨?_, ih (fun y hy => hx y (List.mem_cons_of_mem _ hy)) h.2⟩
        intro y hy
        rcases mem_vadd hy with rfl | hy
        · exact hx e List.mem_cons_self
        · exact h.1 y hy

theorem vfind_vadd_self {l : List VEnt} {x : VEnt} (h : ∀ e ∈ l, e.id ≠ x.id) :
    vfind (vadd l x) x.cid x.dist x.id = some x := by
  induction l with
  | nil => simp [vadd, vfind, keyEq]
  | cons e r ih =>
    have hne : keyEq e x.cid x.dist x.id = false := by
      cases hk : keyEq e x.cid x.dist x.id
      · rfl
      · exact absurd ((keyEq_iff _ _ _ _).1 hk).2.2 (h e List.mem_cons_self)
    rw [vadd, if_neg (by rw [hne]; exact Bool.false_ne_true)]
    split
    · simp [vfind, keyEq]
    · rw [vfind, if_neg (by rw [hne]; exact Bool.false_ne_true)]
      exact ih (fun y hy => h y (List.mem_cons_of_mem _ hy))

theorem cleaned_subset (cfg : Cfg) (s : State) (id : Id) {e : VEnt} (he : e ∈ cleaned cfg s id) : e ∈ s.vectors := by
  unfold cleaned at he
  split at he
  · exact (List.mem_filter.1 he).1
  · exact he

/-- with de-duplication on, the cleanup leaves no item of that id behind -/
theorem cleaned_no_id (cfg : Cfg) (s : State) (id : Id) (hd : cfg.dedup = true) (hinv : Inv s) :
    ∀ e ∈ cleaned cfg s id, e.id ≠ id := by
  intro e he heq
  have hmem := cleaned_subset cfg s id he
  obtain ⟨hc0, k, p, hk, hact⟩ := hinv.ref e hmem
  have hfind := vfind_of_mem hinv.one hmem
  rw [heq] at hk hfind
  unfold cleaned oldEntry at he
  simp only [hd, if_true, hk] at he
  have h1 : (activeKey s.ver k).1 = e.cid := by rw [hact]
  have h2 : (activeKey s.ver k).2 = e.dist := by rw [hact]
  simp only [h1, h2, hc0, if_false, hfind, Option.isSome_some, if_true] at he
  have := (List.mem_filter.1 he).2
  simp [keyEq, heq] at this

theorem Inv_upsertIndexed (cfg : Cfg) (s : State) (it : Item) (hd : cfg.dedup = true) (hc : it.cid ≠ 0) (hinv : Inv s) :
    Inv (upsertIndexed cfg s it) := by
  have hno := cleaned_no_id cfg s it.id hd hinv
  have hcon : ∀ j, afind (upsertIndexed cfg s it).content j =
      if it.id = j then some (⟨it.cid, it.odist, s.ver, false, 0, 0, 0⟩, it.payload) else afind s.content j := by
    intro j; simp [upsertIndexed, afind_aset]
  have hvec : (upsertIndexed cfg s it).vectors = vadd (cleaned cfg s it.id) ⟨it.cid, it.odist, it.id, false, it.vec⟩ := rfl
  have hver : (upsertIndexed cfg s it).ver = s.ver := rfl
  have hsub : (cleaned cfg s it.id).Pairwise (fun a b => a.id ≠ b.id) := by
    unfold cleaned; split
    · exact hinv.one.sublist List.filter_sublist
    · exact hinv.one
  refine ⟨?_, ?_, ?_⟩
  · rw [hvec]; exact pairwise_vadd hno hsub
  · intro e he
    rw [hvec] at he
    rw [hver]
    rcases mem_vadd he with rfl | he
    · exact ⟨hc, ⟨it.cid, it.odist, s.ver, false, 0, 0, 0⟩, it.payload, by rw [hcon]; simp, by simp [activeKey]⟩
    · have hne := hno e he
      obtain ⟨h0, k, p, hk, ha⟩ := hinv.ref e (cleaned_subset cfg s it.id he)
      refine ⟨h0, k, p, ?_, ha⟩
      rw [hcon]; simp [Ne.symm hne, hk]
  · intro i k p hk
    rw [hcon] at hk
    rw [hver]
    split at hk
    · cases hk; simp
    · exact hinv.vers i k p hk

/-- **C33_ops (upsert), the id itself**: with de-duplication on, an `Upsert` on the indexed path makes the id read
    back as the vector and payload just given, whatever centroid and distance the numerics chose (centroid ≠ 0) -/
theorem C33_ops_upsert_self (cfg : Cfg) (s : State) (it : Item) (hb : cfg.buffer = false) (hd : cfg.dedup = true)
    (hc : it.cid ≠ 0) (hinv : Inv s) :
    live cfg (upsertItem cfg s it) it.id = some (it.vec, it.payload) := by
  have hno := cleaned_no_id cfg s it.id hd hinv
  rw [C33_get]
  simp only [upsertItem, hb, Bool.false_eq_true, if_false]
  have hcon : afind (upsertIndexed cfg s it).content it.id = some (⟨it.cid, it.odist, s.ver, false, 0, 0, 0⟩, it.payload) := by
    simp [upsertIndexed, afind_aset]
  rw [hcon]
  have hver : (upsertIndexed cfg s it).ver = s.ver := rfl
  have hvec : (upsertIndexed cfg s it).vectors = vadd (cleaned cfg s it.id) ⟨it.cid, it.odist, it.id, false, it.vec⟩ := rfl
  have hf := vfind_vadd_self (l := cleaned cfg s it.id) (x := ⟨it.cid, it.odist, it.id, false, it.vec⟩) hno
  simp only [hver, hvec, activeKey, ne_eq, not_true_eq_false, false_and, if_false, hc, Bool.false_eq_true]
  simp only at hf
  rw [hf]; rfl

theorem Inv_delete (cfg : Cfg) (s : State) (i : Id) (hinv : Inv s) : Inv (delete cfg s i).1 := by
  have hver := delete_ver cfg s i
  have hcon := delete_content cfg s i
  -- the Vectors tree keeps its keys
  have hvecs : ∃ f : VEnt → VEnt, (∀ e, (f e).id = e.id ∧ (f e).cid = e.cid ∧ (f e).dist = e.dist) ∧
      (delete cfg s i).1.vectors = s.vectors.map f := by
    unfold delete
    cases hc : afind s.content i with
    | none => exact ⟨id, by simp, by simp⟩
    | some kp =>
      obtain ⟨k, p⟩ := kp
      simp only
      by_cases hb : cfg.buffer = true
      · exact ⟨id, by simp, by simp [hb]⟩
      · by_cases h0 : (delKey s.ver k).cid = 0
        · exact ⟨id, by simp, by simp [hb, h0]⟩
        · refine ⟨fun e => if keyEq e (delKey s.ver k).cid (delKey s.ver k).dist i then { e with del := true } else e, ?_, ?_⟩
          · intro e; dsimp only; split <;> simp
          · simp [hb, h0, vtomb]
  obtain ⟨f, hf, hv⟩ := hvecs
  refine ⟨?_, ?_, ?_⟩
  · rw [hv, List.pairwise_map]
    exact hinv.one.imp (fun {a b} h => by rw [(hf a).1, (hf b).1]; exact h)
  · intro e he
    rw [hv] at he
    obtain ⟨e0, he0, rfl⟩ := List.mem_map.1 he
    obtain ⟨h0, k, p, hk, ha⟩ := hinv.ref e0 he0
    rw [(hf e0).1, (hf e0).2.1, (hf e0).2.2, hver, hcon]
    refine ⟨h0, ?_⟩
    cases hc : afind s.content i with
    | none => exact ⟨k, p, hk, ha⟩
    | some kp =>
      obtain ⟨k2, p2⟩ := kp
      simp only
      by_cases hi : i = e0.id
      · subst hi
        rw [hk] at hc; cases hc
        exact ⟨delKey s.ver k, p, by simp, by rw [activeKey_delKey]; exact ha⟩
      · exact ⟨k, p, by simp [hi, hk], ha⟩
  · intro j k p hk
    rw [hcon] at hk
    rw [hver]
    cases hc : afind s.content i with
    | none => rw [hc] at hk; exact hinv.vers j k p hk
    | some kp =>
      obtain ⟨k2, p2⟩ := kp
      rw [hc] at hk
      simp only at hk
      split at hk
      · cases hk
        have := hinv.vers i k2 _ hc
        unfold delKey; split <;> simp <;> omega
      · exact hinv.vers j k p hk

/-! ## Optimize (indexed store, de-duplication on): nothing lost, duplicated or resurrected -/

theorem migStep_frame (cfg : Cfg) (cur new : Nat) (mig : Id → Vec → Int × Int) (m : Mig) (e : VEnt) (j : Id)
    (hd : cfg.dedup = true) (h : e.id ≠ j) :
    afind (migStep cfg cur new mig m e).content j = afind m.content j ∧
    ∀ c d, vfind (migStep cfg cur new mig m e).newVecs c d j = vfind m.newVecs c d j := by
  unfold migStep
  simp only [hd, Bool.not_true, Bool.false_eq_true, if_false]
  split
  · split
    · exact ⟨by simp [afind_aerase, h], fun _ _ => rfl⟩
    · split
      · rename_i k p hk _ _
        refine ⟨?_, fun c d => ?_⟩
        · simp [migrateEntry, hk, afind_aset, h]
        · simp only [migrateEntry]
          exact vfind_vadd_ne _ _ _ _ _ (by simpa using h)
      · exact ⟨rfl, fun _ _ => rfl⟩
  · exact ⟨rfl, fun _ _ => rfl⟩

theorem migFold_frame (cfg : Cfg) (cur new : Nat) (mig : Id → Vec → Int × Int) (l : List VEnt) (m : Mig) (j : Id)
    (hd : cfg.dedup = true) (h : ∀ e ∈ l, e.id ≠ j) :
    afind (l.foldl (migStep cfg cur new mig) m).content j = afind m.content j ∧
    ∀ c d, vfind (l.foldl (migStep cfg cur new mig) m).newVecs c d j = vfind m.newVecs c d j := by
  induction l generalizing m with
  | nil => exact ⟨rfl, fun _ _ => rfl⟩
  | cons e r ih =>
    simp only [List.foldl_cons]
    have h1 := migStep_frame cfg cur new mig m e j hd (h e List.mem_cons_self)
    have h2 := ih (migStep cfg cur new mig m e) (fun x hx => h x (List.mem_cons_of_mem _ hx))
    exact ⟨h2.1.trans h1.1, fun c d => (h2.2 c d).trans (h1.2 c d)⟩

/-- the oracle of the migration never answers centroid 0 (`findClosestCentroid` answers an existing centroid id,
    which is ≥ 1, or -1 when there is none) -/
def MigOk (mig : Id → Vec → Int × Int) : Prop := ∀ i v, (mig i v).1 ≠ 0

theorem live_none_of_no_entry (cfg : Cfg) (s : State) (j : Id) (hb : cfg.buffer = false)
    (h : ∀ e ∈ s.vectors, e.id ≠ j) : live cfg s j = none := by
  rw [C33_get]
  cases hc : afind s.content j with
  | none => rfl
  | some kp =>
    obtain ⟨k, p⟩ := kp
    simp only [hb, Bool.false_eq_true, if_false]
    split
    · rfl
    · split
      · rfl
      · cases hf : vfind s.vectors (activeKey s.ver k).1 (activeKey s.ver k).2 j with
        | none => rfl
        | some e => exact absurd (vfind_some hf).2.2.2 (h e (vfind_some hf).1)

/-- **C33_optimize**: on the indexed store with de-duplication on, the migration (phases 1–4 of `Optimize`) leaves
    `live` unchanged for every id, whatever centroids k-means produced and wherever the vectors were assigned:
    nothing is lost, nothing deleted comes back, and (`Inv_migrate`) there is again one item per id. -/
theorem C33_optimize (cfg : Cfg) (s : State) (mig : Id → Vec → Int × Int) (newCentIds : List Int)
    (hb : cfg.buffer = false) (hd : cfg.dedup = true) (hinv : Inv s) (hmig : MigOk mig) (j : Id) :
    live cfg (migrate cfg s mig newCentIds) j = live cfg s j := by
  by_cases hj : ∃ e ∈ s.vectors, e.id = j
  · obtain ⟨e, he, rfl⟩ := hj
    obtain ⟨l1, l2, hl⟩ := List.append_of_mem he
    have hone := hinv.one
    rw [hl, List.pairwise_append] at hone
    obtain ⟨_, hp2, hcross⟩ := hone
    rw [List.pairwise_cons] at hp2
    have hl1 : ∀ x ∈ l1, x.id ≠ e.id := fun x hx => hcross x hx e List.mem_cons_self
    have hl2 : ∀ x ∈ l2, x.id ≠ e.id := fun x hx => (hp2.1 x hx).symm
    obtain ⟨hc0, k, p, hk, hact⟩ := hinv.ref e he
    have hvers := hinv.vers e.id k p hk
    -- the state of id `e.id` before, at and after its own step
    let m0 : Mig := { content := s.content, newVecs := [], newCents := newCentIds.map (fun c => (c, 0)) }
    let m1 := l1.foldl (migStep cfg s.ver (s.ver + 1) mig) m0
    let m2 := migStep cfg s.ver (s.ver + 1) mig m1 e
    let m3 := l2.foldl (migStep cfg s.ver (s.ver + 1) mig) m2
    have hm3 : migrate cfg s mig newCentIds =
        { content := m3.content, vectors := m3.newVecs, temp := [], cents := m3.newCents, ver := s.ver + 1, bad := false } := by
      simp only [migrate, hl, List.foldl_append, List.foldl_cons, m3, m2, m1, m0]
    have f1 := migFold_frame cfg s.ver (s.ver + 1) mig l1 m0 e.id hd hl1
    have f3 := migFold_frame cfg s.ver (s.ver + 1) mig l2 m2 e.id hd hl2
    have hc1 : afind m1.content e.id = some (k, p) := f1.1.trans hk
    have hv1 : ∀ c d, vfind m1.newVecs c d e.id = none := fun c d => (f1.2 c d).trans rfl
    -- before
    have hbefore : live cfg s e.id = if k.del then none else some (e.vec, p) := by
      rw [C33_get, hk]
      simp only [hb, Bool.false_eq_true, if_false, hact, hc0, vfind_of_mem hinv.one he, Option.map_some]
    rw [hbefore, hm3, C33_get]
    simp only [hb, Bool.false_eq_true, if_false]
    rw [f3.1]
    cases hdel : k.del
    · -- live: migrated
      have hm2 : m2 = migrateEntry cfg s.ver (s.ver + 1) mig m1 e := by
        simp only [m2, migStep, hd, Bool.not_true, Bool.false_eq_true, if_false, hc1, hdel, hact, if_true]
      have hc2 : afind m2.content e.id =
          some ({ promote s.ver k with ncid := (mig e.id e.vec).1, ndist := (mig e.id e.vec).2, nver := s.ver + 1 }, p) := by
        rw [hm2]; simp [migrateEntry, hc1, afind_aset]
      have hv2 : vfind m2.newVecs (mig e.id e.vec).1 (mig e.id e.vec).2 e.id =
          some ⟨(mig e.id e.vec).1, (mig e.id e.vec).2, e.id, false, e.vec⟩ := by
        rw [hm2]
        simp only [migrateEntry]
        apply vfind_vadd_self (x := ⟨(mig e.id e.vec).1, (mig e.id e.vec).2, e.id, false, e.vec⟩)
        intro x hx hid
        have := hv1 x.cid x.dist
        rw [vfind_none_iff] at this
        have hkx := this x hx
        simp [keyEq, hid] at hkx
      have hpv : (promote s.ver k).ver ≠ s.ver + 1 := by
        unfold promote; split <;> simp <;> omega
      have hpd : (promote s.ver k).del = false := by
        unfold promote; split <;> simp [hdel]
      rw [hc2]
      simp only [hpd, Bool.false_eq_true, if_false, activeKey, ne_eq, hpv, not_false_eq_true, and_self, if_true,
        hmig e.id e.vec]
      rw [f3.2, hv2]; rfl
    · -- tombstoned: garbage-collected
      have hm2 : m2 = { m1 with content := aerase m1.content e.id } := by
        simp only [m2, migStep, hd, Bool.not_true, Bool.false_eq_true, if_false, hc1, hdel, if_true]
      rw [hm2]; simp [afind_aerase]
  · -- no item of that id: untouched, and the new tree has no item of that id either
    have hno : ∀ e ∈ s.vectors, e.id ≠ j := fun e he h => hj ⟨e, he, h⟩
    let m0 : Mig := { content := s.content, newVecs := [], newCents := newCentIds.map (fun c => (c, 0)) }
    have f := migFold_frame cfg s.ver (s.ver + 1) mig s.vectors m0 j hd hno
    rw [live_none_of_no_entry cfg s j hb hno]
    apply live_none_of_no_entry _ _ _ hb
    intro x hx hid
    have hx' : x ∈ (s.vectors.foldl (migStep cfg s.ver (s.ver + 1) mig) m0).newVecs := hx
    have := f.2 x.cid x.dist
    rw [show vfind m0.newVecs x.cid x.dist j = none from rfl, vfind_none_iff] at this
    have hkx := this x hx'
    simp [keyEq, hid] at hkx

/-! ## the invariant survives the migration -/

/-- what the fold of phase 3 maintains (`cur` = the version being left) -/
structure MigInv (cur : Nat) (m : Mig) : Prop where
  one : m.newVecs.Pairwise (fun a b => a.id ≠ b.id)
  ref : ∀ x ∈ m.newVecs, x.cid ≠ 0 ∧ ∃ k p, afind m.content x.id = some (k, p) ∧ k.nver = cur + 1 ∧
      (k.ncid, k.ndist) = (x.cid, x.dist)
  vers : ∀ i k p, afind m.content i = some (k, p) → k.ver ≤ cur ∧ k.nver ≤ cur + 1

theorem migStep_mem (cfg : Cfg) (cur new : Nat) (mig : Id → Vec → Int × Int) (m : Mig) (e x : VEnt)
    (hd : cfg.dedup = true) (hx : x ∈ (migStep cfg cur new mig m e).newVecs) : x ∈ m.newVecs ∨ x.id = e.id := by
  unfold migStep at hx
  simp only [hd, Bool.not_true, Bool.false_eq_true, if_false] at hx
  split at hx
  · split at hx
    · exact Or.inl hx
    · split at hx
      · simp only [migrateEntry] at hx
        rcases mem_vadd hx with rfl | hx
        · exact Or.inr rfl
        · exact Or.inl hx
      · exact Or.inl hx
  · exact Or.inl hx

theorem MigInv_step (cfg : Cfg) (cur : Nat) (mig : Id → Vec → Int × Int) (m : Mig) (e : VEnt)
    (hd : cfg.dedup = true) (hmig : MigOk mig) (hm : MigInv cur m) (hfresh : ∀ x ∈ m.newVecs, x.id ≠ e.id) :
    MigInv cur (migStep cfg cur (cur + 1) mig m e) := by
  unfold migStep
  simp only [hd, Bool.not_true, Bool.false_eq_true, if_false]
  split
  · rename_i k p hk
    split
    · -- garbage collection: only the content of e.id changes
      refine ⟨hm.one, ?_, ?_⟩
      · intro x hx
        obtain ⟨h0, k2, p2, hk2, h2⟩ := hm.ref x hx
        exact ⟨h0, k2, p2, by simp [afind_aerase, (hfresh x hx).symm, hk2], h2⟩
      · intro i k2 p2 hk2
        rw [afind_aerase] at hk2
        split at hk2
        · cases hk2
        · exact hm.vers i k2 p2 hk2
    · split
      · -- migrated
        have hv := hm.vers e.id k p hk
        have hpv : (promote cur k).ver ≤ cur := by
          unfold promote; split
          · simp only; omega
          · omega
        refine ⟨?_, ?_, ?_⟩
        · simp only [migrateEntry]
          exact pairwise_vadd (x := ⟨_, _, e.id, false, e.vec⟩) hfresh hm.one
        · intro x hx
          simp only [migrateEntry] at hx ⊢
          rcases mem_vadd hx with rfl | hx
          · exact ⟨hmig e.id e.vec, { promote cur k with ncid := (mig e.id e.vec).1, ndist := (mig e.id e.vec).2, nver := cur + 1 }, p,
              by simp [hk, afind_aset], rfl, rfl⟩
          · obtain ⟨h0, k2, p2, hk2, h2⟩ := hm.ref x hx
            exact ⟨h0, k2, p2, by simp [hk, afind_aset, (hfresh x hx).symm, hk2], h2⟩
        · intro i k2 p2 hk2
          simp only [migrateEntry, hk, afind_aset] at hk2
          split at hk2
          · cases hk2; exact ⟨hpv, Nat.le_refl _⟩
          · exact hm.vers i k2 p2 hk2
      · exact hm
  · exact hm

theorem MigInv_fold (cfg : Cfg) (cur : Nat) (mig : Id → Vec → Int × Int) (l : List VEnt) (m : Mig)
    (hd : cfg.dedup = true) (hmig : MigOk mig) (hm : MigInv cur m)
    (hl : l.Pairwise (fun a b => a.id ≠ b.id)) (hfresh : ∀ x ∈ m.newVecs, ∀ e ∈ l, x.id ≠ e.id) :
    MigInv cur (l.foldl (migStep cfg cur (cur + 1) mig) m) := by
  induction l generalizing m with
  | nil => exact hm
  | cons e r ih =>
    simp only [List.foldl_cons]
    rw [List.pairwise_cons] at hl
    apply ih _ (MigInv_step cfg cur mig m e hd hmig hm (fun x hx => hfresh x hx e List.mem_cons_self)) hl.2
    intro x hx e' he'
    rcases migStep_mem cfg cur (cur + 1) mig m e x hd hx with hx | hx
    · exact hfresh x hx e' (List.mem_cons_of_mem _ he')
    · rw [hx]; exact hl.1 e' he'

theorem Inv_migrate (cfg : Cfg) (s : State) (mig : Id → Vec → Int × Int) (newCentIds : List Int)
    (hd : cfg.dedup = true) (hmig : MigOk mig) (hinv : Inv s) : Inv (migrate cfg s mig newCentIds) := by
  have h0 : MigInv s.ver { content := s.content, newVecs := [], newCents := newCentIds.map (fun c => (c, 0)) } :=
    ⟨List.Pairwise.nil, by simp, fun i k p hk => by have := hinv.vers i k p hk; omega⟩
  have h := MigInv_fold cfg s.ver mig s.vectors _ hd hmig h0 hinv.one (by simp)
  refine ⟨h.one, ?_, ?_⟩
  · intro x hx
    obtain ⟨hc, k, p, hk, hn, hkey⟩ := h.ref x hx
    refine ⟨hc, k, p, hk, ?_⟩
    have hv := (h.vers x.id k p hk).1
    have hver : (migrate cfg s mig newCentIds).ver = s.ver + 1 := rfl
    rw [hver]
    unfold activeKey
    rw [if_pos ⟨by omega, hn⟩]; exact hkey
  · intro i k p hk
    have := h.vers i k p hk
    simp only [migrate]; omega

/-! ## Query on the indexed store: hits are live items, scored by their live vector, each at most once -/

theorem mem_candidates (cfg : Cfg) (s : State) (targets : List Int) (score : Vec → Int) (hb : cfg.buffer = false)
    (x : Id × Int) :
    x ∈ candidates cfg s targets score ↔
      ∃ c ∈ targets, ∃ e ∈ s.vectors, e.cid = c ∧ e.del = false ∧ x = (e.id, score e.vec) := by
  simp only [candidates, hb, Bool.false_eq_true, if_false, List.mem_flatMap, List.mem_map, List.mem_filter,
    Bool.and_eq_true, decide_eq_true_eq, Bool.not_eq_true']
  constructor
  · rintro ⟨c, hc, e, ⟨he, h1, h2⟩, rfl⟩; exact ⟨c, hc, e, he, h1, h2, rfl⟩
  · rintro ⟨c, hc, e, he, h1, h2, rfl⟩; exact ⟨c, hc, e, ⟨he, h1, h2⟩, rfl⟩

theorem mem_unique_of_id {l : List VEnt} (h : l.Pairwise (fun a b => a.id ≠ b.id)) {x y : VEnt}
    (hx : x ∈ l) (hy : y ∈ l) (hid : x.id = y.id) : x = y := by
  induction l with
  | nil => cases hx
  | cons e r ih =>
    rw [List.pairwise_cons] at h
    rcases List.mem_cons.1 hx with hx1 | hx1
    · rcases List.mem_cons.1 hy with hy1 | hy1
      · rw [hx1, hy1]
      · exact absurd hid (hx1 ▸ h.1 y hy1)
    · rcases List.mem_cons.1 hy with hy1 | hy1
      · exact absurd hid.symm (hy1 ▸ h.1 x hx1)
      · exact ih h.2 hx1 hy1

/-- under the invariant the scanned candidates carry pairwise different ids -/
theorem candidates_nodup (cfg : Cfg) (s : State) (targets : List Int) (score : Vec → Int) (hb : cfg.buffer = false)
    (hinv : Inv s) (ht : targets.Nodup) : ((candidates cfg s targets score).map (·.1)).Nodup := by
  induction targets with
  | nil => simp [candidates, hb]
  | cons c r ih =>
    rw [List.nodup_cons] at ht
    have hsplit : candidates cfg s (c :: r) score =
        (s.vectors.filter (fun e => decide (e.cid = c) && !e.del)).map (fun e => (e.id, score e.vec)) ++
          candidates cfg s r score := by
      simp [candidates, hb]
    rw [hsplit, List.map_append, List.nodup_append]
    refine ⟨?_, ih ht.2, ?_⟩
    · rw [List.map_map]
      unfold List.Nodup
      rw [List.pairwise_map]
      exact (hinv.one.sublist List.filter_sublist).imp (fun {a b} h => h)
    · intro a ha b hb' hab
      subst hab
      obtain ⟨x, hx, rfl⟩ := List.mem_map.1 ha
      obtain ⟨y, hy, hyx⟩ := List.mem_map.1 hb'
      obtain ⟨e1, he1, rfl⟩ := List.mem_map.1 hx
      obtain ⟨he1m, he1c⟩ := List.mem_filter.1 he1
      obtain ⟨c', hc', e2, he2, h2c, -, rfl⟩ := (mem_candidates cfg s r score hb y).1 hy
      have : e1 = e2 := mem_unique_of_id hinv.one he1m he2 (by simpa using hyx.symm)
      subst this
      simp only [Bool.and_eq_true, decide_eq_true_eq] at he1c
      rw [he1c.1] at h2c; subst h2c
      exact ht.1 hc'

/-- **C33_query, hits ⊆ live** (indexed store, de-duplication on): every hit is a live item, returned with its
    latest payload and scored by its latest vector -/
theorem C33_query_live (cfg : Cfg) (s : State) (k : Int) (filter : Payload → Bool) (targets : List Int) (score : Vec → Int)
    (hb : cfg.buffer = false) (hinv : Inv s) (h : Hit) (hm : h ∈ query cfg s k filter targets score) :
    ∃ v, live cfg s h.id = some (v, h.payload) ∧ h.score = score v ∧ filter h.payload = true := by
  obtain ⟨ck, hck, hdel, hfil⟩ := C33_query_filter cfg s k filter targets score h hm
  obtain ⟨c, _, e, he, _, _, hkey⟩ := (mem_candidates cfg s targets score hb _).1 (query_mem_candidates cfg s k filter targets score h hm)
  simp only [Prod.mk.injEq] at hkey
  obtain ⟨h0, k2, p2, hk2, hact⟩ := hinv.ref e he
  rw [← hkey.1, hck] at hk2
  cases hk2
  refine ⟨e.vec, ?_, hkey.2, hfil⟩
  rw [C33_get, hck]
  simp only [hdel, hb, Bool.false_eq_true, if_false, hact, h0]
  rw [hkey.1, vfind_of_mem hinv.one he]; rfl

/-- **C33_query** assembled: at most k, distinct, live, passing the filter, in descending score order -/
theorem C33_query (cfg : Cfg) (s : State) (k : Int) (filter : Payload → Bool) (targets : List Int) (score : Vec → Int)
    (hb : cfg.buffer = false) (hinv : Inv s) (ht : targets.Nodup) :
    let hits := query cfg s k filter targets score
    (((hits.length : Int) ≤ k ∨ hits = []) ∧ (hits.map (·.id)).Nodup ∧
      hits.Pairwise (fun a b => b.score ≤ a.score) ∧
      ∀ h ∈ hits, ∃ v, live cfg s h.id = some (v, h.payload) ∧ h.score = score v ∧ filter h.payload = true) :=
  ⟨C33_query_le_k cfg s k filter targets score,
   C33_query_distinct cfg s k filter targets score (candidates_nodup cfg s targets score hb hinv ht),
   C33_query_sorted cfg s k filter targets score,
   fun h hm => C33_query_live cfg s k filter targets score hb hinv h hm⟩

/-! ## Any program of Upsert / UpsertBatch / Delete / Optimize (indexed store, de-duplication on, no count tracking) -/

inductive Op where
  | upsert (it : Item)
  | batch (items : List Item)
  | delete (i : Id)
  | optimize (cons : Id → Int × Int) (mig : Id → Vec → Int × Int) (cents : List Int)

/-- the numerics never answer centroid 0 -/
def OpOk : Op → Prop
  | .upsert it => it.cid ≠ 0
  | .batch items => ∀ it ∈ items, it.cid ≠ 0
  | .delete _ => True
  | .optimize _ mig _ => MigOk mig

/-- the model's top-level operations (commit wrapper included) -/
def step (cfg : Cfg) (s : State) : Op → State
  | .upsert it => (upsert cfg s it []).1
  | .batch items => (upsertBatch cfg s items []).1
  | .delete i => (delete cfg s i).1
  | .optimize cons mig cents => (optimize cfg s cons mig cents).1

abbrev Spec := Id → Option (Vec × Payload)

/-- the reference: a plain map -/
def specStep (m : Spec) : Op → Spec
  | .upsert it => fun j => if j = it.id then some (it.vec, it.payload) else m j
  | .batch items => items.foldl (fun m it => fun j => if j = it.id then some (it.vec, it.payload) else m j) m
  | .delete i => fun j => if j = i then none else m j
  | .optimize _ _ _ => m

structure Good (s : State) : Prop where
  inv : Inv s
  bad : s.bad = false

theorem upsertItem_good (cfg : Cfg) (s : State) (it : Item) (hb : cfg.buffer = false) (hd : cfg.dedup = true)
    (ht : cfg.tracking = false) (hc : it.cid ≠ 0) (hg : Good s) : Good (upsertItem cfg s it) := by
  refine ⟨?_, ?_⟩
  · simp only [upsertItem, hb, Bool.false_eq_true, if_false]
    exact Inv_upsertIndexed cfg s it hd hc hg.inv
  · simp [upsertItem, hb, upsertIndexed, ht, hg.bad]

theorem upsertItem_spec (cfg : Cfg) (s : State) (it : Item) (hb : cfg.buffer = false) (hd : cfg.dedup = true)
    (hc : it.cid ≠ 0) (hinv : Inv s) (m : Spec) (hm : ∀ j, live cfg s j = m j) (j : Id) :
    live cfg (upsertItem cfg s it) j = if j = it.id then some (it.vec, it.payload) else m j := by
  by_cases h : j = it.id
  · subst h; simp only [if_true]; exact C33_ops_upsert_self cfg s it hb hd hc hinv
  · simp only [h, if_false, ← hm]; exact C33_ops_upsert_other cfg s it j h

theorem foldItems_good_spec (cfg : Cfg) (items : List Item) (hb : cfg.buffer = false) (hd : cfg.dedup = true)
    (ht : cfg.tracking = false) (s : State) (m : Spec) (hc : ∀ it ∈ items, it.cid ≠ 0) (hg : Good s)
    (hm : ∀ j, live cfg s j = m j) :
    Good (items.foldl (upsertItem cfg) s) ∧
    ∀ j, live cfg (items.foldl (upsertItem cfg) s) j =
      (items.foldl (fun m it => fun j => if j = it.id then some (it.vec, it.payload) else m j) m) j := by
  induction items generalizing s m with
  | nil => exact ⟨hg, hm⟩
  | cons it r ih =>
    simp only [List.foldl_cons]
    apply ih
    · exact fun x hx => hc x (List.mem_cons_of_mem _ hx)
    · exact upsertItem_good cfg s it hb hd ht (hc it List.mem_cons_self) hg
    · exact upsertItem_spec cfg s it hb hd (hc it List.mem_cons_self) hg.inv m hm

theorem commit_good (cfg : Cfg) (old new : State) (ht : cfg.tracking = false) (hn : new.bad = false) :
    (commit cfg [] old new).1 = new := by
  simp [commit, hn, applyRw, ht]

/-- one operation: the invariant is kept and `live` moves exactly as the reference map does -/
theorem step_good_spec (cfg : Cfg) (hb : cfg.buffer = false) (hd : cfg.dedup = true) (ht : cfg.tracking = false)
    (s : State) (m : Spec) (o : Op) (ho : OpOk o) (hg : Good s) (hm : ∀ j, live cfg s j = m j) :
    Good (step cfg s o) ∧ ∀ j, live cfg (step cfg s o) j = specStep m o j := by
  cases o with
  | upsert it =>
    have hg' := upsertItem_good cfg s it hb hd ht ho hg
    simp only [step, upsert, specStep]
    rw [commit_good cfg s _ ht hg'.bad]
    exact ⟨hg', upsertItem_spec cfg s it hb hd ho hg.inv m hm⟩
  | batch items =>
    simp only [step, upsertBatch, specStep]
    -- seeding centroids touches neither Content nor Vectors
    generalize hs1 : (if (!cfg.buffer && s.cents.isEmpty && items.any (fun it => decide (it.ecid = 0)) && !items.isEmpty) = true
        then { s with cents := seedCentroids items.length } else s) = s1
    have hg1 : Good s1 := by
      subst hs1; split
      · exact ⟨⟨hg.inv.one, hg.inv.ref, hg.inv.vers⟩, hg.bad⟩
      · exact hg
    have hm1 : ∀ j, live cfg s1 j = m j := by
      intro j; rw [← hm j]; subst hs1; split
      · have := get_congr cfg s { s with cents := seedCentroids items.length } j rfl rfl (fun _ _ => rfl) rfl
        simp only [live, this]
      · rfl
    have h := foldItems_good_spec cfg items hb hd ht s1 m ho hg1 hm1
    rw [commit_good cfg s _ ht h.1.bad]
    exact h
  | delete i =>
    simp only [step, specStep]
    refine ⟨⟨Inv_delete cfg s i hg.inv, ?_⟩, fun j => ?_⟩
    · have : (delete cfg s i).1.bad = s.bad := by
        unfold delete
        cases hc : afind s.content i with
        | none => rfl
        | some kp =>
          obtain ⟨k, p⟩ := kp
          simp only
          by_cases hb' : cfg.buffer = true
          · simp [hb']
          · by_cases h0 : (delKey s.ver k).cid = 0 <;> simp [hb', h0]
      rw [this]; exact hg.bad
    · rw [C33_ops_delete]; split
      · rfl
      · exact hm j
  | optimize cons mig cents =>
    have : (optimize cfg s cons mig cents).1 = migrate cfg s mig cents := by
      simp [optimize, consolidate, hb]
    simp only [step, specStep, this]
    exact ⟨⟨Inv_migrate cfg s mig cents hd ho hg.inv, rfl⟩, fun j => (C33_optimize cfg s mig cents hb hd hg.inv ho j).trans (hm j)⟩

/-- **C33 (item set)**: on the indexed store with de-duplication on and no count tracking, after *any* program of
    Upsert / UpsertBatch / Delete / Optimize — for any numerics (any centroid ≠ 0 and distance chosen for an upsert, any
    k-means outcome, any assignment at migration) — `Get` of every id answers exactly what a plain map would: its
    latest vector and payload if it is live, nothing if it was deleted or never stored; and the invariant that makes
    query hits distinct and live (`C33_query`) holds. -/
theorem C33_partial (cfg : Cfg) (hb : cfg.buffer = false) (hd : cfg.dedup = true) (ht : cfg.tracking = false)
    (ops : List Op) (hok : ∀ o ∈ ops, OpOk o) :
    Good (ops.foldl (step cfg) {}) ∧ ∀ j, live cfg (ops.foldl (step cfg) {}) j = ops.foldl specStep (fun _ => none) j := by
  have key : ∀ (ops : List Op) (s : State) (m : Spec), (∀ o ∈ ops, OpOk o) → Good s → (∀ j, live cfg s j = m j) →
      Good (ops.foldl (step cfg) s) ∧ ∀ j, live cfg (ops.foldl (step cfg) s) j = ops.foldl specStep m j := by
    intro ops
    induction ops with
    | nil => intro s m _ hg hm; exact ⟨hg, hm⟩
    | cons o r ih =>
      intro s m hok hg hm
      simp only [List.foldl_cons]
      have h1 := step_good_spec cfg hb hd ht s m o (hok o List.mem_cons_self) hg hm
      exact ih _ _ (fun x hx => hok x (List.mem_cons_of_mem _ hx)) h1.1 h1.2
  exact key ops {} _ hok ⟨Inv_empty, rfl⟩ (fun j => by simp [live, Sop.Vector.get, afind])

/-! ## The buffered stage (before the first Optimize) also behaves like the plain map -/

def NoOptimize : Op → Prop
  | .optimize _ _ _ => False
  | _ => True

theorem upsertItem_buffered_spec (cfg : Cfg) (s : State) (it : Item) (hb : cfg.buffer = true)
    (m : Spec) (hm : ∀ j, live cfg s j = m j) (j : Id) :
    live cfg (upsertItem cfg s it) j = if j = it.id then some (it.vec, it.payload) else m j := by
  by_cases h : j = it.id
  · subst h; simp only [if_true]; exact C33_ops_upsert_buffered cfg s it hb
  · simp only [h, if_false, ← hm]; exact C33_ops_upsert_other cfg s it j h

theorem foldItems_buffered_spec (cfg : Cfg) (items : List Item) (hb : cfg.buffer = true) (s : State) (m : Spec)
    (hbad : s.bad = false) (hm : ∀ j, live cfg s j = m j) :
    (items.foldl (upsertItem cfg) s).bad = false ∧
    ∀ j, live cfg (items.foldl (upsertItem cfg) s) j =
      (items.foldl (fun m it => fun j => if j = it.id then some (it.vec, it.payload) else m j) m) j := by
  induction items generalizing s m with
  | nil => exact ⟨hbad, hm⟩
  | cons it r ih =>
    simp only [List.foldl_cons]
    apply ih
    · simp [upsertItem, hb, upsertBuffered, hbad]
    · exact upsertItem_buffered_spec cfg s it hb m hm

/-- **C33 (buffered stage)**: with the ingestion buffer on (no count tracking), any program of Upsert / UpsertBatch /
    Delete answers `Get` exactly as the plain map does. What breaks is the step out of this stage: `C33_counterexample`. -/
theorem C33_buffer_stage (cfg : Cfg) (hb : cfg.buffer = true) (ht : cfg.tracking = false)
    (ops : List Op) (hno : ∀ o ∈ ops, NoOptimize o) :
    ∀ j, live cfg (ops.foldl (step cfg) {}) j = ops.foldl specStep (fun _ => none) j := by
  have key : ∀ (ops : List Op) (s : State) (m : Spec), (∀ o ∈ ops, NoOptimize o) → s.bad = false → (∀ j, live cfg s j = m j) →
      ∀ j, live cfg (ops.foldl (step cfg) s) j = ops.foldl specStep m j := by
    intro ops
    induction ops with
    | nil => intro s m _ _ hm; exact hm
    | cons o r ih =>
      intro s m hno hbad hm
      simp only [List.foldl_cons]
      have hr : ∀ x ∈ r, NoOptimize x := fun x hx => hno x (List.mem_cons_of_mem _ hx)
      cases o with
      | upsert it =>
        have hb1 : (upsertItem cfg s it).bad = false := by simp [upsertItem, hb, upsertBuffered, hbad]
        have hs : step cfg s (.upsert it) = upsertItem cfg s it := by
          simp only [step, upsert]; exact commit_good cfg s _ ht hb1
        rw [hs]
        exact ih _ _ hr hb1 (upsertItem_buffered_spec cfg s it hb m hm)
      | batch items =>
        have hs1 : (if (!cfg.buffer && s.cents.isEmpty && items.any (fun it => decide (it.ecid = 0)) && !items.isEmpty) = true
            then { s with cents := seedCentroids items.length } else s) = s := by simp [hb]
        have h := foldItems_buffered_spec cfg items hb s m hbad hm
        have hs : step cfg s (.batch items) = items.foldl (upsertItem cfg) s := by
          simp only [step, upsertBatch, hs1]; exact commit_good cfg s _ ht h.1
        rw [hs]
        exact ih _ _ hr h.1 h.2
      | delete i =>
        have hbad' : (delete cfg s i).1.bad = false := by
          unfold delete
          cases hc : afind s.content i with
          | none => exact hbad
          | some kp => obtain ⟨k, p⟩ := kp; simp [hb, hbad]
        apply ih _ _ hr hbad'
        intro j
        simp only [specStep]
        rw [C33_ops_delete]; split
        · rfl
        · exact hm j
      | optimize c g l => exact absurd (hno _ List.mem_cons_self) (by simp [NoOptimize])
  exact key ops {} _ hno rfl (fun j => by simp [live, Sop.Vector.get, afind])

/-! ## Where the full-strength statement fails on the code as it is (witnesses replayed by the harness corpus) -/

/-- the full-strength statement about `Optimize`: in *every* configuration a successful Optimize changes no answer of
    `Get` (the ingestion buffer, when it was in use, is dropped afterwards as the usage rule says) -/
def Statement_C33_optimize : Prop :=
  ∀ (cfg : Cfg) (s : State) (cons : Id → Int × Int) (mig : Id → Vec → Int × Int) (cents : List Int) (j : Id),
    Good s → MigOk mig → (optimize cfg s cons mig cents).2 = "ok" →
      live { cfg with buffer := false } (optimize cfg s cons mig cents).1 j = live cfg s j

def cfgBuf : Cfg := ⟨true, true, false⟩
def cfgIdx : Cfg := ⟨false, true, false⟩
def cfgTrk : Cfg := ⟨false, true, true⟩
def cfgOff : Cfg := ⟨false, false, false⟩

/-- buffered: `up 0; up 1; del 1` -/
def sBuf : State :=
  (delete cfgBuf (upsert cfgBuf (upsert cfgBuf {} ⟨0, 1, 1, 0, 0, 0⟩ []).1 ⟨1, 2, 2, 0, 0, 0⟩ []).1 1).1

/-- **C33_counterexample** (finding C33-F1): a buffered id deleted before the first Optimize is live again after it,
    with an empty vector — `Consolidate` re-upserts every buffered id Content still knows, tombstoned or not. -/
theorem C33_counterexample : ¬ Statement_C33_optimize := by
  intro h
  have hgood : Good sBuf := by
    have hv : sBuf.vectors = [] := by decide
    refine ⟨⟨(by rw [hv]; exact List.Pairwise.nil), (by intro e he; rw [hv] at he; cases he), ?_⟩, (by decide)⟩
    intro i k p hk
    have hs : sBuf.content = [(0, ({} : CKey), 1), (1, ({ del := true } : CKey), 2)] := by decide
    rw [hs] at hk
    simp only [afind] at hk
    split at hk
    · cases hk; decide
    · split at hk
      · cases hk; decide
      · cases hk
  have h1 := h cfgBuf sBuf (fun _ => (1, 7)) (fun _ _ => (-1, 2139095039)) [] 1 hgood (by intro i v; simp) (by decide)
  revert h1
  decide

/-- (finding C33-F2) the same with the *first* buffered id deleted: `Consolidate` seeds centroid 1 with that id's
    empty vector and the distance routine indexes past its end — Optimize panics -/
theorem C33_witness_buffer_first_deleted_panics :
    (optimize cfgBuf (delete cfgBuf (upsert cfgBuf (upsert cfgBuf {} ⟨0, 1, 1, 0, 0, 0⟩ []).1 ⟨1, 2, 2, 0, 0, 0⟩ []).1 0).1
      (fun _ => (1, 0)) (fun _ _ => (-1, 2139095039)) []).2 = "panic index" := by decide

/-- count tracking: `up 0; del 0; up 0; del 0; up 0` leaves centroid 1 with count -1 and one live vector -/
def sTrk : State :=
  let u := fun (s : State) (p : Int) => (upsert cfgTrk s ⟨0, 1, p, 0, 1, 0⟩ []).1
  let d := fun (s : State) => (delete cfgTrk s 0).1
  u (d (u (d (u {} 1)) 2)) 3

/-- (finding C33-F5) the next new id divides by zero in the rolling average: its commit is rejected, it is not stored -/
theorem C33_witness_tracking_rejects_upsert :
    afind sTrk.cents 1 = some (-1) ∧ (upsert cfgTrk sTrk ⟨1, 2, 4, 0, 1, 5⟩ []).2 = "err:commit" ∧
    live cfgTrk (upsert cfgTrk sTrk ⟨1, 2, 4, 0, 1, 5⟩ []).1 1 = none := by decide

/-- count tracking: `up 0 v6; up 1 v6; del 1; del 1` — the second Delete of the tombstoned id decrements again:
    centroid 1 has count 0 with id 0 live (its vector is the slice the centroid was seeded with) -/
def sTrk0 : State :=
  (delete cfgTrk (delete cfgTrk (upsert cfgTrk (upsert cfgTrk {} ⟨0, 6, 1, 0, 1, 0⟩ []).1 ⟨1, 6, 2, 0, 1, 0⟩ []).1 1).1 1).1

/-- (finding C33-F4, the variant seen with seed 2) the next new id's rolling average `(c*0+v)/1` is exactly its own
    vector `v8`; it is written through the shared slice (`rw = [(0, 8)]`, what the harness observed on the real store):
    the commit succeeds and `Get` of id 0 — never touched by the op — returns `v8` instead of its latest vector `v6`.
    Replayed on the implementation by the directed case `tracking-overwrite-exact`. -/
theorem C33_witness_tracking_overwrite_exact :
    afind sTrk0.cents 1 = some 0 ∧ live cfgTrk sTrk0 0 = some (6, 1) ∧
    (upsert cfgTrk sTrk0 ⟨2, 8, 3, 0, 1, 1083746799⟩ [(0, 8)]).2 = "ok" ∧
    live cfgTrk (upsert cfgTrk sTrk0 ⟨2, 8, 3, 0, 1, 1083746799⟩ [(0, 8)]).1 0 = some (8, 1) ∧
    live cfgTrk (upsert cfgTrk sTrk0 ⟨2, 8, 3, 0, 1, 1083746799⟩ [(0, 8)]).1 2 = some (8, 3) := by decide

/-- de-duplication off and an id upserted twice (outside the documented rule "only if you are certain IDs are
    unique"): the old `(centroid, distance, id)` item stays and the id is hit twice -/
theorem C33_witness_dedup_off_duplicate_hit :
    (query cfgOff (upsert cfgOff (upsert cfgOff {} ⟨0, 1, 1, 0, 1, 0⟩ []).1 ⟨0, 3, 2, 0, 1, 5⟩ []).1 10 (fun _ => true) [1]
      (fun v => v)).map (·.id) = [0, 0] := by decide

/-- the full-strength item-set statement: *every* configuration behaves like the plain map -/
def Statement_C33 : Prop :=
  ∀ (cfg : Cfg) (ops : List Op), (∀ o ∈ ops, OpOk o) →
    ∀ j, live cfg (ops.foldl (step cfg) {}) j = ops.foldl specStep (fun _ => none) j

/-- `Statement_C33` fails with count tracking (the rejected Upsert above) -/
theorem C33_counterexample_tracking : ¬ Statement_C33 := by
  intro h
  have h1 := h cfgTrk
    [.upsert ⟨0, 1, 1, 0, 1, 0⟩, .delete 0, .upsert ⟨0, 1, 2, 0, 1, 0⟩, .delete 0, .upsert ⟨0, 1, 3, 0, 1, 0⟩,
     .upsert ⟨1, 2, 4, 0, 1, 5⟩]
    (by intro o ho; simp only [List.mem_cons, List.mem_nil_iff, or_false] at ho
        rcases ho with rfl | rfl | rfl | rfl | rfl | rfl <;> simp [OpOk, Item.cid]) 1
  revert h1
  decide

/-! ## the hypotheses of the partial theorems are satisfiable by non-trivial states -/

/-- a program with a live item, a tombstoned item, a migration and an explicit centroid (what `C33_partial` quantifies over) -/
def sampleOps : List Op :=
  [.upsert ⟨0, 1, 1, 0, 1, 0⟩, .batch [⟨1, 2, 2, 0, 1, 5⟩, ⟨2, 3, 3, 0, 1, 9⟩], .delete 1,
   .optimize (fun _ => (0, 0)) (fun i _ => (1, (i : Int) + 3)) [1], .upsert ⟨1, 4, 4, 2, 0, 6⟩]

theorem sampleOps_ok : ∀ o ∈ sampleOps, OpOk o := by
  intro o ho
  simp only [sampleOps, List.mem_cons, List.mem_nil_iff, or_false] at ho
  rcases ho with rfl | rfl | rfl | rfl | rfl <;> simp [OpOk, Item.cid, MigOk]

example : (List.range 3).map (live cfgIdx (sampleOps.foldl (step cfgIdx) {})) = [some (1, 1), some (4, 4), some (3, 3)] := by
  decide

example : Inv (sampleOps.foldl (step cfgIdx) {}) := (C33_partial cfgIdx rfl rfl rfl sampleOps sampleOps_ok).1.inv

/-- and the query theorem is not vacuous on it: two hits, distinct, in descending order -/
example : (query cfgIdx (sampleOps.foldl (step cfgIdx) {}) 2 (fun _ => true) [1, 2] (fun v => v)).map (fun h => (h.id, h.score))
    = [(1, 4), (2, 3)] := by decide

end Sop.C33
