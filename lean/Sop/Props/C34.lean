import Sop.Model.Rbac
/-! # C34 — access-control decisions respect system, ownership and grant rules

Every theorem quantifies over **all** callers (any user id, any list of roles, either system flag),
all resource names, all ACLs (any visibility string, owner, grant maps of any size) and all action
strings. The constants are those of `Sop.FactsRbac`, regenerated from the source on every run. -/
namespace Sop.C34
open Sop Sop.Rbac

/-! ## the constants are usable: what the proofs below and the rule need of them -/

/-- The regenerated constants are pairwise distinct where the rule needs it: the five actions, the
three visibilities (none of them empty), a non-empty admin role, a wildcard that is not an action, and
at least one core resource name. (If a constant changes so that two of them collide, this fails.) -/
theorem facts_sane :
    [FactsRbac.actionRead, FactsRbac.actionWrite, FactsRbac.actionDelete, FactsRbac.actionList, FactsRbac.actionAISelect].Nodup ∧
    [FactsRbac.visPublic, FactsRbac.visPrivate, FactsRbac.visSystem, ""].Nodup ∧
    [FactsRbac.roleAdmin, FactsRbac.roleUser, FactsRbac.roleGuest, ""].Nodup ∧
    FactsRbac.wildcard ∉ [FactsRbac.actionRead, FactsRbac.actionWrite, FactsRbac.actionDelete, FactsRbac.actionList, FactsRbac.actionAISelect] ∧
    FactsRbac.coreNames ≠ [] := by decide

/-! ## local vocabulary -/

/-- the caller holds a role that the ACL grants `action` (or the wildcard) -/
def RoleGrant (c : Caller) (acc : Access) (action : String) : Prop :=
  ∃ r ∈ c.roles, ∃ acts, acc.roles.lookup r = some acts ∧ (action ∈ acts ∨ FactsRbac.wildcard ∈ acts)

/-- the ACL grants `action` (or the wildcard) to the caller's user id -/
def UserGrant (c : Caller) (acc : Access) (action : String) : Prop :=
  ∃ acts, acc.users.lookup c.userId = some acts ∧ (action ∈ acts ∨ FactsRbac.wildcard ∈ acts)

theorem grants_iff (acts : List String) (action : String) :
    grants acts action = true ↔ (action ∈ acts ∨ FactsRbac.wildcard ∈ acts) := by
  unfold grants
  simp only [List.any_eq_true, Bool.or_eq_true, beq_iff_eq]
  constructor
  · rintro ⟨a, ha, rfl | rfl⟩
    · exact Or.inl ha
    · exact Or.inr ha
  · rintro (h | h)
    · exact ⟨action, h, Or.inl rfl⟩
    · exact ⟨_, h, Or.inr rfl⟩

theorem roleLoop_iff (c : Caller) (acc : Access) (action : String) :
    (c.roles.any (fun r => lookupGrants acc.roles r action)) = true ↔ RoleGrant c acc action := by
  simp only [List.any_eq_true, RoleGrant, lookupGrants]
  constructor
  · rintro ⟨r, hr, h⟩
    cases hl : acc.roles.lookup r with
    | none => simp [hl] at h
    | some acts =>
      simp only [hl] at h
      exact ⟨r, hr, acts, hl, (grants_iff _ _).1 h⟩
  · rintro ⟨r, hr, acts, hl, h⟩
    exact ⟨r, hr, by simp only [hl]; exact (grants_iff _ _).2 h⟩

theorem userLookup_iff (c : Caller) (acc : Access) (action : String) :
    lookupGrants acc.users c.userId action = true ↔ UserGrant c acc action := by
  unfold UserGrant lookupGrants
  cases hl : acc.users.lookup c.userId with
  | none => simp
  | some acts => simp [grants_iff]

/-- `Authorize` is one early-return chain; as a Boolean expression -/
theorem authorize_eq (c : Caller) (acc : Access) (action : String) :
    authorize c acc action =
      if acc.vis == FactsRbac.visSystem then c.isSystem
      else ((c.roles.any fun r => r == FactsRbac.roleAdmin)
        || (acc.owner != "" && c.userId == acc.owner)
        || ((acc.vis == FactsRbac.visPublic || acc.vis == "") && (action == FactsRbac.actionRead || action == FactsRbac.actionList))
        || (c.roles.any fun r => lookupGrants acc.roles r action)
        || lookupGrants acc.users c.userId action) := by
  unfold authorize
  split
  · rfl
  · split
    · next hA => rw [hA]; simp only [Bool.true_or]
    · next hA =>
      rw [Bool.eq_false_iff.2 hA]; simp only [Bool.false_or]
      split
      · next hO => rw [hO]; simp only [Bool.true_or]
      · next hO =>
        rw [Bool.eq_false_iff.2 hO]; simp only [Bool.false_or]
        split
        · next hP => rw [hP]; simp only [Bool.true_or]
        · next hP =>
          rw [Bool.eq_false_iff.2 hP]; simp only [Bool.false_or]
          split
          · next hR => rw [hR]; simp only [Bool.true_or]
          · next hR => rw [Bool.eq_false_iff.2 hR]; simp only [Bool.false_or]

/-! ## the statements -/

/-- **System-visibility resources are accessible only to system callers** — and to every system
caller: the decision is the system flag, whatever the roles (Admin included), owner, grants, action. -/
theorem C34_system (c : Caller) (acc : Access) (action : String) (h : acc.vis = FactsRbac.visSystem) :
    authorize c acc action = c.isSystem := by
  unfold authorize
  simp [h]

/-- **Otherwise an action is allowed only to admins, the owner, holders of a role or user grant for it,
or (read and list only) anyone on a public resource** — and to all of those. This is the exact
decision formula of `Authorize` off the system visibility. -/
theorem C34_iff (c : Caller) (acc : Access) (action : String) (h : acc.vis ≠ FactsRbac.visSystem) :
    authorize c acc action = true ↔
      (FactsRbac.roleAdmin ∈ c.roles
       ∨ (acc.owner ≠ "" ∧ c.userId = acc.owner)
       ∨ ((acc.vis = FactsRbac.visPublic ∨ acc.vis = "") ∧ (action = FactsRbac.actionRead ∨ action = FactsRbac.actionList))
       ∨ RoleGrant c acc action
       ∨ UserGrant c acc action) := by
  rw [authorize_eq]
  have hv : (acc.vis == FactsRbac.visSystem) = false := by simpa using h
  simp only [hv, Bool.false_eq_true, if_false, Bool.or_eq_true, roleLoop_iff, userLookup_iff]
  have e1 : (c.roles.any fun r => r == FactsRbac.roleAdmin) = true ↔ FactsRbac.roleAdmin ∈ c.roles := by
    simp only [List.any_eq_true, beq_iff_eq]
    exact ⟨fun ⟨r, hr, e⟩ => e ▸ hr, fun hm => ⟨_, hm, rfl⟩⟩
  have e2 : (acc.owner != "" && c.userId == acc.owner) = true ↔ (acc.owner ≠ "" ∧ c.userId = acc.owner) := by simp
  have e3 : ((acc.vis == FactsRbac.visPublic || acc.vis == "") && (action == FactsRbac.actionRead || action == FactsRbac.actionList)) = true ↔
      ((acc.vis = FactsRbac.visPublic ∨ acc.vis = "") ∧ (action = FactsRbac.actionRead ∨ action = FactsRbac.actionList)) := by simp
  rw [e1, e2, e3]
  simp only [or_assoc]

/-- the same rule as a refusal: off the system visibility, a caller that is not an admin, is not the
owner and holds no grant is denied everything except read/list on a public (or unlabelled) resource -/
theorem C34_default_deny (c : Caller) (acc : Access) (action : String) (h : acc.vis ≠ FactsRbac.visSystem)
    (hadmin : FactsRbac.roleAdmin ∉ c.roles) (hown : ¬ (acc.owner ≠ "" ∧ c.userId = acc.owner))
    (hr : ¬ RoleGrant c acc action) (hu : ¬ UserGrant c acc action)
    (hpub : ¬ ((acc.vis = FactsRbac.visPublic ∨ acc.vis = "") ∧ (action = FactsRbac.actionRead ∨ action = FactsRbac.actionList))) :
    authorize c acc action = false := by
  cases hb : authorize c acc action with
  | false => rfl
  | true =>
    rcases (C34_iff c acc action h).1 hb with h1 | h1 | h1 | h1 | h1
    · exact absurd h1 hadmin
    · exact absurd h1 hown
    · exact absurd h1 hpub
    · exact absurd h1 hr
    · exact absurd h1 hu

/-- **Core system resources can never be written or deleted, by anyone**: for a core name and the write
or delete action `CheckPolicy` answers `ErrSystemReadOnly` for every caller (system, admin, owner…) and
every ACL. -/
theorem C34_core_readonly (name : String) (c : Caller) (acc : Access) (action : String)
    (hcore : name ∈ FactsRbac.coreNames) (hact : action = FactsRbac.actionWrite ∨ action = FactsRbac.actionDelete) :
    checkPolicy name c acc action = .systemReadOnly ∧ canPerform name c acc action = false := by
  have h1 : isCore name = true := by simpa [isCore] using hcore
  have h2 : (action == FactsRbac.actionWrite || action == FactsRbac.actionDelete) = true := by simpa using hact
  have : checkPolicy name c acc action = .systemReadOnly := by simp [checkPolicy, h1, h2]
  exact ⟨this, by simp [canPerform, this]⟩

/-- the enforcement decision, exactly: allowed iff not (core name and write/delete) and `Authorize` allows -/
theorem C34_policy_iff (name : String) (c : Caller) (acc : Access) (action : String) :
    checkPolicy name c acc action = .ok ↔
      (¬ (name ∈ FactsRbac.coreNames ∧ (action = FactsRbac.actionWrite ∨ action = FactsRbac.actionDelete))
        ∧ authorize c acc action = true) := by
  unfold checkPolicy
  by_cases h1 : (isCore name && (action == FactsRbac.actionWrite || action == FactsRbac.actionDelete)) = true
  · have : name ∈ FactsRbac.coreNames ∧ (action = FactsRbac.actionWrite ∨ action = FactsRbac.actionDelete) := by
      simpa [isCore] using h1
    simp [h1, this]
  · have hn : ¬ (name ∈ FactsRbac.coreNames ∧ (action = FactsRbac.actionWrite ∨ action = FactsRbac.actionDelete)) := by
      intro hh; exact h1 (by simpa [isCore] using hh)
    simp only [h1, hn, not_false_eq_true, true_and]
    cases authorize c acc action <;> simp

/-- on a system-visibility resource enforcement allows exactly the system callers (minus the core rule) -/
theorem C34_policy_system (name : String) (c : Caller) (acc : Access) (action : String) (h : acc.vis = FactsRbac.visSystem) :
    checkPolicy name c acc action = .ok ↔
      (¬ (name ∈ FactsRbac.coreNames ∧ (action = FactsRbac.actionWrite ∨ action = FactsRbac.actionDelete)) ∧ c.isSystem = true) := by
  rw [C34_policy_iff, C34_system c acc action h]

/-! ## the UI capability map -/

/-- the fold of `ResolveRBACMap` started from any map -/
def fill (f : String → Bool) (acts : List String) (m : List (String × Bool)) : List (String × Bool) :=
  acts.foldl (fun m a => (cap a, f a) :: m) m

theorem resolveMap_eq (bp : Blueprint) (c : Caller) (name : String) (acc : Option Access) :
    resolveMap (some bp) c name acc =
      fill (fun a => match bp.evaluator with
                     | some ev => ev a
                     | none => canPerform name c (acc.getD Access.zero) a) bp.actions [] := rfl

/-- the value under a key is the verdict of the **last** action of the list that maps to that key
(Go map assignment: the later write wins); keys of no action keep their earlier value -/
theorem fill_lookup (f : String → Bool) (acts : List String) (m : List (String × Bool)) (k : String) :
    (fill f acts m).lookup k =
      match (acts.reverse.find? fun a => cap a == k) with
      | some a => some (f a)
      | none => m.lookup k := by
  induction acts generalizing m with
  | nil => simp [fill]
  | cons a acts ih =>
    have : fill f (a :: acts) m = fill f acts ((cap a, f a) :: m) := rfl
    rw [this, ih]
    simp only [List.reverse_cons, List.find?_append]
    cases hfind : acts.reverse.find? (fun a => cap a == k) with
    | some b => simp
    | none =>
      by_cases hk : cap a = k
      · subst hk; simp [List.lookup]
      · have hk' : (k == cap a) = false := by rw [beq_eq_false_iff_ne]; exact fun e => hk e.symm
        have hk'' : (cap a == k) = false := by rw [beq_eq_false_iff_ne]; exact hk
        simp [List.lookup, hk', hk'']

/-- **The UI capability map always agrees with the enforcement decision.** For a registered blueprint
without a custom evaluator and any action `a` of it whose capability no *other* action of the blueprint
shares, the map's entry for `a`'s capability is exactly `CheckPolicy(a) == nil` — in particular `false`
for write/delete on a core resource. -/
theorem C34_ui_agrees (bp : Blueprint) (c : Caller) (name : String) (acc : Option Access) (a : String)
    (hev : bp.evaluator = none) (ha : a ∈ bp.actions) (hinj : ∀ b ∈ bp.actions, cap b = cap a → b = a) :
    (resolveMap (some bp) c name acc).lookup (cap a)
      = some (decide (checkPolicy name c (acc.getD Access.zero) a = .ok)) := by
  rw [resolveMap_eq, fill_lookup]
  cases hfind : bp.actions.reverse.find? (fun b => cap b == cap a) with
  | none =>
    have := List.find?_eq_none.1 hfind a (by simpa using ha)
    simp at this
  | some b =>
    have hb := List.find?_some hfind
    have hmem : b ∈ bp.actions := by simpa using List.mem_of_find?_eq_some hfind
    have : b = a := hinj b hmem (by simpa using hb)
    subst this
    simp only [hev, canPerform]
    cases checkPolicy name c (acc.getD Access.zero) b <;> rfl

/-- without the distinctness hypothesis: the entry is the enforcement decision of the last action of the
blueprint that maps to the capability -/
theorem C34_ui_agrees_last (bp : Blueprint) (c : Caller) (name : String) (acc : Option Access) (k : String)
    (hev : bp.evaluator = none) :
    (resolveMap (some bp) c name acc).lookup k =
      (bp.actions.reverse.find? fun b => cap b == k).map
        (fun b => decide (checkPolicy name c (acc.getD Access.zero) b = .ok)) := by
  rw [resolveMap_eq, fill_lookup]
  cases bp.actions.reverse.find? (fun b => cap b == k) with
  | none => simp
  | some b =>
    simp only [hev, canPerform, Option.map_some]
    cases checkPolicy name c (acc.getD Access.zero) b <;> rfl

/-- an unregistered asset type yields the empty map: every capability reads as `false` in Go -/
theorem C34_ui_unregistered (c : Caller) (name : String) (acc : Option Access) :
    resolveMap none c name acc = [] := rfl

/-- the distinctness hypothesis of `C34_ui_agrees` holds for every blueprint made of the five declared
actions (in any order, with repeats): their capabilities are pairwise distinct -/
theorem cap_injective_on_declared (a b : String)
    (ha : a ∈ [FactsRbac.actionRead, FactsRbac.actionWrite, FactsRbac.actionDelete, FactsRbac.actionList, FactsRbac.actionAISelect])
    (hb : b ∈ [FactsRbac.actionRead, FactsRbac.actionWrite, FactsRbac.actionDelete, FactsRbac.actionList, FactsRbac.actionAISelect])
    (h : cap b = cap a) : b = a := by
  simp only [List.mem_cons, List.not_mem_nil, or_false] at ha hb
  rcases ha with rfl | rfl | rfl | rfl | rfl <;> rcases hb with rfl | rfl | rfl | rfl | rfl <;>
    first | rfl | (exfalso; revert h; decide)

/-- so: for blueprints over the declared actions the UI map agrees with enforcement, unconditionally -/
theorem C34_ui_agrees_declared (bp : Blueprint) (c : Caller) (name : String) (acc : Option Access) (a : String)
    (hev : bp.evaluator = none) (ha : a ∈ bp.actions)
    (hdecl : ∀ b ∈ bp.actions, b ∈ [FactsRbac.actionRead, FactsRbac.actionWrite, FactsRbac.actionDelete, FactsRbac.actionList, FactsRbac.actionAISelect]) :
    (resolveMap (some bp) c name acc).lookup (cap a)
      = some (decide (checkPolicy name c (acc.getD Access.zero) a = .ok)) :=
  C34_ui_agrees bp c name acc a hev ha (fun b hb h => cap_injective_on_declared a b (hdecl a ha) (hdecl b hb) h)

/-! ## non-vacuity -/

def alice : Caller := ⟨"a", [FactsRbac.roleUser], false⟩
def doc : Access := ⟨FactsRbac.visPrivate, "b", [(FactsRbac.roleUser, [FactsRbac.actionWrite])], [("a", [FactsRbac.wildcard])]⟩

example : doc.vis ≠ FactsRbac.visSystem := by decide
example : authorize alice doc FactsRbac.actionWrite = true := by decide
example : RoleGrant alice doc FactsRbac.actionWrite := ⟨FactsRbac.roleUser, by decide, [FactsRbac.actionWrite], by decide, Or.inl (by decide)⟩
example : authorize ⟨"c", [FactsRbac.roleGuest], true⟩ doc FactsRbac.actionDelete = false := by decide
/-- the hypotheses of `C34_default_deny` are jointly satisfiable -/
example : FactsRbac.roleAdmin ∉ (⟨"c", [FactsRbac.roleGuest], true⟩ : Caller).roles ∧
    ¬ (doc.owner ≠ "" ∧ "c" = doc.owner) ∧ doc.users.lookup "c" = none ∧ doc.roles.lookup FactsRbac.roleGuest = none := by decide
example : ∃ n, n ∈ FactsRbac.coreNames := ⟨FactsRbac.coreNames.head (by decide), List.head_mem _⟩
example : checkPolicy (FactsRbac.coreNames.head (by decide)) ⟨"root", [FactsRbac.roleAdmin], true⟩ Access.zero FactsRbac.actionWrite = .systemReadOnly := by decide
example : checkPolicy (FactsRbac.coreNames.head (by decide)) ⟨"root", [FactsRbac.roleAdmin], true⟩ Access.zero FactsRbac.actionRead = .ok := by decide
example : (resolveMap (some ⟨[FactsRbac.actionRead, FactsRbac.actionWrite], none⟩) alice "inventory" (some doc)).lookup FactsRbac.capEdit = some true := by decide

end Sop.C34
