import Sop.Model.Auth
/-! # C35 — session tokens cannot be forged, outlive expiry, or survive logout

Theorems are about `Sop.Auth` with `fixed = true` (the tree after
`proposed_fixes/C35-refresh-expiry-and-refresh-token-validation.diff`) for an arbitrary `mac`.
The revocation / rotation / current-secret conjuncts of the full statement are *false* for the code
(signed fast path, store fallback): see `Statement_C35` and the three counterexamples. -/
namespace Sop.C35
open Sop.Auth
set_option linter.unusedSectionVars false

section
variable {Tag : Type} [DecidableEq Tag]

/-! ## the session table -/

theorem tlookup_mem {tb : List (Token Tag × Record Tag)} {k : Token Tag} {r : Record Tag}
    (h : tlookup tb k = some r) : (k, r) ∈ tb := by
  induction tb with
  | nil => simp [tlookup] at h
  | cons e rest ih =>
    unfold tlookup at h
    by_cases he : e.1 = k
    · simp only [he, ↓reduceIte, Option.some.injEq] at h
      have : e = (k, r) := by rw [← he, ← h]
      rw [this]; exact List.mem_cons_self
    · simp only [he, ↓reduceIte] at h
      exact List.mem_cons_of_mem _ (ih h)

theorem tlookup_tremove_self (tb : List (Token Tag × Record Tag)) (k : Token Tag) :
    tlookup (tremove tb k) k = none := by
  induction tb with
  | nil => rfl
  | cons e rest ih =>
    unfold tremove
    by_cases he : e.1 = k
    · simp only [he, ↓reduceIte]; exact ih
    · simp only [he, ↓reduceIte]; unfold tlookup; simp only [he, ↓reduceIte]; exact ih

theorem tlookup_tremove_ne (tb : List (Token Tag × Record Tag)) {k k' : Token Tag} (h : k' ≠ k) :
    tlookup (tremove tb k) k' = tlookup tb k' := by
  induction tb with
  | nil => rfl
  | cons e rest ih =>
    by_cases he : e.1 = k
    · have hne : ¬ e.1 = k' := by rw [he]; exact fun x => h x.symm
      rw [show tremove (e :: rest) k = tremove rest k by simp [tremove, he],
        show tlookup (e :: rest) k' = tlookup rest k' by simp [tlookup, hne]]
      exact ih
    · rw [show tremove (e :: rest) k = e :: tremove rest k by simp [tremove, he]]
      by_cases he' : e.1 = k'
      · simp [tlookup, he']
      · simp only [tlookup, he', ↓reduceIte]; exact ih

theorem tlookup_tremove_none (tb : List (Token Tag × Record Tag)) {k k' : Token Tag}
    (h : tlookup tb k' = none) : tlookup (tremove tb k) k' = none := by
  by_cases hk : k' = k
  · rw [hk]; exact tlookup_tremove_self tb k
  · rw [tlookup_tremove_ne tb hk]; exact h

theorem mem_tremove {tb : List (Token Tag × Record Tag)} {k : Token Tag} {e : Token Tag × Record Tag}
    (h : e ∈ tremove tb k) : e ∈ tb := by
  induction tb with
  | nil => simp [tremove] at h
  | cons x rest ih =>
    unfold tremove at h
    by_cases hx : x.1 = k
    · simp only [hx, ↓reduceIte] at h; exact List.mem_cons_of_mem _ (ih h)
    · simp only [hx, ↓reduceIte] at h
      rcases List.mem_cons.1 h with rfl | h
      · exact List.mem_cons_self
      · exact List.mem_cons_of_mem _ (ih h)

theorem mem_removeRecord {tb : List (Token Tag × Record Tag)} {r : Record Tag} {e : Token Tag × Record Tag}
    (h : e ∈ removeRecord tb r) : e ∈ tb := by
  unfold removeRecord at h
  cases hr : r.refresh with
  | none => rw [hr] at h; exact mem_tremove h
  | some rt => rw [hr] at h; exact mem_tremove (mem_tremove h)

theorem tlookup_append (tb : List (Token Tag × Record Tag)) (k k' : Token Tag) (r : Record Tag) :
    tlookup (tb ++ [(k, r)]) k' = match tlookup tb k' with
      | some x => some x
      | none => if k = k' then some r else none := by
  induction tb with
  | nil => simp [tlookup]
  | cons e rest ih =>
    simp only [List.cons_append]
    unfold tlookup
    by_cases he : e.1 = k'
    · simp only [he, ↓reduceIte]
    · simp only [he, ↓reduceIte]; exact ih

theorem tadd_some {tb tb' : List (Token Tag × Record Tag)} {k : Token Tag} {r : Record Tag}
    (h : tadd tb k r = some tb') : tb' = tb ++ [(k, r)] ∧ tlookup tb k = none := by
  unfold tadd at h
  cases hl : tlookup tb k with
  | some x => rw [hl] at h; cases h
  | none => rw [hl] at h; simp only [Option.some.injEq] at h; exact ⟨h.symm, rfl⟩

/-! ## the invariant of reachable states -/

def tokId : Token Tag → Option Nat
  | .opaque n => some n
  | .jwt _ p _ => p.claims.map (·.jti)

/-- the token carries a random id generated before the `n`-th `newToken` call -/
def Fresh (n : Nat) (t : Token Tag) : Prop := ∃ i, tokId t = some i ∧ i < n

structure EntryOk (issued : List (Token Tag)) (n : Nat) (k : Token Tag) (r : Record Tag) : Prop where
  key : k = r.token ∨ r.refresh = some k
  issued : r.token ∈ issued
  freshTok : Fresh n r.token
  freshRef : ∀ rt, r.refresh = some rt → Fresh n rt
  claims : ∃ c, claimsOf r.token = some c ∧ c.sub = r.user ∧ c.role = r.role ∧ c.exp = r.expiresAt

/-- every record of the session table was written by the server for an access token it issued -/
def Inv (s : State Tag) : Prop := ∀ k r, (k, r) ∈ s.table → EntryOk s.issued s.nextId k r

theorem Fresh.mono {n m : Nat} {t : Token Tag} (h : Fresh n t) (hnm : n ≤ m) : Fresh m t := by
  obtain ⟨i, hi, hlt⟩ := h; exact ⟨i, hi, by omega⟩

theorem EntryOk.mono {is is' : List (Token Tag)} {n m : Nat} {k : Token Tag} {r : Record Tag}
    (h : EntryOk is n k r) (his : ∀ t ∈ is, t ∈ is') (hnm : n ≤ m) : EntryOk is' m k r :=
  ⟨h.key, his _ h.issued, h.freshTok.mono hnm, fun rt hrt => (h.freshRef rt hrt).mono hnm, h.claims⟩

theorem EntryOk.freshKey {is : List (Token Tag)} {n : Nat} {k : Token Tag} {r : Record Tag}
    (h : EntryOk is n k r) : Fresh n k := by
  rcases h.key with hk | hk
  · rw [hk]; exact h.freshTok
  · exact h.freshRef k hk

theorem inv_init (secret : Nat) (ttl rttl : Int) : Inv (init secret ttl rttl : State Tag) := by
  intro k r h; simp [init] at h

theorem fresh_sign (mac : Nat → Msg → Tag) (sec : Nat) (c : Claims) (n : Nat) (h : c.jti < n) :
    Fresh n (sign mac sec c) := ⟨c.jti, rfl, h⟩

theorem inv_of_subtable {s s' : State Tag} (hi : Inv s) (hsub : ∀ e ∈ s'.table, e ∈ s.table)
    (his : ∀ t ∈ s.issued, t ∈ s'.issued) (hn : s.nextId ≤ s'.nextId) : Inv s' :=
  fun k r h => (hi k r (hsub _ h)).mono his hn

theorem inv_createToken (mac : Nat → Msg → Tag) (s : State Tag) (now : Int) (u ro : Nat) (hi : Inv s) :
    Inv (createToken mac s now u ro).1 := by
  unfold createToken
  simp only
  cases ha : tadd s.table (sign mac s.secret ⟨u, ro, now, now + s.ttl, s.nextId⟩)
      ⟨sign mac s.secret ⟨u, ro, now, now + s.ttl, s.nextId⟩, none, u, ro, now, now + s.ttl, none⟩ with
  | none => exact inv_of_subtable hi (fun e h => h) (fun t h => h) (Nat.le_succ _)
  | some tb =>
    obtain ⟨htb, _⟩ := tadd_some ha
    intro k r h
    simp only [htb, List.mem_append, List.mem_singleton] at h
    rcases h with h | h
    · exact (hi k r h).mono (fun t ht => List.mem_cons_of_mem _ ht) (Nat.le_succ _)
    · simp only [Prod.mk.injEq] at h
      obtain ⟨rfl, rfl⟩ := h
      exact ⟨Or.inl rfl, List.mem_cons_self, fresh_sign _ _ _ _ (Nat.lt_succ_self _),
        (fun rt hrt => by cases hrt), ⟨_, rfl, rfl, rfl, rfl⟩⟩

/-- the two records `CreateSession` / `Refresh` write satisfy the invariant -/
theorem entry_new_pair (mac : Nat → Msg → Tag) (is : List (Token Tag)) (sec n : Nat) (c : Claims) (hc : c.jti = n)
    (iat : Int) (rexp : Option Int) (k : Token Tag)
    (hk : k = sign mac sec c ∨ k = .opaque (n + 1)) :
    EntryOk (sign mac sec c :: is) (n + 2) k
      ⟨sign mac sec c, some (.opaque (n + 1)), c.sub, c.role, iat, c.exp, rexp⟩ := by
  refine ⟨?_, List.mem_cons_self, fresh_sign _ _ _ _ (by omega), ?_, ⟨c, rfl, rfl, rfl, rfl⟩⟩
  · rcases hk with hk | hk
    · exact Or.inl hk
    · exact Or.inr (by rw [hk])
  · intro rt hrt
    simp only [Option.some.injEq] at hrt
    subst hrt
    exact ⟨n + 1, rfl, by omega⟩

theorem inv_createSession (mac : Nat → Msg → Tag) (s : State Tag) (now : Int) (u ro : Nat) (hi : Inv s) :
    Inv (createSession mac s now u ro).1 := by
  unfold createSession
  simp only
  generalize hrec : (⟨sign mac s.secret ⟨u, ro, now, now + s.ttl, s.nextId⟩, some (.opaque (s.nextId + 1)), u, ro, now,
    now + s.ttl, some (now + s.refreshTtl)⟩ : Record Tag) = rec_
  cases ha : tadd s.table (sign mac s.secret ⟨u, ro, now, now + s.ttl, s.nextId⟩) rec_ with
  | none => dsimp only; exact inv_of_subtable hi (fun e h => h) (fun t h => h) (by simp)
  | some tb =>
    obtain ⟨htb, _⟩ := tadd_some ha
    dsimp only
    cases hb : tadd tb (.opaque (s.nextId + 1)) rec_ with
    | none => dsimp only; exact inv_of_subtable hi (fun e h => h) (fun t h => h) (by simp)
    | some tb2 =>
      obtain ⟨htb2, _⟩ := tadd_some hb
      dsimp only
      intro k r h
      simp only [htb2, htb, List.mem_append, List.mem_singleton] at h
      rcases h with (h | h) | h
      · exact (hi k r h).mono (fun t ht => List.mem_cons_of_mem _ ht) (Nat.le_add_right _ _)
      · simp only [Prod.mk.injEq] at h
        obtain ⟨rfl, rfl⟩ := h
        rw [← hrec]
        exact entry_new_pair mac s.issued s.secret s.nextId ⟨u, ro, now, now + s.ttl, s.nextId⟩ rfl now _ _ (Or.inl rfl)
      · simp only [Prod.mk.injEq] at h
        obtain ⟨rfl, rfl⟩ := h
        rw [← hrec]
        exact entry_new_pair mac s.issued s.secret s.nextId ⟨u, ro, now, now + s.ttl, s.nextId⟩ rfl now _ _ (Or.inr rfl)

theorem inv_refresh (fixed : Bool) (mac : Nat → Msg → Tag) (s : State Tag) (now : Int) (tok : Token Tag) (hi : Inv s) :
    Inv (refresh fixed mac s now tok).1 := by
  unfold refresh
  cases hl : tlookup s.table tok with
  | none => exact hi
  | some r =>
    simp only
    by_cases hx : refreshExpired now r = true
    · simp only [hx, ↓reduceIte]
      exact inv_of_subtable hi (fun e h => mem_removeRecord h) (fun t h => h) (Nat.le_refl _)
    · simp only [hx]
      generalize hexp : (if fixed = true then now + s.ttl else r.expiresAt) = exp
      generalize hrec : (⟨sign mac s.secret ⟨r.user, r.role, now, exp, s.nextId⟩, some (.opaque (s.nextId + 1)), r.user, r.role,
        now, exp, r.refreshExpiresAt⟩ : Record Tag) = rec_
      cases ha : tadd s.table (sign mac s.secret ⟨r.user, r.role, now, exp, s.nextId⟩) rec_ with
      | none => dsimp only; exact inv_of_subtable hi (fun e h => h) (fun t h => h) (by simp)
      | some tb =>
        obtain ⟨htb, _⟩ := tadd_some ha
        dsimp only
        cases hb : tadd tb (.opaque (s.nextId + 1)) rec_ with
        | none => dsimp only; exact inv_of_subtable hi (fun e h => h) (fun t h => h) (by simp)
        | some tb2 =>
          obtain ⟨htb2, _⟩ := tadd_some hb
          dsimp only
          intro k r' h
          have h := mem_removeRecord h
          simp only [htb2, htb, List.mem_append, List.mem_singleton] at h
          rcases h with (h | h) | h
          · exact (hi k r' h).mono (fun t ht => List.mem_cons_of_mem _ ht) (Nat.le_add_right _ _)
          · simp only [Prod.mk.injEq] at h
            obtain ⟨rfl, rfl⟩ := h
            rw [← hrec]
            exact entry_new_pair mac s.issued s.secret s.nextId ⟨r.user, r.role, now, exp, s.nextId⟩ rfl now _ _ (Or.inl rfl)
          · simp only [Prod.mk.injEq] at h
            obtain ⟨rfl, rfl⟩ := h
            rw [← hrec]
            exact entry_new_pair mac s.issued s.secret s.nextId ⟨r.user, r.role, now, exp, s.nextId⟩ rfl now _ _ (Or.inr rfl)

theorem inv_validate (fixed : Bool) (mac : Nat → Msg → Tag) (s : State Tag) (now : Int) (tok : Token Tag) (hi : Inv s) :
    Inv (validate fixed mac s now tok).1 := by
  unfold validate
  cases verifyFast mac s now tok with
  | some c => exact hi
  | none =>
    simp only
    cases tlookup s.table tok with
    | none => exact hi
    | some r =>
      simp only
      split
      · exact hi
      · split
        · exact inv_of_subtable hi (fun e h => mem_removeRecord h) (fun t h => h) (Nat.le_refl _)
        · exact hi

theorem inv_revoke (s : State Tag) (tok : Token Tag) (hi : Inv s) : Inv (revoke s tok).1 := by
  unfold revoke
  cases tlookup s.table tok with
  | none => exact hi
  | some r => exact inv_of_subtable hi (fun e h => mem_removeRecord h) (fun t h => h) (Nat.le_refl _)

theorem inv_step (fixed : Bool) (mac : Nat → Msg → Tag) (s : State Tag) (o : Op Tag) (hi : Inv s) :
    Inv (step fixed mac s o).1 := by
  cases o with
  | createToken now u r => exact inv_createToken mac s now u r hi
  | createSession now u r => exact inv_createSession mac s now u r hi
  | refresh now t => exact inv_refresh fixed mac s now t hi
  | validate now t => exact inv_validate fixed mac s now t hi
  | revoke t => exact inv_revoke s t hi
  | setSecret n => exact hi

/-- the invariant holds in every state the server can reach, whatever is thrown at it -/
theorem inv_run (fixed : Bool) (mac : Nat → Msg → Tag) (s : State Tag) (ops : List (Op Tag)) (hi : Inv s) :
    Inv (run fixed mac s ops) := by
  induction ops generalizing s with
  | nil => exact hi
  | cons o os ih => exact ih _ (inv_step fixed mac s o hi)

/-! ## the property -/

/-- **Unforgeability hypothesis** for the presented token: if its signature verifies under the
server's current secret, the server produced that token ("a tag not obtained from the server
≠ `mac secret m`"). -/
def Unforged (mac : Nat → Msg → Tag) (s : State Tag) (tok : Token Tag) : Prop :=
  ∀ h p sig, tok = .jwt h p sig → sig = mac s.secret (h, p) → tok ∈ s.issued

/-- **C35_valid_iff_partial.** In every reachable state, for every instant and every presented
string: if `ValidateToken` accepts, the string is — unmodified — an access token the server issued,
`now` is not past its expiry, and the identity returned is the one it was issued for. (No claim
about revocation, rotation or the secret being the current one: those conjuncts are false, see below.) -/
theorem C35_valid_iff_partial (mac : Nat → Msg → Tag) (s : State Tag) (now : Int) (tok : Token Tag) (u ro : Nat)
    (hi : Inv s) (hu : Unforged mac s tok)
    (hv : (validate true mac s now tok).2 = .user u ro) :
    tok ∈ s.issued ∧ ∃ c, claimsOf tok = some c ∧ u = c.sub ∧ ro = c.role ∧ now ≤ c.exp := by
  unfold validate at hv
  cases hf : verifyFast mac s now tok with
  | some c =>
    rw [hf] at hv
    simp only [Out.user.injEq] at hv
    cases tok with
    | «opaque» n => simp [verifyFast] at hf
    | jwt h p sig =>
      unfold verifyFast at hf
      by_cases hs : sig = mac s.secret (h, p)
      · simp only [hs, ↓reduceIte] at hf
        cases hp : p.claims with
        | none => rw [hp] at hf; cases hf
        | some c' =>
          rw [hp] at hf
          simp only at hf
          split at hf
          · cases hf
          · split at hf
            · cases hf
            · simp only [Option.some.injEq] at hf
              subst hf
              refine ⟨hu h p sig rfl hs, c', hp, hv.1.symm, hv.2.symm, ?_⟩
              omega
      · simp [hs] at hf
  | none =>
    rw [hf] at hv
    simp only at hv
    cases hl : tlookup s.table tok with
    | none => rw [hl] at hv; cases hv
    | some r =>
      rw [hl] at hv
      simp only at hv
      by_cases hk : r.token = tok
      · simp only [hk, ne_eq, not_true_eq_false, and_false, ↓reduceIte] at hv
        split at hv
        · cases hv
        · simp only [Out.user.injEq] at hv
          have he := hi tok r (tlookup_mem hl)
          obtain ⟨c, hc, hsub, hrole, hexp⟩ := he.claims
          refine ⟨hk ▸ he.issued, c, hk ▸ hc, ?_, ?_, ?_⟩
          · rw [hsub]; exact hv.1.symm
          · rw [hrole]; exact hv.2.symm
          · omega
      · simp [hk] at hv

theorem refresh_of_absent (fixed : Bool) (mac : Nat → Msg → Tag) (s : State Tag) (now : Int) (tok : Token Tag)
    (h : tlookup s.table tok = none) : (refresh fixed mac s now tok).2 = .err .invalidRefresh := by
  unfold refresh; rw [h]

/-- shape of a successful `Refresh` -/
theorem refresh_ok_form (mac : Nat → Msg → Tag) (s : State Tag) (now : Int) (tok a rt : Token Tag)
    (hr : (refresh true mac s now tok).2 = .session a rt) :
    ∃ r, tlookup s.table tok = some r ∧
      a = sign mac s.secret ⟨r.user, r.role, now, now + s.ttl, s.nextId⟩ ∧ rt = .opaque (s.nextId + 1) ∧
      tlookup s.table a = none ∧
      (refresh true mac s now tok).1 =
        { s with nextId := s.nextId + 2,
                 table := removeRecord ((s.table ++ [(a, ⟨a, some rt, r.user, r.role, now, now + s.ttl, r.refreshExpiresAt⟩)]) ++
                    [(rt, ⟨a, some rt, r.user, r.role, now, now + s.ttl, r.refreshExpiresAt⟩)]) r,
                 issued := a :: s.issued, rotated := r.token :: (r.refresh.toList ++ s.rotated) } := by
  unfold refresh at hr ⊢
  cases hl : tlookup s.table tok with
  | none => rw [hl] at hr; cases hr
  | some r =>
    rw [hl] at hr
    dsimp only at hr ⊢
    cases hx : refreshExpired now r with
    | true => rw [hx] at hr; simp at hr
    | false =>
      rw [hx] at hr
      simp only [Bool.false_eq_true, ↓reduceIte] at hr ⊢
      generalize hrec : (⟨sign mac s.secret ⟨r.user, r.role, now, now + s.ttl, s.nextId⟩, some (.opaque (s.nextId + 1)), r.user, r.role,
        now, now + s.ttl, r.refreshExpiresAt⟩ : Record Tag) = rec_ at hr ⊢
      cases ha : tadd s.table (sign mac s.secret ⟨r.user, r.role, now, now + s.ttl, s.nextId⟩) rec_ with
      | none => rw [ha] at hr; cases hr
      | some tb =>
        rw [ha] at hr
        dsimp only at hr ⊢
        obtain ⟨htb, hnone_a⟩ := tadd_some ha
        cases hb : tadd tb (.opaque (s.nextId + 1)) rec_ with
        | none => rw [hb] at hr; cases hr
        | some tb2 =>
          rw [hb] at hr
          dsimp only at hr ⊢
          obtain ⟨htb2, _⟩ := tadd_some hb
          simp only [Out.session.injEq] at hr
          obtain ⟨rfl, rfl⟩ := hr
          refine ⟨r, rfl, rfl, rfl, hnone_a, ?_⟩
          rw [htb2, htb, ← hrec]

/-- a token the server has just signed and stored validates while `now` is before its expiry -/
theorem validate_own_token (mac : Nat → Msg → Tag) (s : State Tag) (now : Int) (c : Claims) (r : Record Tag)
    (hl : tlookup s.table (sign mac s.secret c) = some r) (htok : r.token = sign mac s.secret c)
    (hu : r.user = c.sub) (hro : r.role = c.role) (hexp : r.expiresAt = c.exp) (hnow : now < c.exp) :
    (validate true mac s now (sign mac s.secret c)).2 = .user c.sub c.role := by
  unfold validate
  by_cases hz : c.sub = 0 ∨ c.role = 0
  · have hvf : verifyFast mac s now (sign mac s.secret c) = none := by simp [verifyFast, sign, hz]
    rw [hvf]
    simp only [hl, htok, ne_eq, not_true_eq_false, and_false, ↓reduceIte]
    have : ¬ now > r.expiresAt := by omega
    simp only [this, ↓reduceIte, hu, hro]
  · have hvf : verifyFast mac s now (sign mac s.secret c) = some c := by
      have : ¬ now ≥ c.exp := by omega
      simp [verifyFast, sign, hz, this]
    rw [hvf]

theorem tlookup_removeRecord (tb : List (Token Tag × Record Tag)) (r : Record Tag) (k : Token Tag) :
    tlookup (removeRecord tb r) k = if k = r.token ∨ r.refresh = some k then none else tlookup tb k := by
  unfold removeRecord
  cases hrr : r.refresh with
  | none =>
    by_cases hk : k = r.token
    · simp only [hk, true_or, ↓reduceIte]; exact tlookup_tremove_self _ _
    · simp only [hk, false_or, reduceCtorEq, ↓reduceIte]; exact tlookup_tremove_ne _ hk
  | some ort =>
    by_cases hk2 : k = ort
    · subst hk2; simp only [or_true, ↓reduceIte]; exact tlookup_tremove_self _ _
    · rw [tlookup_tremove_ne _ hk2]
      by_cases hk : k = r.token
      · simp only [hk, true_or, ↓reduceIte]; exact tlookup_tremove_self _ _
      · have : ¬ (some ort = some k) := by simp only [Option.some.injEq]; exact fun x => hk2 x.symm
        simp only [hk, this, or_self, ↓reduceIte]; exact tlookup_tremove_ne _ hk

/-- **C35_refresh** (repaired code, full strength). In every reachable state with a positive
session TTL: when `Refresh` succeeds, the access token it returns validates at that same instant for
the session's user and role; the presented token is gone from the session table, so presenting it
to `Refresh` again fails at any later instant and it cannot validate through the store; and the
same holds for the session's previous refresh token. -/
theorem C35_refresh (mac : Nat → Msg → Tag) (s : State Tag) (now : Int) (tok a rt : Token Tag)
    (hi : Inv s) (httl : 0 < s.ttl)
    (hr : (refresh true mac s now tok).2 = .session a rt) :
    ∃ r, tlookup s.table tok = some r ∧
      (validate true mac (refresh true mac s now tok).1 now a).2 = .user r.user r.role ∧
      tlookup (refresh true mac s now tok).1.table tok = none ∧
      (∀ now', (refresh true mac (refresh true mac s now tok).1 now' tok).2 = .err .invalidRefresh) ∧
      (∀ ort, r.refresh = some ort → tlookup (refresh true mac s now tok).1.table ort = none) := by
  obtain ⟨r, hl, ha, hrt, hnone_a, hstate⟩ := refresh_ok_form mac s now tok a rt hr
  have he := hi tok r (tlookup_mem hl)
  have hfa : ∀ t : Token Tag, Fresh s.nextId t → a ≠ t := by
    intro t ⟨i, hi', hlt⟩ heq
    rw [← heq, ha] at hi'
    simp [sign, tokId] at hi'
    omega
  have hgone : tlookup (refresh true mac s now tok).1.table tok = none := by
    rw [hstate]; dsimp only
    rw [tlookup_removeRecord]
    rcases he.key with hk | hk
    · simp [hk]
    · simp [hk]
  refine ⟨r, hl, ?_, hgone, ?_, ?_⟩
  · rw [hstate]
    have hk1 : a ≠ r.token := hfa _ he.freshTok
    have hk2 : ¬ r.refresh = some a := fun h => hfa _ (he.freshRef _ h) rfl
    have := validate_own_token mac
      { s with nextId := s.nextId + 2,
               table := removeRecord ((s.table ++ [(a, ⟨a, some rt, r.user, r.role, now, now + s.ttl, r.refreshExpiresAt⟩)]) ++
                  [(rt, ⟨a, some rt, r.user, r.role, now, now + s.ttl, r.refreshExpiresAt⟩)]) r,
               issued := a :: s.issued, rotated := r.token :: (r.refresh.toList ++ s.rotated) }
      now ⟨r.user, r.role, now, now + s.ttl, s.nextId⟩ ⟨a, some rt, r.user, r.role, now, now + s.ttl, r.refreshExpiresAt⟩
      (by
        dsimp only
        rw [← ha, tlookup_removeRecord]
        simp only [hk1, hk2, or_self, ↓reduceIte]
        rw [tlookup_append, tlookup_append, hnone_a]
        simp)
      (by dsimp only; exact ha) rfl rfl rfl (by dsimp only; omega)
    dsimp only at this
    rw [← ha] at this
    exact this
  · intro now'
    exact refresh_of_absent true mac _ now' tok hgone
  · intro ort hort
    rw [hstate]; dsimp only
    rw [tlookup_removeRecord]; simp [hort]

/-! ## what the code does NOT guarantee -/

/-- the statement at full strength (DESIGN.md §6 C35): acceptance additionally implies that the
token's session was not revoked, not rotated away, and that it was signed with the current secret -/
def Statement_C35 (mac : Nat → Msg → Tag) : Prop :=
  ∀ (secret : Nat) (ttl rttl : Int) (ops : List (Op Tag)) (now : Int) (tok : Token Tag) (u ro : Nat),
    0 < ttl →
    let s := run true mac (init secret ttl rttl) ops
    Unforged mac s tok →
    (validate true mac s now tok).2 = .user u ro →
    tok ∈ s.issued ∧ tok ∉ s.revoked ∧ tok ∉ s.rotated ∧
      (∃ c, claimsOf tok = some c ∧ tok = sign mac s.secret c ∧ now ≤ c.exp)

/-- the theorem that does hold for every run from the initial state -/
theorem C35_valid_iff_partial_run (mac : Nat → Msg → Tag) (secret : Nat) (ttl rttl : Int) (ops : List (Op Tag))
    (now : Int) (tok : Token Tag) (u ro : Nat)
    (hu : Unforged mac (run true mac (init secret ttl rttl) ops) tok)
    (hv : (validate true mac (run true mac (init secret ttl rttl) ops) now tok).2 = .user u ro) :
    tok ∈ (run true mac (init secret ttl rttl) ops).issued ∧
      ∃ c, claimsOf tok = some c ∧ u = c.sub ∧ ro = c.role ∧ now ≤ c.exp :=
  C35_valid_iff_partial mac _ now tok u ro (inv_run true mac _ ops (inv_init secret ttl rttl)) hu hv

end

/-! ## concrete witnesses (ideal MAC) -/

def A1 : Token DTag := sign dmac 5 ⟨1, 1, 0, 1800, 0⟩

/-- (i) a revoked access token still validates: CreateSession, RevokeToken(access), ValidateToken(access). -/
theorem C35_counterexample :
    let s := run true dmac (init 5 1800 604800) [.createSession 0 1 1, .revoke A1]
    A1 ∈ s.issued ∧ A1 ∈ s.revoked ∧ s.table = [] ∧ (validate true dmac s 0 A1).2 = .user 1 1 := by
  decide

/-- the access token replaced by Refresh still validates -/
theorem C35_counterexample_rotated :
    let s := run true dmac (init 5 1800 604800) [.createSession 0 1 1, .refresh 60 (.opaque 1)]
    A1 ∈ s.rotated ∧ (validate true dmac s 60 A1).2 = .user 1 1 := by
  decide

/-- a token signed with the previous secret validates through the store fallback -/
theorem C35_counterexample_old_secret :
    let s := run true dmac (init 5 1800 604800) [.createSession 0 1 1, .setSecret 6]
    A1 ≠ sign dmac s.secret ⟨1, 1, 0, 1800, 0⟩ ∧ (validate true dmac s 0 A1).2 = .user 1 1 := by
  decide

theorem unforged_A1 (s : State DTag) (h : A1 ∈ s.issued) : Unforged dmac s A1 :=
  fun _ _ _ _ _ => h

/-- the full-strength statement is false for the code (even repaired): witness (i) -/
theorem C35_statement_fails : ¬ Statement_C35 dmac := by
  intro h
  have := h 5 1800 604800 [.createSession 0 1 1, .revoke A1] 0 A1 1 1 (by decide)
    (unforged_A1 _ (by decide)) (by decide)
  exact absurd this.2.1 (by decide)

/-- the pinned tree (before the repair): (ii) the token returned by Refresh after the access
token's expiry is rejected at once; (iii) a refresh token passes ValidateToken -/
theorem C35_unrepaired_counterexamples :
    (let s := run false dmac (init 5 1800 604800) [.createSession 0 1 1]
     let r := refresh false dmac s 1860 (.opaque 1)
     r.2 = .session (sign dmac 5 ⟨1, 1, 1860, 1800, 2⟩) (.opaque 3) ∧
       (validate false dmac r.1 1860 (sign dmac 5 ⟨1, 1, 1860, 1800, 2⟩)).2 = .err .expiredSession) ∧
    (let s := run false dmac (init 5 1800 604800) [.createSession 0 2 2]
     (validate false dmac s 0 (.opaque 1)).2 = .user 2 2) := by
  decide

/-- Not a counterexample, a boundary of the statement (the history behind a thorough-tier alarm, minimised;
replayed on the real code by the corpus case `corpus_expired_refresh_cleanup_removes_unexpired_access_token`):
`Refresh` gives the new access token a full `ttl` but the refresh lifetime is inherited, so the access token
(expiry 10680) outlives the refresh token (7200). The token is valid when issued (7080) and later (7440); it is
rejected at 7440 only after `Refresh` was presented with the session's expired refresh token at 7380, whose
cleanup removes both records - and only because its role is empty, which leaves it the store fallback alone
(with role 1 the signed fast path keeps accepting it). "Valid when issued" is what `C35_refresh` proves. -/
theorem C35_expired_refresh_cleanup_witness :
    (let A2 : Token DTag := sign dmac 0 ⟨2, 0, 7080, 10680, 2⟩
     let s := run true dmac (init 0 3600 7200) [.createSession 0 2 0, .refresh 7080 (.opaque 1)]
     let s' := (refresh true dmac s 7380 (.opaque 3)).1
     (validate true dmac s 7080 A2).2 = .user 2 0 ∧ (validate true dmac s 7440 A2).2 = .user 2 0 ∧
       (refresh true dmac s 7380 (.opaque 3)).2 = .err .expiredRefresh ∧ s'.table = [] ∧
       A2 ∉ s'.revoked ∧ A2 ∉ s'.rotated ∧
       (validate true dmac s' 7440 A2).2 = .err .invalidSession) ∧
    (let A2 : Token DTag := sign dmac 0 ⟨2, 1, 7080, 10680, 2⟩
     let s := run true dmac (init 0 3600 7200) [.createSession 0 2 1, .refresh 7080 (.opaque 1)]
     let s' := (refresh true dmac s 7380 (.opaque 3)).1
     s'.table = [] ∧ (validate true dmac s' 7440 A2).2 = .user 2 1) := by
  decide +kernel

/-- non-vacuity: a reachable state with a live session in which the hypotheses of
`C35_valid_iff_partial` and `C35_refresh` hold and the conclusions are about real successes -/
example :
    let s := run true dmac (init 5 1800 604800) [.createSession 0 1 1]
    Unforged dmac s A1 ∧ (validate true dmac s 10 A1).2 = .user 1 1 ∧ 0 < s.ttl ∧
      (refresh true dmac s 10 (.opaque 1)).2 = .session (sign dmac 5 ⟨1, 1, 10, 1810, 2⟩) (.opaque 3) :=
  ⟨unforged_A1 _ (by decide), by decide, by decide, by decide⟩

end Sop.C35
