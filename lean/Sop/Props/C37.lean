import Sop.Model.HandleProto
import Sop.Lemmas.Commit
/-!
# C37 — the commit protocol never installs two successors of one node version

`Sop/Model/HandleProto.lean`: any number of committers acting on one registry handle through the same per-handle
functions as Model P. Theorem `C37_single_successor`: under the node-lock discipline (a transaction reads, reserves,
stages, flips or undoes only while it holds the node's lock, and a lock is granted only when free — C28, plus
"a live holder's lock does not expire", DESIGN.md A-time), for EVERY interleaving of any number of transactions
(including transactions that crash and keep their lock), two installs are never based on the same version.
`C37_lock_needed` shows the hypothesis is needed: without the lock two installs from one version happen.
-/
namespace Sop.C37
open Sop.Commit Sop.HandleProto

structure Inv (v0 : Int) (s : Sys) : Prop where
  imgVer : ∀ t i, (s.txns t).img = some i → i.version = (s.txns t).readVersion
  holderCur : ∀ t i, s.lock = some t → (s.txns t).img = some i → s.h = i
  onlyHolder : ∀ t, ((s.txns t).img.isSome ∨ (s.txns t).got.isSome) → s.lock = some t
  gotVer : ∀ t g, s.lock = some t → (s.txns t).installed = false → (s.txns t).got = some g → g.version = s.h.version
  ver : s.h.version = v0 + s.flips.length
  flipsVer : ∀ (k : Nat) (p : Nat × Int), s.flips[k]? = some p → p.2 = v0 + (k : Int)

/-- histories in which no install is taken back (by crash recovery or by the transaction's own failed phase 2) -/
def NoRecover (ops : List Op) : Prop := ∀ o ∈ ops, (∀ t, o ≠ Op.recover t ∧ o ≠ Op.restore t) ∧ o ≠ Op.lose

@[simp] theorem setTxn_txns (s : Sys) (t k : Nat) (x : Txn) : (s.setTxn t x).txns k = if k = t then x else s.txns k := rfl
@[simp] theorem setTxn_h (s : Sys) (t : Nat) (x : Txn) : (s.setTxn t x).h = s.h := rfl
@[simp] theorem setTxn_lock (s : Sys) (t : Nat) (x : Txn) : (s.setTxn t x).lock = s.lock := rfl
@[simp] theorem setTxn_flips (s : Sys) (t : Nat) (x : Txn) : (s.setTxn t x).flips = s.flips := rfl

theorem held_lock {s : Sys} {t : Nat} (h : held s t true = true) : s.lock = some t ∧ (s.txns t).crashed = false := by
  unfold held at h
  simp only [Bool.not_true, Bool.false_or, Bool.and_eq_true, Bool.not_eq_true', beq_iff_eq] at h
  exact ⟨h.2, h.1⟩

theorem inv_step (v0 : Int) (s : Sys) (o : Op) (hno : (∀ t, o ≠ Op.recover t ∧ o ≠ Op.restore t) ∧ o ≠ Op.lose) (inv : Inv v0 s) : Inv v0 (step true s o) := by
  cases o with
  | recover t => exact absurd rfl (hno.1 t).1
  | restore t => exact absurd rfl (hno.1 t).2
  | lose => exact absurd rfl hno.2
  | crash t =>
    simp only [step]
    refine ⟨?_, ?_, ?_, ?_, inv.ver, inv.flipsVer⟩
    · intro k i hi; by_cases hk : k = t <;> simp [hk] at hi ⊢ <;> first | exact inv.imgVer _ i hi | exact inv.imgVer k i hi
    · intro k i hl hi; by_cases hk : k = t <;> simp [hk] at hl hi ⊢ <;> first | exact inv.holderCur _ i hl hi | exact inv.holderCur k i hl hi
    · intro k hi; by_cases hk : k = t <;> simp [hk] at hi ⊢ <;> first | exact inv.onlyHolder _ hi | exact inv.onlyHolder k hi
    · intro k g hl hin hg; by_cases hk : k = t <;> simp [hk] at hl hin hg ⊢ <;> first | exact inv.gotVer _ g hl hin hg | exact inv.gotVer k g hl hin hg
  | lock t =>
    simp only [step]
    split
    · exact inv
    · split
      · rename_i hnone
        have nobody : ∀ k, (s.txns k).img = none ∧ (s.txns k).got = none := by
          intro k
          constructor
          · cases hi : (s.txns k).img with
            | none => rfl
            | some i => have := inv.onlyHolder k (.inl (by simp [hi])); rw [hnone] at this; cases this
          · cases hg : (s.txns k).got with
            | none => rfl
            | some i => have := inv.onlyHolder k (.inr (by simp [hg])); rw [hnone] at this; cases this
        refine ⟨?_, ?_, ?_, ?_, inv.ver, inv.flipsVer⟩
        · intro k i hi; by_cases hk : k = t <;> simp [hk] at hi; rw [(nobody k).1] at hi; cases hi
        · intro k i _ hi; by_cases hk : k = t <;> simp [hk] at hi; rw [(nobody k).1] at hi; cases hi
        · intro k hi; by_cases hk : k = t
          · simp [hk]
          · simp [hk] at hi; rw [(nobody k).1, (nobody k).2] at hi; simp at hi
        · intro k g _ _ hg; by_cases hk : k = t <;> simp [hk] at hg; rw [(nobody k).2] at hg; cases hg
      · exact inv
  | unlock t =>
    simp only [step]
    split
    · rename_i hc
      simp only [Bool.and_eq_true, beq_iff_eq, Bool.not_eq_true'] at hc
      have others : ∀ k, k ≠ t → (s.txns k).img = none ∧ (s.txns k).got = none := by
        intro k hk
        constructor
        · cases hi : (s.txns k).img with
          | none => rfl
          | some i => have := inv.onlyHolder k (.inl (by simp [hi])); rw [hc.1] at this; exact absurd (Option.some.inj this).symm hk
        · cases hg : (s.txns k).got with
          | none => rfl
          | some i => have := inv.onlyHolder k (.inr (by simp [hg])); rw [hc.1] at this; exact absurd (Option.some.inj this).symm hk
      refine ⟨?_, ?_, ?_, ?_, inv.ver, inv.flipsVer⟩
      · intro k i hi; by_cases hk : k = t <;> simp [hk] at hi; rw [(others k hk).1] at hi; cases hi
      · intro k i hl _; simp at hl
      · intro k hi; by_cases hk : k = t
        · simp [hk] at hi
        · simp [hk] at hi; rw [(others k hk).1, (others k hk).2] at hi; simp at hi
      · intro k g hl _ _; simp at hl
    · exact inv
  | get t =>
    simp only [step]
    split
    · rename_i hh
      obtain ⟨hl, _⟩ := held_lock hh
      refine ⟨?_, ?_, ?_, ?_, inv.ver, inv.flipsVer⟩
      · intro k i hi; by_cases hk : k = t <;> simp [hk] at hi ⊢ <;> first | exact inv.imgVer _ i hi | exact inv.imgVer k i hi
      · intro k i hl' hi; by_cases hk : k = t <;> simp [hk] at hl' hi ⊢ <;> first | exact inv.holderCur _ i hl' hi | exact inv.holderCur k i hl' hi
      · intro k hi; by_cases hk : k = t
        · simp [hk, hl]
        · simp [hk] at hi ⊢; exact inv.onlyHolder k hi
      · intro k g hl' hin hg; by_cases hk : k = t
        · simp [hk] at hg ⊢; rw [← hg]
        · simp [hk] at hl' hin hg ⊢; exact inv.gotVer k g hl' hin hg
    · exact inv
  | reserve t =>
    simp only [step]
    split
    · rename_i hc
      simp only [Bool.and_eq_true, Option.isNone_iff_eq_none, Bool.not_eq_true'] at hc
      obtain ⟨⟨hh, hnone⟩, hinst⟩ := hc
      obtain ⟨hl, _⟩ := held_lock hh
      split
      · exact inv
      · rename_i g hg
        split
        · exact inv
        · rename_i i hi
          obtain ⟨r1, r2, r3, r4, r5, _, _⟩ := reserveOne_spec _ _ _ _ _ _ hi
          have hgv := inv.gotVer t g hl hinst hg
          refine ⟨?_, ?_, ?_, ?_, ?_, inv.flipsVer⟩
          · intro k i' hi'; by_cases hk : k = t
            · simp [hk] at hi' ⊢; subst hi'; rw [r3, r5]
            · simp [hk] at hi' ⊢; exact inv.imgVer k i' hi'
          · intro k i' hl' hi'; by_cases hk : k = t
            · simp [hk] at hi' ⊢; exact hi'
            · simp at hl'; rw [hl] at hl'; exact absurd (Option.some.inj hl').symm hk
          · intro k hi'; by_cases hk : k = t
            · simp [hk, hl]
            · simp [hk] at hi' ⊢; exact inv.onlyHolder k hi'
          · intro k g' hl' hin hg'; by_cases hk : k = t
            · simp [hk] at hg' hin ⊢; rw [hg] at hg'; cases hg'; rw [r3]
            · simp at hl'; rw [hl] at hl'; exact absurd (Option.some.inj hl').symm hk
          · simp; rw [r3, hgv]; exact inv.ver
    · exact inv
  | stage t =>
    simp only [step]
    split
    · split
      · exact inv
      · refine ⟨?_, ?_, ?_, ?_, inv.ver, inv.flipsVer⟩
        · intro k i hi; by_cases hk : k = t <;> simp [hk] at hi ⊢ <;> first | exact inv.imgVer _ i hi | exact inv.imgVer k i hi
        · intro k i hl' hi; by_cases hk : k = t <;> simp [hk] at hl' hi ⊢ <;> first | exact inv.holderCur _ i hl' hi | exact inv.holderCur k i hl' hi
        · intro k hi; by_cases hk : k = t <;> simp [hk] at hi ⊢ <;> first | exact inv.onlyHolder _ hi | exact inv.onlyHolder k hi
        · intro k g hl' hin hg; by_cases hk : k = t <;> simp [hk] at hl' hin hg ⊢ <;> first | exact inv.gotVer _ g hl' hin hg | exact inv.gotVer k g hl' hin hg
    · exact inv
  | logPre t =>
    simp only [step]
    split
    · split
      · exact inv
      · exact ⟨inv.imgVer, inv.holderCur, inv.onlyHolder, inv.gotVer, inv.ver, inv.flipsVer⟩
    · exact inv
  | flip t =>
    simp only [step]
    split
    · rename_i hc
      simp only [Bool.and_eq_true, Bool.not_eq_true'] at hc
      obtain ⟨⟨hh, _⟩, hinst⟩ := hc
      obtain ⟨hl, _⟩ := held_lock hh
      split
      · exact inv
      · rename_i i hi
        have hcur := inv.holderCur t i hl hi
        have hiv := inv.imgVer t i hi
        obtain ⟨_, _, _, a4, _⟩ := activate_spec i
        refine ⟨?_, ?_, ?_, ?_, ?_, ?_⟩
        · intro k i' hi'; by_cases hk : k = t
          · simp [hk] at hi'
          · simp [hk] at hi' ⊢; exact inv.imgVer k i' hi'
        · intro k i' hl' hi'; by_cases hk : k = t
          · simp [hk] at hi'
          · simp at hl'; rw [hl] at hl'; exact absurd (Option.some.inj hl').symm hk
        · intro k hi'; by_cases hk : k = t
          · simp [hk, hl]
          · simp [hk] at hi' ⊢; exact inv.onlyHolder k hi'
        · intro k g hl' hin hg; by_cases hk : k = t
          · simp [hk] at hin
          · simp at hl'; rw [hl] at hl'; exact absurd (Option.some.inj hl').symm hk
        · simp only [List.length_append, List.length_cons, List.length_nil]
          rw [a4, ← hcur, inv.ver]; push_cast; omega
        · intro k p hp
          by_cases hlt : k < s.flips.length
          · rw [List.getElem?_append_left hlt] at hp; exact inv.flipsVer k p hp
          · have hge : s.flips.length ≤ k := Nat.le_of_not_lt hlt
            rw [List.getElem?_append_right hge] at hp
            cases hd : k - s.flips.length with
            | zero =>
              rw [hd] at hp; simp at hp; subst hp
              simp only
              rw [← hiv, ← hcur, inv.ver]
              have : k = s.flips.length := by omega
              rw [this]
            | succ m => rw [hd] at hp; simp at hp
    · exact inv
  | undo t =>
    simp only [step]
    split
    · rename_i hc
      simp only [Bool.and_eq_true, Bool.not_eq_true'] at hc
      obtain ⟨⟨hh, hinst⟩, _⟩ := hc
      obtain ⟨hl, _⟩ := held_lock hh
      have hv : (if s.h.inactive = 0 then { s.h with wip := 0 } else s.h.clearInactive).version = s.h.version := by
        split
        · rfl
        · exact (Handle.clearInactive_spec s.h).2.2.2.1
      refine ⟨?_, ?_, ?_, ?_, ?_, inv.flipsVer⟩
      · intro k i hi; by_cases hk : k = t
        · simp [hk] at hi
        · simp [hk] at hi ⊢; exact inv.imgVer k i hi
      · intro k i hl' hi; by_cases hk : k = t
        · simp [hk] at hi
        · simp at hl'; rw [hl] at hl'; exact absurd (Option.some.inj hl').symm hk
      · intro k hi; by_cases hk : k = t
        · simp [hk, hl]
        · simp [hk] at hi ⊢; exact inv.onlyHolder k hi
      · intro k g hl' hin hg; by_cases hk : k = t
        · simp [hk] at hg hin ⊢; rw [hv]; exact inv.gotVer t g hl hin hg
        · simp at hl'; rw [hl] at hl'; exact absurd (Option.some.inj hl').symm hk
      · simp only [setTxn_flips, setTxn_h]; rw [hv]; exact inv.ver
    · exact inv

theorem inv_run (v0 : Int) (ops : List Op) (s : Sys) (hno : NoRecover ops) (inv : Inv v0 s) : Inv v0 (run true s ops) := by
  unfold run
  induction ops generalizing s with
  | nil => exact inv
  | cons o t ih =>
    simp only [List.foldl_cons]
    exact ih _ (fun o' ho' => hno o' (List.mem_cons_of_mem _ ho')) (inv_step v0 s o (hno o (List.mem_cons_self ..)) inv)

/-- an initial system: nobody holds anything yet -/
def Fresh (s : Sys) : Prop := s.lock = none ∧ s.flips = [] ∧ ∀ t, (s.txns t).img = none ∧ (s.txns t).got = none

theorem inv_init (s : Sys) (hf : Fresh s) : Inv s.h.version s := by
  obtain ⟨h1, h2, h3⟩ := hf
  refine ⟨?_, ?_, ?_, ?_, ?_, ?_⟩
  · intro t i hi; rw [(h3 t).1] at hi; cases hi
  · intro t i hl; rw [h1] at hl; cases hl
  · intro t hi; rw [(h3 t).1, (h3 t).2] at hi; simp at hi
  · intro t g hl; rw [h1] at hl; cases hl
  · rw [h2]; simp
  · intro k p hp; rw [h2] at hp; simp at hp

/-- **C37**: for every interleaving (any op list, any number of transactions, crashes included, no lock ever
expiring under a holder), two installs are never based on the same version of the node. -/
theorem C37_single_successor (s : Sys) (hf : Fresh s) (ops : List Op) (hno : NoRecover ops)
    (t1 t2 : Nat) (v : Int) (h1 : (t1, v) ∈ (run true s ops).flips) (h2 : (t2, v) ∈ (run true s ops).flips) :
    t1 = t2 := by
  have inv := inv_run s.h.version ops s hno (inv_init s hf)
  obtain ⟨k1, hk1⟩ := List.getElem?_of_mem h1
  obtain ⟨k2, hk2⟩ := List.getElem?_of_mem h2
  have e1 := inv.flipsVer k1 _ hk1
  have e2 := inv.flipsVer k2 _ hk2
  simp only at e1 e2
  have : k1 = k2 := by omega
  subst this
  rw [hk1] at hk2
  exact (Prod.mk.inj (Option.some.inj hk2)).1

/-- the node's version only grows, by exactly one per install -/
theorem C37_version_counts_installs (s : Sys) (hf : Fresh s) (ops : List Op) (hno : NoRecover ops) :
    (run true s ops).h.version = s.h.version + (run true s ops).flips.length :=
  (inv_run s.h.version ops s hno (inv_init s hf)).ver

/-- **recovery returns a crashed commit's node to its pre-commit image**: whatever the crashed transaction did to
the handle after logging the pre-flip image (nothing, or the flip), the priority rollback writes that image back -/
theorem C37_recovery_restores (s : Sys) (t : Nat) (i : Handle) (hc : (s.txns t).crashed = true) (hp : s.plog t = some i)
    (hv : i.version = s.h.version ∨ i.version = s.h.version - 1) :
    (step true s (.recover t)).h = i ∧ (step true s (.recover t)).plog t = none := by
  unfold step
  simp [hc, hp, hv]

/-- a small system with two transactions based on version 1 of the same node -/
def two : Sys :=
  { h := { lid := 1, idA := 1, version := 1 }, blob := fun k => k == 1,
    txns := fun k => { readVersion := 1, fresh := 10 + k } }

theorem two_fresh : Fresh two := ⟨rfl, rfl, fun _ => ⟨rfl, rfl⟩⟩

/-- **the lock hypothesis is needed**: with the discipline off, both transactions read, both reserve (the second
blind write replaces the first), both flip — two successors of version 1 -/
theorem C37_lock_needed :
    (run false two [.get 0, .get 1, .reserve 0, .reserve 1, .stage 0, .stage 1, .flip 0, .flip 1]).flips = [(0, 1), (1, 1)] := by
  decide +kernel

/-- with the discipline the same eager schedule installs once; the second transaction must wait for the lock
and then finds the version changed -/
theorem C37_disciplined_example :
    (run true two [.lock 0, .lock 1, .get 0, .get 1, .reserve 0, .reserve 1, .stage 0, .stage 1, .flip 0, .flip 1,
                   .unlock 0, .lock 1, .get 1, .reserve 1, .stage 1, .flip 1]).flips = [(0, 1)] := by
  decide +kernel

/-! ## The reservation is a claim that holds even without the node lock -/

/-- a live claim on the node: both physical slots in use, the reservation is not expired, and it was made by `owner` -/
structure Claimed (s : Sys) (owner : Nat) : Prop where
  both : s.h.bothInUse = true
  live : s.h.expiredInactive s.now s.hour = false
  nz : s.h.inactive ≠ 0

/-- every transaction other than the owner comes after the claim: it has read, reserved, staged and logged nothing
yet, and the id it will allocate is not the claimed one -/
def Latecomers (s : Sys) (owner : Nat) (h0 : Handle) : Prop :=
  ∀ k, k ≠ owner → ((s.txns k).got = none ∨ (s.txns k).got = some h0) ∧ (s.txns k).img = none ∧ (s.txns k).staged = false ∧
    s.plog k = none ∧ (s.txns k).fresh ≠ h0.inactive

theorem reserveOne_claimed (now hour : Int) (f : UUID) (h : Handle) (v : Int) (hb : h.bothInUse = true)
    (he : h.expiredInactive now hour = false) : reserveOne now hour f h v = none := by
  unfold reserveOne
  split
  · rfl
  · simp [he, Handle.allocate, hb]

theorem claim_step (owner : Nat) (s : Sys) (o : Op) (ho : o.txn ≠ some owner) (hc : Claimed s owner)
    (hl : Latecomers s owner s.h) :
    (step false s o).h = s.h ∧ (step false s o).now = s.now ∧ (step false s o).hour = s.hour ∧
      Latecomers (step false s o) owner s.h := by
  have upd : ∀ (k : Nat) (x : Txn) (lk : Option Nat), k ≠ owner →
      ((x.got = none ∨ x.got = some s.h) ∧ x.img = none ∧ x.staged = false ∧ x.fresh = (s.txns k).fresh) →
      Latecomers { (s.setTxn k x) with lock := lk } owner s.h := by
    intro k x lk hk hx j hj
    by_cases e : j = k
    · subst e
      simp only [setTxn_txns, ↓reduceIte]
      exact ⟨hx.1, hx.2.1, hx.2.2.1, (hl j hj).2.2.2.1, by rw [hx.2.2.2]; exact (hl j hj).2.2.2.2⟩
    · simp only [setTxn_txns, e, ↓reduceIte]
      exact hl j hj
  cases o with
  | lose => exact ⟨rfl, rfl, rfl, hl⟩
  | lock t =>
    have ht : t ≠ owner := fun e => ho (by rw [e]; rfl)
    simp only [step]
    split
    · exact ⟨rfl, rfl, rfl, hl⟩
    · split
      · exact ⟨rfl, rfl, rfl, upd t _ _ ht ⟨.inl rfl, rfl, rfl, rfl⟩⟩
      · exact ⟨rfl, rfl, rfl, hl⟩
  | unlock t =>
    have ht : t ≠ owner := fun e => ho (by rw [e]; rfl)
    simp only [step]
    split
    · exact ⟨rfl, rfl, rfl, upd t _ _ ht ⟨.inl rfl, rfl, rfl, rfl⟩⟩
    · exact ⟨rfl, rfl, rfl, hl⟩
  | get t =>
    have ht : t ≠ owner := fun e => ho (by rw [e]; rfl)
    simp only [step]
    split
    · exact ⟨rfl, rfl, rfl, upd t _ s.lock ht ⟨.inr rfl, (hl t ht).2.1, (hl t ht).2.2.1, rfl⟩⟩
    · exact ⟨rfl, rfl, rfl, hl⟩
  | reserve t =>
    have ht : t ≠ owner := fun e => ho (by rw [e]; rfl)
    simp only [step]
    split
    · split
      · exact ⟨rfl, rfl, rfl, hl⟩
      · rename_i g hg
        have : g = s.h := by
          rcases (hl t ht).1 with e | e
          · rw [e] at hg; cases hg
          · rw [e] at hg; exact (Option.some.inj hg).symm
        rw [this, reserveOne_claimed _ _ _ _ _ hc.both hc.live]
        exact ⟨rfl, rfl, rfl, hl⟩
    · exact ⟨rfl, rfl, rfl, hl⟩
  | stage t =>
    have ht : t ≠ owner := fun e => ho (by rw [e]; rfl)
    simp only [step, (hl t ht).2.1]
    split <;> exact ⟨rfl, rfl, rfl, hl⟩
  | logPre t =>
    have ht : t ≠ owner := fun e => ho (by rw [e]; rfl)
    simp only [step, (hl t ht).2.1]
    split <;> exact ⟨rfl, rfl, rfl, hl⟩
  | flip t =>
    have ht : t ≠ owner := fun e => ho (by rw [e]; rfl)
    simp only [step, (hl t ht).2.2.1, Bool.and_false, Bool.false_and, Bool.false_eq_true, ↓reduceIte]
    exact ⟨trivial, trivial, trivial, hl⟩
  | undo t =>
    have ht : t ≠ owner := fun e => ho (by rw [e]; rfl)
    have h1 : (s.h.inactive == 0) = false := by simpa using hc.nz
    have h2 : (s.h.inactive == (s.txns t).fresh) = false := by
      simpa using fun e => (hl t ht).2.2.2.2 e.symm
    simp only [step, h1, h2, Bool.or_self, Bool.and_false, Bool.false_eq_true, ↓reduceIte]
    exact ⟨trivial, trivial, trivial, hl⟩
  | crash t =>
    have ht : t ≠ owner := fun e => ho (by rw [e]; rfl)
    simp only [step]
    exact ⟨rfl, rfl, rfl, upd t _ s.lock ht ⟨(hl t ht).1, (hl t ht).2.1, (hl t ht).2.2.1, rfl⟩⟩
  | recover t =>
    have ht : t ≠ owner := fun e => ho (by rw [e]; rfl)
    simp only [step, (hl t ht).2.2.2.1]
    split <;> first | exact ⟨rfl, rfl, rfl, hl⟩ | exact ⟨trivial, trivial, trivial, hl⟩
  | restore t =>
    have ht : t ≠ owner := fun e => ho (by rw [e]; rfl)
    simp only [step, (hl t ht).2.2.2.1]
    split <;> first | exact ⟨rfl, rfl, rfl, hl⟩ | exact ⟨trivial, trivial, trivial, hl⟩

/-- **The reservation is a claim** (`AllocateID` + the version/in-use test of `commitUpdatedNodes` + "a reservation is
released by its owner only"): while a claim is live, NO operation sequence of transactions that come after it — any
number of them, in any interleaving, WITH OR WITHOUT the node lock (the lock service may even forget the lock) —
changes the node's handle: they cannot reserve, flip or clear it. Only the owner (or, after a crash, recovery; or the
one-hour expiry) moves the node on. This is what makes a lost lock between phase 1 and phase 2 harmless. -/
theorem C37_claim_respected (owner : Nat) (ops : List Op) (s : Sys) (ho : ∀ o ∈ ops, o.txn ≠ some owner)
    (hc : Claimed s owner) (hl : Latecomers s owner s.h) : (run false s ops).h = s.h := by
  unfold run
  induction ops generalizing s with
  | nil => rfl
  | cons o t ih =>
    simp only [List.foldl_cons]
    obtain ⟨e1, e2, e3, l'⟩ := claim_step owner s o (ho o (List.mem_cons_self ..)) hc hl
    have hc' : Claimed (step false s o) owner := ⟨by rw [e1]; exact hc.both, by rw [e1, e2, e3]; exact hc.live, by rw [e1]; exact hc.nz⟩
    rw [ih (step false s o) (fun o' ho' => ho o' (List.mem_cons_of_mem _ ho')) hc' (by rw [e1]; exact l'), e1]

/-- a claimed system: transaction 0 has reserved id 10 on version 1 of node 1; every other transaction comes later -/
def claimed : Sys :=
  { h := { lid := 1, idA := 1, idB := 10, version := 1, wip := 1000000000 }, blob := fun k => k == 1 || k == 10,
    txns := fun k => { readVersion := 1, fresh := 10 + k } }

/-- the hypotheses of `C37_claim_respected` are satisfiable, by a state the protocol itself reaches -/
example : Claimed claimed 0 ∧ Latecomers claimed 0 claimed.h := by
  refine ⟨⟨by decide +kernel, by decide +kernel, by decide +kernel⟩, ?_⟩
  intro k hk
  refine ⟨.inl rfl, rfl, rfl, rfl, ?_⟩
  show 10 + k ≠ 10
  omega

example : (run true two [.lock 0, .get 0, .reserve 0, .stage 0]).h = claimed.h := by decide +kernel

end Sop.C37
