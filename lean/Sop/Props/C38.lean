import Sop.Model.Alias
/-! # C38 — values returned by reads are private to the caller

`Sop.Model.Alias` is a hand transcription of Go's aliasing in `cache/l1cache.go` (shallow `CopyTo` clones),
`btree.GetCurrentValue` (`*item.Value`) and `nodeRepositoryBackend.get`; the correspondence run
(harness/cmd/c38) compares every read of real transactions with it.

Privacy = non-interference: writing through a value a read returned changes nothing any later operation can
observe.  `Statement_C38` says so for every history; it is FALSE for reference kinds (`[]byte`, maps, slices,
pointers) kept in the node (`C38_counterexample`: the L1 clone shares the value cells; and
`C38_counterexample_durable`: another transaction's commit of an unrelated update marshals the shared cell and
makes the never-committed mutation durable).  It is proved for value kinds (`C38_private_value_kinds`) and, for
stores whose values are fetched from value blobs, for every read that has to fetch (`C38_private_fetched`). -/
namespace Sop.C38
open Sop.Alias

/-- contents returned by the reads of a history -/
def reads (s : St) : List Op → List (Option Nat)
  | [] => []
  | .read k kind :: rest => (s.apply (.read k kind)).2 :: reads (s.apply (.read k kind)).1 rest
  | op :: rest => reads (s.apply op).1 rest

def isMutate : Op → Bool
  | .mutate _ => true
  | _ => false

/-- the property at full strength: in-place writes through returned values are unobservable -/
def Statement_C38 : Prop :=
  ∀ (vnf : Bool) (disk : Disk) (ops : List Op),
    reads { vnf := vnf, disk := disk } ops = reads { vnf := vnf, disk := disk } (ops.filter (fun o => !isMutate o))

/-! ## counterexamples -/

def disk0 : Disk := [(1, 11), (2, 22), (3, 33)]

/-- DESIGN.md's witness: transaction A reads `[]byte` key 1, writes through it, rolls back; B and C read 77 -/
def jello : List Op :=
  [.begin, .read 1 .byRef, .mutate 77, .rollback, .begin, .read 1 .byRef, .commit, .begin, .read 1 .byRef, .rollback]

theorem C38_counterexample_later_reads :
    reads { vnf := false, disk := disk0 } jello = [some 11, some 77, some 77] ∧
    reads { vnf := false, disk := disk0 } (jello.filter (fun o => !isMutate o)) = [some 11, some 11, some 11] := by decide

/-- … and after B commits an update of ANOTHER key, A's rolled-back mutation is on disk: a cold process reads it -/
def durable : List Op :=
  [.begin, .read 1 .byRef, .mutate 77, .rollback, .begin, .update 2 55, .commit, .clear, .begin, .read 1 .byRef, .rollback]

theorem C38_counterexample_durable :
    reads { vnf := false, disk := disk0 } durable = [some 11, some 77] ∧
    get (runFrom { vnf := false, disk := disk0 } durable).1.disk 1 = some 77 := by decide

theorem C38_counterexample : ¬ Statement_C38 := by
  intro h
  have := h false disk0 jello
  rw [C38_counterexample_later_reads.1, C38_counterexample_later_reads.2] at this
  exact absurd this (by decide)

/-! ## value kinds: the caller's copy is unreachable -/

def allByValue : List Op → Bool
  | [] => true
  | .read _ kind :: rest => (kind == .byValue) && allByValue rest
  | _ :: rest => allByValue rest

theorem fetch_ret (s1 : St) (t : Txn) (n : Node) (k : Nat) : (fetch s1 t n k .byValue).1.ret = none := by
  unfold fetch; split <;> simp

theorem filter_keep (op : Op) (rest : List Op) (h : isMutate op = false) :
    (op :: rest).filter (fun o => !isMutate o) = op :: rest.filter (fun o => !isMutate o) := by
  simp [List.filter, h]

theorem filter_drop (op : Op) (rest : List Op) (h : isMutate op = true) :
    (op :: rest).filter (fun o => !isMutate o) = rest.filter (fun o => !isMutate o) := by
  simp [List.filter, h]

theorem apply_ret_none (s : St) (op : Op) (h : s.ret = none)
    (hv : ∀ k kind, op = .read k kind → kind = .byValue) : (s.apply op).1.ret = none := by
  cases op with
  | begin => simpa [St.apply] using h
  | read k kind =>
    have hk := hv k kind rfl
    subst hk
    simp only [St.apply]
    split
    · exact h
    · rename_i t _
      have hl : (s.node t).1.ret = none := by
        unfold St.node; split
        · exact h
        · unfold St.load; split
          · exact h
          · split <;> simpa using h
      generalize s.node t = p at hl
      obtain ⟨s1, n⟩ := p
      simp only at hl ⊢
      split
      · split
        · split
          · simp
          · exact fetch_ret s1 _ n k
        · exact fetch_ret s1 _ n k
      · split <;> simp
  | mutate x => simp [St.apply, h]
  | update k v =>
    simp only [St.apply]
    split
    · exact h
    · rename_i t _
      split
      · exact h
      · have hl : (s.node t).1.ret = none := by
          unfold St.node; split
          · exact h
          · unfold St.load; split
            · exact h
            · split <;> simpa using h
        generalize s.node t = p at hl
        obtain ⟨s1, n⟩ := p
        simpa using hl
  | commit =>
    simp only [St.apply]
    split
    · exact h
    · split <;> simpa using h
  | rollback => simpa [St.apply] using h
  | clear => simpa [St.apply] using h

/-- **Value kinds are private.**  When every read returns a value kind (`string`, plain struct), deleting every
in-place write from a history changes no read, in any placement, with or without cache drops and commits. -/
theorem C38_private_value_kinds (ops : List Op) : ∀ (s : St), s.ret = none → allByValue ops = true →
    reads s ops = reads s (ops.filter (fun o => !isMutate o)) := by
  induction ops with
  | nil => intros; rfl
  | cons op rest ih =>
    intro s hr hv
    cases op with
    | mutate x =>
      have : (s.apply (.mutate x)).1 = s := by simp [St.apply, hr]
      rw [filter_drop _ _ rfl]
      simp only [reads]
      rw [this]
      exact ih s hr (by simpa [allByValue] using hv)
    | read k kind =>
      have hk : kind = .byValue := by
        simp only [allByValue, Bool.and_eq_true, beq_iff_eq] at hv; exact hv.1
      have hrest : allByValue rest = true := by
        simp only [allByValue, Bool.and_eq_true] at hv; exact hv.2
      rw [filter_keep _ _ rfl]
      simp only [reads]
      rw [ih _ (apply_ret_none s _ hr (by intro k' kind' h; cases h; exact hk)) hrest]
    | begin =>
      rw [filter_keep _ _ rfl]
      simp only [reads]
      exact ih _ (apply_ret_none s _ hr (by intro _ _ h; cases h)) (by simpa [allByValue] using hv)
    | update k v =>
      rw [filter_keep _ _ rfl]
      simp only [reads]
      exact ih _ (apply_ret_none s _ hr (by intro _ _ h; cases h)) (by simpa [allByValue] using hv)
    | commit =>
      rw [filter_keep _ _ rfl]
      simp only [reads]
      exact ih _ (apply_ret_none s _ hr (by intro _ _ h; cases h)) (by simpa [allByValue] using hv)
    | rollback =>
      rw [filter_keep _ _ rfl]
      simp only [reads]
      exact ih _ (apply_ret_none s _ hr (by intro _ _ h; cases h)) (by simpa [allByValue] using hv)
    | clear =>
      rw [filter_keep _ _ rfl]
      simp only [reads]
      exact ih _ (apply_ret_none s _ hr (by intro _ _ h; cases h)) (by simpa [allByValue] using hv)

/-- the hypothesis is satisfiable by a non-trivial history; and for it the conclusion is not vacuous -/
def sampleValue : List Op :=
  [.begin, .read 1 .byValue, .mutate 77, .update 2 55, .commit, .clear, .begin, .read 1 .byValue, .read 2 .byValue, .rollback]

example : allByValue sampleValue = true ∧
    reads { vnf := false, disk := disk0 } sampleValue = [some 11, some 11, some 55] := by decide

/-! ## values fetched from value blobs: every fetch is a fresh cell -/

theorem load_disk (s : St) : s.load.1.disk = s.disk ∧ s.load.1.vnf = s.vnf := by
  unfold St.load
  split
  · exact ⟨rfl, rfl⟩
  · split
    · exact ⟨rfl, rfl⟩
    · exact ⟨rfl, rfl⟩

theorem node_disk (s : St) (t : Txn) : (s.node t).1.disk = s.disk ∧ (s.node t).1.vnf = s.vnf := by
  unfold St.node
  split
  · exact ⟨rfl, rfl⟩
  · exact load_disk s

/-- a store whose values live in value blobs, with no dirty transaction (`update` does nothing there in the model:
the harness never updates such a store inside a scenario) -/
def Fetched (s : St) : Prop := s.vnf = true ∧ ∀ t, s.txn = some t → t.dirty = false

theorem fetch_facts (s1 : St) (t : Txn) (n : Node) (k : Nat) (kind : Kind) :
    (fetch s1 t n k kind).1.disk = s1.disk ∧ (fetch s1 t n k kind).1.vnf = s1.vnf ∧
    (∀ t', (fetch s1 t n k kind).1.txn = some t' → t'.dirty = t.dirty) ∧
    (fetch s1 t n k kind).2 = get s1.disk k := by
  unfold fetch
  split
  · rename_i c hc
    refine ⟨rfl, rfl, ?_, hc.symm⟩
    intro t' h; simp at h; rw [← h]
  · rename_i hc
    refine ⟨rfl, rfl, ?_, hc.symm⟩
    intro t' h; simp at h; rw [← h]

/-- nothing a transaction does to such a store changes the value blobs, and the invariant is kept -/
theorem fetched_step (s : St) (h : Fetched s) (op : Op) :
    Fetched (s.apply op).1 ∧ (s.apply op).1.disk = s.disk := by
  obtain ⟨hv, hd⟩ := h
  cases op with
  | begin => exact ⟨⟨hv, by intro t ht; simp [St.apply] at ht; rw [← ht]⟩, rfl⟩
  | read k kind =>
    simp only [St.apply]
    split
    · exact ⟨⟨hv, hd⟩, rfl⟩
    · rename_i t ht
      have hl := node_disk s t
      generalize s.node t = p at hl
      obtain ⟨s1, n⟩ := p
      simp only at hl ⊢
      have hv1 : s1.vnf = true := by rw [hl.2]; exact hv
      simp only [hv1, ↓reduceIte]
      have hf : Fetched (fetch s1 t n k kind).1 ∧ (fetch s1 t n k kind).1.disk = s.disk := by
        obtain ⟨f1, f2, f3, _⟩ := fetch_facts s1 t n k kind
        exact ⟨⟨by rw [f2]; exact hv1, fun t' ht' => by rw [f3 t' ht']; exact hd t ht⟩, by rw [f1]; exact hl.1⟩
      split
      · split
        · exact ⟨⟨by simp, by intro t' ht'; simp at ht'; rw [← ht']; exact hd t ht⟩, by simpa using hl.1⟩
        · exact hf
      · exact hf
  | mutate x =>
    cases hs : s.ret with
    | none => simp only [St.apply, hs]; exact ⟨⟨hv, hd⟩, trivial⟩
    | some a => simp only [St.apply, hs]; exact ⟨⟨hv, hd⟩, trivial⟩
  | update k v =>
    simp only [St.apply]
    split
    · exact ⟨⟨hv, hd⟩, rfl⟩
    · simp only [hv, ↓reduceIte]; exact ⟨⟨hv, hd⟩, trivial⟩
  | commit =>
    simp only [St.apply]
    split
    · exact ⟨⟨hv, hd⟩, rfl⟩
    · rename_i t ht
      have hdt := hd t ht
      split
      · rename_i n hn hdirty
        rw [hdt] at hdirty; cases hdirty
      · exact ⟨⟨hv, by intro t' ht'; simp at ht'⟩, rfl⟩
  | rollback => exact ⟨⟨hv, by intro t' ht'; simp [St.apply] at ht'⟩, rfl⟩
  | clear => exact ⟨⟨hv, hd⟩, rfl⟩

theorem fetched_run (ops : List Op) : ∀ s, Fetched s → Fetched (runFrom s ops).1 ∧ (runFrom s ops).1.disk = s.disk := by
  induction ops with
  | nil => intro s h; exact ⟨h, rfl⟩
  | cons op rest ih =>
    intro s h
    obtain ⟨h1, h2⟩ := fetched_step s h op
    obtain ⟨h3, h4⟩ := ih _ h1
    simp only [runFrom]
    exact ⟨h3, by rw [h4, h2]⟩

/-- **Fetched values are private.**  In a store whose values live in value blobs, after ANY history (any value
kind, any in-place writes by anybody), a read that has to fetch — every read except a repeated read of the key the
same transaction's cursor is still on — returns exactly the durable content, which no history changes. -/
theorem C38_private_fetched (s0 : St) (h0 : Fetched s0) (ops : List Op) (k : Nat) (kind : Kind) (t : Txn)
    (ht : (runFrom s0 ops).1.txn = some t) (hcur : ∀ a, t.cur ≠ some (k, a)) :
    ((runFrom s0 ops).1.apply (.read k kind)).2 = get s0.disk k := by
  obtain ⟨⟨hv, _⟩, hdisk⟩ := fetched_run ops s0 h0
  generalize (runFrom s0 ops).1 = s at *
  simp only [St.apply, ht]
  have hl := node_disk s t
  generalize s.node t = p at hl
  obtain ⟨s1, n⟩ := p
  simp only at hl ⊢
  have hv1 : s1.vnf = true := by rw [hl.2]; exact hv
  simp only [hv1, ↓reduceIte]
  have hf : (fetch s1 t n k kind).2 = get s0.disk k := by
    rw [(fetch_facts s1 t n k kind).2.2.2, hl.1, hdisk]
  split
  · rename_i k' a hc
    split
    · rename_i hk; subst hk; exact absurd hc (hcur a)
    · exact hf
  · exact hf

/-- non-vacuity: a fetched store, someone writes through a `[]byte` it read, the next transaction reads the key -/
example : Fetched { vnf := true, disk := disk0 } ∧
    reads { vnf := true, disk := disk0 } jello = [some 11, some 11, some 11] := by
  refine ⟨⟨rfl, by intro t h; cases h⟩, by decide⟩

end Sop.C38
